(* Model of /repo/src/state/unification.rs : unify_rec / unify_rec_compound.
   [unify f s ext u v] : s is the state's substitution, ext the extension collected so far
   (newest first); UOk carries the extended substitution and extension. *)
From Coq Require Import List ZArith Bool Arith Lia.
From PV Require Import Model.Term Model.Subst.
Import ListNotations.

Inductive ures := UOk (s ext : smap) | UFail | UOOF.

Definition bindv (f : nat) (s ext : smap) (x : nat) (t : term) : ures :=
  match occurs f s x t with
  | None => UOOF
  | Some true => UFail
  | Some false => UOk ((x, t) :: s) ((x, t) :: ext)
  end.

Fixpoint unify (f : nat) (s ext : smap) (u v : term) : ures :=
  match f with
  | O => UOOF
  | S f' =>
      match wkc s u, wkc s v with
      | None, _ | _, None => UOOF
      | Some uw, Some vw =>
      match uw, vw with
      | TVar a _, TVar b _ => if Nat.eqb a b then UOk s ext else bindv f' s ext a vw
      | TVar a _, _ => bindv f' s ext a vw
      | _, TVar b _ => bindv f' s ext b uw
      | TVal x, TVal y => if lit_eqb x y then UOk s ext else UFail
      | TEmpty, TEmpty => UOk s ext
      | TCons h1 t1, TCons h2 t2 =>
          match unify f' s ext h1 h2 with
          | UOk s1 e1 => unify f' s1 e1 t1 t2
          | r => r
          end
      | TComp g1 c1, TComp g2 c2 =>
          if Nat.eqb g1 g2 then unify_list f' s ext c1 c2 else UFail
      | _, _ => UFail
      end
      end
  end
with unify_list (f : nat) (s ext : smap) (us vs : terms) : ures :=
  match f with
  | O => UOOF
  | S f' =>
      match us, vs with
      | TNil, TNil => UOk s ext
      | TMore a ar, TMore b br =>
          match unify f' s ext a b with
          | UOk s1 e1 => unify_list f' s1 e1 ar br
          | r => r
          end
      | _, _ => UFail
      end
  end.
