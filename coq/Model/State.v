(* Model of /repo/src/state/mod.rs (State and its operations), state/constraint/store.rs,
   relation/diseq.rs (DisequalityConstraint), relation/clpfd/*.rs and relation/clpz/*.rs
   (the constraint objects and their run methods), user.rs (hooks, as a log).
   Executable definitions only.

   - The constraint store is a HashSet of Rc<dyn Constraint> compared by pointer.  Here it is a list
     of (id, constraint); ids are drawn from the state's counter [nextc] and stand for the pointer
     identity.  Iteration order of the HashSet is arbitrary in Rust; the model iterates in list
     order (oldest first).  Checks compare observables that do not depend on that order.
   - The domain store is a HashMap from variables to domains: an association list.
   - The user state is modelled by the log of hook calls [ulog] (newest first).
   - Everything that can re-run constraints is recursive through run_constraints and takes fuel. *)
From Coq Require Import List ZArith Bool Arith Lia.
From PV Require Import Model.Term Model.Subst Model.Unify Model.FD.
Import ListNotations.

Inductive constraint :=
| KDiseq (ps : smap)
| KLte (u v : term)
| KPlus (u v w : term)
| KMinus (u v w : term)
| KTimes (u v w : term)
| KDiseqFd (u v : term)
| KDistinct (u : term)
| KDistinct2 (u : term) (y : list term) (n : list Z)
| KPlusZ (u v w : term)
| KTimesZ (u v w : term).

Inductive uevent := UWith (id : nat) | UTake (id : nat) | UExt (ext : smap)
| UProbe (tag n_with n_take n_store n_ext : nat) (last_ext : smap).

Record state := mkState {
  st_smap : smap;
  st_cstore : list (nat * constraint);
  st_dstore : list (nat * fd);
  st_ulog : list uevent;
  st_nextv : nat;      (* next unused variable id (global VarID counter in Rust) *)
  st_nextc : nat       (* next unused constraint identity *)
}.

Definition empty_state (nv : nat) : state := mkState [] [] [] [] nv 0.

Definition set_smap (st : state) (s : smap) : state :=
  mkState s (st_cstore st) (st_dstore st) (st_ulog st) (st_nextv st) (st_nextc st).
Definition set_cstore (st : state) (c : list (nat * constraint)) : state :=
  mkState (st_smap st) c (st_dstore st) (st_ulog st) (st_nextv st) (st_nextc st).
Definition set_dstore (st : state) (d : list (nat * fd)) : state :=
  mkState (st_smap st) (st_cstore st) d (st_ulog st) (st_nextv st) (st_nextc st).
Definition log_event (st : state) (e : uevent) : state :=
  mkState (st_smap st) (st_cstore st) (st_dstore st) (e :: st_ulog st) (st_nextv st) (st_nextc st).
Definition set_nextv (st : state) (n : nat) : state :=
  mkState (st_smap st) (st_cstore st) (st_dstore st) (st_ulog st) n (st_nextc st).
Definition bump_nextc (st : state) : state :=
  mkState (st_smap st) (st_cstore st) (st_dstore st) (st_ulog st) (st_nextv st) (S (st_nextc st)).

Inductive sres := SOk (st : state) | SFail | SOOF | SPanic (site : nat).

Definition sbind (r : sres) (k : state -> sres) : sres :=
  match r with SOk st => k st | other => other end.

(* ------------------------------------------------------------------ disequality constraints *)

(* DisequalityConstraint::subsumes : self = a, other = b.
   Unify every pair of a in the substitution b; true iff all succeed without extending. *)
Fixpoint unify_pairs (f : nat) (s ext : smap) (ps : smap) : ures :=
  match ps with
  | [] => UOk s ext
  | (x, t) :: r =>
      match unify f s ext (TVar x false) t with
      | UOk s1 e1 => unify_pairs f s1 e1 r
      | other => other
      end
  end.

Definition subsumes (a b : smap) : bool :=
  match unify_pairs dfuel b [] a with
  | UOk _ [] => true
  | _ => false
  end.

(* ConstraintStore::push_and_normalize as repaired: a new disequality already implied by a stored
   one is not inserted; stored disequalities implied by the new one are dropped.
   Returns the new store and the list of dropped (id, constraint) (the new one included when it is
   the redundant one) so that the take_constraint hook can be called for them. *)
Definition is_diseq (c : constraint) : option smap :=
  match c with KDiseq ps => Some ps | _ => None end.

Definition stored_subsumes_new (store : list (nat * constraint)) (newps : smap) : bool :=
  existsb (fun ic => match is_diseq (snd ic) with Some ps => subsumes ps newps | None => false end) store.

Definition push_and_normalize (store : list (nat * constraint)) (id : nat) (c : constraint)
  : list (nat * constraint) * list (nat * constraint) :=
  match is_diseq c with
  | Some newps =>
      if stored_subsumes_new store newps then (store, [(id, c)])
      else
        let keep := filter (fun ic => match is_diseq (snd ic) with
                                      | Some ps => negb (subsumes newps ps) | None => true end) store in
        let drop := filter (fun ic => match is_diseq (snd ic) with
                                      | Some ps => subsumes newps ps | None => false end) store in
        (keep ++ [(id, c)], drop)
  | None => (store ++ [(id, c)], [])
  end.

(* The pinned definition: drops the stored constraint whenever either subsumes the other and
   always inserts the new one; no hook for the dropped ones. *)
Definition push_and_normalize_pinned (store : list (nat * constraint)) (id : nat) (c : constraint)
  : list (nat * constraint) :=
  match is_diseq c with
  | Some newps =>
      filter (fun ic => match is_diseq (snd ic) with
                        | Some ps => negb (subsumes ps newps) && negb (subsumes newps ps)
                        | None => true end) store ++ [(id, c)]
  | None => store ++ [(id, c)]
  end.

(* State::with_constraint for an object with identity [id] *)
Definition with_constraint_id (st : state) (id : nat) (c : constraint) : state :=
  let st1 := log_event st (UWith id) in
  let '(store, dropped) := push_and_normalize (st_cstore st1) id c in
  let st2 := set_cstore st1 store in
  fold_left (fun s ic => log_event s (UTake (fst ic))) dropped st2.

(* ... for a newly created constraint object *)
Definition with_new_constraint (st : state) (c : constraint) : state :=
  with_constraint_id (bump_nextc st) (st_nextc st) c.

Fixpoint remove_id {A} (id : nat) (l : list (nat * A)) : list (nat * A) :=
  match l with
  | [] => []
  | (i, a) :: r => if Nat.eqb i id then r else (i, a) :: remove_id id r
  end.
Fixpoint find_id {A} (id : nat) (l : list (nat * A)) : option A :=
  match l with
  | [] => None
  | (i, a) :: r => if Nat.eqb i id then Some a else find_id id r
  end.

(* State::take_constraint *)
Definition take_constraint (st : state) (id : nat) : state * option constraint :=
  match find_id id (st_cstore st) with
  | Some c => (log_event (set_cstore st (remove_id id (st_cstore st))) (UTake id), Some c)
  | None => (st, None)
  end.

(* ------------------------------------------------------------------ domains *)
Definition dom_get (st : state) (t : term) : option fd :=
  match t with TVar v _ => find_id v (st_dstore st) | _ => None end.
Definition dom_remove (st : state) (v : nat) : state := set_dstore st (remove_id v (st_dstore st)).
Definition dom_insert (st : state) (v : nat) (d : fd) : state :=
  set_dstore st ((v, d) :: remove_id v (st_dstore st)).

(* the operand domain used by plusfd/minusfd/timesfd/diseqfd: store lookup for a variable,
   singleton interval for a number, nothing otherwise *)
Definition operand_domain (st : state) (t : term) : option fd :=
  match t with
  | TVar v _ => find_id v (st_dstore st)
  | TVal (LNum n) => Some (Interval n n)
  | _ => None
  end.
Definition get_number (t : term) : option Z := match t with TVal (LNum n) => Some n | _ => None end.

Definition zmin (d : fd) : Z := match fd_min d with Some z => z | None => 0%Z end.
Definition zmax (d : fd) : Z := match fd_max d with Some z => z | None => 0%Z end.

(* saturating / checked isize arithmetic used by the propagators *)
Definition sat_mul (a b : Z) : Z := clamp (a * b).
Definition chk_div (a b : Z) : option Z :=
  if Z.eqb b 0 then None
  else if Z.eqb a isize_min && Z.eqb b (-1) then None
  else Some (Z.quot a b).

Definition panic_site_distinct_value : nat := 1.
Definition panic_site_distinct_term : nat := 2.
Definition panic_site_distinct_arg : nat := 3.
Definition panic_site_exclude_not_list : nat := 4.
Definition panic_site_update_nonvar : nat := 5.
Definition panic_site_timesz_div : nat := 6.

Fixpoint list_of_term (t : term) : list term :=
  (* LTerm::iter : the elements, an improper tail as last element, a non-list as itself *)
  match t with
  | TEmpty => []
  | TCons h tl => h :: list_of_term tl
  | other => [other]
  end.
Definition is_list_term (t : term) : bool :=
  match t with TEmpty | TCons _ _ => true | _ => false end.

Fixpoint insert_sorted_nodup (x : Z) (l : list Z) : option (list Z) :=
  (* binary_search: Ok => None (duplicate), Err(pos) => insert *)
  match l with
  | [] => Some [x]
  | y :: r => if Z.eqb x y then None
              else if Z.ltb x y then Some (x :: l)
              else match insert_sorted_nodup x r with Some r' => Some (y :: r') | None => None end
  end.
Fixpoint strictly_increasing (l : list Z) : bool :=
  match l with
  | x :: ((y :: _) as r) => Z.ltb x y && strictly_increasing r
  | _ => true
  end.

Section Fuelled.

(* one level of the mutual recursion process_domain <-> run_constraints <-> constraint.run,
   parametrised by the function for the next-lower fuel *)
Variable run_constraints_rec : state -> sres.

(* State::resolve_storable_domain (x is a variable id) *)
Definition resolve_storable_domain (st : state) (x : nat) (xt : term) (d : fd) : sres :=
  match fd_singleton_value d with
  | Some n =>
      let st1 := set_smap st ((x, tnum n) :: st_smap st) in
      run_constraints_rec (dom_remove st1 x)
  | None => SOk (dom_insert st x d)
  end.

(* State::update_var_domain *)
Definition update_var_domain (st : state) (x : nat) (xt : term) (d : fd) : sres :=
  match find_id x (st_dstore st) with
  | Some old =>
      match fd_intersect old d with
      | Some i => resolve_storable_domain st x xt i
      | None => SFail
      end
  | None => resolve_storable_domain st x xt d
  end.

(* State::process_domain *)
Definition process_domain (st : state) (x : term) (d : fd) : sres :=
  (* repaired: the variable is walked first (the caller may hold a variable bound in the meantime) *)
  match wk (st_smap st) x with
  | TVar v _ => update_var_domain st v x d
  | TVal (LNum n) => if fd_contains d n then SOk st else SFail
  | _ => SFail
  end.

Definition opt_domain (o : option fd) (k : fd -> sres) : sres :=
  match o with Some d => k d | None => SFail end.

(* State::exclude_from_domain : [ds] is the snapshot of the domain store taken on entry *)
Fixpoint exclude_from_domain (ds : list (nat * fd)) (st : state) (xs : list term) (excl : fd) : sres :=
  match xs with
  | [] => SOk st
  | y :: r =>
      match (match y with TVar v _ => find_id v ds | _ => None end) with
      | Some d =>
          match fd_diff d excl with
          | Some d' => sbind (process_domain st y d') (fun st' => exclude_from_domain ds st' r excl)
          | None => SFail
          end
      | None => exclude_from_domain ds st r excl
      end
  end.

Variable run_constraint_rec : nat -> constraint -> state -> sres.

(* the three-operand interval propagators share their shape: ground check, then three prunings *)
Definition arith3 (id : nat) (c : constraint) (st : state) (u v w : term)
  (ground : Z -> Z -> Z -> bool)
  (wlo whi ulo uhi vlo vhi : fd -> fd -> fd -> Z) : sres :=
  let s := st_smap st in
  let uw := wk s u in let vw := wk s v in let ww := wk s w in
  match get_number uw, get_number vw, get_number ww with
  | Some a, Some b, Some r => if ground a b r then SOk st else SFail
  | _, _, _ =>
      match operand_domain st uw, operand_domain st vw, operand_domain st ww with
      | Some ud, Some vd, Some wd =>
          sbind (process_domain st ww (Interval (wlo ud vd wd) (whi ud vd wd))) (fun st1 =>
          sbind (process_domain st1 uw (Interval (ulo ud vd wd) (uhi ud vd wd))) (fun st2 =>
          sbind (process_domain st2 vw (Interval (vlo ud vd wd) (vhi ud vd wd))) (fun st3 =>
            (* repaired: if a binding was made while pruning, the captured operands are stale
               and the constraint is run again instead of being stored unchecked *)
            if Nat.eqb (length (st_smap st3)) (length s)
            then SOk (with_constraint_id st3 id c)
            else run_constraint_rec id c st3)))
      | _, _, _ => SOk (with_constraint_id st id c)
      end
  end.

Definition zmin4 (a b c d : Z) := Z.min (Z.min a b) (Z.min c d).
Definition zmax4 (a b c d : Z) := Z.max (Z.max a b) (Z.max c d).
Definition or_default (o : option Z) (d : Z) : Z := match o with Some z => z | None => d end.

(* Constraint::run for the object with identity [id] (already taken out of the store) *)
Definition run_constraint (id : nat) (c : constraint) (st : state) : sres :=
  let s := st_smap st in
  match c with
  | KDiseq ps =>
      match unify_pairs dfuel s [] ps with
      | UFail => SOk st
      | UOOF => SOOF
      | UOk _ [] => SFail
      | UOk _ ext => SOk (with_new_constraint st (KDiseq ext))
      end
  | KLte u v =>
      let uw := wk s u in let vw := wk s v in
      match dom_get st uw, dom_get st vw with
      | Some ud, Some vd =>
          let vmax := zmax vd in let umin := zmin ud in
          opt_domain (fd_copy_before (fun x => Z.ltb vmax x) ud) (fun d1 =>
          sbind (process_domain st uw d1) (fun st1 =>
          opt_domain (fd_drop_before (fun x => Z.leb umin x) vd) (fun d2 =>
          sbind (process_domain st1 vw d2) (fun st2 =>
            if Nat.eqb (length (st_smap st2)) (length s)
            then SOk (with_constraint_id st2 id c)
            else run_constraint_rec id c st2))))
      | Some ud, None =>
          match get_number vw with
          | Some n => opt_domain (fd_copy_before (fun x => Z.ltb n x) ud) (fun d1 => process_domain st uw d1)
          | None => SOk (with_constraint_id st id c)
          end
      | None, Some vd =>
          match get_number uw with
          | Some n => opt_domain (fd_drop_before (fun x => Z.leb n x) vd) (fun d2 => process_domain st vw d2)
          | None => SOk (with_constraint_id st id c)
          end
      | None, None =>
          match get_number uw, get_number vw with
          | Some a, Some b => if Z.leb a b then SOk st else SFail
          | _, _ => SOk (with_constraint_id st id c)
          end
      end
  | KPlus u v w =>
      arith3 id c st u v w (fun a b r => Z.eqb (a + b) r)
        (fun ud vd wd => sat_add (zmin ud) (zmin vd)) (fun ud vd wd => sat_add (zmax ud) (zmax vd))
        (fun ud vd wd => sat_sub (zmin wd) (zmax vd)) (fun ud vd wd => sat_sub (zmax wd) (zmin vd))
        (fun ud vd wd => sat_sub (zmin wd) (zmax ud)) (fun ud vd wd => sat_sub (zmax wd) (zmin ud))
  | KMinus u v w =>
      arith3 id c st u v w (fun a b r => Z.eqb (a - b) r)
        (fun ud vd wd => sat_sub (zmin ud) (zmax vd)) (fun ud vd wd => sat_sub (zmax ud) (zmin vd))
        (fun ud vd wd => sat_add (zmin wd) (zmin vd)) (fun ud vd wd => sat_add (zmax wd) (zmax vd))
        (fun ud vd wd => sat_sub (zmin ud) (zmax wd)) (fun ud vd wd => sat_sub (zmax ud) (zmin wd))
  | KTimes u v w =>
      (* repaired: the product interval is the hull of the four corner products; the quotient
         pruning of u and v is applied only when all three operand domains are non-negative *)
      let nonneg (ud vd wd : fd) := Z.leb 0 (zmin ud) && Z.leb 0 (zmin vd) && Z.leb 0 (zmin wd) in
      arith3 id c st u v w (fun a b r => Z.eqb (a * b) r)
        (fun ud vd wd => zmin4 (sat_mul (zmin ud) (zmin vd)) (sat_mul (zmin ud) (zmax vd))
                               (sat_mul (zmax ud) (zmin vd)) (sat_mul (zmax ud) (zmax vd)))
        (fun ud vd wd => zmax4 (sat_mul (zmin ud) (zmin vd)) (sat_mul (zmin ud) (zmax vd))
                               (sat_mul (zmax ud) (zmin vd)) (sat_mul (zmax ud) (zmax vd)))
        (fun ud vd wd => if nonneg ud vd wd then or_default (chk_div (zmin wd) (zmax vd)) (zmin ud) else zmin ud)
        (fun ud vd wd => if nonneg ud vd wd then or_default (chk_div (zmax wd) (zmin vd)) (zmax ud) else zmax ud)
        (fun ud vd wd => if nonneg ud vd wd then or_default (chk_div (zmin wd) (zmax ud)) (zmin vd) else zmin vd)
        (fun ud vd wd => if nonneg ud vd wd then or_default (chk_div (zmax wd) (zmin ud)) (zmax vd) else zmax vd)
  | KDiseqFd u v =>
      let uw := wk s u in let vw := wk s v in
      match operand_domain st uw, operand_domain st vw with
      | Some ud, Some vd =>
          if fd_is_singleton ud && fd_is_singleton vd then
            (if Z.eqb (zmin ud) (zmin vd) then SFail else SOk st)
          else match fd_is_disjoint ud vd with
          | Some true => SOk st
          | _ =>
              let st1 := with_constraint_id st id c in
              if fd_is_singleton ud then opt_domain (fd_diff vd ud) (fun d => process_domain st1 vw d)
              else if fd_is_singleton vd then opt_domain (fd_diff ud vd) (fun d => process_domain st1 uw d)
              else SOk st1
          end
      | _, _ => SOk (with_constraint_id st id c)
      end
  | KDistinct u =>
      let v := wk s u in
      match v with
      | TVar _ _ => SOk (with_constraint_id st id c)
      | TEmpty | TCons _ _ =>
          let elems := list_of_term v in
          let xs := filter is_var elems in
          let ns := filter (fun t => negb (is_var t)) elems in
          if forallb (fun t => match get_number t with Some _ => true | None => false end) ns then
            let n := isort (flat_map (fun t => match get_number t with Some z => [z] | None => [] end) ns) in
            (* repaired: the new constraint object is run at once instead of only being stored *)
            if strictly_increasing n then run_constraint_rec (st_nextc st) (KDistinct2 u xs n) (bump_nextc st) else SFail
          else SPanic panic_site_distinct_value
      | _ => SPanic panic_site_distinct_arg
      end
  | KDistinct2 u ys n =>
      let step := fix step (ys : list term) (x : list term) (n : list Z) : option (option (list term * list Z)) + nat :=
        match ys with
        | [] => inl (Some (Some (rev x, n)))
        | y :: r =>
            match wk s y with
            | TVar _ _ => step r (y :: x) n
            | TVal (LNum z) => match insert_sorted_nodup z n with
                               | Some n' => step r x n'
                               | None => inl (Some None)
                               end
            | TVal _ => inr panic_site_distinct_value
            | _ => inr panic_site_distinct_term
            end
        end in
      match step ys [] n with
      | inr site => SPanic site
      | inl None => SOOF
      | inl (Some None) => SFail
      | inl (Some (Some (x, n'))) =>
          (* Rc::make_mut clones the object (the caller still holds a reference): new identity *)
          let st1 := with_new_constraint st (KDistinct2 u x n') in
          match n' with
          | [] => SOk st1
          | _ => match fd_from_vec n' with
                 | Some excl => exclude_from_domain (st_dstore st1) st1 x excl
                 | None => SPanic panic_site_exclude_not_list
                 end
          end
      end
  | KPlusZ u v w =>
      let uw := wk s u in let vw := wk s v in let ww := wk s w in
      match uw, vw, ww with
      | TVal (LNum a), TVal (LNum b), TVal (LNum r) => if Z.eqb (a + b) r then SOk st else SFail
      | TVal (LNum a), TVal (LNum b), TVar x _ => run_constraints_rec (set_smap st ((x, tnum (a + b)) :: s))
      | TVal (LNum a), TVar x _, TVal (LNum r) => run_constraints_rec (set_smap st ((x, tnum (r - a)) :: s))
      | TVar x _, TVal (LNum b), TVal (LNum r) => run_constraints_rec (set_smap st ((x, tnum (r - b)) :: s))
      | TVar _ _, TVar _ _, TVal (LNum _)
      | TVar _ _, TVal (LNum _), TVar _ _
      | TVal (LNum _), TVar _ _, TVar _ _
      | TVar _ _, TVar _ _, TVar _ _ => SOk (with_constraint_id st id c)
      | _, _, _ => SFail
      end
  | KTimesZ u v w =>
      let uw := wk s u in let vw := wk s v in let ww := wk s w in
      let solve (x : nat) (known r : Z) : sres :=
        (* known * X = r *)
        if Z.eqb known 0 then (if Z.eqb r 0 then SOk (with_constraint_id st id c) else SFail)
        else if Z.eqb (Z.rem r known) 0
             then run_constraints_rec (set_smap st ((x, tnum (Z.quot r known)) :: s))
             else SFail in
      match uw, vw, ww with
      | TVal (LNum a), TVal (LNum b), TVal (LNum r) => if Z.eqb (a * b) r then SOk st else SFail
      | TVal (LNum a), TVal (LNum b), TVar x _ => run_constraints_rec (set_smap st ((x, tnum (a * b)) :: s))
      | TVal (LNum a), TVar x _, TVal (LNum r) => solve x a r
      | TVar x _, TVal (LNum b), TVal (LNum r) => solve x b r
      | TVar _ _, TVar _ _, TVal (LNum _)
      | TVar _ _, TVal (LNum _), TVar _ _
      | TVal (LNum _), TVar _ _, TVar _ _
      | TVar _ _, TVar _ _, TVar _ _ => SOk (with_constraint_id st id c)
      | _, _, _ => SFail
      end
  end.

End Fuelled.

(* State::run_constraints : snapshot the store, then take and run each constraint still present *)
Fixpoint run_constraints (f : nat) (st : state) : sres :=
  match f with
  | O => SOOF
  | S f' =>
      let rc := fix rc (g : nat) (id : nat) (c : constraint) (st : state) : sres :=
        match g with
        | O => SOOF
        | S g' => run_constraint (run_constraints f') (rc g') id c st
        end in
      let loop := fix loop (ids : list nat) (st : state) : sres :=
        match ids with
        | [] => SOk st
        | id :: r =>
            match take_constraint st id with
            | (st1, Some c) => sbind (rc f' id c st1) (loop r)
            | (st1, None) => loop r st1
            end
        end in
      loop (map fst (st_cstore st)) st
  end.

Fixpoint run_constraint_top (g : nat) (f : nat) (id : nat) (c : constraint) (st : state) : sres :=
  match g with
  | O => SOOF
  | S g' => run_constraint (run_constraints f) (run_constraint_top g' f) id c st
  end.

Definition cfuel : nat := N.to_nat 200.

(* Solve::solve of the constraint goals: build a new constraint object and run it *)
Definition post_constraint (c : constraint) (st : state) : sres :=
  run_constraint_top cfuel cfuel (st_nextc st) c (bump_nextc st).

(* DomFd::solve *)
Definition post_domain (x : term) (d : fd) (st : state) : sres :=
  process_domain (run_constraints cfuel) st (wk (st_smap st) x) d.

(* State::process_extension_fd : for each new binding (x, v) whose x has a domain *)
Fixpoint process_extension_fd (ds : list (nat * fd)) (ext : smap) (st : state) : sres :=
  match ext with
  | [] => SOk st
  | (x, v) :: r =>
      match find_id x ds with
      | Some d =>
          sbind (process_domain (run_constraints cfuel) st v d) (fun st1 =>
          match find_id x (st_dstore st1) with
          | Some _ => sbind (run_constraints cfuel (dom_remove st1 x)) (process_extension_fd ds r)
          | None => SFail            (* remove_domain(x)? fails when x has no domain any more *)
          end)
      | None => process_extension_fd ds r st
      end
  end.

(* State::unify : unify_rec, then process_extension (diseq = run_constraints, fd, user hook) *)
Definition state_unify (st : state) (u v : term) : sres :=
  match unify dfuel (st_smap st) [] u v with
  | UFail => SFail
  | UOOF => SOOF
  | UOk s' ext =>
      let st1 := set_smap st s' in
      sbind (run_constraints cfuel st1) (fun st2 =>
      sbind (process_extension_fd (st_dstore st2) (rev ext) st2) (fun st3 =>
      SOk (log_event st3 (UExt ext))))
  end.

(* State::disunify *)
Definition state_disunify (st : state) (u v : term) : sres :=
  match unify dfuel (st_smap st) [] u v with
  | UFail => SOk st
  | UOOF => SOOF
  | UOk _ [] => SFail
  | UOk _ ext => SOk (with_new_constraint st (KDiseq ext))
  end.
