(* Model of the list and equality API of /repo/src/lterm.rs:
   PartialEq, Hash, from_vec/from_array/improper_from_vec/FromIterator, iter/iter_mut, extend,
   Index, head/tail, is_list/is_empty/is_improper/is_non_empty_list, contains.
   Executable definitions only. *)
From Coq Require Import List ZArith Bool Arith.
From PV Require Import Model.Term Model.State.
Import ListNotations.

(* LTerm::iter : [list_of_term] (Model/State.v): elements, an improper tail as last element, a
   non-list term as itself.  LTerm::iter_mut (repaired) yields the same positions. *)
Definition lt_iter (t : term) : list term := list_of_term t.

(* the pinned iter_mut stopped before an improper tail and yielded nothing for a non-list term *)
Fixpoint lt_iter_mut_pinned (t : term) : list term :=
  match t with
  | TCons h tl => h :: lt_iter_mut_pinned tl
  | _ => []
  end.

Definition lt_is_list (t : term) : bool := is_list_term t.
Definition lt_is_empty (t : term) : bool := match t with TEmpty => true | _ => false end.
Definition lt_is_non_empty_list (t : term) : bool := match t with TCons _ _ => true | _ => false end.
Fixpoint lt_is_improper (t : term) : bool :=
  match t with
  | TCons _ tl => match tl with
                  | TEmpty => false
                  | TCons _ _ => lt_is_improper tl
                  | _ => true
                  end
  | _ => false
  end.
Definition lt_head (t : term) : option term := match t with TCons h _ => Some h | _ => None end.
Definition lt_tail (t : term) : option term := match t with TCons _ tl => Some tl | _ => None end.

(* Index: self.iter().nth(index).unwrap() -- None stands for the panic *)
Definition lt_index (t : term) (n : nat) : option term := nth_error (lt_iter t) n.
Definition lt_contains (t v : term) : bool := existsb (fun u => term_eqb u v) (lt_iter t).

(* FromIterator / from_vec / from_array *)
Definition lt_collect (l : list term) : term := list_term l.
(* improper_from_vec: None = panic on an empty vector *)
Definition lt_improper (l : list term) : option term :=
  match rev l with
  | [] => None
  | last :: front => Some (improper_term (rev front) last)
  end.

(* Extend: panics unless self is a list; walks to the Empty tail (tail_mut().unwrap() panics on an
   improper tail) and swaps in the collected extension *)
Fixpoint lt_extend (t : term) (c : list term) : option term :=
  match t with
  | TEmpty => Some (list_term c)
  | TCons h tl => match lt_extend tl c with Some tl' => Some (TCons h tl') | None => None end
  | _ => None
  end.

(* Hash: the sequence of values fed to the Hasher.  LValue derives Hash (discriminant, then the
   payload); Var hashes its id; Empty hashes (); Cons hashes head then tail; a compound hashes its
   fields in order (derive(Hash) of the generated struct), preceded here by its type tag. *)
Inductive tok := KDisc (n : nat) | KZ (z : Z) | KB (b : bool) | KN (n : N) | KVar (v : nat) | KTag (g : nat).
Fixpoint hash_tokens (t : term) : list tok :=
  match t with
  | TVal (LNum z) => [KDisc 1; KZ z]
  | TVal (LBool b) => [KDisc 0; KB b]
  | TVal (LChar c) => [KDisc 2; KN c]
  | TVal (LStr s) => [KDisc 3; KN s]
  | TVar v _ => [KVar v]
  | TEmpty => []
  | TCons h tl => hash_tokens h ++ hash_tokens tl
  | TComp g cs => KTag g :: hash_tokens_list cs
  end
with hash_tokens_list (ts : terms) : list tok :=
  match ts with TNil => [] | TMore t r => hash_tokens t ++ hash_tokens_list r end.
