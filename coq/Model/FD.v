(* Model of /repo/src/state/fd.rs : FiniteDomain.
   Executable definitions only; proofs live in Proofs/FDProofs.v.

   Integers are Z.  The two places where fd.rs uses saturating arithmetic
   (is_singleton, copy_before) use [sat_add]/[sat_sub], which clamp to the
   isize range exactly like the Rust operations.  Plain [-] in is_singleton
   can overflow in Rust when hi - lo leaves the isize range; the theorems carry
   the guard [in_isize] and the harness observes the out-of-guard behaviour. *)
From Coq Require Import List ZArith Bool Lia.
Import ListNotations.
Local Open Scope Z_scope.

Definition isize_min : Z := - 2 ^ 63.
Definition isize_max : Z := 2 ^ 63 - 1.
Definition in_isize (z : Z) : Prop := isize_min <= z <= isize_max.
Definition clamp (z : Z) : Z :=
  if z <? isize_min then isize_min else if isize_max <? z then isize_max else z.
Definition sat_add (a b : Z) := clamp (a + b).
Definition sat_sub (a b : Z) := clamp (a - b).

Inductive fd := Interval (lo hi : Z) | Sparse (l : list Z).

(* RangeInclusive<isize>::into_iter : lo, lo+1, ..., hi (nothing when lo > hi) *)
Fixpoint zseq (lo : Z) (n : nat) : list Z :=
  match n with O => [] | S n' => lo :: zseq (lo + 1) n' end.
Definition zrange (lo hi : Z) : list Z := zseq lo (Z.to_nat (hi - lo + 1)).

(* FiniteDomain::iter *)
Definition fd_iter (d : fd) : list Z :=
  match d with Interval lo hi => zrange lo hi | Sparse l => l end.
(* iter().rev() / next_back *)
Definition fd_iter_rev (d : fd) : list Z := rev (fd_iter d).

Definition fd_min (d : fd) : option Z :=
  match d with Interval lo _ => Some lo | Sparse l => hd_error l end.
Definition fd_max (d : fd) : option Z :=
  match d with Interval _ hi => Some hi | Sparse l => hd_error (rev l) end.

(* r.start() == r.end()  /  v.len() == 1.
   [fd_is_singleton_pinned] is the pinned definition
   ((r.end() - r.start()).saturating_add(1) == 1, whose plain subtraction overflowed). *)
Definition fd_is_singleton (d : fd) : bool :=
  match d with
  | Interval lo hi => lo =? hi
  | Sparse l => match l with [_] => true | _ => false end
  end.
Definition fd_is_singleton_pinned (d : fd) : bool :=
  match d with
  | Interval lo hi => sat_add (hi - lo) 1 =? 1
  | Sparse l => match l with [_] => true | _ => false end
  end.
Definition fd_singleton_value (d : fd) : option Z :=
  if fd_is_singleton d then fd_min d else None.

(* Vec::binary_search(&u).is_ok() on a sorted vector is membership;
   RangeInclusive::contains is lo <= u <= hi *)
Definition fd_contains (d : fd) (u : Z) : bool :=
  match d with
  | Interval lo hi => (lo <=? u) && (u <=? hi)
  | Sparse l => existsb (Z.eqb u) l
  end.

Fixpoint take_while (p : Z -> bool) (l : list Z) : list Z :=
  match l with [] => [] | x :: r => if p x then x :: take_while p r else [] end.
Fixpoint skip_while (p : Z -> bool) (l : list Z) : list Z :=
  match l with [] => [] | x :: r => if p x then skip_while p r else l end.
Definition find_first (p : Z -> bool) (l : list Z) : option Z := hd_error (skip_while (fun z => negb (p z)) l).

Definition nonempty_sparse (l : list Z) : option fd :=
  match l with [] => None | _ => Some (Sparse l) end.

(* copy_before(pred): the elements before the first one satisfying pred.
   [fd_copy_before_pinned] is the pinned definition (u.saturating_sub(1), which kept
   isize::MIN when the first element satisfied the predicate). *)
Definition fd_copy_before (p : Z -> bool) (d : fd) : option fd :=
  match d with
  | Interval lo hi =>
      match find_first p (zrange lo hi) with
      | Some u => if u =? lo then None else Some (Interval lo (u - 1))
      | None => Some d
      end
  | Sparse l => nonempty_sparse (take_while (fun z => negb (p z)) l)
  end.
Definition fd_copy_before_pinned (p : Z -> bool) (d : fd) : option fd :=
  match d with
  | Interval lo hi =>
      match find_first p (zrange lo hi) with
      | Some u => let hi' := sat_sub u 1 in
                  if hi' <? lo then None else Some (Interval lo hi')
      | None => Some d
      end
  | Sparse l => nonempty_sparse (take_while (fun z => negb (p z)) l)
  end.

(* drop_before(pred): the elements from the first one satisfying pred *)
Definition fd_drop_before (p : Z -> bool) (d : fd) : option fd :=
  match d with
  | Interval lo hi =>
      match find_first p (zrange lo hi) with
      | Some u => Some (Interval u hi)
      | None => None
      end
  | Sparse l => nonempty_sparse (skip_while (fun z => negb (p z)) l)
  end.

(* the three merge loops of fd.rs over the two iterators *)
Fixpoint merge_inter (s : list Z) : list Z -> list Z :=
  fix inner (o : list Z) : list Z :=
    match s, o with
    | x :: s', y :: o' =>
        if y <? x then inner o'
        else if x =? y then x :: merge_inter s' o'
        else merge_inter s' o
    | _, _ => []
    end.

Fixpoint merge_diff (s : list Z) : list Z -> list Z :=
  fix inner (o : list Z) : list Z :=
    match s, o with
    | [], _ => []
    | x :: s', [] => x :: merge_diff s' []
    | x :: s', y :: o' =>
        if x <? y then x :: merge_diff s' o
        else if x =? y then merge_diff s' o'
        else inner o'
    end.

Fixpoint merge_disjoint (s : list Z) : list Z -> bool :=
  fix inner (o : list Z) : bool :=
    match s, o with
    | x :: s', y :: o' =>
        if y <? x then inner o'
        else if x =? y then false
        else merge_disjoint s' o
    | _, _ => true
    end.

Definition fd_intersect (a b : fd) : option fd :=
  match a, b with
  | Interval l1 h1, Interval l2 h2 =>
      let lo := Z.max l1 l2 in let hi := Z.min h1 h2 in
      if lo <=? hi then Some (Interval lo hi) else None
  | Sparse v, Interval lo hi | Interval lo hi, Sparse v =>
      nonempty_sparse (take_while (fun u => u <=? hi) (skip_while (fun u => u <? lo) v))
  | Sparse v, Sparse w => nonempty_sparse (merge_inter v w)
  end.

Definition fd_diff (a b : fd) : option fd :=
  nonempty_sparse (merge_diff (fd_iter a) (fd_iter b)).

Definition fd_is_disjoint (a b : fd) : option bool :=
  match fd_min a, fd_max a, fd_min b, fd_max b with
  | Some mina, Some maxa, Some minb, Some maxb =>
      if (maxb <? mina) || (maxa <? minb) then Some true
      else Some (merge_disjoint (fd_iter a) (fd_iter b))
  | _, _, _, _ => None   (* min()/max() unwrap on an empty Sparse: panic *)
  end.

Definition is_none {A} (o : option A) : bool := match o with None => true | Some _ => false end.

(* PartialEq.  [fd_eqb_subset] is the pinned definition (diff(other).is_none());
   [fd_eqb] is the set-equality definition of the repaired tree. *)
Definition fd_eqb_subset (a b : fd) : bool := is_none (fd_diff a b).
Definition fd_eqb (a b : fd) : bool := is_none (fd_diff a b) && is_none (fd_diff b a).

(* From<Vec<isize>>: sort (+ dedup on the repaired tree); empty vector panics *)
Fixpoint insert_sorted (x : Z) (l : list Z) : list Z :=
  match l with [] => [x] | y :: r => if x <=? y then x :: l else y :: insert_sorted x r end.
Fixpoint isort (l : list Z) : list Z :=
  match l with [] => [] | x :: r => insert_sorted x (isort r) end.
(* Vec::dedup : remove consecutive repeats *)
Fixpoint dedup (l : list Z) : list Z :=
  match l with
  | [] => []
  | x :: r => match r with
              | [] => [x]
              | y :: _ => if x =? y then dedup r else x :: dedup r
              end
  end.
Definition fd_from_vec_nodedup (v : list Z) : option fd :=
  match v with [] => None | _ => Some (Sparse (isort v)) end.
Definition fd_from_vec (v : list Z) : option fd :=
  match v with [] => None | _ => Some (Sparse (dedup (isort v))) end.
Definition fd_from_range (lo hi : Z) : fd := Interval lo hi.
Definition fd_from_value (u : Z) : fd := Interval u u.
