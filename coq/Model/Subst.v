(* Model of /repo/src/state/substitution.rs : SMap (walk, walk_star, occurs_check, reify, is_anyvar).
   Executable definitions only.

   smap = association list, newest binding first.  The Rust SMap is a HashMap keyed by variable
   terms (hashed and compared by VarID); every insertion made by the library is for a variable that
   is unbound at that moment, so "first match" lookup coincides with the HashMap lookup.

   Recursion that follows bindings is not structural: [walk] takes as fuel one more than the number
   of bindings (enough for every acyclic substitution, see Proofs/SubstProofs.v), the functions that
   descend into sub-terms of walked terms take an explicit depth fuel and return None when it is
   exhausted (the Rust code would not terminate / overflow its stack there). *)
From Coq Require Import List ZArith Bool Arith Lia.
From PV Require Import Model.Term.
Import ListNotations.

Definition smap := list (nat * term).

Fixpoint lookup (v : nat) (s : smap) : option term :=
  match s with
  | [] => None
  | (x, t) :: r => if Nat.eqb x v then Some t else lookup v r
  end.

(* SMap::walk *)
Fixpoint walk (fuel : nat) (s : smap) (t : term) : term :=
  match t with
  | TVar v _ =>
      match lookup v s with
      | Some t' => match fuel with O => t | S f => walk f s t' end
      | None => t
      end
  | _ => t
  end.
Definition wk (s : smap) (t : term) : term := walk (S (length s)) s t.

(* [wk] checked: None when the walk stopped for lack of fuel on a variable that is still bound
   (only possible for a cyclic substitution, where the Rust loop would not terminate) *)
Definition bound_in (v : nat) (s : smap) : bool :=
  match lookup v s with Some _ => true | None => false end.
Definition final (s : smap) (t : term) : bool :=
  match t with TVar v _ => negb (bound_in v s) | _ => true end.
Definition wkc (s : smap) (t : term) : option term :=
  let r := wk s t in if final s r then Some r else None.

(* depth fuel used by the executable entry points *)
Definition dfuel : nat := N.to_nat 4000.

(* SMap::walk_star (compound.walk_star rebuilds the compound with walk_star'ed children) *)
Fixpoint walk_star (f : nat) (s : smap) (t : term) : option term :=
  match f with
  | O => None
  | S f' =>
      match wk s t with
      | TCons h tl =>
          match walk_star f' s h, walk_star f' s tl with
          | Some h', Some tl' => Some (TCons h' tl')
          | _, _ => None
          end
      | TComp g cs =>
          match walk_star_list f' s cs with Some cs' => Some (TComp g cs') | None => None end
      | w => Some w
      end
  end
with walk_star_list (f : nat) (s : smap) (ts : terms) : option terms :=
  match f with
  | O => None
  | S f' =>
      match ts with
      | TNil => Some TNil
      | TMore t r =>
          match walk_star f' s t, walk_star_list f' s r with
          | Some t', Some r' => Some (TMore t' r')
          | _, _ => None
          end
      end
  end.

(* SMap::occurs_check (x is an unbound variable id) *)
Fixpoint occurs (f : nat) (s : smap) (x : nat) (t : term) : option bool :=
  match f with
  | O => None
  | S f' =>
      match wkc s t with
      | None => None
      | Some (TVar v _) => Some (Nat.eqb v x)
      | Some (TCons h tl) =>
          match occurs f' s x h with
          | Some true => Some true
          | Some false => occurs f' s x tl
          | None => None
          end
      | Some (TComp _ cs) => occurs_list f' s x cs
      | Some _ => Some false
      end
  end
with occurs_list (f : nat) (s : smap) (x : nat) (ts : terms) : option bool :=
  match f with
  | O => None
  | S f' =>
      match ts with
      | TNil => Some false
      | TMore t r =>
          match occurs f' s x t with
          | Some true => Some true
          | Some false => occurs_list f' s x r
          | None => None
          end
      end
  end.

(* SMap::reify : bind every unbound variable reachable from v to a new any-variable.
   [n] is the next unused variable id (the Rust code draws from the global VarID counter). *)
Fixpoint reify_s (f : nat) (s : smap) (n : nat) (t : term) : option (smap * nat) :=
  match f with
  | O => None
  | S f' =>
      match wk s t with
      | TVar v a => Some ((v, TVar n true) :: s, S n)
      | TCons h tl =>
          match reify_s f' s n h with
          | Some (s1, n1) => reify_s f' s1 n1 tl
          | None => None
          end
      | TComp _ cs => reify_list f' s n cs
      | _ => Some (s, n)
      end
  end
with reify_list (f : nat) (s : smap) (n : nat) (ts : terms) : option (smap * nat) :=
  match f with
  | O => None
  | S f' =>
      match ts with
      | TNil => Some (s, n)
      | TMore t r =>
          match reify_s f' s n t with
          | Some (s1, n1) => reify_list f' s1 n1 r
          | None => None
          end
      end
  end.

(* SMap::is_anyvar : v is a key of the map that walks to a variable (recursively through lists/compounds) *)
Fixpoint is_anyvar (s : smap) (t : term) : bool :=
  match t with
  | TVar v _ => bound_in v s && is_var (wk s t)
  | TCons h tl => is_anyvar s h || is_anyvar s tl
  | TComp _ cs => is_anyvar_list s cs
  | _ => false
  end
with is_anyvar_list (s : smap) (ts : terms) : bool :=
  match ts with TNil => false | TMore t r => is_anyvar s t || is_anyvar_list s r end.

(* variables occurring syntactically in a term *)
Fixpoint tvars (t : term) : list nat :=
  match t with
  | TVar v _ => [v]
  | TCons h tl => tvars h ++ tvars tl
  | TComp _ cs => tsvars cs
  | _ => []
  end
with tsvars (ts : terms) : list nat :=
  match ts with TNil => [] | TMore t r => tvars t ++ tsvars r end.
