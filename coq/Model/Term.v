(* Model of /repo/src/lvalue.rs, lterm.rs (LTermInner), compound.rs (children of a compound object).
   Executable definitions only.

   lit   : LValue  (Number isize | Bool | Char | String).  Strings and chars are abstracted to
           identifiers (only equality of literals is ever inspected by the library).
   term  : LTermInner without User and Projection.
           TVar id any : variable with VarID id; [any] = "the name is _" (LTerm::any / is_any).
                         Equality, hashing and substitution lookup use the id only (lterm.rs PartialEq/Hash).
           TComp tag cs: a compound object; [tag] stands for the Rust TypeId, [cs] for the term
                         children in children() order (nested non-term objects flattened). *)
From Coq Require Import List ZArith Bool Arith Lia.
Import ListNotations.

Inductive lit := LNum (z : Z) | LBool (b : bool) | LChar (c : N) | LStr (s : N).

Inductive term :=
| TVal (l : lit)
| TVar (v : nat) (any : bool)
| TEmpty
| TCons (h t : term)
| TComp (tag : nat) (cs : terms)
with terms := TNil | TMore (t : term) (ts : terms).

Scheme term_ind2 := Induction for term Sort Prop
  with terms_ind2 := Induction for terms Sort Prop.
Combined Scheme term_terms_ind from term_ind2, terms_ind2.

Definition lit_eqb (a b : lit) : bool :=
  match a, b with
  | LNum x, LNum y => Z.eqb x y
  | LBool x, LBool y => Bool.eqb x y
  | LChar x, LChar y => N.eqb x y
  | LStr x, LStr y => N.eqb x y
  | _, _ => false
  end.

(* LTerm PartialEq: variables by id, everything else structural *)
Fixpoint term_eqb (a b : term) : bool :=
  match a, b with
  | TVal x, TVal y => lit_eqb x y
  | TVar x _, TVar y _ => Nat.eqb x y
  | TEmpty, TEmpty => true
  | TCons h1 t1, TCons h2 t2 => term_eqb h1 h2 && term_eqb t1 t2
  | TComp g1 c1, TComp g2 c2 => Nat.eqb g1 g2 && terms_eqb c1 c2
  | _, _ => false
  end
with terms_eqb (a b : terms) : bool :=
  match a, b with
  | TNil, TNil => true
  | TMore x xs, TMore y ys => term_eqb x y && terms_eqb xs ys
  | _, _ => false
  end.

Fixpoint terms_to_list (ts : terms) : list term :=
  match ts with TNil => [] | TMore t r => t :: terms_to_list r end.
Fixpoint terms_of_list (l : list term) : terms :=
  match l with [] => TNil | t :: r => TMore t (terms_of_list r) end.

(* LTerm::from_vec / from_array *)
Fixpoint list_term (l : list term) : term :=
  match l with [] => TEmpty | t :: r => TCons t (list_term r) end.
(* LTerm::improper_from_vec : last element is the tail (caller guarantees non-empty) *)
Fixpoint improper_term (l : list term) (last : term) : term :=
  match l with [] => last | t :: r => TCons t (improper_term r last) end.

Fixpoint tsize (t : term) : nat :=
  match t with
  | TCons h tl => S (tsize h + tsize tl)
  | TComp _ cs => S (tssize cs)
  | _ => 1
  end
with tssize (ts : terms) : nat :=
  match ts with TNil => 0 | TMore t r => S (tsize t + tssize r) end.

Definition is_var (t : term) : bool := match t with TVar _ _ => true | _ => false end.
Definition is_any (t : term) : bool := match t with TVar _ a => a | _ => false end.
Definition tnum (z : Z) : term := TVal (LNum z).
