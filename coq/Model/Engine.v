(* Model of the search engine and of goal construction:
     /repo/src/goal.rs, stream.rs (Lazy, Stream, StreamEngine::step), solver.rs (start, next, peek, trunc),
     operator/{conj,conde,fresh,closure,conda,condu,anyo,onceo,dfs,everyg,project,matche,matcha,matchu}.rs,
     relation/{eq,diseq,succeed,fail}.rs, relation/clpfd/{domfd,infd,ltfd,...}.rs (the goals),
     state/map_sum.rs, state/reification.rs, query.rs (ResultIterator::next), lresult.rs,
     and of what the macros in /repo/macros/src/lib.rs expand the surface syntax to
     (Clause, ClauseInOperator, Fresh, Closure, Loop, Operator, PatternMatchOperator, For, Project, Query).
   Executable definitions only.

   Two levels, as in the Rust code:
   - [goal]  : the surface syntax, with variable *names*;
   - [cgoal] : the goal objects that exist at run time (after the Rust constructors ran), with
               run-time variables.  [elab] is goal construction: it allocates variables the way
               the expanded `let x = LTerm::var(..)` statements do and applies the smart
               constructors (Succeed/Fail short-circuits of InferredConj::new etc.).
               Bodies of closures, relation calls, for-loops and project are constructed when the
               goal is solved, as in Rust (Closure::solve calls the boxed constructor). *)
From Coq Require Import List ZArith Bool Arith Lia.
From PV Require Import Model.Term Model.Subst Model.Unify Model.FD Model.State.
Import ListNotations.

Inductive kind := BFS | DFS.
Inductive mkind := MMatch | MMatcha | MMatchu.
Inductive fdrel := RLte | RLt | RPlus | RMinus | RTimes | RDiseqFd | RDistinct | RPlusZ | RTimesZ.

(* surface syntax; in terms, [TVar x false] is the name x and [TVar _ true] is `_` *)
Inductive goal :=
| GTrue | GFalse
| GEq (u v : term) | GDiseq (u v : term)
| GConj (gs : list goal)
| GFresh (xs : list nat) (gs : list goal)
| GCond (cs : list (list goal))            (* conde { } / cond { } *)
| GConda (cs : list (list goal))
| GCondu (cs : list (list goal))
| GOnceo (cs : list (list goal))
| GLoop (cs : list (list goal))            (* loop { } = anyo *)
| GDfs (cs : list (list goal))
| GClosure (gs : list goal)
| GCall (r : nat) (args : list term)
| GMatch (mk : mkind) (t : term) (arms : list (list term * list goal))
| GFor (x : nat) (coll : term) (cs : list (list goal))
| GProject (xs : list nat) (gs : list goal)
| GDom (x : term) (d : fd)                  (* infd / infdrange *)
| GRel (r : fdrel) (args : list term)
| GProbe (tag : nat)
| GSq (u v : term).   (* the harness's non-relational goal: succeeds with v = u*u only if u is literally a number *)

Definition env := list (nat * term).

Inductive cgoal :=
| CSucceed | CFail
| CEq (u v : term) | CDiseq (u v : term)
| CConj (k : kind) (g1 g2 : cgoal)
| CConde (k : kind) (gs : list cgoal)
| CFresh (k : kind) (g : cgoal)
| CClosure (k : kind) (rho : env) (gs : list goal)
| CCall (k : kind) (r : nat) (args : list term)
| CConda (first rest next : cgoal)
| CCondu (first rest next : cgoal)
| CAnyo (g : cgoal)
| CEveryg (k : kind) (rho : env) (x : nat) (elems : list term) (cs : list (list goal))
| CProject (k : kind) (rho : env) (xs : list nat) (gs : list goal)
| CDom (x : term) (d : fd)
| CPost (c : constraint)
| CPanicG (site : nat)
| CProbe (tag : nat)
| CSq (u v : term)
| CForceAns (x : term)
| CEnforceFd
| CReify (x : term).

Record def := mkDef { d_params : list nat; d_closure : bool; d_body : goal }.

(* ------------------------------------------------------------------ goal construction *)
Definition is_succeed (g : cgoal) : bool := match g with CSucceed => true | _ => false end.
Definition is_fail (g : cgoal) : bool := match g with CFail => true | _ => false end.

(* InferredConj::new *)
Definition conj_new (k : kind) (g1 g2 : cgoal) : cgoal :=
  if is_succeed g1 && is_succeed g2 then CSucceed
  else if is_fail g1 || is_fail g2 then CFail
  else CConj k g1 g2.
(* from_array / from_vec *)
Definition from_array (k : kind) (gs : list cgoal) : cgoal := fold_right (conj_new k) CSucceed gs.
(* from_conjunctions *)
Definition from_conjs (k : kind) (gss : list (list cgoal)) : cgoal :=
  fold_right (conj_new k) CSucceed (map (from_array k) gss).
(* from_iter : nests in reverse order *)
Definition from_iter (k : kind) (gs : list cgoal) : cgoal :=
  fold_left (fun p g => conj_new k g p) gs CSucceed.
(* Conde::from_conjunctions *)
Definition conde_from (k : kind) (gss : list (list cgoal)) : cgoal := CConde k (map (from_array k) gss).
(* Conda::from_conjunctions / Condu::from_conjunctions *)
Fixpoint conda_from (cs : list (list cgoal)) : cgoal :=
  match cs with
  | [] => CFail
  | [] :: r => conda_from r
  | (first :: rest) :: r => CConda first (from_array BFS rest) (conda_from r)
  end.
Fixpoint condu_from (cs : list (list cgoal)) : cgoal :=
  match cs with
  | [] => CFail
  | [] :: r => condu_from r
  | (first :: rest) :: r => CCondu first (from_array BFS rest) (condu_from r)
  end.
(* onceo(param) = condu { Conj::from_conjunctions(param.body) } *)
Definition onceo_from (gss : list (list cgoal)) : cgoal := condu_from [[from_conjs BFS gss]].
(* anyo(param) = Anyo::new(Conj::from_conjunctions(param.body)) *)
Definition anyo_from (gss : list (list cgoal)) : cgoal := CAnyo (from_conjs BFS gss).

Fixpoint env_lookup (x : nat) (rho : env) : option term :=
  match rho with [] => None | (y, t) :: r => if Nat.eqb y x then Some t else env_lookup x r end.

Definition unbound_name_marker : term := TVal (LStr 4242424242).

(* term construction: names are looked up, every `_` is a new any-variable (LTerm::any()) *)
Fixpoint elab_term (rho : env) (t : term) (n : nat) : term * nat :=
  match t with
  | TVar x false => (match env_lookup x rho with Some v => v | None => unbound_name_marker end, n)
  | TVar _ true => (TVar n true, S n)
  | TCons h tl =>
      let '(h', n1) := elab_term rho h n in
      let '(tl', n2) := elab_term rho tl n1 in (TCons h' tl', n2)
  | TComp g cs => let '(cs', n1) := elab_terms rho cs n in (TComp g cs', n1)
  | other => (other, n)
  end
with elab_terms (rho : env) (ts : terms) (n : nat) : terms * nat :=
  match ts with
  | TNil => (TNil, n)
  | TMore t r =>
      let '(t', n1) := elab_term rho t n in
      let '(r', n2) := elab_terms rho r n1 in (TMore t' r', n2)
  end.

Fixpoint elab_term_list (rho : env) (ts : list term) (n : nat) : list term * nat :=
  match ts with
  | [] => ([], n)
  | t :: r =>
      let '(t', n1) := elab_term rho t n in
      let '(r', n2) := elab_term_list rho r n1 in (t' :: r', n2)
  end.

(* `let x = LTerm::var("x")` for each name, in order *)
Fixpoint bind_fresh (xs : list nat) (rho : env) (n : nat) : env * nat :=
  match xs with
  | [] => (rho, n)
  | x :: r => bind_fresh r ((x, TVar n false) :: rho) (S n)
  end.

(* distinct names of a pattern, in order of first occurrence *)
Fixpoint nodup_nat (l : list nat) : list nat :=
  match l with
  | [] => []
  | x :: r => if existsb (Nat.eqb x) r then nodup_nat r else x :: nodup_nat r
  end.
Fixpoint pat_names (t : term) : list nat :=
  match t with
  | TVar x false => [x]
  | TCons h tl => pat_names h ++ pat_names tl
  | TComp _ cs => pats_names cs
  | _ => []
  end
with pats_names (ts : terms) : list nat :=
  match ts with TNil => [] | TMore t r => pat_names t ++ pats_names r end.

(* the constraint object built by a CLP(FD)/CLP(Z) relation call *)
Definition nth_term (n : nat) (l : list term) : term := nth n l TEmpty.
Definition rel_constraint (r : fdrel) (a : list term) : constraint :=
  match r with
  | RLte | RLt => KLte (nth_term 0 a) (nth_term 1 a)
  | RPlus => KPlus (nth_term 0 a) (nth_term 1 a) (nth_term 2 a)
  | RMinus => KMinus (nth_term 0 a) (nth_term 1 a) (nth_term 2 a)
  | RTimes => KTimes (nth_term 0 a) (nth_term 1 a) (nth_term 2 a)
  | RDiseqFd => KDiseqFd (nth_term 0 a) (nth_term 1 a)
  | RDistinct => KDistinct (nth_term 0 a)
  | RPlusZ => KPlusZ (nth_term 0 a) (nth_term 1 a) (nth_term 2 a)
  | RTimesZ => KTimesZ (nth_term 0 a) (nth_term 1 a) (nth_term 2 a)
  end.
Definition var_or_number (t : term) : bool :=
  match t with TVar _ _ => true | TVal (LNum _) => true | _ => false end.
Definition panic_site_constraint_operand : nat := 10.
(* the Constraint::new of ltefd/plusfd/minusfd/timesfd/diseqfd assert var-or-number operands *)
Definition rel_goal (k : kind) (r : fdrel) (a : list term) : cgoal :=
  match r with
  | RLt => from_array k [CPost (KDiseqFd (nth_term 0 a) (nth_term 1 a)); CPost (KLte (nth_term 0 a) (nth_term 1 a))]
  | _ => CPost (rel_constraint r a)
  end.

Section WithDefs.
Variable defs : list (nat * def).

Fixpoint find_def (r : nat) (l : list (nat * def)) : option def :=
  match l with [] => None | (i, d) :: t => if Nat.eqb i r then Some d else find_def r t end.

(* Goal construction.  [k] is the goal type the context infers (Goal or DFSGoal). *)
Fixpoint elab (fuel : nat) (k : kind) (rho : env) (g : goal) (n : nat) {struct fuel} : cgoal * nat :=
  match fuel with
  | O => (CPanicG 0, n)
  | S fuel' =>
  let el := fix el (k : kind) (rho : env) (gs : list goal) (n : nat) : list cgoal * nat :=
    match gs with
    | [] => ([], n)
    | g :: r => let '(c, n1) := elab fuel' k rho g n in
                let '(cs, n2) := el k rho r n1 in (c :: cs, n2)
    end in
  let ell := fix ell (k : kind) (rho : env) (css : list (list goal)) (n : nat) : list (list cgoal) * nat :=
    match css with
    | [] => ([], n)
    | gs :: r => let '(c, n1) := el k rho gs n in
                 let '(cs, n2) := ell k rho r n1 in (c :: cs, n2)
    end in
  match g with
  | GTrue => (CSucceed, n)
  | GFalse => (CFail, n)
  | GEq u v =>
      let '(u', n1) := elab_term rho u n in
      let '(v', n2) := elab_term rho v n1 in (CEq u' v', n2)
  | GDiseq u v =>
      let '(u', n1) := elab_term rho u n in
      let '(v', n2) := elab_term rho v n1 in (CDiseq u' v', n2)
  | GConj gs => let '(cs, n1) := el k rho gs n in (from_array k cs, n1)
  | GFresh xs gs =>
      let '(rho', n1) := bind_fresh xs rho n in
      let '(cs, n2) := el k rho' gs n1 in (CFresh k (from_array k cs), n2)
  | GCond css => let '(cs, n1) := ell k rho css n in (conde_from k cs, n1)
  | GConda css => let '(cs, n1) := ell BFS rho css n in (conda_from cs, n1)
  | GCondu css => let '(cs, n1) := ell BFS rho css n in (condu_from cs, n1)
  | GOnceo css => let '(cs, n1) := ell BFS rho css n in (onceo_from cs, n1)
  | GLoop css => let '(cs, n1) := ell BFS rho css n in (anyo_from cs, n1)
  | GDfs css => let '(cs, n1) := ell DFS rho css n in (from_conjs DFS cs, n1)
  | GClosure gs => (CClosure k rho gs, n)
  | GCall r args =>
      let '(args', n1) := elab_term_list rho args n in
      match find_def r defs with
      | None => (CPanicG 1, n1)
      | Some d =>
          if d_closure d then (CCall k r args', n1)
          else elab fuel' k (combine (d_params d) args') (d_body d) n1
      end
  | GMatch mk t arms =>
      let arms_el := fix arms_el (arms : list (list term * list goal)) (n : nat) : list (list cgoal) * nat :=
        match arms with
        | [] => ([], n)
        | (pats, body) :: r =>
            let alts := fix alts (pats : list term) (n : nat) : list (list cgoal) * nat :=
              match pats with
              | [] => ([], n)
              | p :: pr =>
                  (* let __term__ = t; let x = LTerm::var(x) for the pattern names; let __pattern__ = p *)
                  let '(t', n0) := elab_term rho t n in
                  let '(rho', n1) := bind_fresh (nodup_nat (pat_names p)) rho n0 in
                  let '(p', n2) := elab_term rho' p n1 in
                  let '(cs, n3) := el k rho' body n2 in
                  let '(rest, n4) := alts pr n3 in
                  ((CEq t' p' :: cs) :: rest, n4)
              end in
            let '(a, n1) := alts pats n in
            let '(b, n2) := arms_el r n1 in (a ++ b, n2)
        end in
      let '(cs, n1) := arms_el arms n in
      (match mk with
       | MMatch => conde_from k cs
       | MMatcha => conda_from cs
       | MMatchu => condu_from cs
       end, n1)
  | GFor x coll css =>
      let '(c', n1) := elab_term rho coll n in
      (CEveryg k rho x (list_of_term c') css, n1)
  | GProject xs gs => (CProject k rho xs gs, n)
  | GDom x d =>
      let '(x', n1) := elab_term rho x n in
      (if is_list_term x' then from_array k (map (fun v => CDom v d) (list_of_term x')) else CDom x' d, n1)
  | GRel r args =>
      let '(a, n1) := elab_term_list rho args n in
      (match r with
       | RDistinct | RPlusZ | RTimesZ => rel_goal k r a
       | _ => if forallb var_or_number a then rel_goal k r a else CPanicG panic_site_constraint_operand
       end, n1)
  | GProbe tag => (CProbe tag, n)
  | GSq u v =>
      let '(u', n1) := elab_term rho u n in
      let '(v', n2) := elab_term rho v n1 in (CSq u' v', n2)
  end
  end.

Definition efuel : nat := N.to_nat 1000.

(* ------------------------------------------------------------------ streams *)
Inductive lzy :=
| LBind (l : lzy) (g : cgoal)
| LMPlus (l1 l2 : lzy)
| LPause (st : state) (g : cgoal)
| LBindDFS (l : lzy) (g : cgoal)
| LMPlusDFS (l1 l2 : lzy)
| LPauseDFS (st : state) (g : cgoal)
| LDelay (s : stream)
with stream :=
| SEmpty
| SUnit (st : state)
| SLazy (l : lzy)
| SCons (st : state) (l : lzy)
| SErr (oof : bool) (site : nat).     (* not a Rust stream: divergence inside one step (oof) or a panic *)

(* Stream::mplus *)
Definition mplus (s : stream) (l : lzy) : stream :=
  match s with
  | SEmpty => SLazy l
  | SLazy l' => SLazy (LMPlus l l')
  | SUnit a => SCons a l
  | SCons a l' => SCons a (LMPlus l l')
  | SErr o p => SErr o p
  end.
(* Stream::mplus_dfs *)
Definition mplus_dfs (s : stream) (l : lzy) : stream :=
  match s with
  | SEmpty => SLazy l
  | SLazy l' => SLazy (LMPlusDFS l' l)
  | SUnit a => SCons a l
  | SCons a l' => SCons a (LMPlusDFS l' l)
  | SErr o p => SErr o p
  end.
(* Stream::lazy_bind / lazy_bind_dfs *)
Definition lazy_bind (l : lzy) (g : cgoal) : stream :=
  if is_succeed g then SLazy l else if is_fail g then SEmpty else SLazy (LBind l g).
Definition lazy_bind_dfs (l : lzy) (g : cgoal) : stream :=
  if is_succeed g then SLazy l else if is_fail g then SEmpty else SLazy (LBindDFS l g).
(* Stream::bind / bind_dfs *)
Definition bind (s : stream) (g : cgoal) : stream :=
  if is_succeed g then s else if is_fail g then SEmpty
  else match s with
       | SEmpty => SEmpty
       | SLazy l => lazy_bind l g
       | SUnit a => SLazy (LPause a g)
       | SCons a l => SLazy (LMPlus (LPause a g) (LBind l g))
       | SErr o p => SErr o p
       end.
Definition bind_dfs (s : stream) (g : cgoal) : stream :=
  if is_succeed g then s else if is_fail g then SEmpty
  else match s with
       | SEmpty => SEmpty
       | SLazy l => lazy_bind_dfs l g
       | SUnit a => SLazy (LPauseDFS a g)
       | SCons a l => SLazy (LMPlusDFS (LPauseDFS a g) (LBindDFS l g))
       | SErr o p => SErr o p
       end.

(* StreamEngine::step, given the function that starts a goal *)
Fixpoint step_with (startf : cgoal -> state -> stream) (l : lzy) : stream :=
  match l with
  | LMPlus l1 l2 => mplus (step_with startf l1) l2
  | LBind l' g => bind (step_with startf l') g
  | LPause st g => startf g st
  | LMPlusDFS l1 l2 => mplus_dfs (step_with startf l1) l2
  | LBindDFS l' g => bind_dfs (step_with startf l') g
  | LPauseDFS st g => startf g st
  | LDelay s => s
  end.

(* Solver::peek : mature the stream.  Solver::trunc : mature and keep at most the head. *)
Fixpoint mature (stepf : lzy -> stream) (f : nat) (s : stream) : stream :=
  match f with
  | O => SErr true 0
  | S f' => match s with SLazy l => mature stepf f' (stepf l) | other => other end
  end.
Definition trunc_of (s : stream) : stream :=
  match s with SCons a _ => SUnit a | other => other end.

Definition sres_stream (r : sres) : stream :=
  match r with
  | SOk st => SUnit st
  | SFail => SEmpty
  | SOOF => SErr true 0
  | SPanic site => SErr false site
  end.

Definition pause_k (k : kind) (st : state) (g : cgoal) : lzy :=
  match k with BFS => LPause st g | DFS => LPauseDFS st g end.
Definition mplus_k (k : kind) := match k with BFS => mplus | DFS => mplus_dfs end.
Definition lazy_bind_k (k : kind) := match k with BFS => lazy_bind | DFS => lazy_bind_dfs end.

Definition mfuel : nat := N.to_nat 100000.

(* force_ans_compound: the term children of a compound, looking through typed fields that are not
   terms themselves (Option<..>, encoded as a compound with the reserved tag [opt_tag]) *)
Definition opt_tag : nat := 0.
Fixpoint flat_children (ts : terms) : list term :=
  match ts with
  | TNil => []
  | TMore t r =>
      (match t with
       | TComp g cs' => if Nat.eqb g opt_tag then flat_children cs' else [t]
       | _ => [t]
       end) ++ flat_children r
  end.

(* the harness's sq goal reads its first operand without the substitution: the number itself, or the
   first number found going down the heads of lists and the first fields of compounds *)
Fixpoint first_number (t : term) : option Z :=
  match t with
  | TVal (LNum z) => Some z
  | TCons h _ => first_number h
  | TComp _ (TMore h _) => first_number h
  | _ => None
  end.

Definition panic_site_verify_all_bound : nat := 20.
Definition panic_site_project : nat := 21.

(* the harness's probe goal: records the hook counters of the state that reaches it *)
Definition count_events (p : uevent -> bool) (st : state) : nat := length (filter p (st_ulog st)).
Definition last_ext_of (st : state) : smap :=
  match filter (fun e => match e with UExt _ => true | _ => false end) (st_ulog st) with
  | UExt e :: _ => e
  | _ => []
  end.
Definition probe_event (tag : nat) (st : state) : uevent :=
  UProbe tag (count_events (fun e => match e with UWith _ => true | _ => false end) st)
             (count_events (fun e => match e with UTake _ => true | _ => false end) st)
             (length (st_cstore st))
             (count_events (fun e => match e with UExt _ => true | _ => false end) st)
             (last_ext_of st).

Definition is_fd_constraint (c : constraint) : bool :=
  match c with
  | KLte _ _ | KPlus _ _ _ | KMinus _ _ _ | KTimes _ _ _ | KDiseqFd _ _ | KDistinct _ | KDistinct2 _ _ _ => true
  | _ => false
  end.
Definition constraint_operands (c : constraint) : list term :=
  match c with
  | KDiseq ps => flat_map (fun p => TVar (fst p) false :: (if is_var (snd p) then [snd p] else [])) ps
  | KLte u v | KDiseqFd u v => [u; v]
  | KPlus u v w | KMinus u v w | KTimes u v w | KPlusZ u v w | KTimesZ u v w => [u; v; w]
  | KDistinct u => [u]
  | KDistinct2 u _ _ => list_of_term u
  end.
(* State::verify_all_bound *)
Definition verify_all_bound (st : state) : bool :=
  forallb (fun ic =>
    if is_fd_constraint (snd ic) then
      forallb (fun u => let w := wk (st_smap st) u in
                        negb (is_var w) || match dom_get st w with Some _ => true | None => false end)
              (constraint_operands (snd ic))
    else true) (st_cstore st).

(* DisequalityConstraint::walk_star / ConstraintStore::walk_star (only disequalities survive) *)
Definition panic_site_walkstar_key : nat := 22.
Fixpoint walk_star_pairs (s : smap) (ps : smap) : option (option smap) :=
  match ps with
  | [] => Some (Some [])
  | (x, t) :: r =>
      match walk_star dfuel s (TVar x false), walk_star dfuel s t, walk_star_pairs s r with
      | Some (TVar x' _), Some t', Some (Some r') => Some (Some ((x', t') :: r'))
      | Some _, Some _, Some (Some _) => Some None         (* assert!(kwalk.is_var()) *)
      | Some _, Some _, Some None => Some None
      | _, _, _ => None
      end
  end.

(* Project::solve: every projected name is rebound to the walk_star'ed value it has in the state that
   reaches the project goal (None: the value is cyclic / fuel ran out) *)
Fixpoint project_env (st : state) (rho : env) (xs : list nat) (rho' : env) : option env :=
  match xs with
  | [] => Some rho'
  | x :: r =>
      match env_lookup x rho with
      | Some t => match walk_star dfuel (st_smap st) t with
                  | Some w => project_env st rho r ((x, w) :: rho')
                  | None => None
                  end
      | None => project_env st rho r rho'
      end
  end.

(* Solve::solve for every goal object.  One unit of fuel per nested call inside a single engine
   step; exhausting it stands for a step that does not return. *)
Fixpoint start (n : nat) (g : cgoal) (st : state) {struct n} : stream :=
  match n with
  | O => SErr true 0
  | S n' =>
    let stepf := step_with (start n') in
    match g with
    | CSucceed => SUnit st
    | CFail => SEmpty
    | CEq u v => sres_stream (state_unify st u v)
    | CDiseq u v => sres_stream (state_disunify st u v)
    | CConj k g1 g2 => lazy_bind_k k (pause_k k st g1) g2
    | CConde k gs =>
        (* the clauses are started last to first, each merged in front of the delayed rest *)
        fold_right (fun c acc => mplus_k k (start n' c st) (LDelay acc)) SEmpty gs
    | CFresh k body => SLazy (pause_k k st body)
    | CClosure k rho gs =>
        let '(c, nv) := elab efuel k rho (GConj gs) (st_nextv st) in
        start n' c (set_nextv st nv)
    | CCall k r args =>
        match find_def r defs with
        | None => SErr false 1
        | Some d =>
            let '(c, nv) := elab efuel k (combine (d_params d) args) (GConj [d_body d]) (st_nextv st) in
            start n' c (set_nextv st nv)
        end
    | CConda first rest next =>
        match mature stepf mfuel (start n' first st) with
        | SEmpty => start n' next st
        | SErr o p => SErr o p
        | s => bind s rest
        end
    | CCondu first rest next =>
        match mature stepf mfuel (start n' first st) with
        | SEmpty => start n' next st
        | SErr o p => SErr o p
        | s => bind (trunc_of s) rest
        end
    | CAnyo g1 =>
        start n' (conde_from BFS [[g1]; [anyo_from [[g1]]]]) st
    | CEveryg k rho x elems css =>
        let mk := fix mk (es : list term) (nv : nat) : list cgoal * nat :=
          match es with
          | [] => ([], nv)
          | e :: r =>
              let '(c, n1) := elab efuel k ((x, e) :: rho) (GConj (map GConj css)) nv in
              let '(cs, n2) := mk r n1 in (c :: cs, n2)
          end in
        let '(cs, nv) := mk elems (st_nextv st) in
        start n' (from_iter k cs) (set_nextv st nv)
    | CProject k rho xs gs =>
        (* intended semantics: the body sees the walk_star'ed value of each projected variable *)
        match project_env st rho xs rho with
        | None => SErr true 0
        | Some rho' =>
            let '(c, nv) := elab efuel k rho' (GConj (map (fun g => GConj [g]) gs)) (st_nextv st) in
            start n' c (set_nextv st nv)
        end
    | CDom x d => sres_stream (post_domain x d st)
    | CPost c => sres_stream (post_constraint c st)
    | CPanicG site => SErr (Nat.eqb site 0) site   (* site 0: goal construction ran out of fuel (diverges) *)
    | CProbe tag => SUnit (log_event st (probe_event tag st))
    | CSq u v => match first_number u with
                 | Some z => sres_stream (state_unify st (tnum (z * z)) v)
                 | None => SEmpty
                 end
    | CForceAns x =>
        let xw := wk (st_smap st) x in
        match xw, dom_get st xw with
        | TVar _ _, Some d =>
            (* map_sum over the domain values, largest first; the smallest ends up in front *)
            fold_left (fun acc z => mplus (sres_stream (state_unify st (tnum z) xw)) (LDelay acc))
                      (fd_iter_rev d) SEmpty
        | TCons h tl, _ => start n' (from_array BFS [CForceAns h; CForceAns tl]) st
        | TComp _ cs, _ => start n' (from_array BFS (map CForceAns (flat_children cs))) st
        | _, _ => SUnit st
        end
    | CEnforceFd =>
        if verify_all_bound st then
          let keys := map (fun p => TVar (fst p) false) (st_dstore st) in
          start n' (onceo_from [[CForceAns (list_term keys)]]) st
        else SErr false panic_site_verify_all_bound
    | CReify x =>
        match walk_star dfuel (st_smap st) x with
        | None => SErr true 0
        | Some v =>
            match reify_s dfuel (st_smap st) (st_nextv st) v with
            | None => SErr true 0
            | Some (r, nv) =>
                (* cstore.walk_star(smap); with_smap(r); with_cstore: take every old constraint, add the new ones *)
                let old := st_cstore st in
                let st1 := set_nextv (set_smap st r) nv in
                let st2 := fold_left (fun s ic => fst (take_constraint s (fst ic))) old st1 in
                let add := fix add (cs : list (nat * constraint)) (s : state) : stream :=
                  match cs with
                  | [] => SUnit s
                  | (_, KDiseq ps) :: r' =>
                      match walk_star_pairs (st_smap st) ps with
                      | Some (Some ps') => add r' (with_new_constraint s (KDiseq ps'))
                      | Some None => SErr false panic_site_walkstar_key
                      | None => SErr true 0
                      end
                  | _ :: r' => add r' s
                  end in
                add old st2
            end
        end
    end
  end.

Definition sfuel : nat := N.to_nat 2000.
Definition step (l : lzy) : stream := step_with (start sfuel) l.

(* Solver::next as one observable action: run steps until an answer or the end.
   [k] bounds the number of engine steps; the result also reports how many were used. *)
Inductive next_res :=
| NAnswer (st : state) (rest : stream) (steps : nat)
| NDone (steps : nat)
| NBudget (rest : stream)
| NErr (oof : bool) (site : nat).

Fixpoint next (k : nat) (used : nat) (s : stream) : next_res :=
  match s with
  | SEmpty => NDone used
  | SUnit a => NAnswer a SEmpty used
  | SCons a l => NAnswer a (SLazy l) used
  | SErr o p => NErr o p
  | SLazy l =>
      match k with
      | O => NBudget s
      | S k' => next k' (S used) (step l)
      end
  end.

(* ------------------------------------------------------------------ queries *)
(* the goal built by proto_vulcan_query!: query variables get ids 0..n-1, __query__ the next one *)
Definition reify_goal (q : term) : cgoal :=
  (* reify(x) = [enforce_constraints(x), fngoal];  enforce_constraints(x) = [enforce_constraints_fd(x), Succeed];
     enforce_constraints_fd(x) = [force_ans(x), fngoal] *)
  from_array BFS [from_array BFS [from_array BFS [CForceAns q; CEnforceFd]; CSucceed]; CReify q].

Definition query_goal (nvars : nat) (names : list nat) (body : list goal) : cgoal * state :=
  let qvars := map (fun i => TVar i false) (seq 0 nvars) in
  let rho := combine names qvars in
  let q := TVar nvars false in
  let '(cs, nv) := elab efuel BFS rho (GConj body) (S nvars) in
  (CFresh BFS (from_array BFS [CEq q (list_term qvars); cs; reify_goal q]), empty_state nv).

(* ConstraintStore::purify as repaired: a disequality is kept only when every variable it mentions
   is a reified variable of this answer *)
Fixpoint all_vars_reified (r : smap) (t : term) : bool :=
  match t with
  | TVar v _ => bound_in v r
  | TCons h tl => all_vars_reified r h && all_vars_reified r tl
  | TComp _ cs => all_vars_reified_list r cs
  | _ => true
  end
with all_vars_reified_list (r : smap) (ts : terms) : bool :=
  match ts with TNil => true | TMore t rest => all_vars_reified r t && all_vars_reified_list r rest end.

Definition purify (r : smap) (cs : list (nat * constraint)) : list (nat * constraint) :=
  filter (fun ic => match snd ic with
                    | KDiseq ps => forallb (fun p => is_anyvar r (TVar (fst p) false) && all_vars_reified r (snd p)) ps
                    | _ => true end) cs.
(* the pinned purify: any key reified *)
Definition purify_pinned (r : smap) (cs : list (nat * constraint)) : list (nat * constraint) :=
  filter (fun ic => match snd ic with
                    | KDiseq ps => existsb (fun p => is_anyvar r (TVar (fst p) false)) ps
                    | _ => true end) cs.

(* ConstraintStore::normalize : re-insert one by one *)
Definition normalize (cs : list (nat * constraint)) : list (nat * constraint) :=
  fold_left (fun acc ic => fst (push_and_normalize acc (fst ic) (snd ic))) cs [].

Record answer := mkAnswer { a_terms : list term; a_constraints : list smap; a_probes : list uevent }.

(* ResultIterator::next on an emitted state *)
Definition result_of (nvars : nat) (st : state) : option answer :=
  let s := st_smap st in
  let cs := normalize (purify s (st_cstore st)) in
  let walked := fix walked (cs : list (nat * constraint)) : option (list smap) :=
    match cs with
    | [] => Some []
    | (_, KDiseq ps) :: r =>
        match walk_star_pairs s ps, walked r with
        | Some (Some ps'), Some r' => Some (ps' :: r')
        | _, _ => None
        end
    | _ :: r => walked r
    end in
  let terms := fix terms (vs : list nat) : option (list term) :=
    match vs with
    | [] => Some []
    | v :: r => match walk_star dfuel s (TVar v false), terms r with
                | Some t, Some r' => Some (t :: r')
                | _, _ => None
                end
    end in
  match terms (seq 0 nvars), walked cs with
  | Some ts, Some cs' => Some (mkAnswer ts cs' (rev (filter (fun e => match e with UProbe _ _ _ _ _ _ => true | _ => false end) (st_ulog st))))
  | _, _ => None
  end.

(* LTerm::anyvars (repaired: descends into compounds) *)
Fixpoint anyvars (t : term) : list nat :=
  match t with
  | TVar v true => [v]
  | TCons h tl => anyvars h ++ anyvars tl
  | TComp _ cs => anyvars_list cs
  | _ => []
  end
with anyvars_list (ts : terms) : list nat :=
  match ts with TNil => [] | TMore t r => anyvars t ++ anyvars_list r end.

(* LResult::constraints : the reported constraints with an operand among the any-variables of the term *)
Definition relevant_constraints (t : term) (cs : list smap) : list smap :=
  let avs := anyvars t in
  filter (fun ps => existsb (fun p => existsb (Nat.eqb (fst p)) avs ||
                                      match snd p with TVar v _ => existsb (Nat.eqb v) avs | _ => false end) ps) cs.

(* run a query: up to [maxans] answers within [budget] engine steps *)
Inductive run_end := EDone | ELimit | EBudget | EError (oof : bool) (site : nat).

Fixpoint run_query (maxans : nat) (budget : nat) (nvars : nat) (s : stream) (acc : list (answer * nat))
  : list (answer * nat) * run_end * nat :=
  match maxans with
  | O => (rev acc, ELimit, budget)
  | S m =>
      match next budget 0 s with
      | NDone used => (rev acc, EDone, (budget - used)%nat)
      | NBudget _ => (rev acc, EBudget, 0)
      | NErr o p => (rev acc, EError o p, budget)
      | NAnswer st rest used =>
          match result_of nvars st with
          | Some a => run_query m ((budget - used)%nat) nvars rest ((a, used) :: acc)
          | None => (rev acc, EError true 0, (budget - used)%nat)
          end
      end
  end.

End WithDefs.
