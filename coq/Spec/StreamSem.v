(* Reference semantics of streams: what a stream is *allowed* to deliver.
   Nothing here mentions how the engine schedules work.

   [ansS s xs] : xs is an admissible complete answer sequence of the (finite) stream s.
     - depth-first nodes (MPlusDFS, BindDFS) fix the order: first operand's answers first;
       for a bind, all extensions of the first answer before those of the second;
     - interleaving nodes (MPlus, Bind) admit every permutation of the combined answers.
   [inS s a]   : a is an answer of s (also meaningful for streams with infinitely many answers).
   Both are parametric in [startf], the function that starts a goal in a state. *)
From Coq Require Import List Permutation.
From PV Require Import Model.Term Model.State Model.Engine.
Import ListNotations.

Section Sem.
Variable startf : cgoal -> state -> stream.

(* answers of [bind xs g]: for each x in order, an admissible sequence of (startf g x) *)
Inductive ansL : lzy -> list state -> Prop :=
| AL_pause st g xs : ansS (startf g st) xs -> ansL (LPause st g) xs
| AL_pause_dfs st g xs : ansS (startf g st) xs -> ansL (LPauseDFS st g) xs
| AL_delay s xs : ansS s xs -> ansL (LDelay s) xs
| AL_mplus_dfs l1 l2 xs ys : ansL l1 xs -> ansL l2 ys -> ansL (LMPlusDFS l1 l2) (xs ++ ys)
| AL_mplus l1 l2 xs ys zs : ansL l1 xs -> ansL l2 ys -> Permutation zs (xs ++ ys) -> ansL (LMPlus l1 l2) zs
| AL_bind_dfs l g xs yss :
    ansL l xs -> ansB g xs yss -> ansL (LBindDFS l g) (concat yss)
| AL_bind l g xs yss zs :
    ansL l xs -> ansB g xs yss -> Permutation zs (concat yss) -> ansL (LBind l g) zs
(* Stream::bind with a goal that is literally Fail is empty without looking at the bound stream *)
| AL_bind_fail l g : is_fail g = true -> ansL (LBind l g) []
| AL_bind_dfs_fail l g : is_fail g = true -> ansL (LBindDFS l g) []
with ansS : stream -> list state -> Prop :=
| AS_empty : ansS SEmpty []
| AS_unit a : ansS (SUnit a) [a]
| AS_lazy l xs : ansL l xs -> ansS (SLazy l) xs
| AS_cons a l xs : ansL l xs -> ansS (SCons a l) (a :: xs)
with ansB : cgoal -> list state -> list (list state) -> Prop :=
| AB_nil g : ansB g [] []
| AB_cons g x xs ys yss : ansS (startf g x) ys -> ansB g xs yss -> ansB g (x :: xs) (ys :: yss).

Scheme ansL_ind3 := Minimality for ansL Sort Prop
  with ansS_ind3 := Minimality for ansS Sort Prop
  with ansB_ind3 := Minimality for ansB Sort Prop.
Combined Scheme ans_mutind from ansL_ind3, ansS_ind3, ansB_ind3.

Inductive inL : lzy -> state -> Prop :=
| IL_pause st g a : inS (startf g st) a -> inL (LPause st g) a
| IL_pause_dfs st g a : inS (startf g st) a -> inL (LPauseDFS st g) a
| IL_delay s a : inS s a -> inL (LDelay s) a
| IL_mplus_l l1 l2 a : inL l1 a -> inL (LMPlus l1 l2) a
| IL_mplus_r l1 l2 a : inL l2 a -> inL (LMPlus l1 l2) a
| IL_mplus_dfs_l l1 l2 a : inL l1 a -> inL (LMPlusDFS l1 l2) a
| IL_mplus_dfs_r l1 l2 a : inL l2 a -> inL (LMPlusDFS l1 l2) a
| IL_bind l g b a : inL l b -> inS (startf g b) a -> inL (LBind l g) a
| IL_bind_dfs l g b a : inL l b -> inS (startf g b) a -> inL (LBindDFS l g) a
with inS : stream -> state -> Prop :=
| IS_unit a : inS (SUnit a) a
| IS_lazy l a : inL l a -> inS (SLazy l) a
| IS_cons_hd a l : inS (SCons a l) a
| IS_cons_tl b l a : inL l a -> inS (SCons b l) a.

Scheme inL_ind2 := Minimality for inL Sort Prop
  with inS_ind2 := Minimality for inS Sort Prop.
Combined Scheme in_mutind from inL_ind2, inS_ind2.

(* One observable micro-step of Solver::next: deliver the head, or take one engine step. *)
Definition micro (s : stream) : option (option state * stream) :=
  match s with
  | SEmpty => None
  | SUnit a => Some (Some a, SEmpty)
  | SCons a l => Some (Some a, SLazy l)
  | SLazy l => Some (None, step_with startf l)
  | SErr _ _ => None
  end.

(* [runs n s ys s'] : n micro-steps from s deliver exactly ys (in this order) and leave s' *)
Inductive runs : nat -> stream -> list state -> stream -> Prop :=
| R_zero s : runs 0 s [] s
| R_emit n s a s1 ys s' : micro s = Some (Some a, s1) -> runs n s1 ys s' -> runs (S n) s (a :: ys) s'
| R_step n s s1 ys s' : micro s = Some (None, s1) -> runs n s1 ys s' -> runs (S n) s ys s'.

(* a is delivered within n micro-steps *)
Fixpoint emits (n : nat) (s : stream) (a : state) : Prop :=
  match n with
  | O => False
  | S n' =>
      match micro s with
      | None => False
      | Some (Some b, s') => b = a \/ emits n' s' a
      | Some (None, s') => emits n' s' a
      end
  end.

(* ... or an engine step fails to return (the error stream) within n micro-steps *)
Fixpoint emitsE (n : nat) (s : stream) (a : state) : Prop :=
  match n with
  | O => False
  | S n' =>
      match s with
      | SErr _ _ => True
      | _ =>
        match micro s with
        | None => False
        | Some (Some b, s') => b = a \/ emitsE n' s' a
        | Some (None, s') => emitsE n' s' a
        end
      end
  end.

(* membership along interleaving nodes only: the derivations that fairness speaks about *)
Inductive inLb : lzy -> state -> Prop :=
| ILb_pause st g a : inSb (startf g st) a -> inLb (LPause st g) a
| ILb_delay s a : inSb s a -> inLb (LDelay s) a
| ILb_mplus_l l1 l2 a : inLb l1 a -> inLb (LMPlus l1 l2) a
| ILb_mplus_r l1 l2 a : inLb l2 a -> inLb (LMPlus l1 l2) a
| ILb_bind l g b a : inLb l b -> inSb (startf g b) a -> inLb (LBind l g) a
with inSb : stream -> state -> Prop :=
| ISb_unit a : inSb (SUnit a) a
| ISb_lazy l a : inLb l a -> inSb (SLazy l) a
| ISb_cons_hd a l : inSb (SCons a l) a
| ISb_cons_tl b l a : inLb l a -> inSb (SCons b l) a.

Scheme inLb_ind2 := Minimality for inLb Sort Prop
  with inSb_ind2 := Minimality for inSb Sort Prop.
Combined Scheme inb_mutind from inLb_ind2, inSb_ind2.

End Sem.
