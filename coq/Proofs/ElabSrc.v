(* Goal construction preserves a predicate of the SOURCE program (generalises ElabAll): if a predicate G
   on source goals is inherited by sub-goals, holds for the bodies of the relation definitions, and
   implies the atom predicate A for the atoms that carry source material (closures, for-bodies,
   project bodies, posted domains), and A holds for all other atoms, then everything goal
   construction builds from a G-goal satisfies A throughout. *)
From Coq Require Import List ZArith Bool Arith Lia.
From PV Require Import Model.Term Model.Subst Model.Unify Model.FD Model.State Model.Engine Proofs.ElabAll.
Import ListNotations.

Section Src.
Variable A : cgoal -> Prop.
Notation gall := (gall A).
Definition triv_atom (g : cgoal) : Prop :=
  match g with
  | CReify _ | CForceAns _ | CEnforceFd | CDom _ _ | CClosure _ _ _ | CEveryg _ _ _ _ _ | CProject _ _ _ _ => False
  | CPanicG s => s = 0 \/ s = 1 \/ s = 10
  | _ => True
  end.
Hypothesis A_triv : forall g, triv_atom g -> A g.

Lemma gall_conde k gs : ElabAll.gall A (CConde k gs) <-> Forall gall gs.
Proof.
  cbn [gall]. induction gs as [|c r IH]; [split; auto|].
  split; [intros [H1 H2]; constructor; [exact H1|apply IH, H2]|intros H; inversion H; subst; split; [assumption|apply IH; assumption]].
Qed.
Lemma gall_succeed : gall CSucceed. Proof. apply A_triv. exact I. Qed.
Lemma gall_fail : gall CFail. Proof. apply A_triv. exact I. Qed.
Lemma conj_new_all k a b : gall a -> gall b -> gall (conj_new k a b).
Proof.
  intros Ha Hb. unfold conj_new. destruct (is_succeed a && is_succeed b); [apply gall_succeed|].
  destruct (is_fail a || is_fail b); [apply gall_fail|]. split; assumption.
Qed.
Lemma from_array_all k cs : Forall gall cs -> gall (from_array k cs).
Proof. induction 1; cbn; [apply gall_succeed|]. apply conj_new_all; assumption. Qed.
Lemma from_conjs_all k css : Forall (Forall gall) css -> gall (from_conjs k css).
Proof. unfold from_conjs. induction 1; cbn; [apply gall_succeed|]. apply conj_new_all; [apply from_array_all; assumption|assumption]. Qed.
Lemma from_iter_all k cs : Forall gall cs -> gall (from_iter k cs).
Proof.
  unfold from_iter. generalize CSucceed gall_succeed. induction cs as [|c r IH]; intros acc Ha H; [exact Ha|].
  inversion H; subst. cbn [fold_left]. apply IH; [apply conj_new_all; assumption|assumption].
Qed.
Lemma conde_from_all k css : Forall (Forall gall) css -> gall (conde_from k css).
Proof. intros H. unfold conde_from. apply gall_conde. induction H; cbn; constructor; [apply from_array_all; assumption|assumption]. Qed.
Lemma conda_from_all css : Forall (Forall gall) css -> gall (conda_from css).
Proof.
  induction 1 as [|cs r Hc Hr IH]; cbn; [apply gall_fail|]. destruct cs as [|f rest]; [exact IH|].
  inversion Hc; subst. cbn. repeat split; [assumption|apply from_array_all; assumption|exact IH].
Qed.
Lemma condu_from_all css : Forall (Forall gall) css -> gall (condu_from css).
Proof.
  induction 1 as [|cs r Hc Hr IH]; cbn; [apply gall_fail|]. destruct cs as [|f rest]; [exact IH|].
  inversion Hc; subst. cbn. repeat split; [assumption|apply from_array_all; assumption|exact IH].
Qed.
Lemma onceo_from_all css : Forall (Forall gall) css -> gall (onceo_from css).
Proof. intros H. unfold onceo_from. apply condu_from_all. repeat constructor. apply from_conjs_all, H. Qed.
Lemma anyo_from_all css : Forall (Forall gall) css -> gall (anyo_from css).
Proof. intros H. unfold anyo_from. cbn. apply from_conjs_all, H. Qed.
Lemma rel_goal_all k r a : gall (rel_goal k r a).
Proof.
  destruct r; cbn [rel_goal]; try (apply A_triv; exact I).
  apply from_array_all. repeat constructor; apply A_triv; exact I.
Qed.

Section Elab.
Variable defs : list (nat * def).
Variable G : goal -> Prop.
Hypothesis G_conj : forall gs, G (GConj gs) -> Forall G gs.
Hypothesis G_fresh : forall xs gs, G (GFresh xs gs) -> Forall G gs.
Hypothesis G_cond : forall css, G (GCond css) -> Forall (Forall G) css.
Hypothesis G_conda : forall css, G (GConda css) -> Forall (Forall G) css.
Hypothesis G_condu : forall css, G (GCondu css) -> Forall (Forall G) css.
Hypothesis G_onceo : forall css, G (GOnceo css) -> Forall (Forall G) css.
Hypothesis G_loop : forall css, G (GLoop css) -> Forall (Forall G) css.
Hypothesis G_dfs : forall css, G (GDfs css) -> Forall (Forall G) css.
Hypothesis G_match : forall mk t arms, G (GMatch mk t arms) -> Forall (fun arm => Forall G (snd arm)) arms.
Hypothesis G_defs : forall r d, find_def r defs = Some d -> G (d_body d).
Hypothesis A_closure : forall k rho gs, G (GClosure gs) -> A (CClosure k rho gs).
Hypothesis A_for : forall k rho x coll elems css, G (GFor x coll css) -> A (CEveryg k rho x elems css).
Hypothesis A_project : forall k rho xs gs, G (GProject xs gs) -> A (CProject k rho xs gs).
Hypothesis A_dom : forall x d x', G (GDom x d) -> A (CDom x' d).

Lemma elab_src : forall f k rho g n, G g -> gall (fst (elab defs f k rho g n)).
Proof.
  induction f as [|f IH]; intros k rho g n HG; [cbn; apply A_triv; cbn; auto|].
  assert (Hel : forall gs k rho n, Forall G gs -> Forall gall (fst ((fix el (k : kind) (rho : env) (gs : list goal) (n : nat) : list cgoal * nat :=
      match gs with
      | [] => ([], n)
      | g :: r => let '(c, n1) := elab defs f k rho g n in let '(cs, n2) := el k rho r n1 in (c :: cs, n2)
      end) k rho gs n))).
  { induction gs as [|g0 r IHr]; intros k0 rho0 n0 HGs; [constructor|]. inversion HGs as [|? ? HG0 HGr]; subst.
    pose proof (IH k0 rho0 g0 n0 HG0) as Hc. destruct (elab defs f k0 rho0 g0 n0) as [c n1].
    specialize (IHr k0 rho0 n1 HGr). match goal with |- context [let '(cs, n2) := ?X in _] => destruct X as [cs n2] end.
    constructor; assumption. }
  assert (Hell : forall css k rho n, Forall (Forall G) css -> Forall (Forall gall) (fst ((fix ell (k : kind) (rho : env) (css : list (list goal)) (n : nat) : list (list cgoal) * nat :=
      match css with
      | [] => ([], n)
      | gs :: r =>
          let '(c, n1) := (fix el (k : kind) (rho : env) (gs : list goal) (n : nat) : list cgoal * nat :=
             match gs with
             | [] => ([], n)
             | g :: r => let '(c, n1) := elab defs f k rho g n in let '(cs, n2) := el k rho r n1 in (c :: cs, n2)
             end) k rho gs n in
          let '(cs, n2) := ell k rho r n1 in (c :: cs, n2)
      end) k rho css n))).
  { induction css as [|gs r IHr]; intros k0 rho0 n0 HGs; [constructor|]. inversion HGs as [|? ? HG0 HGr]; subst.
    pose proof (Hel gs k0 rho0 n0 HG0) as Hc.
    match goal with |- context [let '(c, n1) := ?X in _] => destruct X as [c n1] end.
    specialize (IHr k0 rho0 n1 HGr). match goal with |- context [let '(cs, n2) := ?X in _] => destruct X as [cs n2] end.
    constructor; assumption. }
  destruct g as [| |u v|u v|gs|xs gs|css|css|css|css|css|css|gs|r args|mk t arms|x coll css|xs gs|x d|r args|tag|u v]; cbn [elab].
  - apply gall_succeed.
  - apply gall_fail.
  - destruct (elab_term rho u n) as [u' n1]. destruct (elab_term rho v n1). apply A_triv; exact I.
  - destruct (elab_term rho u n) as [u' n1]. destruct (elab_term rho v n1). apply A_triv; exact I.
  - pose proof (Hel gs k rho n (G_conj _ HG)) as H. match goal with |- context [let '(cs, n1) := ?X in _] => destruct X end. apply from_array_all, H.
  - destruct (bind_fresh xs rho n) as [rho' n1]. pose proof (Hel gs k rho' n1 (G_fresh _ _ HG)) as H.
    match goal with |- context [let '(cs, n2) := ?X in _] => destruct X end. cbn. apply from_array_all, H.
  - pose proof (Hell css k rho n (G_cond _ HG)) as H. match goal with |- context [let '(cs, n1) := ?X in _] => destruct X end. apply conde_from_all, H.
  - pose proof (Hell css BFS rho n (G_conda _ HG)) as H. match goal with |- context [let '(cs, n1) := ?X in _] => destruct X end. apply conda_from_all, H.
  - pose proof (Hell css BFS rho n (G_condu _ HG)) as H. match goal with |- context [let '(cs, n1) := ?X in _] => destruct X end. apply condu_from_all, H.
  - pose proof (Hell css BFS rho n (G_onceo _ HG)) as H. match goal with |- context [let '(cs, n1) := ?X in _] => destruct X end. apply onceo_from_all, H.
  - pose proof (Hell css BFS rho n (G_loop _ HG)) as H. match goal with |- context [let '(cs, n1) := ?X in _] => destruct X end. apply anyo_from_all, H.
  - pose proof (Hell css DFS rho n (G_dfs _ HG)) as H. match goal with |- context [let '(cs, n1) := ?X in _] => destruct X end. apply from_conjs_all, H.
  - apply A_closure, HG.
  - destruct (elab_term_list rho args n) as [args' n1]. destruct (find_def r defs) eqn:Ed; [|cbn; apply A_triv; cbn; auto].
    destruct (d_closure d); [apply A_triv; exact I|apply IH]. eapply G_defs; eauto.
  - match goal with |- gall (fst (let '(cs, n1) := ?X in _)) => assert (H : Forall (Forall gall) (fst X)) end.
    { pose proof (G_match _ _ _ HG) as HGa. clear HG. revert n. induction arms as [|[pats body] r IHr]; intros n0; [constructor|].
      inversion HGa as [|? ? HGb HGr]; subst. cbn [snd] in HGb. specialize (IHr HGr). clear HGa.
      match goal with |- context [let '(a, n1) := ?X in _] => assert (Ha : Forall (Forall gall) (fst X)) end.
      { revert n0. induction pats as [|p pr IHp]; intros n0; [constructor|].
        destruct (elab_term rho t n0) as [t' n00]. destruct (bind_fresh _ rho n00) as [rho' n1]. destruct (elab_term rho' p n1) as [p' n2].
        pose proof (Hel body k rho' n2 HGb) as Hb. match goal with |- context [let '(cs, n3) := ?X in _] => destruct X as [cs n3] end.
        specialize (IHp n3). match goal with |- context [let '(rest, n4) := ?X in _] => destruct X as [rest n4] end.
        constructor; [constructor; [apply A_triv; exact I|exact Hb]|exact IHp]. }
      match goal with |- context [let '(a, n1) := ?X in _] => destruct X as [a n1] end.
      specialize (IHr n1). match goal with |- context [let '(b, n2) := ?X in _] => destruct X as [b n2] end.
      cbn. apply Forall_app. split; assumption. }
    match goal with |- gall (fst (let '(cs, n1) := ?X in _)) => destruct X as [cs n1] end.
    destruct mk; [apply conde_from_all|apply conda_from_all|apply condu_from_all]; exact H.
  - destruct (elab_term rho coll n). eapply A_for, HG.
  - apply A_project, HG.
  - destruct (elab_term rho x n) as [x' n1]. cbn. destruct (is_list_term x'); [|eapply A_dom, HG].
    apply from_array_all. apply Forall_forall. intros c Hc. apply in_map_iff in Hc. destruct Hc as [v [<- _]]. eapply A_dom, HG.
  - destruct (elab_term_list rho args n) as [a n1]. cbn.
    destruct r; try apply rel_goal_all; (destruct (forallb var_or_number a); [apply rel_goal_all|cbn; apply A_triv; cbn; auto]).
  - apply A_triv; exact I.
  - destruct (elab_term rho u n) as [u' n1]. destruct (elab_term rho v n1). apply A_triv; exact I.
Qed.
End Elab.
End Src.
