(* Completeness for programs without recursion (C02, C04, C17): goals built from ==, !=, domains, every
   CLP(FD)/CLP(Z) constraint, interleaving conjunction and disjunction and fresh variables - exactly the
   programs C02 and C04 quantify over.  If a valuation th solves the starting state and satisfies the
   logical reading of the goal, then some answer that th solves is delivered after finitely many
   steps (or an engine step fails with an error outcome first).  With the soundness theorems
   (DenProofs.delivered_sound, FDProg.fd_delivered_sound): the solutions of the delivered answers are
   exactly the solutions of the program. *)
From Coq Require Import List ZArith Bool Arith Lia.
From PV Require Import Model.Term Model.Subst Model.Unify Model.FD Model.State Model.Engine Spec.StreamSem
  Proofs.FDProofs Proofs.UnifyProofs Proofs.DiseqProofs Proofs.MonoProofs Proofs.StreamProofs Proofs.EngineProofs Proofs.SemProofs
  Proofs.DenProofs Proofs.KeyStream Proofs.Acyc Proofs.BodyInv Proofs.AcycState Proofs.FDDen Proofs.FDComp Proofs.FrameProofs
  Proofs.FDEq Proofs.DisunifyC Proofs.ElabAll Proofs.FDProg Proofs.PureElab Proofs.FairProofs.
Import ListNotations.

(* the fragment: no closure, relation call, for-all, project, anyo, committed choice, labeling *)
Fixpoint flat (g : cgoal) : Prop :=
  match g with
  | CSucceed | CFail | CEq _ _ | CDiseq _ _ | CPost _ => True
  | CDom _ d => wf' d
  | CConj k a b => k = BFS /\ flat a /\ flat b
  | CConde k gs => k = BFS /\ (fix all (l : list cgoal) : Prop := match l with [] => True | c :: r => flat c /\ all r end) gs
  | CFresh k a => k = BFS /\ flat a
  | _ => False
  end.

(* the logical reading; constraints with the guard of C17 (arithmetic values within isize) *)
Inductive Den0 (th : val) : cgoal -> Prop :=
| Z_succeed : Den0 th CSucceed
| Z_eq u v : app th u = app th v -> Den0 th (CEq u v)
| Z_diseq u v : app th u <> app th v -> Den0 th (CDiseq u v)
| Z_dom x d : (exists z, numv th x z /\ mem d z) -> Den0 th (CDom x d)
| Z_post c : choldG th c -> Den0 th (CPost c)
| Z_conj k a b : Den0 th a -> Den0 th b -> Den0 th (CConj k a b)
| Z_conde k gs c : In c gs -> Den0 th c -> Den0 th (CConde k gs)
| Z_fresh k a : Den0 th a -> Den0 th (CFresh k a).

Section Complete.
Variable defs : list (nat * def).
Notation inSe := (inSe defs).
Notation inLe := (inLe defs).

(* one state operation: it returns a state that th still solves (and that is good), or it errs; it cannot fail *)
Lemma op_case (Q : val -> Prop) st r th :
  sresCP Q st r -> MstG th st -> Q th -> GoodS st ->
  (forall st', r = SOk st' -> GoodS st') ->
  exists a, MstG th a /\ GoodS a /\ inSe (sres_stream r) a.
Proof.
  intros HC HM HQ G HG. destruct r as [st'| | |]; cbn [sresCP sres_stream] in *.
  - exists st'. split; [apply HC; assumption|]. split; [apply HG; reflexivity|apply ISe_unit].
  - exfalso. apply (HC th HM HQ).
  - exists st. split; [exact HM|]. split; [exact G|apply ISe_err].
  - exists st. split; [exact HM|]. split; [exact G|apply ISe_err].
Qed.
Lemma fuel_case (s : stream) g st a : (forall n, start defs (S n) g st = s) -> inSe s a -> forall n, inSe (start defs n g st) a.
Proof. intros E H n. destruct n as [|n]; [apply ISe_err|]. rewrite E. exact H. Qed.

Theorem complete0 th : forall g, Den0 th g -> flat g -> forall st, MstG th st -> GoodS st ->
  exists a, MstG th a /\ GoodS a /\ forall n, inSe (start defs n g st) a.
Proof.
  induction 1; intros Hf st HM G.
  - exists st. split; [exact HM|]. split; [exact G|]. apply (fuel_case (SUnit st)); [reflexivity|apply ISe_unit].
  - destruct (op_case (fun th => app th u = app th v) st (state_unify st u v) th (state_unify_C st u v (proj1 G) (proj2 G)) HM H G) as [a [A1 [A2 A3]]].
    { intros st' E. apply (state_unify_ref st u v st' G E). }
    exists a. split; [exact A1|]. split; [exact A2|]. apply (fuel_case (sres_stream (state_unify st u v))); [reflexivity|exact A3].
  - destruct (op_case (fun th => app th u <> app th v) st (state_disunify st u v) th (state_disunify_C st u v) HM H G) as [a [A1 [A2 A3]]].
    { intros st' E. apply (state_disunify_ref st u v st' G E). }
    exists a. split; [exact A1|]. split; [exact A2|]. apply (fuel_case (sres_stream (state_disunify st u v))); [reflexivity|exact A3].
  - cbn [flat] in Hf.
    destruct (op_case (fun th => exists z, numv th x z /\ mem d z) st (post_domain x d st) th (post_domain_C x d st (proj2 G) Hf) HM H G) as [a [A1 [A2 A3]]].
    { intros st' E. apply (post_domain_ref x d st st' G Hf E). }
    exists a. split; [exact A1|]. split; [exact A2|]. apply (fuel_case (sres_stream (post_domain x d st))); [reflexivity|exact A3].
  - destruct (op_case (fun th => choldG th c) st (post_constraint c st) th (post_constraint_C c st (proj2 G)) HM H G) as [a [A1 [A2 A3]]].
    { intros st' E. apply (post_constraint_ref c st st' G E). }
    exists a. split; [exact A1|]. split; [exact A2|]. apply (fuel_case (sres_stream (post_constraint c st))); [reflexivity|exact A3].
  - destruct Hf as [-> [Hf1 Hf2]].
    destruct (IHDen0_1 Hf1 st HM G) as [a1 [M1 [G1 I1]]]. destruct (IHDen0_2 Hf2 a1 M1 G1) as [a2 [M2 [G2 I2]]].
    exists a2. split; [exact M2|]. split; [exact G2|]. intros n. destruct n as [|n]; [apply ISe_err|]. cbn [start lazy_bind_k pause_k]. unfold lazy_bind.
    destruct (is_succeed b) eqn:Es.
    + apply is_succeed_eq in Es. subst b. specialize (I2 (S O)). cbn [start] in I2. inversion I2; subst.
      apply ISe_lazy, ILe_pause. apply I1.
    + destruct (is_fail b) eqn:Ef; [apply is_fail_eq in Ef; subst b; inversion H0|].
      apply ISe_lazy. eapply ILe_bind; [apply ILe_pause, I1|apply I2].
  - destruct Hf as [-> Hf].
    assert (Hc : flat c).
    { clear -H Hf. induction gs as [|c0 r IH]; [destruct H|]. destruct Hf as [A B]. destruct H as [->|Hin]; [exact A|apply IH; assumption]. }
    destruct (IHDen0 Hc st HM G) as [a [M1 [G1 I1]]]. exists a. split; [exact M1|]. split; [exact G1|].
    intros n. destruct n as [|n]; [apply ISe_err|]. cbn [start mplus_k]. clear Hf Hc IHDen0.
    induction gs as [|c0 r IHr]; [destruct H|]. cbn [fold_right]. destruct H as [->|Hin].
    + apply mplus_e_l. apply I1.
    + apply mplus_e_r, ILe_delay. apply IHr, Hin.
  - destruct Hf as [-> Hf]. destruct (IHDen0 Hf st HM G) as [a1 [M1 [G1 I1]]]. exists a1. split; [exact M1|]. split; [exact G1|].
    intros n. destruct n as [|n]; [apply ISe_err|]. cbn [start pause_k]. apply ISe_lazy, ILe_pause. apply I1.
Qed.

(* ... delivered after finitely many steps, or an engine step errs first *)
Corollary complete0_delivered th g st : Den0 th g -> flat g -> MstG th st -> GoodS st ->
  exists a n, MstG th a /\ emitsE (startq defs) n (startq defs g st) a.
Proof.
  intros HD Hf HM G. destruct (complete0 th g HD Hf st HM G) as [a [M [_ I]]]. specialize (I sfuel).
  destruct (proj2 (ine_emits defs) _ _ I) as [n Hn]. exists a, n. split; [exact M|exact Hn].
Qed.
End Complete.

(* ------------------------------------------------------------------ tree programs: exactly the solutions *)
(* the programs of C02 / C04: ==, !=, conjunction, disjunction, fresh *)
Fixpoint flatT (g : cgoal) : Prop :=
  match g with
  | CSucceed | CFail | CEq _ _ | CDiseq _ _ => True
  | CConj k a b => k = BFS /\ flatT a /\ flatT b
  | CConde k gs => k = BFS /\ (fix all (l : list cgoal) : Prop := match l with [] => True | c :: r => flatT c /\ all r end) gs
  | CFresh k a => k = BFS /\ flatT a
  | _ => False
  end.
Lemma flatT_flat : forall g, flatT g -> flat g.
Proof.
  fix IH 1. intros g. destruct g; cbn [flatT flat]; intros H; try exact I; try contradiction.
  - destruct H as [A [B C]]. split; [exact A|]. split; apply IH; assumption.
  - destruct H as [A B]. split; [exact A|]. induction gs as [|c r IHr]; [exact I|]. destruct B. split; [apply IH; assumption|apply IHr; assumption].
  - destruct H as [A B]. split; [exact A|apply IH, B].
Qed.
Lemma Den_Den0 defs th : forall g, Den defs th g -> flatT g -> Den0 th g.
Proof.
  induction 1; intros Hf; try (destruct Hf; fail); try (constructor; auto; fail).
  - destruct Hf as [_ [A B]]. constructor; auto.
  - destruct Hf as [_ Hf]. econstructor; [exact H|]. apply IHDen. clear -H Hf.
    induction gs as [|c0 r IH]; [destruct H|]. destruct Hf as [A B]. destruct H as [->|Hin]; [exact A|apply IH; assumption].
  - destruct Hf as [_ Hf]. constructor. auto.
  - destruct g; destruct H; destruct Hf.
Qed.
Lemma MstG_Mst th st : MstG th st -> Mst th st.
Proof. intros [Hs [HS _]]. split; [exact Hs|]. intros i ps Hin. exact (HS i (KDiseq ps) Hin). Qed.

Theorem tree_program_exact defs g m th : flatT g ->
  (forall k u n a rest u', next defs k u (start defs n g (empty_state m)) = NAnswer a rest u' -> MstG th a -> Den0 th g) /\
  (Den0 th g -> exists a n, MstG th a /\ emitsE (startq defs) n (startq defs g (empty_state m)) a).
Proof.
  intros Hf. split.
  - intros k u n a rest u' H HM. destruct (delivered_sound defs _ _ _ _ _ _ _ _ th H (MstG_Mst _ _ HM)) as [HD _].
    apply (Den_Den0 defs th g HD Hf).
  - intros HD. apply complete0_delivered; [exact HD|apply flatT_flat, Hf| |].
    + split; [intros x t []|]. split; [intros i c []|intros x d []].
    + split; [constructor|apply WFD_empty].
Qed.
