(* Soundness of the library relations that use disequality - rember, member1, distinct, permute - for
   ALL lists and ALL argument modes, over the definitions translated from /repo/src/relation/*.rs on
   every run (Gen/RelDefs.v): every valuation that solves an answer the engine delivers (substitution
   AND stored disequalities) satisfies the inductive reading of the relation.  (append and member:
   RelSound.)  Built on the logical reading of whole programs (DenProofs.delivered_sound). *)
From Coq Require Import List ZArith Bool Arith Lia.
From PV Require Import Model.Term Model.Subst Model.Unify Model.FD Model.State Model.Engine
  Proofs.UnifyProofs Proofs.DiseqProofs Proofs.EngineProofs Proofs.SemProofs Proofs.MonoProofs Proofs.DenProofs Proofs.RelSound Gen.RelDefs.
Import ListNotations.

(* rember(x, l, out): out is l without the first element equal to x (l itself if there is none) *)
Inductive RemberV (x : term) : term -> term -> Prop :=
| RV_nil : RemberV x TEmpty TEmpty
| RV_here t : RemberV x (TCons x t) t
| RV_skip h t r : h <> x -> RemberV x t r -> RemberV x (TCons h t) (TCons h r).
(* member1(x, l): x occurs in l (found at its first occurrence) *)
Inductive Member1V (x : term) : term -> Prop :=
| M1_here t : Member1V x (TCons x t)
| M1_there h t : h <> x -> Member1V x t -> Member1V x (TCons h t).
(* distinct(l): the elements of l are pairwise different *)
Inductive DistinctV : term -> Prop :=
| DV_nil : DistinctV TEmpty
| DV_one a : DistinctV (TCons a TEmpty)
| DV_more a b t : a <> b -> DistinctV (TCons a t) -> DistinctV (TCons b t) -> DistinctV (TCons a (TCons b t)).
(* permute(xl, yl) as defined: each element of xl is removed once from yl if it occurs there *)
Inductive PermuteV : term -> term -> Prop :=
| PV_nil : PermuteV TEmpty TEmpty
| PV_cons x xs yl ys : PermuteV xs ys -> RemberV x yl ys -> PermuteV (TCons x xs) yl.

Fixpoint DR (th : val) (g : cgoal) : Prop :=
  match g with
  | CFail => False
  | CEq u v => app th u = app th v
  | CDiseq u v => app th u <> app th v
  | CConj _ a b => DR th a /\ DR th b
  | CConde _ gs => (fix any (l : list cgoal) : Prop := match l with [] => False | c :: r => DR th c \/ any r end) gs
  | CFresh _ a => DR th a
  | CCall _ r args =>
      if Nat.eqb r rel_rember then match args with [x; l; o] => RemberV (app th x) (app th l) (app th o) | _ => True end
      else if Nat.eqb r rel_member1 then match args with [x; l] => Member1V (app th x) (app th l) | _ => True end
      else if Nat.eqb r rel_distinct then match args with [l] => DistinctV (app th l) | _ => True end
      else if Nat.eqb r rel_permute then match args with [a; b] => PermuteV (app th a) (app th b) | _ => True end
      else True
  | _ => True
  end.

Lemma DR_conde th k gs c : In c gs -> DR th c -> DR th (CConde k gs).
Proof. cbn [DR]. induction gs as [|c0 r IH]; intros Hin Hc; [destruct Hin|]. destruct Hin as [->|Hin]; [left; exact Hc|right; apply IH; assumption]. Qed.

Theorem Den_DR th : forall g, Den lib_defs th g -> DR th g.
Proof.
  induction 1; try exact I; try (cbn [DR]; auto; fail).
  - eapply DR_conde; eauto.
  - (* call *)
    cbn [DR]. destruct (Nat.eqb r rel_rember) eqn:E1; [|destruct (Nat.eqb r rel_member1) eqn:E2; [|destruct (Nat.eqb r rel_distinct) eqn:E3;
      [|destruct (Nat.eqb r rel_permute) eqn:E4; [|exact I]]]].
    + apply Nat.eqb_eq in E1. subst r. destruct args as [|x0 [|l0 [|o0 [|? ?]]]]; try exact I.
      cbv [lib_defs find_def rel_member rel_member1 rel_append rel_rember Nat.eqb] in H. inversion H; subst d. clear H.
      revert H0. generalize n. intros m H0. vm_compute in H0. inversion H0; subst c nv. clear H0.
      cbn [DR app] in IHDen. cbv [rel_rember rel_member1 rel_distinct rel_permute Nat.eqb] in IHDen.
      destruct IHDen as [IH _]. destruct IH as [[E _]|[[E [Ex _]]|[[E [Hn [HR _]]]|[]]]].
      * injection E as E1 E2. rewrite E1, E2. constructor.
      * injection E as E1 E2. rewrite E1, E2, Ex. constructor.
      * injection E as E1 E2. rewrite E1, E2. constructor; assumption.
    + apply Nat.eqb_eq in E2. subst r. destruct args as [|x0 [|l0 [|? ?]]]; try exact I.
      cbv [lib_defs find_def rel_member rel_member1 rel_append rel_rember Nat.eqb] in H. inversion H; subst d. clear H.
      revert H0. generalize n. intros m H0. vm_compute in H0. inversion H0; subst c nv. clear H0.
      cbn [DR app] in IHDen. cbv [rel_rember rel_member1 rel_distinct rel_permute Nat.eqb] in IHDen.
      destruct IHDen as [IH _]. destruct IH as [[E [Ex _]]|[[E [[Hn [HM _]] _]]|[]]].
      * rewrite E, Ex. constructor.
      * rewrite E. constructor; assumption.
    + apply Nat.eqb_eq in E3. subst r. destruct args as [|l0 [|? ?]]; try exact I.
      cbv [lib_defs find_def rel_member rel_member1 rel_append rel_rember rel_permute rel_distinct Nat.eqb] in H. inversion H; subst d. clear H.
      revert H0. generalize n. intros m H0. vm_compute in H0. inversion H0; subst c nv. clear H0.
      cbn [DR app] in IHDen. cbv [rel_rember rel_member1 rel_distinct rel_permute Nat.eqb] in IHDen.
      destruct IHDen as [IH _]. destruct IH as [IH|[IH|[IH|[]]]]; repeat match goal with H : _ /\ _ |- _ => destruct H end.
      * match goal with H : app th l0 = _ |- _ => rewrite H end. constructor.
      * match goal with H : app th l0 = _ |- _ => rewrite H end. constructor.
      * match goal with H : app th l0 = _ |- _ => rewrite H end. constructor; assumption.
    + apply Nat.eqb_eq in E4. subst r. destruct args as [|a0 [|b0 [|? ?]]]; try exact I.
      cbv [lib_defs find_def rel_member rel_member1 rel_append rel_rember rel_permute rel_distinct Nat.eqb] in H. inversion H; subst d. clear H.
      revert H0. generalize n. intros m H0. vm_compute in H0. inversion H0; subst c nv. clear H0.
      cbn [DR app] in IHDen. cbv [rel_rember rel_member1 rel_distinct rel_permute Nat.eqb] in IHDen.
      destruct IHDen as [IH _]. destruct IH as [IH|[IH|[]]]; repeat match goal with H : _ /\ _ |- _ => destruct H end.
      * match goal with H : TCons _ _ = _ |- _ => injection H as Ea Eb end. rewrite Ea, Eb. constructor.
      * match goal with H : TCons _ _ = _ |- _ => injection H as Ea Eb end. rewrite Ea. econstructor; eauto.
  - destruct g; try destruct H; exact I.
Qed.

(* ---- what the engine delivers ---- *)
Theorem lib_call_sound : forall kk u n k r args st a rest u' th,
  next lib_defs kk u (start lib_defs n (CCall k r args) st) = NAnswer a rest u' -> Mst th a ->
  DR th (CCall k r args).
Proof.
  intros kk u n k r args st a rest u' th H HM.
  destruct (delivered_sound lib_defs _ _ _ _ _ _ _ _ th H HM) as [HD _]. apply Den_DR. exact HD.
Qed.
Corollary rember_sound : forall kk u n k st x l o a rest u' th,
  next lib_defs kk u (start lib_defs n (CCall k rel_rember [x; l; o]) st) = NAnswer a rest u' -> Mst th a ->
  RemberV (app th x) (app th l) (app th o).
Proof. intros. exact (lib_call_sound _ _ _ _ _ _ _ _ _ _ _ H H0). Qed.
Corollary member1_sound : forall kk u n k st x l a rest u' th,
  next lib_defs kk u (start lib_defs n (CCall k rel_member1 [x; l]) st) = NAnswer a rest u' -> Mst th a ->
  Member1V (app th x) (app th l).
Proof. intros. exact (lib_call_sound _ _ _ _ _ _ _ _ _ _ _ H H0). Qed.
Corollary distinct_sound : forall kk u n k st l a rest u' th,
  next lib_defs kk u (start lib_defs n (CCall k rel_distinct [l]) st) = NAnswer a rest u' -> Mst th a ->
  DistinctV (app th l).
Proof. intros. exact (lib_call_sound _ _ _ _ _ _ _ _ _ _ _ H H0). Qed.
Corollary permute_sound : forall kk u n k st x y a rest u' th,
  next lib_defs kk u (start lib_defs n (CCall k rel_permute [x; y]) st) = NAnswer a rest u' -> Mst th a ->
  PermuteV (app th x) (app th y).
Proof. intros. exact (lib_call_sound _ _ _ _ _ _ _ _ _ _ _ H H0). Qed.

(* ---- read on lists ---- *)
Lemma list_term_inj : forall a b, list_term a = list_term b -> a = b.
Proof. induction a as [|x a IH]; destruct b as [|y b]; cbn; intros H; try discriminate; [reflexivity|]. inversion H; subst. f_equal. auto. Qed.
Lemma Member1V_list x : forall xs, Member1V x (list_term xs) -> In x xs.
Proof. induction xs as [|y ys IH]; cbn [list_term]; intros H; inversion H; subst; [left; reflexivity|right; auto]. Qed.
Lemma DistinctV_nodup : forall n xs, length xs <= n -> DistinctV (list_term xs) -> NoDup xs.
Proof.
  induction n as [|n IH]; intros xs L H.
  - destruct xs; [constructor|cbn in L; lia].
  - destruct xs as [|a [|b t]]; [constructor|repeat constructor; intros []|].
    cbn [list_term] in H. inversion H as [| |a' b' t' Hab H1 H2]; subst.
    assert (N1 : NoDup (a :: t)) by (apply IH; [cbn in *; lia|exact H1]).
    assert (N2 : NoDup (b :: t)) by (apply IH; [cbn in *; lia|exact H2]).
    inversion N1 as [|? ? Ha _]; subst. constructor; [|exact N2]. intros [E|Hin]; [congruence|contradiction].
Qed.
(* rember removes the first occurrence, or nothing when there is none *)
Lemma RemberV_list x : forall l o, RemberV x (list_term l) o ->
  exists l', o = list_term l' /\ ((exists l1 l2, l = l1 ++ x :: l2 /\ ~ In x l1 /\ l' = l1 ++ l2) \/ (~ In x l /\ l' = l)).
Proof.
  induction l as [|h t IH]; cbn [list_term]; intros o H; inversion H; subst.
  - exists []. split; [reflexivity|]. right. split; [intros []|reflexivity].
  - exists t. split; [reflexivity|]. left. exists [], t. split; [reflexivity|]. split; [intros []|reflexivity].
  - destruct (IH _ H4) as [l' [-> [[l1 [l2 [-> [Hn ->]]]]|[Hn ->]]]].
    + exists (h :: l1 ++ l2). split; [reflexivity|]. left. exists (h :: l1), l2. split; [reflexivity|]. split; [|reflexivity].
      intros [E|Hin]; [congruence|contradiction].
    + exists (h :: t). split; [reflexivity|]. right. split; [|reflexivity]. intros [E|Hin]; [congruence|contradiction].
Qed.
