(* Solutions only shrink, and answers are logically sound (C02 / C04 / C06, whole programs).

   Mst th st : the valuation th solves state st - its substitution and every stored disequality.
   Every state operation, hence every goal in the declarative semantics Sem, hence everything the
   engine delivers, maps a state to states whose solutions are solutions of the original
   (disequalities are re-checked, rewritten to equivalent ones, dropped only when implied).
   Den th g : the logical reading of a goal (== equality, != difference, conjunction, disjunction,
   relation calls by their bodies).  Theorem: every solution of every delivered answer satisfies
   the logical reading of the program. *)
From Coq Require Import List ZArith Bool Arith Lia.
From PV Require Import Model.Term Model.Subst Model.Unify Model.FD Model.State Model.Engine
  Proofs.UnifyProofs Proofs.DiseqProofs Proofs.ReifyProofs Proofs.EngineProofs Proofs.SemProofs Proofs.MonoProofs.
Import ListNotations.

Definition Mst (th : val) (st : state) : Prop := sat th (st_smap st) /\ store_holds th (st_cstore st).
Definition chold (th : val) (c : constraint) : Prop := match c with KDiseq ps => holds th ps | _ => True end.

(* st' refines st: its substitution extends st's and, for solutions of st', its store implies st's *)
Definition Sol (st st' : state) : Prop :=
  ext st st' /\ forall th, sat th (st_smap st') -> store_holds th (st_cstore st') -> store_holds th (st_cstore st).
(* ... and additionally implies the constraint c that was taken out of st to be run *)
Definition SolC (c : constraint) (st st' : state) : Prop :=
  ext st st' /\ forall th, sat th (st_smap st') -> store_holds th (st_cstore st') -> store_holds th (st_cstore st) /\ chold th c.
Definition sresS (st : state) (r : sres) : Prop := match r with SOk st' => Sol st st' | _ => True end.
Definition sresSC c (st : state) (r : sres) : Prop := match r with SOk st' => SolC c st st' | _ => True end.

Lemma ext_sat th st st' : ext st st' -> sat th (st_smap st') -> sat th (st_smap st).
Proof. intros [new E] H. rewrite E in H. apply (proj1 (DiseqProofs.sat_app th new (st_smap st))) in H. tauto. Qed.

Lemma Sol_refl st : Sol st st.
Proof. split; [apply ext_refl|auto]. Qed.
Lemma Sol_trans a b c : Sol a b -> Sol b c -> Sol a c.
Proof.
  intros [E1 H1] [E2 H2]. split; [eapply ext_trans; eauto|]. intros th Hs Hc.
  apply H1; [eapply ext_sat; eauto|apply H2; auto].
Qed.
Definition nd (c : constraint) : Prop := match c with KDiseq _ => False | _ => True end.
Lemma Sol_SolC c st st' : nd c -> Sol st st' -> SolC c st st'.
Proof. intros T [E H]. split; [exact E|]. intros th Hs Hc. split; [apply H; auto|destruct c; cbn; auto; destruct T]. Qed.
Lemma sresS_SC c st r : nd c -> sresS st r -> sresSC c st r.
Proof. destruct r; cbn; auto. apply Sol_SolC. Qed.
(* same substitution and store *)
Lemma Sol_view st st' : st_smap st' = st_smap st -> st_cstore st' = st_cstore st -> Sol st st'.
Proof. intros A B. split; [exists []; rewrite A; reflexivity|]. rewrite B. auto. Qed.
Lemma Sol_from a a' b : st_smap a = st_smap a' -> st_cstore a = st_cstore a' -> Sol a b -> Sol a' b.
Proof. unfold Sol, ext. intros -> ->. auto. Qed.
(* a longer substitution over the same store *)
Lemma Sol_bind st new : Sol st (set_smap st (new ++ st_smap st)).
Proof. split; [exists new; reflexivity|auto]. Qed.

Lemma sbind_S st r k : sresS st r -> (forall st1, Sol st st1 -> sresS st1 (k st1)) -> sresS st (sbind r k).
Proof.
  destruct r as [st1| | |]; cbn [sbind sresS]; auto. intros E1 Hk. specialize (Hk st1 E1).
  destruct (k st1); cbn in *; auto. eapply Sol_trans; eauto.
Qed.
Lemma opt_domain_S st o k : (forall d, sresS st (k d)) -> sresS st (opt_domain o k).
Proof. destruct o; cbn; auto. Qed.

Lemma fold_take_cstore (dropped : list (nat * constraint)) : forall st,
  st_cstore (fold_left (fun s ic => log_event s (UTake (fst ic))) dropped st) = st_cstore st.
Proof. induction dropped as [|d r IH]; intros st; cbn [fold_left]; [reflexivity|]. rewrite IH. reflexivity. Qed.
Lemma with_constraint_id_cstore st id c : st_cstore (with_constraint_id st id c) = fst (push_and_normalize (st_cstore st) id c).
Proof.
  unfold with_constraint_id. cbn [log_event st_cstore]. destruct (push_and_normalize (st_cstore st) id c) as [store dropped].
  rewrite fold_take_cstore. reflexivity.
Qed.

(* adding a constraint only shrinks the solutions; for a disequality exactly by that disequality *)
Lemma pan_holds th store id c : store_holds th (fst (push_and_normalize store id c)) -> store_holds th store /\ chold th c.
Proof.
  destruct c; try (unfold push_and_normalize; cbn [is_diseq fst]; rewrite store_holds_app; intros [H _]; split; [exact H|exact I]).
  intros H. apply push_and_normalize_den in H. exact H.
Qed.
Lemma SolC_wc st id c : SolC c st (with_constraint_id st id c).
Proof.
  split; [apply ext_wc|]. intros th _ Hc. rewrite with_constraint_id_cstore in Hc. apply pan_holds in Hc. exact Hc.
Qed.
Lemma Sol_wc st id c : Sol st (with_constraint_id st id c).
Proof. destruct (SolC_wc st id c) as [E H]. split; [exact E|]. intros th Hs Hc. apply (H th Hs Hc). Qed.
Lemma SolC_wn st c : SolC c st (with_new_constraint st c).
Proof.
  unfold with_new_constraint. destruct (SolC_wc (bump_nextc st) (st_nextc st) c) as [E H]. split; [exact E|exact H].
Qed.
Lemma Sol_wn st c : Sol st (with_new_constraint st c).
Proof. destruct (SolC_wn st c) as [E H]. split; [exact E|]. intros th Hs Hc. apply (H th Hs Hc). Qed.

Section Fuelled.
Variable rcs : state -> sres.
Hypothesis rcs_S : forall st, sresS st (rcs st).

Lemma rcs_from st st0 : st_cstore st0 = st_cstore st -> (exists new, st_smap st0 = new ++ st_smap st) -> sresS st (rcs st0).
Proof.
  intros B [new A]. pose proof (rcs_S st0) as H. destruct (rcs st0) as [st'| | |]; cbn in *; auto.
  eapply Sol_trans; [|exact H]. split; [exists new; exact A|]. rewrite B. auto.
Qed.

Lemma process_domain_S st x d : sresS st (process_domain rcs st x d).
Proof.
  unfold process_domain. destruct (wk (st_smap st) x) as [[]|v a| | |]; try exact I.
  - match goal with |- sresS _ (if ?b then _ else _) => destruct b end; [apply Sol_refl|exact I].
  - unfold update_var_domain, resolve_storable_domain.
    assert (R : forall dd, sresS st (match fd_singleton_value dd with
                | Some n => rcs (dom_remove (set_smap st ((v, tnum n) :: st_smap st)) v)
                | None => SOk (dom_insert st v dd) end)).
    { intros dd. destruct (fd_singleton_value dd); [apply rcs_from; [reflexivity|exists [(v, tnum z)]; reflexivity]|apply Sol_view; reflexivity]. }
    destruct (find_id v (st_dstore st)) as [old|]; [|apply R]. destruct (fd_intersect old d); [apply R|exact I].
Qed.
Lemma pd_wc_S st id c x d : sresS st (process_domain rcs (with_constraint_id st id c) x d).
Proof.
  pose proof (process_domain_S (with_constraint_id st id c) x d) as H.
  destruct (process_domain rcs (with_constraint_id st id c) x d); cbn in *; auto.
  eapply Sol_trans; [apply Sol_wc|exact H].
Qed.
Lemma exclude_S ds excl : forall xs st, sresS st (exclude_from_domain rcs ds st xs excl).
Proof.
  induction xs as [|y r IH]; intros st; cbn [exclude_from_domain]; [apply Sol_refl|].
  destruct (match y with TVar v _ => find_id v ds | _ => None end); [|apply IH].
  destruct (fd_diff f excl); [|exact I]. apply sbind_S; [apply process_domain_S|intros; apply IH].
Qed.

Variable rcr : nat -> constraint -> state -> sres.
Hypothesis rcr_S : forall id c st, sresS st (rcr id c st).

Lemma arith3_S id c st u v w gr a1 a2 a3 a4 a5 a6 : sresS st (arith3 rcs rcr id c st u v w gr a1 a2 a3 a4 a5 a6).
Proof.
  unfold arith3.
  destruct (get_number (wk (st_smap st) u)), (get_number (wk (st_smap st) v)), (get_number (wk (st_smap st) w));
    try (match goal with |- sresS _ (if ?b then _ else _) => destruct b; [apply Sol_refl|exact I] end);
    (destruct (operand_domain st (wk (st_smap st) u)), (operand_domain st (wk (st_smap st) v)),
              (operand_domain st (wk (st_smap st) w)); try apply Sol_wc;
     apply sbind_S; [apply process_domain_S|intros st1 _];
     apply sbind_S; [apply process_domain_S|intros st2 _];
     apply sbind_S; [apply process_domain_S|intros st3 _];
     destruct (Nat.eqb _ _); [apply Sol_wc|apply rcr_S]).
Qed.

(* running a constraint that was taken out of the store: the result implies the store and the constraint *)
Lemma run_constraint_S id c st : sresSC c st (run_constraint rcs rcr id c st).
Proof.
  destruct c as [ps|u v|u v w|u v w|u v w|u v|u|u ys n|u v w|u v w]; cbn [run_constraint];
    try (apply sresS_SC; [exact I|]).
  - pose proof (recheck_spec (st_smap st) ps) as R.
    destruct (unify_pairs dfuel (st_smap st) [] ps) as [s' [|e ext0]| |]; try exact I.
    + (* rewritten to an equivalent disequality over the current substitution *)
      destruct (SolC_wn st (KDiseq (e :: ext0))) as [E H]. split; [exact E|]. intros th Hs Hc.
      destruct (H th Hs Hc) as [H1 H2]. split; [exact H1|]. cbn [chold] in *.
      rewrite with_new_constraint_smap in Hs. apply (R th Hs). exact H2.
    + (* satisfied for good: dropped *)
      split; [apply ext_refl|]. intros th Hs Hc. split; [exact Hc|]. cbn [chold]. apply (R th Hs).
  - destruct (dom_get st (wk (st_smap st) u)), (dom_get st (wk (st_smap st) v)).
    + apply opt_domain_S; intros d1. apply sbind_S; [apply process_domain_S|intros st1 _].
      apply opt_domain_S; intros d2. apply sbind_S; [apply process_domain_S|intros st2 _].
      destruct (Nat.eqb _ _); [apply Sol_wc|apply rcr_S].
    + destruct (get_number (wk (st_smap st) v)); [|apply Sol_wc]. apply opt_domain_S; intros; apply process_domain_S.
    + destruct (get_number (wk (st_smap st) u)); [|apply Sol_wc]. apply opt_domain_S; intros; apply process_domain_S.
    + destruct (get_number (wk (st_smap st) u)), (get_number (wk (st_smap st) v)); try apply Sol_wc.
      destruct (Z.leb z z0); [apply Sol_refl|exact I].
  - apply arith3_S.
  - apply arith3_S.
  - apply arith3_S.
  - destruct (operand_domain st (wk (st_smap st) u)) as [ud|], (operand_domain st (wk (st_smap st) v)) as [vd|]; try apply Sol_wc.
    destruct (fd_is_singleton ud && fd_is_singleton vd).
    + destruct (Z.eqb _ _); [exact I|apply Sol_refl].
    + destruct (fd_is_disjoint ud vd) as [[|]|]; try apply Sol_refl;
        (destruct (fd_is_singleton ud); [apply opt_domain_S; intros; apply pd_wc_S|];
         destruct (fd_is_singleton vd); [apply opt_domain_S; intros; apply pd_wc_S|apply Sol_wc]).
  - destruct (wk (st_smap st) u) as [l|xv xa| |h t|g cs]; try exact I; try apply Sol_wc;
      (destruct (forallb _ _); [|exact I]; destruct (strictly_increasing _); [|exact I];
       match goal with |- sresS st (rcr ?i ?c (bump_nextc st)) => pose proof (rcr_S i c (bump_nextc st)) as P; destruct (rcr i c (bump_nextc st)); cbn in *; auto end).
  - match goal with |- sresS _ (match ?X with _ => _ end) => destruct X as [[[[x n']|]|]|site] end; try exact I.
    destruct n' as [|z n']; [apply Sol_wn|]. destruct (fd_from_vec (z :: n')); [|exact I].
    pose proof (exclude_S (st_dstore (with_new_constraint st (KDistinct2 u x (z :: n')))) f x (with_new_constraint st (KDistinct2 u x (z :: n')))) as P.
    match goal with |- sresS _ ?X => destruct X as [st0| | |]; try exact I end. cbn [sresS] in *.
    eapply Sol_trans; [apply (Sol_wn st (KDistinct2 u x (z :: n')))|exact P].
  - destruct (wk (st_smap st) u) as [[]| | | |], (wk (st_smap st) v) as [[]| | | |], (wk (st_smap st) w) as [[]| | | |];
      try exact I; try apply Sol_wc;
      try (apply rcs_from; [reflexivity|eexists [_]; reflexivity]); (destruct (Z.eqb _ _); [apply Sol_refl|exact I]).
  - destruct (wk (st_smap st) u) as [[]| | | |], (wk (st_smap st) v) as [[]| | | |], (wk (st_smap st) w) as [[]| | | |];
      try exact I; try apply Sol_wc; try (apply rcs_from; [reflexivity|eexists [_]; reflexivity]);
      repeat (match goal with |- sresS _ (if ?b then _ else _) => destruct b end);
      try exact I; try apply Sol_refl; try apply Sol_wc; try (apply rcs_from; [reflexivity|eexists [_]; reflexivity]).
Qed.
End Fuelled.

Lemma remove_find_in {A} id (l : list (nat * A)) a x :
  find_id id l = Some a -> In x l -> x = (id, a) \/ In x (remove_id id l).
Proof.
  induction l as [|[i b] l IH]; cbn [find_id remove_id]; [discriminate|].
  destruct (Nat.eqb i id) eqn:E.
  - apply Nat.eqb_eq in E. subst i. intros H [Hx|Hx]; [left; inversion H; subst; reflexivity|right; exact Hx].
  - intros H [Hx|Hx]; [right; left; exact Hx|]. destruct (IH H Hx); [left; assumption|right; right; assumption].
Qed.

(* taking a constraint out and running it: together they imply the original store *)
Lemma take_holds th st id st1 c : take_constraint st id = (st1, Some c) ->
  st_smap st1 = st_smap st /\ (store_holds th (st_cstore st1) -> chold th c -> store_holds th (st_cstore st)).
Proof.
  unfold take_constraint. destruct (find_id id (st_cstore st)) as [c'|] eqn:E; [|discriminate].
  intros H. inversion H; subst. split; [reflexivity|]. cbn [log_event set_cstore st_cstore].
  intros H1 H2 i ps Hin. destruct (remove_find_in _ _ _ _ E Hin) as [Hx|Hx].
  - inversion Hx; subst. exact H2.
  - apply (H1 i ps Hx).
Qed.

Lemma run_constraints_S : forall f st, sresS st (run_constraints f st).
Proof.
  induction f as [|f IH]; intros st; [exact I|]. cbn [run_constraints].
  set (rc := fix rc (g id : nat) (c : constraint) (st0 : state) {struct g} : sres :=
               match g with O => SOOF | S g' => run_constraint (run_constraints f) (rc g') id c st0 end).
  assert (RC : forall g id c st0, sresSC c st0 (rc g id c st0)).
  { induction g as [|g IHg]; intros; [exact I|]. cbn [rc]. apply run_constraint_S; auto.
    intros id0 c0 st1. specialize (IHg id0 c0 st1). destruct (rc g id0 c0 st1); cbn in *; auto.
    destruct IHg as [E H]. split; [exact E|]. intros th Hs Hc. apply (H th Hs Hc). }
  generalize (map fst (st_cstore st)). intros ids. revert st.
  induction ids as [|id r IHr]; intros st; [apply Sol_refl|].
  destruct (take_constraint st id) as [st1 [c|]] eqn:ET.
  - pose proof (RC f id c st1) as H2. destruct (rc f id c st1) as [st2| | |]; cbn [sbind sresS]; auto.
    specialize (IHr st2).
    match goal with |- sresS _ ?X => destruct X as [st3| | |] end; cbn in *; auto.
    destruct H2 as [E2 H2], IHr as [E3 H3].
    split.
    + destruct (take_holds (fun _ => TEmpty) _ _ _ _ ET) as [Es _].
      eapply ext_trans; [|exact E3]. eapply ext_same; [exact Es|exact E2].
    + intros th Hs Hc. specialize (H3 th Hs Hc).
      destruct (take_holds th _ _ _ _ ET) as [_ T]. destruct (H2 th (ext_sat _ _ _ E3 Hs) H3) as [A B]. apply T; assumption.
  - unfold take_constraint in ET. destruct (find_id id (st_cstore st)); [discriminate|]. inversion ET; subst. apply IHr.
Qed.

Lemma run_constraint_top_S : forall g f id c st, sresS st (run_constraint_top g f id c st).
Proof.
  induction g as [|g IH]; intros; [exact I|]. cbn [run_constraint_top].
  pose proof (run_constraint_S (run_constraints f) (run_constraints_S f) (run_constraint_top g f) (IH f) id c st) as H.
  destruct (run_constraint _ _ id c st); cbn in *; auto. destruct H as [E H]. split; [exact E|]. intros th Hs Hc. apply (H th Hs Hc).
Qed.
Lemma post_constraint_S c st : sresS st (post_constraint c st).
Proof.
  unfold post_constraint. pose proof (run_constraint_top_S cfuel cfuel (st_nextc st) c (bump_nextc st)) as H.
  destruct (run_constraint_top _ _ _ c (bump_nextc st)); cbn in *; auto.
Qed.
Lemma post_domain_S x d st : sresS st (post_domain x d st).
Proof. apply process_domain_S, run_constraints_S. Qed.
Lemma process_extension_S ds : forall e st, sresS st (process_extension_fd ds e st).
Proof.
  induction e as [|[x v] r IH]; intros st; cbn [process_extension_fd]; [apply Sol_refl|].
  destruct (find_id x ds); [|apply IH].
  apply sbind_S; [apply process_domain_S, run_constraints_S|intros st1 _].
  destruct (find_id x (st_dstore st1)); [|exact I].
  apply sbind_S; [|intros; apply IH].
  pose proof (run_constraints_S cfuel (dom_remove st1 x)) as H. destruct (run_constraints cfuel (dom_remove st1 x)); cbn in *; auto.
Qed.

(* == : the solutions of the result solve the original state and make the operands equal *)
Theorem state_unify_den st u v a : state_unify st u v = SOk a ->
  Sol st a /\ forall th, sat th (st_smap a) -> app th u = app th v.
Proof.
  unfold state_unify. intros H.
  destruct (unify dfuel (st_smap st) [] u v) as [s' e| |] eqn:EU; try discriminate.
  destruct (unify_extends _ _ _ _ _ _ _ EU) as [new [Es _]]. subst s'.
  pose proof (run_constraints_S cfuel (set_smap st (new ++ st_smap st))) as H1.
  destruct (run_constraints cfuel (set_smap st (new ++ st_smap st))) as [st2| | |]; cbn [sbind] in H; try discriminate.
  pose proof (process_extension_S (st_dstore st2) (rev e) st2) as H2.
  destruct (process_extension_fd (st_dstore st2) (rev e) st2) as [st3| | |]; cbn [sbind] in H; try discriminate.
  inversion H; subst a. cbn in H1, H2.
  assert (S13 : Sol (set_smap st (new ++ st_smap st)) (log_event st3 (UExt e))).
  { eapply Sol_trans; [exact H1|]. eapply Sol_trans; [exact H2|]. apply Sol_view; reflexivity. }
  split.
  - eapply Sol_trans; [apply Sol_bind|exact S13].
  - intros th Hs. destruct S13 as [E13 _]. pose proof (ext_sat _ _ _ E13 Hs) as Hs'. cbn [set_smap st_smap] in Hs'.
    apply (proj1 (unify_sat _ _ _ _ _ _ _ EU th)). exact Hs'.
Qed.

(* != : the solutions of the result solve the original state and make the operands different *)
Theorem state_disunify_den st u v a : state_disunify st u v = SOk a ->
  Sol st a /\ forall th, sat th (st_smap a) -> store_holds th (st_cstore a) -> app th u <> app th v.
Proof.
  unfold state_disunify. intros H. pose proof (disunify_spec st u v) as D.
  destruct (unify dfuel (st_smap st) [] u v) as [s' [|e r]| |]; try discriminate.
  - inversion H; subst a. destruct (SolC_wn st (KDiseq (e :: r))) as [E HC]. split; [apply Sol_wn|].
    intros th Hs Hc. destruct (HC th Hs Hc) as [_ Hh]. rewrite with_new_constraint_smap in Hs. apply (D th Hs). exact Hh.
  - inversion H; subst a. split; [apply Sol_refl|]. intros th Hs _. apply (D th Hs).
Qed.

(* ------------------------------------------------------------------ walk* keeps the meaning *)
Lemma walk_star_sat : forall f,
  (forall s t t', walk_star f s t = Some t' -> forall th, sat th s -> app th t' = app th t) /\
  (forall s ts ts', walk_star_list f s ts = Some ts' -> forall th, sat th s -> apps th ts' = apps th ts).
Proof.
  induction f as [|f [IHt IHl]]; [split; intros; discriminate|]. split.
  - intros s t t' H th Hs. cbn [walk_star] in H. rewrite <- (wk_sat th s t Hs).
    destruct (wk s t) as [l|v a| |h tl|g cs]; try (inversion H; subst; reflexivity).
    + destruct (walk_star f s h) as [h'|] eqn:Eh; [|discriminate]. destruct (walk_star f s tl) as [tl'|] eqn:Et; [|discriminate].
      inversion H; subst. cbn [app]. rewrite (IHt _ _ _ Eh th Hs), (IHt _ _ _ Et th Hs). reflexivity.
    + destruct (walk_star_list f s cs) as [cs'|] eqn:Ec; [|discriminate]. inversion H; subst. cbn [app].
      rewrite (IHl _ _ _ Ec th Hs). reflexivity.
  - intros s ts ts' H th Hs. cbn [walk_star_list] in H. destruct ts as [|t r]; [inversion H; subst; reflexivity|].
    destruct (walk_star f s t) as [t'|] eqn:Et; [|discriminate]. destruct (walk_star_list f s r) as [r'|] eqn:Er; [|discriminate].
    inversion H; subst. cbn [apps]. rewrite (IHt _ _ _ Et th Hs), (IHl _ _ _ Er th Hs). reflexivity.
Qed.

Lemma wsp_nil s : walk_star_pairs s [] = Some (Some []). Proof. reflexivity. Qed.
Lemma wsp_cons s x t r : walk_star_pairs s ((x, t) :: r) =
  match walk_star dfuel s (TVar x false), walk_star dfuel s t, walk_star_pairs s r with
  | Some (TVar x' _), Some t', Some (Some r') => Some (Some ((x', t') :: r'))
  | Some _, Some _, Some (Some _) => Some None
  | Some _, Some _, Some None => Some None
  | _, _, _ => None
  end.
Proof. reflexivity. Qed.

Lemma walk_star_pairs_sat s : forall ps ps', walk_star_pairs s ps = Some (Some ps') ->
  forall th, sat th s -> (sat th ps' <-> sat th ps).
Proof.
  induction ps as [|[x t] r IH]; intros ps' H th Hs.
  - rewrite wsp_nil in H. inversion H; subst. tauto.
  - rewrite wsp_cons in H. destruct (walk_star dfuel s (TVar x false)) as [kx|] eqn:Ex; [|discriminate].
    destruct (walk_star dfuel s t) as [t'|] eqn:Et; [|destruct kx; discriminate].
    destruct (walk_star_pairs s r) as [[r'|]|] eqn:Er; [|destruct kx; discriminate|destruct kx; discriminate].
    destruct kx as [l|x' a| |h tl|g cs]; try discriminate. inversion H; subst.
    pose proof (proj1 (walk_star_sat dfuel) _ _ _ Ex th Hs) as Kx. cbn [app] in Kx.
    pose proof (proj1 (walk_star_sat dfuel) _ _ _ Et th Hs) as Kt.
    specialize (IH r' eq_refl th Hs). rewrite !sat_cons. rewrite Kx, Kt. tauto.
Qed.

(* ------------------------------------------------------------------ every goal refines its starting state *)
Lemma Sol_nextv st nv a : Sol (set_nextv st nv) a -> Sol st a.
Proof. apply Sol_from; reflexivity. Qed.

Lemma reify_Sol defs n x st a : start defs (S n) (CReify x) st = SUnit a -> Sol st a.
Proof.
  cbn [start]. destruct (walk_star dfuel (st_smap st) x); [|discriminate].
  destruct (reify_s dfuel (st_smap st) (st_nextv st) t) as [[r nv]|] eqn:Er; [|discriminate].
  destruct (proj1 (reify_s_mono dfuel) _ _ _ _ _ Er) as [_ [new Enew]].
  assert (G : forall cs s0 a0,
      (fix add (cs : list (nat * constraint)) (s : state) : stream :=
         match cs with
         | [] => SUnit s
         | (_, KDiseq ps) :: r' =>
             match walk_star_pairs (st_smap st) ps with
             | Some (Some ps') => add r' (with_new_constraint s (KDiseq ps'))
             | Some None => SErr false panic_site_walkstar_key
             | None => SErr true 0
             end
         | _ :: r' => add r' s
         end) cs s0 = SUnit a0 ->
      st_smap a0 = st_smap s0 /\
      (forall th, store_holds th (st_cstore a0) -> store_holds th (st_cstore s0)) /\
      forall th, sat th (st_smap st) -> store_holds th (st_cstore a0) ->
                 forall i ps, In (i, KDiseq ps) cs -> holds th ps).
  { induction cs as [|[id c] r' IHr]; intros s0 a0 Ha.
    - inversion Ha; subst. split; [reflexivity|]. split; [auto|]. intros th _ _ i ps [].
    - destruct c as [ps| | | | | | | | | ];
        try (destruct (IHr _ _ Ha) as [A [B0 B]]; split; [exact A|]; split; [exact B0|];
             intros th Hs Hc i qs [Hin|Hin]; [discriminate|eapply B; eauto]).
      destruct (walk_star_pairs (st_smap st) ps) as [[ps'|]|] eqn:Ew; try discriminate.
      destruct (IHr _ _ Ha) as [A [B0 B]].
      assert (W : forall th, store_holds th (st_cstore a0) -> store_holds th (st_cstore s0) /\ holds th ps').
      { intros th Hc. specialize (B0 th Hc). destruct (SolC_wn s0 (KDiseq ps')) as [_ HC].
        (* SolC needs sat only formally: adding a constraint does not look at the substitution *)
        unfold with_new_constraint in B0. rewrite with_constraint_id_cstore in B0. apply pan_holds in B0. exact B0. }
      split; [rewrite A; apply with_new_constraint_smap|]. split; [intros th Hc; apply (W th Hc)|].
      intros th Hs Hc i qs [Hin|Hin]; [|eapply B; eauto]. inversion Hin; subst.
      destruct (W th Hc) as [_ Hp]. unfold holds, eqs in *. intros Hq. apply Hp.
      apply (proj2 (walk_star_pairs_sat _ _ _ Ew th Hs)). exact Hq. }
  intros Ha. destruct (G _ _ _ Ha) as [A [_ B]]. rewrite fold_take_keeps_smap in A. cbn [set_nextv set_smap st_smap] in A.
  split; [exists new; rewrite A; exact Enew|].
  intros th Hs Hc i ps Hin. eapply B; eauto. rewrite A, Enew in Hs.
  apply (proj1 (DiseqProofs.sat_app th new (st_smap st))) in Hs. tauto.
Qed.

Theorem Sem_Sol defs : forall g st a, Sem defs g st a -> Sol st a.
Proof.
  induction 1; try (apply Sol_refl); try (eapply Sol_trans; eassumption);
    try (apply Sol_nextv; assumption); try assumption.
  - apply (state_unify_den _ _ _ _ H).
  - apply (state_disunify_den _ _ _ _ H).
  - pose proof (post_domain_S x d st) as HS. rewrite H in HS. exact HS.
  - pose proof (post_constraint_S c st) as HS. rewrite H in HS. exact HS.
  - apply Sol_view; reflexivity.
  - apply (state_unify_den _ _ _ _ H0).
  - apply (state_unify_den _ _ _ _ H2).
  - eapply reify_Sol; eauto.
Qed.

(* ------------------------------------------------------------------ the logical reading *)
Definition opaque (g : cgoal) : Prop :=
  match g with
  | CDom _ _ | CPost _ | CProbe _ | CSq _ _ | CForceAns _ | CEnforceFd | CReify _ => True
  | _ => False
  end.

Inductive Den (defs : list (nat * def)) (th : val) : cgoal -> Prop :=
| D_succeed : Den defs th CSucceed
| D_eq u v : app th u = app th v -> Den defs th (CEq u v)
| D_diseq u v : app th u <> app th v -> Den defs th (CDiseq u v)
| D_conj k a b : Den defs th a -> Den defs th b -> Den defs th (CConj k a b)
| D_conde k gs c : In c gs -> Den defs th c -> Den defs th (CConde k gs)
| D_fresh k a : Den defs th a -> Den defs th (CFresh k a)
| D_closure k rho gs n c nv : elab defs efuel k rho (GConj gs) n = (c, nv) -> Den defs th c -> Den defs th (CClosure k rho gs)
| D_call k r args d n c nv : find_def r defs = Some d ->
    elab defs efuel k (combine (d_params d) args) (GConj [d_body d]) n = (c, nv) -> Den defs th c -> Den defs th (CCall k r args)
| D_conda_commit f r nx : Den defs th f -> Den defs th r -> Den defs th (CConda f r nx)
| D_conda_skip f r nx : Den defs th nx -> Den defs th (CConda f r nx)
| D_condu_commit f r nx : Den defs th f -> Den defs th r -> Den defs th (CCondu f r nx)
| D_condu_skip f r nx : Den defs th nx -> Den defs th (CCondu f r nx)
| D_anyo g : Den defs th (conde_from BFS [[g]; [anyo_from [[g]]]]) -> Den defs th (CAnyo g)
(* for x in coll { body }: the conjunction of the bodies constructed for the elements *)
| D_everyg k rho x elems css n cs nv :
    (fix mk (es : list term) (nv : nat) : list cgoal * nat :=
       match es with
       | [] => ([], nv)
       | e :: r =>
           let '(c, n1) := elab defs efuel k ((x, e) :: rho) (GConj (map GConj css)) nv in
           let '(cs, n2) := mk r n1 in (c :: cs, n2)
       end) elems n = (cs, nv) ->
    Den defs th (from_iter k cs) -> Den defs th (CEveryg k rho x elems css)
(* project |x| { body }: the body constructed with SOME terms for the projected names (the engine
   takes their walked values in the arriving state; the reading only needs that a body was built) *)
| D_project k rho xs gs rho' n c nv :
    elab defs efuel k rho' (GConj (map (fun g => GConj [g]) gs)) n = (c, nv) -> Den defs th c -> Den defs th (CProject k rho xs gs)
| D_opaque g : opaque g -> Den defs th g.

Lemma Mst_Sol th st a : Sol st a -> Mst th a -> Mst th st.
Proof. intros [E H] [Hs Hc]. split; [eapply ext_sat; eauto|apply H; auto]. Qed.

(* every solution of an answer satisfies the logical reading of the goal and solves the starting state *)
Theorem Sem_Den defs : forall g st a, Sem defs g st a -> forall th, Mst th a -> Den defs th g.
Proof.
  induction 1; intros th HM; try (apply D_opaque; exact I).
  - constructor.
  - constructor. apply (proj2 (state_unify_den _ _ _ _ H) th (proj1 HM)).
  - constructor. destruct HM as [Hs Hc]. apply (proj2 (state_disunify_den _ _ _ _ H) th Hs Hc).
  - constructor; [apply IHSem1; eapply Mst_Sol; [eapply Sem_Sol; eauto|exact HM]|apply IHSem2; exact HM].
  - econstructor; eauto.
  - constructor. auto.
  - econstructor; eauto.
  - econstructor; eauto.
  - apply D_conda_commit; [apply IHSem1; eapply Mst_Sol; [eapply Sem_Sol; eauto|exact HM]|apply IHSem2; exact HM].
  - apply D_conda_skip. auto.
  - apply D_condu_commit; [apply IHSem1; eapply Mst_Sol; [eapply Sem_Sol; eauto|exact HM]|apply IHSem2; exact HM].
  - apply D_condu_skip. auto.
  - apply D_anyo. auto.
  - eapply D_everyg; eauto.
  - eapply D_project; eauto.
Qed.

(* end to end: what Solver::next delivers *)
Theorem delivered_sound defs k u n g st a rest u' th :
  next defs k u (start defs n g st) = NAnswer a rest u' -> Mst th a -> Den defs th g /\ Mst th st.
Proof.
  intros H HM. pose proof (next_sound_goal defs _ _ _ _ _ _ _ _ H) as HS.
  split; [eapply Sem_Den; eauto|eapply Mst_Sol; [eapply Sem_Sol; eauto|exact HM]].
Qed.

(* the conjunction constructors keep the reading *)
Lemma Den_conj_new defs th k a b : Den defs th (conj_new k a b) -> Den defs th a /\ Den defs th b.
Proof.
  unfold conj_new. destruct (is_succeed a && is_succeed b) eqn:E1.
  - apply andb_prop in E1. destruct E1 as [Ea Eb]. apply is_succeed_eq in Ea. apply is_succeed_eq in Eb. subst. auto.
  - destruct (is_fail a || is_fail b); intros H; inversion H; subst; auto;
      match goal with O : opaque _ |- _ => destruct O end.
Qed.
Lemma Den_fold defs th k : forall cs acc,
  Den defs th (fold_left (fun p g => conj_new k g p) cs acc) -> Den defs th acc /\ forall c, In c cs -> Den defs th c.
Proof.
  induction cs as [|c0 r IH]; intros acc H; cbn [fold_left] in H; [split; [exact H|intros c []]|].
  destruct (IH _ H) as [H1 H2]. apply Den_conj_new in H1. destruct H1 as [Hc Ha].
  split; [exact Ha|]. intros c [<-|Hin]; [exact Hc|apply H2, Hin].
Qed.
Lemma Den_from_iter defs th k cs : Den defs th (from_iter k cs) -> forall c, In c cs -> Den defs th c.
Proof. unfold from_iter. intros H. apply (proj2 (Den_fold defs th k cs CSucceed H)). Qed.
