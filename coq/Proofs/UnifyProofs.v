(* Unification computes a most general unifier (C01, and the TComp instances for C20).

   th : nat -> term is an arbitrary substitution (not only ground ones), applied once by [app].
   sat th s : th solves every binding of the triangular substitution s.

   unify_sat      : unify f s e u v = UOk s' e'  ->  forall th, sat th s' <-> sat th s /\ app th u = app th v
                    (soundness, and every unifier of u, v that is consistent with the prior bindings
                    solves the answer, i.e. is an instance of it)
   unify_complete : unify f s e u v = UFail      ->  no th with sat th s unifies u and v
   unify_extends  : the answer is the prior substitution extended by the returned extension,
                    whose keys were unbound (walked) variables
   for all fuel; UOOF (fuel exhausted) is the third, separate outcome. *)
From Coq Require Import List ZArith Bool Arith Lia.
From PV Require Import Model.Term Model.Subst Model.Unify.
Import ListNotations.

Definition val := nat -> term.

Fixpoint app (th : val) (t : term) : term :=
  match t with
  | TVar v _ => th v
  | TCons h tl => TCons (app th h) (app th tl)
  | TComp g cs => TComp g (apps th cs)
  | other => other
  end
with apps (th : val) (ts : terms) : terms :=
  match ts with TNil => TNil | TMore t r => TMore (app th t) (apps th r) end.

Definition sat (th : val) (s : smap) : Prop := forall x t, In (x, t) s -> th x = app th t.

Lemma lookup_in v s t : lookup v s = Some t -> In (v, t) s.
Proof.
  induction s as [|[x t'] s IH]; cbn [lookup]; [discriminate|].
  destruct (Nat.eqb_spec x v) as [E|E]; intros H; [inversion H; subst; left; reflexivity| right; auto].
Qed.

Lemma walk_sat th s : sat th s -> forall fuel t, app th (walk fuel s t) = app th t.
Proof.
  intros Hs fuel; induction fuel as [|f IH]; intros t; destruct t; cbn [walk]; auto.
  - destruct (lookup v s); reflexivity.
  - destruct (lookup v s) eqn:E; auto. rewrite IH. symmetry. cbn [app]. apply Hs. apply lookup_in; auto.
Qed.

Lemma wk_sat th s t : sat th s -> app th (wk s t) = app th t.
Proof. intros H. apply walk_sat; auto. Qed.

Lemma wkc_some s t r : wkc s t = Some r -> r = wk s t /\ final s r = true.
Proof. unfold wkc. destruct (final s (wk s t)) eqn:E; [|discriminate]. intros H; inversion H; subst; auto. Qed.
Lemma wkc_sat th s t r : wkc s t = Some r -> sat th s -> app th r = app th t.
Proof. intros H Hs. apply wkc_some in H as [-> _]. apply wk_sat; auto. Qed.
Lemma wkc_of_final s r : final s r = true -> wkc s r = Some r.
Proof.
  intros F. unfold wkc, wk. destruct r as [l|v a| |h t|g cs]; cbn [walk]; try (cbn [final]; reflexivity).
  cbn [final] in F. unfold bound_in in F. destruct (lookup v s) eqn:E; [discriminate|].
  cbn [final]. unfold bound_in. rewrite E. reflexivity.
Qed.
Lemma wkc_nonvar s t : is_var t = false -> wkc s t = Some t.
Proof. intros H. apply wkc_of_final. destruct t; cbn in *; auto; discriminate. Qed.

Lemma sat_cons th x t s : sat th ((x, t) :: s) <-> th x = app th t /\ sat th s.
Proof.
  unfold sat; split.
  - intros H; split; [apply H; left; auto| intros; apply H; right; auto].
  - intros [H1 H2] y u [E|E]; [inversion E; subst; auto| auto].
Qed.

Lemma lit_eqb_eq a b : lit_eqb a b = true -> a = b.
Proof.
  destruct a, b; cbn [lit_eqb]; try discriminate; intros H.
  - apply Z.eqb_eq in H; congruence.
  - apply Bool.eqb_prop in H; congruence.
  - apply N.eqb_eq in H; congruence.
  - apply N.eqb_eq in H; congruence.
Qed.
Lemma lit_eqb_neq a b : lit_eqb a b = false -> a <> b.
Proof.
  intros H E; subst. destruct b; cbn [lit_eqb] in H.
  - rewrite Z.eqb_refl in H; discriminate.
  - destruct b; discriminate.
  - rewrite N.eqb_refl in H; discriminate.
  - rewrite N.eqb_refl in H; discriminate.
Qed.

(* ---------------------------------------------------------------- soundness + most general *)
Definition ures_spec (r : ures) (s ext : smap) (P : val -> Prop) : Prop :=
  match r with
  | UOk s' ext' =>
      (exists new, s' = new ++ s /\ ext' = new ++ ext) /\
      forall th, sat th s' <-> (sat th s /\ P th)
  | _ => True
  end.

Lemma bindv_spec f s ext x t (P : val -> Prop) :
  (forall th, sat th s -> (P th <-> th x = app th t)) ->
  ures_spec (bindv f s ext x t) s ext P.
Proof.
  intros HP. unfold bindv. destruct (occurs f s x t) as [[|]|]; cbn [ures_spec]; auto.
  split; [exists [(x, t)]; auto|].
  intros th. rewrite sat_cons. split.
  - intros [A B]. split; auto. apply HP; auto.
  - intros [A B]. split; auto. apply HP; auto.
Qed.

Lemma ures_spec_same s ext (P : val -> Prop) :
  (forall th, sat th s -> P th) -> ures_spec (UOk s ext) s ext P.
Proof.
  intros HP. cbn [ures_spec]. split; [exists []; auto|].
  intros th. split; [intros A; split; auto|intros [A _]; auto].
Qed.

Lemma ures_spec_equiv r s ext (P Q : val -> Prop) :
  ures_spec r s ext Q -> (forall th, sat th s -> (P th <-> Q th)) -> ures_spec r s ext P.
Proof.
  destruct r as [s' ext'| |]; cbn [ures_spec]; auto. intros [HN H] HE. split; auto.
  intros th. rewrite H. split; intros [A B]; split; auto; apply (HE th A); auto.
Qed.

Lemma ures_spec_trans s ext s1 e1 r2 (P1 P2 P : val -> Prop) :
  ures_spec (UOk s1 e1) s ext P1 -> ures_spec r2 s1 e1 P2 ->
  (forall th, sat th s -> (P th <-> (P1 th /\ P2 th))) ->
  ures_spec r2 s ext P.
Proof.
  intros H1 H2 HP. destruct r2 as [s2 e2| |]; cbn [ures_spec] in *; auto.
  destruct H1 as [[n1 [-> ->]] H1]. destruct H2 as [[n2 [-> ->]] H2].
  split; [exists (n2 ++ n1); rewrite !app_assoc; auto|].
  intros th. rewrite H2, H1. split.
  - intros [[A B] C]. split; auto. apply (HP th A). auto.
  - intros [A B]. apply (HP th A) in B. tauto.
Qed.

Theorem unify_spec : forall f,
  (forall s ext u v, ures_spec (unify f s ext u v) s ext (fun th => app th u = app th v)) /\
  (forall s ext us vs, ures_spec (unify_list f s ext us vs) s ext (fun th => apps th us = apps th vs)).
Proof.
  induction f as [|f [IHt IHl]]; [split; intros; exact I|].
  split.
  - intros s ext u v. cbn [unify].
    destruct (wkc s u) as [uw|] eqn:Eu; [|exact I]. destruct (wkc s v) as [vw|] eqn:Ev; [|exact I].
    assert (Wu: forall th, sat th s -> app th uw = app th u) by (intros; eapply wkc_sat; eauto).
    assert (Wv: forall th, sat th s -> app th vw = app th v) by (intros; eapply wkc_sat; eauto).
    destruct uw as [x|a fa| |h1 t1|g1 c1]; destruct vw as [y|b fb| |h2 t2|g2 c2];
      cbn [app] in Wu, Wv;
      try exact I;
      try (apply bindv_spec; intros th Hs; rewrite <- (Wu th Hs), <- (Wv th Hs); cbn [app];
           split; intros E; auto; congruence).
    + destruct (lit_eqb x y) eqn:E; [|exact I]. apply lit_eqb_eq in E. subst y.
      apply ures_spec_same. intros th Hs. rewrite <- (Wu th Hs), <- (Wv th Hs). reflexivity.
    + destruct (Nat.eqb_spec a b) as [E|E].
      * subst b. apply ures_spec_same. intros th Hs. rewrite <- (Wu th Hs), <- (Wv th Hs). reflexivity.
      * apply bindv_spec; intros th Hs; rewrite <- (Wu th Hs), <- (Wv th Hs); cbn [app]. tauto.
    + apply ures_spec_same. intros th Hs. rewrite <- (Wu th Hs), <- (Wv th Hs). reflexivity.
    + pose proof (IHt s ext h1 h2) as H1. destruct (unify f s ext h1 h2) as [s1 e1| |]; try exact I.
      eapply ures_spec_trans with (P1 := fun th => app th h1 = app th h2) (P2 := fun th => app th t1 = app th t2).
      * exact H1.
      * apply IHt.
      * intros th Hs. cbn beta. rewrite <- (Wu th Hs), <- (Wv th Hs). split.
        -- intros E. injection E as E1 E2. auto.
        -- intros [E1 E2]. congruence.
    + destruct (Nat.eqb_spec g1 g2) as [E|E]; [|exact I]. subst g2.
      eapply ures_spec_equiv; [apply IHl|].
      intros th Hs. cbn beta. rewrite <- (Wu th Hs), <- (Wv th Hs). split.
      * intros E. injection E as E1. auto.
      * intros E. congruence.
  - intros s ext us vs. cbn [unify_list]. destruct us as [|a ar]; destruct vs as [|b br]; try exact I.
    + apply ures_spec_same. reflexivity.
    + pose proof (IHt s ext a b) as H1. destruct (unify f s ext a b) as [s1 e1| |]; try exact I.
      eapply ures_spec_trans with (P1 := fun th => app th a = app th b) (P2 := fun th => apps th ar = apps th br).
      * exact H1.
      * apply IHl.
      * intros th Hs. cbn [apps]. split.
        -- intros E. injection E as E1 E2. auto.
        -- intros [E1 E2]. congruence.
Qed.

(* the statement for terms *)
Theorem unify_sat f s ext u v s' ext' :
  unify f s ext u v = UOk s' ext' ->
  forall th, sat th s' <-> (sat th s /\ app th u = app th v).
Proof. intros E. pose proof (proj1 (unify_spec f) s ext u v) as H. rewrite E in H. apply H. Qed.

Theorem unify_extends f s ext u v s' ext' :
  unify f s ext u v = UOk s' ext' -> exists new, s' = new ++ s /\ ext' = new ++ ext.
Proof. intros E. pose proof (proj1 (unify_spec f) s ext u v) as H. rewrite E in H. apply H. Qed.

(* any unifier consistent with the prior bindings is an instance of the answer: it agrees with the
   answer's resolution of every term *)
Corollary unify_most_general f s ext u v s' ext' th :
  unify f s ext u v = UOk s' ext' -> sat th s -> app th u = app th v ->
  forall t, app th (wk s' t) = app th t.
Proof.
  intros E Hs Huv t. apply wk_sat. apply (unify_sat _ _ _ _ _ _ _ E th). auto.
Qed.

(* ---------------------------------------------------------------- completeness *)
Lemma occurs_size : forall f,
  (forall s x t, occurs f s x t = Some true -> forall th, sat th s -> tsize (th x) <= tsize (app th t)) /\
  (forall s x ts, occurs_list f s x ts = Some true -> forall th, sat th s -> tsize (th x) <= tssize (apps th ts)).
Proof.
  induction f as [|f [IHt IHl]]; [split; intros; discriminate|].
  split.
  - intros s x t H th Hs. cbn [occurs] in H. destruct (wkc s t) as [w|] eqn:Ew; [|discriminate].
    rewrite <- (wkc_sat th s t w Ew Hs).
    destruct w as [l|v fl| |h tl|g cs]; try discriminate.
    + inversion H as [E]. apply Nat.eqb_eq in E. subst v. cbn [app]. lia.
    + cbn [app tsize]. destruct (occurs f s x h) as [[|]|] eqn:E1; try discriminate.
      * pose proof (IHt _ _ _ E1 th Hs). lia.
      * pose proof (IHt _ _ _ H th Hs). lia.
    + cbn [app tsize]. pose proof (IHl _ _ _ H th Hs). lia.
  - intros s x ts H th Hs. cbn [occurs_list] in H. destruct ts as [|t r]; [discriminate|].
    cbn [apps tssize]. destruct (occurs f s x t) as [[|]|] eqn:E1; try discriminate.
    + pose proof (IHt _ _ _ E1 th Hs). lia.
    + pose proof (IHl _ _ _ H th Hs). lia.
Qed.

(* strict when the term is not itself a variable: a variable cannot equal a term it occurs inside *)
Lemma occurs_size_strict f s x t th :
  occurs f s x t = Some true -> sat th s -> is_var t = false -> tsize (th x) < tsize (app th t).
Proof.
  intros H Hs NV. destruct f as [|f]; [discriminate|]. cbn [occurs] in H.
  rewrite (wkc_nonvar s t NV) in H.
  destruct t as [l|v fl| |h tl|g cs]; try discriminate.
  - cbn [app tsize]. destruct (occurs f s x h) as [[|]|] eqn:E1; try discriminate.
    + pose proof (proj1 (occurs_size f) _ _ _ E1 th Hs). lia.
    + pose proof (proj1 (occurs_size f) _ _ _ H th Hs). lia.
  - cbn [app tsize]. pose proof (proj2 (occurs_size f) _ _ _ H th Hs). lia.
Qed.

Definition ufail_spec (r : ures) (s : smap) (P : val -> Prop) : Prop :=
  match r with UFail => forall th, sat th s -> ~ P th | _ => True end.

Lemma bindv_fail_nonvar f s ext x t (P : val -> Prop) :
  is_var t = false ->
  (forall th, sat th s -> P th -> th x = app th t) ->
  ufail_spec (bindv f s ext x t) s P.
Proof.
  intros NV HP. unfold bindv. destruct (occurs f s x t) as [[|]|] eqn:E; cbn [ufail_spec]; auto.
  intros th Hs HPt. pose proof (HP th Hs HPt) as Eq.
  pose proof (occurs_size_strict f s x t th E Hs NV) as H. rewrite Eq in H. lia.
Qed.

Lemma bindv_var_never_fails f s ext a b fb (P : val -> Prop) :
  final s (TVar b fb) = true -> a <> b -> ufail_spec (bindv f s ext a (TVar b fb)) s P.
Proof.
  intros F NE. unfold bindv. destruct f as [|f]; [exact I|]. cbn [occurs].
  rewrite (wkc_of_final s _ F). destruct (Nat.eqb_spec b a); [congruence|exact I].
Qed.

Theorem unify_fail_spec : forall f,
  (forall s ext u v, ufail_spec (unify f s ext u v) s (fun th => app th u = app th v)) /\
  (forall s ext us vs, ufail_spec (unify_list f s ext us vs) s (fun th => apps th us = apps th vs)).
Proof.
  induction f as [|f [IHt IHl]]; [split; intros; exact I|].
  split.
  - intros s ext u v. cbn [unify].
    destruct (wkc s u) as [uw|] eqn:Eu; [|exact I]. destruct (wkc s v) as [vw|] eqn:Ev; [|exact I].
    assert (Wu: forall th, sat th s -> app th uw = app th u) by (intros; eapply wkc_sat; eauto).
    assert (Wv: forall th, sat th s -> app th vw = app th v) by (intros; eapply wkc_sat; eauto).
    pose proof (proj2 (wkc_some _ _ _ Eu)) as Fu. pose proof (proj2 (wkc_some _ _ _ Ev)) as Fv.
    destruct uw as [x|a fa| |h1 t1|g1 c1]; destruct vw as [y|b fb| |h2 t2|g2 c2];
      cbn [app] in Wu, Wv;
      (* constructor clashes *)
      try (cbn [ufail_spec]; intros th Hs E; rewrite <- (Wu th Hs), <- (Wv th Hs) in E; discriminate);
      (* variable against non-variable *)
      try (apply bindv_fail_nonvar; [reflexivity|];
           intros th Hs E; rewrite <- (Wu th Hs), <- (Wv th Hs) in E; cbn [app]; congruence).
    + destruct (lit_eqb x y) eqn:E; [exact I|]. cbn [ufail_spec]. intros th Hs E2.
      rewrite <- (Wu th Hs), <- (Wv th Hs) in E2. apply lit_eqb_neq in E. congruence.
    + destruct (Nat.eqb_spec a b) as [E|E]; [exact I|]. apply bindv_var_never_fails; auto.
    + exact I.
    + pose proof (IHt s ext h1 h2) as H1. pose proof (proj1 (unify_spec f) s ext h1 h2) as S1.
      destruct (unify f s ext h1 h2) as [s1 e1| |]; [| |exact I].
      * pose proof (IHt s1 e1 t1 t2) as H2. destruct (unify f s1 e1 t1 t2) as [s2 e2| |]; try exact I.
        cbn [ufail_spec] in *. intros th Hs E. rewrite <- (Wu th Hs), <- (Wv th Hs) in E. injection E as E1 E2.
        apply (H2 th); auto. apply (proj2 S1 th). auto.
      * cbn [ufail_spec] in *. intros th Hs E. rewrite <- (Wu th Hs), <- (Wv th Hs) in E. injection E as E1 E2.
        apply (H1 th); auto.
    + destruct (Nat.eqb_spec g1 g2) as [E|E].
      * subst g2. pose proof (IHl s ext c1 c2) as H1. destruct (unify_list f s ext c1 c2); try exact I.
        cbn [ufail_spec] in *. intros th Hs E. rewrite <- (Wu th Hs), <- (Wv th Hs) in E. injection E as E1.
        apply (H1 th); auto.
      * cbn [ufail_spec]. intros th Hs E2. rewrite <- (Wu th Hs), <- (Wv th Hs) in E2. congruence.
  - intros s ext us vs. cbn [unify_list]. destruct us as [|a ar]; destruct vs as [|b br];
      try exact I; try (cbn [ufail_spec apps]; intros th Hs E; discriminate).
    pose proof (IHt s ext a b) as H1. pose proof (proj1 (unify_spec f) s ext a b) as S1.
    destruct (unify f s ext a b) as [s1 e1| |]; [| |exact I].
    + pose proof (IHl s1 e1 ar br) as H2. destruct (unify_list f s1 e1 ar br) as [s2 e2| |]; try exact I.
      cbn [ufail_spec apps] in *. intros th Hs E. injection E as E1 E2.
      apply (H2 th); auto. apply (proj2 S1 th). auto.
    + cbn [ufail_spec apps] in *. intros th Hs E. injection E as E1 E2. apply (H1 th); auto.
Qed.

Theorem unify_complete f s ext u v :
  unify f s ext u v = UFail -> forall th, sat th s -> app th u <> app th v.
Proof. intros E. pose proof (proj1 (unify_fail_spec f) s ext u v) as H. rewrite E in H. exact H. Qed.

(* the variable bound by a successful unification is never bound to a term that contains it: every
   new binding (x, t) passed the occurs check in the substitution it extends *)
Lemma tsize_pos t : 1 <= tsize t.
Proof. destruct t; cbn [tsize]; lia. Qed.
