(* Finite-domain propagation is sound (C16): every valuation that solves the state an operation
   returns - its substitution, its stored constraints of every kind, its domains - solves the state
   the operation started from, and satisfies the constraint that was run / the domain that was
   posted.  Constraints are dropped only when the domains (or ground operands) already imply them;
   domains only shrink; a variable bound because its domain became one value has that value. *)
From Coq Require Import List ZArith Bool Arith Lia Sorted Permutation.
From PV Require Import Model.Term Model.Subst Model.Unify Model.FD Model.State Model.Engine
  Proofs.FDProofs Proofs.UnifyProofs Proofs.DiseqProofs Proofs.KeyProofs Proofs.MonoProofs Proofs.DenProofs.
Import ListNotations.

(* sparse domains are sorted and non-empty; intervals may be empty (lo > hi): they then denote nothing *)
Definition wf' (d : fd) : Prop := match d with Interval _ _ => True | Sparse l => l <> [] /\ ssorted l end.

Lemma intersect_sub a b i : wf' a -> wf' b -> fd_intersect a b = Some i ->
  wf' i /\ forall z, mem i z -> mem a z /\ mem b z.
Proof.
  destruct a as [l1 h1|v], b as [l2 h2|w]; cbn [wf' fd_intersect]; intros Ha Hb H.
  - destruct (Z.leb_spec (Z.max l1 l2) (Z.min h1 h2)); inversion H; subst. split; [exact I|]. cbn [mem]. intros z. lia.
  - destruct Hb as [_ Hb].
    destruct (take_while (fun u => u <=? h1) (skip_while (fun u => u <? l1) w)) as [|x r] eqn:E; [discriminate|].
    inversion H; subst. split.
    + split; [discriminate|]. rewrite <- E. apply take_while_sorted, skip_while_sorted; auto.
    + intros z Hz. cbn [mem] in *. rewrite <- E in Hz.
      apply take_while_mono_In in Hz; [|apply skip_while_sorted; auto|intros x0 y Hxy; rewrite !Z.leb_le; lia].
      destruct Hz as [Hz1 Hz2]. apply skip_while_mono_In in Hz1; [|auto|intros x0 y Hxy; rewrite !Z.ltb_lt; lia].
      destruct Hz1 as [Hz1 Hz3]. apply Z.leb_le in Hz2. apply Z.ltb_ge in Hz3. split; [lia|auto].
  - destruct Ha as [_ Ha].
    destruct (take_while (fun u => u <=? h2) (skip_while (fun u => u <? l2) v)) as [|x r] eqn:E; [discriminate|].
    inversion H; subst. split.
    + split; [discriminate|]. rewrite <- E. apply take_while_sorted, skip_while_sorted; auto.
    + intros z Hz. cbn [mem] in *. rewrite <- E in Hz.
      apply take_while_mono_In in Hz; [|apply skip_while_sorted; auto|intros x0 y Hxy; rewrite !Z.leb_le; lia].
      destruct Hz as [Hz1 Hz2]. apply skip_while_mono_In in Hz1; [|auto|intros x0 y Hxy; rewrite !Z.ltb_lt; lia].
      destruct Hz1 as [Hz1 Hz3]. apply Z.leb_le in Hz2. apply Z.ltb_ge in Hz3. split; [auto|lia].
  - destruct Ha as [_ Ha], Hb as [_ Hb]. destruct (merge_inter v w) as [|x r] eqn:E; [discriminate|].
    inversion H; subst. split.
    + split; [discriminate|]. rewrite <- E. apply merge_inter_sorted; auto.
    + intros z Hz. cbn [mem] in *. rewrite <- E in Hz. apply merge_inter_In in Hz; auto.
Qed.

Lemma singleton_mem d n : fd_singleton_value d = Some n -> mem d n /\ forall z, mem d z -> wf' d -> z = n.
Proof.
  unfold fd_singleton_value. destruct d as [lo hi|l]; cbn [fd_is_singleton fd_min mem].
  - destruct (Z.eqb_spec lo hi); [|discriminate]. intros H. inversion H; subst. split; [lia|]. intros z Hz _. lia.
  - destruct l as [|x [|y r]]; try discriminate. cbn. intros H. inversion H; subst. split; [auto|]. intros z [->|[]] _. reflexivity.
Qed.

Lemma contains_mem d n : fd_contains d n = true -> mem d n.
Proof.
  destruct d as [lo hi|l]; cbn [fd_contains mem].
  - rewrite andb_true_iff, !Z.leb_le. tauto.
  - rewrite existsb_exists. intros [x [Hx E]]. apply Z.eqb_eq in E. subst. exact Hx.
Qed.

(* ------------------------------------------------------------------ meaning of states with domains *)
Definition numv (th : val) (t : term) (z : Z) : Prop := app th t = tnum z.
Definition inDom (th : val) (x : nat) (d : fd) : Prop := exists z, th x = tnum z /\ mem d z.

Definition choldF (th : val) (c : constraint) : Prop :=
  match c with
  | KDiseq ps => holds th ps
  | KLte u v => exists a b, numv th u a /\ numv th v b /\ (a <= b)%Z
  | KPlus u v w | KPlusZ u v w => exists a b r, numv th u a /\ numv th v b /\ numv th w r /\ (a + b = r)%Z
  | KMinus u v w => exists a b r, numv th u a /\ numv th v b /\ numv th w r /\ (a - b = r)%Z
  | KTimes u v w | KTimesZ u v w => exists a b r, numv th u a /\ numv th v b /\ numv th w r /\ (a * b = r)%Z
  | KDiseqFd u v => exists a b, numv th u a /\ numv th v b /\ a <> b
  | KDistinct u => exists zs, list_of_term (app th u) = map tnum zs /\ NoDup zs
  | KDistinct2 _ ys n => exists zs, Forall2 (numv th) ys zs /\ NoDup (zs ++ n)
  end.
Definition storeF (th : val) (store : list (nat * constraint)) : Prop := forall i c, In (i, c) store -> choldF th c.
Definition domF (th : val) (ds : list (nat * fd)) : Prop := forall x d, In (x, d) ds -> inDom th x d.
Definition MstF (th : val) (st : state) : Prop :=
  sat th (st_smap st) /\ storeF th (st_cstore st) /\ domF th (st_dstore st).
Definition WFD (st : state) : Prop := forall x d, In (x, d) (st_dstore st) -> wf' d.

(* st' refines st (all stored domains well-formed on both sides) *)
Definition SolF (st st' : state) : Prop :=
  ext st st' /\ WFD st' /\ forall th, MstF th st' -> storeF th (st_cstore st) /\ domF th (st_dstore st).
Definition sresF (st : state) (r : sres) : Prop := match r with SOk st' => SolF st st' | _ => True end.

Lemma SolF_refl st : WFD st -> SolF st st.
Proof. intros W. split; [apply ext_refl|]. split; [exact W|]. intros th [_ [A B]]. auto. Qed.
Lemma MstF_SolF th a b : SolF a b -> MstF th b -> MstF th a.
Proof. intros [E [_ H]] HM. destruct (H th HM) as [A B]. split; [eapply ext_sat; [exact E|apply HM]|auto]. Qed.
Lemma SolF_trans a b c : SolF a b -> SolF b c -> SolF a c.
Proof.
  intros S1 S2. pose proof S1 as [E1 [W1 H1]]. pose proof S2 as [E2 [W2 H2]].
  split; [eapply ext_trans; eauto|]. split; [exact W2|]. intros th HM. apply H1. eapply MstF_SolF; eauto.
Qed.
Lemma sbind_F st r k : sresF st r -> (forall st1, SolF st st1 -> sresF st1 (k st1)) -> sresF st (sbind r k).
Proof.
  destruct r as [st1| | |]; cbn [sbind sresF]; auto. intros E1 Hk. specialize (Hk st1 E1).
  destruct (k st1); cbn in *; auto. eapply SolF_trans; eauto.
Qed.

Lemma numv_wk th s t z : sat th s -> wk s t = tnum z -> numv th t z.
Proof. intros Hs E. unfold numv. rewrite <- (wk_sat th s t Hs), E. reflexivity. Qed.
Lemma app_wk_var th s t v a : sat th s -> wk s t = TVar v a -> app th t = th v.
Proof. intros Hs E. rewrite <- (wk_sat th s t Hs), E. reflexivity. Qed.
Lemma numv_same th s t z : sat th s -> numv th (wk s t) z -> numv th t z.
Proof. unfold numv. intros Hs H. rewrite <- (wk_sat th s t Hs). exact H. Qed.

Lemma find_id_in {A} id (l : list (nat * A)) a : find_id id l = Some a -> In (id, a) l.
Proof.
  induction l as [|[i b] l IH]; cbn; [discriminate|]. destruct (Nat.eqb i id) eqn:E; [|auto].
  apply Nat.eqb_eq in E. subst. intros H. inversion H; subst. left; reflexivity.
Qed.
Lemma remove_none {A} id (l : list (nat * A)) : find_id id l = None -> remove_id id l = l.
Proof.
  induction l as [|[i b] l IH]; cbn; [reflexivity|]. destruct (Nat.eqb i id); [discriminate|]. intros H. rewrite IH; auto.
Qed.

(* ---- facts about the pruned domains ---- *)
Lemma copy_before_sub p d d' : wf' d -> fd_copy_before p d = Some d' -> wf' d' /\ forall z, mem d' z -> mem d z /\ p z = false.
Proof.
  destruct d as [lo hi|l]; cbn [wf' fd_copy_before]; intros W H.
  - destruct (find_first p (zrange lo hi)) as [u|] eqn:E.
    + apply find_first_some in E as [H1 [H2 H3]]; [|apply zrange_sorted]. apply In_zrange in H1.
      destruct (Z.eqb_spec u lo); [discriminate|]. inversion H; subst. split; [exact I|]. cbn [mem]. intros z Hz.
      split; [lia|]. apply H3; [apply In_zrange; lia|lia].
    + inversion H; subst. split; [exact I|]. cbn [mem]. intros z Hz. split; [exact Hz|].
      eapply find_first_none; eauto. apply In_zrange. exact Hz.
  - destruct W as [_ Hs]. destruct (take_while (fun z => negb (p z)) l) as [|x r] eqn:E; [discriminate|]. inversion H; subst.
    split; [split; [discriminate|rewrite <- E; apply take_while_sorted; auto]|]. cbn [mem]. intros z Hz. rewrite <- E in Hz.
    apply take_while_In in Hz. destruct Hz as [A B]. split; [exact A|]. destruct (p z); [discriminate|reflexivity].
Qed.
Lemma drop_before_sub n d d' : wf' d -> fd_drop_before (fun x => n <=? x) d = Some d' -> wf' d' /\ forall z, mem d' z -> mem d z /\ n <= z.
Proof.
  destruct d as [lo hi|l]; cbn [wf' fd_drop_before]; intros W H.
  - destruct (find_first (fun x => n <=? x) (zrange lo hi)) as [u|] eqn:E; [|discriminate].
    apply find_first_some in E as [H1 [H2 H3]]; [|apply zrange_sorted]. apply In_zrange in H1. apply Z.leb_le in H2.
    inversion H; subst. split; [exact I|]. cbn [mem]. intros z Hz. lia.
  - destruct W as [_ Hs]. destruct (skip_while (fun z => negb (n <=? z)) l) as [|x r] eqn:E; [discriminate|]. inversion H; subst.
    split; [split; [discriminate|rewrite <- E; apply skip_while_sorted; auto]|]. cbn [mem]. intros z Hz. rewrite <- E in Hz.
    apply skip_while_mono_In in Hz; [|exact Hs|].
    + destruct Hz as [A B]. split; [exact A|]. destruct (Z.leb_spec n z); [lia|discriminate].
    + intros a b Hab Hb. destruct (Z.leb_spec n b); [discriminate|]. destruct (Z.leb_spec n a); [lia|reflexivity].
Qed.
Lemma fd_iter_sorted' d : wf' d -> ssorted (fd_iter d).
Proof. destruct d as [lo hi|l]; cbn; [intros _; apply zrange_sorted|tauto]. Qed.
Lemma diff_sub a b d : wf' a -> fd_diff a b = Some d -> wf' d /\ forall z, mem d z -> mem a z.
Proof.
  unfold fd_diff. intros W H. destruct (merge_diff (fd_iter a) (fd_iter b)) as [|x r] eqn:E; [discriminate|]. inversion H; subst.
  split; [split; [discriminate|rewrite <- E; apply merge_diff_sorted, fd_iter_sorted'; exact W]|].
  cbn [mem]. intros z Hz. rewrite <- E in Hz. apply merge_diff_sub in Hz. apply mem_iter. exact Hz.
Qed.
Lemma singleton_only d z : fd_is_singleton d = true -> mem d z -> z = zmin d.
Proof.
  destruct d as [lo hi|l]; cbn [fd_is_singleton mem zmin fd_min].
  - intros E H. apply Z.eqb_eq in E. lia.
  - destruct l as [|x [|y r]]; try discriminate. intros _ [->|[]]. reflexivity.
Qed.
Lemma hd_error_min l m z : ssorted l -> hd_error l = Some m -> In z l -> m <= z.
Proof.
  destruct l as [|x r]; [discriminate|]. cbn. intros Hs H [->|Hin]; inversion H; subst; [lia|].
  pose proof (ssorted_lt _ _ _ Hs Hin). lia.
Qed.
Lemma disjoint_sub a b : wf' a -> wf' b -> fd_is_disjoint a b = Some true -> forall z, mem a z -> ~ mem b z.
Proof.
  intros Wa Wb H z Ha Hb. unfold fd_is_disjoint in H.
  destruct (fd_min a) as [mina|] eqn:E1; [|discriminate]. destruct (fd_max a) as [maxa|] eqn:E2; [|discriminate].
  destruct (fd_min b) as [minb|] eqn:E3; [|discriminate]. destruct (fd_max b) as [maxb|] eqn:E4; [|discriminate].
  assert (Bmin : forall d m y, wf' d -> fd_min d = Some m -> mem d y -> m <= y).
  { intros d m y W Em My. destruct d as [lo hi|l]; cbn in *; [inversion Em; subst; lia|]. eapply hd_error_min; [apply W|exact Em|exact My]. }
  assert (Bmax : forall d m y, wf' d -> fd_max d = Some m -> mem d y -> y <= m).
  { intros d m y W Em My. destruct d as [lo hi|l]; cbn in *; [inversion Em; subst; lia|].
    destruct W as [_ Hs]. destruct (rev l) as [|m' r'] eqn:Er; [discriminate|]. cbn in Em. inversion Em; subst m'.
    assert (El : l = rev r' ++ [m]) by (rewrite <- (rev_involutive l), Er; reflexivity).
    rewrite El in Hs, My. apply in_app_or in My. destruct My as [My|[->|[]]]; [|lia].
    pose proof (ssorted_app_last _ _ Hs y My). lia. }
  destruct ((maxb <? mina) || (maxa <? minb)) eqn:Eb.
  - apply orb_true_iff in Eb. destruct Eb as [Eb|Eb]; apply Z.ltb_lt in Eb.
    + pose proof (Bmin a mina z Wa E1 Ha). pose proof (Bmax b maxb z Wb E4 Hb). lia.
    + pose proof (Bmax a maxa z Wa E2 Ha). pose proof (Bmin b minb z Wb E3 Hb). lia.
  - inversion H as [Hm].
    pose proof (proj1 (merge_disjoint_spec (fd_iter a) (fd_iter b) (fd_iter_sorted' a Wa) (fd_iter_sorted' b Wb)) Hm) as Hd.
    apply (Hd z); apply mem_iter; assumption.
Qed.


(* ---- distinctfd: the elements of the list, read as integers, are pairwise different ---- *)
Lemma list_of_term_app th : forall v vals, Forall2 (numv th) (list_of_term v) vals -> list_of_term (app th v) = map tnum vals.
Proof.
  induction v as [l|x a| |h IHh t IHt|g cs]; intros vals H; cbn [list_of_term] in H.
  - inversion H as [|? z ? ? Hz Hr]; subst. inversion Hr; subst. unfold numv in Hz. rewrite Hz. reflexivity.
  - inversion H as [|? z ? ? Hz Hr]; subst. inversion Hr; subst. unfold numv in Hz. rewrite Hz. reflexivity.
  - inversion H; subst. reflexivity.
  - inversion H as [|? z ? vals' Hz Hr]; subst. cbn [app list_of_term map]. unfold numv in Hz. rewrite Hz. f_equal. apply IHt, Hr.
  - inversion H as [|? z ? ? Hz Hr]; subst. unfold numv in Hz. cbn [app] in Hz. discriminate.
Qed.
Definition numvals (ts : list term) : list Z := flat_map (fun t => match get_number t with Some z => [z] | None => [] end) ts.
Lemma split_vals th : forall elems zs,
  Forall2 (numv th) (filter is_var elems) zs ->
  forallb (fun t => match get_number t with Some _ => true | None => false end) (filter (fun t => negb (is_var t)) elems) = true ->
  exists vals, Forall2 (numv th) elems vals /\ Permutation vals (zs ++ numvals (filter (fun t => negb (is_var t)) elems)).
Proof.
  induction elems as [|e r IH]; intros zs H1 H2; cbn [filter] in *.
  - inversion H1; subst. exists []. split; [constructor|constructor].
  - destruct (is_var e) eqn:Ev; cbn [negb] in *.
    + inversion H1 as [|? z ? zs' Hz Hr]; subst. destruct (IH zs' Hr H2) as [vals [A B]].
      exists (z :: vals). split; [constructor; assumption|]. cbn [List.app]. apply perm_skip, B.
    + cbn [forallb] in H2. apply andb_prop in H2 as [He H2]. destruct (get_number e) as [w|] eqn:Ew; [|discriminate].
      destruct (IH zs H1 H2) as [vals [A B]]. exists (w :: vals). split.
      * constructor; [|exact A]. destruct e as [[]| | | |]; try discriminate. inversion Ew; subst. reflexivity.
      * unfold numvals. cbn [flat_map]. rewrite Ew. cbn [List.app]. apply Permutation_cons_app. exact B.
Qed.
Lemma insert_sorted_perm x l : Permutation (insert_sorted x l) (x :: l).
Proof.
  induction l as [|y r IH]; cbn [insert_sorted]; [constructor; constructor|].
  destruct (x <=? y); [apply Permutation_refl|]. eapply perm_trans; [apply perm_skip, IH|apply perm_swap].
Qed.
Lemma isort_perm l : Permutation (isort l) l.
Proof. induction l as [|x r IH]; cbn [isort]; [constructor|]. eapply perm_trans; [apply insert_sorted_perm|apply perm_skip, IH]. Qed.
Lemma insert_nodup_perm z : forall n n', insert_sorted_nodup z n = Some n' -> Permutation n' (z :: n).
Proof.
  induction n as [|y r IH]; intros n' H; cbn [insert_sorted_nodup] in H.
  - inversion H; subst. apply Permutation_refl.
  - destruct (z =? y); [discriminate|]. destruct (z <? y); [inversion H; subst; apply Permutation_refl|].
    destruct (insert_sorted_nodup z r) as [r'|]; [|discriminate]. inversion H; subst.
    eapply perm_trans; [apply perm_skip, (IH r' eq_refl)|apply perm_swap].
Qed.

Section Fuelled.
Variable rcs : state -> sres.
Hypothesis rcs_F : forall st, WFD st -> sresF st (rcs st).

(* posting / narrowing a domain: the result refines the state and puts the operand's value in the domain *)
Definition sresFD (st : state) (x : term) (d : fd) (r : sres) : Prop :=
  match r with
  | SOk st' => SolF st st' /\ forall th, MstF th st' -> exists z, numv th x z /\ mem d z
  | _ => True
  end.

Lemma process_domain_FD st x d : WFD st -> wf' d -> sresFD st x d (process_domain rcs st x d).
Proof.
  intros W Wd. unfold process_domain. destruct (wk (st_smap st) x) as [[n| | |]|v a| | |] eqn:Ex; try exact I.
  - destruct (fd_contains d n) eqn:Ec; [|exact I]. split; [apply SolF_refl, W|].
    intros th [Hs _]. exists n. split; [eapply numv_wk; eauto|apply contains_mem, Ec].
  - unfold update_var_domain, resolve_storable_domain.
    assert (R : forall dd, wf' dd -> (forall z, mem dd z -> mem d z) ->
                (forall old, find_id v (st_dstore st) = Some old -> forall z, mem dd z -> mem old z) ->
                sresFD st x d (match fd_singleton_value dd with
                  | Some n => rcs (dom_remove (set_smap st ((v, tnum n) :: st_smap st)) v)
                  | None => SOk (dom_insert st v dd) end)).
    { intros dd Wdd Hd Hold. destruct (fd_singleton_value dd) as [n|] eqn:Es.
      - destruct (singleton_mem _ _ Es) as [Mn _].
        assert (W1 : WFD (dom_remove (set_smap st ((v, tnum n) :: st_smap st)) v)).
        { intros y dy Hin. cbn in Hin. apply (W y dy). eapply remove_id_in; eauto. }
        pose proof (rcs_F _ W1) as HR.
        destruct (rcs _) as [st'| | |]; try exact I. cbn [sresF sresFD] in *. destruct HR as [E1 [W' H1]].
        assert (E0 : ext st st') by (destruct E1 as [new E1]; exists (new ++ [(v, tnum n)]); rewrite E1; cbn; rewrite <- List.app_assoc; reflexivity).
        assert (Hv : forall th, MstF th st' -> th v = tnum n).
        { intros th [Hs _]. pose proof (ext_sat th _ _ E1 Hs) as Hs1. cbn in Hs1. apply (Hs1 v (tnum n)). left; reflexivity. }
        split.
        + split; [exact E0|]. split; [exact W'|]. intros th HM.
          destruct (H1 th HM) as [A B]. split; [exact A|]. intros y dy Hin.
          destruct (find_id v (st_dstore st)) as [old|] eqn:Ef.
          * destruct (remove_find_in _ _ _ _ Ef Hin) as [Hx|Hx]; [|apply B; exact Hx].
            inversion Hx; subst. exists n. split; [apply Hv, HM|eapply Hold; eauto].
          * apply B. cbn. rewrite (remove_none _ _ Ef). exact Hin.
        + intros th HM. exists n. split; [|apply Hd, Mn]. unfold numv.
          rewrite (app_wk_var th (st_smap st) x v a); [apply Hv, HM| |exact Ex].
          eapply ext_sat; [exact E0|apply HM].
      - cbn [sresFD]. split.
        + split; [exists []; reflexivity|]. split.
          * intros y dy [Hin|Hin]; [inversion Hin; subst; exact Wdd|]. apply (W y dy). eapply remove_id_in; eauto.
          * intros th [Hs [A B]]. split; [exact A|]. intros y dy Hin. cbn [dom_insert set_dstore st_dstore] in B.
            destruct (find_id v (st_dstore st)) as [old|] eqn:Ef.
            -- destruct (remove_find_in _ _ _ _ Ef Hin) as [Hx|Hx]; [|apply B; right; exact Hx].
               inversion Hx; subst. destruct (B v dd (or_introl eq_refl)) as [z [Hz Mz]]. exists z. split; [exact Hz|eapply Hold; eauto].
            -- apply B. right. rewrite (remove_none _ _ Ef). exact Hin.
        + intros th [Hs [A B]]. cbn [dom_insert set_dstore st_dstore] in B. destruct (B v dd (or_introl eq_refl)) as [z [Hz Mz]].
          exists z. split; [|apply Hd, Mz]. unfold numv. cbn [dom_insert set_dstore st_smap] in Hs.
          rewrite (app_wk_var th (st_smap st) x v a Hs Ex). exact Hz. }
    destruct (find_id v (st_dstore st)) as [old|] eqn:Ef.
    + destruct (fd_intersect old d) as [i|] eqn:Ei; [|exact I].
      assert (Wold : wf' old) by (apply (W v old); apply find_id_in; exact Ef).
      destruct (intersect_sub old d i Wold Wd Ei) as [Wi Hi].
      apply R; [exact Wi|intros z Hz; apply (Hi z Hz)|]. intros old' Hf z Hz. inversion Hf; subst. apply (Hi z Hz).
    + apply R; [exact Wd|auto|]. intros old Hf. discriminate.
Qed.
Lemma process_domain_F st x d : WFD st -> wf' d -> sresF st (process_domain rcs st x d).
Proof. intros W Wd. pose proof (process_domain_FD st x d W Wd) as H. destruct (process_domain rcs st x d); cbn in *; auto. apply H. Qed.

(* ---- storing a constraint ---- *)
Lemma panF th store id c : storeF th (fst (push_and_normalize store id c)) -> storeF th store /\ choldF th c.
Proof.
  unfold push_and_normalize. destruct (is_diseq c) as [ps|] eqn:Ec.
  - destruct c; try discriminate. inversion Ec; subst. clear Ec.
    destruct (stored_subsumes_new store ps) eqn:E; cbn [fst].
    + intros H. split; [exact H|]. unfold stored_subsumes_new in E. apply existsb_exists in E as [[i c] [HI Hc]]. cbn [snd] in Hc.
      destruct c; cbn [is_diseq] in Hc; try discriminate. cbn [choldF]. apply (subsumes_sound _ _ Hc). apply (H i _ HI).
    + intros H. assert (Hps : holds th ps) by (apply (H id (KDiseq ps)); apply in_or_app; right; left; reflexivity).
      split; [|exact Hps]. intros i c HI. destruct c as [qs| | | | | | | | |];
        try (apply (H i); apply in_or_app; left; apply filter_In; split; [exact HI|reflexivity]).
      cbn [choldF]. destruct (subsumes ps qs) eqn:Es; [apply (subsumes_sound _ _ Es th Hps)|].
      apply (H i (KDiseq qs)). apply in_or_app. left. apply filter_In. split; [exact HI|]. cbn. rewrite Es. reflexivity.
  - cbn [fst]. intros H. split; [intros i c' HI; apply (H i); apply in_or_app; left; exact HI|].
    apply (H id c). apply in_or_app. right. left. reflexivity.
Qed.

Definition sresFC (c : constraint) (st : state) (r : sres) : Prop :=
  match r with SOk st' => SolF st st' /\ forall th, MstF th st' -> choldF th c | _ => True end.

Lemma fold_take_dstore (dropped : list (nat * constraint)) : forall st,
  st_dstore (fold_left (fun s ic => log_event s (UTake (fst ic))) dropped st) = st_dstore st.
Proof. induction dropped as [|d r IH]; intros st; cbn [fold_left]; [reflexivity|]. rewrite IH. reflexivity. Qed.
Lemma with_constraint_id_dstore st id c : st_dstore (with_constraint_id st id c) = st_dstore st.
Proof. unfold with_constraint_id. destruct (push_and_normalize _ id c) as [store dropped]. rewrite fold_take_dstore. reflexivity. Qed.

Lemma wc_FC st id c : WFD st -> sresFC c st (SOk (with_constraint_id st id c)).
Proof.
  intros W. cbn. assert (A := with_constraint_id_cstore st id c). assert (B := with_constraint_id_smap st id c).
  assert (D := with_constraint_id_dstore st id c).
  split.
  - split; [exists []; rewrite B; reflexivity|]. split; [intros x d; rewrite D; apply W|].
    intros th [_ [HS HD]]. rewrite A in HS. apply panF in HS. rewrite D in HD. split; [apply HS|exact HD].
  - intros th [_ [HS _]]. rewrite A in HS. apply panF in HS. apply HS.
Qed.
Lemma wn_FC st c : WFD st -> sresFC c st (SOk (with_new_constraint st c)).
Proof. intros W. unfold with_new_constraint. pose proof (wc_FC (bump_nextc st) (st_nextc st) c W) as H. cbn in *. exact H. Qed.
Lemma sresFC_F c st r : sresFC c st r -> sresF st r.
Proof. destruct r; cbn; tauto. Qed.
Lemma SolF_wc st id c : WFD st -> SolF st (with_constraint_id st id c).
Proof. intros W. apply (wc_FC st id c W). Qed.
Lemma SolF_wn st c : WFD st -> SolF st (with_new_constraint st c).
Proof. intros W. apply (wn_FC st c W). Qed.

Lemma sbind_FC c st r k : sresF st r -> (forall st1, SolF st st1 -> sresFC c st1 (k st1)) -> sresFC c st (sbind r k).
Proof.
  destruct r as [st1| | |]; cbn [sbind sresF]; auto. intros S1 Hk. specialize (Hk st1 S1).
  destruct (k st1) as [st2| | |]; cbn in *; auto. destruct Hk as [S2 H2]. split; [eapply SolF_trans; eauto|exact H2].
Qed.

Lemma get_number_numv th st t a : sat th (st_smap st) -> get_number (wk (st_smap st) t) = Some a -> numv th t a.
Proof.
  intros Hs H. destruct (wk (st_smap st) t) as [[n| | |]| | | |] eqn:E; try discriminate. inversion H; subst.
  eapply numv_wk; eauto.
Qed.
Lemma operand_domain_val th st t ud : MstF th st -> operand_domain st (wk (st_smap st) t) = Some ud -> exists z, numv th t z /\ mem ud z.
Proof.
  intros [Hs [_ HD]] H. destruct (wk (st_smap st) t) as [[n| | |]|v a| | |] eqn:E; cbn [operand_domain] in H; try discriminate.
  - inversion H; subst. exists n. split; [eapply numv_wk; eauto|cbn; lia].
  - apply find_id_in in H. destruct (HD v ud H) as [z [Hz Mz]]. exists z. split; [|exact Mz].
    unfold numv. rewrite (app_wk_var th _ t v a Hs E). exact Hz.
Qed.
Lemma WFD_dom st t ud : WFD st -> dom_get st (wk (st_smap st) t) = Some ud -> wf' ud.
Proof.
  intros W H. destruct (wk (st_smap st) t) as [|v a| | |]; cbn in H; try discriminate. apply (W v ud). apply find_id_in. exact H.
Qed.
Lemma WFD_opdom st t ud : WFD st -> operand_domain st (wk (st_smap st) t) = Some ud -> wf' ud.
Proof.
  intros W H. destruct (wk (st_smap st) t) as [[n| | |]|v a| | |]; cbn in H; try discriminate.
  - inversion H; subst. exact I.
  - apply (W v ud). apply find_id_in. exact H.
Qed.

Variable rcr : nat -> constraint -> state -> sres.
Hypothesis rcr_FC : forall id c st, WFD st -> sresFC c st (rcr id c st).

Lemma arith3_FC id c st u v w gr a1 a2 a3 a4 a5 a6 : WFD st ->
  (forall th a b r, numv th u a -> numv th v b -> numv th w r -> gr a b r = true -> choldF th c) ->
  sresFC c st (arith3 rcs rcr id c st u v w gr a1 a2 a3 a4 a5 a6).
Proof.
  intros W G. unfold arith3.
  destruct (get_number (wk (st_smap st) u)) as [a|] eqn:Eu, (get_number (wk (st_smap st) v)) as [b|] eqn:Ev,
           (get_number (wk (st_smap st) w)) as [r|] eqn:Ew;
    try (destruct (gr a b r) eqn:Eg; [|exact I]; split; [apply SolF_refl, W|]; intros th [Hs _];
         eapply G; [eapply get_number_numv; eauto|eapply get_number_numv; eauto|eapply get_number_numv; eauto|exact Eg]);
    (destruct (operand_domain st (wk (st_smap st) u)), (operand_domain st (wk (st_smap st) v)),
              (operand_domain st (wk (st_smap st) w)); try (apply wc_FC; exact W);
     apply sbind_FC; [apply process_domain_F; [exact W|exact I]|intros st1 [_ [W1 _]]];
     apply sbind_FC; [apply process_domain_F; [exact W1|exact I]|intros st2 [_ [W2 _]]];
     apply sbind_FC; [apply process_domain_F; [exact W2|exact I]|intros st3 [_ [W3 _]]];
     destruct (Nat.eqb _ _); [apply wc_FC; exact W3|apply rcr_FC; exact W3]).
Qed.

Lemma FC_then c st st1 r : sresFC c st (SOk st1) -> sresF st1 r -> sresFC c st r.
Proof.
  intros [S1 H1] H2. destruct r as [st'| | |]; cbn in *; auto. split; [eapply SolF_trans; eauto|].
  intros th HM. apply H1. eapply MstF_SolF; eauto.
Qed.
Lemma SolF_bump st st' : SolF (bump_nextc st) st' -> SolF st st'.
Proof. intros [E [W H]]. split; [exact E|]. split; [exact W|exact H]. Qed.

Lemma exclude_F ds excl : (forall v d, find_id v ds = Some d -> wf' d) ->
  forall xs st, WFD st -> sresF st (exclude_from_domain rcs ds st xs excl).
Proof.
  intros Hds. induction xs as [|y r IH]; intros st W; cbn [exclude_from_domain]; [apply SolF_refl, W|].
  destruct (match y with TVar v _ => find_id v ds | _ => None end) as [d|] eqn:Ed; [|apply IH, W].
  assert (Wd : wf' d) by (destruct y; try discriminate; eapply Hds; eauto).
  destruct (fd_diff d excl) as [d'|] eqn:E; [|exact I].
  apply sbind_F; [apply process_domain_F; [exact W|apply (diff_sub _ _ _ Wd E)]|]. intros st1 [_ [W1 _]]. apply IH, W1.
Qed.

(* binding a variable and re-running the store *)
Lemma bind_FC c st x t : WFD st ->
  (forall th, th x = app th t -> sat th (st_smap st) -> choldF th c) ->
  sresFC c st (rcs (set_smap st ((x, t) :: st_smap st))).
Proof.
  intros W HP. assert (W1 : WFD (set_smap st ((x, t) :: st_smap st))) by exact W.
  pose proof (rcs_F _ W1) as H. destruct (rcs _) as [st'| | |]; try exact I. cbn in H. destruct H as [E [W' H]].
  assert (E0 : ext st st') by (destruct E as [new E]; exists (new ++ [(x, t)]); rewrite E; cbn; rewrite <- List.app_assoc; reflexivity).
  split; [split; [exact E0|]; split; [exact W'|exact H]|].
  intros th HM. pose proof (ext_sat th _ _ E (proj1 HM)) as Hs1. cbn in Hs1.
  apply HP; [apply (Hs1 x t); left; reflexivity|]. intros y u Hin. apply Hs1. right. exact Hin.
Qed.

Lemma run_constraint_FC id c st : WFD st -> sresFC c st (run_constraint rcs rcr id c st).
Proof.
  intros W.
  destruct c as [ps|u v|u v w|u v w|u v w|u v|u|u ys n|u v w|u v w]; cbn [run_constraint].
  - pose proof (recheck_spec (st_smap st) ps) as R.
    destruct (unify_pairs dfuel (st_smap st) [] ps) as [s' [|e ext0]| |]; try exact I.
    + pose proof (wn_FC st (KDiseq (e :: ext0)) W) as [S H]. split; [exact S|]. intros th HM.
      specialize (H th HM). cbn [choldF] in *. destruct HM as [Hs _]. rewrite with_new_constraint_smap in Hs. apply (R th Hs). exact H.
    + split; [apply SolF_refl, W|]. intros th [Hs _]. cbn [choldF]. apply (R th Hs).
  - destruct (dom_get st (wk (st_smap st) u)) as [ud|] eqn:Du, (dom_get st (wk (st_smap st) v)) as [vd|] eqn:Dv.
    + destruct (fd_copy_before (fun x => zmax vd <? x) ud) as [d1|] eqn:E1; [|exact I]. cbn [opt_domain].
      apply sbind_FC; [apply process_domain_F; [exact W|apply (copy_before_sub _ _ _ (WFD_dom st u ud W Du) E1)]|intros st1 [_ [W1 _]]].
      destruct (fd_drop_before (fun x => zmin ud <=? x) vd) as [d2|] eqn:E2; [|exact I]. cbn [opt_domain].
      apply sbind_FC; [apply process_domain_F; [exact W1|apply (drop_before_sub _ _ _ (WFD_dom st v vd W Dv) E2)]|intros st2 [_ [W2 _]]].
      destruct (Nat.eqb _ _); [apply wc_FC; exact W2|apply rcr_FC; exact W2].
    + destruct (get_number (wk (st_smap st) v)) as [nv|] eqn:Ev; [|apply wc_FC; exact W].
      destruct (fd_copy_before (fun x => nv <? x) ud) as [d1|] eqn:E1; [|exact I]. cbn [opt_domain].
      destruct (copy_before_sub _ _ _ (WFD_dom st u ud W Du) E1) as [Wd1 Hd1].
      pose proof (process_domain_FD st (wk (st_smap st) u) d1 W Wd1) as P.
      destruct (process_domain rcs st (wk (st_smap st) u) d1) as [st'| | |]; try exact I. cbn in P. destruct P as [S P].
      split; [exact S|]. intros th HM. destruct (P th HM) as [z [Hz Mz]].
      pose proof (ext_sat th _ _ (proj1 S) (proj1 HM)) as Hs.
      exists z, nv. split; [eapply numv_same; eauto|]. split; [eapply get_number_numv; eauto|].
      destruct (Hd1 z Mz) as [_ Hp]. apply Z.ltb_ge in Hp. exact Hp.
    + destruct (get_number (wk (st_smap st) u)) as [nu|] eqn:Eu; [|apply wc_FC; exact W].
      destruct (fd_drop_before (fun x => nu <=? x) vd) as [d2|] eqn:E2; [|exact I]. cbn [opt_domain].
      destruct (drop_before_sub _ _ _ (WFD_dom st v vd W Dv) E2) as [Wd2 Hd2].
      pose proof (process_domain_FD st (wk (st_smap st) v) d2 W Wd2) as P.
      destruct (process_domain rcs st (wk (st_smap st) v) d2) as [st'| | |]; try exact I. cbn in P. destruct P as [S P].
      split; [exact S|]. intros th HM. destruct (P th HM) as [z [Hz Mz]].
      pose proof (ext_sat th _ _ (proj1 S) (proj1 HM)) as Hs.
      exists nu, z. split; [eapply get_number_numv; eauto|]. split; [eapply numv_same; eauto|apply (Hd2 z Mz)].
    + destruct (get_number (wk (st_smap st) u)) as [a|] eqn:Eu, (get_number (wk (st_smap st) v)) as [b|] eqn:Ev; try (apply wc_FC; exact W).
      destruct (Z.leb_spec a b); [|exact I]. split; [apply SolF_refl, W|]. intros th [Hs _].
      exists a, b. split; [eapply get_number_numv; eauto|]. split; [eapply get_number_numv; eauto|assumption].
  - apply arith3_FC; [exact W|]. intros th a b r Ha Hb Hr E. apply Z.eqb_eq in E. exists a, b, r. auto.
  - apply arith3_FC; [exact W|]. intros th a b r Ha Hb Hr E. apply Z.eqb_eq in E. exists a, b, r. auto.
  - apply arith3_FC; [exact W|]. intros th a b r Ha Hb Hr E. apply Z.eqb_eq in E. exists a, b, r. auto.
  - (* diseqfd *)
    destruct (operand_domain st (wk (st_smap st) u)) as [ud|] eqn:Du, (operand_domain st (wk (st_smap st) v)) as [vd|] eqn:Dv;
      try (apply wc_FC; exact W).
    pose proof (WFD_opdom st u ud W Du) as Wu. pose proof (WFD_opdom st v vd W Dv) as Wv.
    destruct (fd_is_singleton ud && fd_is_singleton vd) eqn:Es.
    + apply andb_prop in Es. destruct Es as [Su Sv]. destruct (Z.eqb_spec (zmin ud) (zmin vd)) as [Eq|Ne]; [exact I|].
      split; [apply SolF_refl, W|]. intros th HM.
      destruct (operand_domain_val th st u ud HM Du) as [a [Ha Ma]]. destruct (operand_domain_val th st v vd HM Dv) as [b [Hb Mb]].
      exists a, b. split; [exact Ha|]. split; [exact Hb|]. rewrite (singleton_only _ _ Su Ma), (singleton_only _ _ Sv Mb). exact Ne.
    + assert (K : forall r, sresF (with_constraint_id st id (KDiseqFd u v)) r -> sresFC (KDiseqFd u v) st r)
        by (intros r; apply FC_then; apply wc_FC; exact W).
      assert (W1 : WFD (with_constraint_id st id (KDiseqFd u v))) by (apply (SolF_wc st id _ W)).
      assert (Drop : sresFC (KDiseqFd u v) st
                (if fd_is_singleton ud then opt_domain (fd_diff vd ud) (fun d => process_domain rcs (with_constraint_id st id (KDiseqFd u v)) (wk (st_smap st) v) d)
                 else if fd_is_singleton vd then opt_domain (fd_diff ud vd) (fun d => process_domain rcs (with_constraint_id st id (KDiseqFd u v)) (wk (st_smap st) u) d)
                 else SOk (with_constraint_id st id (KDiseqFd u v)))).
      { destruct (fd_is_singleton ud).
        - destruct (fd_diff vd ud) as [d|] eqn:Ed; [|exact I]. cbn [opt_domain]. apply K. apply process_domain_F; [exact W1|apply (diff_sub _ _ _ Wv Ed)].
        - destruct (fd_is_singleton vd).
          + destruct (fd_diff ud vd) as [d|] eqn:Ed; [|exact I]. cbn [opt_domain]. apply K. apply process_domain_F; [exact W1|apply (diff_sub _ _ _ Wu Ed)].
          + apply wc_FC; exact W. }
      destruct (fd_is_disjoint ud vd) as [[|]|] eqn:Edj; try exact Drop.
      split; [apply SolF_refl, W|]. intros th HM.
      destruct (operand_domain_val th st u ud HM Du) as [a [Ha Ma]]. destruct (operand_domain_val th st v vd HM Dv) as [b [Hb Mb]].
      exists a, b. split; [exact Ha|]. split; [exact Hb|]. intros ->. apply (disjoint_sub ud vd Wu Wv Edj b Ma Mb).
  - (* distinctfd: a new object, run at once; its claim gives the claim on the list *)
    destruct (wk (st_smap st) u) as [l|xv xa| |h t|g cs] eqn:Eu; try exact I;
      try (pose proof (wc_FC st id (KDistinct u) W) as H; exact H).
    + (* the empty list *)
      cbn [list_of_term filter forallb flat_map isort strictly_increasing].
      pose proof (rcr_FC (st_nextc st) (KDistinct2 u [] []) (bump_nextc st) W) as H.
      destruct (rcr _ _ (bump_nextc st)) as [st'| | |]; try exact I. cbn [sresFC] in *. destruct H as [S _].
      split; [apply SolF_bump, S|]. intros th HM. exists []. split; [|constructor].
      assert (Hs : sat th (st_smap st)) by (eapply ext_sat; [apply S|apply HM]).
      rewrite <- (wk_sat th _ u Hs), Eu. reflexivity.
    + set (elems := list_of_term (TCons h t)).
      destruct (forallb _ (filter (fun t0 => negb (is_var t0)) elems)) eqn:Ef; [|exact I].
      destruct (strictly_increasing _); [|exact I].
      match goal with |- sresFC _ _ (rcr ?i ?cc _) => pose proof (rcr_FC i cc (bump_nextc st) W) as H; destruct (rcr i cc (bump_nextc st)) as [st'| | |]; try exact I end.
      cbn [sresFC] in *. destruct H as [S HC]. split; [apply SolF_bump, S|]. intros th HM.
      destruct (HC th HM) as [zs [Hz Hn]].
      assert (Hs : sat th (st_smap st)) by (eapply ext_sat; [apply S|apply HM]).
      destruct (split_vals th elems zs Hz Ef) as [vals [A B]].
      exists vals. split.
      * rewrite <- (wk_sat th _ u Hs), Eu. apply list_of_term_app. exact A.
      * eapply Permutation_NoDup; [|exact Hn]. apply Permutation_sym. eapply perm_trans; [exact B|].
        apply Permutation_app_head. apply Permutation_sym, isort_perm.
  - (* the running distinct object: variables still unbound stay, newly bound values join the seen set *)
    match goal with |- sresFC _ _ (match ?F ys [] n with _ => _ end) => set (step := F) end.
    assert (SP : forall th, sat th (st_smap st) -> forall ys0 x0 n0 x' n',
              step ys0 x0 n0 = inl (Some (Some (x', n'))) ->
              forall zs', Forall2 (numv th) x' zs' ->
              exists zsy zsx, Forall2 (numv th) ys0 zsy /\ Forall2 (numv th) (rev x0) zsx /\ Permutation (zs' ++ n') (zsy ++ zsx ++ n0)).
    { intros th Hs. induction ys0 as [|y r IH]; intros x0 n0 x' n' E zs' Hz; cbn [step] in E.
      - inversion E; subst. exists [], zs'. split; [constructor|]. split; [exact Hz|apply Permutation_refl].
      - destruct (wk (st_smap st) y) as [[z| | |]|yv ya| | |] eqn:Ey; try discriminate.
        + destruct (insert_sorted_nodup z n0) as [n1|] eqn:Ei; [|discriminate].
          destruct (IH x0 n1 x' n' E zs' Hz) as [zsy [zsx [A [B C]]]].
          exists (z :: zsy), zsx. split; [constructor; [eapply numv_wk; eauto|exact A]|]. split; [exact B|].
          eapply perm_trans; [exact C|]. cbn [List.app].
          eapply perm_trans; [apply Permutation_app_head, Permutation_app_head, (insert_nodup_perm _ _ _ Ei)|].
          rewrite !List.app_assoc. apply Permutation_sym, Permutation_cons_app. rewrite <- !List.app_assoc. apply Permutation_refl.
        + destruct (IH (y :: x0) n0 x' n' E zs' Hz) as [zsy [zsx [A [B C]]]].
          cbn [rev] in B. apply Forall2_app_inv_l in B as [zsx1 [zy1 [B1 [B2 ->]]]].
          inversion B2 as [|? zy ? ? Hzy Hnil]; subst. inversion Hnil; subst.
          exists (zy :: zsy), zsx1. split; [constructor; assumption|]. split; [exact B1|].
          eapply perm_trans; [exact C|]. cbn [List.app]. rewrite <- !List.app_assoc. cbn [List.app].
          apply Permutation_sym. eapply perm_trans; [apply Permutation_middle|]. apply Permutation_app_head.
          apply Permutation_middle. }
    destruct (step ys [] n) as [[[[x n']|]|]|site] eqn:Est; try exact I.
    pose proof (wn_FC st (KDistinct2 u x n') W) as H1.
    assert (Fin : forall r, sresF (with_new_constraint st (KDistinct2 u x n')) r -> sresFC (KDistinct2 u ys n) st r).
    { intros r Hr. destruct r as [st'| | |]; try exact I. cbn [sresF sresFC] in *. destruct H1 as [S1 C1].
      split; [eapply SolF_trans; eauto|]. intros th HM.
      pose proof (MstF_SolF th _ _ Hr HM) as HM1. destruct (C1 th HM1) as [zs' [Hz Hn]].
      assert (Hs : sat th (st_smap st)) by (eapply ext_sat; [apply S1|apply HM1]).
      destruct (SP th Hs ys [] n x n' Est zs' Hz) as [zsy [zsx [A [B C]]]]. cbn [rev] in B. inversion B; subst.
      exists zsy. split; [exact A|]. eapply Permutation_NoDup; [exact C|exact Hn]. }
    destruct n' as [|z n']; [apply Fin, SolF_refl, H1|].
    destruct (fd_from_vec (z :: n')) as [excl|]; [|exact I].
    assert (W1 : WFD (with_new_constraint st (KDistinct2 u x (z :: n')))) by apply H1.
    apply Fin. apply (exclude_F (st_dstore (with_new_constraint st (KDistinct2 u x (z :: n')))) excl
                  (fun v d Hf => W1 v d (find_id_in _ _ _ Hf)) x _ W1).
  - (* plusz *)
    destruct (wk (st_smap st) u) as [[na|bu|cu|su]|xu au| | |] eqn:Eu, (wk (st_smap st) v) as [[nb|bv|cv|sv]|xv av| | |] eqn:Ev,
             (wk (st_smap st) w) as [[nr|bw|cw|sw]|xw aw| | |] eqn:Ew; try exact I; try (apply wc_FC; exact W).
    + destruct (Z.eqb_spec (na + nb) nr); [|exact I]. split; [apply SolF_refl, W|]. intros th [Hs _].
      exists na, nb, nr. split; [eapply numv_wk; [exact Hs|exact Eu]|]. split; [eapply numv_wk; [exact Hs|exact Ev]|].
      split; [eapply numv_wk; [exact Hs|exact Ew]|assumption].
    + apply bind_FC; [exact W|]. intros th Hx Hs. exists na, nb, (na + nb)%Z.
      split; [eapply numv_wk; [exact Hs|exact Eu]|]. split; [eapply numv_wk; [exact Hs|exact Ev]|]. split; [|reflexivity].
      unfold numv. rewrite (app_wk_var th _ w xw aw Hs Ew). exact Hx.
    + apply bind_FC; [exact W|]. intros th Hx Hs. exists na, (nr - na)%Z, nr.
      split; [eapply numv_wk; [exact Hs|exact Eu]|]. split; [|split; [eapply numv_wk; [exact Hs|exact Ew]|lia]].
      unfold numv. rewrite (app_wk_var th _ v xv av Hs Ev). exact Hx.
    + apply bind_FC; [exact W|]. intros th Hx Hs. exists (nr - nb)%Z, nb, nr.
      split; [|split; [eapply numv_wk; [exact Hs|exact Ev]|split; [eapply numv_wk; [exact Hs|exact Ew]|lia]]].
      unfold numv. rewrite (app_wk_var th _ u xu au Hs Eu). exact Hx.
  - (* timesz *)
    destruct (wk (st_smap st) u) as [[na|bu|cu|su]|xu au| | |] eqn:Eu, (wk (st_smap st) v) as [[nb|bv|cv|sv]|xv av| | |] eqn:Ev,
             (wk (st_smap st) w) as [[nr|bw|cw|sw]|xw aw| | |] eqn:Ew; try exact I; try (apply wc_FC; exact W).
    + destruct (Z.eqb_spec (na * nb) nr); [|exact I]. split; [apply SolF_refl, W|]. intros th [Hs _].
      exists na, nb, nr. split; [eapply numv_wk; [exact Hs|exact Eu]|]. split; [eapply numv_wk; [exact Hs|exact Ev]|].
      split; [eapply numv_wk; [exact Hs|exact Ew]|assumption].
    + apply bind_FC; [exact W|]. intros th Hx Hs. exists na, nb, (na * nb)%Z.
      split; [eapply numv_wk; [exact Hs|exact Eu]|]. split; [eapply numv_wk; [exact Hs|exact Ev]|]. split; [|reflexivity].
      unfold numv. rewrite (app_wk_var th _ w xw aw Hs Ew). exact Hx.
    + destruct (Z.eqb_spec na 0); [destruct (Z.eqb_spec nr 0); [apply wc_FC; exact W|exact I]|].
      destruct (Z.eqb_spec (Z.rem nr na) 0) as [Er|]; [|exact I].
      apply bind_FC; [exact W|]. intros th Hx Hs. exists na, (Z.quot nr na), nr.
      split; [eapply numv_wk; [exact Hs|exact Eu]|]. split; [|split; [eapply numv_wk; [exact Hs|exact Ew]|]].
      * unfold numv. rewrite (app_wk_var th _ v xv av Hs Ev). exact Hx.
      * pose proof (Z.quot_rem' nr na). lia.
    + destruct (Z.eqb_spec nb 0); [destruct (Z.eqb_spec nr 0); [apply wc_FC; exact W|exact I]|].
      destruct (Z.eqb_spec (Z.rem nr nb) 0) as [Er|]; [|exact I].
      apply bind_FC; [exact W|]. intros th Hx Hs. exists (Z.quot nr nb), nb, nr.
      split; [|split; [eapply numv_wk; [exact Hs|exact Ev]|split; [eapply numv_wk; [exact Hs|exact Ew]|]]].
      * unfold numv. rewrite (app_wk_var th _ u xu au Hs Eu). exact Hx.
      * pose proof (Z.quot_rem' nr nb). lia.
Qed.
End Fuelled.

Lemma take_holdsF th st id st1 c : take_constraint st id = (st1, Some c) ->
  st_smap st1 = st_smap st /\ st_dstore st1 = st_dstore st /\
  (storeF th (st_cstore st1) -> choldF th c -> storeF th (st_cstore st)).
Proof.
  unfold take_constraint. destruct (find_id id (st_cstore st)) as [c'|] eqn:E; [|discriminate].
  intros H. inversion H; subst. split; [reflexivity|]. split; [reflexivity|]. cbn [log_event set_cstore st_cstore].
  intros H1 H2 i cc Hin. destruct (remove_find_in _ _ _ _ E Hin) as [Hx|Hx].
  - inversion Hx; subst. exact H2.
  - apply (H1 i cc Hx).
Qed.

Lemma run_constraints_F : forall f st, WFD st -> sresF st (run_constraints f st).
Proof.
  induction f as [|f IH]; intros st W; [exact I|]. cbn [run_constraints].
  set (rc := fix rc (g id : nat) (c : constraint) (st0 : state) {struct g} : sres :=
               match g with O => SOOF | S g' => run_constraint (run_constraints f) (rc g') id c st0 end).
  assert (RC : forall g id c st0, WFD st0 -> sresFC c st0 (rc g id c st0)).
  { induction g as [|g IHg]; intros id c st0 W0; [exact I|]. cbn [rc]. apply run_constraint_FC; auto. }
  generalize (map fst (st_cstore st)). intros ids. revert st W.
  induction ids as [|id r IHr]; intros st W; [apply SolF_refl, W|].
  destruct (take_constraint st id) as [st1 [c|]] eqn:ET.
  - destruct (take_holdsF (fun _ => TEmpty) _ _ _ _ ET) as [Es [Ed _]].
    assert (W1 : WFD st1) by (intros x d; rewrite Ed; apply W).
    pose proof (RC f id c st1 W1) as H2. destruct (rc f id c st1) as [st2| | |]; cbn [sbind sresF]; auto.
    destruct H2 as [[E2 [W2 H2]] HC]. specialize (IHr st2 W2).
    match goal with |- sresF _ ?X => destruct X as [st3| | |] end; cbn in *; auto.
    destruct IHr as [E3 [W3 H3]]. split; [eapply ext_trans; [eapply ext_same; [exact Es|exact E2]|exact E3]|]. split; [exact W3|].
    intros th HM. pose proof (MstF_SolF th st2 st3 (conj E3 (conj W3 H3)) HM) as HM2.
    destruct (H2 th HM2) as [A B]. destruct (take_holdsF th _ _ _ _ ET) as [_ [_ T]].
    split; [apply T; [exact A|apply HC, HM2]|]. rewrite <- Ed. exact B.
  - unfold take_constraint in ET. destruct (find_id id (st_cstore st)); [discriminate|]. inversion ET; subst. apply IHr, W.
Qed.

Lemma run_constraint_top_FC : forall g f id c st, WFD st -> sresFC c st (run_constraint_top g f id c st).
Proof.
  induction g as [|g IH]; intros f id c st W; [exact I|]. cbn [run_constraint_top].
  apply run_constraint_FC; [apply run_constraints_F|intros; apply IH; assumption|exact W].
Qed.

(* posting a constraint: every solution of the result solves the original state and satisfies the constraint *)
Theorem post_constraint_FC c st : WFD st -> sresFC c st (post_constraint c st).
Proof.
  intros W. unfold post_constraint. pose proof (run_constraint_top_FC cfuel cfuel (st_nextc st) c (bump_nextc st) W) as H.
  destruct (run_constraint_top _ _ _ c (bump_nextc st)); cbn in *; auto.
Qed.
(* posting a domain *)
Theorem post_domain_FD x d st : WFD st -> wf' d -> sresFD st x d (post_domain x d st).
Proof.
  intros W Wd. unfold post_domain. pose proof (process_domain_FD (run_constraints cfuel) (run_constraints_F cfuel) st (wk (st_smap st) x) d W Wd) as H.
  destruct (process_domain _ st _ d) as [st'| | |]; cbn in *; auto. destruct H as [S H]. split; [exact S|].
  intros th HM. destruct (H th HM) as [z [Hz Mz]]. exists z. split; [|exact Mz].
  eapply numv_same; [|exact Hz]. eapply ext_sat; [apply S|apply HM].
Qed.

(* the domains of a state built from well-formed posted domains are well-formed: the empty state is, and
   every operation above preserves it (second component of SolF) *)
Lemma WFD_empty n : WFD (empty_state n).
Proof. intros x d []. Qed.
