(* The domain store under the state operations (used by the == path of CLP(FD), C16/C17):
   from an acyclic substitution, posting a domain, re-running the constraint store and every
   propagator keep it acyclic, only extend the
   substitution, and never touch the domain entry of a variable that is already bound - domains are
   only ever inserted for, narrowed on or removed from walked (hence unbound) variables.
   Instance of the generic pass (GenPass). *)
From Coq Require Import List ZArith Bool Arith Lia.
From PV Require Import Model.Term Model.Subst Model.Unify Model.FD Model.State Model.Engine
  Proofs.UnifyProofs Proofs.MonoProofs Proofs.Acyc Proofs.GenPass Proofs.AcycState Proofs.FDDen.
Import ListNotations.

Definition frame (a b : state) : Prop :=
  forall x, lookup x (st_smap a) <> None -> find_id x (st_dstore b) = find_id x (st_dstore a).
Definition FR (a b : state) : Prop :=
  ext a b /\ (acyc (st_smap a) -> acyc (st_smap b) /\ frame a b).

Lemma find_remove_other {A} x v (l : list (nat * A)) : x <> v -> find_id x (remove_id v l) = find_id x l.
Proof.
  intros N. induction l as [|[i a] r IH]; cbn [remove_id find_id]; [reflexivity|].
  destruct (Nat.eqb_spec i v) as [E|E].
  - subst i. destruct (Nat.eqb_spec v x); [congruence|reflexivity].
  - cbn [find_id]. rewrite IH. reflexivity.
Qed.
Lemma keys_remove {A} v (l : list (nat * A)) y : In y (map fst (remove_id v l)) -> In y (map fst l).
Proof.
  induction l as [|[i a] r IH]; cbn [remove_id map fst]; [auto|]. destruct (Nat.eqb i v); cbn [map fst In]; [auto|].
  intros [H|H]; [left; exact H|right; apply IH, H].
Qed.
Lemma keys_remove_nodup {A} v (l : list (nat * A)) : NoDup (map fst l) -> NoDup (map fst (remove_id v l)) /\ ~ In v (map fst (remove_id v l)).
Proof.
  induction l as [|[i a] r IH]; cbn [remove_id map fst]; intros H; [split; [constructor|intros []]|].
  inversion H as [|? ? Hni Hr]; subst. destruct (Nat.eqb_spec i v) as [E|E].
  - subst i. split; assumption.
  - destruct (IH Hr) as [A1 A2]. cbn [map fst]. split.
    + constructor; [|exact A1]. intros Hin. apply Hni. eapply keys_remove; eauto.
    + intros [H1|H1]; [congruence|contradiction].
Qed.
Lemma in_find_nodup {A} x (d : A) l : NoDup (map fst l) -> In (x, d) l -> find_id x l = Some d.
Proof.
  induction l as [|[i a] r IH]; cbn [map fst find_id]; intros H Hin; [destruct Hin|].
  inversion H as [|? ? Hni Hr]; subst. destruct Hin as [Hin|Hin].
  - inversion Hin; subst. rewrite Nat.eqb_refl. reflexivity.
  - destruct (Nat.eqb_spec i x) as [E|E]; [|apply IH; assumption].
    subst i. exfalso. apply Hni. apply in_map_iff. exists (x, d). split; [reflexivity|exact Hin].
Qed.
Lemma lookup_app_some x new s : lookup x s <> None -> lookup x (new ++ s) <> None.
Proof.
  induction new as [|[y t] r IH]; cbn [List.app lookup]; [auto|]. intros H. destruct (Nat.eqb y x); [discriminate|apply IH, H].
Qed.
Lemma in_lookup x t s : In (x, t) s -> lookup x s <> None.
Proof.
  induction s as [|[y u] r IH]; cbn [lookup]; [intros []|]. intros [H|H].
  - inversion H; subst. rewrite Nat.eqb_refl. discriminate.
  - destruct (Nat.eqb y x); [discriminate|apply IH, H].
Qed.

Lemma FR_refl st : FR st st.
Proof. split; [apply ext_refl|]. intros A. split; [exact A|]. intros x _. reflexivity. Qed.
Lemma FR_trans a b c : FR a b -> FR b c -> FR a c.
Proof.
  intros [E1 H1] [E2 H2]. split; [eapply ext_trans; eauto|]. intros A.
  destruct (H1 A) as [A1 F1]. destruct (H2 A1) as [A2 F2]. split; [exact A2|].
  intros x Hx. rewrite F2; [apply F1, Hx|]. destruct E1 as [new E]. rewrite E. apply lookup_app_some, Hx.
Qed.
Lemma FR_same a b : st_smap b = st_smap a -> st_dstore b = st_dstore a -> FR a b.
Proof.
  intros Es Ed. split; [exists []; rewrite Es; reflexivity|]. unfold frame. rewrite Es, Ed. intros A.
  split; [exact A|]. intros; reflexivity.
Qed.
Lemma take_constraint_dstore st id : st_dstore (fst (take_constraint st id)) = st_dstore st.
Proof. unfold take_constraint. destruct (find_id id (st_cstore st)); reflexivity. Qed.
Lemma FR_wc st id c : FR st (with_constraint_id st id c).
Proof. apply FR_same; [apply with_constraint_id_smap|apply with_constraint_id_dstore]. Qed.
Lemma FR_take st id : FR st (fst (take_constraint st id)).
Proof. apply FR_same; [apply take_constraint_smap|apply take_constraint_dstore]. Qed.
Lemma FR_ins st x v a d : wk (st_smap st) x = TVar v a -> FR st (dom_insert st v d).
Proof.
  intros E. split; [exists []; reflexivity|]. intros A. split; [exact A|].
  - intros y Hy. cbn. destruct (Nat.eqb_spec v y) as [Ey|Ey].
    + subst y. exfalso. apply Hy. eapply wk_var_unbound; eauto.
    + apply find_remove_other. congruence.
Qed.
Lemma FR_bind st x v a n : wk (st_smap st) x = TVar v a -> FR st (dom_remove (set_smap st ((v, tnum n) :: st_smap st)) v).
Proof.
  intros E. split; [exists [(v, tnum n)]; reflexivity|]. intros A. split; [cbn; eapply acyc_bind_num; eauto|].
  - intros y Hy. cbn. apply find_remove_other. intros ->. apply Hy. eapply wk_var_unbound; eauto.
Qed.
Lemma FR_bindz st x v a n : wk (st_smap st) x = TVar v a -> FR st (set_smap st ((v, tnum n) :: st_smap st)).
Proof.
  intros E. split; [exists [(v, tnum n)]; reflexivity|]. intros A. split; [cbn; eapply acyc_bind_num; eauto|].
  intros y _. reflexivity.
Qed.

Lemma run_constraints_FR f st : sresR FR st (run_constraints f st).
Proof. apply (run_constraints_R FR FR_refl FR_trans FR_wc (fun st => FR_same st _ eq_refl eq_refl) FR_take FR_ins FR_bind FR_bindz). Qed.
Lemma process_domain_FR st x d : sresR FR st (process_domain (run_constraints cfuel) st x d).
Proof. apply (process_domain_R FR FR_refl FR_trans FR_ins FR_bind). apply run_constraints_FR. Qed.
Lemma post_constraint_FR c st : sresR FR st (post_constraint c st).
Proof. apply (post_constraint_R FR FR_refl FR_trans FR_wc (fun st => FR_same st _ eq_refl eq_refl) FR_take FR_ins FR_bind FR_bindz). Qed.

(* the keys of an acyclic substitution are pairwise different *)
Lemma acyc_keys s : acyc s -> NoDup (map fst s).
Proof.
  induction 1 as [|x t s A IH Hx _ _]; cbn [map fst]; constructor; [|exact IH].
  intros Hin. apply in_map_iff in Hin as [[y u] [E Hin]]. cbn in E. subst y. apply (in_lookup x u s Hin). exact Hx.
Qed.
