(* Which panics are reachable at all (C23).
   Every panic!/assert!/unwrap site of the modelled code is an explicit outcome of the model
   (SPanic site / SErr false site).  This file proves, for ALL goals, states, definitions and fuel,
   that the only sites any execution can reach are the documented ill-formedness assertions:
     1,2,3  distinctfd given something that is not a list of variables and integers
     1      (engine level) a call of a relation that is not defined (not expressible in Rust)
     10     an FD relation constructed with an operand that is neither a variable nor an integer
     20     labeling with an FD-constrained variable that has no domain
     22     assert!(kwalk.is_var()) in DisequalityConstraint::walk_star  -- excluded in DiseqKeyProofs
   In particular the sites of exclude_from_domain (4), update_var_domain (5), timesz division (6) and
   the second visit of a project goal (21) are unreachable. *)
From Coq Require Import List ZArith Bool Arith Lia.
From PV Require Import Model.Term Model.Subst Model.Unify Model.FD Model.State Model.Engine.
Import ListNotations.

Definition allowedS (site : nat) : Prop := site = 1 \/ site = 2 \/ site = 3.
Definition allowed (site : nat) : Prop := allowedS site \/ site = 10 \/ site = 20 \/ site = 22.

Definition okr (r : sres) : Prop := match r with SPanic s => allowedS s | _ => True end.

Lemma sbind_okr r k : okr r -> (forall st, okr (k st)) -> okr (sbind r k).
Proof. destruct r; cbn; auto. Qed.
Lemma opt_domain_okr o k : (forall d, okr (k d)) -> okr (opt_domain o k).
Proof. destruct o; cbn; auto. Qed.

Section Fuelled.
Variable rcs : state -> sres.
Hypothesis rcs_ok : forall st, okr (rcs st).

Lemma resolve_okr st x xt d : okr (resolve_storable_domain rcs st x xt d).
Proof. unfold resolve_storable_domain. destruct (fd_singleton_value d); cbn; auto. Qed.
Lemma update_okr st x xt d : okr (update_var_domain rcs st x xt d).
Proof.
  unfold update_var_domain. destruct (find_id x (st_dstore st)); [|apply resolve_okr].
  destruct (fd_intersect f d); [apply resolve_okr|exact I].
Qed.
Lemma process_domain_okr st x d : okr (process_domain rcs st x d).
Proof.
  unfold process_domain. destruct (wk (st_smap st) x) as [l| | | |]; try exact I.
  - destruct l; try exact I. match goal with |- okr (if ?b then _ else _) => destruct b end; exact I.
  - apply update_okr.
Qed.
Lemma exclude_okr ds xs excl : forall st, okr (exclude_from_domain rcs ds st xs excl).
Proof.
  induction xs as [|y r IH]; intros st; cbn [exclude_from_domain]; [exact I|].
  destruct (match y with TVar v _ => find_id v ds | _ => None end); [|apply IH].
  destruct (fd_diff f excl); [|exact I]. apply sbind_okr; [apply process_domain_okr|intros; apply IH].
Qed.

Variable rcr : nat -> constraint -> state -> sres.
Hypothesis rcr_ok : forall id c st, okr (rcr id c st).

Lemma arith3_okr id c st u v w gr wlo whi ulo uhi vlo vhi :
  okr (arith3 rcs rcr id c st u v w gr wlo whi ulo uhi vlo vhi).
Proof.
  unfold arith3.
  destruct (get_number (wk (st_smap st) u)), (get_number (wk (st_smap st) v)), (get_number (wk (st_smap st) w));
    try (match goal with |- okr (if ?b then _ else _) => destruct b; exact I end);
    (destruct (operand_domain st (wk (st_smap st) u)), (operand_domain st (wk (st_smap st) v)),
              (operand_domain st (wk (st_smap st) w)); try exact I;
     apply sbind_okr; [apply process_domain_okr|intros st1];
     apply sbind_okr; [apply process_domain_okr|intros st2];
     apply sbind_okr; [apply process_domain_okr|intros st3];
     destruct (Nat.eqb _ _); [exact I|apply rcr_ok]).
Qed.

Lemma fd_from_vec_some n : n <> [] -> exists d, fd_from_vec n = Some d.
Proof. destruct n; [congruence|]. intros _. eexists; reflexivity. Qed.

Lemma run_constraint_okr id c st : okr (run_constraint rcs rcr id c st).
Proof.
  destruct c as [ps|u v|u v w|u v w|u v w|u v|u|u ys n|u v w|u v w]; cbn [run_constraint].
  - destruct (unify_pairs dfuel (st_smap st) [] ps) as [s' [|e ext]| |]; exact I.
  - destruct (dom_get st (wk (st_smap st) u)), (dom_get st (wk (st_smap st) v)).
    + apply opt_domain_okr; intros d1. apply sbind_okr; [apply process_domain_okr|intros st1].
      apply opt_domain_okr; intros d2. apply sbind_okr; [apply process_domain_okr|intros st2].
      destruct (Nat.eqb _ _); [exact I|apply rcr_ok].
    + destruct (get_number (wk (st_smap st) v)); [|exact I]. apply opt_domain_okr; intros; apply process_domain_okr.
    + destruct (get_number (wk (st_smap st) u)); [|exact I]. apply opt_domain_okr; intros; apply process_domain_okr.
    + destruct (get_number (wk (st_smap st) u)), (get_number (wk (st_smap st) v)); try exact I.
      destruct (Z.leb z z0); exact I.
  - apply arith3_okr.
  - apply arith3_okr.
  - apply arith3_okr.
  - destruct (operand_domain st (wk (st_smap st) u)), (operand_domain st (wk (st_smap st) v)); try exact I.
    destruct (fd_is_singleton f && fd_is_singleton f0).
    + destruct (Z.eqb _ _); exact I.
    + destruct (fd_is_disjoint f f0) as [[|]|]; try exact I;
        (destruct (fd_is_singleton f); [apply opt_domain_okr; intros; apply process_domain_okr|];
         destruct (fd_is_singleton f0); [apply opt_domain_okr; intros; apply process_domain_okr|exact I]).
  - destruct (wk (st_smap st) u) as [l| | | |]; try (right; right; reflexivity); try exact I.
    + destruct (forallb _ _); [|left; reflexivity]. destruct (strictly_increasing _); [apply rcr_ok|exact I].
    + destruct (forallb _ _); [|left; reflexivity]. destruct (strictly_increasing _); [apply rcr_ok|exact I].
  - match goal with |- okr (match ?X with _ => _ end) => destruct X as [[[[x n']|]|]|site] eqn:E end; try exact I.
    + destruct n' as [|z n']; [exact I|].
      destruct (fd_from_vec_some (z :: n')) as [d Hd]; [discriminate|]. rewrite Hd. apply exclude_okr.
    + (* the only sites the element loop returns are 1 and 2 *)
      revert E. generalize (@nil term). generalize n.
      induction ys as [|y r IH]; intros n0 x0 E; [discriminate|].
      cbn -[wk insert_sorted_nodup] in E. destruct (wk (st_smap st) y) as [l| | | |].
      * destruct l as [z| | |]; try (injection E as <-; left; reflexivity).
        destruct (insert_sorted_nodup z n0); [eapply IH; exact E|discriminate].
      * eapply IH; exact E.
      * injection E as <-. right; left; reflexivity.
      * injection E as <-. right; left; reflexivity.
      * injection E as <-. right; left; reflexivity.
  - destruct (wk (st_smap st) u) as [[]| | | |], (wk (st_smap st) v) as [[]| | | |], (wk (st_smap st) w) as [[]| | | |];
      try exact I; try apply rcs_ok; destruct (Z.eqb _ _); exact I.
  - destruct (wk (st_smap st) u) as [[]| | | |], (wk (st_smap st) v) as [[]| | | |], (wk (st_smap st) w) as [[]| | | |];
      try exact I; try apply rcs_ok;
      repeat match goal with |- okr (if ?b then _ else _) => destruct b end; try exact I; apply rcs_ok.
Qed.
End Fuelled.

Lemma run_constraints_okr f : forall st, okr (run_constraints f st).
Proof.
  induction f as [|f IH]; intros st; [exact I|]. cbn [run_constraints].
  set (rc := fix rc (g id : nat) (c : constraint) (st : state) {struct g} : sres :=
        match g with O => SOOF | S g' => run_constraint (run_constraints f) (rc g') id c st end).
  assert (Hrc : forall g id c st, okr (rc g id c st)).
  { induction g as [|g IHg]; intros; [exact I|]. cbn [rc]. apply run_constraint_okr; auto. }
  generalize (map fst (st_cstore st)). intros ids. revert st.
  induction ids as [|id r IHr]; intros st; [exact I|].
  destruct (take_constraint st id) as [st1 [c|]]; [|apply IHr].
  apply sbind_okr; [apply Hrc|apply IHr].
Qed.

Lemma run_constraint_top_okr g f : forall id c st, okr (run_constraint_top g f id c st).
Proof.
  induction g as [|g IH]; intros; [exact I|]. cbn [run_constraint_top].
  apply run_constraint_okr; [apply run_constraints_okr|apply IH].
Qed.
Lemma post_constraint_okr c st : okr (post_constraint c st).
Proof. apply run_constraint_top_okr. Qed.
Lemma post_domain_okr x d st : okr (post_domain x d st).
Proof. apply process_domain_okr. apply run_constraints_okr. Qed.
Lemma process_extension_okr ds ext : forall st, okr (process_extension_fd ds ext st).
Proof.
  induction ext as [|[x v] r IH]; intros st; [exact I|]. cbn [process_extension_fd].
  destruct (find_id x ds); [|apply IH].
  apply sbind_okr; [apply process_domain_okr, run_constraints_okr|intros st1].
  destruct (find_id x (st_dstore st1)); [|exact I].
  apply sbind_okr; [apply run_constraints_okr|apply IH].
Qed.
Lemma state_unify_okr st u v : okr (state_unify st u v).
Proof.
  unfold state_unify. destruct (unify dfuel (st_smap st) [] u v); try exact I.
  apply sbind_okr; [apply run_constraints_okr|intros st2].
  apply sbind_okr; [apply process_extension_okr|intros; exact I].
Qed.
Lemma state_disunify_okr st u v : okr (state_disunify st u v).
Proof. unfold state_disunify. destruct (unify dfuel (st_smap st) [] u v) as [s' [|e ext]| |]; exact I. Qed.

(* ------------------------------------------------------------------ goals *)
(* goal objects only ever contain the panic goals that goal construction puts there: 0 (construction
   diverges; an out-of-fuel outcome), 1 (undefined relation) and 10 (FD operand kind assertion) *)
Fixpoint cg_ok (g : cgoal) : Prop :=
  match g with
  | CConj _ a b => cg_ok a /\ cg_ok b
  | CConde _ gs => (fix all (l : list cgoal) : Prop := match l with [] => True | c :: r => cg_ok c /\ all r end) gs
  | CFresh _ a | CAnyo a => cg_ok a
  | CConda a b c | CCondu a b c => cg_ok a /\ cg_ok b /\ cg_ok c
  | CPanicG s => s = 0 \/ s = 1 \/ s = 10
  | _ => True
  end.
Lemma cg_ok_conde k gs : cg_ok (CConde k gs) <-> Forall cg_ok gs.
Proof.
  cbn [cg_ok]. induction gs as [|c r IH]; [split; auto|].
  split; [intros [H1 H2]; constructor; [exact H1|apply IH, H2]|intros H; inversion H; subst; split; [assumption|apply IH; assumption]].
Qed.
Lemma conj_new_ok k a b : cg_ok a -> cg_ok b -> cg_ok (conj_new k a b).
Proof. intros Ha Hb. unfold conj_new. destruct (is_succeed a && is_succeed b); [exact I|]. destruct (is_fail a || is_fail b); [exact I|]. split; assumption. Qed.
Lemma from_array_ok k cs : Forall cg_ok cs -> cg_ok (from_array k cs).
Proof. induction 1; cbn; [exact I|]. apply conj_new_ok; assumption. Qed.
Lemma from_conjs_ok k css : Forall (Forall cg_ok) css -> cg_ok (from_conjs k css).
Proof. unfold from_conjs. induction 1; cbn; [exact I|]. apply conj_new_ok; [apply from_array_ok; assumption|assumption]. Qed.
Lemma from_iter_ok k cs : Forall cg_ok cs -> cg_ok (from_iter k cs).
Proof.
  unfold from_iter. generalize CSucceed (I : cg_ok CSucceed). induction cs as [|c r IH]; intros acc Ha H; [exact Ha|].
  inversion H; subst. cbn [fold_left]. apply IH; [apply conj_new_ok; assumption|assumption].
Qed.
Lemma conde_from_ok k css : Forall (Forall cg_ok) css -> cg_ok (conde_from k css).
Proof. intros H. unfold conde_from. apply cg_ok_conde. induction H; cbn; constructor; [apply from_array_ok; assumption|assumption]. Qed.
Lemma conda_from_ok css : Forall (Forall cg_ok) css -> cg_ok (conda_from css).
Proof.
  induction 1 as [|cs r Hc Hr IH]; cbn; [exact I|]. destruct cs as [|f rest]; [exact IH|].
  inversion Hc; subst. cbn. repeat split; [assumption|apply from_array_ok; assumption|exact IH].
Qed.
Lemma condu_from_ok css : Forall (Forall cg_ok) css -> cg_ok (condu_from css).
Proof.
  induction 1 as [|cs r Hc Hr IH]; cbn; [exact I|]. destruct cs as [|f rest]; [exact IH|].
  inversion Hc; subst. cbn. repeat split; [assumption|apply from_array_ok; assumption|exact IH].
Qed.
Lemma onceo_from_ok css : Forall (Forall cg_ok) css -> cg_ok (onceo_from css).
Proof. intros H. unfold onceo_from. apply condu_from_ok. repeat constructor. apply from_conjs_ok, H. Qed.
Lemma anyo_from_ok css : Forall (Forall cg_ok) css -> cg_ok (anyo_from css).
Proof. intros H. unfold anyo_from. cbn. apply from_conjs_ok, H. Qed.
Lemma rel_goal_ok k r a : cg_ok (rel_goal k r a).
Proof. destruct r; cbn; try exact I. unfold conj_new; cbn. auto. Qed.

Section Elab.
Variable defs : list (nat * def).

Lemma elab_ok : forall f k rho g n, cg_ok (fst (elab defs f k rho g n)).
Proof.
  induction f as [|f IH]; intros k rho g n; [cbn; auto|].
  assert (Hel : forall gs k rho n, Forall cg_ok (fst ((fix el (k : kind) (rho : env) (gs : list goal) (n : nat) : list cgoal * nat :=
      match gs with
      | [] => ([], n)
      | g :: r => let '(c, n1) := elab defs f k rho g n in let '(cs, n2) := el k rho r n1 in (c :: cs, n2)
      end) k rho gs n))).
  { induction gs as [|g0 r IHr]; intros k0 rho0 n0; [constructor|].
    pose proof (IH k0 rho0 g0 n0) as Hc. destruct (elab defs f k0 rho0 g0 n0) as [c n1].
    specialize (IHr k0 rho0 n1). match goal with |- context [let '(cs, n2) := ?X in _] => destruct X as [cs n2] end.
    constructor; assumption. }
  assert (Hell : forall css k rho n, Forall (Forall cg_ok) (fst ((fix ell (k : kind) (rho : env) (css : list (list goal)) (n : nat) : list (list cgoal) * nat :=
      match css with
      | [] => ([], n)
      | gs :: r =>
          let '(c, n1) := (fix el (k : kind) (rho : env) (gs : list goal) (n : nat) : list cgoal * nat :=
             match gs with
             | [] => ([], n)
             | g :: r => let '(c, n1) := elab defs f k rho g n in let '(cs, n2) := el k rho r n1 in (c :: cs, n2)
             end) k rho gs n in
          let '(cs, n2) := ell k rho r n1 in (c :: cs, n2)
      end) k rho css n))).
  { induction css as [|gs r IHr]; intros k0 rho0 n0; [constructor|].
    pose proof (Hel gs k0 rho0 n0) as Hc.
    match goal with |- context [let '(c, n1) := ?X in _] => destruct X as [c n1] end.
    specialize (IHr k0 rho0 n1). match goal with |- context [let '(cs, n2) := ?X in _] => destruct X as [cs n2] end.
    constructor; assumption. }
  destruct g as [| |u v|u v|gs|xs gs|css|css|css|css|css|css|gs|r args|mk t arms|x coll css|xs gs|x d|r args|tag|u v]; cbn [elab].
  - exact I.
  - exact I.
  - destruct (elab_term rho u n) as [u' n1]. destruct (elab_term rho v n1). exact I.
  - destruct (elab_term rho u n) as [u' n1]. destruct (elab_term rho v n1). exact I.
  - pose proof (Hel gs k rho n) as H. match goal with |- context [let '(cs, n1) := ?X in _] => destruct X end. apply from_array_ok, H.
  - destruct (bind_fresh xs rho n) as [rho' n1]. pose proof (Hel gs k rho' n1) as H.
    match goal with |- context [let '(cs, n2) := ?X in _] => destruct X end. cbn. apply from_array_ok, H.
  - pose proof (Hell css k rho n) as H. match goal with |- context [let '(cs, n1) := ?X in _] => destruct X end. apply conde_from_ok, H.
  - pose proof (Hell css BFS rho n) as H. match goal with |- context [let '(cs, n1) := ?X in _] => destruct X end. apply conda_from_ok, H.
  - pose proof (Hell css BFS rho n) as H. match goal with |- context [let '(cs, n1) := ?X in _] => destruct X end. apply condu_from_ok, H.
  - pose proof (Hell css BFS rho n) as H. match goal with |- context [let '(cs, n1) := ?X in _] => destruct X end. apply onceo_from_ok, H.
  - pose proof (Hell css BFS rho n) as H. match goal with |- context [let '(cs, n1) := ?X in _] => destruct X end. apply anyo_from_ok, H.
  - pose proof (Hell css DFS rho n) as H. match goal with |- context [let '(cs, n1) := ?X in _] => destruct X end. apply from_conjs_ok, H.
  - exact I.
  - destruct (elab_term_list rho args n) as [args' n1]. destruct (find_def r defs); [|cbn; auto].
    destruct (d_closure d); [exact I|apply IH].
  - (* match: every alternative is the clause t == p followed by the body *)
    match goal with |- cg_ok (fst (let '(cs, n1) := ?X in _)) => assert (H : Forall (Forall cg_ok) (fst X)) end.
    { revert n. induction arms as [|[pats body] r IHr]; intros n0; [constructor|].
      match goal with |- context [let '(a, n1) := ?X in _] => assert (Ha : Forall (Forall cg_ok) (fst X)) end.
      { revert n0. induction pats as [|p pr IHp]; intros n0; [constructor|].
        destruct (elab_term rho t n0) as [t' n00]. destruct (bind_fresh _ rho n00) as [rho' n1]. destruct (elab_term rho' p n1) as [p' n2].
        pose proof (Hel body k rho' n2) as Hb. match goal with |- context [let '(cs, n3) := ?X in _] => destruct X as [cs n3] end.
        specialize (IHp n3). match goal with |- context [let '(rest, n4) := ?X in _] => destruct X as [rest n4] end.
        constructor; [constructor; [exact I|exact Hb]|exact IHp]. }
      match goal with |- context [let '(a, n1) := ?X in _] => destruct X as [a n1] end.
      specialize (IHr n1). match goal with |- context [let '(b, n2) := ?X in _] => destruct X as [b n2] end.
      cbn. apply Forall_app. split; assumption. }
    match goal with |- cg_ok (fst (let '(cs, n1) := ?X in _)) => destruct X as [cs n1] end.
    destruct mk; [apply conde_from_ok|apply conda_from_ok|apply condu_from_ok]; exact H.
  - destruct (elab_term rho coll n). exact I.
  - exact I.
  - destruct (elab_term rho x n) as [x' n1]. cbn. destruct (is_list_term x'); [|exact I].
    apply from_array_ok. apply Forall_forall. intros c Hc. apply in_map_iff in Hc. destruct Hc as [v [<- _]]. exact I.
  - destruct (elab_term_list rho args n) as [a n1]. cbn.
    destruct r; try apply rel_goal_ok; (destruct (forallb var_or_number a); [apply rel_goal_ok|cbn; auto]).
  - exact I.
  - destruct (elab_term rho u n) as [u' n1]. destruct (elab_term rho v n1). exact I.
Qed.
End Elab.

(* ------------------------------------------------------------------ streams *)
Fixpoint okL (l : lzy) : Prop :=
  match l with
  | LBind l' g | LBindDFS l' g => okL l' /\ cg_ok g
  | LMPlus a b | LMPlusDFS a b => okL a /\ okL b
  | LPause _ g | LPauseDFS _ g => cg_ok g
  | LDelay s => okS s
  end
with okS (s : stream) : Prop :=
  match s with
  | SEmpty | SUnit _ => True
  | SLazy l | SCons _ l => okL l
  | SErr o site => o = true \/ allowed site
  end.

Lemma sres_stream_ok r : okr r -> okS (sres_stream r).
Proof. destruct r; cbn; auto. intros H. right. left. exact H. Qed.

Lemma mplus_ok s l : okS s -> okL l -> okS (mplus s l).
Proof. destruct s; cbn; auto. Qed.
Lemma mplus_dfs_ok s l : okS s -> okL l -> okS (mplus_dfs s l).
Proof. destruct s; cbn; auto. Qed.
Lemma mplus_k_ok k s l : okS s -> okL l -> okS (mplus_k k s l).
Proof. destruct k; [apply mplus_ok|apply mplus_dfs_ok]. Qed.
Lemma lazy_bind_ok l g : okL l -> cg_ok g -> okS (lazy_bind l g).
Proof. unfold lazy_bind. destruct (is_succeed g), (is_fail g); cbn; auto. Qed.
Lemma lazy_bind_dfs_ok l g : okL l -> cg_ok g -> okS (lazy_bind_dfs l g).
Proof. unfold lazy_bind_dfs. destruct (is_succeed g), (is_fail g); cbn; auto. Qed.
Lemma lazy_bind_k_ok k l g : okL l -> cg_ok g -> okS (lazy_bind_k k l g).
Proof. destruct k; [apply lazy_bind_ok|apply lazy_bind_dfs_ok]. Qed.
Lemma bind_ok s g : okS s -> cg_ok g -> okS (bind s g).
Proof.
  unfold bind. destruct (is_succeed g); [auto|]. destruct (is_fail g); [intros; exact I|].
  destruct s; cbn; auto. apply lazy_bind_ok.
Qed.
Lemma bind_dfs_ok s g : okS s -> cg_ok g -> okS (bind_dfs s g).
Proof.
  unfold bind_dfs. destruct (is_succeed g); [auto|]. destruct (is_fail g); [intros; exact I|].
  destruct s; cbn; auto. apply lazy_bind_dfs_ok.
Qed.
Lemma pause_k_ok k st g : cg_ok g -> okL (pause_k k st g).
Proof. destruct k; auto. Qed.

Lemma step_with_ok startf : (forall g st, cg_ok g -> okS (startf g st)) -> forall l, okL l -> okS (step_with startf l).
Proof.
  intros Hs. induction l; cbn [step_with okL]; intros H; auto.
  - destruct H. apply bind_ok; auto.
  - destruct H. apply mplus_ok; auto.
  - destruct H. apply bind_dfs_ok; auto.
  - destruct H. apply mplus_dfs_ok; auto.
Qed.
Lemma mature_ok stepf : (forall l, okL l -> okS (stepf l)) -> forall f s, okS s -> okS (mature stepf f s).
Proof.
  intros Hs. induction f as [|f IH]; intros s H; [left; reflexivity|]. cbn [mature].
  destruct s; auto.
Qed.
Lemma trunc_ok s : okS s -> okS (trunc_of s).
Proof. destruct s; cbn; auto. Qed.

Section WithDefs.
Variable defs : list (nat * def).

Lemma start_ok : forall n g st, cg_ok g -> okS (start defs n g st).
Proof.
  induction n as [|n IH]; intros g st Hg; [left; reflexivity|].
  assert (Hstep : forall l, okL l -> okS (step_with (start defs n) l)) by (apply step_with_ok; exact IH).
  destruct g; cbn [start].
  - exact I.
  - exact I.
  - apply sres_stream_ok, state_unify_okr.
  - apply sres_stream_ok, state_disunify_okr.
  - destruct Hg. apply lazy_bind_k_ok; [apply pause_k_ok|]; assumption.
  - apply cg_ok_conde in Hg. induction Hg as [|c r Hc Hr IHr]; [exact I|]. cbn [fold_right]. apply mplus_k_ok; [apply IH, Hc|exact IHr].
  - apply pause_k_ok, Hg.
  - pose proof (elab_ok defs efuel k rho (GConj gs) (st_nextv st)) as He.
    destruct (elab defs efuel k rho (GConj gs) (st_nextv st)). apply IH, He.
  - destruct (find_def r defs); [|right; left; left; reflexivity].
    match goal with |- okS (let '(c, nv) := ?X in _) => pose proof (elab_ok defs efuel k (combine (d_params d) args) (GConj [d_body d]) (st_nextv st)) as He; destruct X end.
    apply IH, He.
  - destruct Hg as [H1 [H2 H3]]. pose proof (mature_ok _ Hstep mfuel _ (IH g1 st H1)) as Hm.
    destruct (mature _ mfuel (start defs n g1 st)) eqn:E; try (apply bind_ok; [exact Hm|exact H2]); [apply IH, H3|exact Hm].
  - destruct Hg as [H1 [H2 H3]]. pose proof (mature_ok _ Hstep mfuel _ (IH g1 st H1)) as Hm.
    destruct (mature _ mfuel (start defs n g1 st)) eqn:E;
      try (apply bind_ok; [apply trunc_ok; exact Hm|exact H2]); [apply IH, H3|exact Hm].
  - apply IH. apply conde_from_ok. repeat constructor; [exact Hg|]. apply anyo_from_ok. repeat constructor. exact Hg.
  - match goal with |- okS (let '(cs, nv) := ?X in _) => assert (H : Forall cg_ok (fst X)) end.
    { clear Hg. generalize (st_nextv st). induction elems as [|e r IHr]; intros nv; [constructor|].
      pose proof (elab_ok defs efuel k ((x, e) :: rho) (GConj (map GConj cs)) nv) as He.
      destruct (elab defs efuel k ((x, e) :: rho) (GConj (map GConj cs)) nv) as [c n1].
      specialize (IHr n1). match goal with |- context [let '(cs0, n2) := ?X in _] => destruct X end.
      constructor; assumption. }
    match goal with |- okS (let '(cs, nv) := ?X in _) => destruct X end. apply IH, from_iter_ok, H.
  - destruct (project_env st rho xs rho); [|left; reflexivity].
    match goal with |- okS (let '(c, nv) := elab defs efuel k e ?G ?N in _) => pose proof (elab_ok defs efuel k e G N) as He; destruct (elab defs efuel k e G N) end.
    apply IH, He.
  - apply sres_stream_ok, post_domain_okr.
  - apply sres_stream_ok, post_constraint_okr.
  - cbn in Hg. destruct Hg as [->|[->| ->]]; cbn; [left; reflexivity|right; left; left; reflexivity|right; right; left; reflexivity].
  - exact I.
  - destruct (first_number u); [apply sres_stream_ok, state_unify_okr|exact I].
  - destruct (wk (st_smap st) x) as [l|v any| |t1 t2|tg ts] eqn:E; try exact I.
    + destruct (dom_get st (TVar v any)) as [f|]; [|exact I].
      generalize SEmpty (I : okS SEmpty). induction (fd_iter_rev f) as [|z r IHr]; intros acc Hacc; [exact Hacc|].
      cbn [fold_left]. apply IHr. apply mplus_ok; [apply sres_stream_ok, state_unify_okr|exact Hacc].
    + destruct (dom_get st (TCons t1 t2)); apply IH; apply from_array_ok; repeat constructor.
    + destruct (dom_get st (TComp tg ts)); apply IH; apply from_array_ok; apply Forall_forall; intros c Hc;
        apply in_map_iff in Hc; destruct Hc as [v [<- _]]; exact I.
  - destruct (verify_all_bound st); [|right; right; right; left; reflexivity].
    apply IH. apply onceo_from_ok. repeat constructor.
  - destruct (walk_star dfuel (st_smap st) x); [|left; reflexivity].
    destruct (reify_s dfuel (st_smap st) (st_nextv st) t) as [[r nv]|]; [|left; reflexivity].
    match goal with |- okS (?F (st_cstore st) ?S0) => generalize S0 end.
    induction (st_cstore st) as [|[id c] r' IHr]; intros s0; [exact I|].
    destruct c; try apply IHr.
    destruct (walk_star_pairs (st_smap st) ps) as [[ps'|]|]; [apply IHr|right; right; right; right; reflexivity|left; reflexivity].
Qed.

Lemma step_ok l : okL l -> okS (step defs l).
Proof. apply step_with_ok. intros; apply start_ok; assumption. Qed.

(* Solver::next never reports a panic outside the allowed sites *)
Lemma next_ok : forall k used s site, okS s -> next defs k used s = NErr false site -> allowed site.
Proof.
  induction k as [|k IH]; intros used s site Hs H; destruct s; cbn in H; try discriminate.
  - injection H as -> ->. destruct Hs; [discriminate|assumption].
  - eapply IH; [|exact H]. apply step_ok, Hs.
  - injection H as -> ->. destruct Hs; [discriminate|assumption].
Qed.
End WithDefs.
