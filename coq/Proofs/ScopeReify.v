(* Reification on a scoped, acyclic state (C03, C01): every unbound variable met is bound to an
   any-variable whose name is drawn from the counter, so the names are new (different from every
   variable of the state and of the term), pairwise different, each variable is renamed once, and the
   substitution stays acyclic and scoped. *)
From Coq Require Import List ZArith Bool Arith Lia.
From PV Require Import Model.Term Model.Subst Model.Unify Model.FD Model.State Model.Engine
  Proofs.UnifyProofs Proofs.ReifyProofs Proofs.Acyc Proofs.FrameProofs.
From PV Require Import Proofs.ScopeElab Proofs.ScopeState.
Import ListNotations.

(* the bindings reification adds: (v, _m) with m in [n, n'), names pairwise different, keys pairwise
   different and unbound before (a variable met again is already renamed; the walk then ends on its
   any-variable, which is renamed once more - all occurrences still resolve to one name) *)
Definition rnew (s : smap) (n n' : nat) (new : smap) : Prop :=
  (forall v u, In (v, u) new -> exists m, u = TVar m true /\ n <= m < n') /\
  NoDup (map snd new) /\ NoDup (map fst new) /\ (forall v u, In (v, u) new -> lookup v s = None).

Lemma nodup_app {A} (a b : list A) : NoDup a -> NoDup b -> (forall x, In x a -> In x b -> False) -> NoDup (a ++ b).
Proof.
  induction a as [|x r IH]; cbn; intros Ha Hb H; [exact Hb|]. inversion Ha as [|? ? Hn Hr]; subst. constructor.
  - intros Hin. apply in_app_or in Hin as [Hin|Hin]; [contradiction|]. apply (H x); [left; reflexivity|exact Hin].
  - apply IH; [exact Hr|exact Hb|]. intros y Hy1 Hy2. apply (H y); [right; exact Hy1|exact Hy2].
Qed.
Lemma lookup_none_notin x s : lookup x s = None <-> ~ In x (map fst s).
Proof.
  induction s as [|[y t] r IH]; cbn [lookup map fst In]; [tauto|]. destruct (Nat.eqb_spec y x) as [E|E].
  - split; [discriminate|]. intros H. exfalso. apply H. left. exact E.
  - rewrite IH. tauto.
Qed.
Lemma smapb_lookup_ge n s m : smapb n s -> n <= m -> lookup m s = None.
Proof.
  intros Hs L. apply lookup_none_notin. intros Hin. apply in_map_iff in Hin as [[y t] [E Hin]]. cbn in E. subst y.
  destruct (Hs m t Hin). lia.
Qed.

Theorem reify_scope : forall f,
  (forall s n t s' n', acyc s -> smapb n s -> tb n t -> reify_s f s n t = Some (s', n') ->
     acyc s' /\ smapb n' s' /\ n <= n' /\ exists new, s' = new ++ s /\ rnew s n n' new) /\
  (forall s n ts s' n', acyc s -> smapb n s -> tsb n ts -> reify_list f s n ts = Some (s', n') ->
     acyc s' /\ smapb n' s' /\ n <= n' /\ exists new, s' = new ++ s /\ rnew s n n' new).
Proof.
  assert (Rnil : forall s n, rnew s n n []).
  { intros. split; [intros v u []|]. split; [constructor|]. split; [constructor|intros v u []]. }
  assert (Rapp : forall s n n1 n2 new1 new2, smapb n s -> n <= n1 -> n1 <= n2 ->
            rnew s n n1 new1 -> rnew (new1 ++ s) n1 n2 new2 -> rnew s n n2 (new2 ++ new1)).
  { intros s n n1 n2 new1 new2 Hs L1 L2 [A1 [B1 [C1 D1]]] [A2 [B2 [C2 D2]]]. split; [|split; [|split]].
    - intros v u Hin. apply in_app_or in Hin as [Hin|Hin].
      + destruct (A2 v u Hin) as [m [E Hm]]. exists m. split; [exact E|lia].
      + destruct (A1 v u Hin) as [m [E Hm]]. exists m. split; [exact E|lia].
    - rewrite map_app. apply nodup_app; [exact B2|exact B1|].
      intros u Hu2 Hu1. apply in_map_iff in Hu2 as [[v2 u2] [E2 Hin2]]. apply in_map_iff in Hu1 as [[v1 u1] [E1 Hin1]]. cbn in E1, E2. subst u1 u2.
      destruct (A2 v2 u Hin2) as [m2 [-> Hm2]]. destruct (A1 v1 _ Hin1) as [m1 [E Hm1]]. inversion E. lia.
    - rewrite map_app. apply nodup_app; [exact C2|exact C1|].
      intros v Hv2 Hv1. apply in_map_iff in Hv2 as [[v2 u2] [E2 Hin2]]. cbn in E2. subst v2.
      pose proof (D2 v u2 Hin2) as Hl. apply lookup_none_notin in Hl. apply Hl. rewrite map_app. apply in_or_app. left. exact Hv1.
    - intros v u Hin. apply in_app_or in Hin as [Hin|Hin]; [|apply (D1 v u Hin)].
      pose proof (D2 v u Hin) as Hl. apply lookup_none_notin in Hl. apply lookup_none_notin. intros Hc. apply Hl. rewrite map_app. apply in_or_app. right. exact Hc. }
  induction f as [|f [IHt IHl]]; [split; intros; discriminate|]. split.
  - intros s n t s' n' A Hs Ht H. cbn [reify_s] in H. pose proof (wk_tb n s t Hs Ht) as Bw.
    destruct (wk s t) as [l|v a| |h tl|g cs] eqn:Ew.
    + inversion H; subst. split; [exact A|]. split; [exact Hs|]. split; [lia|]. exists []. split; [reflexivity|apply Rnil].
    + inversion H; subst. apply tb_var in Bw. pose proof (wk_var_unbound s t v a A Ew) as Hv.
      split; [|split; [|split; [lia|]]].
      * constructor; [exact A|exact Hv| |].
        -- cbn [final]. unfold bound_in. rewrite (smapb_lookup_ge n s n Hs (Nat.le_refl n)). reflexivity.
        -- cbn [app]. rewrite (solve_unbound s n (smapb_lookup_ge n s n Hs (Nat.le_refl n))). cbn [tvars In]. intros [E|[]]. lia.
      * intros x u [Hin|Hin]; [inversion Hin; subst; split; [lia|apply tb_var; lia]|]. destruct (Hs x u Hin). split; [lia|eapply tb_mono; [|eassumption]; lia].
      * exists [(v, TVar n true)]. split; [reflexivity|]. split; [|split; [|split]].
        -- intros x u [Hin|[]]. inversion Hin; subst. exists n. split; [reflexivity|lia].
        -- repeat constructor; intros [].
        -- repeat constructor; intros [].
        -- intros x u [Hin|[]]. inversion Hin; subst. exact Hv.
    + inversion H; subst. split; [exact A|]. split; [exact Hs|]. split; [lia|]. exists []. split; [reflexivity|apply Rnil].
    + apply tb_cons in Bw as [B1 B2]. destruct (reify_s f s n h) as [[s1 n1]|] eqn:E1; [|discriminate].
      destruct (IHt _ _ _ _ _ A Hs B1 E1) as [A1 [Hs1 [L1 [new1 [-> R1]]]]].
      destruct (IHt _ _ _ _ _ A1 Hs1 (tb_mono _ _ _ L1 B2) H) as [A2 [Hs2 [L2 [new2 [-> R2]]]]].
      split; [exact A2|]. split; [exact Hs2|]. split; [lia|]. exists (new2 ++ new1). split; [rewrite app_assoc; reflexivity|].
      eapply Rapp; eauto.
    + destruct (IHl _ _ _ _ _ A Hs Bw H) as [A1 [Hs1 [L1 [new1 [-> R1]]]]]. split; [exact A1|]. split; [exact Hs1|]. split; [exact L1|]. exists new1. auto.
  - intros s n ts s' n' A Hs Ht H. cbn [reify_list] in H. destruct ts as [|t r].
    + inversion H; subst. split; [exact A|]. split; [exact Hs|]. split; [lia|]. exists []. split; [reflexivity|apply Rnil].
    + apply tsb_more in Ht as [B1 B2]. destruct (reify_s f s n t) as [[s1 n1]|] eqn:E1; [|discriminate].
      destruct (IHt _ _ _ _ _ A Hs B1 E1) as [A1 [Hs1 [L1 [new1 [-> R1]]]]].
      assert (B2' : tsb n1 r) by (intros v Hv; specialize (B2 v Hv); lia).
      destruct (IHl _ _ _ _ _ A1 Hs1 B2' H) as [A2 [Hs2 [L2 [new2 [-> R2]]]]].
      split; [exact A2|]. split; [exact Hs2|]. split; [lia|]. exists (new2 ++ new1). split; [rewrite app_assoc; reflexivity|].
      eapply Rapp; eauto.
Qed.
