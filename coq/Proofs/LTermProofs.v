(* C21: LTerm equality, hashing and the list API are consistent. *)
From Coq Require Import List ZArith Bool Arith Lia.
From PV Require Import Model.Term Model.State Model.LTermOps Proofs.UnifyProofs.
Import ListNotations.

(* equality ignores only the name of a variable (the any flag): [erase] forgets it *)
Fixpoint erase (t : term) : term :=
  match t with
  | TVar v _ => TVar v false
  | TCons h tl => TCons (erase h) (erase tl)
  | TComp g cs => TComp g (erase_list cs)
  | other => other
  end
with erase_list (ts : terms) : terms :=
  match ts with TNil => TNil | TMore t r => TMore (erase t) (erase_list r) end.

Lemma lit_eqb_refl l : lit_eqb l l = true.
Proof. destruct l; cbn; auto using Z.eqb_refl, N.eqb_refl. destruct b; auto. Qed.

Theorem term_eqb_spec :
  (forall a b, term_eqb a b = true <-> erase a = erase b) /\
  (forall a b, terms_eqb a b = true <-> erase_list a = erase_list b).
Proof.
  apply term_terms_ind.
  - intros l b. destruct b; cbn [term_eqb erase]; try (split; [discriminate|intros H; discriminate]).
    split; [intros H; apply lit_eqb_eq in H; congruence|intros H; inversion H; apply lit_eqb_refl].
  - intros v a b. destruct b; cbn [term_eqb erase]; try (split; [discriminate|intros H; discriminate]).
    rewrite Nat.eqb_eq. split; [congruence|intros H; inversion H; auto].
  - intros b. destruct b; cbn [term_eqb erase]; try (split; [discriminate|intros H; discriminate]). tauto.
  - intros h IHh t IHt b. destruct b; cbn [term_eqb erase]; try (split; [discriminate|intros H; discriminate]).
    rewrite andb_true_iff, IHh, IHt. split; [intros [A B]; congruence|intros H; inversion H; auto].
  - intros g cs IH b. destruct b; cbn [term_eqb erase]; try (split; [discriminate|intros H; discriminate]).
    rewrite andb_true_iff, Nat.eqb_eq, IH. split; [intros [A B]; congruence|intros H; inversion H; auto].
  - intros b. destruct b; cbn [terms_eqb erase_list]; try (split; [discriminate|intros H; discriminate]). tauto.
  - intros t IHt r IHr b. destruct b; cbn [terms_eqb erase_list]; try (split; [discriminate|intros H; discriminate]).
    rewrite andb_true_iff, IHt, IHr. split; [intros [A B]; congruence|intros H; inversion H; auto].
Qed.

Theorem term_eqb_refl a : term_eqb a a = true.
Proof. apply (proj1 term_eqb_spec). reflexivity. Qed.
Theorem term_eqb_sym a b : term_eqb a b = term_eqb b a.
Proof.
  destruct (term_eqb a b) eqn:E; destruct (term_eqb b a) eqn:F; auto.
  - apply (proj1 term_eqb_spec) in E. symmetry in E. apply (proj1 term_eqb_spec) in E. congruence.
  - apply (proj1 term_eqb_spec) in F. symmetry in F. apply (proj1 term_eqb_spec) in F. congruence.
Qed.
Theorem term_eqb_trans a b c : term_eqb a b = true -> term_eqb b c = true -> term_eqb a c = true.
Proof. rewrite !(proj1 term_eqb_spec). congruence. Qed.

(* equal terms hash equally *)
Lemma hash_erase :
  (forall t, hash_tokens (erase t) = hash_tokens t) /\ (forall ts, hash_tokens_list (erase_list ts) = hash_tokens_list ts).
Proof.
  apply term_terms_ind; intros; cbn [erase erase_list hash_tokens hash_tokens_list]; auto; try congruence.
Qed.
Theorem hash_respects_eq a b : term_eqb a b = true -> hash_tokens a = hash_tokens b.
Proof.
  intros H. apply (proj1 term_eqb_spec) in H. rewrite <- (proj1 hash_erase a), <- (proj1 hash_erase b). congruence.
Qed.

(* the list API against the element sequence *)
Theorem iter_from_vec l : lt_iter (lt_collect l) = l.
Proof. unfold lt_iter, lt_collect. induction l as [|x l IH]; cbn [list_term list_of_term]; [reflexivity|f_equal; exact IH]. Qed.

Theorem iter_improper l last : lt_is_list last = false -> lt_iter (improper_term l last) = l ++ [last].
Proof.
  intros H. induction l as [|x l IH]; cbn [improper_term].
  - destruct last; cbn in *; auto; discriminate.
  - unfold lt_iter in *. cbn [list_of_term]. rewrite <- app_comm_cons. f_equal. exact IH.
Qed.

Theorem collect_iter t : lt_is_list t = true -> lt_is_improper t = false -> lt_collect (lt_iter t) = t.
Proof.
  induction t as [| | |h _ tl IH|]; cbn; try discriminate; auto. intros _ H.
  f_equal. destruct tl; cbn in *; try discriminate; auto.
Qed.

Theorem extend_spec t c : lt_is_list t = true -> lt_is_improper t = false ->
  lt_extend t c = Some (lt_collect (lt_iter t ++ c)).
Proof.
  induction t as [| | |h _ tl IH|]; cbn; try discriminate; auto. intros _ H.
  assert (E : lt_extend tl c = Some (lt_collect (lt_iter tl ++ c))).
  { destruct tl; cbn in *; try discriminate; auto. }
  cbn [lt_extend] in *. rewrite E. reflexivity.
Qed.

Theorem index_spec t n : lt_index t n = nth_error (lt_iter t) n.
Proof. reflexivity. Qed.

Theorem contains_spec t v : lt_contains t v = true <-> exists u, In u (lt_iter t) /\ term_eqb u v = true.
Proof. unfold lt_contains. rewrite existsb_exists. tauto. Qed.

Theorem head_tail_spec t h tl : lt_head t = Some h /\ lt_tail t = Some tl <-> t = TCons h tl.
Proof. destruct t; cbn; split; try (intros [A B]; discriminate); try discriminate; [intros [A B]; congruence|intros H; inversion H; auto]. Qed.

Theorem is_improper_spec t : lt_is_improper t = true <->
  exists l last, l <> [] /\ t = improper_term l last /\ lt_is_list last = false.
Proof.
  split.
  - induction t as [| | |h _ tl IH|]; cbn [lt_is_improper]; try discriminate. intros H.
    destruct tl as [l0|v a| |h2 t2|g cs]; try discriminate.
    + exists [h], (TVal l0). repeat split; auto; discriminate.
    + exists [h], (TVar v a). repeat split; auto; discriminate.
    + destruct (IH H) as [l [last [NE [E HL]]]]. exists (h :: l), last. repeat split; auto; [discriminate|cbn; congruence].
    + exists [h], (TComp g cs). repeat split; auto; discriminate.
  - intros [l [last [NE [-> HL]]]]. induction l as [|x l IH]; [congruence|].
    destruct l as [|y l].
    + cbn. destruct last; cbn in *; auto; discriminate.
    + cbn [improper_term lt_is_improper] in *. apply IH. discriminate.
Qed.
