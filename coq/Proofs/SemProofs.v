(* Soundness of the search engine with respect to a declarative (big-step) semantics of goals.

   [Sem g st a] : a is an answer of goal g started in state st, defined by structural rules only
   (conjunction = relational composition, disjunction = union, fresh = body, closure / relation call
   = the constructed body, ...), with no reference to streams, scheduling or fuel.
   Theorem: whatever the engine delivers - under interleaving or depth-first search, with any
   fuel, after any number of steps - is derivable in Sem.  (The committed-choice operators are
   over-approximated: an answer through a later clause is derivable whether or not the earlier heads
   have answers.  That is the direction soundness needs.) *)
From Coq Require Import List ZArith Bool Arith Lia.
From PV Require Import Model.Term Model.Subst Model.Unify Model.FD Model.State Model.Engine Spec.StreamSem Proofs.StreamProofs Proofs.EngineProofs.
Import ListNotations.

Section Sem.
Variable defs : list (nat * def).

Inductive Sem : cgoal -> state -> state -> Prop :=
| S_succeed st : Sem CSucceed st st
| S_eq u v st a : state_unify st u v = SOk a -> Sem (CEq u v) st a
| S_diseq u v st a : state_disunify st u v = SOk a -> Sem (CDiseq u v) st a
| S_dom x d st a : post_domain x d st = SOk a -> Sem (CDom x d) st a
| S_post c st a : post_constraint c st = SOk a -> Sem (CPost c) st a
| S_probe tag st : Sem (CProbe tag) st (log_event st (probe_event tag st))
| S_sq u v st z a : first_number u = Some z -> state_unify st (tnum (z * z)) v = SOk a -> Sem (CSq u v) st a
| S_conj k g1 g2 st b a : Sem g1 st b -> Sem g2 b a -> Sem (CConj k g1 g2) st a
| S_conde k gs c st a : In c gs -> Sem c st a -> Sem (CConde k gs) st a
| S_fresh k g st a : Sem g st a -> Sem (CFresh k g) st a
| S_closure k rho gs st c nv a :
    elab defs efuel k rho (GConj gs) (st_nextv st) = (c, nv) -> Sem c (set_nextv st nv) a -> Sem (CClosure k rho gs) st a
| S_call k r args st d c nv a :
    find_def r defs = Some d ->
    elab defs efuel k (combine (d_params d) args) (GConj [d_body d]) (st_nextv st) = (c, nv) ->
    Sem c (set_nextv st nv) a -> Sem (CCall k r args) st a
| S_conda_commit f r nx st b a : Sem f st b -> Sem r b a -> Sem (CConda f r nx) st a
| S_conda_skip f r nx st a : Sem nx st a -> Sem (CConda f r nx) st a
| S_condu_commit f r nx st b a : Sem f st b -> Sem r b a -> Sem (CCondu f r nx) st a
| S_condu_skip f r nx st a : Sem nx st a -> Sem (CCondu f r nx) st a
| S_anyo g st a : Sem (conde_from BFS [[g]; [anyo_from [[g]]]]) st a -> Sem (CAnyo g) st a
| S_everyg k rho x elems css st cs nv a :
    (fix mk (es : list term) (nv : nat) : list cgoal * nat :=
       match es with
       | [] => ([], nv)
       | e :: r =>
           let '(c, n1) := elab defs efuel k ((x, e) :: rho) (GConj (map GConj css)) nv in
           let '(cs, n2) := mk r n1 in (c :: cs, n2)
       end) elems (st_nextv st) = (cs, nv) ->
    Sem (from_iter k cs) (set_nextv st nv) a -> Sem (CEveryg k rho x elems css) st a
| S_project k rho xs gs st rho' c nv a :
    project_env st rho xs rho = Some rho' ->
    elab defs efuel k rho' (GConj (map (fun g => GConj [g]) gs)) (st_nextv st) = (c, nv) ->
    Sem c (set_nextv st nv) a -> Sem (CProject k rho xs gs) st a
| S_force_var x st v any d z a :
    wk (st_smap st) x = TVar v any -> dom_get st (TVar v any) = Some d -> In z (fd_iter_rev d) ->
    state_unify st (tnum z) (TVar v any) = SOk a -> Sem (CForceAns x) st a
| S_force_cons x st h tl a :
    wk (st_smap st) x = TCons h tl -> Sem (from_array BFS [CForceAns h; CForceAns tl]) st a -> Sem (CForceAns x) st a
| S_force_comp x st g cs a :
    wk (st_smap st) x = TComp g cs -> Sem (from_array BFS (map CForceAns (flat_children cs))) st a -> Sem (CForceAns x) st a
| S_force_other x st :
    match wk (st_smap st) x, dom_get st (wk (st_smap st) x) with
    | TVar _ _, Some _ => False | TCons _ _, _ => False | TComp _ _, _ => False | _, _ => True end ->
    Sem (CForceAns x) st st
| S_enforce st a :
    verify_all_bound st = true ->
    Sem (onceo_from [[CForceAns (list_term (map (fun p => TVar (fst p) false) (st_dstore st)))]]) st a -> Sem CEnforceFd st a
| S_reify x st a n : start defs (S n) (CReify x) st = SUnit a -> Sem (CReify x) st a.

(* answers of a stream, pauses resolved by Sem *)
Fixpoint SemL (l : lzy) (a : state) : Prop :=
  match l with
  | LPause st g | LPauseDFS st g => Sem g st a
  | LBind l' g | LBindDFS l' g => exists b, SemL l' b /\ Sem g b a
  | LMPlus x y | LMPlusDFS x y => SemL x a \/ SemL y a
  | LDelay s => SemS s a
  end
with SemS (s : stream) (a : state) : Prop :=
  match s with
  | SEmpty | SErr _ _ => False
  | SUnit b => b = a
  | SLazy l => SemL l a
  | SCons b l => b = a \/ SemL l a
  end.

Lemma sres_stream_sem r a : SemS (sres_stream r) a -> r = SOk a.
Proof. destruct r; cbn; try tauto. intros ->. reflexivity. Qed.
Lemma mplus_sem s l a : SemS (mplus s l) a -> SemS s a \/ SemL l a.
Proof. destruct s; cbn; tauto. Qed.
Lemma mplus_dfs_sem s l a : SemS (mplus_dfs s l) a -> SemS s a \/ SemL l a.
Proof. destruct s; cbn; tauto. Qed.
Lemma mplus_k_sem k s l a : SemS (mplus_k k s l) a -> SemS s a \/ SemL l a.
Proof. destruct k; [apply mplus_sem|apply mplus_dfs_sem]. Qed.

Lemma is_succeed_eq g : is_succeed g = true -> g = CSucceed.
Proof. destruct g; cbn; congruence. Qed.

Lemma lazy_bind_sem l g a : SemS (lazy_bind l g) a -> exists b, SemL l b /\ Sem g b a.
Proof.
  unfold lazy_bind. destruct (is_succeed g) eqn:E.
  - apply is_succeed_eq in E. subst. cbn. intros H. exists a. split; [exact H|constructor].
  - destruct (is_fail g); cbn; [tauto|auto].
Qed.
Lemma lazy_bind_dfs_sem l g a : SemS (lazy_bind_dfs l g) a -> exists b, SemL l b /\ Sem g b a.
Proof.
  unfold lazy_bind_dfs. destruct (is_succeed g) eqn:E.
  - apply is_succeed_eq in E. subst. cbn. intros H. exists a. split; [exact H|constructor].
  - destruct (is_fail g); cbn; [tauto|auto].
Qed.
Lemma lazy_bind_k_sem k l g a : SemS (lazy_bind_k k l g) a -> exists b, SemL l b /\ Sem g b a.
Proof. destruct k; [apply lazy_bind_sem|apply lazy_bind_dfs_sem]. Qed.

Lemma bind_sem s g a : SemS (bind s g) a -> exists b, SemS s b /\ Sem g b a.
Proof.
  unfold bind. destruct (is_succeed g) eqn:E.
  - apply is_succeed_eq in E. subst. intros H. exists a. split; [exact H|constructor].
  - destruct (is_fail g); [cbn; tauto|]. destruct s; cbn; try tauto.
    + intros H. exists st. auto.
    + intros H. apply lazy_bind_sem in H. exact H.
    + intros [H|[b [H1 H2]]]; [exists st; auto|exists b; auto].
Qed.
Lemma bind_dfs_sem s g a : SemS (bind_dfs s g) a -> exists b, SemS s b /\ Sem g b a.
Proof.
  unfold bind_dfs. destruct (is_succeed g) eqn:E.
  - apply is_succeed_eq in E. subst. intros H. exists a. split; [exact H|constructor].
  - destruct (is_fail g); [cbn; tauto|]. destruct s; cbn; try tauto.
    + intros H. exists st. auto.
    + intros H. apply lazy_bind_dfs_sem in H. exact H.
    + intros [H|[b [H1 H2]]]; [exists st; auto|exists b; auto].
Qed.

Lemma pause_k_sem k st g a : SemL (pause_k k st g) a -> Sem g st a.
Proof. destruct k; cbn; auto. Qed.

Lemma step_with_sem startf : (forall g st a, SemS (startf g st) a -> Sem g st a) ->
  forall l a, SemS (step_with startf l) a -> SemL l a.
Proof.
  intros Hs. induction l; cbn [step_with SemL]; intros a H.
  - apply bind_sem in H. destruct H as [b [H1 H2]]. exists b. auto.
  - apply mplus_sem in H. destruct H; auto.
  - apply Hs, H.
  - apply bind_dfs_sem in H. destruct H as [b [H1 H2]]. exists b. auto.
  - apply mplus_dfs_sem in H. destruct H; auto.
  - apply Hs, H.
  - exact H.
Qed.

Lemma mature_sem stepf : (forall l a, SemS (stepf l) a -> SemL l a) -> forall f s a, SemS (mature stepf f s) a -> SemS s a.
Proof.
  intros Hs. induction f as [|f IH]; intros s a H; [destruct H|]. cbn [mature] in H.
  destruct s; auto. cbn. apply Hs. apply IH. exact H.
Qed.
Lemma trunc_sem s a : SemS (trunc_of s) a -> SemS s a.
Proof. destruct s; cbn; auto. Qed.

(* the defining equations of [start], one per goal kind (rewriting with them keeps the kernel from
   re-deriving them by conversion under the recursive predicate SemS) *)
Lemma start_e_succeed n st : start defs (S n) CSucceed st = SUnit st. Proof. reflexivity. Qed.
Lemma start_e_fail n st : start defs (S n) CFail st = SEmpty. Proof. reflexivity. Qed.
Lemma start_e_eq n u v st : start defs (S n) (CEq u v) st = sres_stream (state_unify st u v). Proof. reflexivity. Qed.
Lemma start_e_diseq n u v st : start defs (S n) (CDiseq u v) st = sres_stream (state_disunify st u v). Proof. reflexivity. Qed.
Lemma start_e_conj n k g1 g2 st : start defs (S n) (CConj k g1 g2) st = lazy_bind_k k (pause_k k st g1) g2. Proof. reflexivity. Qed.
Lemma start_e_conde n k gs st : start defs (S n) (CConde k gs) st =
  fold_right (fun c acc => mplus_k k (start defs n c st) (LDelay acc)) SEmpty gs. Proof. reflexivity. Qed.
Lemma start_e_fresh n k g st : start defs (S n) (CFresh k g) st = SLazy (pause_k k st g). Proof. reflexivity. Qed.
Lemma start_e_closure n k rho gs st : start defs (S n) (CClosure k rho gs) st =
  (let '(c, nv) := elab defs efuel k rho (GConj gs) (st_nextv st) in start defs n c (set_nextv st nv)). Proof. reflexivity. Qed.
Lemma start_e_call n k r args st : start defs (S n) (CCall k r args) st =
  match find_def r defs with
  | None => SErr false 1
  | Some d => let '(c, nv) := elab defs efuel k (combine (d_params d) args) (GConj [d_body d]) (st_nextv st) in start defs n c (set_nextv st nv)
  end. Proof. reflexivity. Qed.
Lemma start_e_anyo n g st : start defs (S n) (CAnyo g) st = start defs n (conde_from BFS [[g]; [anyo_from [[g]]]]) st. Proof. reflexivity. Qed.
Lemma start_e_everyg n k rho x elems css st : start defs (S n) (CEveryg k rho x elems css) st =
  (let '(cs, nv) := (fix mk (es : list term) (nv : nat) : list cgoal * nat :=
       match es with
       | [] => ([], nv)
       | e :: r =>
           let '(c, n1) := elab defs efuel k ((x, e) :: rho) (GConj (map GConj css)) nv in
           let '(cs, n2) := mk r n1 in (c :: cs, n2)
       end) elems (st_nextv st) in
   start defs n (from_iter k cs) (set_nextv st nv)). Proof. reflexivity. Qed.
Lemma start_e_project n k rho xs gs st : start defs (S n) (CProject k rho xs gs) st =
  match project_env st rho xs rho with
  | None => SErr true 0
  | Some rho' => let '(c, nv) := elab defs efuel k rho' (GConj (map (fun g => GConj [g]) gs)) (st_nextv st) in start defs n c (set_nextv st nv)
  end. Proof. reflexivity. Qed.
Lemma start_e_dom n x d st : start defs (S n) (CDom x d) st = sres_stream (post_domain x d st). Proof. reflexivity. Qed.
Lemma start_e_post n c st : start defs (S n) (CPost c) st = sres_stream (post_constraint c st). Proof. reflexivity. Qed.
Lemma start_e_panic n site st : start defs (S n) (CPanicG site) st = SErr (Nat.eqb site 0) site. Proof. reflexivity. Qed.
Lemma start_e_probe n tag st : start defs (S n) (CProbe tag) st = SUnit (log_event st (probe_event tag st)). Proof. reflexivity. Qed.
Lemma start_e_sq n u v st : start defs (S n) (CSq u v) st =
  match first_number u with Some z => sres_stream (state_unify st (tnum (z * z)) v) | None => SEmpty end. Proof. reflexivity. Qed.
Lemma start_e_force n x st : start defs (S n) (CForceAns x) st =
  ltac:(let t := eval cbn [start] in (start defs (S n) (CForceAns x) st) in exact t).
Proof. reflexivity. Qed.
Lemma start_e_enforce n st : start defs (S n) CEnforceFd st =
  if verify_all_bound st
  then start defs n (onceo_from [[CForceAns (list_term (map (fun p => TVar (fst p) false) (st_dstore st)))]]) st
  else SErr false panic_site_verify_all_bound. Proof. reflexivity. Qed.

Lemma reify_result n x st : match start defs (S n) (CReify x) st with SUnit _ | SErr _ _ => True | _ => False end.
Proof.
  cbn [start]. destruct (walk_star dfuel (st_smap st) x); [|exact I].
  destruct (reify_s dfuel (st_smap st) (st_nextv st) t) as [[r nv]|]; [|exact I].
  match goal with |- match ?F (st_cstore st) ?S0 with _ => _ end => generalize S0 end.
  induction (st_cstore st) as [|[id c] r' IHr]; intros s0; [exact I|].
  destruct c; try apply IHr.
  destruct (walk_star_pairs (st_smap st) ps) as [[ps'|]|]; [apply IHr|exact I|exact I].
Qed.

(* every answer of the stream a goal starts is a Sem-answer of the goal *)
Theorem start_sem : forall n g st a, SemS (start defs n g st) a -> Sem g st a.
Proof.
  induction n as [|n IH]; intros g st a H; [destruct H|].
  assert (Hstep : forall l a, SemS (step_with (start defs n) l) a -> SemL l a) by (apply step_with_sem; exact IH).
  destruct g.
  - rewrite start_e_succeed in H. cbn in H. subst. constructor.
  - rewrite start_e_fail in H. destruct H.
  - rewrite start_e_eq in H. apply sres_stream_sem in H. constructor; exact H.
  - rewrite start_e_diseq in H. apply sres_stream_sem in H. constructor; exact H.
  - rewrite start_e_conj in H. apply lazy_bind_k_sem in H. destruct H as [b [H1 H2]]. apply pause_k_sem in H1. econstructor; eauto.
  - rewrite start_e_conde in H. revert H. induction gs as [|c r IHr]; cbn [fold_right]; [intros []|]. intros H. apply mplus_k_sem in H. destruct H as [H|H].
    + apply S_conde with (c := c); [left; reflexivity|apply IH, H].
    + cbn [SemL] in H. specialize (IHr H). inversion IHr; subst. eapply S_conde; [right; eassumption|assumption].
  - rewrite start_e_fresh in H. cbn [SemS] in H. apply pause_k_sem in H. constructor; exact H.
  - rewrite start_e_closure in H.
    destruct (elab defs efuel k rho (GConj gs) (st_nextv st)) as [c nv] eqn:E. eapply S_closure; [exact E|apply IH, H].
  - rewrite start_e_call in H. destruct (find_def r defs) as [d|] eqn:Ed; [|destruct H].
    destruct (elab defs efuel k (combine (d_params d) args) (GConj [d_body d]) (st_nextv st)) as [c nv] eqn:E.
    eapply S_call; [exact Ed|exact E|apply IH, H].
  - rewrite start_conda in H.
    destruct (mature (step_with (start defs n)) mfuel (start defs n g1 st)) eqn:E.
    + apply S_conda_skip. apply IH, H.
    + apply bind_sem in H. destruct H as [b [H1 H2]]. rewrite <- E in H1.
      apply (mature_sem _ Hstep) in H1. eapply S_conda_commit; [apply IH, H1|exact H2].
    + apply bind_sem in H. destruct H as [b [H1 H2]]. rewrite <- E in H1.
      apply (mature_sem _ Hstep) in H1. eapply S_conda_commit; [apply IH, H1|exact H2].
    + apply bind_sem in H. destruct H as [b [H1 H2]]. rewrite <- E in H1.
      apply (mature_sem _ Hstep) in H1. eapply S_conda_commit; [apply IH, H1|exact H2].
    + destruct H.
  - rewrite start_condu in H.
    destruct (mature (step_with (start defs n)) mfuel (start defs n g1 st)) eqn:E.
    + apply S_condu_skip. apply IH, H.
    + apply bind_sem in H. destruct H as [b [H1 H2]]. apply trunc_sem in H1. rewrite <- E in H1.
      apply (mature_sem _ Hstep) in H1. eapply S_condu_commit; [apply IH, H1|exact H2].
    + apply bind_sem in H. destruct H as [b [H1 H2]]. apply trunc_sem in H1. rewrite <- E in H1.
      apply (mature_sem _ Hstep) in H1. eapply S_condu_commit; [apply IH, H1|exact H2].
    + apply bind_sem in H. destruct H as [b [H1 H2]]. apply trunc_sem in H1. rewrite <- E in H1.
      apply (mature_sem _ Hstep) in H1. eapply S_condu_commit; [apply IH, H1|exact H2].
    + destruct H.
  - rewrite start_e_anyo in H. apply S_anyo. apply IH, H.
  - rewrite start_e_everyg in H.
    match type of H with SemS (let '(cs, nv) := ?X in _) _ => destruct X as [cs0 nv0] eqn:E end.
    eapply S_everyg; [exact E|apply IH, H].
  - rewrite start_e_project in H. destruct (project_env st rho xs rho) as [rho'|] eqn:Ep; [|destruct H].
    match type of H with SemS (let '(c, nv) := ?X in _) _ => destruct X as [c0 nv0] eqn:E end.
    eapply S_project; [exact Ep|exact E|apply IH, H].
  - rewrite start_e_dom in H. apply sres_stream_sem in H. constructor; exact H.
  - rewrite start_e_post in H. apply sres_stream_sem in H. constructor; exact H.
  - rewrite start_e_panic in H. destruct H.
  - rewrite start_e_probe in H. cbn [SemS] in H. subst. constructor.
  - rewrite start_e_sq in H. destruct (first_number u) as [z|] eqn:Ez; [|destruct H]. apply sres_stream_sem in H. econstructor; eauto.
  - rewrite start_e_force in H. destruct (wk (st_smap st) x) as [l|v any| |t1 t2|tg ts] eqn:E.
    + destruct (dom_get st (TVal l)) eqn:Ed; cbn [SemS] in H; subst; apply S_force_other; rewrite E; exact I.
    + destruct (dom_get st (TVar v any)) as [d|] eqn:Ed.
      * assert (G : forall vals acc, SemS (fold_left (fun acc z => mplus (sres_stream (state_unify st (tnum z) (TVar v any))) (LDelay acc)) vals acc) a ->
                    SemS acc a \/ exists z, In z vals /\ state_unify st (tnum z) (TVar v any) = SOk a).
        { induction vals as [|z r IHr]; intros acc Ha; [left; exact Ha|]. cbn [fold_left] in Ha.
          destruct (IHr _ Ha) as [H1|[z' [Hin Hz]]].
          - apply mplus_sem in H1. destruct H1 as [H1|H1]; [right; exists z; split; [left; reflexivity|apply sres_stream_sem, H1]|left; exact H1].
          - right. exists z'. split; [right; exact Hin|exact Hz]. }
        destruct (G _ _ H) as [[]|[z [Hin Hz]]]. eapply S_force_var; eauto.
      * cbn [SemS] in H. subst. apply S_force_other. rewrite E, Ed. exact I.
    + destruct (dom_get st TEmpty) eqn:Ed; cbn [SemS] in H; subst; apply S_force_other; rewrite E; exact I.
    + destruct (dom_get st (TCons t1 t2)); eapply S_force_cons; eauto; apply IH, H.
    + destruct (dom_get st (TComp tg ts)); eapply S_force_comp; eauto; apply IH, H.
  - rewrite start_e_enforce in H. destruct (verify_all_bound st) eqn:Ev; [|destruct H]. apply S_enforce; [exact Ev|apply IH, H].
  - pose proof (reify_result n x st) as R.
    destruct (start defs (S n) (CReify x) st) eqn:E; try contradiction.
    cbn [SemS] in H. subst. apply (S_reify x st a n). exact E.
Qed.

Theorem step_sem l a : SemS (step defs l) a -> SemL l a.
Proof. apply step_with_sem. intros g st b. apply start_sem. Qed.

(* membership in the reference stream semantics implies Sem-membership *)
Lemma startq_unfold g st : startq defs g st = start defs sfuel g st.
Proof. reflexivity. Qed.

Lemma in_sem :
  (forall l a, inL (startq defs) l a -> SemL l a) /\ (forall s a, inS (startq defs) s a -> SemS s a).
Proof.
  apply in_mutind.
  - intros st g a _ IH. cbn [SemL]. rewrite startq_unfold in IH. exact (start_sem sfuel g st a IH).
  - intros st g a _ IH. cbn [SemL]. rewrite startq_unfold in IH. exact (start_sem sfuel g st a IH).
  - intros s a _ IH. exact IH.
  - intros l1 l2 a _ IH. left. exact IH.
  - intros l1 l2 a _ IH. right. exact IH.
  - intros l1 l2 a _ IH. left. exact IH.
  - intros l1 l2 a _ IH. right. exact IH.
  - intros l g b a _ IH1 _ IH2. cbn [SemL]. exists b. split; [exact IH1|]. rewrite startq_unfold in IH2. exact (start_sem sfuel g b a IH2).
  - intros l g b a _ IH1 _ IH2. cbn [SemL]. exists b. split; [exact IH1|]. rewrite startq_unfold in IH2. exact (start_sem sfuel g b a IH2).
  - intros a. reflexivity.
  - intros l a _ IH. exact IH.
  - intros a l. left. reflexivity.
  - intros b l a _ IH. right. exact IH.
Qed.

(* every answer Solver::next delivers, after any number of engine steps, is a Sem-answer of the
   stream it was run on; in particular of the goal the stream was started from *)
Theorem next_sound k u s a rest u' : next defs k u s = NAnswer a rest u' -> SemS s a.
Proof.
  intros H. destruct (next_answer defs _ _ _ _ _ _ H) as [n R].
  apply (proj2 in_sem). eapply (runs_in _ (startq_succeed defs)); [exact R|left; reflexivity].
Qed.

Theorem next_sound_goal k u n g st a rest u' :
  next defs k u (start defs n g st) = NAnswer a rest u' -> Sem g st a.
Proof. intros H. apply start_sem with (n := n). eapply next_sound; exact H. Qed.

(* ... and so is every answer of a run to exhaustion *)
Theorem drain_sound k s ys a : drain defs k s = Some ys -> In a ys -> SemS s a.
Proof.
  intros H Hin. destruct (drain_runs defs _ _ _ H) as [n R].
  apply (proj2 in_sem). eapply (runs_in _ (startq_succeed defs)); [exact R|exact Hin].
Qed.
End Sem.
