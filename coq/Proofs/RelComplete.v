(* Completeness through relation calls (C24, C17, C02): programs built from ==, !=, domains, constraints,
   interleaving conjunction / disjunction, fresh AND CALLS of recursively defined relations.  The reading of
   a call is a predicate on the VALUES of its arguments (RelV, step-indexed); the one obligation per
   relation is that the predicate unfolds to the reading of the elaborated body (H_unfold).  Then: if a
   valuation th solves the starting state and satisfies the reading, some answer is delivered that a
   valuation th' solves which agrees with th on every variable that existed at the start (the variables
   drawn while running are chosen by th'). *)
From Coq Require Import List ZArith Bool Arith Lia.
From PV Require Import Model.Term Model.Subst Model.Unify Model.FD Model.State Model.Engine Spec.StreamSem
  Proofs.FDProofs Proofs.UnifyProofs Proofs.DiseqProofs Proofs.MonoProofs Proofs.StreamProofs Proofs.EngineProofs Proofs.SemProofs
  Proofs.DenProofs Proofs.KeyStream Proofs.Acyc Proofs.BodyInv Proofs.AcycState Proofs.FDDen Proofs.FDComp Proofs.FrameProofs
  Proofs.FDEq Proofs.DisunifyC Proofs.ElabAll Proofs.FDProg Proofs.PureElab Proofs.FairProofs Proofs.Complete0 Proofs.ForceC
  Proofs.ScopeElab Proofs.ScopeState.
Import ListNotations.
Local Open Scope nat_scope.

(* ------------------------------------------------------------------ valuations that agree below a counter *)
Definition agree (n : nat) (th th' : val) : Prop := forall v, v < n -> th v = th' v.
Lemma agree_refl n th : agree n th th. Proof. intros v _. reflexivity. Qed.
Lemma agree_sym n th th' : agree n th th' -> agree n th' th. Proof. intros H v L. symmetry. apply H, L. Qed.
Lemma agree_trans n m a b c : n <= m -> agree n a b -> agree m b c -> agree n a c.
Proof. intros L H1 H2 v Hv. rewrite (H1 v Hv). apply H2. lia. Qed.
Lemma agree_le n m a b : n <= m -> agree m a b -> agree n a b.
Proof. intros L H v Hv. apply H. lia. Qed.

Lemma app_agree n th th' : agree n th th' ->
  (forall t, tb n t -> app th t = app th' t) /\ (forall ts, tsb n ts -> apps th ts = apps th' ts).
Proof.
  intros A. apply term_terms_ind; cbn [app apps]; intros; try reflexivity.
  - apply A. apply H. cbn. left. reflexivity.
  - apply tb_cons in H1 as [H1 H2]. rewrite H, H0; auto.
  - rewrite H; auto.
  - rewrite H, H0; auto.
    + intros v Hv. apply H1. cbn [tsvars]. apply in_or_app. right. exact Hv.
    + intros v Hv. apply H1. cbn [tsvars]. apply in_or_app. left. exact Hv.
Qed.
Lemma numv_agree n th th' t z : agree n th th' -> tb n t -> numv th t z -> numv th' t z.
Proof. intros A B H. unfold numv in *. rewrite <- (proj1 (app_agree n th th' A) t B). exact H. Qed.
Lemma sat_agree n th th' s : agree n th th' -> smapb n s -> sat th s -> sat th' s.
Proof.
  intros A B H x t Hin. destruct (B x t Hin) as [Lx Bt]. rewrite <- (A x Lx), <- (proj1 (app_agree n th th' A) t Bt). apply H, Hin.
Qed.
Lemma list_of_term_tb n : forall u, tb n u -> Forall (tb n) (list_of_term u).
Proof.
  induction u; intros H; cbn [list_of_term]; try (constructor; [exact H|constructor]); [constructor|].
  apply tb_cons in H as [H1 H2]. constructor; auto.
Qed.
Lemma Forall2_numv_agree n th th' : agree n th th' -> forall ts zs, Forall (tb n) ts -> Forall2 (numv th) ts zs -> Forall2 (numv th') ts zs.
Proof.
  intros A. induction ts as [|t r IH]; intros zs B H; inversion H; subst; constructor.
  - inversion B; subst. eapply numv_agree; eauto.
  - inversion B; subst. apply IH; assumption.
Qed.
Lemma choldG_agree n th th' c : agree n th th' -> cb n c -> choldG th c -> choldG th' c.
Proof.
  intros A B H. pose proof (numv_agree n th th') as N. destruct c; cbn [choldG choldF cb] in *.
  - intros Hs. apply H. apply (sat_agree n th' th); [apply agree_sym, A|exact B|exact Hs].
  - destruct B as [B1 B2]. destruct H as [a [b [H1 [H2 H3]]]]. exists a, b. repeat split; eauto.
  - destruct B as [B1 [B2 B3]]. destruct H as [a [b [r H]]]. exists a, b, r. repeat split; try apply H; eapply N; eauto; apply H.
  - destruct B as [B1 [B2 B3]]. destruct H as [a [b [r H]]]. exists a, b, r. repeat split; try apply H; eapply N; eauto; apply H.
  - destruct B as [B1 [B2 B3]]. destruct H as [a [b [r H]]]. exists a, b, r. repeat split; try apply H; eapply N; eauto; apply H.
  - destruct B as [B1 B2]. destruct H as [a [b [H1 [H2 H3]]]]. exists a, b. repeat split; eauto.
  - destruct H as [L [zs [F D]]]. split; [exact L|]. exists zs. split; [|exact D].
    eapply Forall2_numv_agree; eauto. apply list_of_term_tb, B.
  - destruct B as [B1 B2]. destruct H as [zs [F D]]. exists zs. split; [|exact D]. eapply Forall2_numv_agree; eauto.
  - destruct B as [B1 [B2 B3]]. destruct H as [a [b [r H]]]. exists a, b, r. repeat split; try apply H; eapply N; eauto; apply H.
  - destruct B as [B1 [B2 B3]]. destruct H as [a [b [r H]]]. exists a, b, r. repeat split; try apply H; eapply N; eauto; apply H.
Qed.
Lemma MstG_agree n th th' st : agree n th th' -> stbn n st -> MstG th st -> MstG th' st.
Proof.
  intros A [B1 [B2 B3]] [H1 [H2 H3]]. split; [eapply sat_agree; eauto|]. split.
  - intros i c Hin. eapply choldG_agree; [exact A|apply (B2 i c Hin)|apply (H2 i c Hin)].
  - intros x d Hin. destruct (H3 x d Hin) as [z [Hz Mz]]. exists z. split; [|exact Mz]. rewrite <- (A x (B3 x d Hin)). exact Hz.
Qed.

(* ------------------------------------------------------------------ the fragment and its reading *)
Fixpoint flatV (g : cgoal) : Prop :=
  match g with
  | CSucceed | CFail | CEq _ _ | CDiseq _ _ | CPost _ => True
  | CDom _ d => wf' d
  | CConj k a b => k = BFS /\ flatV a /\ flatV b
  | CConde k gs => k = BFS /\ (fix all (l : list cgoal) : Prop := match l with [] => True | c :: r => flatV c /\ all r end) gs
  | CFresh k a => k = BFS /\ flatV a
  | CCall k _ _ => k = BFS
  | CClosure k _ _ => k = BFS
  | CEveryg k _ _ _ _ => k = BFS
  | _ => False
  end.

(* the bodies of a for-loop, one per element, elaborated when the loop is reached (the local function of [start]) *)
Definition everyg_mk (defs : list (nat * def)) (k : kind) (rho : env) (x : nat) (css : list (list goal)) : list term -> nat -> list cgoal * nat :=
  fix mk (es : list term) (nv : nat) : list cgoal * nat :=
  match es with
  | [] => ([], nv)
  | e :: r =>
      let '(c, n1) := elab defs efuel k ((x, e) :: rho) (GConj (map GConj css)) nv in
      let '(cs, n2) := mk r n1 in (c :: cs, n2)
  end.
Lemma everyg_mk_cons defs k rho x css e r nv : everyg_mk defs k rho x css (e :: r) nv =
  (let '(c, n1) := elab defs efuel k ((x, e) :: rho) (GConj (map GConj css)) nv in
   let '(cs, n2) := everyg_mk defs k rho x css r n1 in (c :: cs, n2)).
Proof. reflexivity. Qed.
Lemma start_everyg defs n k rho x elems css st : start defs (S n) (CEveryg k rho x elems css) st =
  (let '(cs, nv) := everyg_mk defs k rho x css elems (st_nextv st) in start defs n (from_iter k cs) (set_nextv st nv)).
Proof. reflexivity. Qed.
Lemma everyg_scope defs k rho x css : forall es m, envb m rho -> Forall (tb m) es ->
  m <= snd (everyg_mk defs k rho x css es m) /\ Forall (gb (snd (everyg_mk defs k rho x css es m))) (fst (everyg_mk defs k rho x css es m)).
Proof.
  induction es as [|e r IH]; intros m He Ht; [split; [cbn; lia|constructor]|]. rewrite everyg_mk_cons.
  inversion Ht as [|? ? Te Tr]; subst.
  assert (He' : envb m ((x, e) :: rho)).
  { intros y t [E|Hin]; [inversion E; subst; exact Te|apply (He y t Hin)]. }
  pose proof (elab_scope defs efuel k ((x, e) :: rho) (GConj (map GConj css)) m He') as [L1 B1].
  destruct (elab defs efuel k ((x, e) :: rho) (GConj (map GConj css)) m) as [c n1]. cbn [fst snd] in *.
  assert (He1 : envb n1 rho) by (intros y t Hin; eapply tb_mono; [exact L1|apply (He y t Hin)]).
  assert (Tr1 : Forall (tb n1) r) by (eapply Forall_impl; [|exact Tr]; intros t Ht'; eapply tb_mono; eauto).
  destruct (IH n1 He1 Tr1) as [L2 B2].
  destruct (everyg_mk defs k rho x css r n1) as [cs n2]. cbn [fst snd] in *.
  split; [lia|]. constructor; [eapply gb_mono; eauto|exact B2].
Qed.

Section RelC.
Variable defs : list (nat * def).
(* RelV k r vals : the relation r holds of the argument values, with a derivation of height at most k *)
Variable RelV : nat -> nat -> list term -> Prop.

Inductive DenV : nat -> val -> cgoal -> Prop :=
| V_succeed k th : DenV k th CSucceed
| V_eq k th u v : app th u = app th v -> DenV k th (CEq u v)
| V_diseq k th u v : app th u <> app th v -> DenV k th (CDiseq u v)
| V_dom k th x d : (exists z, numv th x z /\ mem d z) -> DenV k th (CDom x d)
| V_post k th c : choldG th c -> DenV k th (CPost c)
| V_conj k th kd a b : DenV k th a -> DenV k th b -> DenV k th (CConj kd a b)
| V_conde k th kd gs c : In c gs -> DenV k th c -> DenV k th (CConde kd gs)
| V_fresh k th kd a : DenV k th a -> DenV k th (CFresh kd a)
| V_call k th kd r args : RelV k r (map (app th) args) -> DenV k th (CCall kd r args)
(* a closure { } block is elaborated when it is reached, at the counter of the state it meets: its reading is the
   reading of that body, at EVERY counter m above its environment and for every valuation that gives the terms of
   the environment the same values, for some choice of the variables drawn at m and after *)
| V_closure k th kd rho gs :
    (forall m th0, envb m rho -> (forall x t, In (x, t) rho -> app th0 t = app th t) ->
       exists th', agree m th0 th' /\ DenV k th' (fst (elab defs efuel kd rho (GConj gs) m)) /\
                   flatV (fst (elab defs efuel kd rho (GConj gs) m))) ->
    DenV (S k) th (CClosure kd rho gs)
(* for x in elems { .. }: the conjunction of the bodies, one per element, elaborated when the loop is reached *)
| V_everyg k th kd rho x elems css :
    (forall m th0, envb m rho -> Forall (tb m) elems ->
       (forall y t, In (y, t) rho -> app th0 t = app th t) -> map (app th0) elems = map (app th) elems ->
       exists th', agree m th0 th' /\ DenV k th' (from_iter kd (fst (everyg_mk defs kd rho x css elems m))) /\
                   flatV (from_iter kd (fst (everyg_mk defs kd rho x css elems m)))) ->
    DenV (S k) th (CEveryg kd rho x elems css).

Lemma map_app_agree n th th' args : agree n th th' -> Forall (tb n) args -> map (app th) args = map (app th') args.
Proof. intros A. induction 1; cbn [map]; [reflexivity|]. rewrite IHForall, (proj1 (app_agree n th th' A) x H). reflexivity. Qed.

Lemma gb_conde_in n k gs c : gb n (CConde k gs) -> In c gs -> gb n c.
Proof. intros H Hin. unfold gb in H. apply (proj1 (gall_conde (Agb n) k gs)) in H. rewrite Forall_forall in H. apply H, Hin. Qed.

Lemma DenV_agree k n th th' : agree n th th' -> forall g, DenV k th g -> gb n g -> DenV k th' g.
Proof.
  intros A g HD. revert th' A. induction HD; intros th' A B; pose proof (app_agree n th th' A) as [AP _].
  - constructor.
  - destruct B as [B1 B2]. constructor. rewrite <- (AP u B1), <- (AP v B2). exact H.
  - destruct B as [B1 B2]. constructor. rewrite <- (AP u B1), <- (AP v B2). exact H.
  - constructor. destruct H as [z [Hz Mz]]. exists z. split; [eapply numv_agree; eauto|exact Mz].
  - constructor. eapply choldG_agree; eauto.
  - destruct B as [B1 B2]. constructor; [apply IHHD1|apply IHHD2]; assumption.
  - econstructor; [exact H|]. apply IHHD; [exact A|]. eapply gb_conde_in; eauto.
  - constructor. apply IHHD; [exact A|exact B].
  - constructor. rewrite <- (map_app_agree n th th' args A B). exact H.
  - constructor. intros m th0 He Hv. apply (H m th0 He). intros x t Hin. rewrite (Hv x t Hin). symmetry. apply AP. apply (B x t Hin).
  - destruct B as [B1 B2]. constructor. intros m th0 He Ht Hv Hm. apply (H m th0 He Ht).
    + intros y t Hin. rewrite (Hv y t Hin). symmetry. apply AP. apply (B1 y t Hin).
    + rewrite Hm. symmetry. apply (map_app_agree n th th' elems A B2).
Qed.

Lemma DenV_eq_inv k th u v : DenV k th (CEq u v) -> app th u = app th v. Proof. inversion 1; auto. Qed.
Lemma DenV_diseq_inv k th u v : DenV k th (CDiseq u v) -> app th u <> app th v. Proof. inversion 1; auto. Qed.
Lemma DenV_dom_inv k th x d : DenV k th (CDom x d) -> exists z, numv th x z /\ mem d z. Proof. inversion 1; auto. Qed.
Lemma DenV_post_inv k th c : DenV k th (CPost c) -> choldG th c. Proof. inversion 1; auto. Qed.
Lemma DenV_conj_inv k th kd a b : DenV k th (CConj kd a b) -> DenV k th a /\ DenV k th b. Proof. inversion 1; auto. Qed.
Lemma DenV_conde_inv k th kd gs : DenV k th (CConde kd gs) -> exists c, In c gs /\ DenV k th c. Proof. inversion 1; eauto. Qed.
Lemma DenV_fresh_inv k th kd a : DenV k th (CFresh kd a) -> DenV k th a. Proof. inversion 1; auto. Qed.
Lemma DenV_call_inv k th kd r args : DenV k th (CCall kd r args) -> RelV k r (map (app th) args). Proof. inversion 1; auto. Qed.

Lemma DenV_closure_inv k th kd rho gs : DenV k th (CClosure kd rho gs) -> exists k', k = S k' /\
  forall m th0, envb m rho -> (forall x t, In (x, t) rho -> app th0 t = app th t) ->
    exists th', agree m th0 th' /\ DenV k' th' (fst (elab defs efuel kd rho (GConj gs) m)) /\ flatV (fst (elab defs efuel kd rho (GConj gs) m)).
Proof. inversion 1; subst. eexists. split; [reflexivity|assumption]. Qed.

Lemma DenV_everyg_inv k th kd rho x elems css : DenV k th (CEveryg kd rho x elems css) -> exists k', k = S k' /\
  forall m th0, envb m rho -> Forall (tb m) elems ->
    (forall y t, In (y, t) rho -> app th0 t = app th t) -> map (app th0) elems = map (app th) elems ->
    exists th', agree m th0 th' /\ DenV k' th' (from_iter kd (fst (everyg_mk defs kd rho x css elems m))) /\
                flatV (from_iter kd (fst (everyg_mk defs kd rho x css elems m))).
Proof. inversion 1; subst. eexists. split; [reflexivity|assumption]. Qed.

(* what completeness means for one goal started in one state *)
Definition Claim (th : val) (g : cgoal) (st : state) : Prop :=
  exists a th', agree (st_nextv st) th th' /\ Good3 th' a /\ stb a /\ st_nextv st <= st_nextv a /\
    forall n, inSe defs (start defs n g st) a.

Lemma op_claim (Q : val -> Prop) st r th g :
  sresCP Q st r -> sresB st r -> Good3 th st -> stb st -> Q th ->
  (forall st', r = SOk st' -> GoodS st') ->
  (forall n, start defs (S n) g st = sres_stream r) ->
  Claim th g st.
Proof.
  intros HC HB [HM G] B HQ HG E. destruct r as [st'| | |]; cbn [sresCP sresB] in *.
  - exists st', th. split; [apply agree_refl|]. split; [split; [apply HC; assumption|apply HG; reflexivity]|].
    destruct HB as [B' En]. split; [exact B'|]. split; [lia|]. intros n. destruct n; [apply ISe_err|]. rewrite E. apply ISe_unit.
  - exfalso. apply (HC th HM HQ).
  - exists st, th. split; [apply agree_refl|]. split; [split; assumption|]. split; [exact B|]. split; [lia|].
    intros n. destruct n; [apply ISe_err|]. rewrite E. apply ISe_err.
  - exists st, th. split; [apply agree_refl|]. split; [split; assumption|]. split; [exact B|]. split; [lia|].
    intros n. destruct n; [apply ISe_err|]. rewrite E. apply ISe_err.
Qed.

Definition call_ok (k : nat) : Prop := forall r args th st,
  RelV k r (map (app th) args) -> Good3 th st -> stb st -> Forall (tb (st_nextv st)) args -> Claim th (CCall BFS r args) st.

Definition late_ok (k : nat) : Prop := forall c th st,
  DenV k th c -> flatV c -> Good3 th st -> stb st -> gb (st_nextv st) c -> Claim th c st.

Lemma completeV_step k : call_ok k -> (forall k', k = S k' -> late_ok k') ->
  forall g, flatV g -> forall th st, DenV k th g -> Good3 th st -> stb st -> gb (st_nextv st) g -> Claim th g st.
Proof.
  intros HCall HLate. fix IH 1. intros g.
  destruct g as [| |u v|u v|k0 g1 g2|k0 gs|k0 g|k0 rho gs|k0 r args|a b c|a b c|g|k0 rho x elems cs|k0 rho xs gs|x d|c|site|tag|u v|x| |x]; cbn [flatV]; intros Hf th st HD G B HB; try contradiction.
  - (* succeed *)
    exists st, th. split; [apply agree_refl|]. split; [exact G|]. split; [exact B|]. split; [lia|].
    intros n. destruct n; [apply ISe_err|]. cbn [start]. apply ISe_unit.
  - inversion HD.
  - (* eq *) apply DenV_eq_inv in HD. destruct HB as [B1 B2].
    apply (op_claim (fun th => app th u = app th v) st (state_unify st u v)); auto.
    + apply state_unify_C; apply G.
    + apply state_unify_B; assumption.
    + intros st' E. apply (state_unify_ref st u v st' (proj2 G) E).
  - (* diseq *) apply DenV_diseq_inv in HD. destruct HB as [B1 B2].
    apply (op_claim (fun th => app th u <> app th v) st (state_disunify st u v)); auto.
    + apply state_disunify_C.
    + apply state_disunify_B; assumption.
    + intros st' E. apply (state_disunify_ref st u v st' (proj2 G) E).
  - (* conj *) destruct Hf as [-> [Hf1 Hf2]]. apply DenV_conj_inv in HD as [H1 H2]. destruct HB as [B1 B2].
    destruct (IH g1 Hf1 th st H1 G B B1) as [a1 [th1 [A1 [G1 [S1 [L1 I1]]]]]].
    assert (D2 : DenV k th1 g2) by (eapply DenV_agree; eauto).
    destruct (IH g2 Hf2 th1 a1 D2 G1 S1 (gb_mono _ _ _ L1 B2)) as [a2 [th2 [A2 [G2 [S2 [L2 I2]]]]]].
    exists a2, th2. split; [eapply agree_trans; eauto|]. split; [exact G2|]. split; [exact S2|]. split; [lia|].
    intros n. destruct n as [|n]; [apply ISe_err|]. cbn [start lazy_bind_k pause_k]. unfold lazy_bind.
    destruct (is_succeed g2) eqn:Es.
    + apply is_succeed_eq in Es. subst g2. specialize (I2 (S O)). cbn [start] in I2. inversion I2; subst.
      apply ISe_lazy, ILe_pause. apply I1.
    + destruct (is_fail g2) eqn:Ef; [apply is_fail_eq in Ef; subst g2; inversion D2|].
      apply ISe_lazy. eapply ILe_bind; [apply ILe_pause, I1|apply I2].
  - (* conde *) destruct Hf as [-> Hf]. apply DenV_conde_inv in HD as [c [H0 H1]].
    assert (Hc : Claim th c st).
    { pose proof (gb_conde_in _ _ _ _ HB H0) as Bc. clear HB.
      induction gs as [|c0 r IHr]; [destruct H0|]. destruct Hf as [F0 Fr]. destruct H0 as [<-|Hin].
      - apply (IH c0 F0 th st H1 G B Bc).
      - apply IHr; assumption. }
    destruct Hc as [a [th' [A1 [G1 [S1 [L1 I1]]]]]]. exists a, th'. split; [exact A1|]. split; [exact G1|]. split; [exact S1|]. split; [exact L1|].
    intros n. destruct n as [|n]; [apply ISe_err|]. cbn [start mplus_k]. clear Hf HB.
    induction gs as [|c0 r IHr]; [destruct H0|]. cbn [fold_right]. destruct H0 as [->|Hin].
    + apply mplus_e_l. apply I1.
    + apply mplus_e_r, ILe_delay. apply IHr, Hin.
  - (* fresh *) destruct Hf as [-> Hf]. apply DenV_fresh_inv in HD as H0.
    destruct (IH g Hf th st H0 G B HB) as [a1 [th1 [A1 [G1 [S1 [L1 I1]]]]]].
    exists a1, th1. split; [exact A1|]. split; [exact G1|]. split; [exact S1|]. split; [exact L1|].
    intros n. destruct n as [|n]; [apply ISe_err|]. cbn [start pause_k]. apply ISe_lazy, ILe_pause. apply I1.
  - (* closure *) subst k0. apply DenV_closure_inv in HD as [k' [Ek P]].
    destruct (P (st_nextv st) th HB (fun _ _ _ => eq_refl)) as [th' [A [HD' Hf']]].
    pose proof (elab_scope defs efuel BFS rho (GConj gs) (st_nextv st) HB) as [L Bc].
    destruct (elab defs efuel BFS rho (GConj gs) (st_nextv st)) as [c nv] eqn:Ee. cbn [fst snd] in *.
    assert (G1 : Good3 th' (set_nextv st nv)).
    { destruct G as [HM HG]. split; [|exact HG]. apply (MstG_agree (st_nextv st) th th' st A B) in HM. exact HM. }
    destruct (HLate k' Ek c th' (set_nextv st nv) HD' Hf' G1 (stb_nextv st nv L B) Bc) as [a [th2 [A2 [G2 [S2 [L2 I2]]]]]].
    cbn [set_nextv st_nextv] in A2, L2.
    exists a, th2. split; [eapply agree_trans; eauto|]. split; [exact G2|]. split; [exact S2|]. split; [lia|].
    intros n. destruct n as [|n]; [apply ISe_err|]. cbn [start]. rewrite Ee. apply I2.
  - (* call *) subst k0. apply DenV_call_inv in HD. apply HCall; assumption.
  - (* for *) subst k0. apply DenV_everyg_inv in HD as [k' [Ek P]]. destruct HB as [HB1 HB2].
    destruct (P (st_nextv st) th HB1 HB2 (fun _ _ _ => eq_refl) eq_refl) as [th' [A [HD' Hf']]].
    pose proof (everyg_scope defs BFS rho x cs elems (st_nextv st) HB1 HB2) as [L Bc].
    destruct (everyg_mk defs BFS rho x cs elems (st_nextv st)) as [gs nv] eqn:Ee. cbn [fst snd] in *.
    assert (Bi : gb nv (from_iter BFS gs)) by (apply (s_from_iter (Agb nv) I I); exact Bc).
    assert (G1 : Good3 th' (set_nextv st nv)).
    { destruct G as [HM HG]. split; [|exact HG]. apply (MstG_agree (st_nextv st) th th' st A B) in HM. exact HM. }
    destruct (HLate k' Ek (from_iter BFS gs) th' (set_nextv st nv) HD' Hf' G1 (stb_nextv st nv L B) Bi) as [a [th2 [A2 [G2 [S2 [L2 I2]]]]]].
    cbn [set_nextv st_nextv] in A2, L2.
    exists a, th2. split; [eapply agree_trans; eauto|]. split; [exact G2|]. split; [exact S2|]. split; [lia|].
    intros n. destruct n as [|n]; [apply ISe_err|]. rewrite start_everyg, Ee. apply I2.
  - (* dom *) apply DenV_dom_inv in HD.
    apply (op_claim (fun th => exists z, numv th x z /\ mem d z) st (post_domain x d st)); auto.
    + apply post_domain_C; [apply G|exact Hf].
    + apply post_domain_B; assumption.
    + intros st' E. apply (post_domain_ref x d st st' (proj2 G) Hf E).
  - (* post *) apply DenV_post_inv in HD.
    apply (op_claim (fun th => choldG th c) st (post_constraint c st)); auto.
    + apply post_constraint_C; apply G.
    + apply post_constraint_B; assumption.
    + intros st' E. apply (post_constraint_ref c st st' (proj2 G) E).
Qed.

Hypothesis RelV0 : forall r vals, ~ RelV 0 r vals.
(* the one obligation per relation: a derivation of height k+1 unfolds to the reading (at height k) of the
   body elaborated at ANY counter m above the arguments, for a valuation that agrees with th below m *)
Hypothesis H_unfold : forall k r args th m, RelV (S k) r (map (app th) args) -> Forall (tb m) args ->
  exists d c nv th', find_def r defs = Some d /\
    elab defs efuel BFS (combine (d_params d) args) (GConj [d_body d]) m = (c, nv) /\
    agree m th th' /\ DenV k th' c /\ flatV c.

Lemma envb_combine m : forall ps args, Forall (tb m) args -> envb m (combine ps args).
Proof.
  induction ps as [|p r IH]; intros args H x t Hin; [destruct Hin|]. destruct args as [|a ar]; [destruct Hin|].
  inversion H; subst. destruct Hin as [E|Hin]; [inversion E; subst; assumption|apply (IH ar H3 x t Hin)].
Qed.

Lemma call_from_late k : late_ok k -> call_ok (S k).
Proof.
  intros HL r args th st HR G B HA.
  destruct (H_unfold k r args th (st_nextv st) HR HA) as [d [c [nv [th' [Ed [Ee [A [HD Hf]]]]]]]].
  pose proof (elab_scope defs efuel BFS (combine (d_params d) args) (GConj [d_body d]) (st_nextv st) (envb_combine _ _ _ HA)) as [L Bc].
  rewrite Ee in L, Bc. cbn [fst snd] in L, Bc.
  assert (G1 : Good3 th' (set_nextv st nv)).
  { destruct G as [HM HG]. split; [|exact HG]. apply (MstG_agree (st_nextv st) th th' st A B) in HM. exact HM. }
  destruct (HL c th' (set_nextv st nv) HD Hf G1 (stb_nextv st nv L B) Bc) as [a [th2 [A2 [G2 [S2 [L2 I2]]]]]].
  cbn [set_nextv st_nextv] in A2, L2.
  exists a, th2. split; [eapply agree_trans; eauto|]. split; [exact G2|]. split; [exact S2|]. split; [lia|].
  intros n. destruct n as [|n]; [apply ISe_err|]. cbn [start]. rewrite Ed, Ee. apply I2.
Qed.

Theorem completeV_all : forall k, call_ok k /\ late_ok k.
Proof.
  induction k as [|k [IHc IHl]].
  - assert (C0 : call_ok 0) by (intros r args th st HR; exfalso; apply (RelV0 _ _ HR)).
    split; [exact C0|]. intros c th st HD Hf G B HB. apply (completeV_step 0 C0); auto. intros k' E. discriminate.
  - pose proof (call_from_late k IHl) as C1. split; [exact C1|].
    intros c th st HD Hf G B HB. apply (completeV_step (S k) C1); auto. intros k' E. inversion E; subst. exact IHl.
Qed.
Theorem completeV_call : forall k, call_ok k.
Proof. intros k. apply completeV_all. Qed.

Theorem completeV : forall k g th st, DenV k th g -> flatV g -> Good3 th st -> stb st -> gb (st_nextv st) g -> Claim th g st.
Proof. intros k g th st HD Hf G B HB. apply (proj2 (completeV_all k) g th st HD Hf G B HB). Qed.

Corollary completeV_delivered k g th st : DenV k th g -> flatV g -> MstG th st -> GoodS st -> stb st -> gb (st_nextv st) g ->
  exists a th' n, agree (st_nextv st) th th' /\ MstG th' a /\ emitsE (startq defs) n (startq defs g st) a.
Proof.
  intros HD Hf HM HG B HB. destruct (completeV k g th st HD Hf (conj HM HG) B HB) as [a [th' [A [[M _] [_ [_ I]]]]]].
  destruct (proj2 (ine_emits defs) _ _ (I sfuel)) as [n Hn]. exists a, th', n. auto.
Qed.
End RelC.
