(* Disequality constraints (C02, C22): what a stored constraint means, and that posting,
   re-checking and normalising preserve that meaning.

   A constraint KDiseq ps stands for "not all equations of ps hold".  For a substitution th:
     eqs th ps      : every pair (x, t) of ps has th x = app th t
     holds th ps    : ~ eqs th ps *)
From Coq Require Import List ZArith Bool Arith Lia.
From PV Require Import Model.Term Model.Subst Model.Unify Model.FD Model.State Proofs.UnifyProofs.
Import ListNotations.

Definition eqs (th : val) (ps : smap) : Prop := sat th ps.
Definition holds (th : val) (ps : smap) : Prop := ~ eqs th ps.

Lemma sat_app th a b : sat th (a ++ b) <-> sat th a /\ sat th b.
Proof.
  unfold sat. split.
  - intros H. split; intros x t HI; apply H; apply in_or_app; auto.
  - intros [H1 H2] x t HI. apply in_app_or in HI as [HI|HI]; auto.
Qed.

(* unify_pairs is unification of all pairs in sequence *)
Lemma unify_pairs_spec f : forall ps s ext,
  match unify_pairs f s ext ps with
  | UOk s' ext' => (exists new, s' = new ++ s /\ ext' = new ++ ext) /\
                   forall th, sat th s' <-> (sat th s /\ eqs th ps)
  | UFail => forall th, sat th s -> ~ eqs th ps
  | UOOF => True
  end.
Proof.
  induction ps as [|[x t] ps IH]; intros s ext; cbn [unify_pairs].
  - split; [exists []; auto|]. intros th. unfold eqs, sat. cbn [In]. tauto.
  - pose proof (proj1 (unify_spec f) s ext (TVar x false) t) as S1.
    pose proof (proj1 (unify_fail_spec f) s ext (TVar x false) t) as F1.
    destruct (unify f s ext (TVar x false) t) as [s1 e1| |]; cbn [ures_spec ufail_spec] in *; auto.
    + specialize (IH s1 e1). destruct (unify_pairs f s1 e1 ps) as [s2 e2| |]; auto.
      * destruct S1 as [[n1 [-> ->]] S1]. destruct IH as [[n2 [-> ->]] IH].
        split; [exists (n2 ++ n1); rewrite !app_assoc; auto|].
        intros th. rewrite IH, S1. unfold eqs. rewrite sat_cons. cbn [app]. tauto.
      * intros th Hs HE. unfold eqs in HE. rewrite sat_cons in HE. destruct HE as [E1 E2].
        apply (IH th); auto. apply (proj2 S1 th). auto.
    + intros th Hs HE. unfold eqs in HE. rewrite sat_cons in HE. destruct HE as [E1 E2].
      apply (F1 th Hs). exact E1.
Qed.

(* ---------------------------------------------------------------- posting u != v *)
(* the three outcomes of State::disunify, for every th that solves the current substitution *)
Theorem disunify_spec st u v :
  match unify dfuel (st_smap st) [] u v with
  | UFail => forall th, sat th (st_smap st) -> app th u <> app th v             (* already true: nothing stored *)
  | UOk _ [] => forall th, sat th (st_smap st) -> app th u = app th v            (* already false: the goal fails *)
  | UOk _ ext => forall th, sat th (st_smap st) -> (holds th ext <-> app th u <> app th v)  (* stored as KDiseq ext *)
  | UOOF => True
  end.
Proof.
  pose proof (proj1 (unify_spec dfuel) (st_smap st) [] u v) as S1.
  pose proof (proj1 (unify_fail_spec dfuel) (st_smap st) [] u v) as F1.
  destruct (unify dfuel (st_smap st) [] u v) as [s' ext| |]; cbn [ures_spec ufail_spec] in *; auto.
  destruct S1 as [[new [-> E]] S1]. rewrite app_nil_r in E. subst ext.
  assert (K : forall th, sat th (st_smap st) -> (eqs th new <-> app th u = app th v)).
  { intros th Hs. specialize (S1 th). rewrite sat_app in S1. unfold eqs. tauto. }
  destruct new as [|p new].
  - intros th Hs. apply (K th Hs). unfold eqs, sat. cbn [In]. tauto.
  - intros th Hs. unfold holds. rewrite (K th Hs). tauto.
Qed.

(* ---------------------------------------------------------------- re-checking a stored constraint *)
(* DisequalityConstraint::run after the substitution grew: satisfied for good (dropped), violated
   (fail), or replaced by an equivalent constraint over the current substitution *)
Theorem recheck_spec s ps :
  match unify_pairs dfuel s [] ps with
  | UFail => forall th, sat th s -> holds th ps
  | UOk _ [] => forall th, sat th s -> ~ holds th ps
  | UOk _ ext => forall th, sat th s -> (holds th ext <-> holds th ps)
  | UOOF => True
  end.
Proof.
  pose proof (unify_pairs_spec dfuel ps s []) as H.
  destruct (unify_pairs dfuel s [] ps) as [s' ext| |]; auto.
  destruct H as [[new [-> E]] H]. rewrite app_nil_r in E. subst ext.
  assert (K : forall th, sat th s -> (eqs th new <-> eqs th ps)).
  { intros th Hs. specialize (H th). rewrite sat_app in H. unfold eqs in *. tauto. }
  destruct new as [|p new].
  - intros th Hs. unfold holds. intros HN. apply HN. apply (K th Hs). unfold eqs, sat. cbn [In]. tauto.
  - intros th Hs. unfold holds. rewrite (K th Hs). tauto.
Qed.

(* ---------------------------------------------------------------- subsumption and normalisation *)
(* a.subsumes(b): the equations of b imply those of a, so the disequality a implies the disequality b *)
Theorem subsumes_sound a b : subsumes a b = true -> forall th, holds th a -> holds th b.
Proof.
  unfold subsumes. pose proof (unify_pairs_spec dfuel a b []) as H.
  destruct (unify_pairs dfuel b [] a) as [s' ext| |]; try discriminate.
  destruct ext; [|discriminate]. intros _ th Ha Hb. apply Ha.
  destruct H as [[new [-> E]] H]. rewrite app_nil_r in E. subst new. cbn [app] in H.
  apply (H th). exact Hb.
Qed.

Definition store_holds (th : val) (store : list (nat * constraint)) : Prop :=
  forall i ps, In (i, KDiseq ps) store -> holds th ps.

Lemma store_holds_app th a b : store_holds th (a ++ b) <-> store_holds th a /\ store_holds th b.
Proof.
  unfold store_holds. split.
  - intros H. split; intros i ps HI; apply (H i ps); apply in_or_app; auto.
  - intros [H1 H2] i ps HI. apply in_app_or in HI as [HI|HI]; eauto.
Qed.

(* push_and_normalize keeps the meaning of the store: the new store holds exactly when the old store
   and the new constraint hold (only implied constraints are dropped) *)
Theorem push_and_normalize_den store id ps th :
  store_holds th (fst (push_and_normalize store id (KDiseq ps))) <-> (store_holds th store /\ holds th ps).
Proof.
  unfold push_and_normalize. cbn [is_diseq].
  destruct (stored_subsumes_new store ps) eqn:E; cbn [fst].
  - split; [|tauto]. intros H. split; auto.
    unfold stored_subsumes_new in E. apply existsb_exists in E as [[i c] [HI Hc]]. cbn [snd] in Hc.
    destruct c; cbn [is_diseq] in Hc; try discriminate.
    apply (subsumes_sound _ _ Hc). apply (H i). exact HI.
  - rewrite store_holds_app. split.
    + intros [H1 H2]. assert (Hps : holds th ps) by (apply (H2 id); left; reflexivity). split; auto.
      intros i qs HI.
      destruct (subsumes ps qs) eqn:Es.
      * apply (subsumes_sound _ _ Es). exact Hps.
      * apply (H1 i). apply filter_In. split; auto. cbn [snd is_diseq]. rewrite Es. reflexivity.
    + intros [H1 H2]. split.
      * intros i qs HI. apply filter_In in HI as [HI _]. apply (H1 i). exact HI.
      * intros i qs [HI|[]]. inversion HI; subst. exact H2.
Qed.

(* the constraints reported as dropped are exactly the ones that left (or never entered) the store:
   the hook bookkeeping of State::with_constraint (C22) *)
Theorem push_and_normalize_count store id c :
  let '(store', dropped) := push_and_normalize store id c in
  length store' + length dropped = S (length store).
Proof.
  unfold push_and_normalize. destruct (is_diseq c) as [ps|].
  - destruct (stored_subsumes_new store ps); cbn [length]; [lia|].
    rewrite app_length. cbn [length].
    assert (H : forall (l : list (nat * constraint)) (p : nat * constraint -> bool),
              length (filter p l) + length (filter (fun x => negb (p x)) l) = length l).
    { intros l p. induction l as [|x l IH]; cbn [filter length]; auto. destruct (p x); cbn [negb length]; lia. }
    specialize (H store (fun ic => match is_diseq (snd ic) with Some qs => negb (subsumes ps qs) | None => true end)).
    match goal with |- length ?a + 1 + length ?b = _ => assert (E : length b = length (filter (fun x => negb
      (match is_diseq (snd x) with Some qs => negb (subsumes ps qs) | None => true end)) store)) end.
    { f_equal. apply filter_ext. intros [i c']. cbn [snd]. destruct (is_diseq c'); [rewrite negb_involutive|]; reflexivity. }
    lia.
  - rewrite app_length. cbn [length]. lia.
Qed.
