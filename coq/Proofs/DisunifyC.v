(* != loses no solution (C02): every valuation that solves the state and makes the two sides different
   solves the state != returns, and != fails only when no such valuation exists. *)
From Coq Require Import List ZArith Bool Arith Lia.
From PV Require Import Model.Term Model.Subst Model.Unify Model.FD Model.State Model.Engine
  Proofs.UnifyProofs Proofs.DiseqProofs Proofs.MonoProofs Proofs.DenProofs Proofs.FDDen Proofs.FDComp.
Import ListNotations.

Theorem state_disunify_C st u v : sresCP (fun th => app th u <> app th v) st (state_disunify st u v).
Proof.
  unfold state_disunify. pose proof (disunify_spec st u v) as D.
  destruct (unify dfuel (st_smap st) [] u v) as [s' [|e r]| |]; cbn [sresCP]; auto.
  - intros th [Hs _] Hne. apply Hne. apply (D th Hs).
  - intros th HM Hne. apply (wn_C st (KDiseq (e :: r)) th HM). cbn [choldG choldF]. apply (D th (proj1 HM)). exact Hne.
Qed.
