(* Quiescence (C16): in every state of every stream of every goal the front end elaborates, every stored
   arithmetic constraint (ltefd, plusfd, minusfd, timesfd, diseqfd, plusz, timesz) still has an operand that
   does not resolve to a number - a constraint whose operands are all known has been decided and is gone;
   none is ever left stored unchecked with stale operands.  (And, as in KeyProofs, every stored
   disequality has unbound keys and constraint identities are unique.)  The invariant is
   re-established by run_constraints from ANY state, which is what makes it hold after every binding. *)
From Coq Require Import List ZArith Bool Arith Lia.
From PV Require Import Model.Term Model.Subst Model.Unify Model.FD Model.State Model.Engine
  Proofs.UnifyProofs Proofs.MonoProofs Proofs.KeyStream Proofs.BodyInv.
From PV Require Import Proofs.QProofs.
Import ListNotations.

Definition QInv : state -> Prop := QProofs.Inv.

Lemma qinv_unify st u v : QInv st -> sresPb QInv (state_unify st u v).
Proof. intros H. pose proof (QProofs.state_unify_inv st u v H) as R. destruct (state_unify st u v); cbn in *; auto. Qed.
Lemma qinv_disunify st u v : QInv st -> sresPb QInv (state_disunify st u v).
Proof. intros H. pose proof (QProofs.state_disunify_inv st u v H) as R. destruct (state_disunify st u v); cbn in *; auto. Qed.
Lemma qinv_dom x d st : QInv st -> sresPb QInv (post_domain x d st).
Proof. intros H. pose proof (QProofs.post_domain_inv x d st H) as R. destruct (post_domain x d st); cbn in *; auto. Qed.
Lemma qinv_post c st : QInv st -> sresPb QInv (post_constraint c st).
Proof. intros H. pose proof (QProofs.post_constraint_inv c st H) as R. destruct (post_constraint c st); cbn in *; auto. Qed.

Theorem start_quiescent defs n g st : QInv st -> body g -> pbS QInv (start defs n g st).
Proof. apply (start_pb QInv qinv_unify qinv_disunify qinv_dom qinv_post (fun st n H => H) (fun st e H => H)). Qed.
Theorem next_quiescent defs k used s a rest used' : pbS QInv s -> next defs k used s = NAnswer a rest used' -> QInv a /\ pbS QInv rest.
Proof. apply (next_pb QInv qinv_unify qinv_disunify qinv_dom qinv_post (fun st n H => H) (fun st e H => H)). Qed.
Lemma qinv_empty n : QInv (empty_state n).
Proof. apply QProofs.inv_empty. Qed.

(* reading: in a quiescent state a stored arithmetic constraint is never ground *)
Theorem stored_not_ground st id u v w : QInv st ->
  In (id, KPlus u v w) (st_cstore st) \/ In (id, KMinus u v w) (st_cstore st) \/ In (id, KTimes u v w) (st_cstore st) \/
  In (id, KPlusZ u v w) (st_cstore st) \/ In (id, KTimesZ u v w) (st_cstore st) ->
  ~ (exists a b r, wk (st_smap st) u = tnum a /\ wk (st_smap st) v = tnum b /\ wk (st_smap st) w = tnum r).
Proof.
  intros [_ K] Hin [a [b [r [Ea [Eb Er]]]]].
  assert (H : QProofs.okc (st_smap st) (KPlus u v w)).
  { destruct Hin as [H|[H|[H|[H|H]]]]; destruct (K _ _ H) as [[]|Hk]; exact Hk. }
  cbn in H. destruct H as [t [[<-|[<-|[<-|[]]]] Hn]]; [rewrite Ea in Hn|rewrite Eb in Hn|rewrite Er in Hn]; discriminate.
Qed.
Theorem stored_not_ground2 st id u v : QInv st ->
  In (id, KLte u v) (st_cstore st) \/ In (id, KDiseqFd u v) (st_cstore st) ->
  ~ (exists a b, wk (st_smap st) u = tnum a /\ wk (st_smap st) v = tnum b).
Proof.
  intros [_ K] Hin [a [b [Ea Eb]]].
  assert (H : QProofs.okc (st_smap st) (KLte u v)).
  { destruct Hin as [H|H]; destruct (K _ _ H) as [[]|Hk]; exact Hk. }
  cbn in H. destruct H as [t [[<-|[<-|[]]] Hn]]; [rewrite Ea in Hn|rewrite Eb in Hn]; discriminate.
Qed.
