(* Every substitution the engine ever holds is acyclic (C01).
   The four state operations preserve acyclicity of the state's substitution (GenPass instance:
   every binding any operation makes is of a walked, hence unbound, variable to a number, or comes
   from a successful unification), so every state inside every stream of every goal the front end
   elaborates has an acyclic substitution (BodyInv), for all programs, definitions and fuel. *)
From Coq Require Import List ZArith Bool Arith Lia.
From PV Require Import Model.Term Model.Subst Model.Unify Model.FD Model.State Model.Engine
  Proofs.UnifyProofs Proofs.MonoProofs Proofs.KeyStream.
From PV Require Import Proofs.Acyc Proofs.GenPass Proofs.BodyInv.
Import ListNotations.

Definition AR (st st' : state) : Prop := acyc (st_smap st) -> acyc (st_smap st').
Definition acycS (st : state) : Prop := acyc (st_smap st).

Lemma acyc_bind_num s x v a n : acyc s -> wk s x = TVar v a -> acyc ((v, tnum n) :: s).
Proof.
  intros A E. constructor; [exact A|eapply wk_var_unbound; eauto|reflexivity|]. cbn. intros [].
Qed.

Lemma AR_wc st id c : AR st (with_constraint_id st id c).
Proof. unfold AR. rewrite with_constraint_id_smap. auto. Qed.
Lemma AR_take st id : AR st (fst (take_constraint st id)).
Proof. unfold AR. rewrite take_constraint_smap. auto. Qed.
Lemma AR_unify st u v s' e : unify dfuel (st_smap st) [] u v = UOk s' e -> AR st (set_smap st s').
Proof. intros E A. cbn. eapply (proj1 (unify_acyc dfuel)); eauto. Qed.

Section Ops.
Let refl : forall st, AR st st := fun st A => A.
Let trans : forall a b c, AR a b -> AR b c -> AR a c := fun a b c H1 H2 A => H2 (H1 A).
Let bump : forall st, AR st (bump_nextc st) := fun st A => A.
Let ins : forall st x v a d, wk (st_smap st) x = TVar v a -> AR st (dom_insert st v d) := fun st x v a d _ A => A.
Let bind : forall st x v a n, wk (st_smap st) x = TVar v a -> AR st (dom_remove (set_smap st ((v, tnum n) :: st_smap st)) v).
Proof. intros st x v a n E A. cbn. eapply acyc_bind_num; eauto. Qed.
Let bindz : forall st x v a n, wk (st_smap st) x = TVar v a -> AR st (set_smap st ((v, tnum n) :: st_smap st)).
Proof. intros st x v a n E A. cbn. eapply acyc_bind_num; eauto. Qed.
Let domrm : forall st x t, In (x, t) (st_smap st) -> AR st (dom_remove st x) := fun st x t _ A => A.
Let log : forall st e, AR st (log_event st e) := fun st e A => A.

Theorem state_unify_acyc st u v : acycS st -> sresPb acycS (state_unify st u v).
Proof.
  intros A. pose proof (state_unify_R AR refl trans AR_wc bump AR_take ins bind bindz AR_unify domrm log st u v) as H.
  destruct (state_unify st u v); cbn [sresR sresPb] in *; auto; apply H; exact A.
Qed.
Theorem state_disunify_acyc st u v : acycS st -> sresPb acycS (state_disunify st u v).
Proof.
  intros A. pose proof (state_disunify_R AR refl trans AR_wc bump st u v) as H.
  destruct (state_disunify st u v); cbn [sresR sresPb] in *; auto; apply H; exact A.
Qed.
Theorem post_domain_acyc x d st : acycS st -> sresPb acycS (post_domain x d st).
Proof.
  intros A. pose proof (post_domain_R AR refl trans AR_wc bump AR_take ins bind bindz x d st) as H.
  destruct (post_domain x d st); cbn [sresR sresPb] in *; auto; apply H; exact A.
Qed.
Theorem post_constraint_acyc c st : acycS st -> sresPb acycS (post_constraint c st).
Proof.
  intros A. pose proof (post_constraint_R AR refl trans AR_wc bump AR_take ins bind bindz c st) as H.
  destruct (post_constraint c st); cbn [sresR sresPb] in *; auto; apply H; exact A.
Qed.
End Ops.

(* every state of every stream, every delivered answer *)
Theorem start_acyc defs n g st : acycS st -> body g -> pbS acycS (start defs n g st).
Proof.
  apply (start_pb acycS state_unify_acyc state_disunify_acyc post_domain_acyc post_constraint_acyc
           (fun st n A => A) (fun st e A => A)).
Qed.
Theorem next_acyc defs k used s a rest used' : pbS acycS s -> next defs k used s = NAnswer a rest used' -> acycS a /\ pbS acycS rest.
Proof.
  apply (next_pb acycS state_unify_acyc state_disunify_acyc post_domain_acyc post_constraint_acyc
           (fun st n A => A) (fun st e A => A)).
Qed.
Lemma empty_acyc n : acycS (empty_state n).
Proof. constructor. Qed.
