(* The assertion of DisequalityConstraint::walk_star (panic site 22) is unreachable from a query.

   Two modes of streams.  "Body" streams hold goals without a reification step; every state in them
   satisfies Inv (KeyProofs), including the answers they deliver, because those flow on into later
   goals.  "Tail" streams end in the reification goal, which is only ever the last conjunct of a
   query: Inv holds for every state that is still going to be used, and nothing is claimed about the
   final answers, which nothing consumes.  The reification step itself is started only in
   Inv-states, where the assertion cannot fail. *)
From Coq Require Import List ZArith Bool Arith Lia.
From PV Require Import Model.Term Model.Subst Model.Unify Model.FD Model.State Model.Engine
  Proofs.UnifyProofs Proofs.PanicProofs Proofs.ElabAll Proofs.KeyProofs.
Import ListNotations.

Definition A_body (g : cgoal) : Prop :=
  match g with CReify _ => False | CPanicG s => s <> 22 | _ => True end.
Definition body : cgoal -> Prop := gall A_body.

Lemma A_body_elab g : elab_atom g -> A_body g.
Proof. destruct g; cbn; auto. intros [->|[->| ->]]; discriminate. Qed.

Fixpoint tailg (g : cgoal) : Prop :=
  match g with
  | CReify _ => True
  | CFresh _ a => tailg a
  | CConj _ a b => (body a /\ tailg b) \/ (is_succeed b = true /\ tailg a)
  | _ => body g
  end.

Lemma body_tailg : forall g, body g -> tailg g.
Proof.
  fix IH 1. intros g. destruct g; cbn; try (intros H; exact H).
  - intros [Ha Hb]. left. split; [exact Ha|apply IH, Hb].
  - apply IH.
  - intros _. exact I.
Qed.

Lemma conj_new_tail k a b : body a -> tailg b -> tailg (conj_new k a b).
Proof.
  intros Ha Hb. unfold conj_new. destruct (is_succeed a && is_succeed b); [exact I|].
  destruct (is_fail a || is_fail b); [exact I|]. left. split; assumption.
Qed.

Lemma reify_goal_tail q : tailg (reify_goal q).
Proof. cbn. left. split; [repeat split|right; split; [reflexivity|exact I]]. Qed.

Lemma query_goal_tail defs nvars names bodyg : tailg (fst (query_goal defs nvars names bodyg)).
Proof.
  unfold query_goal.
  pose proof (elab_all A_body A_body_elab defs efuel BFS (combine names (map (fun i => TVar i false) (seq 0 nvars))) (GConj bodyg) (S nvars)) as H.
  destruct (elab defs efuel BFS _ (GConj bodyg) (S nvars)) as [cs nv]. cbn [fst] in *.
  cbn [from_array fold_right tailg]. apply conj_new_tail; [exact I|]. apply conj_new_tail; [exact H|].
  unfold conj_new. cbn [is_succeed is_fail andb orb]. rewrite Bool.andb_false_l.
  match goal with |- tailg (if ?b then _ else _) => destruct b; [exact I|] end.
  right. split; [reflexivity|apply reify_goal_tail].
Qed.

Definition sresI (r : sres) : Prop := match r with SOk st => Inv st | _ => True end.
Lemma sresInv_I r : sresInv r -> sresI r. Proof. destruct r; auto. Qed.

Definition not22 (o : bool) (site : nat) : Prop := o = true \/ site <> 22.

(* ------------------------------------------------------------------ body mode *)
Fixpoint bodyL (l : lzy) : Prop :=
  match l with
  | LBind l' g | LBindDFS l' g => bodyL l' /\ body g
  | LMPlus a b | LMPlusDFS a b => bodyL a /\ bodyL b
  | LPause st g | LPauseDFS st g => Inv st /\ body g
  | LDelay s => bodyS s
  end
with bodyS (s : stream) : Prop :=
  match s with
  | SEmpty => True
  | SUnit st => Inv st
  | SLazy l => bodyL l
  | SCons st l => Inv st /\ bodyL l
  | SErr o site => not22 o site
  end.

Lemma sres_stream_body r : sresI r -> okr r -> bodyS (sres_stream r).
Proof.
  destruct r; cbn; auto; intros _ H; [left; reflexivity|right].
  destruct H as [->|[->| ->]]; discriminate.
Qed.
Lemma mplus_body s l : bodyS s -> bodyL l -> bodyS (mplus s l).
Proof. destruct s; cbn; tauto. Qed.
Lemma mplus_dfs_body s l : bodyS s -> bodyL l -> bodyS (mplus_dfs s l).
Proof. destruct s; cbn; tauto. Qed.
Lemma mplus_k_body k s l : bodyS s -> bodyL l -> bodyS (mplus_k k s l).
Proof. destruct k; [apply mplus_body|apply mplus_dfs_body]. Qed.
Lemma lazy_bind_body l g : bodyL l -> body g -> bodyS (lazy_bind l g).
Proof. unfold lazy_bind. destruct (is_succeed g), (is_fail g); cbn; auto. Qed.
Lemma lazy_bind_dfs_body l g : bodyL l -> body g -> bodyS (lazy_bind_dfs l g).
Proof. unfold lazy_bind_dfs. destruct (is_succeed g), (is_fail g); cbn; auto. Qed.
Lemma lazy_bind_k_body k l g : bodyL l -> body g -> bodyS (lazy_bind_k k l g).
Proof. destruct k; [apply lazy_bind_body|apply lazy_bind_dfs_body]. Qed.
Lemma bind_body s g : bodyS s -> body g -> bodyS (bind s g).
Proof.
  unfold bind. destruct (is_succeed g); [auto|]. destruct (is_fail g); [intros; exact I|].
  destruct s; cbn; auto.
  - apply lazy_bind_body.
  - intros [H1 H2] H3. auto.
Qed.
Lemma bind_dfs_body s g : bodyS s -> body g -> bodyS (bind_dfs s g).
Proof.
  unfold bind_dfs. destruct (is_succeed g); [auto|]. destruct (is_fail g); [intros; exact I|].
  destruct s; cbn; auto.
  - apply lazy_bind_dfs_body.
  - intros [H1 H2] H3. auto.
Qed.
Lemma pause_k_body k st g : Inv st -> body g -> bodyL (pause_k k st g).
Proof. destruct k; cbn; auto. Qed.
Lemma step_with_body startf : (forall g st, Inv st -> body g -> bodyS (startf g st)) -> forall l, bodyL l -> bodyS (step_with startf l).
Proof.
  intros Hs. induction l; cbn [step_with bodyL]; intros H; auto.
  - destruct H. apply bind_body; auto.
  - destruct H. apply mplus_body; auto.
  - destruct H. apply Hs; auto.
  - destruct H. apply bind_dfs_body; auto.
  - destruct H. apply mplus_dfs_body; auto.
  - destruct H. apply Hs; auto.
Qed.
Lemma mature_body stepf : (forall l, bodyL l -> bodyS (stepf l)) -> forall f s, bodyS s -> bodyS (mature stepf f s).
Proof. intros Hs. induction f as [|f IH]; intros s H; [left; reflexivity|]. cbn [mature]. destruct s; auto. Qed.
Lemma trunc_body s : bodyS s -> bodyS (trunc_of s).
Proof. destruct s; cbn; tauto. Qed.

Lemma inv_nextv st n : Inv st -> Inv (set_nextv st n).
Proof. exact (fun H => H). Qed.
Lemma inv_log st e : Inv st -> Inv (log_event st e).
Proof. exact (fun H => H). Qed.

Lemma body_conde k gs : body (CConde k gs) <-> Forall body gs.
Proof. apply gall_conde. Qed.

Section WithDefs.
Variable defs : list (nat * def).

Lemma elab_body f k rho g n : body (fst (elab defs f k rho g n)).
Proof. apply elab_all. exact A_body_elab. Qed.

Lemma start_body : forall n g st, Inv st -> body g -> bodyS (start defs n g st).
Proof.
  induction n as [|n IH]; intros g st HP Hg; [left; reflexivity|].
  assert (Hstep : forall l, bodyL l -> bodyS (step_with (start defs n) l)) by (apply step_with_body; exact IH).
  assert (BA : forall l, Forall body l -> body (from_array BFS l)) by (intros; apply from_array_all; [exact A_body_elab|assumption]).
  destruct g; cbn [start].
  - exact HP.
  - exact I.
  - apply sres_stream_body; [apply sresInv_I, state_unify_inv, HP|apply state_unify_okr].
  - apply sres_stream_body; [apply sresInv_I, state_disunify_inv, HP|apply state_disunify_okr].
  - destruct Hg. apply lazy_bind_k_body; [apply pause_k_body|]; assumption.
  - apply body_conde in Hg. induction Hg as [|c r Hc Hr IHr]; [exact I|]. cbn [fold_right]. apply mplus_k_body; [apply IH; auto|exact IHr].
  - apply pause_k_body; assumption.
  - pose proof (elab_body efuel k rho (GConj gs) (st_nextv st)) as He.
    destruct (elab defs efuel k rho (GConj gs) (st_nextv st)). apply IH; [apply inv_nextv, HP|exact He].
  - destruct (find_def r defs); [|right; discriminate].
    match goal with |- bodyS (let '(c, nv) := ?X in _) => pose proof (elab_body efuel k (combine (d_params d) args) (GConj [d_body d]) (st_nextv st)) as He; destruct X end.
    apply IH; [apply inv_nextv, HP|exact He].
  - destruct Hg as [H1 [H2 H3]]. pose proof (mature_body _ Hstep mfuel _ (IH g1 st HP H1)) as Hm.
    destruct (mature _ mfuel (start defs n g1 st)) eqn:E; try (apply bind_body; [exact Hm|exact H2]); [apply IH; auto|exact Hm].
  - destruct Hg as [H1 [H2 H3]]. pose proof (mature_body _ Hstep mfuel _ (IH g1 st HP H1)) as Hm.
    destruct (mature _ mfuel (start defs n g1 st)) eqn:E;
      try (apply bind_body; [apply trunc_body; exact Hm|exact H2]); [apply IH; auto|exact Hm].
  - apply IH; [exact HP|]. apply conde_from_all; [exact A_body_elab|]. repeat constructor; [exact Hg|].
    apply anyo_from_all; [exact A_body_elab|]. repeat constructor. exact Hg.
  - match goal with |- bodyS (let '(cs, nv) := ?X in _) => assert (H : Forall body (fst X)) end.
    { clear Hg. generalize (st_nextv st). induction elems as [|e r IHr]; intros nv; [constructor|].
      pose proof (elab_body efuel k ((x, e) :: rho) (GConj (map GConj cs)) nv) as He.
      destruct (elab defs efuel k ((x, e) :: rho) (GConj (map GConj cs)) nv) as [c n1].
      specialize (IHr n1). match goal with |- context [let '(cs0, n2) := ?X in _] => destruct X end.
      constructor; assumption. }
    match goal with |- bodyS (let '(cs, nv) := ?X in _) => destruct X end.
    apply IH; [apply inv_nextv, HP|]. apply from_iter_all; [exact A_body_elab|exact H].
  - destruct (project_env st rho xs rho); [|left; reflexivity].
    match goal with |- bodyS (let '(c, nv) := elab defs efuel k e ?G ?N in _) => pose proof (elab_body efuel k e G N) as He; destruct (elab defs efuel k e G N) end.
    apply IH; [apply inv_nextv, HP|exact He].
  - apply sres_stream_body; [apply sresInv_I, post_domain_inv, HP|apply post_domain_okr].
  - apply sres_stream_body; [apply sresInv_I, post_constraint_inv, HP|apply post_constraint_okr].
  - cbn in Hg. destruct (Nat.eqb site 0); [left; reflexivity|right; exact Hg].
  - apply inv_log, HP.
  - destruct (first_number u); [|exact I]. apply sres_stream_body; [apply sresInv_I, state_unify_inv, HP|apply state_unify_okr].
  - destruct (wk (st_smap st) x) as [l|v any| |t1 t2|tg ts] eqn:E; try exact HP.
    + destruct (dom_get st (TVar v any)) as [f|]; [|exact HP].
      generalize SEmpty (I : bodyS SEmpty). induction (fd_iter_rev f) as [|z r IHr]; intros acc Hacc; [exact Hacc|].
      cbn [fold_left]. apply IHr. apply mplus_body; [|exact Hacc].
      apply sres_stream_body; [apply sresInv_I, state_unify_inv, HP|apply state_unify_okr].
    + destruct (dom_get st (TCons t1 t2)); apply IH; auto; apply BA; repeat constructor.
    + destruct (dom_get st (TComp tg ts)); apply IH; auto; apply BA; apply Forall_forall; intros c Hc;
        apply in_map_iff in Hc; destruct Hc as [v [<- _]]; exact I.
  - destruct (verify_all_bound st); [|right; discriminate].
    apply IH; [exact HP|]. apply onceo_from_all; [exact A_body_elab|]. repeat constructor.
  - destruct Hg.
Qed.

Lemma step_body l : bodyL l -> bodyS (step defs l).
Proof. apply step_with_body. intros; apply start_body; assumption. Qed.

(* ------------------------------------------------------------------ tail mode *)
Fixpoint tailL (l : lzy) : Prop :=
  match l with
  | LBind l' g | LBindDFS l' g => bodyL l' /\ tailg g
  | LMPlus a b | LMPlusDFS a b => tailL a /\ tailL b
  | LPause st g | LPauseDFS st g => Inv st /\ tailg g
  | LDelay s => tailS s
  end
with tailS (s : stream) : Prop :=
  match s with
  | SEmpty | SUnit _ => True
  | SLazy l | SCons _ l => tailL l
  | SErr o site => not22 o site
  end.

Lemma bodyL_tailL : forall l, bodyL l -> tailL l
with bodyS_tailS : forall s, bodyS s -> tailS s.
Proof.
  - intros l. destruct l; cbn; intros H.
    + destruct H. split; [assumption|apply body_tailg; assumption].
    + destruct H. split; apply bodyL_tailL; assumption.
    + destruct H. split; [assumption|apply body_tailg; assumption].
    + destruct H. split; [assumption|apply body_tailg; assumption].
    + destruct H. split; apply bodyL_tailL; assumption.
    + destruct H. split; [assumption|apply body_tailg; assumption].
    + apply bodyS_tailS, H.
  - intros s. destruct s; cbn; intros H.
    + exact I.
    + exact I.
    + apply bodyL_tailL, H.
    + destruct H. apply bodyL_tailL; assumption.
    + exact H.
Qed.

Lemma mplus_tail s l : tailS s -> tailL l -> tailS (mplus s l).
Proof. destruct s; cbn; tauto. Qed.
Lemma mplus_dfs_tail s l : tailS s -> tailL l -> tailS (mplus_dfs s l).
Proof. destruct s; cbn; tauto. Qed.
Lemma bind_tail s g : bodyS s -> tailg g -> tailS (bind s g).
Proof.
  intros Hs Hg. unfold bind. destruct (is_succeed g); [apply bodyS_tailS, Hs|]. destruct (is_fail g); [exact I|].
  destruct s; cbn in *; auto.
  - unfold lazy_bind. destruct (is_succeed g); [cbn; apply bodyL_tailL, Hs|]. destruct (is_fail g); cbn; auto.
  - destruct Hs. auto.
Qed.
Lemma bind_dfs_tail s g : bodyS s -> tailg g -> tailS (bind_dfs s g).
Proof.
  intros Hs Hg. unfold bind_dfs. destruct (is_succeed g); [apply bodyS_tailS, Hs|]. destruct (is_fail g); [exact I|].
  destruct s; cbn in *; auto.
  - unfold lazy_bind_dfs. destruct (is_succeed g); [cbn; apply bodyL_tailL, Hs|]. destruct (is_fail g); cbn; auto.
  - destruct Hs. auto.
Qed.

(* the reification step cannot hit the assertion when it starts in an Inv-state *)
Lemma start_reify_tail n x st : Inv st -> tailS (start defs (S n) (CReify x) st).
Proof.
  intros [_ K]. cbn [start].
  destruct (walk_star dfuel (st_smap st) x); [|left; reflexivity].
  destruct (reify_s dfuel (st_smap st) (st_nextv st) t) as [[r nv]|]; [|left; reflexivity].
  match goal with |- tailS (?F (st_cstore st) ?S0) => generalize S0 end.
  assert (KS : forall id ps, In (id, KDiseq ps) (st_cstore st) -> fresh_keys ps (st_smap st)).
  { intros id ps Hin. destruct (K id ps Hin) as [[]|H]. exact H. }
  revert KS. generalize (st_smap st). intros s0.
  induction (st_cstore st) as [|[id c] r' IHr]; intros KS s1; [exact I|].
  assert (KS' : forall id0 ps, In (id0, KDiseq ps) r' -> fresh_keys ps s0) by (intros; eapply KS; right; eassumption).
  destruct c; try (apply IHr; exact KS').
  pose proof (walk_star_pairs_ok s0 ps (KS id ps (or_introl eq_refl))) as Hok.
  destruct (walk_star_pairs s0 ps) as [[ps'|]|]; [apply IHr; exact KS'|congruence|left; reflexivity].
Qed.

Lemma start_tail : forall g n st, Inv st -> tailg g -> tailS (start defs n g st).
Proof.
  fix IHg 1. intros g n st HP Hg. destruct n as [|n]; [left; reflexivity|].
  destruct g; try (apply bodyS_tailS, start_body; [exact HP|exact Hg]).
  - (* conjunction *)
    cbn [start]. cbn in Hg. destruct Hg as [[Ha Hb]|[Hs Ha]].
    + destruct k; cbn [lazy_bind_k pause_k].
      * unfold lazy_bind. destruct (is_succeed g2); [cbn; split; [exact HP|apply body_tailg, Ha]|].
        destruct (is_fail g2); cbn; auto.
      * unfold lazy_bind_dfs. destruct (is_succeed g2); [cbn; split; [exact HP|apply body_tailg, Ha]|].
        destruct (is_fail g2); cbn; auto.
    + destruct k; cbn [lazy_bind_k pause_k]; [unfold lazy_bind|unfold lazy_bind_dfs]; rewrite Hs; cbn; auto.
  - (* fresh *)
    cbn [start]. destruct k; cbn; auto.
  - apply start_reify_tail, HP.
Qed.

Lemma step_with_tail : forall l, tailL l -> tailS (step defs l).
Proof.
  unfold step. induction l; cbn [step_with tailL]; intros H.
  - destruct H. apply bind_tail; [apply step_body; assumption|assumption].
  - destruct H. apply mplus_tail; auto.
  - destruct H. apply start_tail; assumption.
  - destruct H. apply bind_dfs_tail; [apply step_body; assumption|assumption].
  - destruct H. apply mplus_dfs_tail; auto.
  - destruct H. apply start_tail; assumption.
  - exact H.
Qed.

Lemma next_tail : forall k used s site, tailS s -> next defs k used s = NErr false site -> site <> 22.
Proof.
  induction k as [|k IH]; intros used s site Hs H; destruct s; cbn in H; try discriminate.
  - injection H as -> ->. destruct Hs; [discriminate|assumption].
  - eapply IH; [|exact H]. apply step_with_tail, Hs.
  - injection H as -> ->. destruct Hs; [discriminate|assumption].
Qed.
End WithDefs.

(* a query, from any surface program, never reaches the assertion *)
Theorem query_never_site22 defs nvars names bodyg n k site :
  let '(g, st) := query_goal defs nvars names bodyg in
  next defs k 0 (start defs n g st) = NErr false site -> site <> 22.
Proof.
  pose proof (query_goal_tail defs nvars names bodyg) as HT.
  assert (HI : Inv (snd (query_goal defs nvars names bodyg))).
  { unfold query_goal. destruct (elab defs efuel BFS _ (GConj bodyg) (S nvars)). cbn. apply inv_empty. }
  destruct (query_goal defs nvars names bodyg) as [g st]. cbn [fst snd] in *.
  intros H. eapply next_tail; [|exact H]. apply start_tail; assumption.
Qed.
