(* Substitutions only grow: every state operation, and therefore every answer of every goal (in the
   declarative semantics Sem, hence everything the engine delivers), has a substitution that extends
   the one it started from.  Consequently a valuation that solves an answer solves every
   intermediate state. *)
From Coq Require Import List ZArith Bool Arith Lia.
From PV Require Import Model.Term Model.Subst Model.Unify Model.FD Model.State Model.Engine
  Proofs.UnifyProofs Proofs.ReifyProofs Proofs.SemProofs.
Import ListNotations.

Definition ext (st st' : state) : Prop := exists new, st_smap st' = new ++ st_smap st.
Definition sresE (st : state) (r : sres) : Prop := match r with SOk st' => ext st st' | _ => True end.

Lemma ext_refl st : ext st st. Proof. exists []. reflexivity. Qed.
Lemma ext_trans a b c : ext a b -> ext b c -> ext a c.
Proof. intros [n1 E1] [n2 E2]. exists (n2 ++ n1). rewrite E2, E1, List.app_assoc. reflexivity. Qed.
Lemma ext_same a a' b : st_smap a = st_smap a' -> ext a b -> ext a' b.
Proof. unfold ext. intros ->. auto. Qed.
Lemma ext_same_r a b b' : st_smap b = st_smap b' -> ext a b -> ext a b'.
Proof. unfold ext. intros ->. auto. Qed.

Lemma ext_same_sres st1 st r : st_smap st1 = st_smap st -> sresE st1 r -> sresE st r.
Proof. intros E. destruct r; cbn; auto. apply ext_same, E. Qed.

Lemma sbind_E st r k : sresE st r -> (forall st1, ext st st1 -> sresE st1 (k st1)) -> sresE st (sbind r k).
Proof.
  destruct r as [st1| | |]; cbn [sbind sresE]; auto. intros E1 Hk. specialize (Hk st1 E1).
  destruct (k st1); cbn in *; auto. eapply ext_trans; eauto.
Qed.
Lemma opt_domain_E st o k : (forall d, sresE st (k d)) -> sresE st (opt_domain o k).
Proof. destruct o; cbn; auto. Qed.

Lemma fold_take_smap (dropped : list (nat * constraint)) : forall st,
  st_smap (fold_left (fun s ic => log_event s (UTake (fst ic))) dropped st) = st_smap st.
Proof. induction dropped as [|d r IH]; intros st; cbn [fold_left]; [reflexivity|]. rewrite IH. reflexivity. Qed.
Lemma with_constraint_id_smap st id c : st_smap (with_constraint_id st id c) = st_smap st.
Proof.
  unfold with_constraint_id. destruct (push_and_normalize _ id c) as [store dropped]. rewrite fold_take_smap. reflexivity.
Qed.
Lemma with_new_constraint_smap st c : st_smap (with_new_constraint st c) = st_smap st.
Proof. unfold with_new_constraint. rewrite with_constraint_id_smap. reflexivity. Qed.
Lemma ext_wc st id c : ext st (with_constraint_id st id c).
Proof. exists []. rewrite with_constraint_id_smap. reflexivity. Qed.
Lemma ext_wn st c : ext st (with_new_constraint st c).
Proof. exists []. rewrite with_new_constraint_smap. reflexivity. Qed.

Section Fuelled.
Variable rcs : state -> sres.
Hypothesis rcs_E : forall st, sresE st (rcs st).

Lemma rcs_bind st x t v : sresE st (rcs (dom_remove (set_smap st ((x, t) :: st_smap st)) v)).
Proof.
  pose proof (rcs_E (dom_remove (set_smap st ((x, t) :: st_smap st)) v)) as H.
  destruct (rcs _); cbn in *; auto. destruct H as [new E]. exists (new ++ [(x, t)]). rewrite E. cbn. rewrite <- List.app_assoc. reflexivity.
Qed.
Lemma rcs_bind' st x t : sresE st (rcs (set_smap st ((x, t) :: st_smap st))).
Proof.
  pose proof (rcs_E (set_smap st ((x, t) :: st_smap st))) as H.
  destruct (rcs _); cbn in *; auto. destruct H as [new E]. exists (new ++ [(x, t)]). rewrite E. cbn. rewrite <- List.app_assoc. reflexivity.
Qed.

Lemma process_domain_E st x d : sresE st (process_domain rcs st x d).
Proof.
  unfold process_domain. destruct (wk (st_smap st) x) as [[]|v a| | |]; try exact I.
  - match goal with |- sresE _ (if ?b then _ else _) => destruct b end; [apply ext_refl|exact I].
  - unfold update_var_domain, resolve_storable_domain.
    assert (R : forall dd, sresE st (match fd_singleton_value dd with
                | Some n => rcs (dom_remove (set_smap st ((v, tnum n) :: st_smap st)) v)
                | None => SOk (dom_insert st v dd) end)).
    { intros dd. destruct (fd_singleton_value dd); [apply rcs_bind|exists []; reflexivity]. }
    destruct (find_id v (st_dstore st)) as [old|]; [|apply R]. destruct (fd_intersect old d); [apply R|exact I].
Qed.
Lemma pd_wc st id c x d : sresE st (process_domain rcs (with_constraint_id st id c) x d).
Proof. eapply ext_same_sres; [apply with_constraint_id_smap|apply process_domain_E]. Qed.
Lemma exclude_E ds excl : forall xs st, sresE st (exclude_from_domain rcs ds st xs excl).
Proof.
  induction xs as [|y r IH]; intros st; cbn [exclude_from_domain]; [apply ext_refl|].
  destruct (match y with TVar v _ => find_id v ds | _ => None end); [|apply IH].
  destruct (fd_diff f excl); [|exact I]. apply sbind_E; [apply process_domain_E|intros; apply IH].
Qed.

Variable rcr : nat -> constraint -> state -> sres.
Hypothesis rcr_E : forall id c st, sresE st (rcr id c st).

Lemma arith3_E id c st u v w gr a1 a2 a3 a4 a5 a6 : sresE st (arith3 rcs rcr id c st u v w gr a1 a2 a3 a4 a5 a6).
Proof.
  unfold arith3.
  destruct (get_number (wk (st_smap st) u)), (get_number (wk (st_smap st) v)), (get_number (wk (st_smap st) w));
    try (match goal with |- sresE _ (if ?b then _ else _) => destruct b; [apply ext_refl|exact I] end);
    (destruct (operand_domain st (wk (st_smap st) u)), (operand_domain st (wk (st_smap st) v)),
              (operand_domain st (wk (st_smap st) w)); try apply ext_wc;
     apply sbind_E; [apply process_domain_E|intros st1 _];
     apply sbind_E; [apply process_domain_E|intros st2 _];
     apply sbind_E; [apply process_domain_E|intros st3 _];
     destruct (Nat.eqb _ _); [apply ext_wc|apply rcr_E]).
Qed.

Lemma run_constraint_E id c st : sresE st (run_constraint rcs rcr id c st).
Proof.
  destruct c as [ps|u v|u v w|u v w|u v w|u v|u|u ys n|u v w|u v w]; cbn [run_constraint].
  - destruct (unify_pairs dfuel (st_smap st) [] ps) as [s' [|e ext0]| |]; try exact I; [apply ext_wn|apply ext_refl].
  - destruct (dom_get st (wk (st_smap st) u)), (dom_get st (wk (st_smap st) v)).
    + apply opt_domain_E; intros d1. apply sbind_E; [apply process_domain_E|intros st1 _].
      apply opt_domain_E; intros d2. apply sbind_E; [apply process_domain_E|intros st2 _].
      destruct (Nat.eqb _ _); [apply ext_wc|apply rcr_E].
    + destruct (get_number (wk (st_smap st) v)); [|apply ext_wc]. apply opt_domain_E; intros; apply process_domain_E.
    + destruct (get_number (wk (st_smap st) u)); [|apply ext_wc]. apply opt_domain_E; intros; apply process_domain_E.
    + destruct (get_number (wk (st_smap st) u)), (get_number (wk (st_smap st) v)); try apply ext_wc.
      destruct (Z.leb z z0); [apply ext_refl|exact I].
  - apply arith3_E.
  - apply arith3_E.
  - apply arith3_E.
  - destruct (operand_domain st (wk (st_smap st) u)) as [ud|], (operand_domain st (wk (st_smap st) v)) as [vd|]; try apply ext_wc.
    destruct (fd_is_singleton ud && fd_is_singleton vd).
    + destruct (Z.eqb _ _); [exact I|apply ext_refl].
    + destruct (fd_is_disjoint ud vd) as [[|]|]; try apply ext_refl;
        (destruct (fd_is_singleton ud); [apply opt_domain_E; intros; apply pd_wc|];
         destruct (fd_is_singleton vd); [apply opt_domain_E; intros; apply pd_wc|apply ext_wc]).
  - destruct (wk (st_smap st) u) as [l|xv xa| |h t|g cs]; try exact I; try apply ext_wc;
      (destruct (forallb _ _); [|exact I]; destruct (strictly_increasing _); [|exact I];
       match goal with |- sresE st (rcr ?i ?c (bump_nextc st)) => pose proof (rcr_E i c (bump_nextc st)) as P; destruct (rcr i c (bump_nextc st)); cbn in *; auto end).
  - match goal with |- sresE _ (match ?X with _ => _ end) => destruct X as [[[[x n']|]|]|site] end; try exact I.
    destruct n' as [|z n']; [apply ext_wn|]. destruct (fd_from_vec (z :: n')); [|exact I].
    pose proof (exclude_E (st_dstore (with_new_constraint st (KDistinct2 u x (z :: n')))) f x (with_new_constraint st (KDistinct2 u x (z :: n')))) as P.
    eapply ext_same_sres; [apply (with_new_constraint_smap st (KDistinct2 u x (z :: n')))|exact P].
  - destruct (wk (st_smap st) u) as [[]| | | |], (wk (st_smap st) v) as [[]| | | |], (wk (st_smap st) w) as [[]| | | |];
      try exact I; try apply ext_wc; try apply rcs_bind'; (destruct (Z.eqb _ _); [apply ext_refl|exact I]).
  - destruct (wk (st_smap st) u) as [[]| | | |], (wk (st_smap st) v) as [[]| | | |], (wk (st_smap st) w) as [[]| | | |];
      try exact I; try apply ext_wc; try apply rcs_bind';
      repeat (match goal with |- sresE _ (if ?b then _ else _) => destruct b end);
      try exact I; try apply ext_refl; try apply ext_wc; try apply rcs_bind'.
Qed.
End Fuelled.

Lemma take_constraint_smap st id : st_smap (fst (take_constraint st id)) = st_smap st.
Proof. unfold take_constraint. destruct (find_id id (st_cstore st)); reflexivity. Qed.

Lemma run_constraints_E : forall f st, sresE st (run_constraints f st).
Proof.
  induction f as [|f IH]; intros st; [exact I|]. cbn [run_constraints].
  set (rc := fix rc (g id : nat) (c : constraint) (st0 : state) {struct g} : sres :=
               match g with O => SOOF | S g' => run_constraint (run_constraints f) (rc g') id c st0 end).
  assert (RC : forall g id c st0, sresE st0 (rc g id c st0)).
  { induction g as [|g IHg]; intros; [exact I|]. cbn [rc]. apply run_constraint_E; auto. }
  generalize (map fst (st_cstore st)). intros ids. revert st.
  induction ids as [|id r IHr]; intros st; [apply ext_refl|].
  pose proof (take_constraint_smap st id) as HT.
  destruct (take_constraint st id) as [st1 [c|]]; cbn [fst] in HT.
  - eapply ext_same_sres; [exact HT|]. apply sbind_E; [apply RC|intros; apply IHr].
  - eapply ext_same_sres; [exact HT|]. apply IHr.
Qed.

Lemma run_constraint_top_E : forall g f id c st, sresE st (run_constraint_top g f id c st).
Proof.
  induction g as [|g IH]; intros; [exact I|]. cbn [run_constraint_top].
  apply run_constraint_E; [apply run_constraints_E|apply IH].
Qed.
Lemma post_constraint_E c st : sresE st (post_constraint c st).
Proof. unfold post_constraint. eapply ext_same_sres; [|apply run_constraint_top_E]. reflexivity. Qed.
Lemma post_domain_E x d st : sresE st (post_domain x d st).
Proof. apply process_domain_E, run_constraints_E. Qed.
Lemma process_extension_E ds : forall e st, sresE st (process_extension_fd ds e st).
Proof.
  induction e as [|[x v] r IH]; intros st; cbn [process_extension_fd]; [apply ext_refl|].
  destruct (find_id x ds); [|apply IH].
  apply sbind_E; [apply process_domain_E, run_constraints_E|intros st1 _].
  destruct (find_id x (st_dstore st1)); [|exact I].
  apply sbind_E; [|intros; apply IH]. eapply ext_same_sres; [|apply run_constraints_E]. reflexivity.
Qed.
Lemma state_unify_E st u v : sresE st (state_unify st u v).
Proof.
  unfold state_unify. pose proof (unify_extends dfuel (st_smap st) [] u v) as HE.
  destruct (unify dfuel (st_smap st) [] u v) as [s' e| |]; try exact I.
  destruct (HE s' e eq_refl) as [new [-> _]].
  assert (E0 : ext st (set_smap st (new ++ st_smap st))) by (exists new; reflexivity).
  pose proof (run_constraints_E cfuel (set_smap st (new ++ st_smap st))) as H1.
  destruct (run_constraints cfuel (set_smap st (new ++ st_smap st))) as [st2| | |]; cbn [sbind sresE]; auto.
  pose proof (process_extension_E (st_dstore st2) (rev e) st2) as H2.
  destruct (process_extension_fd (st_dstore st2) (rev e) st2) as [st3| | |]; cbn [sbind sresE]; auto.
  cbn in H1, H2. eapply ext_trans; [exact E0|]. eapply ext_trans; [exact H1|]. exact H2.
Qed.
Lemma state_disunify_E st u v : sresE st (state_disunify st u v).
Proof.
  unfold state_disunify. destruct (unify dfuel (st_smap st) [] u v) as [s' [|e r]| |]; try exact I; [apply ext_wn|apply ext_refl].
Qed.

(* the declarative semantics, hence every delivered answer, only extends the substitution *)
Lemma fold_take_keeps_smap : forall (cs : list (nat * constraint)) s0,
  st_smap (fold_left (fun s ic => fst (take_constraint s (fst ic))) cs s0) = st_smap s0.
Proof. induction cs as [|ic r IH]; intros s0; cbn [fold_left]; [reflexivity|]. rewrite IH. apply take_constraint_smap. Qed.

Ltac op_ext :=
  match goal with
  | H : state_unify ?s ?u ?v = SOk ?a |- ext ?s ?a =>
      let HE := fresh in pose proof (state_unify_E s u v) as HE; rewrite H in HE; exact HE
  | H : state_disunify ?s ?u ?v = SOk ?a |- ext ?s ?a =>
      let HE := fresh in pose proof (state_disunify_E s u v) as HE; rewrite H in HE; exact HE
  | H : post_domain ?x ?d ?s = SOk ?a |- ext ?s ?a =>
      let HE := fresh in pose proof (post_domain_E x d s) as HE; rewrite H in HE; exact HE
  | H : post_constraint ?c ?s = SOk ?a |- ext ?s ?a =>
      let HE := fresh in pose proof (post_constraint_E c s) as HE; rewrite H in HE; exact HE
  end.

Theorem Sem_ext defs : forall g st a, Sem defs g st a -> ext st a.
Proof.
  induction 1; try (apply ext_refl); try op_ext; try (eapply ext_trans; eassumption);
    try match goal with IH : ext (set_nextv ?s ?n) ?a |- ext ?s ?a => exact IH end;
    try assumption.
  - exists []. reflexivity.
  - (* reify *) match goal with H : start _ _ _ _ = SUnit _ |- _ => revert H end. cbn [start].
    destruct (walk_star dfuel (st_smap st) x); [|discriminate].
    destruct (reify_s dfuel (st_smap st) (st_nextv st) t) as [[r nv]|] eqn:Er; [|discriminate].
    destruct (proj1 (reify_s_mono dfuel) _ _ _ _ _ Er) as [_ [new Enew]].
    assert (G : forall cs s0, st_smap s0 = r ->
      forall a0, (fix add (cs : list (nat * constraint)) (s : state) : stream :=
         match cs with
         | [] => SUnit s
         | (_, KDiseq ps) :: r' =>
             match walk_star_pairs (st_smap st) ps with
             | Some (Some ps') => add r' (with_new_constraint s (KDiseq ps'))
             | Some None => SErr false panic_site_walkstar_key
             | None => SErr true 0
             end
         | _ :: r' => add r' s
         end) cs s0 = SUnit a0 -> st_smap a0 = r).
    { induction cs as [|[id c] r' IHr]; intros s0 Hs a0 Ha; [inversion Ha; subst; exact Hs|].
      destruct c; try (eapply IHr; [exact Hs|exact Ha]).
      destruct (walk_star_pairs (st_smap st) ps) as [[ps'|]|]; try discriminate.
      eapply IHr; [|exact Ha]. rewrite with_new_constraint_smap. exact Hs. }
    intros Ha. exists new. rewrite <- Enew. eapply G; [|exact Ha].
    rewrite fold_take_keeps_smap. reflexivity.
Qed.

(* a valuation that solves an answer solves the state the goal started from *)
Lemma sat_app th a b : sat th (a ++ b) -> sat th b.
Proof. intros H x t Hin. apply H. apply in_or_app. right. exact Hin. Qed.
Corollary Sem_sat defs g st a th : Sem defs g st a -> sat th (st_smap a) -> sat th (st_smap st).
Proof. intros H Hs. destruct (Sem_ext defs g st a H) as [new E]. rewrite E in Hs. eapply sat_app; eauto. Qed.
