(* The keys of stored disequalities are unbound (C23, the assert!(kwalk.is_var()) of
   DisequalityConstraint::walk_star; C02's store invariant).

   Inv st :  constraint identities are unique and below the counter, and every pair (x, t) of every
             stored disequality has x unbound in the state's substitution.

   A unification or a domain that shrinks to one value extends the substitution and thereby breaks
   the second part; the code restores it because EVERY extension is immediately followed by a
   complete run_constraints, which re-derives every disequality against the current substitution.
   The proof follows that discipline: run_constraints establishes the key property from ANY state
   with unique identities (no assumption on the keys), and every other step either leaves the
   substitution alone or ends in such a re-run. *)
From Coq Require Import List ZArith Bool Arith Lia.
From PV Require Import Model.Term Model.Subst Model.Unify Model.FD Model.State Model.Engine Proofs.MonoProofs Proofs.UnifyProofs.
Import ListNotations.

(* ------------------------------------------------------------------ keys of an extension are unbound *)
Definition fresh_keys (ps s : smap) : Prop := forall x t, In (x, t) ps -> lookup x s = None.

Lemma lookup_app_none x a b : lookup x (a ++ b) = None -> lookup x b = None.
Proof.
  induction a as [|[y t] a IH]; cbn [List.app lookup]; auto.
  destruct (Nat.eqb y x); [discriminate|auto].
Qed.

Lemma fresh_keys_app n1 n2 s : fresh_keys n1 s -> fresh_keys n2 (n1 ++ s) -> fresh_keys (n2 ++ n1) s.
Proof.
  intros H1 H2 x t Hin. apply in_app_or in Hin. destruct Hin as [Hin|Hin].
  - eapply lookup_app_none. eapply H2. exact Hin.
  - eapply H1. exact Hin.
Qed.

Definition keys_res (s ext : smap) (r : ures) : Prop :=
  match r with
  | UOk s' ext' => exists new, s' = new ++ s /\ ext' = new ++ ext /\ fresh_keys new s
  | _ => True
  end.

Lemma keys_res_refl s ext : keys_res s ext (UOk s ext).
Proof. exists []. repeat split. intros x t []. Qed.

Lemma keys_res_trans s ext s1 e1 r :
  keys_res s ext (UOk s1 e1) -> keys_res s1 e1 r -> keys_res s ext r.
Proof.
  intros [n1 [-> [-> F1]]]. destruct r as [s2 e2| |]; cbn; auto.
  intros [n2 [-> [-> F2]]]. exists (n2 ++ n1). rewrite <- !List.app_assoc. repeat split.
  apply fresh_keys_app; assumption.
Qed.

Lemma wkc_var_unbound s u a b : wkc s u = Some (TVar a b) -> lookup a s = None.
Proof.
  intros H. apply wkc_some in H. destruct H as [_ F]. cbn in F. unfold bound_in in F.
  destruct (lookup a s); [discriminate|reflexivity].
Qed.

Lemma bindv_keys f s ext x t : lookup x s = None -> keys_res s ext (bindv f s ext x t).
Proof.
  intros H. unfold bindv. destruct (occurs f s x t) as [[|]|]; cbn; auto.
  exists [(x, t)]. repeat split. intros y u [E|[]]. inversion E; subst. exact H.
Qed.

Lemma unify_keys : forall f,
  (forall s ext u v, keys_res s ext (unify f s ext u v)) /\
  (forall s ext us vs, keys_res s ext (unify_list f s ext us vs)).
Proof.
  induction f as [|f [IHu IHl]]; [split; intros; exact I|]. split.
  - intros s ext u v. cbn [unify].
    destruct (wkc s u) as [uw|] eqn:Eu; [|exact I]. destruct (wkc s v) as [vw|] eqn:Ev; [|exact I].
    destruct uw as [x|a ab| |h1 t1|g1 c1], vw as [y|b bb| |h2 t2|g2 c2];
      try exact I; try apply keys_res_refl;
      try (apply bindv_keys; eapply wkc_var_unbound; eassumption).
    + destruct (lit_eqb x y); [apply keys_res_refl|exact I].
    + destruct (Nat.eqb a b); [apply keys_res_refl|]. apply bindv_keys. eapply wkc_var_unbound; eassumption.
    + pose proof (IHu s ext h1 h2) as H1. destruct (unify f s ext h1 h2) as [s1 e1| |]; try exact I.
      eapply keys_res_trans; [exact H1|apply IHu].
    + destruct (Nat.eqb g1 g2); [apply IHl|exact I].
  - intros s ext us vs. cbn [unify_list]. destruct us as [|a ar], vs as [|b br]; try exact I; [apply keys_res_refl|].
    pose proof (IHu s ext a b) as H1. destruct (unify f s ext a b) as [s1 e1| |]; try exact I.
    eapply keys_res_trans; [exact H1|apply IHl].
Qed.

Lemma unify_pairs_keys f : forall ps s ext, keys_res s ext (unify_pairs f s ext ps).
Proof.
  induction ps as [|[x t] r IH]; intros s ext; cbn [unify_pairs]; [apply keys_res_refl|].
  pose proof (proj1 (unify_keys f) s ext (TVar x false) t) as H1.
  destruct (unify f s ext (TVar x false) t) as [s1 e1| |]; try exact I.
  eapply keys_res_trans; [exact H1|apply IH].
Qed.

Lemma unify_ext_fresh f s u v s' ext : unify f s [] u v = UOk s' ext -> fresh_keys ext s.
Proof.
  intros E. pose proof (proj1 (unify_keys f) s [] u v) as H. rewrite E in H.
  destruct H as [new [_ [-> F]]]. rewrite List.app_nil_r. exact F.
Qed.
Lemma unify_pairs_ext_fresh f s ps s' ext : unify_pairs f s [] ps = UOk s' ext -> fresh_keys ext s.
Proof.
  intros E. pose proof (unify_pairs_keys f ps s []) as H. rewrite E in H.
  destruct H as [new [_ [-> F]]]. rewrite List.app_nil_r. exact F.
Qed.

(* ------------------------------------------------------------------ the invariant *)
Definition ids (st : state) : list nat := map fst (st_cstore st).
Definition UID (st : state) : Prop := NoDup (ids st) /\ (forall i, In i (ids st) -> i < st_nextc st).
(* every stored disequality has unbound keys, except possibly those whose identity is in S *)
Definition nonground (s : smap) (ts : list term) : Prop := exists t, In t ts /\ get_number (wk s t) = None.
Definition okc (s : smap) (c : constraint) : Prop :=
  match c with
  | KDiseq ps => fresh_keys ps s
  | KLte u v | KDiseqFd u v => nonground s [u; v]
  | KPlus u v w | KMinus u v w | KTimes u v w | KPlusZ u v w | KTimesZ u v w => nonground s [u; v; w]
  | KDistinct _ | KDistinct2 _ _ _ => True
  end.
Definition KUx (S : nat -> Prop) (st : state) : Prop :=
  forall id c, In (id, c) (st_cstore st) -> S id \/ okc (st_smap st) c.
Definition none : nat -> Prop := fun _ => False.
Definition KU := KUx none.
Definition Inv (st : state) : Prop := UID st /\ KU st.

(* identities only ever come from the counter: those of st' are those of st or newer *)
Definition Frame (st st' : state) : Prop :=
  st_nextc st <= st_nextc st' /\ forall i, In i (ids st') -> In i (ids st) \/ st_nextc st <= i.
Definition FrameI (id : nat) (st st' : state) : Prop :=
  st_nextc st <= st_nextc st' /\ forall i, In i (ids st') -> i = id \/ In i (ids st) \/ st_nextc st <= i.

Definition Good (S : nat -> Prop) (st st' : state) : Prop := UID st' /\ KUx S st' /\ Frame st st'.
Definition GoodI (S : nat -> Prop) (id : nat) (st st' : state) : Prop := UID st' /\ KUx S st' /\ FrameI id st st'.
Definition sresG S st (r : sres) : Prop := match r with SOk st' => Good S st st' | _ => True end.
Definition sresGI S id st (r : sres) : Prop := match r with SOk st' => GoodI S id st st' | _ => True end.

Lemma KUx_weaken (S T : nat -> Prop) st : (forall i, S i -> T i) -> KUx S st -> KUx T st.
Proof. intros H K id ps Hin. destruct (K id ps Hin); auto. Qed.
Lemma KU_KUx S st : KU st -> KUx S st.
Proof. apply KUx_weaken. intros i []. Qed.

Lemma Frame_refl st : Frame st st.
Proof. split; auto. Qed.
Lemma Frame_trans a b c : Frame a b -> Frame b c -> Frame a c.
Proof.
  intros [N1 F1] [N2 F2]. split; [lia|]. intros i Hi. destruct (F2 i Hi) as [H|H]; [|right; lia].
  destruct (F1 i H); auto.
Qed.
Lemma Frame_FrameI id a b : Frame a b -> FrameI id a b.
Proof. intros [N F]. split; [exact N|]. intros i Hi. right. apply F, Hi. Qed.
Lemma FrameI_Frame_trans id a b c : FrameI id a b -> Frame b c -> FrameI id a c.
Proof.
  intros [N1 F1] [N2 F2]. split; [lia|]. intros i Hi. destruct (F2 i Hi) as [H|H]; [|right; right; lia].
  destruct (F1 i H) as [H1|[H1|H1]]; auto.
Qed.
Lemma Frame_FrameI_trans id a b c : Frame a b -> FrameI id b c -> FrameI id a c.
Proof.
  intros [N1 F1] [N2 F2]. split; [lia|]. intros i Hi. destruct (F2 i Hi) as [H|[H|H]]; [left; exact H| |right; right; lia].
  destruct (F1 i H); auto.
Qed.
(* a frame only depends on the identities and the counter *)
Lemma Frame_from a a' b : ids a = ids a' -> st_nextc a = st_nextc a' -> Frame a b -> Frame a' b.
Proof. unfold Frame. intros -> ->. auto. Qed.
Lemma FrameI_from id a a' b : ids a = ids a' -> st_nextc a = st_nextc a' -> FrameI id a b -> FrameI id a' b.
Proof. unfold FrameI. intros -> ->. auto. Qed.

Lemma notin_frame id a b : ~ In id (ids a) -> id < st_nextc a -> Frame a b -> ~ In id (ids b) /\ id < st_nextc b.
Proof. intros H1 H2 [N F]. split; [|lia]. intros Hi. destruct (F id Hi); [auto|lia]. Qed.

Lemma Good_refl S st : UID st -> KUx S st -> Good S st st.
Proof. intros U K. split; [exact U|]. split; [exact K|apply Frame_refl]. Qed.
Lemma Good_GoodI S id a b : Good S a b -> GoodI S id a b.
Proof. intros [U [K F]]. split; [exact U|]. split; [exact K|apply Frame_FrameI, F]. Qed.
Lemma sresG_GI S id st r : sresG S st r -> sresGI S id st r.
Proof. destruct r; cbn; auto. apply Good_GoodI. Qed.

Lemma sbind_G S st r k :
  sresG S st r -> (forall st1, Good S st st1 -> sresG S st1 (k st1)) -> sresG S st (sbind r k).
Proof.
  destruct r as [st1| | |]; cbn [sbind sresG]; auto. intros G1 Hk. specialize (Hk st1 G1).
  destruct (k st1) as [st2| | |]; cbn in *; auto.
  destruct G1 as [_ [_ F1]], Hk as [U2 [K2 F2]]. split; [exact U2|]. split; [exact K2|]. eapply Frame_trans; eauto.
Qed.
Lemma sbind_GI S id st r k :
  sresG S st r -> (forall st1, Good S st st1 -> sresGI S id st1 (k st1)) -> sresGI S id st (sbind r k).
Proof.
  destruct r as [st1| | |]; cbn [sbind sresG sresGI]; auto. intros G1 Hk. specialize (Hk st1 G1).
  destruct (k st1) as [st2| | |]; cbn in *; auto.
  destruct G1 as [_ [_ F1]], Hk as [U2 [K2 F2]]. split; [exact U2|]. split; [exact K2|]. eapply Frame_FrameI_trans; eauto.
Qed.
Lemma opt_domain_G S st o k : (forall d, sresG S st (k d)) -> sresG S st (opt_domain o k).
Proof. destruct o; cbn; auto. Qed.
Lemma opt_domain_GI S id st o k : (forall d, sresGI S id st (k d)) -> sresGI S id st (opt_domain o k).
Proof. destruct o; cbn; auto. Qed.

(* ------------------------------------------------------------------ the store operations *)
Lemma pan_in store id c x : In x (fst (push_and_normalize store id c)) -> In x store \/ x = (id, c).
Proof.
  unfold push_and_normalize. destruct (is_diseq c) as [ps|].
  - destruct (stored_subsumes_new store ps); cbn [fst]; auto.
    intros H. apply in_app_or in H. destruct H as [H|[H|[]]]; auto. apply filter_In in H. tauto.
  - cbn [fst]. intros H. apply in_app_or in H. destruct H as [H|[H|[]]]; auto.
Qed.

Lemma NoDup_map_filter {A} (f : A -> nat) p (l : list A) : NoDup (map f l) -> NoDup (map f (filter p l)).
Proof.
  induction l as [|a l IH]; cbn; auto. intros H. inversion H; subst.
  destruct (p a); cbn; auto. constructor; auto. intros Hin. apply H2.
  apply in_map_iff in Hin. destruct Hin as [b [E Hb]]. apply filter_In in Hb. apply in_map_iff. exists b. tauto.
Qed.

Lemma NoDup_snoc (l : list nat) x : NoDup l -> ~ In x l -> NoDup (l ++ [x]).
Proof.
  induction l as [|a l IH]; cbn; intros ND NI; [constructor; [intros []|constructor]|].
  inversion ND; subst. constructor.
  - intros Hin. apply in_app_or in Hin. destruct Hin as [Hin|[E|[]]]; [auto|subst; apply NI; left; reflexivity].
  - apply IH; auto.
Qed.

Lemma pan_nodup store id c :
  NoDup (map fst store) -> ~ In id (map fst store) -> NoDup (map fst (fst (push_and_normalize store id c))).
Proof.
  intros ND NI. unfold push_and_normalize. destruct (is_diseq c) as [ps|].
  - destruct (stored_subsumes_new store ps); cbn [fst]; auto.
    rewrite map_app. cbn [map fst]. apply NoDup_snoc.
    + apply NoDup_map_filter, ND.
    + intros Hin. apply NI. apply in_map_iff in Hin. destruct Hin as [b [E Hb]]. apply filter_In in Hb.
      apply in_map_iff. exists b. tauto.
  - cbn [fst]. rewrite map_app. cbn [map fst]. apply NoDup_snoc; auto.
Qed.

Lemma fold_take_view (dropped : list (nat * constraint)) : forall st,
  let st' := fold_left (fun s ic => log_event s (UTake (fst ic))) dropped st in
  st_cstore st' = st_cstore st /\ st_smap st' = st_smap st /\ st_nextc st' = st_nextc st.
Proof. induction dropped as [|d r IH]; intros st; cbn [fold_left]; [auto|]. apply (IH (log_event st (UTake (fst d)))). Qed.

Lemma with_constraint_id_view st id c :
  st_cstore (with_constraint_id st id c) = fst (push_and_normalize (st_cstore st) id c) /\
  st_smap (with_constraint_id st id c) = st_smap st /\ st_nextc (with_constraint_id st id c) = st_nextc st.
Proof.
  unfold with_constraint_id. cbn [log_event st_cstore].
  destruct (push_and_normalize (st_cstore st) id c) as [store dropped]. cbn [fst].
  destruct (fold_take_view dropped (set_cstore (log_event st (UWith id)) store)) as [A [B C]].
  rewrite A, B, C. auto.
Qed.

Lemma with_constraint_id_good S st id c :
  UID st -> ~ In id (ids st) -> id < st_nextc st -> KUx S st -> okc (st_smap st) c ->
  GoodI S id st (with_constraint_id st id c).
Proof.
  intros [ND LT] NI Hlt K Hc. destruct (with_constraint_id_view st id c) as [A [B C]].
  split; [|split].
  - split.
    + unfold ids. rewrite A. apply pan_nodup; assumption.
    + intros i Hi. unfold ids in Hi. rewrite A in Hi. rewrite C. apply in_map_iff in Hi. destruct Hi as [[j c'] [E Hin]].
      cbn in E; subst j. destruct (pan_in _ _ _ _ Hin) as [H|H].
      * apply LT. apply in_map_iff. exists (i, c'). auto.
      * inversion H; subst. exact Hlt.
  - intros j ps Hin. rewrite A in Hin. rewrite B. destruct (pan_in _ _ _ _ Hin) as [H|H].
    + apply K, H.
    + inversion H; subst. right. exact Hc.
  - split; [rewrite C; lia|]. intros i Hi. unfold ids in Hi. rewrite A in Hi.
    apply in_map_iff in Hi. destruct Hi as [[j c'] [E Hin]]. cbn in E; subst j.
    destruct (pan_in _ _ _ _ Hin) as [H|H].
    + right; left. apply in_map_iff. exists (i, c'). auto.
    + inversion H; subst. left; reflexivity.
Qed.

Lemma with_new_constraint_good S st c :
  UID st -> KUx S st -> okc (st_smap st) c -> Good S st (with_new_constraint st c).
Proof.
  intros [ND LT] K Hc. unfold with_new_constraint.
  assert (G : GoodI S (st_nextc st) (bump_nextc st) (with_constraint_id (bump_nextc st) (st_nextc st) c)).
  { apply with_constraint_id_good; cbn; auto.
    - split; [exact ND|]. intros i Hi. specialize (LT i Hi). cbn. lia.
    - intros Hi. specialize (LT _ Hi). lia. }
  destruct G as [U [K' [N F]]]. split; [exact U|]. split; [exact K'|]. cbn in N. split; [lia|].
  intros i Hi. destruct (F i Hi) as [H|[H|H]]; [right; lia|left; exact H|cbn in H; right; lia].
Qed.

Lemma remove_id_in {A} id (l : list (nat * A)) x : In x (remove_id id l) -> In x l.
Proof.
  induction l as [|[i a] l IH]; cbn; auto. destruct (Nat.eqb i id); auto. intros [H|H]; auto.
Qed.
Lemma remove_id_nodup {A} id (l : list (nat * A)) : NoDup (map fst l) -> NoDup (map fst (remove_id id l)) /\ ~ In id (map fst (remove_id id l)).
Proof.
  induction l as [|[i a] l IH]; cbn [remove_id map fst]; intros ND; [split; [constructor|intros []]|].
  inversion ND; subst. destruct (Nat.eqb i id) eqn:E.
  - apply Nat.eqb_eq in E; subst. split; assumption.
  - destruct (IH H2) as [N1 N2]. cbn [map fst]. split.
    + constructor; auto. intros Hin. apply H1. apply in_map_iff in Hin. destruct Hin as [b [Eb Hb]].
      apply in_map_iff. exists b. split; auto. eapply remove_id_in; eauto.
    + intros [H|H]; [apply Nat.eqb_neq in E; auto|auto].
Qed.
Lemma find_id_none_notin {A} id (l : list (nat * A)) : find_id id l = None -> ~ In id (map fst l).
Proof.
  induction l as [|[i a] l IH]; cbn; auto. destruct (Nat.eqb i id) eqn:E; [discriminate|].
  intros H [H1|H1]; [apply Nat.eqb_neq in E; auto|apply IH; auto].
Qed.
Lemma find_id_some_in {A} id (l : list (nat * A)) a : find_id id l = Some a -> In id (map fst l).
Proof.
  induction l as [|[i b] l IH]; cbn; [discriminate|]. destruct (Nat.eqb i id) eqn:E; auto.
  apply Nat.eqb_eq in E; auto.
Qed.

(* taking a constraint out: its identity is then free to be re-used by the constraint being run *)
Lemma take_some S st id st1 c :
  UID st -> KUx S st -> take_constraint st id = (st1, Some c) ->
  UID st1 /\ ~ In id (ids st1) /\ id < st_nextc st1 /\ KUx S st1 /\ In id (ids st) /\
  st_nextc st1 = st_nextc st /\ st_smap st1 = st_smap st /\ (forall i, In i (ids st1) -> In i (ids st)).
Proof.
  intros [ND LT] K. unfold take_constraint. destruct (find_id id (st_cstore st)) as [c'|] eqn:E; [|discriminate].
  intros H. inversion H; subst. clear H. cbn [ids log_event set_cstore st_cstore st_nextc st_smap].
  destruct (remove_id_nodup id (st_cstore st) ND) as [N1 N2].
  assert (Sub : forall i, In i (map fst (remove_id id (st_cstore st))) -> In i (ids st)).
  { intros i Hi. apply in_map_iff in Hi. destruct Hi as [b [Eb Hb]]. apply in_map_iff. exists b. split; auto. eapply remove_id_in; eauto. }
  repeat split; auto.
  - apply LT. eapply find_id_some_in; eauto.
  - intros j ps Hin. apply K. apply (remove_id_in id). exact Hin.
  - eapply find_id_some_in; eauto.
Qed.

Lemma view_good S st st' :
  st_cstore st' = st_cstore st -> st_smap st' = st_smap st -> st_nextc st' = st_nextc st ->
  UID st -> KUx S st -> Good S st st'.
Proof.
  intros A B C [ND LT] K. unfold Good, UID, KUx, Frame, ids. rewrite A, B, C. repeat split; auto.
Qed.

Section Fuelled.
Variable rcs : state -> sres.
Hypothesis rcs_ok : forall st, UID st -> sresG none st (rcs st).

Lemma rcs_good S st st0 :
  st_cstore st0 = st_cstore st -> st_nextc st0 = st_nextc st -> UID st -> sresG S st (rcs st0).
Proof.
  intros A C [ND LT]. assert (U0 : UID st0) by (unfold UID, ids; rewrite A, C; auto).
  pose proof (rcs_ok st0 U0) as H. destruct (rcs st0) as [st'| | |]; cbn in *; auto.
  destruct H as [U [K F]]. split; [exact U|]. split; [apply KU_KUx, K|].
  eapply Frame_from; [| |exact F]; [unfold ids; rewrite A; reflexivity|exact C].
Qed.

Lemma process_domain_good S st x d : UID st -> KUx S st -> sresG S st (process_domain rcs st x d).
Proof.
  intros U K. unfold process_domain. destruct (wk (st_smap st) x) as [[]|v a| | |]; try exact I.
  - match goal with |- sresG _ _ (if ?b then _ else _) => destruct b end; [apply Good_refl; auto|exact I].
  - unfold update_var_domain, resolve_storable_domain.
    assert (R : forall dd, sresG S st (match fd_singleton_value dd with
                | Some n => rcs (dom_remove (set_smap st ((v, tnum n) :: st_smap st)) v)
                | None => SOk (dom_insert st v dd) end)).
    { intros dd. destruct (fd_singleton_value dd); [apply rcs_good; auto|apply view_good; auto]. }
    destruct (find_id v (st_dstore st)) as [old|]; [|apply R].
    destruct (fd_intersect old d); [apply R|exact I].
Qed.

Lemma exclude_good S ds excl : forall xs st, UID st -> KUx S st -> sresG S st (exclude_from_domain rcs ds st xs excl).
Proof.
  induction xs as [|y r IH]; intros st U K; cbn [exclude_from_domain]; [apply Good_refl; auto|].
  destruct (match y with TVar v _ => find_id v ds | _ => None end); [|apply IH; auto].
  destruct (fd_diff f excl); [|exact I].
  apply sbind_G; [apply process_domain_good; auto|]. intros st1 [U1 [K1 _]]. apply IH; auto.
Qed.

Variable rcr : nat -> constraint -> state -> sres.
Hypothesis rcr_ok : forall S id c st, UID st -> ~ In id (ids st) -> id < st_nextc st -> KUx S st ->
  sresGI S id st (rcr id c st).

Hypothesis rcs_E : forall st, sresE st (rcs st).

Lemma ext_len_eq a b : ext a b -> length (st_smap b) = length (st_smap a) -> st_smap b = st_smap a.
Proof. intros [new E] L. rewrite E in *. rewrite app_length in L. destruct new; [reflexivity|cbn in L; lia]. Qed.
Lemma ng1 s u l : get_number (wk s u) = None -> nonground s (u :: l).
Proof. intros H. exists u. split; [left; reflexivity|exact H]. Qed.
Lemma ng2 s a u l : get_number (wk s u) = None -> nonground s (a :: u :: l).
Proof. intros H. exists u. split; [right; left; reflexivity|exact H]. Qed.
Lemma ng3 s a b u l : get_number (wk s u) = None -> nonground s (a :: b :: u :: l).
Proof. intros H. exists u. split; [right; right; left; reflexivity|exact H]. Qed.
Lemma dom_get_nonum st t d : dom_get st t = Some d -> get_number t = None.
Proof. destruct t; cbn; try discriminate. reflexivity. Qed.

(* one pruning step: the invariant, and the substitution only grows *)
Lemma pd_both S st x d : UID st -> KUx S st ->
  match process_domain rcs st x d with SOk st1 => Good S st st1 /\ ext st st1 | _ => True end.
Proof.
  intros U K. pose proof (process_domain_good S st x d U K) as G. pose proof (process_domain_E rcs rcs_E st x d) as E.
  destruct (process_domain rcs st x d); cbn in *; auto.
Qed.

(* keep the running identity free across a step that does not add it *)
Lemma pre_step S id st st1 : ~ In id (ids st) -> id < st_nextc st -> Good S st st1 ->
  UID st1 /\ KUx S st1 /\ ~ In id (ids st1) /\ id < st_nextc st1.
Proof. intros NI LT [U [K F]]. destruct (notin_frame _ _ _ NI LT F). auto. Qed.

Lemma GoodI_trans S id a b c : Good S a b -> GoodI S id b c -> GoodI S id a c.
Proof. intros [U1 [K1 F1]] [U2 [K2 F2]]. split; [exact U2|]. split; [exact K2|eapply Frame_FrameI_trans; eauto]. Qed.

Lemma sresGI_trans S id a b r : Good S a b -> sresGI S id b r -> sresGI S id a r.
Proof. intros G. destruct r; cbn; auto. apply GoodI_trans, G. Qed.

Lemma arith3_good S id c st u v w gr a1 a2 a3 a4 a5 a6 :
  (forall s, nonground s [u; v; w] -> okc s c) -> UID st -> ~ In id (ids st) -> id < st_nextc st -> KUx S st ->
  sresGI S id st (arith3 rcs rcr id c st u v w gr a1 a2 a3 a4 a5 a6).
Proof.
  intros Hc U NI LT K. unfold arith3.
  assert (Store : (get_number (wk (st_smap st) u) = None \/ get_number (wk (st_smap st) v) = None \/ get_number (wk (st_smap st) w) = None) ->
     sresGI S id st
      (match operand_domain st (wk (st_smap st) u), operand_domain st (wk (st_smap st) v), operand_domain st (wk (st_smap st) w) with
       | Some ud, Some vd, Some wd =>
          sbind (process_domain rcs st (wk (st_smap st) w) (Interval (a1 ud vd wd) (a2 ud vd wd))) (fun st1 =>
          sbind (process_domain rcs st1 (wk (st_smap st) u) (Interval (a3 ud vd wd) (a4 ud vd wd))) (fun st2 =>
          sbind (process_domain rcs st2 (wk (st_smap st) v) (Interval (a5 ud vd wd) (a6 ud vd wd))) (fun st3 =>
            if Nat.eqb (length (st_smap st3)) (length (st_smap st)) then SOk (with_constraint_id st3 id c) else rcr id c st3)))
       | _, _, _ => SOk (with_constraint_id st id c)
       end)).
  { intros NG. assert (Hok : okc (st_smap st) c).
    { apply Hc. destruct NG as [H|[H|H]]; [apply ng1, H|apply ng2, H|apply ng3, H]. }
    destruct (operand_domain st (wk (st_smap st) u)) as [ud|], (operand_domain st (wk (st_smap st) v)) as [vd|],
             (operand_domain st (wk (st_smap st) w)) as [wd|]; try (apply with_constraint_id_good; auto).
    pose proof (pd_both S st (wk (st_smap st) w) (Interval (a1 ud vd wd) (a2 ud vd wd)) U K) as P1.
    destruct (process_domain rcs st (wk (st_smap st) w) _) as [st1| | |]; cbn [sbind]; try exact I. destruct P1 as [G1 E1].
    destruct (pre_step _ _ _ _ NI LT G1) as [U1 [K1 [NI1 LT1]]].
    pose proof (pd_both S st1 (wk (st_smap st) u) (Interval (a3 ud vd wd) (a4 ud vd wd)) U1 K1) as P2.
    destruct (process_domain rcs st1 (wk (st_smap st) u) _) as [st2| | |]; cbn [sbind]; try exact I. destruct P2 as [G2 E2].
    destruct (pre_step _ _ _ _ NI1 LT1 G2) as [U2 [K2 [NI2 LT2]]].
    pose proof (pd_both S st2 (wk (st_smap st) v) (Interval (a5 ud vd wd) (a6 ud vd wd)) U2 K2) as P3.
    destruct (process_domain rcs st2 (wk (st_smap st) v) _) as [st3| | |]; cbn [sbind]; try exact I. destruct P3 as [G3 E3].
    destruct (pre_step _ _ _ _ NI2 LT2 G3) as [U3 [K3 [NI3 LT3]]].
    apply (sresGI_trans S id st st1); [exact G1|]. apply (sresGI_trans S id st1 st2); [exact G2|]. apply (sresGI_trans S id st2 st3); [exact G3|].
    destruct (Nat.eqb_spec (length (st_smap st3)) (length (st_smap st))) as [EL|NL]; [|apply rcr_ok; auto].
    apply with_constraint_id_good; auto.
    rewrite (ext_len_eq st st3 (ext_trans _ _ _ E1 (ext_trans _ _ _ E2 E3)) EL). exact Hok. }
  destruct (get_number (wk (st_smap st) u)) eqn:Gu, (get_number (wk (st_smap st) v)) eqn:Gv, (get_number (wk (st_smap st) w)) eqn:Gw;
    try (apply Store; auto; fail).
  match goal with |- sresGI _ _ _ (if ?b then _ else _) => destruct b; [apply Good_GoodI, Good_refl; auto|exact I] end.
Qed.

Lemma opdom_num_singleton st t d n : operand_domain st t = Some d -> get_number t = Some n -> fd_is_singleton d = true.
Proof.
  destruct t as [[m| | |]| | | |]; cbn; try discriminate. intros H1 H2. inversion H1; subst. cbn. apply Z.eqb_refl.
Qed.

Lemma run_constraint_good S id c st :
  UID st -> ~ In id (ids st) -> id < st_nextc st -> KUx S st ->
  sresGI S id st (run_constraint rcs rcr id c st).
Proof.
  intros U NI LT K.
  destruct c as [ps|u v|u v w|u v w|u v w|u v|u|u ys n|u v w|u v w]; cbn [run_constraint].
  - destruct (unify_pairs dfuel (st_smap st) [] ps) as [s' [|e ext]| |] eqn:E; try exact I.
    + apply Good_GoodI, with_new_constraint_good; auto. cbn. eapply unify_pairs_ext_fresh; eauto.
    + apply Good_GoodI, Good_refl; auto.
  - destruct (dom_get st (wk (st_smap st) u)) as [ud|] eqn:Du, (dom_get st (wk (st_smap st) v)) as [vd|] eqn:Dv.
    + assert (Hok : okc (st_smap st) (KLte u v)) by (cbn; apply ng1; eapply dom_get_nonum; eauto).
      apply opt_domain_GI; intros d1.
      pose proof (pd_both S st (wk (st_smap st) u) d1 U K) as P1.
      destruct (process_domain rcs st (wk (st_smap st) u) d1) as [st1| | |]; cbn [sbind]; try exact I. destruct P1 as [G1 E1].
      destruct (pre_step _ _ _ _ NI LT G1) as [U1 [K1 [NI1 LT1]]].
      apply (sresGI_trans S id st st1); [exact G1|].
      apply opt_domain_GI; intros d2.
      pose proof (pd_both S st1 (wk (st_smap st) v) d2 U1 K1) as P2.
      destruct (process_domain rcs st1 (wk (st_smap st) v) d2) as [st2| | |]; cbn [sbind]; try exact I. destruct P2 as [G2 E2].
      destruct (pre_step _ _ _ _ NI1 LT1 G2) as [U2 [K2 [NI2 LT2]]].
      apply (sresGI_trans S id st1 st2); [exact G2|].
      destruct (Nat.eqb_spec (length (st_smap st2)) (length (st_smap st))) as [EL|NL]; [|apply rcr_ok; auto].
      apply with_constraint_id_good; auto. rewrite (ext_len_eq st st2 (ext_trans _ _ _ E1 E2) EL). exact Hok.
    + destruct (get_number (wk (st_smap st) v)).
      * apply opt_domain_GI; intros d1. apply sresG_GI, process_domain_good; auto.
      * apply with_constraint_id_good; auto. cbn. apply ng1. eapply dom_get_nonum; eauto.
    + destruct (get_number (wk (st_smap st) u)).
      * apply opt_domain_GI; intros d1. apply sresG_GI, process_domain_good; auto.
      * apply with_constraint_id_good; auto. cbn. apply ng2. eapply dom_get_nonum; eauto.
    + destruct (get_number (wk (st_smap st) u)) eqn:Gu, (get_number (wk (st_smap st) v)) eqn:Gv;
        try (apply with_constraint_id_good; auto; cbn; first [apply ng1; exact Gu|apply ng2; exact Gv]).
      destruct (Z.leb z z0); [apply Good_GoodI, Good_refl; auto|exact I].
  - apply arith3_good; auto.
  - apply arith3_good; auto.
  - apply arith3_good; auto.
  - destruct (operand_domain st (wk (st_smap st) u)) as [ud|] eqn:Du, (operand_domain st (wk (st_smap st) v)) as [vd|] eqn:Dv.
    2-4: (apply with_constraint_id_good; auto; cbn;
          destruct (wk (st_smap st) u) as [[]| | | |] eqn:Eu, (wk (st_smap st) v) as [[]| | | |] eqn:Ev; cbn in Du, Dv; try discriminate;
          first [apply ng1; rewrite Eu; reflexivity|apply ng2; rewrite Ev; reflexivity]).
    destruct (fd_is_singleton ud && fd_is_singleton vd) eqn:Es.
    + destruct (Z.eqb _ _); [exact I|apply Good_GoodI, Good_refl; auto].
    + assert (Hok : okc (st_smap st) (KDiseqFd u v)).
      { cbn. destruct (get_number (wk (st_smap st) u)) eqn:Gu; [|apply ng1, Gu].
        destruct (get_number (wk (st_smap st) v)) eqn:Gv; [|apply ng2, Gv].
        rewrite (opdom_num_singleton _ _ _ _ Du Gu), (opdom_num_singleton _ _ _ _ Dv Gv) in Es. discriminate. }
      pose proof (with_constraint_id_good S st id (KDiseqFd u v) U NI LT K Hok) as G1.
      destruct (fd_is_disjoint ud vd) as [[|]|]; try (apply Good_GoodI, Good_refl; auto; fail);
        (destruct (fd_is_singleton ud);
         [apply opt_domain_GI; intros d; destruct G1 as [U1 [K1 F1]];
          pose proof (process_domain_good S _ (wk (st_smap st) v) d U1 K1) as P;
          destruct (process_domain rcs _ (wk (st_smap st) v) d); cbn in *; auto;
          destruct P as [U2 [K2 F2]]; split; [exact U2|]; split; [exact K2|eapply FrameI_Frame_trans; eauto]|];
         destruct (fd_is_singleton vd);
         [apply opt_domain_GI; intros d; destruct G1 as [U1 [K1 F1]];
          pose proof (process_domain_good S _ (wk (st_smap st) u) d U1 K1) as P;
          destruct (process_domain rcs _ (wk (st_smap st) u) d); cbn in *; auto;
          destruct P as [U2 [K2 F2]]; split; [exact U2|]; split; [exact K2|eapply FrameI_Frame_trans; eauto]|exact G1]).
  - (* distinctfd: the new Distinct2 object gets a new identity and is run at once *)
    assert (R : sresGI S id st (rcr (st_nextc st) (KDistinct2 u (filter is_var (list_of_term (wk (st_smap st) u)))
                 (isort (flat_map (fun t => match get_number t with Some z => [z] | None => [] end)
                    (filter (fun t => negb (is_var t)) (list_of_term (wk (st_smap st) u)))))) (bump_nextc st))).
    { destruct U as [ND LTs].
      assert (Ub : UID (bump_nextc st)) by (split; [exact ND|intros i Hi; specialize (LTs i Hi); cbn; lia]).
      assert (NIb : ~ In (st_nextc st) (ids (bump_nextc st))) by (intros Hi; specialize (LTs _ Hi); lia).
      pose proof (rcr_ok S (st_nextc st) (KDistinct2 u (filter is_var (list_of_term (wk (st_smap st) u)))
                 (isort (flat_map (fun t => match get_number t with Some z => [z] | None => [] end)
                    (filter (fun t => negb (is_var t)) (list_of_term (wk (st_smap st) u))))))
                 (bump_nextc st) Ub NIb (Nat.lt_succ_diag_r _) K) as H.
      match goal with |- sresGI _ _ _ ?X => destruct X as [st'| | |] end; cbn in *; auto.
      destruct H as [U' [K' [N F]]]. split; [exact U'|]. split; [exact K'|].
      unfold ids in *. cbn [bump_nextc st_nextc st_cstore] in *. split; [lia|].
      intros i Hi. destruct (F i Hi) as [H|[H|H]]; [right; right; lia|right; left; exact H|right; right; lia]. }
    destruct (wk (st_smap st) u) as [l|xv xa| |h t|g cs]; try exact I.
    + apply with_constraint_id_good; cbn; auto.
    + destruct (forallb _ _); [|exact I]. destruct (strictly_increasing _); [exact R|exact I].
    + destruct (forallb _ _); [|exact I]. destruct (strictly_increasing _); [exact R|exact I].
  - match goal with |- sresGI _ _ _ (match ?X with _ => _ end) => destruct X as [[[[x n']|]|]|site] end; try exact I.
    pose proof (with_new_constraint_good S st (KDistinct2 u x n') U K I) as G1.
    destruct n' as [|z n']; [apply Good_GoodI, G1|].
    destruct (fd_from_vec (z :: n')); [|exact I].
    destruct G1 as [U1 [K1 F1]].
    pose proof (exclude_good S (st_dstore (with_new_constraint st (KDistinct2 u x (z :: n')))) f x _ U1 K1) as P.
    match goal with |- sresGI _ _ _ ?X => destruct X as [st'| | |] end; cbn in *; auto.
    destruct P as [U2 [K2 F2]]. split; [exact U2|]. split; [exact K2|]. apply Frame_FrameI. eapply Frame_trans; eauto.
  - destruct (wk (st_smap st) u) as [[]| | | |] eqn:Eu, (wk (st_smap st) v) as [[]| | | |] eqn:Ev, (wk (st_smap st) w) as [[]| | | |] eqn:Ew;
      try exact I;
      try (apply with_constraint_id_good; auto; cbn;
           first [apply ng1; rewrite Eu; reflexivity|apply ng2; rewrite Ev; reflexivity|apply ng3; rewrite Ew; reflexivity]; fail);
      try (apply sresG_GI, rcs_good; auto; fail);
      (destruct (Z.eqb _ _); [apply Good_GoodI, Good_refl; auto|exact I]).
  - destruct (wk (st_smap st) u) as [[]| | | |] eqn:Eu, (wk (st_smap st) v) as [[]| | | |] eqn:Ev, (wk (st_smap st) w) as [[]| | | |] eqn:Ew;
      try exact I;
      try (apply with_constraint_id_good; auto; cbn;
           first [apply ng1; rewrite Eu; reflexivity|apply ng2; rewrite Ev; reflexivity|apply ng3; rewrite Ew; reflexivity]; fail);
      try (apply sresG_GI, rcs_good; auto; fail);
      repeat (match goal with |- sresGI _ _ _ (if ?b then _ else _) => destruct b end);
      try exact I; try (apply Good_GoodI, Good_refl; auto; fail);
      try (apply with_constraint_id_good; auto; cbn;
           first [apply ng1; rewrite Eu; reflexivity|apply ng2; rewrite Ev; reflexivity|apply ng3; rewrite Ew; reflexivity]; fail);
      try (apply sresG_GI, rcs_good; auto; fail).
Qed.
End Fuelled.

(* run_constraints re-establishes the key property from any state with unique identities *)
Lemma run_constraints_good : forall f st, UID st -> sresG none st (run_constraints f st).
Proof.
  induction f as [|f IH]; intros st U; [exact I|]. cbn [run_constraints].
  set (rc := fix rc (g id : nat) (c : constraint) (st0 : state) {struct g} : sres :=
               match g with O => SOOF | S g' => run_constraint (run_constraints f) (rc g') id c st0 end).
  assert (RC : forall g S id c st0, UID st0 -> ~ In id (ids st0) -> id < st_nextc st0 -> KUx S st0 ->
               sresGI S id st0 (rc g id c st0)).
  { induction g as [|g IHg]; intros S id c st0 U0 NI LT K; [exact I|]. cbn [rc].
    apply run_constraint_good; auto. intros; apply run_constraints_E. }
  assert (L : forall rem st0, UID st0 -> KUx (fun i => In i rem) st0 ->
    sresG none st0 ((fix loop (ids : list nat) (st : state) {struct ids} : sres :=
        match ids with
        | [] => SOk st
        | id :: r => match take_constraint st id with
                     | (st1, Some c) => sbind (rc f id c st1) (loop r)
                     | (st1, None) => loop r st1
                     end
        end) rem st0)).
  { induction rem as [|id r IHr]; intros st0 U0 K0.
    - apply Good_refl; auto.
    - destruct (take_constraint st0 id) as [st1 [c|]] eqn:ET.
      + destruct (take_some _ _ _ _ _ U0 K0 ET) as [U1 [NI1 [LT1 [K1 [In0 [N1 [_ Sub]]]]]]].
        assert (K1' : KUx (fun i => In i r) st1).
        { intros j ps Hin. destruct (K1 j ps Hin) as [[E|H]|H]; auto.
          subst j. exfalso. apply NI1. apply in_map_iff. exists (id, ps). auto. }
        pose proof (RC f _ id c st1 U1 NI1 LT1 K1') as H2.
        destruct (rc f id c st1) as [st2| | |]; cbn [sbind sresG]; auto.
        destruct H2 as [U2 [K2 [N2 F2]]]. specialize (IHr st2 U2 K2).
        match goal with |- sresG _ _ ?X => destruct X as [st3| | |] end; cbn in *; auto.
        destruct IHr as [U3 [K3 [N3 F3]]]. split; [exact U3|]. split; [exact K3|]. split; [lia|].
        intros i Hi. destruct (F3 i Hi) as [H|H]; [|right; lia].
        destruct (F2 i H) as [E|[H1|H1]]; [subst; left; exact In0|left; apply Sub, H1|right; lia].
      + unfold take_constraint in ET. destruct (find_id id (st_cstore st0)) eqn:EF; [discriminate|]. inversion ET; subst st1.
        apply IHr; auto. intros j ps Hin. destruct (K0 j ps Hin) as [[E|H]|H]; auto.
        subst j. exfalso. apply (find_id_none_notin _ _ EF). apply in_map_iff. exists (id, ps). auto. }
  apply L; auto. intros j ps Hin. left. apply in_map_iff. exists (j, ps). auto.
Qed.

Lemma run_constraint_top_good : forall g f S id c st,
  UID st -> ~ In id (ids st) -> id < st_nextc st -> KUx S st -> sresGI S id st (run_constraint_top g f id c st).
Proof.
  induction g as [|g IH]; intros f S id c st U NI LT K; [exact I|]. cbn [run_constraint_top].
  apply run_constraint_good; auto; [intros; apply run_constraints_good; auto|intros; apply run_constraints_E].
Qed.

Definition sresInv (r : sres) : Prop := match r with SOk st => Inv st | _ => True end.

Theorem post_constraint_inv c st : Inv st -> sresInv (post_constraint c st).
Proof.
  intros [[ND LT] K]. unfold post_constraint.
  assert (Ub : UID (bump_nextc st)) by (split; [exact ND|intros i Hi; specialize (LT i Hi); cbn; lia]).
  assert (NIb : ~ In (st_nextc st) (ids (bump_nextc st))) by (intros Hi; specialize (LT _ Hi); lia).
  pose proof (run_constraint_top_good cfuel cfuel none (st_nextc st) c (bump_nextc st) Ub NIb (Nat.lt_succ_diag_r _) K) as H.
  destruct (run_constraint_top cfuel cfuel (st_nextc st) c (bump_nextc st)); cbn in *; auto. destruct H as [U' [K' _]]. split; auto.
Qed.

Theorem post_domain_inv x d st : Inv st -> sresInv (post_domain x d st).
Proof.
  intros [U K]. unfold post_domain.
  pose proof (process_domain_good (run_constraints cfuel) (run_constraints_good cfuel) none st (wk (st_smap st) x) d U K) as H.
  destruct (process_domain _ st _ d); cbn in *; auto. destruct H as [U' [K' _]]. split; auto.
Qed.

Lemma process_extension_good ds : forall ext st, UID st -> KU st -> sresG none st (process_extension_fd ds ext st).
Proof.
  induction ext as [|[x v] r IH]; intros st U K; cbn [process_extension_fd]; [apply Good_refl; auto|].
  destruct (find_id x ds); [|apply IH; auto].
  apply sbind_G; [apply process_domain_good; auto; apply run_constraints_good|]. intros st1 [U1 [K1 _]].
  destruct (find_id x (st_dstore st1)); [|exact I].
  apply sbind_G; [|intros st2 [U2 [K2 _]]; apply IH; auto].
  pose proof (run_constraints_good cfuel (dom_remove st1 x) U1) as H.
  destruct (run_constraints cfuel (dom_remove st1 x)); cbn in *; auto.
Qed.

Theorem state_unify_inv st u v : Inv st -> sresInv (state_unify st u v).
Proof.
  intros [U K]. unfold state_unify. destruct (unify dfuel (st_smap st) [] u v) as [s' ext| |]; try exact I.
  assert (U1 : UID (set_smap st s')) by exact U.
  pose proof (run_constraints_good cfuel _ U1) as H.
  destruct (run_constraints cfuel (set_smap st s')) as [st2| | |]; cbn [sbind sresInv]; auto.
  destruct H as [U2 [K2 _]].
  pose proof (process_extension_good (st_dstore st2) (rev ext) st2 U2 K2) as H3.
  destruct (process_extension_fd (st_dstore st2) (rev ext) st2) as [st3| | |]; cbn [sbind sresInv]; auto.
  destruct H3 as [U3 [K3 _]]. split; [exact U3|exact K3].
Qed.

Theorem state_disunify_inv st u v : Inv st -> sresInv (state_disunify st u v).
Proof.
  intros [U K]. unfold state_disunify. destruct (unify dfuel (st_smap st) [] u v) as [s' [|e ext]| |] eqn:E; try exact I.
  - pose proof (with_new_constraint_good none st (KDiseq (e :: ext)) U K (unify_ext_fresh _ _ _ _ _ _ E)) as [U' [K' _]].
    split; auto.
  - split; auto.
Qed.

Lemma inv_empty n : Inv (empty_state n).
Proof. split; [split; [constructor|intros i []]|intros id ps []]. Qed.

(* what the assertion of DisequalityConstraint::walk_star needs: with unbound keys, walking a key
   yields a variable, so the store's walk_star never hits the assertion *)
