(* Readings of the completeness theorems on lists (C24): every split of a list is among the answers of
   append(q0, q1, l); every element of a list is among the answers of member(q0, l). *)
From Coq Require Import List ZArith Bool Arith Lia.
From PV Require Import Model.Term Model.Subst Model.Unify Model.FD Model.State Model.Engine Spec.StreamSem
  Proofs.UnifyProofs Proofs.StreamProofs Proofs.EngineProofs Proofs.SemProofs Proofs.FDDen Proofs.FDComp Proofs.FDProg
  Proofs.FairProofs Proofs.Complete0 Proofs.ForceC Proofs.ScopeElab Proofs.ScopeState Proofs.RelSound Proofs.RelSound2 Gen.RelDefs
  Proofs.RelComplete Proofs.LibComplete.
Import ListNotations.
Local Open Scope nat_scope.

Lemma AppendV_lists xs ys : AppendV (list_term xs) (list_term ys) (list_term (xs ++ ys)).
Proof. induction xs as [|x r IH]; cbn [list_term List.app]; constructor. exact IH. Qed.
Lemma MemberV_lists x xs : In x xs -> MemberV x (list_term xs).
Proof. induction xs as [|y r IH]; intros H; [destruct H|]. cbn [list_term]. destruct H as [->|H]; [constructor|constructor; auto]. Qed.

Lemma tb_ground_list n : forall xs, Forall (tb n) xs -> tb n (list_term xs).
Proof. induction 1; cbn [list_term]; [intros v []|]. apply tb_cons. split; assumption. Qed.
Lemma app_ground th : (forall t, tb 0 t -> app th t = t) /\ (forall ts, tsb 0 ts -> apps th ts = ts).
Proof.
  apply term_terms_ind; cbn [app apps]; intros; try reflexivity.
  - exfalso. assert (v < 0) by (apply H; cbn; left; reflexivity). lia.
  - apply tb_cons in H1 as [H1 H2]. rewrite H, H0; auto.
  - rewrite H; auto.
  - rewrite H, H0; auto.
    + intros v Hv. apply H1. cbn [tsvars]. apply in_or_app. right. exact Hv.
    + intros v Hv. apply H1. cbn [tsvars]. apply in_or_app. left. exact Hv.
Qed.
Lemma empty_MstG th n : MstG th (empty_state n).
Proof. split; [intros x t []|]. split; [intros i c []|intros x d []]. Qed.
Lemma empty_GoodS n : GoodS (empty_state n).
Proof. split; [constructor|apply WFD_empty]. Qed.

(* append(q0, q1, l) with l a list of terms without variables: every split xs ++ ys = l is covered by an answer *)
Theorem append_all_splits xs ys : Forall (tb 0) (xs ++ ys) ->
  exists ans th' n, MstG th' ans /\ th' 0 = list_term xs /\ th' 1 = list_term ys /\
    emitsE (startq lib_defs) n (startq lib_defs (CCall BFS rel_append [TVar 0 false; TVar 1 false; list_term (xs ++ ys)]) (empty_state 2)) ans.
Proof.
  intros HG. pose (th := fun v : nat => match v with O => list_term xs | _ => list_term ys end).
  assert (Eg : app th (list_term (xs ++ ys)) = list_term (xs ++ ys)) by (apply (proj1 (app_ground th)), tb_ground_list, HG).
  destruct (append_complete (list_term xs) (list_term ys) (list_term (xs ++ ys)) (AppendV_lists xs ys) (empty_state 2) th
              (TVar 0 false) (TVar 1 false) (list_term (xs ++ ys)) (empty_MstG th 2) (empty_GoodS 2) (stb_empty 2))
    as [ans [th' [n [A [M E]]]]]; try reflexivity; try exact Eg.
  - intros v [<-|[]]. cbn. lia.
  - intros v [<-|[]]. cbn. lia.
  - eapply tb_mono; [|apply tb_ground_list, HG]. lia.
  - exists ans, th', n. split; [exact M|]. split; [rewrite <- (A 0); [reflexivity|cbn; lia]|]. split; [rewrite <- (A 1); [reflexivity|cbn; lia]|exact E].
Qed.

(* member(q0, l): every element of l is covered by an answer *)
Theorem member_all_elements x xs : In x xs -> Forall (tb 0) xs ->
  exists ans th' n, MstG th' ans /\ th' 0 = x /\
    emitsE (startq lib_defs) n (startq lib_defs (CCall BFS rel_member [TVar 0 false; list_term xs]) (empty_state 1)) ans.
Proof.
  intros Hin HG. pose (th := fun _ : nat => x).
  assert (Eg : app th (list_term xs) = list_term xs) by (apply (proj1 (app_ground th)), tb_ground_list, HG).
  destruct (member_complete x (list_term xs) (MemberV_lists x xs Hin) (empty_state 1) th
              (TVar 0 false) (list_term xs) (empty_MstG th 1) (empty_GoodS 1) (stb_empty 1))
    as [ans [th' [n [A [M E]]]]]; try reflexivity; try exact Eg.
  - intros v [<-|[]]. cbn. lia.
  - eapply tb_mono; [|apply tb_ground_list, HG]. lia.
  - exists ans, th', n. split; [exact M|]. split; [rewrite <- (A 0); [reflexivity|cbn; lia]|exact E].
Qed.

(* ------------------------------------------------------------------ programs with relation calls followed by labeling (C17) *)
Section CallsThenLabel.
Variable defs : list (nat * def).
Variable RelV : nat -> nat -> list term -> Prop.
Hypothesis RelV0 : forall r vals, ~ RelV 0 r vals.
Hypothesis H_unfold : forall k r args th m, RelV (S k) r (map (app th) args) -> Forall (tb m) args ->
  exists d c nv th', find_def r defs = Some d /\
    elab defs efuel BFS (combine (d_params d) args) (GConj [d_body d]) m = (c, nv) /\
    agree m th th' /\ DenV defs RelV k th' c /\ flatV c.

(* the program, then the labeling of the query term q: a solution of the reading is still solved by a delivered answer *)
Theorem calls_then_label k g q th st : DenV defs RelV k th g -> flatV g -> MstG th st -> GoodS st -> stb st -> gb (st_nextv st) g ->
  exists a th' n, agree (st_nextv st) th th' /\ MstG th' a /\
    emitsE (startq defs) n (startq defs (CConj BFS g (CForceAns q)) st) a.
Proof.
  intros HD Hf HM HG B HB.
  destruct (completeV defs RelV RelV0 H_unfold k g th st HD Hf (conj HM HG) B HB) as [a1 [th1 [A1 [G1 [S1 [L1 I1]]]]]].
  destruct (force_complete defs th1 (tsize (app th1 q)) q a1 (le_n _) G1) as [a2 [[M2 _] I2]].
  assert (I : forall f, inSe defs (start defs f (CConj BFS g (CForceAns q)) st) a2).
  { intros f. destruct f as [|n]; [apply ISe_err|]. cbn [start lazy_bind_k pause_k]. unfold lazy_bind. cbn [is_succeed is_fail].
    apply ISe_lazy. eapply ILe_bind; [apply ILe_pause, I1|apply I2]. }
  destruct (proj2 (ine_emits defs) _ _ (I sfuel)) as [n Hn]. exists a2, th1, n. auto.
Qed.
End CallsThenLabel.

(* non-vacuity of the closure reading: closure { x == 1 } under a valuation with x = 1 *)
Example closure_reading : DenV [] (fun _ _ _ => False) 1 (fun _ => tnum 1) (CClosure BFS [(0, TVar 0 false)] [GEq (TVar 0 false) (tnum 1)]).
Proof.
  apply V_closure. intros m th0 He Hv. exists th0. split; [apply agree_refl|].
  assert (E : fst (elab [] efuel BFS [(0, TVar 0 false)] (GConj [GEq (TVar 0 false) (tnum 1)]) m) = CConj BFS (CEq (TVar 0 false) (tnum 1)) CSucceed) by (vm_compute; reflexivity).
  rewrite E. split; [|cbn; auto]. apply V_conj; [|apply V_succeed]. apply V_eq.
  rewrite (Hv 0 (TVar 0 false) (or_introl eq_refl)). reflexivity.
Qed.

(* the step-indexed readings are exactly the inductive relations of the soundness theorems (not larger) *)
Lemma LibV_AppendV : forall k x y z, LibV k rel_append [x; y; z] -> AppendV x y z.
Proof.
  induction k as [|k IH]; intros x y z H; [destruct H|]. cbn [LibV] in H. change (Nat.eqb rel_append rel_append) with true in H. cbv iota in H.
  destruct H as [[-> ->]|[h [t [w [-> [-> H]]]]]]; constructor. apply IH, H.
Qed.
Lemma LibV_MemberV : forall k x l, LibV k rel_member [x; l] -> MemberV x l.
Proof.
  induction k as [|k IH]; intros x l H; [destruct H|]. cbn [LibV] in H.
  change (Nat.eqb rel_member rel_append) with false in H. change (Nat.eqb rel_member rel_member) with true in H. cbv iota in H.
  destruct H as [h [t [-> [->|H]]]]; constructor. apply IH, H.
Qed.
Theorem append_reading_exact x y z : AppendV x y z <-> exists k, LibV k rel_append [x; y; z].
Proof. split; [apply AppendV_LibV|intros [k H]; eapply LibV_AppendV; eauto]. Qed.
Theorem member_reading_exact x l : MemberV x l <-> exists k, LibV k rel_member [x; l].
Proof. split; [apply MemberV_LibV|intros [k H]; eapply LibV_MemberV; eauto]. Qed.
Lemma LibV_Member1V : forall k x l, LibV k rel_member1 [x; l] -> Member1V x l.
Proof.
  induction k as [|k IH]; intros x l H; [destruct H|]. cbn [LibV] in H. revert H. rel_ids. intros H.
  destruct H as [h [t [-> [->|[Hn H]]]]]; constructor; auto.
Qed.
Lemma LibV_RemberV : forall k x l o, LibV k rel_rember [x; l; o] -> RemberV x l o.
Proof.
  induction k as [|k IH]; intros x l o H; [destruct H|]. cbn [LibV] in H. revert H. rel_ids. intros H.
  destruct H as [[-> ->]|[[t [-> ->]]|[h [t [w [-> [-> [Hn H]]]]]]]]; constructor; auto.
Qed.
Lemma LibV_DistinctV : forall k l, LibV k rel_distinct [l] -> DistinctV l.
Proof.
  induction k as [|k IH]; intros l H; [destruct H|]. cbn [LibV] in H. revert H. rel_ids. intros H.
  destruct H as [->|[[a ->]|[a [b [t [-> [Hn [H1 H2]]]]]]]]; constructor; auto.
Qed.
Lemma LibV_PermuteV : forall k a b, LibV k rel_permute [a; b] -> PermuteV a b.
Proof.
  induction k as [|k IH]; intros a b H; [destruct H|]. cbn [LibV] in H. revert H. rel_ids. intros H.
  destruct H as [[-> ->]|[x [xs [ys [-> [H1 H2]]]]]]; [constructor|]. econstructor; [apply IH, H1|eapply LibV_RemberV, H2].
Qed.
Theorem member1_reading_exact x l : Member1V x l <-> exists k, LibV k rel_member1 [x; l].
Proof. split; [apply Member1V_LibV|intros [k H]; eapply LibV_Member1V; eauto]. Qed.
Theorem rember_reading_exact x l o : RemberV x l o <-> exists k, LibV k rel_rember [x; l; o].
Proof. split; [apply RemberV_LibV|intros [k H]; eapply LibV_RemberV; eauto]. Qed.
Theorem distinct_reading_exact l : DistinctV l <-> exists k, LibV k rel_distinct [l].
Proof. split; [apply DistinctV_LibV|intros [k H]; eapply LibV_DistinctV; eauto]. Qed.
Theorem permute_reading_exact a b : PermuteV a b <-> exists k, LibV k rel_permute [a; b].
Proof. split; [apply PermuteV_LibV|intros [k H]; eapply LibV_PermuteV; eauto]. Qed.

(* non-vacuity of the for-loop reading: for x in [1, 2] { x != 3 } *)
Example everyg_reading : DenV [] (fun _ _ _ => False) 1 (fun _ => tnum 0)
  (CEveryg BFS [] 5 [tnum 1; tnum 2] [[GDiseq (TVar 5 false) (tnum 3)]]).
Proof.
  apply V_everyg. intros m th0 He Ht Hv Hm. exists th0. split; [apply agree_refl|].
  assert (E : from_iter BFS (fst (everyg_mk [] BFS [] 5 [[GDiseq (TVar 5 false) (tnum 3)]] [tnum 1; tnum 2] m)) =
              CConj BFS (CConj BFS (CConj BFS (CDiseq (tnum 2) (tnum 3)) CSucceed) CSucceed)
                        (CConj BFS (CConj BFS (CConj BFS (CDiseq (tnum 1) (tnum 3)) CSucceed) CSucceed) CSucceed)) by (vm_compute; reflexivity).
  rewrite E. split; [|cbn; repeat split; reflexivity].
  repeat (apply V_conj; [|try apply V_succeed]); try apply V_succeed; apply V_diseq; cbn; discriminate.
Qed.
