(* CLP(FD) answers satisfy every posted constraint - for whole programs (C16).

   For every program whose posted domains are well-formed (sparse domains sorted, as
   FiniteDomain::from builds them), every relation definition, every goal the front end elaborates
   (conjunction, disjunction of all kinds, fresh, closures, relation calls, conda/condu/onceo, anyo,
   for-all, project, match, ==, !=, domains, every CLP(FD)/CLP(Z) constraint, labeling), every
   search strategy and all fuel: EVERY valuation that solves a delivered answer state - its
   substitution, what is left of its constraint store, its domains - satisfies the logical reading
   of the program, in which each posted constraint is its integer relation, each posted domain is
   membership, == is equality and != is difference; and it solves the state the program started from. *)
From Coq Require Import List ZArith Bool Arith Lia.
From PV Require Import Model.Term Model.Subst Model.Unify Model.FD Model.State Model.Engine
  Proofs.FDProofs Proofs.UnifyProofs Proofs.DiseqProofs Proofs.KeyProofs Proofs.MonoProofs Proofs.SemProofs Proofs.DenProofs
  Proofs.ElabAll Proofs.ElabSrc Proofs.Acyc Proofs.GenPass Proofs.BodyInv Proofs.AcycState Proofs.FDDen Proofs.FDComp Proofs.FrameProofs Proofs.FDEq.
Import ListNotations.

(* ------------------------------------------------------------------ well-formed domains in the source *)
Fixpoint gdwf (g : goal) : Prop :=
  let all := fix all (l : list goal) : Prop := match l with [] => True | x :: r => gdwf x /\ all r end in
  let all2 := fix all2 (ll : list (list goal)) : Prop := match ll with [] => True | l :: r => all l /\ all2 r end in
  match g with
  | GConj gs | GFresh _ gs | GClosure gs | GProject _ gs => all gs
  | GCond css | GConda css | GCondu css | GOnceo css | GLoop css | GDfs css | GFor _ _ css => all2 css
  | GMatch _ _ arms => (fix alla (l : list (list term * list goal)) : Prop :=
                          match l with [] => True | arm :: r => all (snd arm) /\ alla r end) arms
  | GDom _ d => wf' d
  | _ => True
  end.

Lemma all_Forall gs : (fix all (l : list goal) : Prop := match l with [] => True | x :: r => gdwf x /\ all r end) gs <-> Forall gdwf gs.
Proof. induction gs as [|g r IH]; [split; auto|]. split; [intros [A B]; constructor; [exact A|apply IH, B]|intros H; inversion H; subst; split; [assumption|apply IH; assumption]]. Qed.
Lemma all2_Forall css :
  (fix all2 (ll : list (list goal)) : Prop := match ll with [] => True
     | l :: r => (fix all (l : list goal) : Prop := match l with [] => True | x :: r => gdwf x /\ all r end) l /\ all2 r end) css
  <-> Forall (Forall gdwf) css.
Proof.
  induction css as [|gs r IH]; [split; auto|]. split.
  - intros [A B]. constructor; [apply all_Forall, A|apply IH, B].
  - intros H. inversion H; subst. split; [apply all_Forall; assumption|apply IH; assumption].
Qed.

Definition Adwf (c : cgoal) : Prop :=
  match c with
  | CDom _ d => wf' d
  | CClosure _ _ gs => Forall gdwf gs
  | CEveryg _ _ _ _ css => Forall (Forall gdwf) css
  | CProject _ _ _ gs => Forall gdwf gs
  | CReify _ => False
  | _ => True
  end.
Definition dwf : cgoal -> Prop := gall Adwf.
Lemma Adwf_triv g : triv_atom g -> Adwf g.
Proof. destruct g; cbn; auto; intros []. Qed.

Section Prog.
Variable defs : list (nat * def).
Hypothesis defs_dwf : forall r d, find_def r defs = Some d -> gdwf (d_body d).

Lemma elab_dwf f k rho g n : gdwf g -> dwf (fst (elab defs f k rho g n)).
Proof.
  apply (elab_src Adwf Adwf_triv defs gdwf).
  - intros gs H. apply all_Forall, H.
  - intros xs gs H. apply all_Forall, H.
  - intros css H. apply all2_Forall, H.
  - intros css H. apply all2_Forall, H.
  - intros css H. apply all2_Forall, H.
  - intros css H. apply all2_Forall, H.
  - intros css H. apply all2_Forall, H.
  - intros css H. apply all2_Forall, H.
  - intros mk t arms H. cbn [gdwf] in H. induction arms as [|arm r IH]; [constructor|]. destruct H as [A B].
    constructor; [apply all_Forall, A|apply IH, B].
  - exact defs_dwf.
  - intros k0 rho0 gs H. cbn. apply all_Forall, H.
  - intros k0 rho0 x coll elems css H. cbn. apply all2_Forall, H.
  - intros k0 rho0 xs gs H. cbn. apply all_Forall, H.
  - intros x d x' H. exact H.
Qed.

Lemma gdwf_conj gs : Forall gdwf gs -> gdwf (GConj gs).
Proof. intros H. cbn [gdwf]. apply all_Forall, H. Qed.

(* ------------------------------------------------------------------ the logical reading, with the FD atoms *)
Definition opaqueF (g : cgoal) : Prop :=
  match g with CProbe _ | CForceAns _ | CEnforceFd | CReify _ => True | _ => False end.

Inductive DenF (th : val) : cgoal -> Prop :=
| F_succeed : DenF th CSucceed
| F_eq u v : app th u = app th v -> DenF th (CEq u v)
| F_diseq u v : app th u <> app th v -> DenF th (CDiseq u v)
| F_dom x d : (exists z, numv th x z /\ mem d z) -> DenF th (CDom x d)
| F_post c : choldF th c -> DenF th (CPost c)
| F_sq u v z : first_number u = Some z -> app th v = tnum (z * z) -> DenF th (CSq u v)
| F_conj k a b : DenF th a -> DenF th b -> DenF th (CConj k a b)
| F_conde k gs c : In c gs -> DenF th c -> DenF th (CConde k gs)
| F_fresh k a : DenF th a -> DenF th (CFresh k a)
| F_closure k rho gs n c nv : elab defs efuel k rho (GConj gs) n = (c, nv) -> DenF th c -> DenF th (CClosure k rho gs)
| F_call k r args d n c nv : find_def r defs = Some d ->
    elab defs efuel k (combine (d_params d) args) (GConj [d_body d]) n = (c, nv) -> DenF th c -> DenF th (CCall k r args)
| F_conda_commit f r nx : DenF th f -> DenF th r -> DenF th (CConda f r nx)
| F_conda_skip f r nx : DenF th nx -> DenF th (CConda f r nx)
| F_condu_commit f r nx : DenF th f -> DenF th r -> DenF th (CCondu f r nx)
| F_condu_skip f r nx : DenF th nx -> DenF th (CCondu f r nx)
| F_anyo g : DenF th (conde_from BFS [[g]; [anyo_from [[g]]]]) -> DenF th (CAnyo g)
| F_everyg k rho x elems css n cs nv :
    (fix mk (es : list term) (nv : nat) : list cgoal * nat :=
       match es with
       | [] => ([], nv)
       | e :: r =>
           let '(c, n1) := elab defs efuel k ((x, e) :: rho) (GConj (map GConj css)) nv in
           let '(cs, n2) := mk r n1 in (c :: cs, n2)
       end) elems n = (cs, nv) ->
    DenF th (from_iter k cs) -> DenF th (CEveryg k rho x elems css)
| F_project k rho xs gs rho' n c nv :
    elab defs efuel k rho' (GConj (map (fun g => GConj [g]) gs)) n = (c, nv) -> DenF th c -> DenF th (CProject k rho xs gs)
| F_opaque g : opaqueF g -> DenF th g.

(* the state facts carried through a derivation *)
Definition GoodS (st : state) : Prop := acyc (st_smap st) /\ WFD st.
Definition Ref (st a : state) : Prop := GoodS a /\ forall th, MstF th a -> MstF th st.

Lemma Ref_refl st : GoodS st -> Ref st st.
Proof. intros G. split; auto. Qed.
Lemma Ref_trans a b c : Ref a b -> Ref b c -> Ref a c.
Proof. intros [_ H1] [G2 H2]. split; [exact G2|]. intros th HM. apply H1, H2, HM. Qed.

Lemma state_unify_ref st u v a : GoodS st -> state_unify st u v = SOk a -> Ref st a /\ forall th, MstF th a -> app th u = app th v.
Proof.
  intros [A W] H. destruct (state_unify_F st u v a A W H) as [_ [W' [A' HS]]]. split; [split; [split; assumption|]|]; intros th HM; apply (HS th HM).
Qed.
Lemma state_disunify_ref st u v a : GoodS st -> state_disunify st u v = SOk a -> Ref st a /\ forall th, MstF th a -> app th u <> app th v.
Proof.
  intros [A W]. unfold state_disunify. pose proof (disunify_spec st u v) as D.
  destruct (unify dfuel (st_smap st) [] u v) as [s' [|e r]| |]; try discriminate; intros H; inversion H; subst a.
  - destruct (wn_FC st (KDiseq (e :: r)) W) as [S HC]. split.
    + split; [split; [rewrite with_new_constraint_smap; exact A|apply S]|]. intros th HM. eapply MstF_SolF; eauto.
    + intros th HM. pose proof (HC th HM) as Hh. cbn [choldF] in Hh. destruct HM as [Hs _]. rewrite with_new_constraint_smap in Hs.
      apply (D th Hs). exact Hh.
  - split; [apply Ref_refl; split; assumption|]. intros th [Hs _]. apply (D th Hs).
Qed.
Lemma post_domain_ref x d st a : GoodS st -> wf' d -> post_domain x d st = SOk a -> Ref st a /\ forall th, MstF th a -> exists z, numv th x z /\ mem d z.
Proof.
  intros [A W] Wd H. pose proof (post_domain_FD x d st W Wd) as F. pose proof (post_domain_acyc x d st A) as A'. rewrite H in F, A'.
  cbn in F, A'. destruct F as [S HC]. split; [split; [split; [exact A'|apply S]|]|exact HC]. intros th HM. eapply MstF_SolF; eauto.
Qed.
Lemma post_constraint_ref c st a : GoodS st -> post_constraint c st = SOk a -> Ref st a /\ forall th, MstF th a -> choldF th c.
Proof.
  intros [A W] H. pose proof (post_constraint_FC c st W) as F. pose proof (post_constraint_acyc c st A) as A'. rewrite H in F, A'.
  cbn in F, A'. destruct F as [S HC]. split; [split; [split; [exact A'|apply S]|]|exact HC]. intros th HM. eapply MstF_SolF; eauto.
Qed.

Lemma dwf_conde k gs : dwf (CConde k gs) <-> Forall dwf gs.
Proof. apply gall_conde. Qed.

Theorem Sem_FD : forall g st a, Sem defs g st a -> dwf g -> GoodS st ->
  Ref st a /\ forall th, MstF th a -> DenF th g.
Proof.
  induction 1; intros Hd G.
  - split; [apply Ref_refl, G|constructor].
  - destruct (state_unify_ref _ _ _ _ G H) as [R HC]. split; [exact R|]. intros th HM. constructor. apply HC, HM.
  - destruct (state_disunify_ref _ _ _ _ G H) as [R HC]. split; [exact R|]. intros th HM. constructor. apply HC, HM.
  - destruct (post_domain_ref _ _ _ _ G Hd H) as [R HC]. split; [exact R|]. intros th HM. constructor. apply HC, HM.
  - destruct (post_constraint_ref _ _ _ G H) as [R HC]. split; [exact R|]. intros th HM. constructor. apply HC, HM.
  - split; [split; [exact G|intros th HM; exact HM]|]. intros. apply F_opaque. exact I.
  - destruct (state_unify_ref _ _ _ _ G H0) as [R HC]. split; [exact R|]. intros th HM. econstructor; [exact H|].
    symmetry. apply (HC th HM).
  - destruct Hd as [Hd1 Hd2]. destruct (IHSem1 Hd1 G) as [R1 D1]. destruct (IHSem2 Hd2 (proj1 R1)) as [R2 D2].
    split; [eapply Ref_trans; eauto|]. intros th HM. constructor; [apply D1, (proj2 R2), HM|apply D2, HM].
  - apply dwf_conde in Hd. rewrite Forall_forall in Hd. destruct (IHSem (Hd c H) G) as [R D]. split; [exact R|].
    intros th HM. econstructor; eauto.
  - destruct (IHSem Hd G) as [R D]. split; [exact R|]. intros th HM. constructor. auto.
  - pose proof (elab_dwf efuel k rho (GConj gs) (st_nextv st) (gdwf_conj _ Hd)) as Hc. rewrite H in Hc.
    destruct (IHSem Hc G) as [R D]. split; [exact R|]. intros th HM. econstructor; eauto.
  - pose proof (elab_dwf efuel k (combine (d_params d) args) (GConj [d_body d]) (st_nextv st)
                  (gdwf_conj _ (Forall_cons _ (defs_dwf _ _ H) (Forall_nil _)))) as Hc. rewrite H0 in Hc.
    destruct (IHSem Hc G) as [R D]. split; [exact R|]. intros th HM. econstructor; eauto.
  - destruct Hd as [Hd1 [Hd2 Hd3]]. destruct (IHSem1 Hd1 G) as [R1 D1]. destruct (IHSem2 Hd2 (proj1 R1)) as [R2 D2].
    split; [eapply Ref_trans; eauto|]. intros th HM. apply F_conda_commit; [apply D1, (proj2 R2), HM|apply D2, HM].
  - destruct Hd as [Hd1 [Hd2 Hd3]]. destruct (IHSem Hd3 G) as [R D]. split; [exact R|]. intros th HM. apply F_conda_skip. auto.
  - destruct Hd as [Hd1 [Hd2 Hd3]]. destruct (IHSem1 Hd1 G) as [R1 D1]. destruct (IHSem2 Hd2 (proj1 R1)) as [R2 D2].
    split; [eapply Ref_trans; eauto|]. intros th HM. apply F_condu_commit; [apply D1, (proj2 R2), HM|apply D2, HM].
  - destruct Hd as [Hd1 [Hd2 Hd3]]. destruct (IHSem Hd3 G) as [R D]. split; [exact R|]. intros th HM. apply F_condu_skip. auto.
  - assert (Hc : dwf (conde_from BFS [[g]; [anyo_from [[g]]]])).
    { apply (conde_from_all Adwf Adwf_triv). repeat constructor; [exact Hd|]. apply (anyo_from_all Adwf Adwf_triv). repeat constructor. exact Hd. }
    destruct (IHSem Hc G) as [R D]. split; [exact R|]. intros th HM. apply F_anyo. auto.
  - assert (Hc : dwf (from_iter k cs)).
    { apply (from_iter_all Adwf Adwf_triv). cbn in Hd. clear IHSem H0 G. revert H. generalize (st_nextv st). revert cs nv.
      induction elems as [|e r IHr]; intros cs nv n0 H; [inversion H; subst; constructor|].
      pose proof (elab_dwf efuel k ((x, e) :: rho) (GConj (map GConj css)) n0) as He.
      destruct (elab defs efuel k ((x, e) :: rho) (GConj (map GConj css)) n0) as [c n1].
      match type of H with (let '(cs0, n2) := ?X in _) = _ => destruct X as [cs1 n2] eqn:Er end. inversion H; subst.
      constructor; [|eapply IHr; eauto]. apply He. apply gdwf_conj. apply Forall_forall. intros g0 Hg0.
      apply in_map_iff in Hg0 as [gs0 [<- Hin]]. apply gdwf_conj. rewrite Forall_forall in Hd. apply Hd, Hin. }
    destruct (IHSem Hc G) as [R D]. split; [exact R|]. intros th HM. eapply F_everyg; eauto.
  - assert (Hg : gdwf (GConj (map (fun g => GConj [g]) gs))).
    { apply gdwf_conj. apply Forall_forall. intros g0 Hg0. apply in_map_iff in Hg0 as [g1 [<- Hin]]. apply gdwf_conj.
      constructor; [|constructor]. cbn in Hd. rewrite Forall_forall in Hd. apply Hd, Hin. }
    pose proof (elab_dwf efuel k rho' _ (st_nextv st) Hg) as Hc. rewrite H0 in Hc.
    destruct (IHSem Hc G) as [R D]. split; [exact R|]. intros th HM. eapply F_project; eauto.
  - destruct (state_unify_ref _ _ _ _ G H2) as [R HC]. split; [exact R|]. intros. apply F_opaque. exact I.
  - assert (Hc : dwf (from_array BFS [CForceAns h; CForceAns tl])) by (apply (from_array_all Adwf Adwf_triv); repeat constructor).
    destruct (IHSem Hc G) as [R D]. split; [exact R|]. intros. apply F_opaque. exact I.
  - assert (Hc : dwf (from_array BFS (map CForceAns (flat_children cs)))).
    { apply (from_array_all Adwf Adwf_triv). apply Forall_forall. intros c Hin. apply in_map_iff in Hin as [t [<- _]]. exact I. }
    destruct (IHSem Hc G) as [R D]. split; [exact R|]. intros. apply F_opaque. exact I.
  - split; [apply Ref_refl, G|]. intros. apply F_opaque. exact I.
  - assert (Hc : dwf (onceo_from [[CForceAns (list_term (map (fun p => TVar (fst p) false) (st_dstore st)))]])).
    { apply (onceo_from_all Adwf Adwf_triv). repeat constructor. }
    destruct (IHSem Hc G) as [R D]. split; [exact R|]. intros. apply F_opaque. exact I.
  - destruct Hd.
Qed.

(* end to end: what Solver::next delivers for a program run from the initial state *)
Theorem fd_delivered_sound k u n g st a rest u' th :
  dwf g -> GoodS st ->
  next defs k u (start defs n g st) = NAnswer a rest u' -> MstF th a ->
  DenF th g /\ MstF th st /\ GoodS a.
Proof.
  intros Hd G H HM. pose proof (next_sound_goal defs _ _ _ _ _ _ _ _ H) as HS.
  destruct (Sem_FD g st a HS Hd G) as [[Ga R] D]. split; [apply D, HM|]. split; [apply R, HM|exact Ga].
Qed.
End Prog.
