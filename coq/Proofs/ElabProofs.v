(* Goal construction (C13, C14, C15): scoping, freshness and the shape of what the surface
   syntax elaborates to. *)
From Coq Require Import List ZArith Bool Arith Lia FinFun.
From PV Require Import Model.Term Model.Subst Model.Unify Model.FD Model.State Model.Engine.
Import ListNotations.

(* ------------------------------------------------------------ fresh variables *)
Lemma bind_fresh_spec : forall xs rho n rho' n',
  bind_fresh xs rho n = (rho', n') ->
  n' = n + length xs /\
  exists new, rho' = new ++ rho /\ map fst new = rev xs /\
              map snd new = rev (map (fun i => TVar i false) (seq n (length xs))).
Proof.
  induction xs as [|x xs IH]; intros rho n rho' n' H; cbn [bind_fresh] in H.
  - inversion H; subst. split; [cbn; lia|]. exists []. auto.
  - destruct (IH _ _ _ _ H) as [E [new [-> [F S_]]]]. split; [cbn [length]; lia|].
    exists (new ++ [(x, TVar n false)]). rewrite <- app_assoc. split; [reflexivity|].
    rewrite !map_app. cbn [map fst snd length seq rev]. rewrite F, S_. split; reflexivity.
Qed.

(* the variables a fresh block introduces are pairwise distinct and all new (>= the counter) *)
Corollary bind_fresh_distinct xs rho n rho' n' :
  bind_fresh xs rho n = (rho', n') ->
  exists new, rho' = new ++ rho /\ length new = length xs /\
    NoDup (map snd new) /\ forall t, In t (map snd new) -> exists i, t = TVar i false /\ n <= i < n'.
Proof.
  intros H. destruct (bind_fresh_spec _ _ _ _ _ H) as [E [new [-> [F S_]]]]. exists new. split; auto.
  split; [rewrite <- (map_length fst), F, rev_length; reflexivity|]. rewrite S_. split.
  - apply NoDup_rev. apply Injective_map_NoDup; [intros a b Hab; inversion Hab; auto|apply seq_NoDup].
  - intros t Ht. apply in_rev in Ht. apply in_map_iff in Ht as [i [<- Hi]]. apply in_seq in Hi. exists i. split; auto. lia.
Qed.

(* a name bound by the innermost block shadows the same name outside; other names are unaffected *)
Lemma env_lookup_app x new rho :
  env_lookup x (new ++ rho) = match env_lookup x new with Some v => Some v | None => env_lookup x rho end.
Proof. induction new as [|[y t] new IH]; cbn [app env_lookup]; auto. destruct (Nat.eqb y x); auto. Qed.

(* the counter only grows *)
Lemma elab_term_mono : 
  (forall t rho n t' n', elab_term rho t n = (t', n') -> n <= n') /\
  (forall ts rho n ts' n', elab_terms rho ts n = (ts', n') -> n <= n').
Proof.
  apply term_terms_ind.
  - intros l rho n t' n' H. inversion H; lia.
  - intros v a rho n t' n' H. cbn [elab_term] in H. destruct a; inversion H; lia.
  - intros rho n t' n' H. inversion H; lia.
  - intros h IHh t IHt rho n t' n' H. cbn [elab_term] in H.
    destruct (elab_term rho h n) as [h' n1] eqn:E1. destruct (elab_term rho t n1) as [t2 n2] eqn:E2. inversion H; subst.
    specialize (IHh _ _ _ _ E1). specialize (IHt _ _ _ _ E2). lia.
  - intros g cs IH rho n t' n' H. cbn [elab_term] in H. destruct (elab_terms rho cs n) as [cs' n1] eqn:E1. inversion H; subst. eauto.
  - intros rho n ts' n' H. inversion H; lia.
  - intros t IHt r IHr rho n ts' n' H. cbn [elab_terms] in H.
    destruct (elab_term rho t n) as [t' n1] eqn:E1. destruct (elab_terms rho r n1) as [r' n2] eqn:E2. inversion H; subst.
    specialize (IHt _ _ _ _ E1). specialize (IHr _ _ _ _ E2). lia.
Qed.

(* `_` : every occurrence is a new any-variable *)
Lemma elab_wildcard rho v n : elab_term rho (TVar v true) n = (TVar n true, S n).
Proof. reflexivity. Qed.

(* a term's construction depends on the environment only through the names that occur in it *)
Fixpoint names_of (t : term) : list nat :=
  match t with
  | TVar x false => [x]
  | TCons h tl => names_of h ++ names_of tl
  | TComp _ cs => names_of_list cs
  | _ => []
  end
with names_of_list (ts : terms) : list nat :=
  match ts with TNil => [] | TMore t r => names_of t ++ names_of_list r end.

Lemma elab_term_ext :
  (forall t rho rho' n, (forall x, In x (names_of t) -> env_lookup x rho = env_lookup x rho') -> elab_term rho t n = elab_term rho' t n) /\
  (forall ts rho rho' n, (forall x, In x (names_of_list ts) -> env_lookup x rho = env_lookup x rho') -> elab_terms rho ts n = elab_terms rho' ts n).
Proof.
  apply term_terms_ind; intros; cbn [elab_term elab_terms names_of names_of_list] in *; auto.
  - destruct any; auto. rewrite (H v); cbn; auto.
  - rewrite (H rho rho' n) by (intros; apply H1; apply in_or_app; auto).
    destruct (elab_term rho' h n) as [h' n1]. rewrite (H0 rho rho' n1) by (intros; apply H1; apply in_or_app; auto). reflexivity.
  - rewrite (H rho rho' n) by auto. reflexivity.
  - rewrite (H rho rho' n) by (intros; apply H1; apply in_or_app; auto).
    destruct (elab_term rho' t n) as [t' n1]. rewrite (H0 rho rho' n1) by (intros; apply H1; apply in_or_app; auto). reflexivity.
Qed.

(* renaming a bound name: the constructed term is the same *)
Fixpoint rename (x y : nat) (t : term) : term :=
  match t with
  | TVar z false => if Nat.eqb z x then TVar y false else t
  | TCons h tl => TCons (rename x y h) (rename x y tl)
  | TComp g cs => TComp g (rename_list x y cs)
  | other => other
  end
with rename_list (x y : nat) (ts : terms) : terms :=
  match ts with TNil => TNil | TMore t r => TMore (rename x y t) (rename_list x y r) end.

Lemma elab_term_rename x y v :
  (forall t rho n, ~ In y (names_of t) -> elab_term ((y, v) :: rho) (rename x y t) n = elab_term ((x, v) :: rho) t n) /\
  (forall ts rho n, ~ In y (names_of_list ts) -> elab_terms ((y, v) :: rho) (rename_list x y ts) n = elab_terms ((x, v) :: rho) ts n).
Proof.
  apply term_terms_ind; intros; cbn [rename rename_list elab_term elab_terms names_of names_of_list] in *; auto.
  - destruct any; auto. destruct (Nat.eqb_spec v0 x) as [E|E].
    + subst. cbn [elab_term env_lookup]. rewrite !Nat.eqb_refl. reflexivity.
    + cbn [elab_term env_lookup]. destruct (Nat.eqb_spec y v0) as [F|F]; [exfalso; apply H; cbn; auto|].
      destruct (Nat.eqb_spec x v0); [congruence|reflexivity].
  - rewrite H by (intros HI; apply H1; apply in_or_app; auto).
    destruct (elab_term ((x, v) :: rho) h n) as [h' n1]. rewrite H0 by (intros HI; apply H1; apply in_or_app; auto). reflexivity.
  - rewrite H by auto. reflexivity.
  - rewrite H by (intros HI; apply H1; apply in_or_app; auto).
    destruct (elab_term ((x, v) :: rho) t n) as [t' n1]. rewrite H0 by (intros HI; apply H1; apply in_or_app; auto). reflexivity.
Qed.

(* ------------------------------------------------------------ terms denote the written term *)
Lemma elab_list_term rho : forall ts n,
  elab_term rho (list_term ts) n = (let '(ts', n') := elab_term_list rho ts n in (list_term ts', n')).
Proof.
  induction ts as [|t ts IH]; intros n; cbn [list_term elab_term elab_term_list]; auto.
  destruct (elab_term rho t n) as [t' n1]. rewrite IH. destruct (elab_term_list rho ts n1) as [ts' n2]. reflexivity.
Qed.
Lemma elab_improper_term rho : forall ts last n,
  elab_term rho (improper_term ts last) n =
  (let '(ts', n1) := elab_term_list rho ts n in let '(l', n2) := elab_term rho last n1 in (improper_term ts' l', n2)).
Proof.
  induction ts as [|t ts IH]; intros last n; cbn [improper_term elab_term elab_term_list].
  - destruct (elab_term rho last n); reflexivity.
  - destruct (elab_term rho t n) as [t' n1]. rewrite IH. destruct (elab_term_list rho ts n1) as [ts' n2].
    destruct (elab_term rho last n2); reflexivity.
Qed.
