(* == on states with finite domains (C16, C17): State::unify = unify_rec, re-run of the constraint
   store, then process_extension_fd, which hands the domain of every newly bound variable over to the
   term it was bound to and removes it.  From an acyclic substitution and well-formed domains:
     sound    - every valuation that solves the returned state solves the state it started from
                (every stored constraint, EVERY domain, including those of the variables that got
                bound) and makes the two sides equal;
     complete - every valuation that solves the starting state and makes the two sides equal solves
                the returned state; failure only when there is none. *)
From Coq Require Import List ZArith Bool Arith Lia.
From PV Require Import Model.Term Model.Subst Model.Unify Model.FD Model.State Model.Engine
  Proofs.FDProofs Proofs.UnifyProofs Proofs.DiseqProofs Proofs.KeyProofs Proofs.MonoProofs Proofs.DenProofs
  Proofs.Acyc Proofs.GenPass Proofs.AcycState Proofs.FDDen Proofs.FDComp Proofs.FrameProofs.
Import ListNotations.

Notation rcsF := (run_constraints cfuel).

Lemma remove_id_cons_other {A} x y (d : A) l : y <> x -> remove_id x ((y, d) :: l) = (y, d) :: remove_id x l.
Proof. intros N. cbn [remove_id]. destruct (Nat.eqb_spec y x); [congruence|reflexivity]. Qed.

(* what process_domain guarantees about the operand survives the removal of a bound variable's domain *)
Lemma pd_guarantee sa v d sb x t :
  acyc (st_smap sa) -> WFD sa -> wf' d -> In (x, t) (st_smap sa) ->
  process_domain rcsF sa v d = SOk sb ->
  forall th, MstF th (dom_remove sb x) -> exists z, numv th v z /\ mem d z.
Proof.
  intros A W Wd Hx. unfold process_domain.
  destruct (wk (st_smap sa) v) as [[n| | |]|y a| | |] eqn:Ev; try discriminate.
  - destruct (fd_contains d n) eqn:Ec; [|discriminate]. intros H th [Hs _]. inversion H; subst sb. cbn in Hs.
    exists n. split; [eapply numv_wk; eauto|apply contains_mem, Ec].
  - assert (Nyx : y <> x) by (intros ->; apply (in_lookup x t _ Hx); eapply wk_var_unbound; eauto).
    unfold update_var_domain, resolve_storable_domain.
    assert (K : forall dd, (forall z, mem dd z -> mem d z) ->
              (match fd_singleton_value dd with
               | Some n => rcsF (dom_remove (set_smap sa ((y, tnum n) :: st_smap sa)) y)
               | None => SOk (dom_insert sa y dd) end) = SOk sb ->
              forall th, MstF th (dom_remove sb x) -> exists z, numv th v z /\ mem d z).
    { intros dd Hd. destruct (fd_singleton_value dd) as [n|] eqn:Es.
      - intros H th [Hs _]. cbn in Hs. pose proof (run_constraints_E cfuel (dom_remove (set_smap sa ((y, tnum n) :: st_smap sa)) y)) as E.
        rewrite H in E. cbn in E. pose proof (ext_sat th _ _ E Hs) as Hs1. cbn in Hs1. apply sat_cons in Hs1 as [Hy Hs0].
        exists n. split; [|apply Hd, (singleton_mem _ _ Es)]. unfold numv. rewrite (app_wk_var th _ v y a Hs0 Ev). exact Hy.
      - intros H th [Hs [_ HD]]. inversion H; subst sb. cbn in Hs, HD. destruct (Nat.eqb_spec y x) as [Eyx|_]; [contradiction|].
        destruct (HD y dd (or_introl eq_refl)) as [z [Hz Mz]]. exists z. split; [|apply Hd, Mz].
        unfold numv. rewrite (app_wk_var th _ v y a Hs Ev). exact Hz. }
    destruct (find_id y (st_dstore sa)) as [old|] eqn:Ef.
    + destruct (fd_intersect old d) as [i|] eqn:Ei; [|discriminate].
      assert (Wold : wf' old) by (apply (W y old); apply find_id_in; exact Ef).
      destruct (intersect_sub old d i Wold Wd Ei) as [_ Hi]. apply K. intros z Hz. apply (Hi z Hz).
    + apply K. auto.
Qed.

Lemma nodup_app_l {A} (l l' : list A) : NoDup (l ++ l') -> NoDup l.
Proof.
  induction l as [|x r IH]; cbn; [constructor|]. intros H. inversion H as [|? ? Hn Hr]; subst. constructor; [|apply IH, Hr].
  intros Hin. apply Hn. apply in_or_app. left. exact Hin.
Qed.
Lemma WFD_dom_remove st x : WFD st -> WFD (dom_remove st x).
Proof. intros W y d Hin. apply (W y d). cbn in Hin. eapply remove_id_in; eauto. Qed.

(* ------------------------------------------------------------------ soundness of the hand-over loop *)
Lemma pe_sound ds : (forall x d, find_id x ds = Some d -> wf' d) ->
  forall e sa sf,
  acyc (st_smap sa) -> WFD sa -> NoDup (map fst e) ->
  (forall x v, In (x, v) e -> In (x, v) (st_smap sa)) ->
  (forall x v, In (x, v) e -> find_id x (st_dstore sa) = find_id x ds) ->
  process_extension_fd ds e sa = SOk sf ->
  ext sa sf /\ WFD sf /\ acyc (st_smap sf) /\ forall th, MstF th sf -> MstF th sa.
Proof.
  intros Hds. induction e as [|[x v] r IH]; intros sa sf A W ND Hin Hfd H; cbn [process_extension_fd] in H.
  - inversion H; subst. split; [apply ext_refl|]. split; [exact W|]. split; [exact A|auto].
  - cbn [map fst] in ND. inversion ND as [|? ? Hnx NDr]; subst.
    assert (Hin_r : forall y w, In (y, w) r -> In (y, w) (st_smap sa)) by (intros; apply Hin; right; assumption).
    assert (Hfd_r : forall y w, In (y, w) r -> find_id y (st_dstore sa) = find_id y ds) by (intros y w Hy; apply (Hfd y w); right; assumption).
    destruct (find_id x ds) as [d|] eqn:Ex; [|apply IH; assumption].
    pose proof (Hds x d Ex) as Wd.
    pose proof (process_domain_FD rcsF (run_constraints_F cfuel) sa v d W Wd) as F1.
    pose proof (process_domain_FR sa v d) as R1.
    destruct (process_domain rcsF sa v d) as [sb| | |] eqn:Epd; try discriminate. cbn [sbind] in H.
    cbn [sresFD] in F1. destruct F1 as [S1 _]. cbn [sresR] in R1. destruct R1 as [E1 R1]. destruct (R1 A) as [Ab Fr1].
    pose proof (Hin x v (or_introl eq_refl)) as Hxv.
    assert (Exb : find_id x (st_dstore sb) = Some d).
    { rewrite (Fr1 x (in_lookup x v _ Hxv)). rewrite (Hfd x v (or_introl eq_refl)). exact Ex. }
    rewrite Exb in H.
    pose proof (proj1 (proj2 S1)) as Wb. pose proof (WFD_dom_remove sb x Wb) as Wc0.
    pose proof (run_constraints_F cfuel (dom_remove sb x) Wc0) as F2.
    pose proof (run_constraints_FR cfuel (dom_remove sb x)) as R2.
    destruct (rcsF (dom_remove sb x)) as [sc| | |] eqn:Erc; try discriminate. cbn [sbind] in H.
    cbn [sresF] in F2. cbn [sresR] in R2. destruct R2 as [E2 R2]. destruct (R2 Ab) as [Ac Fr2].
    assert (Esb : forall y w, In (y, w) (st_smap sa) -> In (y, w) (st_smap sb)).
    { intros y w Hy. destruct E1 as [new E]. rewrite E. apply in_or_app. right. exact Hy. }
    assert (Esc : forall y w, In (y, w) (st_smap sb) -> In (y, w) (st_smap sc)).
    { intros y w Hy. destruct E2 as [new E]. rewrite E. apply in_or_app. right. exact Hy. }
    destruct (IH sc sf Ac (proj1 (proj2 F2)) NDr) as [E3 [Wf [Af HS]]].
    + intros y w Hy. apply Esc, Esb, Hin_r, Hy.
    + intros y w Hy. assert (Nyx : y <> x) by (intros ->; apply Hnx; apply in_map_iff; exists (x, w); split; [reflexivity|exact Hy]).
      rewrite (Fr2 y); [|apply (in_lookup y w), Esb, Hin_r, Hy]. cbn [dom_remove set_dstore st_dstore].
      rewrite (find_remove_other y x _ Nyx). rewrite (Fr1 y); [|apply (in_lookup y w), Hin_r, Hy]. apply (Hfd_r y w Hy).
    + exact H.
    + split; [eapply ext_trans; [exact E1|]; eapply ext_trans; [exact E2|exact E3]|]. split; [exact Wf|]. split; [exact Af|].
      intros th HM. apply (MstF_SolF th sa sb S1).
      pose proof (MstF_SolF th _ _ F2 (HS th HM)) as HM0.
      destruct (pd_guarantee sa v d sb x v A W Wd Hxv Epd th HM0) as [z [Hz Mz]].
      destruct HM0 as [Hs [HSt HD]]. cbn in Hs, HSt, HD. split; [exact Hs|]. split; [exact HSt|].
      intros y dy Hy. destruct (remove_find_in x _ d (y, dy) Exb Hy) as [Eq|Hr]; [|apply HD, Hr].
      inversion Eq; subst. exists z. split; [|exact Mz]. rewrite (Hs x v (Esb x v Hxv)). exact Hz.
Qed.

(* ------------------------------------------------------------------ == is sound *)
Theorem state_unify_F st u v st' : acyc (st_smap st) -> WFD st -> state_unify st u v = SOk st' ->
  ext st st' /\ WFD st' /\ acyc (st_smap st') /\
  forall th, MstF th st' -> MstF th st /\ app th u = app th v.
Proof.
  intros A W. unfold state_unify.
  destruct (unify dfuel (st_smap st) [] u v) as [s' e| |] eqn:EU; try discriminate.
  destruct (unify_extends _ _ _ _ _ _ _ EU) as [new [Es Ee]]. rewrite app_nil_r in Ee. subst e.
  pose proof (proj1 (unify_acyc dfuel) _ _ _ _ _ _ A EU) as A1.
  set (st1 := set_smap st s').
  assert (W1 : WFD st1) by exact W.
  pose proof (run_constraints_F cfuel st1 W1) as F2. pose proof (run_constraints_FR cfuel st1) as R2.
  destruct (rcsF st1) as [st2| | |] eqn:Erc; try discriminate. cbn [sbind].
  cbn [sresF] in F2. cbn [sresR] in R2. destruct R2 as [E2 R2]. destruct (R2 A1) as [A2 _].
  destruct (process_extension_fd (st_dstore st2) (rev new) st2) as [st3| | |] eqn:Epe; try discriminate. cbn [sbind].
  intros H. inversion H; subst st'.
  assert (ND : NoDup (map fst (rev new))).
  { pose proof (acyc_keys s' A1) as N. rewrite Es, map_app in N. apply nodup_app_l in N.
    rewrite map_rev. apply NoDup_rev. exact N. }
  destruct (pe_sound (st_dstore st2) (fun x d Hf => proj1 (proj2 F2) x d (find_id_in _ _ _ Hf)) (rev new) st2 st3 A2 (proj1 (proj2 F2)) ND) as [E3 [W3 [A3 HS]]].
  - intros x t Hx. apply in_rev in Hx. destruct E2 as [n2 E]. rewrite E. apply in_or_app. right. cbn. rewrite Es. apply in_or_app. left. exact Hx.
  - intros; reflexivity.
  - exact Epe.
  - split; [|split; [exact W3|split; [exact A3|]]].
    + assert (E1 : ext st st1) by (exists new; exact Es). eapply ext_trans; [exact E1|]. eapply ext_trans; [exact E2|exact E3].
    + intros th HM. assert (HM3 : MstF th st3) by exact HM.
      pose proof (MstF_SolF th _ _ F2 (HS th HM3)) as [Hs1 [HSt HD]]. cbn in Hs1, HSt, HD.
      pose proof (proj1 (unify_sat _ _ _ _ _ _ _ EU th) Hs1) as [Hs0 Huv]. split; [split; [exact Hs0|split; assumption]|exact Huv].
Qed.

(* ------------------------------------------------------------------ == is complete *)
Lemma pe_complete ds : (forall x d, find_id x ds = Some d -> wf' d) ->
  forall e sa,
  acyc (st_smap sa) -> WFD sa -> NoDup (map fst e) ->
  (forall x v, In (x, v) e -> In (x, v) (st_smap sa)) ->
  (forall x v, In (x, v) e -> find_id x (st_dstore sa) = find_id x ds) ->
  sresCP (fun th => domF th ds) sa (process_extension_fd ds e sa).
Proof.
  intros Hds. induction e as [|[x v] r IH]; intros sa A W ND Hin Hfd; cbn [process_extension_fd]; [cbn; auto|].
  cbn [map fst] in ND. inversion ND as [|? ? Hnx NDr]; subst.
  assert (Hin_r : forall y w, In (y, w) r -> In (y, w) (st_smap sa)) by (intros; apply Hin; right; assumption).
  assert (Hfd_r : forall y w, In (y, w) r -> find_id y (st_dstore sa) = find_id y ds) by (intros y w Hy; apply (Hfd y w); right; assumption).
  destruct (find_id x ds) as [d|] eqn:Ex; [|apply IH; assumption].
  pose proof (Hds x d Ex) as Wd. pose proof (Hin x v (or_introl eq_refl)) as Hxv.
  pose proof (process_domain_FD rcsF (run_constraints_F cfuel) sa v d W Wd) as F1.
  pose proof (process_domain_FR sa v d) as R1.
  pose proof (process_domain_C rcsF (run_constraints_C cfuel) sa v d W Wd) as C1.
  destruct (process_domain rcsF sa v d) as [sb| | |] eqn:Epd; cbn [sbind]; try exact I.
  - cbn [sresFD] in F1. destruct F1 as [S1 _]. cbn [sresR] in R1. destruct R1 as [E1 R1]. destruct (R1 A) as [Ab Fr1].
    assert (Exb : find_id x (st_dstore sb) = Some d).
    { rewrite (Fr1 x (in_lookup x v _ Hxv)). rewrite (Hfd x v (or_introl eq_refl)). exact Ex. }
    rewrite Exb.
    pose proof (proj1 (proj2 S1)) as Wb. pose proof (WFD_dom_remove sb x Wb) as Wc0.
    pose proof (run_constraints_F cfuel (dom_remove sb x) Wc0) as F2.
    pose proof (run_constraints_FR cfuel (dom_remove sb x)) as R2.
    pose proof (run_constraints_C cfuel (dom_remove sb x) Wc0) as C2.
    assert (Step : forall th, MstG th sa -> domF th ds -> MstG th (dom_remove sb x)).
    { intros th HM HD. assert (HMb : MstG th sb).
      { apply (C1 th HM). destruct (HD x d (find_id_in _ _ _ Ex)) as [z [Hz Mz]]. exists z. split; [|exact Mz].
        unfold numv. rewrite <- (proj1 HM x v Hxv). exact Hz. }
      destruct HMb as [Hs [HS HDb]]. split; [exact Hs|]. split; [exact HS|]. intros y dy Hy. apply (HDb y dy). cbn in Hy. eapply remove_id_in; eauto. }
    destruct (rcsF (dom_remove sb x)) as [sc| | |] eqn:Erc; cbn [sbind]; try exact I.
    + cbn [sresF] in F2. cbn [sresR] in R2. destruct R2 as [E2 R2]. destruct (R2 Ab) as [Ac Fr2].
      assert (Esb : forall y w, In (y, w) (st_smap sa) -> In (y, w) (st_smap sb)).
      { intros y w Hy. destruct E1 as [new E]. rewrite E. apply in_or_app. right. exact Hy. }
      assert (Esc : forall y w, In (y, w) (st_smap sb) -> In (y, w) (st_smap sc)).
      { intros y w Hy. destruct E2 as [new E]. rewrite E. apply in_or_app. right. exact Hy. }
      eapply sresCP_pre; [|apply (IH sc Ac (proj1 (proj2 F2)) NDr)].
      * intros th HM HD. split; [|exact HD]. apply (C2 th (Step th HM HD) I).
      * intros y w Hy. apply Esc, Esb, Hin_r, Hy.
      * intros y w Hy. assert (Nyx : y <> x) by (intros ->; apply Hnx; apply in_map_iff; exists (x, w); split; [reflexivity|exact Hy]).
        rewrite (Fr2 y); [|apply (in_lookup y w), Esb, Hin_r, Hy]. cbn [dom_remove set_dstore st_dstore].
        rewrite (find_remove_other y x _ Nyx). rewrite (Fr1 y); [|apply (in_lookup y w), Hin_r, Hy]. apply (Hfd_r y w Hy).
    + cbn [sresCP] in *. intros th HM HD. apply (C2 th (Step th HM HD) I).
  - cbn [sresCP] in *. intros th HM HD. apply (C1 th HM). destruct (HD x d (find_id_in _ _ _ Ex)) as [z [Hz Mz]]. exists z. split; [|exact Mz].
    unfold numv. rewrite <- (proj1 HM x v Hxv). exact Hz.
Qed.

Theorem state_unify_C st u v : acyc (st_smap st) -> WFD st ->
  sresCP (fun th => app th u = app th v) st (state_unify st u v).
Proof.
  intros A W. unfold state_unify.
  destruct (unify dfuel (st_smap st) [] u v) as [s' e| |] eqn:EU; try exact I.
  - destruct (unify_extends _ _ _ _ _ _ _ EU) as [new [Es Ee]]. rewrite app_nil_r in Ee. subst e.
    pose proof (proj1 (unify_acyc dfuel) _ _ _ _ _ _ A EU) as A1.
    set (st1 := set_smap st s').
    assert (W1 : WFD st1) by exact W.
    assert (Step1 : forall th, MstG th st -> app th u = app th v -> MstG th st1).
    { intros th [Hs [HS HD]] Huv. split; [|split; assumption]. apply (unify_sat _ _ _ _ _ _ _ EU th). split; assumption. }
    pose proof (run_constraints_F cfuel st1 W1) as F2. pose proof (run_constraints_FR cfuel st1) as R2.
    pose proof (run_constraints_C cfuel st1 W1) as C2.
    destruct (rcsF st1) as [st2| | |] eqn:Erc; cbn [sbind]; try exact I.
    + cbn [sresF] in F2. cbn [sresR] in R2. destruct R2 as [E2 R2]. destruct (R2 A1) as [A2 _].
      assert (ND : NoDup (map fst (rev new))).
      { pose proof (acyc_keys s' A1) as N. rewrite Es, map_app in N. apply nodup_app_l in N.
        rewrite map_rev. apply NoDup_rev. exact N. }
      pose proof (pe_complete (st_dstore st2) (fun x d Hf => proj1 (proj2 F2) x d (find_id_in _ _ _ Hf)) (rev new) st2 A2 (proj1 (proj2 F2)) ND) as C3.
      match type of C3 with ?P1 -> ?P2 -> _ => assert (H1 : P1); [|assert (H2 : P2); [|specialize (C3 H1 H2)]] end.
      * intros x t Hx. apply in_rev in Hx. destruct E2 as [n2 E]. rewrite E. apply in_or_app. right. cbn. rewrite Es. apply in_or_app. left. exact Hx.
      * intros; reflexivity.
      * destruct (process_extension_fd (st_dstore st2) (rev new) st2) as [st3| | |]; cbn [sbind sresCP] in *; try exact I.
        -- intros th HM Huv. pose proof (C2 th (Step1 th HM Huv) I) as HM2. apply (C3 th HM2). apply HM2.
        -- intros th HM Huv. pose proof (C2 th (Step1 th HM Huv) I) as HM2. apply (C3 th HM2). apply HM2.
    + cbn [sresCP] in *. intros th HM Huv. apply (C2 th (Step1 th HM Huv) I).
  - cbn [sresCP]. intros th [Hs _]. apply (unify_complete _ _ _ _ _ EU th Hs).
Qed.
