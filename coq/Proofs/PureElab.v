(* The pure relational fragment (C07): goals built with interleaving conjunction and disjunction only -
   no committed choice (conda, condu, onceo), no depth-first blocks.  psrc is the predicate on source
   programs, pureg on goal objects; goal construction from a psrc source, in interleaving mode, with
   psrc relation definitions, yields pureg goals - including every body elaborated later. *)
From Coq Require Import List ZArith Bool Arith Lia.
From PV Require Import Model.Term Model.Subst Model.Unify Model.FD Model.State Model.Engine.
Import ListNotations.

Fixpoint psrc (g : goal) : Prop :=
  let all := fix all (l : list goal) : Prop := match l with [] => True | x :: r => psrc x /\ all r end in
  let all2 := fix all2 (ll : list (list goal)) : Prop := match ll with [] => True | l :: r => all l /\ all2 r end in
  match g with
  | GConj gs | GFresh _ gs | GClosure gs | GProject _ gs => all gs
  | GCond css | GLoop css | GFor _ _ css => all2 css
  | GConda _ | GCondu _ | GOnceo _ | GDfs _ => False
  | GMatch mk _ arms => mk = MMatch /\ (fix alla (l : list (list term * list goal)) : Prop :=
                          match l with [] => True | arm :: r => all (snd arm) /\ alla r end) arms
  | _ => True
  end.
Lemma pall_Forall gs : (fix all (l : list goal) : Prop := match l with [] => True | x :: r => psrc x /\ all r end) gs <-> Forall psrc gs.
Proof. induction gs as [|g r IH]; [split; auto|]. split; [intros [A B]; constructor; [exact A|apply IH, B]|intros H; inversion H; subst; split; [assumption|apply IH; assumption]]. Qed.
Lemma pall2_Forall css :
  (fix all2 (ll : list (list goal)) : Prop := match ll with [] => True
     | l :: r => (fix all (l : list goal) : Prop := match l with [] => True | x :: r => psrc x /\ all r end) l /\ all2 r end) css
  <-> Forall (Forall psrc) css.
Proof.
  induction css as [|gs r IH]; [split; auto|]. split.
  - intros [A B]. constructor; [apply pall_Forall, A|apply IH, B].
  - intros H. inversion H; subst. split; [apply pall_Forall; assumption|apply IH; assumption].
Qed.

Fixpoint pureg (g : cgoal) : Prop :=
  match g with
  | CConj k a b => k = BFS /\ pureg a /\ pureg b
  | CConde k gs => k = BFS /\ (fix all (l : list cgoal) : Prop := match l with [] => True | c :: r => pureg c /\ all r end) gs
  | CFresh k a => k = BFS /\ pureg a
  | CAnyo a => pureg a
  | CConda _ _ _ | CCondu _ _ _ | CEnforceFd => False
  | CClosure k _ gs => k = BFS /\ Forall psrc gs
  | CCall k _ _ => k = BFS
  | CEveryg k _ _ _ css => k = BFS /\ Forall (Forall psrc) css
  | CProject k _ _ gs => k = BFS /\ Forall psrc gs
  | _ => True
  end.

Lemma pureg_conde gs : pureg (CConde BFS gs) <-> Forall pureg gs.
Proof.
  cbn [pureg]. split.
  - intros [_ H]. induction gs as [|c r IH]; [constructor|]. destruct H. constructor; [assumption|apply IH; assumption].
  - intros H. split; [reflexivity|]. induction H; [exact I|]. split; assumption.
Qed.
Lemma p_conj_new a b : pureg a -> pureg b -> pureg (conj_new BFS a b).
Proof.
  intros Ha Hb. unfold conj_new. destruct (is_succeed a && is_succeed b); [exact I|].
  destruct (is_fail a || is_fail b); [exact I|]. cbn. auto.
Qed.
Lemma p_from_array cs : Forall pureg cs -> pureg (from_array BFS cs).
Proof. induction 1; cbn; [exact I|]. apply p_conj_new; assumption. Qed.
Lemma p_from_conjs css : Forall (Forall pureg) css -> pureg (from_conjs BFS css).
Proof. unfold from_conjs. induction 1; cbn; [exact I|]. apply p_conj_new; [apply p_from_array; assumption|assumption]. Qed.
Lemma p_from_iter cs : Forall pureg cs -> pureg (from_iter BFS cs).
Proof.
  unfold from_iter. assert (H0 : pureg CSucceed) by exact I. revert H0. generalize CSucceed. induction cs as [|c r IH]; intros acc Ha H; [exact Ha|].
  inversion H; subst. cbn [fold_left]. apply IH; [apply p_conj_new; assumption|assumption].
Qed.
Lemma p_conde_from css : Forall (Forall pureg) css -> pureg (conde_from BFS css).
Proof. intros H. unfold conde_from. apply pureg_conde. induction H; cbn; constructor; [apply p_from_array; assumption|assumption]. Qed.
Lemma p_anyo_from css : Forall (Forall pureg) css -> pureg (anyo_from css).
Proof. intros H. unfold anyo_from. cbn. apply p_from_conjs, H. Qed.
Lemma p_rel_goal r a : pureg (rel_goal BFS r a).
Proof. destruct r; cbn [rel_goal]; try exact I. apply p_from_array. repeat constructor. Qed.

Section Elab.
Variable defs : list (nat * def).
Hypothesis defs_psrc : forall r d, find_def r defs = Some d -> psrc (d_body d).

Lemma elab_pure : forall f rho g n, psrc g -> pureg (fst (elab defs f BFS rho g n)).
Proof.
  induction f as [|f IH]; intros rho g n HG; [exact I|].
  assert (Hel : forall gs rho n, Forall psrc gs -> Forall pureg (fst ((fix el (k : kind) (rho : env) (gs : list goal) (n : nat) : list cgoal * nat :=
      match gs with
      | [] => ([], n)
      | g :: r => let '(c, n1) := elab defs f k rho g n in let '(cs, n2) := el k rho r n1 in (c :: cs, n2)
      end) BFS rho gs n))).
  { induction gs as [|g0 r IHr]; intros rho0 n0 HGs; [constructor|]. inversion HGs as [|? ? HG0 HGr]; subst.
    pose proof (IH rho0 g0 n0 HG0) as Hc. destruct (elab defs f BFS rho0 g0 n0) as [c n1].
    specialize (IHr rho0 n1 HGr). match goal with |- context [let '(cs, n2) := ?X in _] => destruct X as [cs n2] end.
    constructor; assumption. }
  assert (Hell : forall css rho n, Forall (Forall psrc) css -> Forall (Forall pureg) (fst ((fix ell (k : kind) (rho : env) (css : list (list goal)) (n : nat) : list (list cgoal) * nat :=
      match css with
      | [] => ([], n)
      | gs :: r =>
          let '(c, n1) := (fix el (k : kind) (rho : env) (gs : list goal) (n : nat) : list cgoal * nat :=
             match gs with
             | [] => ([], n)
             | g :: r => let '(c, n1) := elab defs f k rho g n in let '(cs, n2) := el k rho r n1 in (c :: cs, n2)
             end) k rho gs n in
          let '(cs, n2) := ell k rho r n1 in (c :: cs, n2)
      end) BFS rho css n))).
  { induction css as [|gs r IHr]; intros rho0 n0 HGs; [constructor|]. inversion HGs as [|? ? HG0 HGr]; subst.
    pose proof (Hel gs rho0 n0 HG0) as Hc.
    match goal with |- context [let '(c, n1) := ?X in _] => destruct X as [c n1] end.
    specialize (IHr rho0 n1 HGr). match goal with |- context [let '(cs, n2) := ?X in _] => destruct X as [cs n2] end.
    constructor; assumption. }
  destruct g as [| |u v|u v|gs|xs gs|css|css|css|css|css|css|gs|r args|mk t arms|x coll css|xs gs|x d|r args|tag|u v]; cbn [elab]; try (destruct HG; fail).
  - exact I.
  - exact I.
  - destruct (elab_term rho u n) as [u' n1]. destruct (elab_term rho v n1). exact I.
  - destruct (elab_term rho u n) as [u' n1]. destruct (elab_term rho v n1). exact I.
  - pose proof (Hel gs rho n (proj1 (pall_Forall gs) HG)) as H. match goal with |- context [let '(cs, n1) := ?X in _] => destruct X end. apply p_from_array, H.
  - destruct (bind_fresh xs rho n) as [rho' n1]. pose proof (Hel gs rho' n1 (proj1 (pall_Forall gs) HG)) as H.
    match goal with |- context [let '(cs, n2) := ?X in _] => destruct X end. cbn. split; [reflexivity|]. apply p_from_array, H.
  - pose proof (Hell css rho n (proj1 (pall2_Forall css) HG)) as H. match goal with |- context [let '(cs, n1) := ?X in _] => destruct X end. apply p_conde_from, H.
  - pose proof (Hell css rho n (proj1 (pall2_Forall css) HG)) as H. match goal with |- context [let '(cs, n1) := ?X in _] => destruct X end. apply p_anyo_from, H.
  - cbn. split; [reflexivity|]. apply pall_Forall, HG.
  - destruct (elab_term_list rho args n) as [args' n1]. destruct (find_def r defs) eqn:Ed; [|exact I].
    destruct (d_closure d); [cbn; reflexivity|apply IH]. eapply defs_psrc; eauto.
  - destruct HG as [-> HGa].
    match goal with |- pureg (fst (let '(cs, n1) := ?X in _)) => assert (H : Forall (Forall pureg) (fst X)) end.
    { revert n. induction arms as [|[pats body] r IHr]; intros n0; [constructor|].
      destruct HGa as [HGb HGr]. cbn [snd] in HGb. apply pall_Forall in HGb. specialize (IHr HGr).
      match goal with |- context [let '(a, n1) := ?X in _] => assert (Ha : Forall (Forall pureg) (fst X)) end.
      { revert n0. induction pats as [|p pr IHp]; intros n0; [constructor|].
        destruct (elab_term rho t n0) as [t' n00]. destruct (bind_fresh _ rho n00) as [rho' n1]. destruct (elab_term rho' p n1) as [p' n2].
        pose proof (Hel body rho' n2 HGb) as Hb. match goal with |- context [let '(cs, n3) := ?X in _] => destruct X as [cs n3] end.
        specialize (IHp n3). match goal with |- context [let '(rest, n4) := ?X in _] => destruct X as [rest n4] end.
        constructor; [constructor; [exact I|exact Hb]|exact IHp]. }
      match goal with |- context [let '(a, n1) := ?X in _] => destruct X as [a n1] end.
      specialize (IHr n1). match goal with |- context [let '(b, n2) := ?X in _] => destruct X as [b n2] end.
      cbn. apply Forall_app. split; assumption. }
    match goal with |- pureg (fst (let '(cs, n1) := ?X in _)) => destruct X as [cs n1] end.
    apply p_conde_from; exact H.
  - destruct (elab_term rho coll n). cbn. split; [reflexivity|]. apply pall2_Forall, HG.
  - cbn. split; [reflexivity|]. apply pall_Forall, HG.
  - destruct (elab_term rho x n) as [x' n1]. cbn. destruct (is_list_term x'); [|exact I].
    apply p_from_array. apply Forall_forall. intros c Hc. apply in_map_iff in Hc. destruct Hc as [v [<- _]]. exact I.
  - destruct (elab_term_list rho args n) as [a n1]. cbn.
    destruct r; try apply p_rel_goal; (destruct (forallb var_or_number a); [apply p_rel_goal|exact I]).
  - exact I.
  - destruct (elab_term rho u n) as [u' n1]. destruct (elab_term rho v n1). exact I.
Qed.
End Elab.
