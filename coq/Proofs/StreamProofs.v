(* The stream algebra refines the reference semantics of Spec/StreamSem.v.

   Backward preservation: whatever the engine delivers from a stream is admissible for it.
     micro_ans  : micro s = Some (o, s') -> ansS s' xs -> ansS s (o ?:: xs)
     runs_ans   : runs n s ys s' -> ansS s' zs -> ansS s (ys ++ zs)
     runs_in    : runs n s ys s' -> In a ys -> inS s a
   Fairness / productivity of the interleaving operators (explicit step bounds):
     mplus_fair, bind_fair, inSb_emits
   All lemmas are parametric in [startf] under the two facts that hold of every [start (S n)]:
   starting Succeed yields the unit stream, starting Fail the empty one. *)
From Coq Require Import List Permutation Arith Lia.
From PV Require Import Model.Term Model.State Model.Engine Spec.StreamSem.
Import ListNotations.

Section Proofs.
Variable startf : cgoal -> state -> stream.
Hypothesis startf_succeed : forall st, startf CSucceed st = SUnit st.
Hypothesis startf_fail : forall st, startf CFail st = SEmpty.

Notation ansL := (ansL startf).
Notation ansS := (ansS startf).
Notation ansB := (ansB startf).
Notation inL := (inL startf).
Notation inS := (inS startf).
Notation micro := (micro startf).
Notation runs := (runs startf).
Notation emits := (emits startf).
Notation stepf := (step_with startf).

Lemma is_succeed_eq g : is_succeed g = true -> g = CSucceed.
Proof. destruct g; simpl; congruence. Qed.
Lemma is_fail_eq g : is_fail g = true -> g = CFail.
Proof. destruct g; simpl; congruence. Qed.

Lemma ansB_succeed xs : ansB CSucceed xs (map (fun x => [x]) xs).
Proof.
  induction xs as [|x xs IH]; simpl; constructor; auto.
  rewrite startf_succeed. constructor.
Qed.
Lemma concat_singletons (xs : list state) : concat (map (fun x => [x]) xs) = xs.
Proof. induction xs; simpl; congruence. Qed.

(* ---------------------------------------------------------------- mplus *)
Lemma mplus_dfs_ans s l zs :
  ansS (mplus_dfs s l) zs -> exists xs ys, ansS s xs /\ ansL l ys /\ zs = xs ++ ys.
Proof.
  destruct s as [|a|l'|a l'|o p]; cbn [mplus_dfs]; intros H.
  - inversion H; subst. exists [], zs. repeat split; auto. constructor.
  - inversion H; subst. exists [a], xs. repeat split; auto. constructor.
  - inversion H as [| |? ? HL|]; subst. inversion HL; subst.
    eexists _, _. repeat split; eauto. constructor; auto.
  - inversion H as [| | |? ? ? HL]; subst. inversion HL; subst.
    eexists (a :: _), _. repeat split; eauto. constructor; auto.
  - inversion H.
Qed.

Lemma mplus_ans s l zs :
  ansS (mplus s l) zs -> exists xs ys, ansS s xs /\ ansL l ys /\ Permutation zs (xs ++ ys).
Proof.
  destruct s as [|a|l'|a l'|o p]; cbn [mplus]; intros H.
  - inversion H; subst. exists [], zs. repeat split; auto. constructor.
  - inversion H; subst. exists [a], xs. repeat split; auto. constructor.
  - inversion H as [| |? ? HL|]; subst. inversion HL; subst.
    match goal with H1 : ansL l ?xs, H2 : ansL l' ?ys, HP : Permutation zs _ |- _ =>
      exists ys, xs; repeat split; auto; [constructor; auto| rewrite HP; apply Permutation_app_comm] end.
  - inversion H as [| | |? ? ? HL]; subst. inversion HL; subst.
    match goal with H1 : ansL l ?xs0, H2 : ansL l' ?ys0, HP : Permutation _ _ |- _ =>
      exists (a :: ys0), xs0; repeat split; auto; [constructor; auto|
        simpl; constructor; rewrite HP; apply Permutation_app_comm] end.
  - inversion H.
Qed.

(* ---------------------------------------------------------------- bind *)
Lemma bind_dfs_ans s g zs :
  ansS (bind_dfs s g) zs ->
  (is_fail g = true /\ zs = []) \/ exists xs yss, ansS s xs /\ ansB g xs yss /\ zs = concat yss.
Proof.
  unfold bind_dfs. destruct (is_succeed g) eqn:Es.
  - intros H. right. apply is_succeed_eq in Es. subst g.
    exists zs, (map (fun x => [x]) zs). split; auto. split; [apply ansB_succeed|].
    symmetry; apply concat_singletons.
  - destruct (is_fail g) eqn:Ef.
    + intros H. inversion H; subst. left; auto.
    + intros H. right. destruct s as [|a|l|a l|o p].
      * inversion H; subst. exists [], []. repeat split; constructor.
      * inversion H as [| |? ? HL|]; subst. inversion HL; subst.
        exists [a], [zs]. repeat split; [constructor| |simpl; rewrite app_nil_r; auto].
        constructor; auto. constructor.
      * unfold lazy_bind_dfs in H. rewrite Es, Ef in H.
        inversion H as [| |? ? HL|]; subst. inversion HL; subst; [|congruence].
        eexists _, _. repeat split; eauto. constructor; auto.
      * inversion H as [| |? ? HL|]; subst. inversion HL; subst.
        match goal with H1 : ansL (LPauseDFS _ _) _, H2 : ansL (LBindDFS _ _) _ |- _ =>
          inversion H1; subst; inversion H2; subst; [|congruence] end.
        eexists (a :: _), (_ :: _).
        split; [constructor; eauto | split; [constructor; eauto | reflexivity]].
      * inversion H.
Qed.

Lemma bind_ans s g zs :
  ansS (bind s g) zs ->
  (is_fail g = true /\ zs = []) \/
  exists xs yss, ansS s xs /\ ansB g xs yss /\ Permutation zs (concat yss).
Proof.
  unfold bind. destruct (is_succeed g) eqn:Es.
  - intros H. right. apply is_succeed_eq in Es. subst g.
    exists zs, (map (fun x => [x]) zs). split; auto. split; [apply ansB_succeed|].
    rewrite concat_singletons. apply Permutation_refl.
  - destruct (is_fail g) eqn:Ef.
    + intros H. inversion H; subst. left; auto.
    + intros H. right. destruct s as [|a|l|a l|o p].
      * inversion H; subst. exists [], []. repeat split; constructor.
      * inversion H as [| |? ? HL|]; subst. inversion HL; subst.
        exists [a], [zs]. repeat split; [constructor| |simpl; rewrite app_nil_r; auto].
        constructor; auto. constructor.
      * unfold lazy_bind in H. rewrite Es, Ef in H.
        inversion H as [| |? ? HL|]; subst. inversion HL; subst; [|congruence].
        eexists _, _. repeat split; eauto. constructor; auto.
      * inversion H as [| |? ? HL|]; subst. inversion HL; subst.
        match goal with H1 : ansL (LPause _ _) ?xs0, H2 : ansL (LBind _ _) ?ys0, HP : Permutation zs _ |- _ =>
          inversion H1; subst; inversion H2; subst; [|congruence] end.
        match goal with H3 : ansL l ?xs1, H4 : ansB g ?xs1 ?yss1, HP2 : Permutation _ (concat ?yss1),
                        H5 : ansS (startf g a) ?xs0 |- _ =>
          exists (a :: xs1), (xs0 :: yss1); repeat split; [constructor; auto|constructor; auto|] end.
        simpl. match goal with HP : Permutation zs _ |- _ => rewrite HP end.
        apply Permutation_app_head. assumption.
      * inversion H.
Qed.

(* ---------------------------------------------------------------- one engine step *)
Lemma ansL_step l : forall zs, ansS (stepf l) zs -> ansL l zs.
Proof.
  induction l as [l IH g|l1 IH1 l2 IH2|st g|l IH g|l1 IH1 l2 IH2|st g|s]; cbn [step_with]; intros zs H.
  - apply bind_ans in H as [[F ->]|[xs [yss [H1 [H2 HP]]]]]; [apply AL_bind_fail; auto|].
    econstructor; eauto.
  - apply mplus_ans in H as [xs [ys [H1 [H2 HP]]]]. econstructor; eauto.
  - constructor; auto.
  - apply bind_dfs_ans in H as [[F ->]|[xs [yss [H1 [H2 HP]]]]]; [apply AL_bind_dfs_fail; auto|].
    subst. econstructor; eauto.
  - apply mplus_dfs_ans in H as [xs [ys [H1 [H2 HP]]]]. subst. econstructor; eauto.
  - constructor; auto.
  - constructor; auto.
Qed.

Definition ocons (o : option state) (xs : list state) : list state :=
  match o with Some a => a :: xs | None => xs end.

Lemma micro_ans s o s' xs : micro s = Some (o, s') -> ansS s' xs -> ansS s (ocons o xs).
Proof.
  destruct s as [|a|l|a l|? ?]; cbn [StreamSem.micro]; intros E H; try discriminate; inversion E; subst; cbn [ocons].
  - inversion H; subst. constructor.
  - constructor. apply ansL_step; auto.
  - inversion H; subst. constructor; auto.
Qed.

Theorem runs_ans n s ys s' : runs n s ys s' -> forall zs, ansS s' zs -> ansS s (ys ++ zs).
Proof.
  induction 1 as [s|n s a s1 ys s' E R IH|n s s1 ys s' E R IH]; intros zs H; cbn [app]; auto.
  - apply (micro_ans _ _ _ _ E (IH _ H)).
  - apply (micro_ans _ _ _ _ E (IH _ H)).
Qed.

Corollary runs_finished n s ys : runs n s ys SEmpty -> ansS s ys.
Proof. intros R. rewrite <- (app_nil_r ys). eapply runs_ans; eauto. constructor. Qed.

(* ---------------------------------------------------------------- membership (also for infinite streams) *)
Lemma mplus_in s l a : inS (mplus s l) a -> inS s a \/ inL l a.
Proof.
  destruct s as [|b|l'|b l'|? ?]; cbn [mplus]; intros H.
  - inversion H; subst. auto.
  - inversion H; subst; [left; constructor|auto].
  - inversion H as [|? ? HL| |]; subst. inversion HL; subst; [right; auto|left; constructor; auto].
  - inversion H as [| | |? ? ? HL]; subst; [left; constructor|].
    inversion HL; subst; [right; auto|left; apply IS_cons_tl; auto].
  - inversion H.
Qed.
Lemma mplus_dfs_in s l a : inS (mplus_dfs s l) a -> inS s a \/ inL l a.
Proof.
  destruct s as [|b|l'|b l'|? ?]; cbn [mplus_dfs]; intros H.
  - inversion H; subst. auto.
  - inversion H; subst; [left; constructor|auto].
  - inversion H as [|? ? HL| |]; subst. inversion HL; subst; [left; constructor; auto|right; auto].
  - inversion H as [| | |? ? ? HL]; subst; [left; constructor|].
    inversion HL; subst; [left; apply IS_cons_tl; auto|right; auto].
  - inversion H.
Qed.

Lemma bind_in s g a : inS (bind s g) a -> exists b, inS s b /\ inS (startf g b) a.
Proof.
  unfold bind. destruct (is_succeed g) eqn:Es.
  - apply is_succeed_eq in Es; subst. intros H. exists a. split; auto. rewrite startf_succeed. constructor.
  - destruct (is_fail g) eqn:Ef; [intros H; inversion H|].
    destruct s as [|b|l|b l|? ?]; intros H.
    + inversion H.
    + inversion H as [|? ? HL| |]; subst. inversion HL; subst. exists b. split; [constructor|auto].
    + unfold lazy_bind in H. rewrite Es, Ef in H. inversion H as [|? ? HL| |]; subst.
      inversion HL; subst. eexists; split; [constructor; eauto|auto].
    + inversion H as [|? ? HL| |]; subst. inversion HL as [| | |? ? ? H1|? ? ? H1| | | |]; subst.
      * inversion H1; subst. exists b; split; [constructor|auto].
      * inversion H1; subst. eexists; split; [apply IS_cons_tl; eauto|auto].
    + inversion H.
Qed.
Lemma bind_dfs_in s g a : inS (bind_dfs s g) a -> exists b, inS s b /\ inS (startf g b) a.
Proof.
  unfold bind_dfs. destruct (is_succeed g) eqn:Es.
  - apply is_succeed_eq in Es; subst. intros H. exists a. split; auto. rewrite startf_succeed. constructor.
  - destruct (is_fail g) eqn:Ef; [intros H; inversion H|].
    destruct s as [|b|l|b l|? ?]; intros H.
    + inversion H.
    + inversion H as [|? ? HL| |]; subst. inversion HL; subst. exists b. split; [constructor|auto].
    + unfold lazy_bind_dfs in H. rewrite Es, Ef in H. inversion H as [|? ? HL| |]; subst.
      inversion HL; subst. eexists; split; [constructor; eauto|auto].
    + inversion H as [|? ? HL| |]; subst. inversion HL as [| | | | |? ? ? H1|? ? ? H1| |]; subst.
      * inversion H1; subst. exists b; split; [constructor|auto].
      * inversion H1; subst. eexists; split; [apply IS_cons_tl; eauto|auto].
    + inversion H.
Qed.

Lemma inL_step l : forall a, inS (stepf l) a -> inL l a.
Proof.
  induction l as [l IH g|l1 IH1 l2 IH2|st g|l IH g|l1 IH1 l2 IH2|st g|s]; cbn [step_with]; intros a H.
  - apply bind_in in H as [b [H1 H2]]. econstructor; eauto.
  - apply mplus_in in H as [H|H]; [apply IL_mplus_l; auto|apply IL_mplus_r; auto].
  - constructor; auto.
  - apply bind_dfs_in in H as [b [H1 H2]]. econstructor; eauto.
  - apply mplus_dfs_in in H as [H|H]; [apply IL_mplus_dfs_l; auto|apply IL_mplus_dfs_r; auto].
  - constructor; auto.
  - constructor; auto.
Qed.

Lemma micro_in s o s' a : micro s = Some (o, s') -> (o = Some a \/ inS s' a) -> inS s a.
Proof.
  destruct s as [|b|l|b l|? ?]; cbn [StreamSem.micro]; intros E H; try discriminate; inversion E; subst.
  - destruct H as [H|H]; [inversion H; subst; constructor|inversion H].
  - destruct H as [H|H]; [discriminate|]. constructor. apply inL_step; auto.
  - destruct H as [H|H]; [inversion H; subst; constructor|]. inversion H; subst. apply IS_cons_tl; auto.
Qed.

Theorem runs_in n s ys s' a : runs n s ys s' -> In a ys -> inS s a.
Proof.
  induction 1 as [s|n s b s1 ys s' E R IH|n s s1 ys s' E R IH]; intros HI.
  - destruct HI.
  - eapply micro_in; eauto. destruct HI as [->|HI]; auto.
  - eapply micro_in; eauto.
Qed.

Theorem emits_in n : forall s a, emits n s a -> inS s a.
Proof.
  induction n as [|n IH]; intros s a H; [destruct H|]. cbn [StreamSem.emits] in H.
  destruct (micro s) as [[[b|] s']|] eqn:E; [| |destruct H].
  - eapply micro_in; eauto. destruct H as [->|H]; auto.
  - eapply micro_in; eauto.
Qed.

(* ---------------------------------------------------------------- fairness *)
Lemma emits_mono : forall n s a, emits n s a -> forall m, n <= m -> emits m s a.
Proof.
  induction n as [|n IH]; intros s a H m Hm; [destruct H|].
  destruct m as [|m]; [lia|]. cbn [StreamSem.emits] in *.
  destruct (micro s) as [[[b|] s']|]; auto.
  - destruct H as [H|H]; [left; exact H| right; apply (IH _ _ H); lia].
  - apply (IH _ _ H); lia.
Qed.

Lemma emits_lazy n l a : emits (S n) (SLazy l) a <-> emits n (stepf l) a.
Proof. cbn [StreamSem.emits StreamSem.micro]. tauto. Qed.

Lemma emits_empty n a : ~ emits n SEmpty a.
Proof. destruct n; cbn [StreamSem.emits StreamSem.micro]; auto. Qed.
Lemma emits_err n o p a : ~ emits n (SErr o p) a.
Proof. destruct n; cbn [StreamSem.emits StreamSem.micro]; auto. Qed.

Notation emitsE := (emitsE startf).

Lemma emitsE_mono : forall n s a, emitsE n s a -> forall m, n <= m -> emitsE m s a.
Proof.
  induction n as [|n IH]; intros s a H m Hm; [destruct H|].
  destruct m as [|m]; [lia|]. cbn [StreamSem.emitsE] in *.
  destruct s as [|b|l|b l|o p]; cbn [StreamSem.micro] in *; auto.
  - destruct H as [H|H]; [left; exact H| right; apply (IH _ _ H); lia].
  - apply (IH _ _ H); lia.
  - destruct H as [H|H]; [left; exact H| right; apply (IH _ _ H); lia].
Qed.

Lemma emitsE_lazy n l a : emitsE (S n) (SLazy l) a <-> emitsE n (stepf l) a.
Proof. cbn [StreamSem.emitsE StreamSem.micro]. tauto. Qed.
Lemma emitsE_empty n a : ~ emitsE n SEmpty a.
Proof. destruct n; cbn [StreamSem.emitsE StreamSem.micro]; auto. Qed.
Lemma emitsE_err n o p a : emitsE (S n) (SErr o p) a.
Proof. cbn [StreamSem.emitsE]. exact I. Qed.
Lemma emits_emitsE : forall n s a, emits n s a -> emitsE n s a.
Proof.
  induction n as [|n IH]; intros s a H; [destruct H|]. cbn [StreamSem.emits StreamSem.emitsE] in *.
  destruct s as [|b|l|b l|o p]; cbn [StreamSem.micro] in *; auto.
  - destruct H as [H|H]; auto.
  - destruct H as [H|H]; auto.
Qed.

(* Interleaving merge: an answer available within n micro-steps on either side is available within
   4n+2 (left operand) resp. 4n (right operand) micro-steps of the merge -- whatever the other
   operand does, including producing forever or never producing.  ("available" = delivered, unless
   an engine step fails to return first.) *)
Lemma mplus_fair : forall n a,
  (forall s l, emitsE n s a -> emitsE (4*n+2) (mplus s l) a) /\
  (forall s l, emitsE n (SLazy l) a -> emitsE (4*n) (mplus s l) a).
Proof.
  induction n as [|n IH]; intros a.
  - split; intros s l H; destruct H.
  - destruct (IH a) as [IHL IHR]. clear IH.
    assert (R: forall s l, emitsE (S n) (SLazy l) a -> emitsE (4 * S n) (mplus s l) a).
    { intros s l H. pose proof (proj1 (emitsE_lazy n l a) H) as H'.
      destruct s as [|b|l'|b l'|o p]; cbn [mplus].
      + apply emitsE_mono with (n:=S n); [exact H| lia].
      + replace (4 * S n) with (S (4*n+3)) by lia. cbn [StreamSem.emitsE StreamSem.micro]. right.
        apply emitsE_mono with (n:=S n); [exact H| lia].
      + replace (4 * S n) with (S (4*n+3)) by lia. apply emitsE_lazy. cbn [step_with].
        apply emitsE_mono with (n:=4*n+2); [apply IHL; exact H'| lia].
      + replace (4 * S n) with (S (S (4*n+2))) by lia. cbn [StreamSem.emitsE StreamSem.micro]. right.
        apply emitsE_lazy. cbn [step_with]. apply IHL; exact H'.
      + replace (4 * S n) with (S (4*n+3)) by lia. apply emitsE_err. }
    split; [|exact R].
    intros s l H. destruct s as [|b|l'|b l'|o p]; cbn [mplus].
    + exfalso; exact (emitsE_empty _ _ H).
    + cbn [StreamSem.emitsE StreamSem.micro] in H. destruct H as [H|H]; [|exfalso; exact (emitsE_empty _ _ H)].
      replace (4 * S n + 2) with (S (4*n+5)) by lia. cbn [StreamSem.emitsE StreamSem.micro]. left; exact H.
    + replace (4 * S n + 2) with (S (4 * S n + 1)) by lia. apply emitsE_lazy. cbn [step_with].
      apply emitsE_mono with (n:=4 * S n); [apply R; exact H| lia].
    + cbn [StreamSem.emitsE StreamSem.micro] in H. replace (4 * S n + 2) with (S (S (4*n+4))) by lia.
      cbn [StreamSem.emitsE StreamSem.micro].
      destruct H as [H|H]; [left; exact H| right].
      apply emitsE_lazy. cbn [step_with].
      apply emitsE_mono with (n:=4*n); [apply IHR; exact H| lia].
    + replace (4 * S n + 2) with (S (4*n+5)) by lia. apply emitsE_err.
Qed.

Corollary mplus_fair_left n s l a : emitsE n s a -> emitsE (4*n+2) (mplus s l) a.
Proof. apply mplus_fair. Qed.
Corollary mplus_fair_right n s l a : emitsE n (SLazy l) a -> emitsE (4*n) (mplus s l) a.
Proof. apply mplus_fair. Qed.

(* Interleaving bind: if the bound stream delivers b within n micro-steps and g started in b delivers
   a within m, the bind delivers a within a bound depending on n and m only. *)
Fixpoint bind_bound (n m : nat) : nat :=
  match n with
  | O => 0
  | S n' => 4 * (bind_bound n' m + m + 2) + 4
  end.

Lemma bind_bound_mono n m : m + 2 <= bind_bound (S n) m.
Proof. cbn [bind_bound]. lia. Qed.

Lemma bind_fair g : is_succeed g = false -> is_fail g = false ->
  forall n s b a m, emitsE n s b -> (forall k, k = m -> emitsE k (startf g b) a) ->
  emitsE (bind_bound n m) (bind s g) a.
Proof.
  intros Es Ef. induction n as [|n IH]; intros s b a m H Hg; [destruct H|].
  specialize (Hg m eq_refl).
  unfold bind. rewrite Es, Ef.
  destruct s as [|c|l|c l|o p].
  - exfalso; exact (emitsE_empty _ _ H).
  - cbn [StreamSem.emitsE StreamSem.micro] in H. destruct H as [->|H]; [|exfalso; exact (emitsE_empty _ _ H)].
    cbn [bind_bound]. replace (4 * (bind_bound n m + m + 2) + 4) with (S (4 * (bind_bound n m + m + 2) + 3)) by lia.
    apply emitsE_lazy. cbn [step_with]. apply emitsE_mono with (n:=m); [exact Hg|lia].
  - unfold lazy_bind. rewrite Es, Ef.
    apply emitsE_lazy in H.
    cbn [bind_bound]. replace (4 * (bind_bound n m + m + 2) + 4) with (S (4 * (bind_bound n m + m + 2) + 3)) by lia.
    apply emitsE_lazy. cbn [step_with].
    apply emitsE_mono with (n:=bind_bound n m); [|lia].
    apply (IH _ b a m H). intros k ->. exact Hg.
  - cbn [StreamSem.emitsE StreamSem.micro] in H.
    cbn [bind_bound]. replace (4 * (bind_bound n m + m + 2) + 4) with (S (4 * (bind_bound n m + m + 2) + 3)) by lia.
    apply emitsE_lazy. cbn [step_with].
    destruct H as [->|H].
    + apply emitsE_mono with (n:=4*m+2); [apply mplus_fair_left; exact Hg|lia].
    + apply emitsE_mono with (n:=4*(bind_bound n m)); [|lia].
      apply mplus_fair_right.
      assert (HB : emitsE (bind_bound n m) (bind (SLazy l) g) a).
      { apply (IH _ b a m H). intros k ->. exact Hg. }
      unfold bind, lazy_bind in HB. rewrite Es, Ef in HB. exact HB.
  - cbn [bind_bound]. replace (4 * (bind_bound n m + m + 2) + 4) with (S (4 * (bind_bound n m + m + 2) + 3)) by lia.
    apply emitsE_err.
Qed.

(* Completeness of interleaving search: every answer that has a derivation through interleaving
   nodes is delivered after finitely many micro-steps (or a step fails to return before that). *)
Theorem inb_emits :
  (forall l a, inLb startf l a -> exists n, emitsE n (stepf l) a) /\
  (forall s a, inSb startf s a -> exists n, emitsE n s a).
Proof.
  apply (inb_mutind startf
          (fun l a => exists n, emitsE n (stepf l) a)
          (fun s a => exists n, emitsE n s a)).
  - intros st g a _ [n H]. exists n. exact H.
  - intros s a _ [n H]. exists n. exact H.
  - intros l1 l2 a _ [n H]. exists (4*n+2). cbn [step_with]. apply mplus_fair_left; exact H.
  - intros l1 l2 a _ [n H]. exists (4*(S n)). cbn [step_with]. apply mplus_fair_right.
    apply emitsE_lazy. exact H.
  - intros l g b a _ [n H] _ [m Hg]. cbn [step_with].
    destruct (is_succeed g) eqn:Es.
    + apply is_succeed_eq in Es. subst g. rewrite startf_succeed in Hg.
      unfold bind. cbn [is_succeed]. exists n.
      destruct m as [|m]; [destruct Hg|]. cbn [StreamSem.emitsE StreamSem.micro] in Hg.
      destruct Hg as [->|Hg]; [exact H|exfalso; exact (emitsE_empty _ _ Hg)].
    + destruct (is_fail g) eqn:Ef.
      * apply is_fail_eq in Ef. subst g. rewrite startf_fail in Hg. exfalso; exact (emitsE_empty _ _ Hg).
      * exists (bind_bound n m). apply (bind_fair g Es Ef n _ b a m H). intros k ->. exact Hg.
  - intros a. exists 1. cbn [StreamSem.emitsE StreamSem.micro]. left; reflexivity.
  - intros l a _ [n H]. exists (S n). apply emitsE_lazy. exact H.
  - intros a l. exists 1. cbn [StreamSem.emitsE StreamSem.micro]. left; reflexivity.
  - intros b l a _ [n H]. exists (S (S n)). cbn [StreamSem.emitsE StreamSem.micro]. right.
    apply emitsE_lazy. exact H.
Qed.

End Proofs.
