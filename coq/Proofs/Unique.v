(* Programs without disjunction are deterministic (C17 "exactly once", first half): a goal built from ==, !=,
   domains, constraints, interleaving conjunction and fresh has at most one answer - all the solutions are
   carried by that single answer state (Complete0), so before labeling nothing is returned twice. *)
From Coq Require Import List ZArith Bool Arith Lia.
From PV Require Import Model.Term Model.Subst Model.Unify Model.FD Model.State Model.Engine Spec.StreamSem
  Proofs.StreamProofs Proofs.EngineProofs.
Import ListNotations.

Fixpoint det (g : cgoal) : Prop :=
  match g with
  | CSucceed | CFail | CEq _ _ | CDiseq _ _ | CPost _ | CDom _ _ => True
  | CConj k a b => k = BFS /\ det a /\ det b
  | CFresh k a => k = BFS /\ det a
  | _ => False
  end.

Section D.
Variable defs : list (nat * def).

Lemma sres_unique r f a b : inS (start defs f) (sres_stream r) a -> inS (start defs f) (sres_stream r) b -> a = b.
Proof. destruct r; cbn; intros H1 H2; inversion H1; inversion H2; subst; reflexivity. Qed.

Theorem det_unique : forall g, det g -> forall f f' st a b,
  inS (start defs f) (start defs f' g st) a -> inS (start defs f) (start defs f' g st) b -> a = b.
Proof.
  induction g; intros Hd f f' st; try (destruct Hd; fail);
    (destruct f' as [|f']; [intros a b Ha; inversion Ha|]); cbn [start]; intros a b Ha Hb.
  - inversion Ha; inversion Hb; subst; reflexivity.
  - inversion Ha.
  - eapply sres_unique; eauto.
  - eapply sres_unique; eauto.
  - destruct Hd as [-> [D1 D2]]. cbn [lazy_bind_k pause_k] in Ha, Hb. unfold lazy_bind in Ha, Hb.
    destruct (is_succeed g2) eqn:Es.
    + inversion Ha as [|? ? HLa| |]; subst. inversion Hb as [|? ? HLb| |]; subst. inversion HLa; subst. inversion HLb; subst.
      eapply IHg1; eauto.
    + destruct (is_fail g2); [inversion Ha|].
      inversion Ha as [|? ? HLa| |]; subst. inversion Hb as [|? ? HLb| |]; subst.
      inversion HLa as [| | | | | | |? ? b1 ? L1 S1|]; subst. inversion HLb as [| | | | | | |? ? b2 ? L2 S2|]; subst.
      inversion L1; subst. inversion L2; subst.
      assert (b1 = b2) by (eapply IHg1; eauto). subst b2. eapply IHg2; eauto.
  - destruct Hd as [-> D]. cbn [pause_k] in Ha, Hb.
    inversion Ha as [|? ? HLa| |]; subst. inversion Hb as [|? ? HLb| |]; subst. inversion HLa; subst. inversion HLb; subst.
    eapply IHg; eauto.
  - eapply sres_unique; eauto.
  - eapply sres_unique; eauto.
Qed.

(* what Solver::next delivers from such a goal: any two delivered answers are the same state *)
Corollary det_one_answer g : det g -> forall f n1 n2 st ys1 ys2 s1 s2 a b,
  runs (start defs (S f)) n1 (start defs (S f) g st) ys1 s1 -> runs (start defs (S f)) n2 (start defs (S f) g st) ys2 s2 ->
  In a ys1 -> In b ys2 -> a = b.
Proof.
  intros Hd f n1 n2 st ys1 ys2 s1 s2 a b R1 R2 Ia Ib.
  assert (Hs : forall st0, start defs (S f) CSucceed st0 = SUnit st0) by reflexivity.
  apply (det_unique g Hd (S f) (S f) st a b).
  - apply (runs_in (start defs (S f)) Hs n1 _ ys1 s1 a R1 Ia).
  - apply (runs_in (start defs (S f)) Hs n2 _ ys2 s2 b R2 Ib).
Qed.
End D.
