(* Acyclic triangular substitutions (C01).

   acyc s : s was built by binding, one at a time, a variable that was unbound at that moment to a
   term that was fully walked at that moment and does not contain the variable once the older
   bindings are applied (the occurs check).  For such substitutions:
     - the walk loop reaches an unbound variable or a non-variable within |s| steps (wk_final): the
       fuel of the model's walk is adequate, the Rust loop terminates;
     - solve s, the substitution obtained by applying the bindings oldest first, is a FINITE-tree
       solution of s (acyc_sat), idempotent (solve_idem), and most general: every solution of s is an
       instance of it (solve_mgu);
     - a successful unification of an acyclic substitution gives an acyclic substitution
       (unify_acyc): no answer contains a cyclic term. *)
From Coq Require Import List ZArith Bool Arith Lia.
From PV Require Import Model.Term Model.Subst Model.Unify Proofs.UnifyProofs.
Import ListNotations.

Definition idv : val := fun v => TVar v false.
Definition sub1 (x : nat) (T : term) : val := fun v => if Nat.eqb v x then T else TVar v false.
Fixpoint solve (s : smap) : val :=
  match s with
  | [] => idv
  | (x, t) :: r => fun v => app (sub1 x (app (solve r) t)) (solve r v)
  end.

(* terms whose variables all carry the plain flag (the flag is not part of a variable's identity) *)
Fixpoint nf (t : term) : Prop :=
  match t with
  | TVar _ a => a = false
  | TCons h tl => nf h /\ nf tl
  | TComp _ cs => nfs cs
  | _ => True
  end
with nfs (ts : terms) : Prop :=
  match ts with TNil => True | TMore t r => nf t /\ nfs r end.

Lemma app_comp th1 th2 :
  (forall t, app th2 (app th1 t) = app (fun v => app th2 (th1 v)) t) /\
  (forall ts, apps th2 (apps th1 ts) = apps (fun v => app th2 (th1 v)) ts).
Proof.
  apply term_terms_ind; intros; cbn [app apps]; try reflexivity; try congruence.
Qed.
Lemma app_ext th1 th2 : (forall v, th1 v = th2 v) ->
  (forall t, app th1 t = app th2 t) /\ (forall ts, apps th1 ts = apps th2 ts).
Proof.
  intros E. apply term_terms_ind; intros; cbn [app apps]; try reflexivity; try congruence.
Qed.
Lemma nf_app th : (forall v, nf (th v)) ->
  (forall t, nf (app th t)) /\ (forall ts, nfs (apps th ts)).
Proof.
  intros H. apply term_terms_ind; intros; cbn [app apps nf nfs]; auto.
Qed.
(* a substitution that is the identity on the variables of a plain term leaves it unchanged *)
Lemma app_id_on th :
  (forall t, nf t -> (forall y, In y (tvars t) -> th y = TVar y false) -> app th t = t) /\
  (forall ts, nfs ts -> (forall y, In y (tsvars ts) -> th y = TVar y false) -> apps th ts = ts).
Proof.
  apply term_terms_ind; cbn [app apps nf nfs tvars tsvars]; intros; auto.
  - subst any. apply H0. left; reflexivity.
  - destruct H1. rewrite H, H0; auto; intros; apply H2; apply in_or_app; auto.
  - rewrite H; auto.
  - destruct H1. rewrite H, H0; auto; intros; apply H2; apply in_or_app; auto.
Qed.
Lemma tvars_app th :
  (forall t y, In y (tvars (app th t)) -> exists v, In v (tvars t) /\ In y (tvars (th v))) /\
  (forall ts y, In y (tsvars (apps th ts)) -> exists v, In v (tsvars ts) /\ In y (tvars (th v))).
Proof.
  apply term_terms_ind; cbn [app apps tvars tsvars]; intros; try contradiction.
  - exists v. split; [left; reflexivity|exact H].
  - apply in_app_or in H1 as [H1|H1]; [destruct (H _ H1) as [v [A B]]|destruct (H0 _ H1) as [v [A B]]];
      exists v; split; auto; apply in_or_app; auto.
  - auto.
  - apply in_app_or in H1 as [H1|H1]; [destruct (H _ H1) as [v [A B]]|destruct (H0 _ H1) as [v [A B]]];
      exists v; split; auto; apply in_or_app; auto.
Qed.

Lemma solve_nf s : forall v, nf (solve s v).
Proof.
  induction s as [|[x t] r IH]; intros v; cbn [solve]; [reflexivity|].
  apply nf_app. intros y. unfold sub1. destruct (Nat.eqb y x); [|reflexivity]. apply nf_app. exact IH.
Qed.
Lemma solve_unbound s x : lookup x s = None -> solve s x = TVar x false.
Proof.
  induction s as [|[y t] r IH]; cbn [solve lookup]; [reflexivity|].
  destruct (Nat.eqb_spec y x) as [E|E]; [discriminate|]. intros H. rewrite (IH H). cbn [app]. unfold sub1.
  destruct (Nat.eqb_spec x y); [congruence|reflexivity].
Qed.

Inductive acyc : smap -> Prop :=
| acyc_nil : acyc []
| acyc_cons x t s : acyc s -> lookup x s = None -> final s t = true ->
    ~ In x (tvars (app (solve s) t)) -> acyc ((x, t) :: s).

(* ------------------------------------------------------------------ the solution *)
Theorem acyc_sat s : acyc s -> sat (solve s) s.
Proof.
  induction 1 as [|x t s A IH Hx Ft Hocc]; [intros y u []|].
  apply sat_cons. cbn [solve]. split.
  - rewrite (solve_unbound s x Hx). cbn [app]. unfold sub1 at 1. rewrite Nat.eqb_refl.
    rewrite <- (proj1 (app_comp (solve s) (sub1 x (app (solve s) t)))).
    symmetry. apply (proj1 (app_id_on _)); [apply nf_app, solve_nf|].
    intros y Hy. unfold sub1. destruct (Nat.eqb_spec y x); [subst; contradiction|reflexivity].
  - intros y u Hin. rewrite (IH y u Hin). rewrite (proj1 (app_comp _ _)). reflexivity.
Qed.

(* the variables left in the solution are unbound *)
Lemma solve_vars s : acyc s -> forall v y, In y (tvars (solve s v)) -> lookup y s = None.
Proof.
  induction 1 as [|x t s A IH Hx Ft Hocc]; intros v y Hy; [reflexivity|].
  cbn [solve] in Hy. apply (proj1 (tvars_app _)) in Hy as [w [Hw Hy]]. cbn [lookup].
  unfold sub1 in Hy. destruct (Nat.eqb_spec w x) as [E|E].
  - subst w. destruct (Nat.eqb_spec x y) as [E2|E2]; [subst; contradiction|].
    apply (proj1 (tvars_app _)) in Hy as [w' [_ Hy]]. eapply IH; eauto.
  - cbn [tvars] in Hy. destruct Hy as [<-|[]]. destruct (Nat.eqb_spec x w); [congruence|]. eapply IH; eauto.
Qed.
Theorem solve_idem s : acyc s -> forall v, app (solve s) (solve s v) = solve s v.
Proof.
  intros A v. apply (proj1 (app_id_on _)); [apply solve_nf|].
  intros y Hy. apply solve_unbound. eapply solve_vars; eauto.
Qed.
(* most general: every solution of s factors through solve s *)
Theorem solve_mgu s th : sat th s -> forall v, app th (solve s v) = th v.
Proof.
  induction s as [|[x t] r IH]; intros Hs v; cbn [solve]; [reflexivity|].
  apply sat_cons in Hs as [Hx Hr]. specialize (IH Hr).
  rewrite (proj1 (app_comp _ _)).
  rewrite <- (IH v).
  assert (K : forall y, app th (sub1 x (app (solve r) t) y) = th y); [|apply (proj1 (app_ext _ _ K))].
  intros y. unfold sub1. destruct (Nat.eqb_spec y x) as [E|E]; [|reflexivity].
  subst y. rewrite (proj1 (app_comp _ _)). rewrite Hx. apply (proj1 (app_ext _ _ IH)).
Qed.
Corollary solve_mgu_term s th : sat th s -> forall t, app th (app (solve s) t) = app th t.
Proof. intros Hs t. rewrite (proj1 (app_comp _ _)). apply (proj1 (app_ext _ _ (solve_mgu s th Hs))). Qed.

(* ------------------------------------------------------------------ the walk terminates *)
Inductive wsteps (s : smap) : nat -> term -> term -> Prop :=
| ws0 t : final s t = true -> wsteps s 0 t t
| wsS v a t' n w : lookup v s = Some t' -> wsteps s n t' w -> wsteps s (S n) (TVar v a) w.

Lemma wsteps_final s n t w : wsteps s n t w -> final s w = true.
Proof. induction 1; auto. Qed.
Lemma walk_wsteps s n t w : wsteps s n t w -> forall f, n <= f -> walk f s t = w.
Proof.
  induction 1 as [t F|v a t' n w L W IH]; intros f Hf.
  - destruct t as [l|v a| |h tl|g cs]; destruct f; cbn [walk]; try reflexivity;
      cbn [final] in F; unfold bound_in in F; destruct (lookup v s); try discriminate; reflexivity.
  - destruct f as [|f]; [lia|]. cbn [walk]. rewrite L. apply IH. lia.
Qed.

Lemma final_cons x t0 s t : final s t = true -> (forall a, t <> TVar x a) -> final ((x, t0) :: s) t = true.
Proof.
  destruct t as [l|v a| |h tl|g cs]; cbn [final]; auto. unfold bound_in. cbn [lookup]. intros F N.
  destruct (Nat.eqb_spec x v); [subst; exfalso; apply (N a); reflexivity|exact F].
Qed.

Lemma acyc_head_neq x t s : lookup x s = None -> ~ In x (tvars (app (solve s) t)) -> forall a, t <> TVar x a.
Proof. intros Hx Hocc a E. subst t. cbn [app] in Hocc. rewrite (solve_unbound s x Hx) in Hocc. apply Hocc. left; reflexivity. Qed.

Lemma wsteps_lift x t0 s : lookup x s = None -> final ((x, t0) :: s) t0 = true ->
  forall n t w, wsteps s n t w -> exists n' w', n' <= S n /\ wsteps ((x, t0) :: s) n' t w'.
Proof.
  intros Hx F0. induction 1 as [t F|v a t' n w L W IH].
  - destruct t as [l|v a| |h tl|g cs]; try (exists 0; eexists; split; [lia|apply ws0; reflexivity]).
    destruct (Nat.eqb_spec x v) as [E|E].
    + subst v. exists 1, t0. split; [lia|]. eapply wsS; [cbn [lookup]; rewrite Nat.eqb_refl; reflexivity|apply ws0; exact F0].
    + exists 0, (TVar v a). split; [lia|]. apply ws0. cbn [final] in *. unfold bound_in in *. cbn [lookup].
      destruct (Nat.eqb_spec x v); [congruence|exact F].
  - destruct IH as [n' [w' [Hn W']]]. exists (S n'), w'. split; [lia|]. eapply wsS; [|exact W'].
    cbn [lookup]. destruct (Nat.eqb_spec x v) as [E|E]; [subst; congruence|exact L].
Qed.

Lemma acyc_wsteps s : acyc s -> forall t, exists n w, n <= length s /\ wsteps s n t w.
Proof.
  induction 1 as [|x t0 s A IH Hx Ft Hocc]; intros t.
  - exists 0, t. split; [lia|]. apply ws0. destruct t; reflexivity.
  - destruct (IH t) as [n [w [Hn W]]].
    assert (F0 : final ((x, t0) :: s) t0 = true) by (apply final_cons; [exact Ft|apply (acyc_head_neq x t0 s); assumption]).
    destruct (wsteps_lift x t0 s Hx F0 n t w W) as [n' [w' [Hn' W']]]. exists n', w'. cbn [length]. split; [lia|exact W'].
Qed.

(* the model's walk fuel is adequate: wk always ends on an unbound variable or a non-variable *)
Theorem wk_final s t : acyc s -> final s (wk s t) = true.
Proof.
  intros A. destruct (acyc_wsteps s A t) as [n [w [Hn W]]]. unfold wk.
  rewrite (walk_wsteps s n t w W); [eapply wsteps_final; eauto|lia].
Qed.
Corollary wkc_total s t : acyc s -> wkc s t = Some (wk s t).
Proof. intros A. unfold wkc. rewrite (wk_final s t A). reflexivity. Qed.
Lemma wk_var_unbound s t v a : acyc s -> wk s t = TVar v a -> lookup v s = None.
Proof.
  intros A E. pose proof (wk_final s t A) as F. rewrite E in F. cbn [final] in F. unfold bound_in in F.
  destruct (lookup v s); [discriminate|reflexivity].
Qed.

(* ------------------------------------------------------------------ the occurs check *)
Lemma occurs_false_sound s x : acyc s ->
  forall f,
  (forall t, occurs f s x t = Some false -> ~ In x (tvars (app (solve s) t))) /\
  (forall ts, occurs_list f s x ts = Some false -> ~ In x (tsvars (apps (solve s) ts))).
Proof.
  intros A. pose proof (acyc_sat s A) as Hs.
  induction f as [|f [IHt IHl]]; [split; intros; discriminate|]. split.
  - intros t H. cbn [occurs] in H. destruct (wkc s t) as [w|] eqn:Ew; [|discriminate].
    rewrite <- (wkc_sat _ s t w Ew Hs). apply wkc_some in Ew as [_ Fw].
    destruct w as [l|v fl| |h tl|g cs]; cbn [app tvars]; try (intros []).
    + inversion H as [E]. apply Nat.eqb_neq in E. cbn [final] in Fw. unfold bound_in in Fw.
      destruct (lookup v s) eqn:El; [discriminate|]. rewrite (solve_unbound s v El). cbn [tvars]. intros [->|[]]. congruence.
    + destruct (occurs f s x h) as [[|]|] eqn:E1; try discriminate.
      intros Hin. apply in_app_or in Hin as [Hin|Hin]; [apply (IHt h E1 Hin)|apply (IHt tl H Hin)].
    + apply IHl. exact H.
  - intros ts H. cbn [occurs_list] in H. destruct ts as [|t r]; cbn [apps tsvars]; [intros []|].
    destruct (occurs f s x t) as [[|]|] eqn:E1; try discriminate.
    intros Hin. apply in_app_or in Hin as [Hin|Hin]; [apply (IHt t E1 Hin)|apply (IHl r H Hin)].
Qed.

Lemma bindv_acyc f s ext x a t s' ext' : acyc s -> final s (TVar x a) = true -> final s t = true ->
  bindv f s ext x t = UOk s' ext' -> acyc s'.
Proof.
  intros A Fx Ft. unfold bindv. destruct (occurs f s x t) as [[|]|] eqn:E; try discriminate.
  intros H. inversion H; subst. cbn [final] in Fx. unfold bound_in in Fx.
  destruct (lookup x s) eqn:El; [discriminate|]. constructor; auto.
  apply (proj1 (occurs_false_sound s x A f) t E).
Qed.

Theorem unify_acyc : forall f,
  (forall s ext u v s' ext', acyc s -> unify f s ext u v = UOk s' ext' -> acyc s') /\
  (forall s ext us vs s' ext', acyc s -> unify_list f s ext us vs = UOk s' ext' -> acyc s').
Proof.
  induction f as [|f [IHt IHl]]; [split; intros; discriminate|]. split.
  - intros s ext u v s' ext' A H. cbn [unify] in H.
    destruct (wkc s u) as [uw|] eqn:Eu; [|discriminate]. destruct (wkc s v) as [vw|] eqn:Ev; [|discriminate].
    pose proof (proj2 (wkc_some _ _ _ Eu)) as Fu. pose proof (proj2 (wkc_some _ _ _ Ev)) as Fv.
    destruct uw as [x|a fa| |h1 t1|g1 c1]; destruct vw as [y|b fb| |h2 t2|g2 c2]; try discriminate;
      try (apply (bindv_acyc f s ext a fa _ s' ext' A Fu Fv H)); try (apply (bindv_acyc f s ext b fb _ s' ext' A Fv Fu H)).
    + destruct (lit_eqb x y); inversion H; subst; exact A.
    + destruct (Nat.eqb a b); [inversion H; subst; exact A|]. apply (bindv_acyc f s ext a fa _ s' ext' A Fu Fv H).
    + inversion H; subst; exact A.
    + destruct (unify f s ext h1 h2) as [s1 e1| |] eqn:E1; try discriminate.
      apply (IHt s1 e1 t1 t2 s' ext'); [|exact H]. apply (IHt s ext h1 h2 s1 e1 A E1).
    + destruct (Nat.eqb g1 g2); [|discriminate]. apply (IHl s ext c1 c2 s' ext' A H).
  - intros s ext us vs s' ext' A H. cbn [unify_list] in H. destruct us as [|a ar]; destruct vs as [|b br]; try discriminate.
    + inversion H; subst; exact A.
    + destruct (unify f s ext a b) as [s1 e1| |] eqn:E1; try discriminate.
      apply (IHl s1 e1 ar br s' ext'); [|exact H]. apply (IHt s ext a b s1 e1 A E1).
Qed.

(* ------------------------------------------------------------------ C01, assembled *)
(* a successful unification from an acyclic substitution: the answer has a finite-tree solution under
   which both sides are the identical term, which is idempotent, and of which every other unifier
   consistent with the prior bindings is an instance *)
Theorem unify_idempotent_mgu f s ext u v s' ext' :
  acyc s -> unify f s ext u v = UOk s' ext' ->
  let th := solve s' in
  acyc s' /\ sat th s' /\ sat th s /\ app th u = app th v /\
  (forall x, app th (th x) = th x) /\
  (forall th', sat th' s -> app th' u = app th' v -> forall t, app th' (app th t) = app th' t).
Proof.
  intros A E th. pose proof (proj1 (unify_acyc f) _ _ _ _ _ _ A E) as A'.
  pose proof (acyc_sat s' A') as Hs'. pose proof (proj1 (unify_sat _ _ _ _ _ _ _ E (solve s')) Hs') as [Hs Huv].
  split; [exact A'|]. split; [exact Hs'|]. split; [exact Hs|]. split; [exact Huv|]. split; [apply solve_idem, A'|].
  intros th' Hs0 Huv' t. apply solve_mgu_term. apply (unify_sat _ _ _ _ _ _ _ E th'). auto.
Qed.

(* with an acyclic prior substitution the walk never runs out of fuel: the only fuel that can be
   exhausted is the depth fuel of the term recursion *)
Example acyc_example : acyc [(1, TCons (TVar 2 false) TEmpty); (0, TVar 1 false)].
Proof.
  constructor; [constructor; [constructor| reflexivity | reflexivity | cbn; intros [H|[]]; discriminate]| reflexivity | reflexivity |].
  cbn. intros [H|[]]. discriminate.
Qed.
