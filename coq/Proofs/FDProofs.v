(* Proofs about Model/FD.v : finite domains denote sets of integers (C18). *)
From Coq Require Import List ZArith Bool Lia Sorted Permutation.
From PV Require Import Model.FD.
Import ListNotations.
Open Scope Z_scope.

(* the set of integers a domain denotes, stated without reference to iteration *)
Definition mem (d : fd) (z : Z) : Prop :=
  match d with Interval lo hi => lo <= z <= hi | Sparse l => In z l end.
Definition ssorted (l : list Z) : Prop := StronglySorted Z.lt l.
Definition wf_fd (d : fd) : Prop :=
  match d with Interval lo hi => lo <= hi | Sparse l => l <> [] /\ ssorted l end.

(* ---------- ranges ---------- *)
Lemma In_zseq n : forall lo z, In z (zseq lo n) <-> lo <= z < lo + Z.of_nat n.
Proof.
  induction n as [|n IH]; intros lo z; cbn [zseq In].
  - lia.
  - rewrite IH. lia.
Qed.

Lemma In_zrange lo hi z : In z (zrange lo hi) <-> lo <= z <= hi.
Proof. unfold zrange. rewrite In_zseq. lia. Qed.

Lemma zseq_sorted n : forall lo, ssorted (zseq lo n).
Proof.
  induction n as [|n IH]; intros lo; cbn [zseq]; constructor.
  - apply IH.
  - apply Forall_forall. intros z Hz. apply In_zseq in Hz. lia.
Qed.

Lemma zrange_sorted lo hi : ssorted (zrange lo hi).
Proof. apply zseq_sorted. Qed.

Lemma zrange_nil lo hi : zrange lo hi = [] <-> hi < lo.
Proof.
  unfold zrange. destruct (Z.to_nat (hi - lo + 1)) eqn:E; cbn [zseq]; split; intros H; try lia; try discriminate; auto.
Qed.

Lemma zrange_cons lo hi : lo <= hi -> zrange lo hi = lo :: zrange (lo + 1) hi.
Proof.
  intros H. unfold zrange. replace (Z.to_nat (hi - lo + 1)) with (S (Z.to_nat (hi - (lo + 1) + 1))) by lia.
  reflexivity.
Qed.

Lemma mem_iter d z : In z (fd_iter d) <-> mem d z.
Proof. destruct d; cbn [fd_iter mem]; [apply In_zrange | tauto]. Qed.

Lemma fd_iter_sorted d : wf_fd d -> ssorted (fd_iter d).
Proof. destruct d as [lo hi|l]; cbn; [intros _; apply zrange_sorted | tauto]. Qed.

Lemma fd_iter_nonempty d : wf_fd d -> fd_iter d <> [].
Proof.
  destruct d as [lo hi|l]; cbn; [|tauto]. intros H E. apply zrange_nil in E. lia.
Qed.

(* ---------- sorted-list helpers ---------- *)
Lemma ssorted_inv x l : ssorted (x :: l) -> ssorted l /\ Forall (Z.lt x) l.
Proof. intros H; inversion H; auto. Qed.

Lemma ssorted_lt x l z : ssorted (x :: l) -> In z l -> x < z.
Proof. intros H Hz. apply ssorted_inv in H as [_ H]. rewrite Forall_forall in H. auto. Qed.

Lemma ssorted_cons x l : ssorted l -> (forall z, In z l -> x < z) -> ssorted (x :: l).
Proof. intros; constructor; auto. apply Forall_forall; auto. Qed.

(* a list all of whose elements come, in order, from a sorted list *)
Lemma take_while_In p l z : In z (take_while p l) -> In z l /\ p z = true.
Proof.
  induction l as [|x l IH]; cbn [take_while In]; [tauto|].
  destruct (p x) eqn:E; cbn [In]; [|tauto].
  intros [<-|H]; [auto| destruct (IH H); auto].
Qed.

Lemma skip_while_In p l z : In z (skip_while p l) -> In z l.
Proof.
  induction l as [|x l IH]; cbn [skip_while In]; [tauto|].
  destruct (p x); cbn [In]; auto.
Qed.

Lemma take_while_sorted p l : ssorted l -> ssorted (take_while p l).
Proof.
  induction l as [|x l IH]; cbn [take_while]; intros H; [constructor|].
  destruct (p x); [|constructor]. apply ssorted_inv in H as H'. destruct H' as [H1 H2].
  apply ssorted_cons; auto. intros z Hz. apply take_while_In in Hz as [Hz _]. eapply ssorted_lt; eauto.
Qed.

Lemma skip_while_sorted p l : ssorted l -> ssorted (skip_while p l).
Proof.
  induction l as [|x l IH]; cbn [skip_while]; intros H; [constructor|].
  destruct (p x); auto. apply ssorted_inv in H as [H _]; auto.
Qed.

(* monotone predicates on sorted lists: take_while/skip_while are filters *)
Definition antitone (p : Z -> bool) : Prop := forall a b, a <= b -> p b = true -> p a = true.

Lemma take_while_mono_In p l z : ssorted l -> antitone p ->
  In z (take_while p l) <-> In z l /\ p z = true.
Proof.
  intros Hs Hp. split; [apply take_while_In|].
  induction l as [|x l IH]; cbn [take_while In]; [tauto|].
  intros [[->|Hz] Hpz].
  - rewrite Hpz. left; auto.
  - assert (x < z) by (eapply ssorted_lt; eauto).
    rewrite (Hp x z) by (auto; lia). right. apply IH; auto. apply ssorted_inv in Hs; tauto.
Qed.

Lemma skip_while_mono_In p l z : ssorted l -> antitone p ->
  In z (skip_while p l) <-> In z l /\ p z = false.
Proof.
  intros Hs Hp. induction l as [|x l IH]; cbn [skip_while]; [cbn; tauto|].
  apply ssorted_inv in Hs as Hs'. destruct Hs' as [Hs1 Hs2].
  destruct (p x) eqn:E.
  - rewrite IH by auto. cbn [In]. split; [tauto|]. intros [[->|H] Hz]; [congruence|auto].
  - cbn [In]. split.
    + intros [->|H]; [auto|]. split; auto.
      destruct (p z) eqn:Ez; auto. assert (x < z) by (eapply ssorted_lt; eauto).
      rewrite (Hp x z) in E; auto; lia.
    + tauto.
Qed.

(* ---------- the merge loops ---------- *)
Lemma merge_inter_eq s o :
  merge_inter s o =
    match s, o with
    | x :: s', y :: o' =>
        if y <? x then merge_inter s o'
        else if x =? y then x :: merge_inter s' o'
        else merge_inter s' o
    | _, _ => []
    end.
Proof. destruct s, o; reflexivity. Qed.

Lemma merge_diff_eq s o :
  merge_diff s o =
    match s, o with
    | [], _ => []
    | x :: s', [] => x :: merge_diff s' []
    | x :: s', y :: o' =>
        if x <? y then x :: merge_diff s' o
        else if x =? y then merge_diff s' o'
        else merge_diff s o'
    end.
Proof. destruct s, o; reflexivity. Qed.

Lemma merge_disjoint_eq s o :
  merge_disjoint s o =
    match s, o with
    | x :: s', y :: o' =>
        if y <? x then merge_disjoint s o'
        else if x =? y then false
        else merge_disjoint s' o
    | _, _ => true
    end.
Proof. destruct s, o; reflexivity. Qed.

Lemma merge_inter_In s : forall o, ssorted s -> ssorted o ->
  forall z, In z (merge_inter s o) <-> In z s /\ In z o.
Proof.
  induction s as [|x s IHs]; intros o Hs Ho z.
  - rewrite merge_inter_eq. cbn. tauto.
  - induction o as [|y o IHo].
    + rewrite merge_inter_eq. cbn. tauto.
    + rewrite merge_inter_eq.
      apply ssorted_inv in Hs as Hs'. destruct Hs' as [Hs1 Hs2].
      apply ssorted_inv in Ho as Ho'. destruct Ho' as [Ho1 Ho2].
      rewrite Forall_forall in Hs2, Ho2.
      destruct (Z.ltb_spec y x) as [L|L].
      * rewrite IHo by auto. cbn [In]. split; [tauto|].
        intros [[E1|H1] [E2|H2]]; subst; auto; try lia.
        specialize (Hs2 _ H1). lia.
      * destruct (Z.eqb_spec x y) as [->|N].
        -- cbn [In]. rewrite IHs by auto. split; [tauto|].
           intros [[E1|H1] [E2|H2]]; subst; auto.
        -- rewrite IHs by auto. cbn [In]. split; [tauto|].
           intros [[E1|H1] [E2|H2]]; subst; auto; try lia.
           specialize (Ho2 _ H2). lia.
Qed.

Lemma merge_inter_sub s : forall o z, In z (merge_inter s o) -> In z s.
Proof.
  induction s as [|x s IHs]; intros o z.
  - rewrite merge_inter_eq. cbn. tauto.
  - induction o as [|y o IHo]; rewrite merge_inter_eq; [cbn; tauto|].
    destruct (y <? x); auto. destruct (x =? y); cbn [In].
    + intros [->|H]; eauto.
    + intros H; right; eauto.
Qed.

Lemma merge_inter_sorted s : forall o, ssorted s -> ssorted (merge_inter s o).
Proof.
  induction s as [|x s IHs]; intros o Hs.
  - rewrite merge_inter_eq. constructor.
  - apply ssorted_inv in Hs as Hs'. destruct Hs' as [Hs1 Hs2]. rewrite Forall_forall in Hs2.
    induction o as [|y o IHo]; rewrite merge_inter_eq; [constructor|].
    destruct (y <? x); auto. destruct (x =? y); auto.
    apply ssorted_cons; auto. intros z Hz. apply merge_inter_sub in Hz. auto.
Qed.

Lemma merge_diff_nil_r s : merge_diff s [] = s.
Proof. induction s as [|x s IH]; rewrite merge_diff_eq; [reflexivity|]. rewrite IH. reflexivity. Qed.

Lemma merge_diff_In s : forall o, ssorted s -> ssorted o ->
  forall z, In z (merge_diff s o) <-> In z s /\ ~ In z o.
Proof.
  induction s as [|x s IHs]; intros o Hs Ho z.
  - rewrite merge_diff_eq. cbn. tauto.
  - induction o as [|y o IHo].
    + rewrite merge_diff_nil_r. cbn. tauto.
    + rewrite merge_diff_eq.
      apply ssorted_inv in Hs as Hs'. destruct Hs' as [Hs1 Hs2].
      apply ssorted_inv in Ho as Ho'. destruct Ho' as [Ho1 Ho2].
      rewrite Forall_forall in Hs2, Ho2.
      destruct (Z.ltb_spec x y) as [L|L].
      * cbn [In]. rewrite IHs by auto. cbn [In]. split.
        -- intros [->|[H1 H2]]; [|tauto]. split; auto. intros [E|H]; [lia|]. specialize (Ho2 _ H). lia.
        -- tauto.
      * destruct (Z.eqb_spec x y) as [->|N].
        -- rewrite IHs by auto. cbn [In]. split.
           ++ intros [H1 H2]. split; auto. intros [->|H]; auto. specialize (Hs2 _ H1). lia.
           ++ intros [[->|H1] H2]; [tauto|]. tauto.
        -- rewrite IHo by auto. cbn [In]. split; [|tauto].
           intros [[->|H1] H2]; split; auto.
           ++ intros [E|H]; [lia|auto].
           ++ intros [->|H]; [|auto]. specialize (Hs2 _ H1). lia.
Qed.

Lemma merge_diff_sub s : forall o z, In z (merge_diff s o) -> In z s.
Proof.
  induction s as [|x s IHs]; intros o z.
  - rewrite merge_diff_eq. cbn. tauto.
  - induction o as [|y o IHo]; [rewrite merge_diff_nil_r; auto|]. rewrite merge_diff_eq.
    destruct (x <? y); cbn [In].
    + intros [->|H]; eauto.
    + destruct (x =? y); eauto.
Qed.

Lemma merge_diff_sorted s : forall o, ssorted s -> ssorted (merge_diff s o).
Proof.
  induction s as [|x s IHs]; intros o Hs.
  - rewrite merge_diff_eq. constructor.
  - apply ssorted_inv in Hs as Hs'. destruct Hs' as [Hs1 Hs2]. rewrite Forall_forall in Hs2.
    induction o as [|y o IHo]; [rewrite merge_diff_nil_r; auto|]. rewrite merge_diff_eq.
    destruct (x <? y).
    + apply ssorted_cons; auto. intros z Hz. apply merge_diff_sub in Hz. auto.
    + destruct (x =? y); auto.
Qed.

Lemma merge_disjoint_spec s : forall o, ssorted s -> ssorted o ->
  (merge_disjoint s o = true <-> forall z, In z s -> ~ In z o).
Proof.
  induction s as [|x s IHs]; intros o Hs Ho.
  - rewrite merge_disjoint_eq. cbn. tauto.
  - induction o as [|y o IHo].
    + rewrite merge_disjoint_eq. cbn. tauto.
    + rewrite merge_disjoint_eq.
      apply ssorted_inv in Hs as Hs'. destruct Hs' as [Hs1 Hs2].
      apply ssorted_inv in Ho as Ho'. destruct Ho' as [Ho1 Ho2].
      rewrite Forall_forall in Hs2, Ho2.
      destruct (Z.ltb_spec y x) as [L|L].
      * rewrite IHo by auto. split; intros H z Hz; specialize (H z Hz); cbn [In] in *; [|tauto].
        intros [->|H']; [|tauto]. destruct Hz as [->|Hz]; [lia|]. specialize (Hs2 _ Hz). lia.
      * destruct (Z.eqb_spec x y) as [->|N].
        -- split; [discriminate|]. intros H. exfalso. apply (H y); cbn; auto.
        -- rewrite IHs by auto. split; intros H z Hz.
           ++ destruct Hz as [->|Hz]; [|auto]. intros [E|H']; [lia|]. specialize (Ho2 _ H'). lia.
           ++ apply H. right; auto.
Qed.

(* ---------- first element satisfying a predicate ---------- *)
Lemma take_until_In p l z : ssorted l ->
  In z (take_while (fun y => negb (p y)) l) <->
  In z l /\ forall y, In y l -> y <= z -> p y = false.
Proof.
  induction l as [|x l IH]; intros Hs; cbn [take_while In]; [tauto|].
  apply ssorted_inv in Hs as Hs'. destruct Hs' as [Hs1 Hs2]. rewrite Forall_forall in Hs2.
  destruct (p x) eqn:E; cbn [negb In].
  - split; [tauto|]. intros [[->|Hz] H].
    + rewrite H in E; [discriminate|auto|lia].
    + specialize (Hs2 _ Hz). rewrite (H x) in E; [discriminate|auto|lia].
  - rewrite IH by auto. split.
    + intros [->|[Hz H]].
      * split; auto. intros y [->|Hy] Hle; auto. specialize (Hs2 _ Hy). lia.
      * split; auto. intros y [->|Hy] Hle; auto.
    + intros [[->|Hz] H]; auto.
Qed.

Lemma skip_until_In p l z : ssorted l ->
  In z (skip_while (fun y => negb (p y)) l) <->
  In z l /\ exists y, In y l /\ y <= z /\ p y = true.
Proof.
  induction l as [|x l IH]; intros Hs; cbn [skip_while In]; [firstorder|].
  apply ssorted_inv in Hs as Hs'. destruct Hs' as [Hs1 Hs2]. rewrite Forall_forall in Hs2.
  destruct (p x) eqn:E; cbn [negb In].
  - split; [|tauto]. intros [->|Hz].
    + split; auto. exists z. split; auto. split; [lia|auto].
    + split; auto. exists x. split; auto. specialize (Hs2 _ Hz). split; [lia|auto].
  - rewrite IH by auto. split.
    + intros [Hz [y [Hy [Hle Hp]]]]. split; auto. exists y; auto.
    + intros [[->|Hz] [y [[->|Hy] [Hle Hp]]]]; try congruence.
      * specialize (Hs2 _ Hy). lia.
      * split; auto. exists y; auto.
Qed.

Lemma find_first_some p l u : ssorted l -> find_first p l = Some u ->
  In u l /\ p u = true /\ forall y, In y l -> y < u -> p y = false.
Proof.
  unfold find_first. induction l as [|x l IH]; intros Hs; cbn [skip_while hd_error]; [discriminate|].
  apply ssorted_inv in Hs as Hs'. destruct Hs' as [Hs1 Hs2]. rewrite Forall_forall in Hs2.
  destruct (p x) eqn:E; cbn [negb hd_error].
  - intros [= <-]. split; [left; auto|]. split; auto.
    intros y [->|Hy] Hlt; [lia|]. specialize (Hs2 _ Hy). lia.
  - intros H. destruct (IH Hs1 H) as [H1 [H2 H3]]. split; [right; auto|]. split; auto.
    intros y [->|Hy] Hlt; auto.
Qed.

Lemma find_first_none p l : find_first p l = None -> forall y, In y l -> p y = false.
Proof.
  unfold find_first. induction l as [|x l IH]; cbn [skip_while hd_error In]; [tauto|].
  destruct (p x) eqn:E; cbn [negb hd_error]; [discriminate|].
  intros H y [->|Hy]; auto.
Qed.

(* ---------- specification shape ---------- *)
Definition res_spec (r : option fd) (P : Z -> Prop) : Prop :=
  match r with
  | Some d => wf_fd d /\ forall z, mem d z <-> P z
  | None => forall z, ~ P z
  end.

Lemma nonempty_sparse_spec l (P : Z -> Prop) :
  ssorted l -> (forall z, In z l <-> P z) -> res_spec (nonempty_sparse l) P.
Proof.
  intros Hs H. destruct l as [|x l]; cbn [nonempty_sparse res_spec].
  - intros z Hz. apply H in Hz. destruct Hz.
  - split; [split; [discriminate|auto]|]. cbn [mem]. auto.
Qed.

Lemma intersect_spec a b : wf_fd a -> wf_fd b ->
  res_spec (fd_intersect a b) (fun z => mem a z /\ mem b z).
Proof.
  destruct a as [l1 h1|v], b as [l2 h2|w]; cbn [wf_fd fd_intersect]; intros Ha Hb.
  - destruct (Z.leb_spec (Z.max l1 l2) (Z.min h1 h2)) as [L|L]; cbn [res_spec wf_fd mem].
    + split; [auto|]. intros z. lia.
    + intros z. lia.
  - destruct Hb as [_ Hb]. apply nonempty_sparse_spec.
    + apply take_while_sorted, skip_while_sorted; auto.
    + intros z. cbn [mem].
      rewrite take_while_mono_In; [|apply skip_while_sorted; auto| intros x y Hxy; rewrite !Z.leb_le; lia].
      rewrite skip_while_mono_In; [|auto| intros x y Hxy; rewrite !Z.ltb_lt; lia].
      rewrite Z.leb_le, Z.ltb_ge. tauto.
  - destruct Ha as [_ Ha]. apply nonempty_sparse_spec.
    + apply take_while_sorted, skip_while_sorted; auto.
    + intros z. cbn [mem].
      rewrite take_while_mono_In; [|apply skip_while_sorted; auto| intros x y Hxy; rewrite !Z.leb_le; lia].
      rewrite skip_while_mono_In; [|auto| intros x y Hxy; rewrite !Z.ltb_lt; lia].
      rewrite Z.leb_le, Z.ltb_ge. tauto.
  - destruct Ha as [_ Ha], Hb as [_ Hb]. apply nonempty_sparse_spec.
    + apply merge_inter_sorted; auto.
    + intros z. cbn [mem]. apply merge_inter_In; auto.
Qed.

Lemma diff_spec a b : wf_fd a -> wf_fd b ->
  res_spec (fd_diff a b) (fun z => mem a z /\ ~ mem b z).
Proof.
  intros Ha Hb. unfold fd_diff. apply nonempty_sparse_spec.
  - apply merge_diff_sorted, fd_iter_sorted; auto.
  - intros z. rewrite merge_diff_In by (apply fd_iter_sorted; auto). rewrite !mem_iter. tauto.
Qed.

Lemma min_spec d : wf_fd d ->
  exists m, fd_min d = Some m /\ mem d m /\ forall z, mem d z -> m <= z.
Proof.
  destruct d as [lo hi|l]; cbn [wf_fd fd_min mem].
  - intros H. exists lo. split; auto. split; lia.
  - intros [Hne Hs]. destruct l as [|x l]; [congruence|]. exists x. cbn [hd_error In].
    split; auto. split; auto. intros z [->|Hz]; [lia|]. apply (ssorted_lt _ _ _ Hs) in Hz. lia.
Qed.

Lemma ssorted_app_last l x : ssorted (l ++ [x]) -> forall z, In z l -> z < x.
Proof.
  induction l as [|y l IH]; cbn [app In]; [tauto|]. intros Hs z [->|Hz].
  - eapply ssorted_lt; eauto. apply in_or_app. right. left. auto.
  - apply IH; auto. apply ssorted_inv in Hs. tauto.
Qed.

Lemma max_spec d : wf_fd d ->
  exists m, fd_max d = Some m /\ mem d m /\ forall z, mem d z -> z <= m.
Proof.
  destruct d as [lo hi|l]; cbn [wf_fd fd_max mem].
  - intros H. exists hi. split; auto. split; lia.
  - intros [Hne Hs]. destruct (exists_last Hne) as [l' [x ->]]. exists x.
    rewrite rev_app_distr. cbn [rev app hd_error]. split; auto.
    split; [apply in_or_app; right; left; auto|].
    intros z Hz. apply in_app_or in Hz as [Hz|[->|[]]]; [|lia].
    apply (ssorted_app_last _ _ Hs) in Hz. lia.
Qed.

Lemma contains_spec d u : wf_fd d -> (fd_contains d u = true <-> mem d u).
Proof.
  intros _. destruct d as [lo hi|l]; cbn [fd_contains mem].
  - rewrite andb_true_iff, !Z.leb_le. tauto.
  - rewrite existsb_exists. split.
    + intros [x [Hx E]]. apply Z.eqb_eq in E. subst. auto.
    + intros H. exists u. split; auto. apply Z.eqb_refl.
Qed.

Lemma is_disjoint_spec a b : wf_fd a -> wf_fd b ->
  exists r, fd_is_disjoint a b = Some r /\ (r = true <-> forall z, mem a z -> ~ mem b z).
Proof.
  intros Ha Hb. unfold fd_is_disjoint.
  destruct (min_spec a Ha) as [mina [-> [Hmina Hmina']]].
  destruct (max_spec a Ha) as [maxa [-> [Hmaxa Hmaxa']]].
  destruct (min_spec b Hb) as [minb [-> [Hminb Hminb']]].
  destruct (max_spec b Hb) as [maxb [-> [Hmaxb Hmaxb']]].
  destruct ((maxb <? mina) || (maxa <? minb)) eqn:E.
  - exists true. split; auto. split; auto. intros _ z Hz Hz'.
    apply orb_true_iff in E. rewrite !Z.ltb_lt in E.
    specialize (Hmina' _ Hz). specialize (Hmaxa' _ Hz). specialize (Hminb' _ Hz'). specialize (Hmaxb' _ Hz'). lia.
  - eexists. split; [reflexivity|]. rewrite merge_disjoint_spec by (apply fd_iter_sorted; auto).
    split; intros H z; specialize (H z); rewrite ?mem_iter in *; auto.
Qed.

Lemma clamp_id z : in_isize z -> clamp z = z.
Proof. unfold in_isize, clamp. intros H. destruct (Z.ltb_spec z isize_min); [lia|]. destruct (Z.ltb_spec isize_max z); lia. Qed.

Lemma clamp_ge_max z : isize_max <= z -> clamp z = isize_max.
Proof.
  unfold clamp. intros H. assert (isize_min < isize_max) by (unfold isize_min, isize_max; lia).
  destruct (Z.ltb_spec z isize_min); [lia|]. destruct (Z.ltb_spec isize_max z); lia.
Qed.

Lemma is_singleton_spec d : wf_fd d ->
  (fd_is_singleton d = true <-> exists v, forall z, mem d z <-> z = v).
Proof.
  destruct d as [lo hi|l]; cbn [wf_fd fd_is_singleton mem].
  - intros H. rewrite Z.eqb_eq. split.
    + intros E. exists lo. intros z. lia.
    + intros [v Hv]. assert (lo = v) by (apply Hv; lia). assert (hi = v) by (apply Hv; lia). lia.
  - intros [Hne Hs]. destruct l as [|x [|y l]]; [congruence| |].
    + split; auto. intros _. exists x. cbn [In]. intros z. split; [intros [->|[]]; auto| intros ->; auto].
    + split; [discriminate|]. intros [v Hv]. exfalso.
      assert (x = v) by (apply Hv; cbn; auto). assert (y = v) by (apply Hv; cbn; auto).
      assert (x < y) by (eapply ssorted_lt; [exact Hs| left; auto]). lia.
Qed.

Lemma singleton_value_spec d v : wf_fd d ->
  (fd_singleton_value d = Some v <-> forall z, mem d z <-> z = v).
Proof.
  intros Hwf. unfold fd_singleton_value. destruct (min_spec d Hwf) as [m [Hm [Hm1 Hm2]]].
  destruct (fd_is_singleton d) eqn:E.
  - apply is_singleton_spec in E as [w Hw]; auto. rewrite Hm.
    assert (m = w) by (apply Hw; auto). subst m. split.
    + intros [= <-]. auto.
    + intros H. f_equal. apply H. apply Hw. auto.
  - split; [discriminate|]. intros H. exfalso.
    assert (fd_is_singleton d = true) by (apply is_singleton_spec; eauto). congruence.
Qed.

Lemma copy_before_spec p d : wf_fd d ->
  res_spec (fd_copy_before p d)
           (fun z => mem d z /\ forall y, mem d y -> y <= z -> p y = false).
Proof.
  destruct d as [lo hi|l]; cbn [wf_fd fd_copy_before]; intros Hwf.
  - destruct (find_first p (zrange lo hi)) as [u|] eqn:E.
    + apply find_first_some in E as [H1 [H2 H3]]; [|apply zrange_sorted].
      apply In_zrange in H1.
      destruct (Z.eqb_spec u lo) as [L|L]; cbn [res_spec wf_fd mem].
      * intros z [Hz H]. subst u. rewrite (H lo) in H2; [discriminate|lia|lia].
      * split; [lia|]. intros z. split.
        -- intros Hz. split; [lia|]. intros y Hy Hle. apply H3; [apply In_zrange; lia|lia].
        -- intros [Hz H]. split; [lia|]. destruct (Z.le_gt_cases u z) as [L'|L']; [|lia].
           rewrite (H u) in H2; [discriminate|lia|lia].
    + cbn [res_spec wf_fd mem]. split; auto. intros z. split; [|tauto]. intros Hz. split; auto.
      intros y Hy _. eapply find_first_none; eauto. apply In_zrange; auto.
  - destruct Hwf as [_ Hs]. apply nonempty_sparse_spec; [apply take_while_sorted; auto|].
    intros z. cbn [mem]. apply take_until_In; auto.
Qed.

Lemma drop_before_spec p d : wf_fd d ->
  res_spec (fd_drop_before p d)
           (fun z => mem d z /\ exists y, mem d y /\ y <= z /\ p y = true).
Proof.
  destruct d as [lo hi|l]; cbn [wf_fd fd_drop_before]; intros Hwf.
  - destruct (find_first p (zrange lo hi)) as [u|] eqn:E; cbn [res_spec wf_fd mem].
    + apply find_first_some in E as [H1 [H2 H3]]; [|apply zrange_sorted].
      apply In_zrange in H1. split; [lia|]. intros z. split.
      * intros Hz. split; [lia|]. exists u. split; [lia|]. split; [lia|auto].
      * intros [Hz [y [Hy [Hle Hp]]]]. split; [|lia].
        destruct (Z.le_gt_cases u z) as [L|L]; auto.
        rewrite (H3 y) in Hp; [discriminate|apply In_zrange; lia|lia].
    + intros z [Hz [y [Hy [Hle Hp]]]].
      rewrite (find_first_none _ _ E y) in Hp; [discriminate|apply In_zrange; auto].
  - destruct Hwf as [_ Hs]. apply nonempty_sparse_spec; [apply skip_while_sorted; auto|].
    intros z. cbn [mem]. apply skip_until_In; auto.
Qed.

Lemma iter_spec d : wf_fd d ->
  ssorted (fd_iter d) /\ forall z, In z (fd_iter d) <-> mem d z.
Proof. intros H. split; [apply fd_iter_sorted; auto| apply mem_iter]. Qed.

Lemma iter_rev_spec d : wf_fd d ->
  StronglySorted Z.gt (fd_iter_rev d) /\ forall z, In z (fd_iter_rev d) <-> mem d z.
Proof.
  intros H. unfold fd_iter_rev. split.
  - pose proof (fd_iter_sorted d H) as Hs. induction Hs as [|x l Hs IH Hf]; cbn [rev]; [constructor|].
    clear H. revert IH. generalize (rev_involutive l). intros _.
    assert (Hin: forall z, In z (rev l) -> x < z) by (intros z Hz; apply in_rev in Hz; rewrite Forall_forall in Hf; auto).
    revert Hin. generalize (rev l) as r. induction r as [|y r IHr]; cbn [app]; intros Hin Hr.
    + constructor; constructor.
    + inversion Hr; subst. constructor.
      * apply IHr; auto. intros z Hz. apply Hin. right; auto.
      * apply Forall_app. split; auto. constructor; [|constructor]. specialize (Hin y (or_introl eq_refl)). lia.
  - intros z. rewrite <- in_rev. apply mem_iter.
Qed.

Lemma eq_spec a b : wf_fd a -> wf_fd b ->
  (fd_eqb a b = true <-> forall z, mem a z <-> mem b z).
Proof.
  intros Ha Hb. unfold fd_eqb. rewrite andb_true_iff.
  pose proof (diff_spec a b Ha Hb) as H1. pose proof (diff_spec b a Hb Ha) as H2.
  destruct (fd_diff a b) as [d1|], (fd_diff b a) as [d2|]; cbn [is_none res_spec] in *.
  - split; [intros [? ?]; discriminate|]. intros H. exfalso.
    destruct H1 as [W1 H1]. destruct (min_spec d1 W1) as [m [_ [Hm _]]]. apply H1 in Hm. apply Hm. apply H. tauto.
  - split; [intros [? ?]; discriminate|]. intros H. exfalso.
    destruct H1 as [W1 H1]. destruct (min_spec d1 W1) as [m [_ [Hm _]]]. apply H1 in Hm. apply Hm. apply H. tauto.
  - split; [intros [? ?]; discriminate|]. intros H. exfalso.
    destruct H2 as [W2 H2]. destruct (min_spec d2 W2) as [m [_ [Hm _]]]. apply H2 in Hm. apply Hm. apply H. tauto.
  - split; auto. intros _ z. split; intros Hz.
    + destruct (contains_spec b z Hb) as [_ C]. destruct (fd_contains b z) eqn:E.
      * apply contains_spec; auto.
      * exfalso. apply (H1 z). split; auto. intros Hm. apply C in Hm. congruence.
    + destruct (contains_spec a z Ha) as [_ C]. destruct (fd_contains a z) eqn:E.
      * apply contains_spec; auto.
      * exfalso. apply (H2 z). split; auto. intros Hm. apply C in Hm. congruence.
Qed.

(* the pinned PartialEq is only the subset test *)
Lemma eqb_subset_spec a b : wf_fd a -> wf_fd b ->
  (fd_eqb_subset a b = true <-> forall z, mem a z -> mem b z).
Proof.
  intros Ha Hb. unfold fd_eqb_subset. pose proof (diff_spec a b Ha Hb) as H1.
  destruct (fd_diff a b) as [d1|]; cbn [is_none res_spec] in *.
  - split; [discriminate|]. intros H. exfalso.
    destruct H1 as [W1 H1]. destruct (min_spec d1 W1) as [m [_ [Hm _]]]. apply H1 in Hm. apply Hm. apply H. tauto.
  - split; auto. intros _ z Hz. destruct (contains_spec b z Hb) as [_ C]. destruct (fd_contains b z) eqn:E.
    + apply contains_spec; auto.
    + exfalso. apply (H1 z). split; auto. intros Hm. apply C in Hm. congruence.
Qed.

(* ---------- From<Vec> ---------- *)
Lemma insert_sorted_In x l z : In z (insert_sorted x l) <-> z = x \/ In z l.
Proof.
  induction l as [|y l IH]; cbn [insert_sorted In]; [intuition|].
  destruct (x <=? y); cbn [In]; rewrite ?IH; intuition.
Qed.

Lemma isort_In l z : In z (isort l) <-> In z l.
Proof. induction l as [|x l IH]; cbn [isort In]; [tauto|]. rewrite insert_sorted_In, IH. intuition. Qed.

Definition wsorted (l : list Z) : Prop := StronglySorted Z.le l.

Lemma insert_sorted_sorted x l : wsorted l -> wsorted (insert_sorted x l).
Proof.
  induction l as [|y l IH]; cbn [insert_sorted]; intros Hs.
  - constructor; constructor.
  - inversion Hs as [|? ? Hs1 Hs2]; subst. destruct (Z.leb_spec x y) as [L|L].
    + constructor; auto. constructor; auto. rewrite Forall_forall in *. intros z Hz. specialize (Hs2 _ Hz). lia.
    + rewrite Forall_forall in Hs2. constructor; [apply IH; auto|]. apply Forall_forall. intros z Hz. apply insert_sorted_In in Hz as [->|Hz]; [lia|auto].
Qed.

Lemma isort_sorted l : wsorted (isort l).
Proof. induction l as [|x l IH]; cbn [isort]; [constructor| apply insert_sorted_sorted; auto]. Qed.

Lemma dedup_eq l : dedup l = match l with
  | [] => []
  | x :: r => match r with [] => [x] | y :: _ => if x =? y then dedup r else x :: dedup r end end.
Proof. destruct l; reflexivity. Qed.

Lemma dedup_In l z : In z (dedup l) <-> In z l.
Proof.
  induction l as [|x l IH]; [cbn; tauto|]. rewrite dedup_eq. destruct l as [|y l]; [tauto|].
  destruct (Z.eqb_spec x y) as [->|N].
  - rewrite IH. cbn [In]. tauto.
  - cbn [In] in *. rewrite IH. tauto.
Qed.

Lemma dedup_sorted l : wsorted l -> ssorted (dedup l).
Proof.
  induction l as [|x l IH]; intros Hs; [constructor|]. rewrite dedup_eq.
  inversion Hs as [|? ? Hs1 Hs2]; subst. destruct l as [|y l]; [constructor; constructor|].
  destruct (Z.eqb_spec x y) as [->|N]; auto.
  apply ssorted_cons; auto. intros z Hz. rewrite dedup_In in Hz.
  rewrite Forall_forall in Hs2. destruct Hz as [<-|Hz].
  - specialize (Hs2 y (or_introl eq_refl)). lia.
  - inversion Hs1 as [|? ? _ Hs3]; subst. rewrite Forall_forall in Hs3.
    specialize (Hs2 y (or_introl eq_refl)). specialize (Hs3 _ Hz). lia.
Qed.

Lemma from_vec_spec v : v <> [] ->
  exists d, fd_from_vec v = Some d /\ wf_fd d /\ forall z, mem d z <-> In z v.
Proof.
  intros Hne. destruct v as [|x v]; [congruence|]. cbn [fd_from_vec]. eexists. split; [reflexivity|].
  cbn [wf_fd mem]. split; [split|].
  - intros E. assert (In x (dedup (isort (x :: v)))) by (apply dedup_In, isort_In; left; auto).
    rewrite E in H. destruct H.
  - apply dedup_sorted, isort_sorted.
  - intros z. rewrite dedup_In, isort_In. tauto.
Qed.

Lemma from_vec_empty : fd_from_vec [] = None.
Proof. reflexivity. Qed.
