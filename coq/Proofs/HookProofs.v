(* C22: the constraint-lifecycle hooks are balanced in every state the model can reach.
   bal st : (# with_constraint calls) = (# take_constraint calls) + (# constraints in the store),
   counted on the state's own hook log.  Every state operation preserves it. *)
From Coq Require Import List ZArith Bool Arith Lia.
From PV Require Import Model.Term Model.Subst Model.Unify Model.FD Model.State Proofs.UnifyProofs Proofs.DiseqProofs.
Import ListNotations.

Definition is_with (e : uevent) : bool := match e with UWith _ => true | _ => false end.
Definition is_take (e : uevent) : bool := match e with UTake _ => true | _ => false end.
Definition nwith (st : state) : nat := length (filter is_with (st_ulog st)).
Definition ntake (st : state) : nat := length (filter is_take (st_ulog st)).
Definition bal (st : state) : Prop := nwith st = ntake st + length (st_cstore st).

Definition sres_bal (r : sres) : Prop := match r with SOk st => bal st | _ => True end.

Lemma bal_set_smap st s : bal st -> bal (set_smap st s).
Proof. exact (fun H => H). Qed.
Lemma bal_set_dstore st d : bal st -> bal (set_dstore st d).
Proof. exact (fun H => H). Qed.
Lemma bal_set_nextv st n : bal st -> bal (set_nextv st n).
Proof. exact (fun H => H). Qed.
Lemma bal_bump st : bal st -> bal (bump_nextc st).
Proof. exact (fun H => H). Qed.
Lemma bal_dom_remove st v : bal st -> bal (dom_remove st v).
Proof. exact (fun H => H). Qed.
Lemma bal_dom_insert st v d : bal st -> bal (dom_insert st v d).
Proof. exact (fun H => H). Qed.
Lemma bal_log_other st e : is_with e = false -> is_take e = false -> bal st -> bal (log_event st e).
Proof. unfold bal, nwith, ntake. cbn [log_event st_ulog st_cstore filter]. intros -> ->. auto. Qed.

Lemma fold_take_counts (dropped : list (nat * constraint)) : forall st,
  nwith (fold_left (fun s ic => log_event s (UTake (fst ic))) dropped st) = nwith st /\
  ntake (fold_left (fun s ic => log_event s (UTake (fst ic))) dropped st) = ntake st + length dropped /\
  st_cstore (fold_left (fun s ic => log_event s (UTake (fst ic))) dropped st) = st_cstore st.
Proof.
  induction dropped as [|d dropped IH]; intros st; cbn [fold_left length]; [repeat split; lia|].
  destruct (IH (log_event st (UTake (fst d)))) as [A [B C]]. rewrite A, B, C.
  unfold nwith, ntake. cbn [log_event st_ulog st_cstore filter is_with is_take length]. repeat split; lia.
Qed.

Lemma bal_with_constraint_id st id c : bal st -> bal (with_constraint_id st id c).
Proof.
  intros H. unfold with_constraint_id.
  pose proof (push_and_normalize_count (st_cstore (log_event st (UWith id))) id c) as HC.
  destruct (push_and_normalize (st_cstore (log_event st (UWith id))) id c) as [store dropped].
  destruct (fold_take_counts dropped (set_cstore (log_event st (UWith id)) store)) as [A [B C]].
  unfold bal. rewrite A, B, C. unfold bal, nwith, ntake in *.
  cbn [set_cstore log_event st_ulog st_cstore filter is_with is_take length] in *. lia.
Qed.

Lemma bal_with_new_constraint st c : bal st -> bal (with_new_constraint st c).
Proof. intros H. unfold with_new_constraint. apply bal_with_constraint_id. apply bal_bump. exact H. Qed.

Lemma remove_id_length {A} id (l : list (nat * A)) a :
  find_id id l = Some a -> S (length (remove_id id l)) = length l.
Proof.
  induction l as [|[i x] l IH]; cbn [find_id remove_id]; [discriminate|].
  destruct (Nat.eqb i id); [reflexivity|]. intros H. cbn [length]. rewrite (IH H). reflexivity.
Qed.

Lemma bal_take_constraint st id : bal st -> bal (fst (take_constraint st id)).
Proof.
  intros H. unfold take_constraint. destruct (find_id id (st_cstore st)) eqn:E; cbn [fst]; auto.
  pose proof (remove_id_length id (st_cstore st) c E) as HL.
  unfold bal, nwith, ntake in *. cbn [set_cstore log_event st_ulog st_cstore filter is_with is_take length]. lia.
Qed.

Lemma sbind_bal r k : sres_bal r -> (forall st, bal st -> sres_bal (k st)) -> sres_bal (sbind r k).
Proof. destruct r; cbn [sbind sres_bal]; auto. Qed.

Section Fuelled.
Variable rcs : state -> sres.
Hypothesis rcs_bal : forall st, bal st -> sres_bal (rcs st).
Variable rc : nat -> constraint -> state -> sres.
Hypothesis rc_bal : forall id c st, bal st -> sres_bal (rc id c st).

Lemma process_domain_bal st x d : bal st -> sres_bal (process_domain rcs st x d).
Proof.
  intros H. unfold process_domain. destruct (wk (st_smap st) x) as [[]|v a| | |]; cbn [sres_bal]; auto.
  - destruct (fd_contains d z); cbn [sres_bal]; auto.
  - unfold update_var_domain, resolve_storable_domain.
    destruct (find_id v (st_dstore st)) as [old|].
    + destruct (fd_intersect old d) as [i|]; cbn [sres_bal]; auto.
      destruct (fd_singleton_value i); [apply rcs_bal|cbn [sres_bal]]; auto.
    + destruct (fd_singleton_value d); [apply rcs_bal|cbn [sres_bal]]; auto.
Qed.

Lemma opt_domain_bal o k : (forall d, sres_bal (k d)) -> sres_bal (opt_domain o k).
Proof. destruct o; cbn [opt_domain sres_bal]; auto. Qed.

Lemma exclude_bal ds excl : forall xs st, bal st -> sres_bal (exclude_from_domain rcs ds st xs excl).
Proof.
  induction xs as [|y xs IH]; intros st H; cbn [exclude_from_domain sres_bal]; auto.
  destruct (match y with TVar v _ => find_id v ds | _ => None end); auto.
  destruct (fd_diff f excl); cbn [sres_bal]; auto.
  apply sbind_bal; [apply process_domain_bal; auto|auto].
Qed.

Lemma arith3_bal id c st u v w g a1 a2 a3 a4 a5 a6 :
  bal st -> sres_bal (arith3 rcs rc id c st u v w g a1 a2 a3 a4 a5 a6).
Proof.
  intros H. unfold arith3.
  destruct (get_number (wk (st_smap st) u)), (get_number (wk (st_smap st) v)), (get_number (wk (st_smap st) w));
    try (destruct (g _ _ _); cbn [sres_bal]; auto; fail);
    (destruct (operand_domain st (wk (st_smap st) u)), (operand_domain st (wk (st_smap st) v)),
              (operand_domain st (wk (st_smap st) w));
     try (cbn [sres_bal]; apply bal_with_constraint_id; auto; fail);
     apply sbind_bal; [apply process_domain_bal; auto|]; intros st1 H1;
     apply sbind_bal; [apply process_domain_bal; auto|]; intros st2 H2;
     apply sbind_bal; [apply process_domain_bal; auto|]; intros st3 H3;
     destruct (Nat.eqb _ _); [cbn [sres_bal]; apply bal_with_constraint_id; auto|apply rc_bal; auto]).
Qed.

Lemma run_constraint_bal id c st : bal st -> sres_bal (run_constraint rcs rc id c st).
Proof.
  intros H. destruct c; cbn [run_constraint].
  - destruct (unify_pairs dfuel (st_smap st) [] ps) as [s' [|p e]| |]; cbn [sres_bal]; auto.
    apply bal_with_new_constraint; auto.
  - destruct (dom_get st (wk (st_smap st) u)) as [ud|], (dom_get st (wk (st_smap st) v)) as [vd|].
    + apply opt_domain_bal; intros d1. apply sbind_bal; [apply process_domain_bal; auto|]. intros st1 H1.
      apply opt_domain_bal; intros d2. apply sbind_bal; [apply process_domain_bal; auto|]. intros st2 H2.
      destruct (Nat.eqb _ _); [cbn [sres_bal]; apply bal_with_constraint_id; auto|apply rc_bal; auto].
    + destruct (get_number (wk (st_smap st) v)); [|cbn [sres_bal]; apply bal_with_constraint_id; auto].
      apply opt_domain_bal; intros d1. apply process_domain_bal; auto.
    + destruct (get_number (wk (st_smap st) u)); [|cbn [sres_bal]; apply bal_with_constraint_id; auto].
      apply opt_domain_bal; intros d1. apply process_domain_bal; auto.
    + destruct (get_number (wk (st_smap st) u)), (get_number (wk (st_smap st) v));
        try (cbn [sres_bal]; apply bal_with_constraint_id; auto; fail).
      destruct (Z.leb z z0); cbn [sres_bal]; auto.
  - apply arith3_bal; auto.
  - apply arith3_bal; auto.
  - apply arith3_bal; auto.
  - destruct (operand_domain st (wk (st_smap st) u)) as [ud|], (operand_domain st (wk (st_smap st) v)) as [vd|];
      try (cbn [sres_bal]; apply bal_with_constraint_id; auto; fail).
    destruct (fd_is_singleton ud && fd_is_singleton vd).
    + destruct (Z.eqb _ _); cbn [sres_bal]; auto.
    + destruct (fd_is_disjoint ud vd) as [[|]|]; cbn [sres_bal]; auto;
        (destruct (fd_is_singleton ud);
         [apply opt_domain_bal; intros d; apply process_domain_bal; apply bal_with_constraint_id; auto|
          destruct (fd_is_singleton vd);
          [apply opt_domain_bal; intros d; apply process_domain_bal; apply bal_with_constraint_id; auto|
           cbn [sres_bal]; apply bal_with_constraint_id; auto]]).
  - destruct (wk (st_smap st) u); cbn [sres_bal]; auto; try (apply bal_with_constraint_id; auto);
      (destruct (forallb _ _); cbn [sres_bal]; auto;
       destruct (strictly_increasing _); cbn [sres_bal]; auto; apply rc_bal; apply bal_bump; auto).
  - match goal with |- sres_bal (match ?X with _ => _ end) => destruct X as [[[[x n']|]|]|site] end; cbn [sres_bal]; auto.
    destruct n' as [|z n']; [cbn [sres_bal]; apply bal_with_new_constraint; auto|].
    destruct (fd_from_vec (z :: n')); cbn [sres_bal]; auto.
    apply exclude_bal. apply bal_with_new_constraint; auto.
  - destruct (wk (st_smap st) u) as [[]| | | |], (wk (st_smap st) v) as [[]| | | |], (wk (st_smap st) w) as [[]| | | |];
      cbn [sres_bal]; auto; try (apply bal_with_constraint_id; auto); try (apply rcs_bal; auto);
      destruct (Z.eqb _ _); cbn [sres_bal]; auto.
  - destruct (wk (st_smap st) u) as [[]| | | |], (wk (st_smap st) v) as [[]| | | |], (wk (st_smap st) w) as [[]| | | |];
      cbn [sres_bal]; auto; try (apply bal_with_constraint_id; auto); try (apply rcs_bal; auto);
      repeat (match goal with |- sres_bal (if ?b then _ else _) => destruct b end; cbn [sres_bal]; auto);
      try (apply bal_with_constraint_id; auto); try (apply rcs_bal; auto).
Qed.
End Fuelled.

Lemma run_constraints_bal : forall f st, bal st -> sres_bal (run_constraints f st).
Proof.
  induction f as [|f IH]; intros st H; cbn [run_constraints sres_bal]; auto.
  set (rc := fix rc (g id : nat) (c : constraint) (st0 : state) {struct g} : sres :=
               match g with O => SOOF | S g' => run_constraint (run_constraints f) (rc g') id c st0 end).
  assert (RC : forall g id c st0, bal st0 -> sres_bal (rc g id c st0)).
  { induction g as [|g IHg]; intros id c st0 H0; cbn [rc sres_bal]; auto.
    apply run_constraint_bal; auto. }
  generalize (map fst (st_cstore st)). intros ids. revert st H.
  induction ids as [|id ids IHi]; intros st H; cbn [sres_bal]; auto.
  pose proof (bal_take_constraint st id H) as HT.
  destruct (take_constraint st id) as [st1 [c|]]; cbn [fst] in HT.
  - apply sbind_bal; [apply RC; auto|]. intros st2 H2. apply IHi; auto.
  - apply IHi; auto.
Qed.

Lemma run_constraint_top_bal : forall g f id c st, bal st -> sres_bal (run_constraint_top g f id c st).
Proof.
  induction g as [|g IH]; intros f id c st H; cbn [run_constraint_top sres_bal]; auto.
  apply run_constraint_bal; auto. intros; apply run_constraints_bal; auto.
Qed.

Theorem post_constraint_bal c st : bal st -> sres_bal (post_constraint c st).
Proof. intros H. unfold post_constraint. apply run_constraint_top_bal. apply bal_bump; auto. Qed.

Theorem post_domain_bal x d st : bal st -> sres_bal (post_domain x d st).
Proof. intros H. unfold post_domain. apply process_domain_bal; auto. intros; apply run_constraints_bal; auto. Qed.

Lemma process_extension_fd_bal ds : forall ext st, bal st -> sres_bal (process_extension_fd ds ext st).
Proof.
  induction ext as [|[x v] ext IH]; intros st H; cbn [process_extension_fd sres_bal]; auto.
  destruct (find_id x ds); auto.
  apply sbind_bal; [apply process_domain_bal; auto; intros; apply run_constraints_bal; auto|].
  intros st1 H1. destruct (find_id x (st_dstore st1)); cbn [sres_bal]; auto.
  apply sbind_bal; [apply run_constraints_bal; auto|]. auto.
Qed.

Theorem state_unify_bal st u v : bal st -> sres_bal (state_unify st u v).
Proof.
  intros H. unfold state_unify. destruct (unify dfuel (st_smap st) [] u v); cbn [sres_bal]; auto.
  apply sbind_bal; [apply run_constraints_bal; auto|]. intros st2 H2.
  apply sbind_bal; [apply process_extension_fd_bal; auto|]. intros st3 H3.
  cbn [sres_bal]. apply bal_log_other; auto.
Qed.

Theorem state_disunify_bal st u v : bal st -> sres_bal (state_disunify st u v).
Proof.
  intros H. unfold state_disunify. destruct (unify dfuel (st_smap st) [] u v) as [s' [|p e]| |]; cbn [sres_bal]; auto.
  apply bal_with_new_constraint; auto.
Qed.

Lemma bal_empty n : bal (empty_state n).
Proof. reflexivity. Qed.

(* process_extension: a successful unification logs exactly one extension event, carrying exactly
   the bindings that unification added, and nothing else logs one *)
Theorem state_unify_ext st u v st' :
  state_unify st u v = SOk st' ->
  exists s' ext rest, unify dfuel (st_smap st) [] u v = UOk s' ext /\ s' = ext ++ st_smap st /\
                      st_ulog st' = UExt ext :: rest.
Proof.
  unfold state_unify. intros H.
  pose proof (unify_extends dfuel (st_smap st) [] u v) as HE.
  destruct (unify dfuel (st_smap st) [] u v) as [s' ext| |]; try discriminate.
  destruct (HE s' ext eq_refl) as [new [-> E]]. rewrite app_nil_r in E. subst ext.
  destruct (run_constraints cfuel (set_smap st (new ++ st_smap st))) as [st2| | |]; cbn [sbind] in H; try discriminate.
  destruct (process_extension_fd (st_dstore st2) (rev new) st2) as [st3| | |]; cbn [sbind] in H; try discriminate.
  inversion H; subst. exists (new ++ st_smap st), new, (st_ulog st3). auto.
Qed.
