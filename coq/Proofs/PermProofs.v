(* Reordering (C04) and for/everyg (C12). *)
From Coq Require Import List Permutation ZArith Bool Arith Lia.
From PV Require Import Model.Term Model.Subst Model.Unify Model.FD Model.State Model.Engine Spec.StreamSem
  Proofs.UnifyProofs Proofs.DiseqProofs Proofs.StreamProofs Proofs.EngineProofs.
Import ListNotations.

Lemma Forall2_perm {A B} (R : A -> B -> Prop) (l l' : list A) :
  Permutation l l' -> forall m, Forall2 R l m -> exists m', Permutation m m' /\ Forall2 R l' m'.
Proof.
  induction 1 as [|x l l' HP IH|x y l|l l1 l2 HP1 IH1 HP2 IH2]; intros m HF.
  - inversion HF; subst. exists []. split; constructor.
  - inversion HF as [|? b ? m0 Hx HF0]; subst. destruct (IH _ HF0) as [m' [P1 F1]].
    exists (b :: m'). split; constructor; auto.
  - inversion HF as [|? b ? m0 Hy HF0]; subst. inversion HF0 as [|? c ? m1 Hx HF1]; subst.
    exists (c :: b :: m1). split; [apply perm_swap|repeat constructor; auto].
  - destruct (IH1 _ HF) as [m1 [P1 F1]]. destruct (IH2 _ F1) as [m2 [P2 F2]].
    exists m2. split; [eapply perm_trans; eauto|auto].
Qed.

Lemma concat_perm {A} (l l' : list (list A)) : Permutation l l' -> Permutation (concat l) (concat l').
Proof.
  induction 1; cbn [concat]; auto.
  - apply Permutation_app_head; auto.
  - rewrite !app_assoc. apply Permutation_app_tail. apply Permutation_app_comm.
  - eapply perm_trans; eauto.
Qed.

Section WithDefs.
Variable defs : list (nat * def).

(* permuting the clauses of an interleaving disjunction: what it delivers is, up to order, the
   clauses' answers listed in the permuted order as well *)
Theorem conde_perm m n st gs gs' zs :
  Permutation gs gs' ->
  ansS (start defs (S m)) (conde_stream defs BFS n gs st) zs ->
  exists yss', Forall2 (fun c ys => ansS (start defs (S m)) (start defs n c st) ys) gs' yss' /\
               Permutation zs (concat yss').
Proof.
  intros HP H. destruct (conde_bfs_ans defs m n st gs zs H) as [yss [HF HZ]].
  destruct (Forall2_perm _ _ _ HP _ HF) as [yss' [P1 F1]].
  exists yss'. split; auto. rewrite HZ. apply concat_perm; auto.
Qed.

End WithDefs.

Lemma from_iter_rev k : forall cs, from_iter k cs = from_array k (rev cs).
Proof.
  unfold from_iter, from_array. intros cs. rewrite <- fold_left_rev_right. reflexivity.
Qed.

(* two equalities posted in either order: the same solutions *)
Theorem eq_order_free f s u1 v1 u2 v2 s1 e1 s12 e12 s2 e2 s21 e21 :
  unify f s [] u1 v1 = UOk s1 e1 -> unify f s1 [] u2 v2 = UOk s12 e12 ->
  unify f s [] u2 v2 = UOk s2 e2 -> unify f s2 [] u1 v1 = UOk s21 e21 ->
  forall th, sat th s12 <-> sat th s21.
Proof.
  intros A B C D th.
  rewrite (unify_sat _ _ _ _ _ _ _ B th), (unify_sat _ _ _ _ _ _ _ A th).
  rewrite (unify_sat _ _ _ _ _ _ _ D th), (unify_sat _ _ _ _ _ _ _ C th). tauto.
Qed.

(* if one order succeeds, the other order cannot fail: it would refute a unifier that exists *)
Theorem eq_order_no_spurious_failure f s u1 v1 u2 v2 s1 e1 s12 e12 th :
  unify f s [] u1 v1 = UOk s1 e1 -> unify f s1 [] u2 v2 = UOk s12 e12 -> sat th s12 ->
  unify f s [] u2 v2 <> UFail /\
  forall s2 e2, unify f s [] u2 v2 = UOk s2 e2 -> unify f s2 [] u1 v1 <> UFail.
Proof.
  intros A B H.
  apply (unify_sat _ _ _ _ _ _ _ B th) in H as [H1 E2].
  apply (unify_sat _ _ _ _ _ _ _ A th) in H1 as [H0 E1].
  split.
  - intros F. exact (unify_complete _ _ _ _ _ F th H0 E2).
  - intros s2 e2 C F. apply (unify_complete _ _ _ _ _ F th); auto.
    apply (unify_sat _ _ _ _ _ _ _ C th). auto.
Qed.
