(* C10 at the level of goals, on the pure relational fragment: the answers of a disjunction are exactly the
   answers of its clauses run alone from the same state - nothing leaks between clauses, nothing is lost. *)
From Coq Require Import List ZArith Bool Arith Lia.
From PV Require Import Model.Term Model.Subst Model.Unify Model.FD Model.State Model.Engine Spec.StreamSem
  Proofs.StreamProofs Proofs.EngineProofs Proofs.SemProofs Proofs.PureElab Proofs.FairProofs.
Import ListNotations.

Section U.
Variable defs : list (nat * def).
Hypothesis defs_psrc : forall r d, find_def r defs = Some d -> psrc (d_body d).

Lemma pureg_conde_in gs c : pureg (CConde BFS gs) -> In c gs -> pureg c.
Proof. intros H Hin. apply pureg_conde in H. rewrite Forall_forall in H. apply H, Hin. Qed.

(* (1) an answer of the disjunction is an answer of one clause run alone (delivered after finitely many steps);
   (2) an answer of a clause run alone is an answer of the disjunction *)
Theorem disjunction_exactly_union gs st : pureg (CConde BFS gs) ->
  (forall k u m a rest u', next defs k u (start defs m (CConde BFS gs) st) = NAnswer a rest u' ->
     exists c n, In c gs /\ emitsE (startq defs) n (startq defs c st) a) /\
  (forall c k u m a rest u', In c gs -> next defs k u (start defs m c st) = NAnswer a rest u' ->
     exists n, emitsE (startq defs) n (startq defs (CConde BFS gs) st) a).
Proof.
  intros Hp. split.
  - intros k u m a rest u' H. pose proof (next_sound_goal defs _ _ _ _ _ _ _ _ H) as HS. inversion HS; subst.
    match goal with Hin : In ?c gs, Hs : Sem defs ?c st a |- _ =>
      destruct (fair_complete defs defs_psrc c st a Hs (pureg_conde_in gs c Hp Hin)) as [n Hn]; exists c, n; split; assumption end.
  - intros c k u m a rest u' Hin H. eapply disjunction_fair; eauto.
Qed.
End U.
