(* C19: plusz / timesz constrain integers exactly: case analysis on the groundness of the walked
   operands, branch for branch of the model of PlusZConstraint::run / TimesZConstraint::run. *)
From Coq Require Import List ZArith Bool Arith Lia.
From PV Require Import Model.Term Model.Subst Model.Unify Model.FD Model.State.
Import ListNotations.
Local Open Scope Z_scope.

Section S.
Variable rcs : state -> sres.
Variable rc : nat -> constraint -> state -> sres.

Definition num (t : term) (z : Z) : Prop := t = TVal (LNum z).
Definition unbound_var (t : term) : Prop := exists x a, t = TVar x a.

(* all three operands ground: succeeds, unchanged, exactly when the equation holds *)
Theorem plusz_ground id st u v w a b r :
  num (wk (st_smap st) u) a -> num (wk (st_smap st) v) b -> num (wk (st_smap st) w) r ->
  run_constraint rcs rc id (KPlusZ u v w) st = if Z.eqb (a + b) r then SOk st else SFail.
Proof. unfold num. intros E1 E2 E3. cbn [run_constraint]. rewrite E1, E2, E3. reflexivity. Qed.

Theorem timesz_ground id st u v w a b r :
  num (wk (st_smap st) u) a -> num (wk (st_smap st) v) b -> num (wk (st_smap st) w) r ->
  run_constraint rcs rc id (KTimesZ u v w) st = if Z.eqb (a * b) r then SOk st else SFail.
Proof. unfold num. intros E1 E2 E3. cbn [run_constraint]. rewrite E1, E2, E3. reflexivity. Qed.

(* two ground: the third is bound to the unique solution and the other constraints are re-run *)
Theorem plusz_solve_w id st u v w a b x fl :
  num (wk (st_smap st) u) a -> num (wk (st_smap st) v) b -> wk (st_smap st) w = TVar x fl ->
  run_constraint rcs rc id (KPlusZ u v w) st = rcs (set_smap st ((x, tnum (a + b)) :: st_smap st)).
Proof. unfold num. intros E1 E2 E3. cbn [run_constraint]. rewrite E1, E2, E3. reflexivity. Qed.
Theorem plusz_solve_v id st u v w a r x fl :
  num (wk (st_smap st) u) a -> wk (st_smap st) v = TVar x fl -> num (wk (st_smap st) w) r ->
  run_constraint rcs rc id (KPlusZ u v w) st = rcs (set_smap st ((x, tnum (r - a)) :: st_smap st)).
Proof. unfold num. intros E1 E2 E3. cbn [run_constraint]. rewrite E1, E2, E3. reflexivity. Qed.
Theorem plusz_solve_u id st u v w b r x fl :
  wk (st_smap st) u = TVar x fl -> num (wk (st_smap st) v) b -> num (wk (st_smap st) w) r ->
  run_constraint rcs rc id (KPlusZ u v w) st = rcs (set_smap st ((x, tnum (r - b)) :: st_smap st)).
Proof. unfold num. intros E1 E2 E3. cbn [run_constraint]. rewrite E1, E2, E3. reflexivity. Qed.

Theorem timesz_solve_w id st u v w a b x fl :
  num (wk (st_smap st) u) a -> num (wk (st_smap st) v) b -> wk (st_smap st) w = TVar x fl ->
  run_constraint rcs rc id (KTimesZ u v w) st = rcs (set_smap st ((x, tnum (a * b)) :: st_smap st)).
Proof. unfold num. intros E1 E2 E3. cbn [run_constraint]. rewrite E1, E2, E3. reflexivity. Qed.

(* a * X = r : no solution fails, a unique solution is bound, "every integer" keeps the constraint *)
Theorem timesz_solve_v id st u v w a r x fl :
  num (wk (st_smap st) u) a -> wk (st_smap st) v = TVar x fl -> num (wk (st_smap st) w) r ->
  run_constraint rcs rc id (KTimesZ u v w) st =
    if Z.eqb a 0 then (if Z.eqb r 0 then SOk (with_constraint_id st id (KTimesZ u v w)) else SFail)
    else if Z.eqb (Z.rem r a) 0 then rcs (set_smap st ((x, tnum (Z.quot r a)) :: st_smap st)) else SFail.
Proof. unfold num. intros E1 E2 E3. cbn [run_constraint]. rewrite E1, E2, E3. reflexivity. Qed.
Theorem timesz_solve_u id st u v w b r x fl :
  wk (st_smap st) u = TVar x fl -> num (wk (st_smap st) v) b -> num (wk (st_smap st) w) r ->
  run_constraint rcs rc id (KTimesZ u v w) st =
    if Z.eqb b 0 then (if Z.eqb r 0 then SOk (with_constraint_id st id (KTimesZ u v w)) else SFail)
    else if Z.eqb (Z.rem r b) 0 then rcs (set_smap st ((x, tnum (Z.quot r b)) :: st_smap st)) else SFail.
Proof. unfold num. intros E1 E2 E3. cbn [run_constraint]. rewrite E1, E2, E3. reflexivity. Qed.

(* the arithmetic behind "the unique integer solution" *)
Lemma times_solution a r : a <> 0 ->
  (Z.rem r a = 0 -> a * Z.quot r a = r) /\ (forall y, a * y = r -> Z.rem r a = 0 /\ y = Z.quot r a).
Proof.
  intros Ha. split.
  - intros H. pose proof (Z.quot_rem' r a). lia.
  - intros y E. subst r. split.
    + rewrite Z.mul_comm. apply Z.rem_mul; auto.
    + rewrite Z.mul_comm. symmetry. apply Z.quot_mul; auto.
Qed.
Lemma times_zero_solution r : (forall y, 0 * y = r <-> r = 0).
Proof. intros y. lia. Qed.

(* fewer than two ground (all remaining operands unbound variables): the constraint is kept *)
Theorem plusz_kept id st u v w :
  (unbound_var (wk (st_smap st) u) /\ unbound_var (wk (st_smap st) v)) \/
  (unbound_var (wk (st_smap st) u) /\ unbound_var (wk (st_smap st) w)) \/
  (unbound_var (wk (st_smap st) v) /\ unbound_var (wk (st_smap st) w)) ->
  (forall t, t = wk (st_smap st) u \/ t = wk (st_smap st) v \/ t = wk (st_smap st) w -> unbound_var t \/ exists z, num t z) ->
  run_constraint rcs rc id (KPlusZ u v w) st = SOk (with_constraint_id st id (KPlusZ u v w)).
Proof.
  unfold unbound_var, num. intros H HT. cbn [run_constraint].
  destruct (HT _ (or_introl eq_refl)) as [[x1 [f1 E1]]|[z1 E1]];
  destruct (HT _ (or_intror (or_introl eq_refl))) as [[x2 [f2 E2]]|[z2 E2]];
  destruct (HT _ (or_intror (or_intror eq_refl))) as [[x3 [f3 E3]]|[z3 E3]];
  rewrite E1, E2, E3 in *; try reflexivity;
  exfalso; destruct H as [[[? [? A]] [? [? B]]]|[[[? [? A]] [? [? B]]]|[[? [? A]] [? [? B]]]]]; discriminate.
Qed.

Theorem timesz_kept id st u v w :
  (unbound_var (wk (st_smap st) u) /\ unbound_var (wk (st_smap st) v)) \/
  (unbound_var (wk (st_smap st) u) /\ unbound_var (wk (st_smap st) w)) \/
  (unbound_var (wk (st_smap st) v) /\ unbound_var (wk (st_smap st) w)) ->
  (forall t, t = wk (st_smap st) u \/ t = wk (st_smap st) v \/ t = wk (st_smap st) w -> unbound_var t \/ exists z, num t z) ->
  run_constraint rcs rc id (KTimesZ u v w) st = SOk (with_constraint_id st id (KTimesZ u v w)).
Proof.
  unfold unbound_var, num. intros H HT. cbn [run_constraint].
  destruct (HT _ (or_introl eq_refl)) as [[x1 [f1 E1]]|[z1 E1]];
  destruct (HT _ (or_intror (or_introl eq_refl))) as [[x2 [f2 E2]]|[z2 E2]];
  destruct (HT _ (or_intror (or_intror eq_refl))) as [[x3 [f3 E3]]|[z3 E3]];
  rewrite E1, E2, E3 in *; try reflexivity;
  exfalso; destruct H as [[[? [? A]] [? [? B]]]|[[[? [? A]] [? [? B]]]|[[? [? A]] [? [? B]]]]]; discriminate.
Qed.

(* never a panic outcome *)
Theorem clpz_no_panic id st u v w site :
  (forall s, rcs s <> SPanic site) ->
  run_constraint rcs rc id (KPlusZ u v w) st <> SPanic site /\
  run_constraint rcs rc id (KTimesZ u v w) st <> SPanic site.
Proof.
  intros HR. split; cbn [run_constraint];
  destruct (wk (st_smap st) u) as [[]| | | |], (wk (st_smap st) v) as [[]| | | |], (wk (st_smap st) w) as [[]| | | |];
  try discriminate; try apply HR;
  repeat (match goal with |- (if ?b then _ else _) <> _ => destruct b end); try discriminate; try apply HR.
Qed.
End S.
