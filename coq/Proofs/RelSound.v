(* Soundness of the library list relations for ALL lists and ALL argument modes, over the
   definitions translated from /repo/src/relation/*.rs on every run (Gen/RelDefs.v):
   every answer the engine delivers for append(a, b, c) / member(x, l) satisfies, under every
   valuation solving the answer's substitution, the inductive relation on terms. *)
From Coq Require Import List ZArith Bool Arith Lia.
From PV Require Import Model.Term Model.Subst Model.Unify Model.FD Model.State Model.Engine
  Proofs.UnifyProofs Proofs.EngineProofs Proofs.SemProofs Proofs.MonoProofs Gen.RelDefs.
Import ListNotations.

Inductive AppendV : term -> term -> term -> Prop :=
| AV_nil b : AppendV TEmpty b b
| AV_cons h t b r : AppendV t b r -> AppendV (TCons h t) b (TCons h r).
Inductive MemberV (x : term) : term -> Prop :=
| MV_here t : MemberV x (TCons x t)
| MV_there h t : MemberV x t -> MemberV x (TCons h t).

(* a successful unification makes its operands equal under every solution of the resulting state *)
Lemma state_unify_sound st u v a th : state_unify st u v = SOk a -> sat th (st_smap a) -> app th u = app th v.
Proof.
  unfold state_unify. intros H Hs.
  destruct (unify dfuel (st_smap st) [] u v) as [s' e| |] eqn:EU; try discriminate.
  pose proof (run_constraints_E cfuel (set_smap st s')) as H1.
  destruct (run_constraints cfuel (set_smap st s')) as [st2| | |]; cbn [sbind] in H; try discriminate.
  pose proof (process_extension_E (st_dstore st2) (rev e) st2) as H2.
  destruct (process_extension_fd (st_dstore st2) (rev e) st2) as [st3| | |]; cbn [sbind] in H; try discriminate.
  inversion H; subst a. cbn in H1, H2. destruct H1 as [n1 E1], H2 as [n2 E2]. cbn [log_event st_smap] in Hs.
  rewrite E2, E1 in Hs. cbn [set_smap st_smap] in Hs.
  apply sat_app in Hs. apply sat_app in Hs.
  apply (proj1 (unify_sat _ _ _ _ _ _ _ EU th)). exact Hs.
Qed.

(* what a goal asserts of a valuation; relation calls other than the two of interest assert nothing *)
Fixpoint D (th : val) (g : cgoal) : Prop :=
  match g with
  | CFail => False
  | CEq u v => app th u = app th v
  | CConj _ a b => D th a /\ D th b
  | CConde _ gs => (fix any (l : list cgoal) : Prop := match l with [] => False | c :: r => D th c \/ any r end) gs
  | CFresh _ a => D th a
  | CCall _ r args =>
      if Nat.eqb r rel_append then
        match args with [a; b; c] => AppendV (app th a) (app th b) (app th c) | _ => True end
      else if Nat.eqb r rel_member then
        match args with [x; l] => MemberV (app th x) (app th l) | _ => True end
      else True
  | _ => True
  end.

Lemma D_conde th k gs c : In c gs -> D th c -> D th (CConde k gs).
Proof. cbn [D]. induction gs as [|c0 r IH]; intros Hin Hc; [destruct Hin|]. destruct Hin as [->|Hin]; [left; exact Hc|right; apply IH; assumption]. Qed.

Lemma app_list_term th ts : app th (list_term ts) = list_term (map (app th) ts).
Proof. induction ts as [|t r IH]; cbn; [reflexivity|]. rewrite IH. reflexivity. Qed.

Theorem Sem_D : forall g st a, Sem lib_defs g st a -> forall th, sat th (st_smap a) -> D th g.
Proof.
  induction 1; intros th Hs; try exact I.
  - (* eq *) cbn [D]. eapply state_unify_sound; eauto.
  - (* conj *) cbn [D]. split; [apply IHSem1; eapply Sem_sat; eauto|apply IHSem2; exact Hs].
  - (* conde *) eapply D_conde; eauto.
  - (* fresh *) cbn [D]. auto.
  - (* call *)
    cbn [D]. destruct (Nat.eqb r rel_append) eqn:Er.
    + apply Nat.eqb_eq in Er. subst r. destruct args as [|a0 [|b0 [|c0 [|? ?]]]]; try exact I.
      cbv [lib_defs find_def rel_append rel_member Nat.eqb] in H. inversion H; subst d. clear H.
      specialize (IHSem th Hs). clear H1.
      revert H0. generalize (st_nextv st). intros m H0.
      vm_compute in H0. inversion H0; subst c nv. clear H0.
      cbn [D app] in IHSem. change (3 =? rel_append) with true in IHSem. cbv iota in IHSem.
      destruct IHSem as [[[E _]|[[E [HA _]]|[]]] _].
      * injection E as E1 E2 E3. rewrite E1, E2, E3. constructor.
      * injection E as E1 E2 E3. rewrite E1, E2, E3. constructor. exact HA.
    + destruct (Nat.eqb r rel_member) eqn:Em; [|exact I].
      apply Nat.eqb_eq in Em. subst r. destruct args as [|x0 [|l0 [|? ?]]]; try exact I.
      cbv [lib_defs find_def rel_append rel_member Nat.eqb] in H. inversion H; subst d. clear H.
      specialize (IHSem th Hs). clear H1.
      revert H0. generalize (st_nextv st). intros m H0.
      vm_compute in H0. inversion H0; subst c nv. clear H0.
      cbn [D app] in IHSem. change (1 =? rel_append) with false in IHSem. change (1 =? rel_member) with true in IHSem. cbv iota in IHSem.
      destruct IHSem as [[[E [Ex _]]|[[E [HM _]]|[]]] _].
      * rewrite E, Ex. constructor.
      * rewrite E. constructor. exact HM.
Qed.

(* ---- what the engine delivers ---- *)
Theorem append_sound : forall kk u n k st a b c s' rest u',
  next lib_defs kk u (start lib_defs n (CCall k rel_append [a; b; c]) st) = NAnswer s' rest u' ->
  forall th, sat th (st_smap s') -> AppendV (app th a) (app th b) (app th c).
Proof.
  intros kk u n k st a b c s' rest u' H th Hs.
  pose proof (next_sound_goal lib_defs _ _ _ _ _ _ _ _ H) as HS.
  exact (Sem_D _ _ _ HS th Hs).
Qed.

Theorem member_sound : forall kk u n k st x l s' rest u',
  next lib_defs kk u (start lib_defs n (CCall k rel_member [x; l]) st) = NAnswer s' rest u' ->
  forall th, sat th (st_smap s') -> MemberV (app th x) (app th l).
Proof.
  intros kk u n k st x l s' rest u' H th Hs.
  pose proof (next_sound_goal lib_defs _ _ _ _ _ _ _ _ H) as HS.
  exact (Sem_D _ _ _ HS th Hs).
Qed.

(* read on lists: if the first two arguments are (under the valuation) the lists xs and ys, the third is xs ++ ys *)
Lemma AppendV_list xs : forall b r, AppendV (list_term xs) b r -> r = fold_right TCons b xs.
Proof.
  induction xs as [|x xs IH]; intros b r H; cbn [list_term fold_right] in *; inversion H; subst; [reflexivity|].
  f_equal. apply IH. assumption.
Qed.
Corollary append_sound_lists : forall kk u n k st a b c s' rest u' th xs ys,
  next lib_defs kk u (start lib_defs n (CCall k rel_append [a; b; c]) st) = NAnswer s' rest u' ->
  sat th (st_smap s') -> app th a = list_term xs -> app th b = list_term ys -> app th c = list_term (xs ++ ys).
Proof.
  intros kk u n k st a b c s' rest u' th xs ys H Hs Ea Eb.
  pose proof (append_sound _ _ _ _ _ _ _ _ _ _ _ H th Hs) as HA. rewrite Ea, Eb in HA.
  rewrite (AppendV_list _ _ _ HA). clear. induction xs as [|x xs IH]; cbn; [reflexivity|]. rewrite IH. reflexivity.
Qed.
Lemma MemberV_list x : forall xs, MemberV x (list_term xs) -> In x xs.
Proof.
  induction xs as [|y ys IH]; cbn [list_term]; intros H; inversion H; subst; [left; reflexivity|right; auto].
Qed.
