(* The concrete engine [start defs (S n)] / [step] instantiates Proofs/StreamProofs.v, and the
   goal-level consequences: what conjunction, disjunction, fresh and the committed-choice
   operators are allowed to deliver, in terms of their sub-goals. *)
From Coq Require Import List Permutation Arith Lia.
From PV Require Import Model.Term Model.State Model.Engine Spec.StreamSem Proofs.StreamProofs.
Import ListNotations.

Section WithDefs.
Variable defs : list (nat * def).

Lemma start_succeed n st : start defs (S n) CSucceed st = SUnit st.
Proof. reflexivity. Qed.
Lemma start_fail n st : start defs (S n) CFail st = SEmpty.
Proof. reflexivity. Qed.

(* the clause streams of a conde are merged last to first, each in front of the delayed rest *)
Definition conde_stream (k : kind) (n : nat) (gs : list cgoal) (st : state) : stream :=
  fold_right (fun c acc => mplus_k k (start defs n c st) (LDelay acc)) SEmpty gs.

Lemma start_conde n k gs st : start defs (S n) (CConde k gs) st = conde_stream k n gs st.
Proof. reflexivity. Qed.
Lemma start_conj n k g1 g2 st :
  start defs (S n) (CConj k g1 g2) st = lazy_bind_k k (pause_k k st g1) g2.
Proof. reflexivity. Qed.
Lemma start_fresh n k g st : start defs (S n) (CFresh k g) st = SLazy (pause_k k st g).
Proof. reflexivity. Qed.

Section Sem.
(* the start function the engine's steps use *)
Variable m : nat.
Let startf := start defs (S m).
Notation ansS := (ansS startf).
Notation ansL := (ansL startf).
Notation ansB := (ansB startf).
Notation inS := (inS startf).

Lemma sf_succeed : forall st, startf CSucceed st = SUnit st.
Proof. reflexivity. Qed.
Lemma sf_fail : forall st, startf CFail st = SEmpty.
Proof. reflexivity. Qed.

(* ------------------------------------------------------------ disjunction *)
(* depth-first: the answers of the clauses, clause by clause, in clause order *)
Lemma conde_dfs_ans n st : forall gs zs,
  ansS (conde_stream DFS n gs st) zs ->
  exists yss, Forall2 (fun c ys => ansS (start defs n c st) ys) gs yss /\ zs = concat yss.
Proof.
  induction gs as [|c gs IH]; intros zs H; cbn [conde_stream fold_right] in H.
  - inversion H; subst. exists []. split; constructor.
  - cbn [mplus_k] in H. apply (mplus_dfs_ans startf) in H as [xs [ys [H1 [H2 ->]]]].
    inversion H2; subst.
    match goal with HS : StreamSem.ansS _ (fold_right _ _ _) _ |- _ => destruct (IH _ HS) as [yss [HF ->]] end.
    exists (xs :: yss). split; [constructor; auto|reflexivity].
Qed.

(* interleaving: a permutation of the clause answers; nothing lost, nothing invented *)
Lemma conde_bfs_ans n st : forall gs zs,
  ansS (conde_stream BFS n gs st) zs ->
  exists yss, Forall2 (fun c ys => ansS (start defs n c st) ys) gs yss /\ Permutation zs (concat yss).
Proof.
  induction gs as [|c gs IH]; intros zs H; cbn [conde_stream fold_right] in H.
  - inversion H; subst. exists []. split; constructor.
  - cbn [mplus_k] in H. apply (mplus_ans startf) in H as [xs [ys [H1 [H2 HP]]]].
    inversion H2; subst.
    match goal with HS : StreamSem.ansS _ (fold_right _ _ _) _ |- _ => destruct (IH _ HS) as [yss [HF HP2]] end.
    exists (xs :: yss). split; [constructor; auto|].
    cbn [concat]. rewrite HP. apply Permutation_app_head. exact HP2.
Qed.

Lemma conde_in k n st : forall gs a,
  inS (conde_stream k n gs st) a -> exists c, In c gs /\ inS (start defs n c st) a.
Proof.
  induction gs as [|c gs IH]; intros a H; cbn [conde_stream fold_right] in H.
  - inversion H.
  - assert (HH : inS (start defs n c st) a \/ inL startf (LDelay (conde_stream k n gs st)) a).
    { destruct k; cbn [mplus_k] in H; [apply (mplus_in startf) in H|apply (mplus_dfs_in startf) in H]; exact H. }
    destruct HH as [HH|HH].
    + exists c. split; [left; auto|auto].
    + inversion HH; subst.
      match goal with HS : StreamSem.inS _ (conde_stream _ _ _ _) _ |- _ => destruct (IH _ HS) as [c' [Hc Hin]] end.
      exists c'. split; [right; auto|auto].
Qed.

(* ------------------------------------------------------------ conjunction *)
(* depth-first: for each answer of g1 in order, the answers of g2 that extend it *)
Lemma conj_dfs_ans n g1 g2 st zs :
  is_fail g2 = false ->
  ansS (start defs (S n) (CConj DFS g1 g2) st) zs ->
  exists xs yss, ansS (startf g1 st) xs /\ ansB g2 xs yss /\ zs = concat yss.
Proof.
  intros Ef H. rewrite start_conj in H. cbn [lazy_bind_k pause_k] in H.
  unfold lazy_bind_dfs in H. destruct (is_succeed g2) eqn:Es.
  - apply is_succeed_eq in Es. subst g2. inversion H as [| |? ? HL|]; subst. inversion HL; subst.
    exists zs, (map (fun x => [x]) zs). split; auto. split; [apply (ansB_succeed startf sf_succeed)|].
    symmetry; apply concat_singletons.
  - rewrite Ef in H. inversion H as [| |? ? HL|]; subst. inversion HL; subst; [|congruence].
    match goal with H1 : StreamSem.ansL _ (LPauseDFS _ _) _ |- _ => inversion H1; subst end.
    eexists _, _. split; [eauto|split; [eauto|reflexivity]].
Qed.

Lemma conj_bfs_ans n g1 g2 st zs :
  is_fail g2 = false ->
  ansS (start defs (S n) (CConj BFS g1 g2) st) zs ->
  exists xs yss, ansS (startf g1 st) xs /\ ansB g2 xs yss /\ Permutation zs (concat yss).
Proof.
  intros Ef H. rewrite start_conj in H. cbn [lazy_bind_k pause_k] in H.
  unfold lazy_bind in H. destruct (is_succeed g2) eqn:Es.
  - apply is_succeed_eq in Es. subst g2. inversion H as [| |? ? HL|]; subst. inversion HL; subst.
    exists zs, (map (fun x => [x]) zs). split; auto. split; [apply (ansB_succeed startf sf_succeed)|].
    rewrite concat_singletons. apply Permutation_refl.
  - rewrite Ef in H. inversion H as [| |? ? HL|]; subst. inversion HL; subst; [|congruence].
    match goal with H1 : StreamSem.ansL _ (LPause _ _) _ |- _ => inversion H1; subst end.
    eexists _, _. split; [eauto|split; [eauto|assumption]].
Qed.

Lemma conj_in n k g1 g2 st a :
  inS (start defs (S n) (CConj k g1 g2) st) a ->
  exists b, inS (startf g1 st) b /\ inS (startf g2 b) a.
Proof.
  intros H. rewrite start_conj in H.
  destruct k; cbn [lazy_bind_k pause_k] in H.
  - unfold lazy_bind in H. destruct (is_succeed g2) eqn:Es.
    + apply is_succeed_eq in Es. subst g2. inversion H as [|? ? HL| |]; subst. inversion HL; subst.
      exists a. split; auto. constructor.
    + destruct (is_fail g2) eqn:Ef; [inversion H|].
      inversion H as [|? ? HL| |]; subst. inversion HL; subst.
      match goal with H1 : StreamSem.inL _ (LPause _ _) _ |- _ => inversion H1; subst end.
      eexists; split; eauto.
  - unfold lazy_bind_dfs in H. destruct (is_succeed g2) eqn:Es.
    + apply is_succeed_eq in Es. subst g2. inversion H as [|? ? HL| |]; subst. inversion HL; subst.
      exists a. split; auto. constructor.
    + destruct (is_fail g2) eqn:Ef; [inversion H|].
      inversion H as [|? ? HL| |]; subst. inversion HL; subst.
      match goal with H1 : StreamSem.inL _ (LPauseDFS _ _) _ |- _ => inversion H1; subst end.
      eexists; split; eauto.
Qed.

(* fresh only delays its body by one step *)
Lemma fresh_ans n k g st zs :
  ansS (start defs (S n) (CFresh k g) st) zs -> ansS (startf g st) zs.
Proof.
  rewrite start_fresh. intros H. inversion H as [| |? ? HL|]; subst.
  destruct k; cbn [pause_k] in HL; inversion HL; subst; auto.
Qed.

End Sem.

(* ------------------------------------------------------------ maturing (Solver::peek / trunc) *)
Section Mature.
Variable startf : cgoal -> state -> stream.
Hypothesis startf_succeed : forall st, startf CSucceed st = SUnit st.
Hypothesis startf_fail : forall st, startf CFail st = SEmpty.

(* maturing takes engine steps without delivering anything: it reaches the stream the same
   micro-steps reach *)
Lemma mature_runs : forall f s s',
  mature (step_with startf) f s = s' -> (forall o p, s' <> SErr o p) ->
  exists n, runs startf n s [] s' /\ (forall l, s' <> SLazy l).
Proof.
  induction f as [|f IH]; intros s s' E NE; cbn [mature] in E.
  - exfalso. eapply NE; eauto.
  - destruct s as [|a|l|a l|o p]; try (subst; exists 0; split; [constructor|discriminate]).
    destruct (IH _ _ E NE) as [n [R NL]]. exists (S n). split; auto.
    eapply R_step; [reflexivity|exact R].
Qed.

(* hence everything the matured stream may deliver is admissible for the original one *)
Lemma mature_ans f s s' zs :
  mature (step_with startf) f s = s' -> (forall o p, s' <> SErr o p) ->
  ansS startf s' zs -> ansS startf s zs.
Proof.
  intros E NE H. destruct (mature_runs _ _ _ E NE) as [n [R _]].
  change zs with ([] ++ zs). eapply (runs_ans startf); eauto.
Qed.

Lemma runs_snoc n s ys s' : runs startf n s ys s' ->
  forall a s'', micro startf s' = Some (Some a, s'') -> runs startf (S n) s (ys ++ [a]) s''.
Proof.
  induction 1 as [s0|n0 s0 b s1 ys0 s2 Em R0 IH|n0 s0 s1 ys0 s2 Em R0 IH]; intros a s'' E.
  - cbn [app]. eapply R_emit; [exact E|constructor].
  - cbn [app]. eapply R_emit; eauto.
  - eapply R_step; eauto.
Qed.

(* the head kept by trunc is the first answer the stream delivers *)
Lemma mature_first f s a :
  (exists l, mature (step_with startf) f s = SCons a l) \/ mature (step_with startf) f s = SUnit a ->
  exists n s', runs startf n s [a] s'.
Proof.
  intros [[l E]|E].
  - destruct (mature_runs _ _ _ E ltac:(discriminate)) as [n [R _]].
    exists (S n), (SLazy l). apply (runs_snoc _ _ _ _ R). reflexivity.
  - destruct (mature_runs _ _ _ E ltac:(discriminate)) as [n [R _]].
    exists (S n), SEmpty. apply (runs_snoc _ _ _ _ R). reflexivity.
Qed.
End Mature.

(* ------------------------------------------------------------ committed choice *)
Lemma start_conda n first rest next st :
  start defs (S n) (CConda first rest next) st =
  match mature (step_with (start defs n)) mfuel (start defs n first st) with
  | SEmpty => start defs n next st
  | SErr o p => SErr o p
  | s => bind s rest
  end.
Proof. reflexivity. Qed.

Lemma start_condu n first rest next st :
  start defs (S n) (CCondu first rest next) st =
  match mature (step_with (start defs n)) mfuel (start defs n first st) with
  | SEmpty => start defs n next st
  | SErr o p => SErr o p
  | s => bind (trunc_of s) rest
  end.
Proof. reflexivity. Qed.


(* ------------------------------------------------------------ the executable driver functions *)
Lemma sfuel_S : sfuel = S (Nat.pred sfuel).
Proof. vm_compute. reflexivity. Qed.

Definition startq := start defs sfuel.

Lemma startq_succeed st : startq CSucceed st = SUnit st.
Proof. unfold startq. rewrite sfuel_S. reflexivity. Qed.
Lemma startq_fail st : startq CFail st = SEmpty.
Proof. unfold startq. rewrite sfuel_S. reflexivity. Qed.

Lemma runs_app n1 s ys s1 : runs startq n1 s ys s1 ->
  forall n2 zs s2, runs startq n2 s1 zs s2 -> runs startq (n1 + n2) s (ys ++ zs) s2.
Proof.
  induction 1 as [s0|n0 s0 b s' ys0 s'' Em R0 IH|n0 s0 s' ys0 s'' Em R0 IH]; intros n2 zs s2 R2; cbn [plus app]; auto.
  - eapply R_emit; eauto.
  - eapply R_step; eauto.
Qed.

(* Solver::next, as the model runs it, is a sequence of micro-steps *)
Lemma next_answer : forall k u s a rest u',
  next defs k u s = NAnswer a rest u' -> exists n, runs startq n s [a] rest.
Proof.
  induction k as [|k IH]; intros u s a rest u' E; destruct s as [|b|l|b l|o p]; cbn [next] in E; try discriminate.
  - inversion E; subst. exists 1. eapply R_emit; [reflexivity|constructor].
  - inversion E; subst. exists 1. eapply R_emit; [reflexivity|constructor].
  - inversion E; subst. exists 1. eapply R_emit; [reflexivity|constructor].
  - destruct (IH _ _ _ _ _ E) as [n R]. exists (S n). eapply R_step; [reflexivity|exact R].
  - inversion E; subst. exists 1. eapply R_emit; [reflexivity|constructor].
Qed.

Lemma next_done : forall k u s u',
  next defs k u s = NDone u' -> exists n, runs startq n s [] SEmpty.
Proof.
  induction k as [|k IH]; intros u s u' E; destruct s as [|b|l|b l|o p]; cbn [next] in E; try discriminate.
  - exists 0. constructor.
  - exists 0. constructor.
  - destruct (IH _ _ _ E) as [n R]. exists (S n). eapply R_step; [reflexivity|exact R].
Qed.

(* run to the end within k micro-steps *)
Fixpoint drain (k : nat) (s : stream) : option (list state) :=
  match k with
  | O => None
  | S k' =>
      match s with
      | SEmpty => Some []
      | SUnit a => Some [a]
      | SCons a l => option_map (cons a) (drain k' (SLazy l))
      | SLazy l => drain k' (step defs l)
      | SErr _ _ => None
      end
  end.

Lemma drain_runs : forall k s ys, drain k s = Some ys -> exists n, runs startq n s ys SEmpty.
Proof.
  induction k as [|k IH]; intros s ys E; [discriminate|]. destruct s as [|a|l|a l|o p]; cbn [drain] in E; try discriminate.
  - inversion E; subst. exists 0. constructor.
  - inversion E; subst. exists 1. eapply R_emit; [reflexivity|constructor].
  - destruct (IH _ _ E) as [n R]. exists (S n). eapply R_step; [reflexivity|exact R].
  - destruct (drain k (SLazy l)) as [zs|] eqn:E2; [|discriminate]. inversion E; subst.
    destruct (IH _ _ E2) as [n R]. exists (S n). eapply R_emit; [reflexivity|exact R].
Qed.

(* ------------------------------------------------------------ committed choice, semantically *)
(* conda: the first clause whose head has an answer is taken; its matured head stream delivers
   exactly what the head delivers (same micro-steps), and is then bound to the rest. *)
Lemma conda_commit n first rest next st s' :
  mature (step_with (start defs n)) mfuel (start defs n first st) = s' ->
  (forall o p, s' <> SErr o p) -> s' <> SEmpty ->
  start defs (S n) (CConda first rest next) st = bind s' rest /\
  exists k, runs (start defs n) k (start defs n first st) [] s'.
Proof.
  intros E NE NEm. rewrite start_conda, E. split.
  - destruct s'; try reflexivity; [congruence|exfalso; eapply NE; eauto].
  - destruct (mature_runs _ _ _ _ E NE) as [k [R _]]. exists k. exact R.
Qed.
Lemma conda_skip n first rest next st :
  mature (step_with (start defs n)) mfuel (start defs n first st) = SEmpty ->
  start defs (S n) (CConda first rest next) st = start defs n next st.
Proof. intros E. rewrite start_conda, E. reflexivity. Qed.

(* condu: as conda, but only the first answer the head delivers is kept *)
Lemma condu_commit n first rest next st s' :
  mature (step_with (start defs n)) mfuel (start defs n first st) = s' ->
  (forall o p, s' <> SErr o p) -> s' <> SEmpty ->
  exists a, start defs (S n) (CCondu first rest next) st = bind (SUnit a) rest /\
            exists k s'', runs (start defs n) k (start defs n first st) [a] s''.
Proof.
  intros E NE NEm. rewrite start_condu, E.
  destruct (mature_runs _ _ _ _ E NE) as [k [R NL]].
  destruct s' as [|a|l|a l|o p].
  - congruence.
  - exists a. split; [reflexivity|]. apply (mature_first (start defs n) mfuel _ a). right; exact E.
  - exfalso. eapply NL; eauto.
  - exists a. split; [reflexivity|]. apply (mature_first (start defs n) mfuel _ a). left; eauto.
  - exfalso. eapply NE; eauto.
Qed.
Lemma condu_skip n first rest next st :
  mature (step_with (start defs n)) mfuel (start defs n first st) = SEmpty ->
  start defs (S n) (CCondu first rest next) st = start defs n next st.
Proof. intros E. rewrite start_condu, E. reflexivity. Qed.

(* onceo { g } : nothing if g has no answer, otherwise exactly its first answer *)
Lemma onceo_spec n g st :
  let g' := from_conjs BFS [[g]] in
  let s' := mature (step_with (start defs (S n))) mfuel (start defs (S n) g' st) in
  (forall o p, s' <> SErr o p) ->
  (s' = SEmpty /\ start defs (S (S n)) (onceo_from [[g]]) st = SEmpty) \/
  (exists a, start defs (S (S n)) (onceo_from [[g]]) st = SUnit a /\
             exists k s'', runs (start defs (S n)) k (start defs (S n) g' st) [a] s'').
Proof.
  intros g' s' NE. unfold onceo_from. cbn [condu_from from_array fold_right].
  change (from_conjs BFS [[g]]) with g'.
  destruct s' as [|a|l|a l|o p] eqn:Es'.
  - left. split; auto. rewrite (condu_skip (S n) g' CSucceed CFail st Es'). reflexivity.
  - right. destruct (condu_commit (S n) g' CSucceed CFail st _ Es') as [b [Eb Hb]]; [intros; discriminate|discriminate|].
    exists b. split; auto.
  - exfalso. unfold s' in Es'.
    destruct (mature_runs _ _ _ _ Es' ltac:(intros; discriminate)) as [k [_ NL]]. eapply NL; eauto.
  - right. destruct (condu_commit (S n) g' CSucceed CFail st _ Es') as [b [Eb Hb]]; [intros; discriminate|discriminate|].
    exists b. split; auto.
  - exfalso. eapply NE; eauto.
Qed.

End WithDefs.
