(* Scoping (C15, C03): every variable that goal construction puts into a goal object is either taken
   from the environment or newly drawn from the counter, so everything built from an environment
   whose terms are below the counter is below the counter that is returned.  The new variables of a
   fresh block, a pattern, a wildcard are >= the counter they were drawn from: they are different
   from every variable of the environment, of the goal around them and (with ScopeState) of the state. *)
From Coq Require Import List ZArith Bool Arith Lia.
From PV Require Import Model.Term Model.Subst Model.Unify Model.FD Model.State Model.Engine Proofs.ElabAll Proofs.ElabProofs.
Import ListNotations.

Definition tb (n : nat) (t : term) : Prop := forall v, In v (tvars t) -> v < n.
Definition tsb (n : nat) (ts : terms) : Prop := forall v, In v (tsvars ts) -> v < n.
Definition envb (n : nat) (rho : env) : Prop := forall x t, In (x, t) rho -> tb n t.
Definition cb (n : nat) (c : constraint) : Prop :=
  match c with
  | KDiseq ps => forall x t, In (x, t) ps -> x < n /\ tb n t
  | KLte u v | KDiseqFd u v => tb n u /\ tb n v
  | KPlus u v w | KMinus u v w | KTimes u v w | KPlusZ u v w | KTimesZ u v w => tb n u /\ tb n v /\ tb n w
  | KDistinct u => tb n u
  | KDistinct2 u ys _ => tb n u /\ Forall (tb n) ys
  end.
Definition Agb (n : nat) (g : cgoal) : Prop :=
  match g with
  | CEq u v | CDiseq u v | CSq u v => tb n u /\ tb n v
  | CClosure _ rho _ | CProject _ rho _ _ => envb n rho
  | CCall _ _ args => Forall (tb n) args
  | CEveryg _ rho _ elems _ => envb n rho /\ Forall (tb n) elems
  | CDom x _ | CForceAns x | CReify x => tb n x
  | CPost c => cb n c
  | _ => True
  end.
Definition gb (n : nat) : cgoal -> Prop := gall (Agb n).

Lemma tb_mono n m t : n <= m -> tb n t -> tb m t.
Proof. intros L H v Hv. specialize (H v Hv). lia. Qed.
Lemma tb_cons n h t : tb n (TCons h t) <-> tb n h /\ tb n t.
Proof.
  unfold tb. cbn [tvars]. split.
  - intros H. split; intros v Hv; apply H; apply in_or_app; auto.
  - intros [H1 H2] v Hv. apply in_app_or in Hv as [Hv|Hv]; auto.
Qed.
Lemma tb_comp n g cs : tb n (TComp g cs) <-> tsb n cs.
Proof. reflexivity. Qed.
Lemma tsb_more n t r : tsb n (TMore t r) <-> tb n t /\ tsb n r.
Proof.
  unfold tb, tsb. cbn [tsvars]. split.
  - intros H. split; intros v Hv; apply H; apply in_or_app; auto.
  - intros [H1 H2] v Hv. apply in_app_or in Hv as [Hv|Hv]; auto.
Qed.
Lemma tb_val n l : tb n (TVal l). Proof. intros v []. Qed.
Lemma tb_empty n : tb n TEmpty. Proof. intros v []. Qed.
Lemma tb_var n v a : tb n (TVar v a) <-> v < n.
Proof. unfold tb. cbn [tvars In]. split; [intros H; apply H; auto|intros H w [<-|[]]; exact H]. Qed.
Lemma envb_mono n m rho : n <= m -> envb n rho -> envb m rho.
Proof. intros L H x t Hin. eapply tb_mono; [exact L|eapply H; eauto]. Qed.
Lemma Forall_tb_mono n m l : n <= m -> Forall (tb n) l -> Forall (tb m) l.
Proof. intros L H. eapply Forall_impl; [|exact H]. intros t. apply tb_mono, L. Qed.
Lemma cb_mono n m c : n <= m -> cb n c -> cb m c.
Proof.
  intros L. destruct c; cbn [cb]; try (intros [A [B C]]; repeat split; eapply tb_mono; eauto); try (intros [A B]; split; eapply tb_mono; eauto).
  - intros H x t Hin. destruct (H x t Hin). split; [lia|eapply tb_mono; eauto].
  - apply tb_mono, L.
  - intros [A B]. split; [eapply tb_mono; eauto|eapply Forall_tb_mono; eauto].
Qed.
Lemma Agb_mono n m g : n <= m -> Agb n g -> Agb m g.
Proof.
  intros L. destruct g; cbn [Agb]; auto; try (intros [A B]; split; eapply tb_mono; eauto); try (apply tb_mono, L); try (apply envb_mono, L).
  - apply Forall_tb_mono, L.
  - intros [A B]. split; [eapply envb_mono; eauto|eapply Forall_tb_mono; eauto].
  - apply cb_mono, L.
Qed.
Lemma gall_impl (A B : cgoal -> Prop) : (forall g, A g -> B g) -> forall g, gall A g -> gall B g.
Proof.
  intros HAB. fix IH 1. intros g. destruct g; cbn [gall]; try apply HAB.
  - intros [H1 H2]. split; apply IH; assumption.
  - induction gs as [|c r IHr]; [auto|]. intros [H1 H2]. split; [apply IH, H1|apply IHr, H2].
  - apply IH.
  - intros [H1 [H2 H3]]. repeat split; apply IH; assumption.
  - intros [H1 [H2 H3]]. repeat split; apply IH; assumption.
  - apply IH.
Qed.
Lemma gb_mono n m g : n <= m -> gb n g -> gb m g.
Proof. intros L. apply gall_impl. intros g0. apply Agb_mono, L. Qed.
Lemma Forall_gb_mono n m l : n <= m -> Forall (gb n) l -> Forall (gb m) l.
Proof. intros L H. eapply Forall_impl; [|exact H]. intros t. apply gb_mono, L. Qed.

(* ------------------------------------------------------------------ the goal constructors *)
Section Struct.
Variable A : cgoal -> Prop.
Hypothesis A_succeed : A CSucceed.
Hypothesis A_fail : A CFail.
Notation gall := (gall A).
Lemma s_conj_new k a b : gall a -> gall b -> gall (conj_new k a b).
Proof.
  intros Ha Hb. unfold conj_new. destruct (is_succeed a && is_succeed b); [exact A_succeed|].
  destruct (is_fail a || is_fail b); [exact A_fail|]. split; assumption.
Qed.
Lemma s_from_array k cs : Forall gall cs -> gall (from_array k cs).
Proof. induction 1; cbn; [exact A_succeed|]. apply s_conj_new; assumption. Qed.
Lemma s_from_conjs k css : Forall (Forall gall) css -> gall (from_conjs k css).
Proof. unfold from_conjs. induction 1; cbn; [exact A_succeed|]. apply s_conj_new; [apply s_from_array; assumption|assumption]. Qed.
Lemma s_from_iter k cs : Forall gall cs -> gall (from_iter k cs).
Proof.
  unfold from_iter. assert (H0 : gall CSucceed) by exact A_succeed. revert H0. generalize CSucceed. induction cs as [|c r IH]; intros acc Ha H; [exact Ha|].
  inversion H; subst. cbn [fold_left]. apply IH; [apply s_conj_new; assumption|assumption].
Qed.
Lemma s_conde_from k css : Forall (Forall gall) css -> gall (conde_from k css).
Proof. intros H. unfold conde_from. apply gall_conde. induction H; cbn; constructor; [apply s_from_array; assumption|assumption]. Qed.
Lemma s_conda_from css : Forall (Forall gall) css -> gall (conda_from css).
Proof.
  induction 1 as [|cs r Hc Hr IH]; cbn; [exact A_fail|]. destruct cs as [|f rest]; [exact IH|].
  inversion Hc; subst. cbn. repeat split; [assumption|apply s_from_array; assumption|exact IH].
Qed.
Lemma s_condu_from css : Forall (Forall gall) css -> gall (condu_from css).
Proof.
  induction 1 as [|cs r Hc Hr IH]; cbn; [exact A_fail|]. destruct cs as [|f rest]; [exact IH|].
  inversion Hc; subst. cbn. repeat split; [assumption|apply s_from_array; assumption|exact IH].
Qed.
Lemma s_onceo_from css : Forall (Forall gall) css -> gall (onceo_from css).
Proof. intros H. unfold onceo_from. apply s_condu_from. repeat constructor. apply s_from_conjs, H. Qed.
Lemma s_anyo_from css : Forall (Forall gall) css -> gall (anyo_from css).
Proof. intros H. unfold anyo_from. cbn. apply s_from_conjs, H. Qed.
End Struct.

(* ------------------------------------------------------------------ term construction *)
Lemma env_lookup_in x rho t : env_lookup x rho = Some t -> In (x, t) rho.
Proof.
  induction rho as [|[y u] r IH]; cbn [env_lookup]; [discriminate|]. destruct (Nat.eqb_spec y x) as [E|E].
  - intros H. inversion H; subst. left; reflexivity.
  - intros H. right. apply IH, H.
Qed.
Lemma elab_term_scope :
  (forall t rho n t' n', elab_term rho t n = (t', n') -> envb n rho -> n <= n' /\ tb n' t') /\
  (forall ts rho n ts' n', elab_terms rho ts n = (ts', n') -> envb n rho -> n <= n' /\ tsb n' ts').
Proof.
  apply term_terms_ind.
  - intros l rho n t' n' H _. inversion H; subst. split; [lia|apply tb_val].
  - intros v a rho n t' n' H He. cbn [elab_term] in H. destruct a; inversion H; subst.
    + split; [lia|]. apply tb_var. lia.
    + split; [lia|]. destruct (env_lookup v rho) as [w|] eqn:El; [|apply tb_val]. apply (He v w). apply env_lookup_in, El.
  - intros rho n t' n' H _. inversion H; subst. split; [lia|apply tb_empty].
  - intros h IHh t IHt rho n t' n' H He. cbn [elab_term] in H.
    destruct (elab_term rho h n) as [h' n1] eqn:E1. destruct (elab_term rho t n1) as [t2 n2] eqn:E2. inversion H; subst.
    destruct (IHh _ _ _ _ E1 He) as [L1 B1]. destruct (IHt _ _ _ _ E2 (envb_mono _ _ _ L1 He)) as [L2 B2].
    split; [lia|]. apply tb_cons. split; [eapply tb_mono; eauto|exact B2].
  - intros g cs IH rho n t' n' H He. cbn [elab_term] in H. destruct (elab_terms rho cs n) as [cs' n1] eqn:E1. inversion H; subst.
    destruct (IH _ _ _ _ E1 He) as [L B]. split; [exact L|]. apply tb_comp. exact B.
  - intros rho n ts' n' H _. inversion H; subst. split; [lia|intros v []].
  - intros t IHt r IHr rho n ts' n' H He. cbn [elab_terms] in H.
    destruct (elab_term rho t n) as [t' n1] eqn:E1. destruct (elab_terms rho r n1) as [r' n2] eqn:E2. inversion H; subst.
    destruct (IHt _ _ _ _ E1 He) as [L1 B1]. destruct (IHr _ _ _ _ E2 (envb_mono _ _ _ L1 He)) as [L2 B2].
    split; [lia|]. apply tsb_more. split; [eapply tb_mono; eauto|exact B2].
Qed.
Lemma elab_term_list_scope rho : forall ts n ts' n', elab_term_list rho ts n = (ts', n') -> envb n rho -> n <= n' /\ Forall (tb n') ts'.
Proof.
  induction ts as [|t r IH]; intros n ts' n' H He; cbn [elab_term_list] in H.
  - inversion H; subst. split; [lia|constructor].
  - destruct (elab_term rho t n) as [t' n1] eqn:E1. destruct (elab_term_list rho r n1) as [r' n2] eqn:E2. inversion H; subst.
    destruct (proj1 elab_term_scope _ _ _ _ _ E1 He) as [L1 B1]. destruct (IH _ _ _ E2 (envb_mono _ _ _ L1 He)) as [L2 B2].
    split; [lia|]. constructor; [eapply tb_mono; eauto|exact B2].
Qed.
Lemma bind_fresh_scope : forall xs rho n rho' n', bind_fresh xs rho n = (rho', n') -> envb n rho -> n <= n' /\ envb n' rho'.
Proof.
  induction xs as [|x r IH]; intros rho n rho' n' H He; cbn [bind_fresh] in H.
  - inversion H; subst. split; [lia|exact He].
  - destruct (IH _ _ _ _ H) as [L B].
    + intros y t [Hin|Hin]; [inversion Hin; subst; apply tb_var; lia|]. eapply tb_mono; [|eapply He; eauto]. lia.
    + split; [lia|exact B].
Qed.
Lemma list_of_term_tb n t : tb n t -> Forall (tb n) (list_of_term t).
Proof.
  induction t as [l|v a| |h IHh tl IHt|g cs]; intros H; cbn [list_of_term]; try (constructor; [exact H|constructor]); [constructor|].
  apply tb_cons in H as [H1 H2]. constructor; [exact H1|apply IHt, H2].
Qed.
Lemma nth_term_tb n i l : Forall (tb n) l -> tb n (nth_term i l).
Proof.
  unfold nth_term. revert i. induction l as [|t r IH]; intros i H; destruct i; cbn [nth]; try apply tb_empty.
  - inversion H; assumption.
  - inversion H; subst. apply IH. assumption.
Qed.
Lemma rel_goal_gb n k r a : Forall (tb n) a -> gb n (rel_goal k r a).
Proof.
  intros H. pose proof (nth_term_tb n 0 a H) as H0. pose proof (nth_term_tb n 1 a H) as H1. pose proof (nth_term_tb n 2 a H) as H2.
  destruct r; cbn [rel_goal rel_constraint]; cbn; auto.
Qed.

(* ------------------------------------------------------------------ goal construction is well scoped *)
Section Elab.
Variable defs : list (nat * def).

Definition scoped (r : cgoal * nat) (n : nat) : Prop := n <= snd r /\ gb (snd r) (fst r).

Lemma elab_scope : forall f k rho g n, envb n rho -> scoped (elab defs f k rho g n) n.
Proof.
  induction f as [|f IH]; intros k rho g n He; [split; cbn; [lia|exact I]|].
  assert (Hel : forall gs k rho n, envb n rho ->
     let r := (fix el (k : kind) (rho : env) (gs : list goal) (n : nat) : list cgoal * nat :=
      match gs with
      | [] => ([], n)
      | g :: r => let '(c, n1) := elab defs f k rho g n in let '(cs, n2) := el k rho r n1 in (c :: cs, n2)
      end) k rho gs n in n <= snd r /\ Forall (gb (snd r)) (fst r)).
  { induction gs as [|g0 r IHr]; intros k0 rho0 n0 He0; [split; cbn; [lia|constructor]|].
    cbn zeta. pose proof (IH k0 rho0 g0 n0 He0) as [L1 B1]. destruct (elab defs f k0 rho0 g0 n0) as [c n1]. cbn [fst snd] in *.
    specialize (IHr k0 rho0 n1 (envb_mono _ _ _ L1 He0)). cbn zeta in IHr.
    match goal with |- context [let '(cs, n2) := ?X in _] => destruct X as [cs n2] end. cbn [fst snd] in *. destruct IHr as [L2 B2].
    split; [lia|]. constructor; [eapply gb_mono; eauto|exact B2]. }
  assert (Hell : forall css k rho n, envb n rho ->
     let r := (fix ell (k : kind) (rho : env) (css : list (list goal)) (n : nat) : list (list cgoal) * nat :=
      match css with
      | [] => ([], n)
      | gs :: r =>
          let '(c, n1) := (fix el (k : kind) (rho : env) (gs : list goal) (n : nat) : list cgoal * nat :=
             match gs with
             | [] => ([], n)
             | g :: r => let '(c, n1) := elab defs f k rho g n in let '(cs, n2) := el k rho r n1 in (c :: cs, n2)
             end) k rho gs n in
          let '(cs, n2) := ell k rho r n1 in (c :: cs, n2)
      end) k rho css n in n <= snd r /\ Forall (Forall (gb (snd r))) (fst r)).
  { induction css as [|gs r IHr]; intros k0 rho0 n0 He0; [split; cbn; [lia|constructor]|].
    cbn zeta. pose proof (Hel gs k0 rho0 n0 He0) as Hc. cbn zeta in Hc.
    match goal with |- context [let '(c, n1) := ?X in _] => destruct X as [c n1] end. cbn [fst snd] in *. destruct Hc as [L1 B1].
    specialize (IHr k0 rho0 n1 (envb_mono _ _ _ L1 He0)). cbn zeta in IHr.
    match goal with |- context [let '(cs, n2) := ?X in _] => destruct X as [cs n2] end. cbn [fst snd] in *. destruct IHr as [L2 B2].
    split; [lia|]. constructor; [eapply Forall_gb_mono; eauto|exact B2]. }
  unfold scoped.
  destruct g as [| |u v|u v|gs|xs gs|css|css|css|css|css|css|gs|r args|mk t arms|x coll css|xs gs|x d|r args|tag|u v]; cbn [elab].
  - split; cbn; [lia|exact I].
  - split; cbn; [lia|exact I].
  - destruct (elab_term rho u n) as [u' n1] eqn:E1. destruct (elab_term rho v n1) as [v' n2] eqn:E2.
    destruct (proj1 elab_term_scope _ _ _ _ _ E1 He) as [L1 B1]. destruct (proj1 elab_term_scope _ _ _ _ _ E2 (envb_mono _ _ _ L1 He)) as [L2 B2].
    cbn. split; [lia|]. split; [eapply tb_mono; eauto|exact B2].
  - destruct (elab_term rho u n) as [u' n1] eqn:E1. destruct (elab_term rho v n1) as [v' n2] eqn:E2.
    destruct (proj1 elab_term_scope _ _ _ _ _ E1 He) as [L1 B1]. destruct (proj1 elab_term_scope _ _ _ _ _ E2 (envb_mono _ _ _ L1 He)) as [L2 B2].
    cbn. split; [lia|]. split; [eapply tb_mono; eauto|exact B2].
  - pose proof (Hel gs k rho n He) as H. cbn zeta in H. match goal with |- context [let '(cs, n1) := ?X in _] => destruct X as [cs n1] end.
    cbn [fst snd] in *. destruct H as [L B]. split; [exact L|]. apply (s_from_array (Agb n1) I I), B.
  - destruct (bind_fresh xs rho n) as [rho' n1] eqn:Eb. destruct (bind_fresh_scope _ _ _ _ _ Eb He) as [L1 He1].
    pose proof (Hel gs k rho' n1 He1) as H. cbn zeta in H.
    match goal with |- context [let '(cs, n2) := ?X in _] => destruct X as [cs n2] end. cbn [fst snd] in *. destruct H as [L B].
    split; [lia|]. cbn. apply (s_from_array (Agb n2) I I), B.
  - pose proof (Hell css k rho n He) as H. cbn zeta in H. match goal with |- context [let '(cs, n1) := ?X in _] => destruct X as [cs n1] end.
    cbn [fst snd] in *. destruct H as [L B]. split; [exact L|]. apply (s_conde_from (Agb n1) I I), B.
  - pose proof (Hell css BFS rho n He) as H. cbn zeta in H. match goal with |- context [let '(cs, n1) := ?X in _] => destruct X as [cs n1] end.
    cbn [fst snd] in *. destruct H as [L B]. split; [exact L|]. apply (s_conda_from (Agb n1) I I), B.
  - pose proof (Hell css BFS rho n He) as H. cbn zeta in H. match goal with |- context [let '(cs, n1) := ?X in _] => destruct X as [cs n1] end.
    cbn [fst snd] in *. destruct H as [L B]. split; [exact L|]. apply (s_condu_from (Agb n1) I I), B.
  - pose proof (Hell css BFS rho n He) as H. cbn zeta in H. match goal with |- context [let '(cs, n1) := ?X in _] => destruct X as [cs n1] end.
    cbn [fst snd] in *. destruct H as [L B]. split; [exact L|]. apply (s_onceo_from (Agb n1) I I), B.
  - pose proof (Hell css BFS rho n He) as H. cbn zeta in H. match goal with |- context [let '(cs, n1) := ?X in _] => destruct X as [cs n1] end.
    cbn [fst snd] in *. destruct H as [L B]. split; [exact L|]. apply (s_anyo_from (Agb n1) I I), B.
  - pose proof (Hell css DFS rho n He) as H. cbn zeta in H. match goal with |- context [let '(cs, n1) := ?X in _] => destruct X as [cs n1] end.
    cbn [fst snd] in *. destruct H as [L B]. split; [exact L|]. apply (s_from_conjs (Agb n1) I I), B.
  - split; cbn; [lia|exact He].
  - destruct (elab_term_list rho args n) as [args' n1] eqn:Ea. destruct (elab_term_list_scope _ _ _ _ _ Ea He) as [L B].
    destruct (find_def r defs) as [d|] eqn:Ed; [|split; cbn; [exact L|exact I]].
    destruct (d_closure d); [split; cbn; [exact L|exact B]|].
    assert (He1 : envb n1 (combine (d_params d) args')).
    { intros y t Hin. apply in_combine_r in Hin. rewrite Forall_forall in B. apply B, Hin. }
    destruct (IH k (combine (d_params d) args') (d_body d) n1 He1) as [L2 B2]. split; [lia|exact B2].
  - match goal with |- context [let '(cs, n1) := ?F arms n in _] =>
      assert (H : forall n0, n <= n0 -> n0 <= snd (F arms n0) /\ Forall (Forall (gb (snd (F arms n0)))) (fst (F arms n0))) end.
    { assert (HeM : forall m, n <= m -> envb m rho) by (intros m Lm; eapply envb_mono; eauto).
      clear He. induction arms as [|[pats body] r IHr]; intros n0 L0; [split; cbn; [lia|constructor]|].
      match goal with |- context [let '(a, n1) := ?G pats n0 in _] =>
        assert (Ha : forall m, n <= m -> m <= snd (G pats m) /\ Forall (Forall (gb (snd (G pats m)))) (fst (G pats m))) end.
      { clear IHr. induction pats as [|p pr IHp]; intros m Lm; [split; cbn; [lia|constructor]|].
        cbn. destruct (elab_term rho t m) as [t' m0] eqn:Et. destruct (proj1 elab_term_scope _ _ _ _ _ Et (HeM m Lm)) as [Lt Bt].
        destruct (bind_fresh (nodup_nat (pat_names p)) rho m0) as [rho' m1] eqn:Eb.
        destruct (bind_fresh_scope _ _ _ _ _ Eb (HeM m0 ltac:(lia))) as [Lb He1].
        destruct (elab_term rho' p m1) as [p' m2] eqn:Ep. destruct (proj1 elab_term_scope _ _ _ _ _ Ep He1) as [Lp Bp].
        pose proof (Hel body k rho' m2 (envb_mono _ _ _ Lp He1)) as Hb. cbn zeta in Hb.
        match goal with |- context [let '(cs, n3) := ?X in _] => destruct X as [cs m3] end. cbn [fst snd] in Hb. destruct Hb as [L3 B3].
        specialize (IHp m3 ltac:(lia)).
        match goal with |- context [let '(rest, n4) := ?X in _] => destruct X as [rest m4] end. cbn [fst snd] in *. destruct IHp as [L4 B4].
        split; [lia|]. constructor; [|exact B4]. constructor.
        - cbn. split; [eapply tb_mono; [|exact Bt]; lia|eapply tb_mono; [|exact Bp]; lia].
        - eapply Forall_gb_mono; [|exact B3]. lia. }
      cbn. specialize (Ha n0 L0).
      match goal with |- context [let '(a, n1) := ?X in _] => destruct X as [a n1] end. cbn [fst snd] in Ha. destruct Ha as [La Ba].
      specialize (IHr n1 ltac:(lia)).
      match goal with |- context [let '(b, n2) := ?X in _] => destruct X as [b n2] end. cbn [fst snd] in *. destruct IHr as [Lb Bb].
      split; [lia|]. apply Forall_app. split; [eapply Forall_impl; [|exact Ba]; intros l; apply Forall_gb_mono; lia|exact Bb]. }
    specialize (H n (Nat.le_refl n)).
    match goal with |- context [let '(cs, n1) := ?X in _] => destruct X as [cs n1] end. cbn [fst snd] in *. destruct H as [L B].
    split; [destruct mk; exact L|]. destruct mk; cbn [fst]; [apply (s_conde_from (Agb n1) I I)|apply (s_conda_from (Agb n1) I I)|apply (s_condu_from (Agb n1) I I)]; exact B.
  - destruct (elab_term rho coll n) as [c' n1] eqn:E1. destruct (proj1 elab_term_scope _ _ _ _ _ E1 He) as [L1 B1].
    split; cbn; [exact L1|]. split; [eapply envb_mono; eauto|apply list_of_term_tb, B1].
  - split; cbn; [lia|exact He].
  - destruct (elab_term rho x n) as [x' n1] eqn:E1. destruct (proj1 elab_term_scope _ _ _ _ _ E1 He) as [L1 B1].
    split; cbn [fst snd]; [exact L1|]. destruct (is_list_term x'); [|exact B1].
    apply (s_from_array (Agb n1) I I). apply Forall_forall. intros c Hc. apply in_map_iff in Hc as [v [<- Hv]].
    pose proof (list_of_term_tb n1 x' B1) as HF. rewrite Forall_forall in HF. apply HF, Hv.
  - destruct (elab_term_list rho args n) as [a n1] eqn:Ea. destruct (elab_term_list_scope _ _ _ _ _ Ea He) as [L B].
    split; cbn [fst snd]; [exact L|].
    destruct r; try apply (rel_goal_gb n1 k _ a B); (destruct (forallb var_or_number a); [apply (rel_goal_gb n1 k _ a B)|exact I]).
  - split; cbn; [lia|exact I].
  - destruct (elab_term rho u n) as [u' n1] eqn:E1. destruct (elab_term rho v n1) as [v' n2] eqn:E2.
    destruct (proj1 elab_term_scope _ _ _ _ _ E1 He) as [L1 B1]. destruct (proj1 elab_term_scope _ _ _ _ _ E2 (envb_mono _ _ _ L1 He)) as [L2 B2].
    cbn. split; [lia|]. split; [eapply tb_mono; eauto|exact B2].
Qed.
End Elab.
