(* Labeling loses no solution (C17): force_ans(x) - the goal that enumerates the values of every domain
   variable reachable from x through lists and compound terms - started in a state that a valuation th
   solves, delivers (among its answers) a state that th still solves.  Recursion is on the size of the
   finite term th gives x. *)
From Coq Require Import List ZArith Bool Arith Lia.
From PV Require Import Model.Term Model.Subst Model.Unify Model.FD Model.State Model.Engine Spec.StreamSem
  Proofs.FDProofs Proofs.UnifyProofs Proofs.DiseqProofs Proofs.MonoProofs Proofs.StreamProofs Proofs.EngineProofs Proofs.SemProofs
  Proofs.DenProofs Proofs.Acyc Proofs.AcycState Proofs.FDDen Proofs.FDComp Proofs.FrameProofs
  Proofs.FDEq Proofs.FDProg Proofs.PureElab Proofs.FairProofs Proofs.Complete0.
Import ListNotations.
Local Open Scope nat_scope.

Section Force.
Variable defs : list (nat * def).
Notation inSe := (inSe defs).
Notation inLe := (inLe defs).
Notation sq := (startq defs).

Definition Good3 (th : val) (a : state) : Prop := MstG th a /\ GoodS a.

(* a conjunction of goals each of which keeps a solved state solved *)
Lemma array_complete th (P : cgoal -> Prop) :
  (forall g st, P g -> Good3 th st -> exists a, Good3 th a /\ forall n, inSe (start defs n g st) a) ->
  forall gs st, Forall P gs -> Good3 th st ->
  exists a, Good3 th a /\ forall n, inSe (start defs n (from_array BFS gs) st) a.
Proof.
  intros HP. induction gs as [|g r IH]; intros st HF G; cbn [from_array fold_right].
  - exists st. split; [exact G|]. intros n. destruct n; [apply ISe_err|]. cbn [start]. apply ISe_unit.
  - inversion HF as [|? ? Hg Hr]; subst. destruct (HP g st Hg G) as [a1 [G1 I1]]. destruct (IH a1 Hr G1) as [a2 [G2 I2]].
    exists a2. split; [exact G2|]. intros n. change (fold_right (conj_new BFS) CSucceed r) with (from_array BFS r).
    unfold conj_new. destruct (is_succeed g && is_succeed (from_array BFS r)) eqn:E1.
    + apply andb_prop in E1 as [Eg Er]. apply is_succeed_eq in Eg. apply is_succeed_eq in Er. subst g. rewrite Er in I2.
      specialize (I1 (S O)). cbn [start] in I1. inversion I1; subst. specialize (I2 (S O)). cbn [start] in I2. inversion I2; subst.
      destruct n; [apply ISe_err|]. cbn [start]. apply ISe_unit.
    + destruct (is_fail g || is_fail (from_array BFS r)) eqn:E2.
      * apply orb_prop in E2 as [Ef|Ef]; apply is_fail_eq in Ef.
        -- subst g. specialize (I1 (S O)). cbn [start] in I1. inversion I1.
        -- rewrite Ef in I2. specialize (I2 (S O)). cbn [start] in I2. inversion I2.
      * destruct n; [apply ISe_err|]. cbn [start lazy_bind_k pause_k]. unfold lazy_bind.
        destruct (is_succeed (from_array BFS r)) eqn:Es.
        -- apply is_succeed_eq in Es. rewrite Es in I2. specialize (I2 (S O)). cbn [start] in I2. inversion I2; subst.
           apply ISe_lazy, ILe_pause. apply I1.
        -- destruct (is_fail (from_array BFS r)) eqn:Ef; [rewrite orb_true_r in E2; discriminate|].
           apply ISe_lazy. eapply ILe_bind; [apply ILe_pause, I1|apply I2].
Qed.

Lemma flat_children_size th : forall cs t, In t (flat_children cs) -> tsize (app th t) < S (tssize (apps th cs)).
Proof.
  fix IH 1. intros cs. destruct cs as [|c r]; intros t Hin; cbn [flat_children] in Hin; [destruct Hin|].
  cbn [apps tssize]. apply in_app_or in Hin as [Hin|Hin].
  - destruct c as [l|v a| |h tl|g cs']; try (destruct Hin as [<-|[]]; cbn [app tsize]; lia).
    destruct (Nat.eqb g opt_tag).
    + specialize (IH cs' t Hin). cbn [app tsize]. lia.
    + destruct Hin as [<-|[]]. lia.
  - specialize (IH r t Hin). lia.
Qed.

Theorem force_complete th : forall n x st, tsize (app th x) <= n -> Good3 th st ->
  exists a, Good3 th a /\ forall fuel, inSe (start defs fuel (CForceAns x) st) a.
Proof.
  induction n as [|n IH]; intros x st Hsz G.
  - destruct (app th x); cbn in Hsz; lia.
  - destruct G as [HM HG]. pose proof (proj1 HM) as Hs. pose proof (wk_sat th _ x Hs) as Ew.
    destruct (wk (st_smap st) x) as [l|v any| |h tl|g cs] eqn:Ex.
    + exists st. split; [split; assumption|]. intros fuel. destruct fuel; [apply ISe_err|]. cbn [start]. rewrite Ex. apply ISe_unit.
    + destruct (dom_get st (TVar v any)) as [d|] eqn:Ed.
      * cbn [dom_get] in Ed. pose proof (find_id_in _ _ _ Ed) as Hin.
        destruct (proj2 (proj2 HM) v d Hin) as [z [Hz Mz]].
        assert (Wd : wf_fd d) by (eapply wf'_mem; [apply (proj2 HG v d Hin)|exact Mz]).
        assert (Iz : In z (fd_iter_rev d)) by (apply (proj2 (iter_rev_spec d Wd)), Mz).
        destruct (op_case defs (fun th => app th (tnum z) = app th (TVar v any)) st (state_unify st (tnum z) (TVar v any)) th
                    (state_unify_C st (tnum z) (TVar v any) (proj1 HG) (proj2 HG)) HM) as [a [A1 [A2 A3]]].
        { cbn [app]. symmetry. exact Hz. }
        { exact HG. }
        { intros st' E. apply (state_unify_ref st _ _ st' HG E). }
        exists a. split; [split; assumption|]. intros fuel. destruct fuel; [apply ISe_err|]. cbn [start]. rewrite Ex. cbn [dom_get]. rewrite Ed.
        assert (K : forall l acc, (In z l -> inSe (fold_left (fun acc z => mplus (sres_stream (state_unify st (tnum z) (TVar v any))) (LDelay acc)) l acc) a) /\
                                  (inSe acc a -> inSe (fold_left (fun acc z => mplus (sres_stream (state_unify st (tnum z) (TVar v any))) (LDelay acc)) l acc) a)).
        { induction l as [|z0 r IHr]; intros acc; cbn [fold_left]; [split; [intros []|auto]|].
          destruct (IHr (mplus (sres_stream (state_unify st (tnum z0) (TVar v any))) (LDelay acc))) as [I1 I2]. split.
          - intros [->|Hi]; [|apply I1, Hi]. apply I2. apply mplus_e_l. exact A3.
          - intros Ha. apply I2. apply mplus_e_r, ILe_delay, Ha. }
        apply (proj1 (K _ SEmpty) Iz).
      * exists st. split; [split; assumption|]. intros fuel. destruct fuel; [apply ISe_err|]. cbn [start]. rewrite Ex, Ed. apply ISe_unit.
    + exists st. split; [split; assumption|]. intros fuel. destruct fuel; [apply ISe_err|]. cbn [start]. rewrite Ex. apply ISe_unit.
    + (* list cell: label the head, then the tail *)
      rewrite <- Ew in Hsz. cbn [app tsize] in Hsz.
      destruct (array_complete th (fun g => exists t, g = CForceAns t /\ tsize (app th t) <= n)) with (gs := [CForceAns h; CForceAns tl]) (st := st) as [a [GA IA]].
      * intros g st0 [t [-> Ht]] G0. apply IH; assumption.
      * constructor; [exists h; split; [reflexivity|lia]|]. constructor; [exists tl; split; [reflexivity|lia]|constructor].
      * split; assumption.
      * exists a. split; [exact GA|]. intros fuel. destruct fuel; [apply ISe_err|]. cbn [start]. rewrite Ex.
        destruct (dom_get st (TCons h tl)); apply IA.
    + rewrite <- Ew in Hsz. cbn [app tsize] in Hsz.
      destruct (array_complete th (fun g => exists t, g = CForceAns t /\ tsize (app th t) <= n)) with (gs := map CForceAns (flat_children cs)) (st := st) as [a [GA IA]].
      * intros g0 st0 [t [-> Ht]] G0. apply IH; assumption.
      * apply Forall_forall. intros g0 Hg0. apply in_map_iff in Hg0 as [t [<- Ht]]. exists t. split; [reflexivity|].
        pose proof (flat_children_size th cs t Ht). lia.
      * split; assumption.
      * exists a. split; [exact GA|]. intros fuel. destruct fuel; [apply ISe_err|]. cbn [start]. rewrite Ex.
        destruct (dom_get st (TComp g cs)); apply IA.
Qed.

(* delivered after finitely many steps *)
Corollary force_delivered th x st : MstG th st -> GoodS st ->
  exists a n, MstG th a /\ emitsE sq n (sq (CForceAns x) st) a.
Proof.
  intros HM HG. destruct (force_complete th (tsize (app th x)) x st (le_n _) (conj HM HG)) as [a [[M _] I]].
  destruct (proj2 (ine_emits defs) _ _ (I sfuel)) as [n Hn]. exists a, n. split; assumption.
Qed.

(* the whole flat program followed by the labeling of the query term *)
Corollary flat_then_label th g q st : Den0 th g -> flat g -> MstG th st -> GoodS st ->
  exists a n, MstG th a /\ emitsE sq n (sq (from_array BFS [g; CForceAns q]) st) a.
Proof.
  intros HD Hf HM HG.
  destruct (array_complete th (fun c => (Den0 th c /\ flat c) \/ exists t, c = CForceAns t)) with (gs := [g; CForceAns q]) (st := st) as [a [[M _] I]].
  - intros c st0 [[D F]|[t ->]] [M0 G0].
    + destruct (complete0 defs th c D F st0 M0 G0) as [a0 [A1 [A2 A3]]]. exists a0. split; [split; assumption|exact A3].
    + apply (force_complete th (tsize (app th t)) t st0 (le_n _) (conj M0 G0)).
  - constructor; [left; split; assumption|]. constructor; [right; exists q; reflexivity|constructor].
  - split; assumption.
  - destruct (proj2 (ine_emits defs) _ _ (I sfuel)) as [n Hn]. exists a, n. split; assumption.
Qed.
End Force.
