(* C16 / C17: the finite-domain propagators.
   (a) pruning keeps every solution: the interval a propagator intersects an operand's domain with
       contains every value that operand takes in any solution within the current domains;
   (b) with all operands ground the constraint is decided exactly;
   (c) a constraint is dropped from the store only when it is decided.
   Integers are Z; the saturating / checked isize operations of the Rust code are the model's
   sat_add, sat_sub, sat_mul, chk_div, and the lemmas carry the "within isize" guard of the property. *)
From Coq Require Import List ZArith Bool Arith Lia.
From PV Require Import Model.Term Model.Subst Model.Unify Model.FD Model.State Proofs.FDProofs.
Import ListNotations.
Local Open Scope Z_scope.

Lemma clamp_mono x y : x <= y -> clamp x <= clamp y.
Proof.
  unfold clamp, isize_min, isize_max. intros H.
  destruct (Z.ltb_spec x (- 2 ^ 63)), (Z.ltb_spec y (- 2 ^ 63)); try lia;
  destruct (Z.ltb_spec (2 ^ 63 - 1) x), (Z.ltb_spec (2 ^ 63 - 1) y); lia.
Qed.
Lemma clamp_id' z : in_isize z -> clamp z = z.
Proof. apply clamp_id. Qed.
Lemma clamp_between lo hi x : in_isize x -> lo <= x <= hi -> clamp lo <= x <= clamp hi.
Proof. intros I H. rewrite <- (clamp_id' x I). split; apply clamp_mono; lia. Qed.

(* ------------------------------------------------------------ u + v = w *)
Theorem plus_keeps umin umax vmin vmax wmin wmax a b :
  umin <= a <= umax -> vmin <= b <= vmax -> wmin <= a + b <= wmax ->
  in_isize a -> in_isize b -> in_isize (a + b) ->
  sat_add umin vmin <= a + b <= sat_add umax vmax /\
  sat_sub wmin vmax <= a <= sat_sub wmax vmin /\
  sat_sub wmin umax <= b <= sat_sub wmax umin.
Proof.
  intros Ha Hb Hw Ia Ib Iw. unfold sat_add, sat_sub.
  split; [|split]; apply clamp_between; auto; lia.
Qed.

(* ------------------------------------------------------------ u - v = w *)
Theorem minus_keeps umin umax vmin vmax wmin wmax a b :
  umin <= a <= umax -> vmin <= b <= vmax -> wmin <= a - b <= wmax ->
  in_isize a -> in_isize b -> in_isize (a - b) ->
  sat_sub umin vmax <= a - b <= sat_sub umax vmin /\
  sat_add wmin vmin <= a <= sat_add wmax vmax /\
  sat_sub umin wmax <= b <= sat_sub umax wmin.
Proof.
  intros Ha Hb Hw Ia Ib Iw. unfold sat_add, sat_sub.
  split; [|split]; apply clamp_between; auto; lia.
Qed.

(* ------------------------------------------------------------ u * v = w *)
Lemma corner_hull umin umax vmin vmax a b :
  umin <= a <= umax -> vmin <= b <= vmax ->
  zmin4 (umin * vmin) (umin * vmax) (umax * vmin) (umax * vmax) <= a * b <=
  zmax4 (umin * vmin) (umin * vmax) (umax * vmin) (umax * vmax).
Proof.
  intros Ha Hb. unfold zmin4, zmax4.
  destruct (Z.le_gt_cases 0 b) as [Sb|Sb].
  - assert (L1 : umin * b <= a * b) by nia. assert (U1 : a * b <= umax * b) by nia.
    destruct (Z.le_gt_cases 0 umin) as [Su|Su]; destruct (Z.le_gt_cases 0 umax) as [Sx|Sx].
    + assert (umin * vmin <= umin * b) by nia. assert (umax * b <= umax * vmax) by nia. lia.
    + assert (umin * vmin <= umin * b) by nia. assert (umax * b <= umax * vmin) by nia. lia.
    + assert (umin * vmax <= umin * b) by nia. assert (umax * b <= umax * vmax) by nia. lia.
    + assert (umin * vmax <= umin * b) by nia. assert (umax * b <= umax * vmin) by nia. lia.
  - assert (L1 : umax * b <= a * b) by nia. assert (U1 : a * b <= umin * b) by nia.
    destruct (Z.le_gt_cases 0 umin) as [Su|Su]; destruct (Z.le_gt_cases 0 umax) as [Sx|Sx].
    + assert (umax * vmin <= umax * b) by nia. assert (umin * b <= umin * vmax) by nia. lia.
    + assert (umax * vmax <= umax * b) by nia. assert (umin * b <= umin * vmax) by nia. lia.
    + assert (umax * vmin <= umax * b) by nia. assert (umin * b <= umin * vmin) by nia. lia.
    + assert (umax * vmax <= umax * b) by nia. assert (umin * b <= umin * vmin) by nia. lia.
Qed.

Lemma clamp_min x y : clamp (Z.min x y) = Z.min (clamp x) (clamp y).
Proof. destruct (Z.le_ge_cases x y) as [H|H]; [rewrite !Z.min_l|rewrite !Z.min_r]; auto; apply clamp_mono; lia. Qed.
Lemma clamp_max x y : clamp (Z.max x y) = Z.max (clamp x) (clamp y).
Proof. destruct (Z.le_ge_cases x y) as [H|H]; [rewrite !Z.max_r|rewrite !Z.max_l]; auto; apply clamp_mono; lia. Qed.

Theorem times_product_keeps umin umax vmin vmax a b :
  umin <= a <= umax -> vmin <= b <= vmax -> in_isize (a * b) ->
  zmin4 (sat_mul umin vmin) (sat_mul umin vmax) (sat_mul umax vmin) (sat_mul umax vmax) <= a * b <=
  zmax4 (sat_mul umin vmin) (sat_mul umin vmax) (sat_mul umax vmin) (sat_mul umax vmax).
Proof.
  intros Ha Hb Iw. pose proof (corner_hull umin umax vmin vmax a b Ha Hb) as [L U].
  unfold sat_mul, zmin4, zmax4 in *. rewrite <- !clamp_min, <- !clamp_max.
  apply clamp_between; auto.
Qed.

(* the quotient narrowing, applied only when all three domains are non-negative *)
Theorem times_quotient_keeps umin umax vmin vmax wmin wmax a b :
  0 <= umin -> 0 <= vmin -> 0 <= wmin ->
  umin <= a <= umax -> vmin <= b <= vmax -> wmin <= a * b <= wmax ->
  or_default (chk_div wmin vmax) umin <= a <= or_default (chk_div wmax vmin) umax /\
  or_default (chk_div wmin umax) vmin <= b <= or_default (chk_div wmax umin) vmax.
Proof.
  intros Hu Hv Hw Ha Hb Hr.
  assert (Q : forall x lo hi d y, 0 <= lo -> 0 <= d -> lo <= x <= hi -> 0 <= y ->
              (forall k, 0 < k -> y <= k -> lo <= x * k) ->   (* placeholder *) True) by (intros; exact I).
  clear Q.
  assert (LB : forall x y wlo ymax xmin, 0 <= x -> 0 <= y -> y <= ymax -> wlo <= x * y -> 0 <= wlo -> xmin <= x ->
               or_default (chk_div wlo ymax) xmin <= x).
  { intros x y wlo ymax xmin Hx Hy Hym Hxy Hwl Hxm. unfold chk_div, or_default.
    destruct (Z.eqb_spec ymax 0) as [E|E]; [auto|].
    destruct (Z.eqb wlo isize_min && Z.eqb ymax (-1)) eqn:E2.
    - auto.
    - assert (0 < ymax) by lia. apply Z.quot_le_upper_bound; auto. nia. }
  assert (UB : forall x y whi ymin xmax, 0 <= x -> 0 <= ymin -> ymin <= y -> x * y <= whi -> x <= xmax ->
               x <= or_default (chk_div whi ymin) xmax).
  { intros x y whi ymin xmax Hx Hym Hy Hxy Hxm. unfold chk_div, or_default.
    destruct (Z.eqb_spec ymin 0) as [E|E]; [auto|].
    destruct (Z.eqb whi isize_min && Z.eqb ymin (-1)) eqn:E2.
    - auto.
    - assert (0 < ymin) by lia. apply Z.quot_le_lower_bound; auto. nia. }
  repeat split.
  - apply (LB a b); lia.
  - apply (UB a b); lia.
  - apply (LB b a); lia.
  - apply (UB b a); lia.
Qed.

(* ------------------------------------------------------------ u <= v *)
Theorem lte_keeps (ud vd : fd) a b :
  wf_fd ud -> wf_fd vd -> mem ud a -> mem vd b -> a <= b ->
  (exists d1, fd_copy_before (fun x => Z.ltb (zmax vd) x) ud = Some d1 /\ mem d1 a) /\
  (exists d2, fd_drop_before (fun x => Z.leb (zmin ud) x) vd = Some d2 /\ mem d2 b).
Proof.
  intros Wu Wv Ma Mb Hab.
  destruct (max_spec vd Wv) as [vmax [Ev [Mv Hv]]]. destruct (min_spec ud Wu) as [umin [Eu [Mu Hu]]].
  unfold zmax, zmin. rewrite Ev, Eu. split.
  - pose proof (copy_before_spec (fun x => Z.ltb vmax x) ud Wu) as H.
    destruct (fd_copy_before (fun x => vmax <? x) ud) as [d1|]; cbn [res_spec] in H.
    + exists d1. split; auto. apply H. split; auto. intros y My Hy. apply Z.ltb_ge. specialize (Hv _ Mb). lia.
    + exfalso. apply (H a). split; auto. intros y My Hy. apply Z.ltb_ge. specialize (Hv _ Mb). lia.
  - pose proof (drop_before_spec (fun x => Z.leb umin x) vd Wv) as H.
    destruct (fd_drop_before (fun x => umin <=? x) vd) as [d2|]; cbn [res_spec] in H.
    + exists d2. split; auto. apply H. split; auto. exists b. split; auto. split; [lia|]. apply Z.leb_le. specialize (Hu _ Ma). lia.
    + exfalso. apply (H b). split; auto. exists b. split; auto. split; [lia|]. apply Z.leb_le. specialize (Hu _ Ma). lia.
Qed.

(* ------------------------------------------------------------ intersecting a domain with such an interval keeps the value *)
Theorem intersect_keeps (d : fd) lo hi a :
  wf_fd d -> mem d a -> lo <= a <= hi ->
  exists d', fd_intersect d (Interval lo hi) = Some d' /\ wf_fd d' /\ mem d' a.
Proof.
  intros W M H. assert (WI : wf_fd (Interval lo hi)) by (cbn; lia).
  pose proof (intersect_spec d (Interval lo hi) W WI) as S.
  destruct (fd_intersect d (Interval lo hi)) as [d'|]; cbn [res_spec] in S.
  - exists d'. destruct S as [W' S]. repeat split; auto. apply S. split; auto.
  - exfalso. apply (S a). split; auto.
Qed.

(* ------------------------------------------------------------ decided constraints *)
Section Run.
Variable rcs : state -> sres.
Variable rc : nat -> constraint -> state -> sres.

Definition num (t : term) (z : Z) : Prop := t = TVal (LNum z).

Theorem plusfd_ground id st u v w a b r :
  num (wk (st_smap st) u) a -> num (wk (st_smap st) v) b -> num (wk (st_smap st) w) r ->
  run_constraint rcs rc id (KPlus u v w) st = if Z.eqb (a + b) r then SOk st else SFail.
Proof. unfold num. intros E1 E2 E3. cbn [run_constraint]. unfold arith3. rewrite E1, E2, E3. reflexivity. Qed.
Theorem minusfd_ground id st u v w a b r :
  num (wk (st_smap st) u) a -> num (wk (st_smap st) v) b -> num (wk (st_smap st) w) r ->
  run_constraint rcs rc id (KMinus u v w) st = if Z.eqb (a - b) r then SOk st else SFail.
Proof. unfold num. intros E1 E2 E3. cbn [run_constraint]. unfold arith3. rewrite E1, E2, E3. reflexivity. Qed.
Theorem timesfd_ground id st u v w a b r :
  num (wk (st_smap st) u) a -> num (wk (st_smap st) v) b -> num (wk (st_smap st) w) r ->
  run_constraint rcs rc id (KTimes u v w) st = if Z.eqb (a * b) r then SOk st else SFail.
Proof. unfold num. intros E1 E2 E3. cbn [run_constraint]. unfold arith3. rewrite E1, E2, E3. reflexivity. Qed.
Theorem ltefd_ground id st u v a b :
  num (wk (st_smap st) u) a -> num (wk (st_smap st) v) b ->
  run_constraint rcs rc id (KLte u v) st = if Z.leb a b then SOk st else SFail.
Proof. unfold num. intros E1 E2. cbn [run_constraint]. rewrite E1, E2. reflexivity. Qed.
Theorem diseqfd_ground id st u v a b :
  num (wk (st_smap st) u) a -> num (wk (st_smap st) v) b ->
  run_constraint rcs rc id (KDiseqFd u v) st = if Z.eqb a b then SFail else SOk st.
Proof.
  unfold num. intros E1 E2. cbn [run_constraint]. rewrite E1, E2. cbn [operand_domain fd_is_singleton].
  rewrite !Z.eqb_refl. cbn [andb zmin fd_min]. reflexivity.
Qed.

(* the repaired propagators never store themselves with operands that were bound during their own
   pruning: either no binding happened (the substitution has the same size) or the constraint runs again *)
Theorem arith3_recheck id c st u v w g a1 a2 a3 a4 a5 a6 st1 st2 st3 ud vd wd :
  get_number (wk (st_smap st) u) = None \/ get_number (wk (st_smap st) v) = None \/ get_number (wk (st_smap st) w) = None ->
  operand_domain st (wk (st_smap st) u) = Some ud -> operand_domain st (wk (st_smap st) v) = Some vd ->
  operand_domain st (wk (st_smap st) w) = Some wd ->
  process_domain rcs st (wk (st_smap st) w) (Interval (a1 ud vd wd) (a2 ud vd wd)) = SOk st1 ->
  process_domain rcs st1 (wk (st_smap st) u) (Interval (a3 ud vd wd) (a4 ud vd wd)) = SOk st2 ->
  process_domain rcs st2 (wk (st_smap st) v) (Interval (a5 ud vd wd) (a6 ud vd wd)) = SOk st3 ->
  arith3 rcs rc id c st u v w g a1 a2 a3 a4 a5 a6 =
    if Nat.eqb (length (st_smap st3)) (length (st_smap st)) then SOk (with_constraint_id st3 id c) else rc id c st3.
Proof.
  intros HN E1 E2 E3 P1 P2 P3. unfold arith3.
  destruct (get_number (wk (st_smap st) u)) eqn:G1, (get_number (wk (st_smap st) v)) eqn:G2, (get_number (wk (st_smap st) w)) eqn:G3;
    try (exfalso; destruct HN as [HN|[HN|HN]]; discriminate);
    rewrite E1, E2, E3, P1; cbn [sbind]; rewrite P2; cbn [sbind]; rewrite P3; reflexivity.
Qed.
End Run.
