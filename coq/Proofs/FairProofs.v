(* Fairness and completeness of the interleaving search at the level of GOALS (C07, C06):
   for the pure relational fragment (PureElab) every answer that has a derivation in the declarative
   semantics Sem - in particular every answer a sub-goal delivers on its own - is delivered by the
   engine after finitely many steps, whatever the other branches do (produce forever, never produce),
   unless an engine step fails with an error outcome (panic / out of fuel) first.
   This is the converse of SemProofs.next_sound_goal on that fragment. *)
From Coq Require Import List ZArith Bool Arith Lia.
From PV Require Import Model.Term Model.Subst Model.Unify Model.FD Model.State Model.Engine Spec.StreamSem
  Proofs.StreamProofs Proofs.EngineProofs Proofs.SemProofs.
From PV Require Import Proofs.PureElab.
Import ListNotations.

Section Fair.
Variable defs : list (nat * def).
Hypothesis defs_psrc : forall r d, find_def r defs = Some d -> psrc (d_body d).
Notation sq := (startq defs).

(* membership along interleaving nodes, with the error outcome as an escape *)
Inductive inLe : lzy -> state -> Prop :=
| ILe_pause st g a : inSe (sq g st) a -> inLe (LPause st g) a
| ILe_delay s a : inSe s a -> inLe (LDelay s) a
| ILe_mplus_l l1 l2 a : inLe l1 a -> inLe (LMPlus l1 l2) a
| ILe_mplus_r l1 l2 a : inLe l2 a -> inLe (LMPlus l1 l2) a
| ILe_bind l g b a : inLe l b -> inSe (sq g b) a -> inLe (LBind l g) a
with inSe : stream -> state -> Prop :=
| ISe_unit a : inSe (SUnit a) a
| ISe_lazy l a : inLe l a -> inSe (SLazy l) a
| ISe_cons_hd a l : inSe (SCons a l) a
| ISe_cons_tl b l a : inLe l a -> inSe (SCons b l) a
| ISe_err o p a : inSe (SErr o p) a.
Scheme inLe_ind2 := Minimality for inLe Sort Prop
  with inSe_ind2 := Minimality for inSe Sort Prop.
Combined Scheme ine_mutind from inLe_ind2, inSe_ind2.

Theorem ine_emits :
  (forall l a, inLe l a -> exists n, emitsE sq n (step_with sq l) a) /\
  (forall s a, inSe s a -> exists n, emitsE sq n s a).
Proof.
  apply (ine_mutind (fun l a => exists n, emitsE sq n (step_with sq l) a) (fun s a => exists n, emitsE sq n s a)).
  - intros st g a _ [n H]. exists n. exact H.
  - intros s a _ [n H]. exists n. exact H.
  - intros l1 l2 a _ [n H]. exists (4*n+2). cbn [step_with]. apply mplus_fair_left; exact H.
  - intros l1 l2 a _ [n H]. exists (4*(S n)). cbn [step_with]. apply mplus_fair_right. apply emitsE_lazy. exact H.
  - intros l g b a _ [n H] _ [m Hg]. cbn [step_with].
    destruct (is_succeed g) eqn:Es.
    + apply is_succeed_eq in Es. subst g. rewrite (startq_succeed defs) in Hg.
      unfold bind. cbn [is_succeed]. exists (n + m).
      destruct m as [|m]; [destruct Hg|]. cbn [StreamSem.emitsE StreamSem.micro] in Hg.
      destruct Hg as [->|Hg]; [eapply emitsE_mono; [exact H|lia]|exfalso; exact (emitsE_empty _ _ _ Hg)].
    + destruct (is_fail g) eqn:Ef.
      * apply is_fail_eq in Ef. subst g. rewrite (startq_fail defs) in Hg. exfalso; exact (emitsE_empty _ _ _ Hg).
      * exists (bind_bound n m). apply (bind_fair sq g Es Ef n _ b a m H). intros k ->. exact Hg.
  - intros a. exists 1. cbn [StreamSem.emitsE StreamSem.micro]. left; reflexivity.
  - intros l a _ [n H]. exists (S n). apply emitsE_lazy. exact H.
  - intros a l. exists 1. cbn [StreamSem.emitsE StreamSem.micro]. left; reflexivity.
  - intros b l a _ [n H]. exists (S (S n)). cbn [StreamSem.emitsE StreamSem.micro]. right. apply emitsE_lazy. exact H.
  - intros o p a. exists 1. exact I.
Qed.

(* membership is preserved by the merge, from either side *)
Lemma mplus_e_l s l a : inSe s a -> inSe (mplus s l) a.
Proof.
  intros H. destruct s as [|b|l'|b l'|o p]; cbn [mplus]; inversion H; subst.
  - apply ISe_cons_hd.
  - apply ISe_lazy, ILe_mplus_r. assumption.
  - apply ISe_cons_hd.
  - apply ISe_cons_tl, ILe_mplus_r. assumption.
  - apply ISe_err.
Qed.
Lemma mplus_e_r s l a : inLe l a -> inSe (mplus s l) a.
Proof.
  intros H. destruct s as [|b|l'|b l'|o p]; cbn [mplus].
  - apply ISe_lazy, H.
  - apply ISe_cons_tl, H.
  - apply ISe_lazy, ILe_mplus_l, H.
  - apply ISe_cons_tl, ILe_mplus_l, H.
  - apply ISe_err.
Qed.

Lemma Forall_psrc_conj gs : Forall psrc gs -> psrc (GConj gs).
Proof. intros H. cbn [psrc]. apply pall_Forall, H. Qed.

(* every derivable answer of a pure goal is a member of the stream the engine starts, for every fuel *)
Theorem sem_in : forall g st a, Sem defs g st a -> pureg g -> forall n, inSe (start defs n g st) a.
Proof.
  induction 1; intros Hp fu; (destruct fu as [|fu]; [apply ISe_err|]).
  25: { revert H. cbn [start]. intros H. rewrite H. apply ISe_unit. }
  all: cbn [start].
  - apply ISe_unit.
  - rewrite H. apply ISe_unit.
  - rewrite H. apply ISe_unit.
  - rewrite H. apply ISe_unit.
  - rewrite H. apply ISe_unit.
  - apply ISe_unit.
  - rewrite H, H0. apply ISe_unit.
  - destruct Hp as [-> [Hp1 Hp2]]. cbn [lazy_bind_k pause_k]. unfold lazy_bind.
    destruct (is_succeed g2) eqn:Es.
    + apply is_succeed_eq in Es. subst g2. inversion H0; subst. apply ISe_lazy, ILe_pause. apply (IHSem1 Hp1).
    + destruct (is_fail g2) eqn:Ef; [apply is_fail_eq in Ef; subst g2; inversion H0|].
      apply ISe_lazy. eapply ILe_bind; [apply ILe_pause, (IHSem1 Hp1)|apply (IHSem2 Hp2)].
  - destruct Hp as [-> Hp]. cbn [mplus_k].
    induction gs as [|c0 r IHr]; [destruct H|]. cbn [fold_right]. destruct Hp as [Hc Hr]. destruct H as [->|Hin].
    + apply mplus_e_l. apply (IHSem Hc).
    + apply mplus_e_r, ILe_delay. apply IHr; assumption.
  - destruct Hp as [-> Hp]. cbn [pause_k]. apply ISe_lazy, ILe_pause. apply (IHSem Hp).
  - destruct Hp as [-> Hp]. rewrite H. apply IHSem.
    pose proof (elab_pure defs defs_psrc efuel rho (GConj gs) (st_nextv st) (Forall_psrc_conj _ Hp)) as He. rewrite H in He. exact He.
  - cbn [pureg] in Hp. subst k. rewrite H, H0. apply IHSem.
    pose proof (elab_pure defs defs_psrc efuel (combine (d_params d) args) (GConj [d_body d]) (st_nextv st)
                  (Forall_psrc_conj _ (Forall_cons _ (defs_psrc _ _ H) (Forall_nil _)))) as He. rewrite H0 in He. exact He.
  - destruct Hp.
  - destruct Hp.
  - destruct Hp.
  - destruct Hp.
  - apply IHSem. apply p_conde_from. repeat constructor; [exact Hp|]. apply p_anyo_from. repeat constructor. exact Hp.
  - destruct Hp as [-> Hp]. rewrite H. apply IHSem. apply p_from_iter.
    clear IHSem H0. revert H. generalize (st_nextv st). revert cs nv.
    induction elems as [|e r IHr]; intros cs nv n0 H; [inversion H; subst; constructor|].
    pose proof (elab_pure defs defs_psrc efuel ((x, e) :: rho) (GConj (map GConj css)) n0) as He.
    destruct (elab defs efuel BFS ((x, e) :: rho) (GConj (map GConj css)) n0) as [c n1].
    match type of H with (let '(cs0, n2) := ?X in _) = _ => destruct X as [cs1 n2] eqn:Er end. inversion H; subst.
    constructor; [|eapply IHr; eauto]. apply He. apply Forall_psrc_conj. apply Forall_forall. intros g0 Hg0.
    apply in_map_iff in Hg0 as [gs0 [<- Hin]]. apply Forall_psrc_conj. rewrite Forall_forall in Hp. apply Hp, Hin.
  - destruct Hp as [-> Hp]. rewrite H, H0. apply IHSem.
    assert (Hg : psrc (GConj (map (fun g => GConj [g]) gs))).
    { apply Forall_psrc_conj. apply Forall_forall. intros g0 Hg0. apply in_map_iff in Hg0 as [g1 [<- Hin]]. apply Forall_psrc_conj.
      constructor; [|constructor]. rewrite Forall_forall in Hp. apply Hp, Hin. }
    pose proof (elab_pure defs defs_psrc efuel rho' _ (st_nextv st) Hg) as He. rewrite H0 in He. exact He.
  - rewrite H, H0.
    assert (K : forall l acc, (In z l -> inSe (fold_left (fun acc z => mplus (sres_stream (state_unify st (tnum z) (TVar v any))) (LDelay acc)) l acc) a) /\
                              (inSe acc a -> inSe (fold_left (fun acc z => mplus (sres_stream (state_unify st (tnum z) (TVar v any))) (LDelay acc)) l acc) a)).
    { induction l as [|z0 r IHr]; intros acc; cbn [fold_left]; [split; [intros []|auto]|].
      destruct (IHr (mplus (sres_stream (state_unify st (tnum z0) (TVar v any))) (LDelay acc))) as [I1 I2]. split.
      - intros [->|Hin]; [|apply I1, Hin]. apply I2. apply mplus_e_l. rewrite H2. apply ISe_unit.
      - intros Ha. apply I2. apply mplus_e_r, ILe_delay, Ha. }
    apply (proj1 (K _ SEmpty) H1).
  - rewrite H. apply IHSem. apply p_from_array. repeat constructor.
  - rewrite H. apply IHSem. apply p_from_array. apply Forall_forall. intros c Hin. apply in_map_iff in Hin as [t [<- _]]. exact I.
  - destruct (wk (st_smap st) x) as [l|v any| |h tl|g cs]; try apply ISe_unit; try (destruct H; fail).
    destruct (dom_get st (TVar v any)); [destruct H|apply ISe_unit].
  - destruct Hp.
Qed.

(* completeness of the search on the pure fragment *)
Theorem fair_complete g st a : Sem defs g st a -> pureg g -> exists n, emitsE sq n (sq g st) a.
Proof. intros H Hp. apply (proj2 ine_emits). unfold startq. apply sem_in; assumption. Qed.

(* C07 at the level of goals: an answer that a clause delivers on its own is delivered by the whole
   disjunction after finitely many steps - whatever the other clauses do *)
Corollary disjunction_fair k u m gs c st a rest u' :
  pureg (CConde BFS gs) -> In c gs ->
  next defs k u (start defs m c st) = NAnswer a rest u' ->
  exists n, emitsE sq n (sq (CConde BFS gs) st) a.
Proof.
  intros Hp Hin H. pose proof (next_sound_goal defs _ _ _ _ _ _ _ _ H) as HS.
  apply fair_complete; [|exact Hp]. eapply S_conde; eauto.
Qed.
(* ... and an answer of the second conjunct started in an answer of the first is delivered by the conjunction *)
Corollary conjunction_fair k1 u1 m1 k2 u2 m2 g1 g2 st b a r1 r2 v1 v2 :
  pureg (CConj BFS g1 g2) ->
  next defs k1 u1 (start defs m1 g1 st) = NAnswer b r1 v1 ->
  next defs k2 u2 (start defs m2 g2 b) = NAnswer a r2 v2 ->
  exists n, emitsE sq n (sq (CConj BFS g1 g2) st) a.
Proof.
  intros Hp H1 H2. pose proof (next_sound_goal defs _ _ _ _ _ _ _ _ H1) as S1. pose proof (next_sound_goal defs _ _ _ _ _ _ _ _ H2) as S2.
  apply fair_complete; [|exact Hp]. eapply S_conj; eauto.
Qed.
End Fair.
