(* C03: structural facts about reification and the reported constraints. *)
From Coq Require Import List ZArith Bool Arith Lia.
From PV Require Import Model.Term Model.Subst Model.Unify Model.FD Model.State Model.Engine.
Import ListNotations.

(* "the any-variable v occurs in t", at any depth, through lists and compounds *)
Fixpoint any_occurs (v : nat) (t : term) : Prop :=
  match t with
  | TVar x true => x = v
  | TCons h tl => any_occurs v h \/ any_occurs v tl
  | TComp _ cs => any_occurs_list v cs
  | _ => False
  end
with any_occurs_list (v : nat) (ts : terms) : Prop :=
  match ts with TNil => False | TMore t r => any_occurs v t \/ any_occurs_list v r end.

Lemma anyvars_spec : 
  (forall t v, In v (anyvars t) <-> any_occurs v t) /\
  (forall ts v, In v (anyvars_list ts) <-> any_occurs_list v ts).
Proof.
  apply term_terms_ind; intros; cbn [anyvars anyvars_list any_occurs any_occurs_list In]; try tauto.
  all: try (destruct any; cbn [In]; intuition congruence); try (rewrite in_app_iff, H, H0; tauto); try (apply H).
Qed.

(* an operand of a disequality: a key, or a value that is itself a variable (Constraint::operands) *)
Definition operand (v : nat) (ps : smap) : Prop :=
  exists p, In p ps /\ (fst p = v \/ exists a, snd p = TVar v a).

Theorem relevant_constraints_spec t cs ps :
  In ps (relevant_constraints t cs) <->
  In ps cs /\ exists v, any_occurs v t /\ operand v ps.
Proof.
  unfold relevant_constraints. rewrite filter_In. split.
  - intros [HI HE]. split; auto. apply existsb_exists in HE as [p [Hp HE]].
    apply orb_true_iff in HE as [HE|HE].
    + apply existsb_exists in HE as [v [Hv E]]. apply Nat.eqb_eq in E. subst v.
      exists (fst p). split; [apply (proj1 anyvars_spec); auto|]. exists p. auto.
    + destruct (snd p) as [|x a| | |] eqn:Es; try discriminate.
      apply existsb_exists in HE as [v [Hv E]]. apply Nat.eqb_eq in E. subst v.
      exists x. split; [apply (proj1 anyvars_spec); auto|]. exists p. split; auto. right. eauto.
  - intros [HI [v [Hv [p [Hp Ho]]]]]. split; auto. apply existsb_exists. exists p. split; auto.
    apply (proj1 anyvars_spec) in Hv. apply orb_true_iff. destruct Ho as [E|[a E]].
    + left. apply existsb_exists. exists v. split; auto. apply Nat.eqb_eq. auto.
    + right. rewrite E. apply existsb_exists. exists v. split; auto. apply Nat.eqb_refl.
Qed.

(* every variable of a term is a key of r *)
Fixpoint all_keys (r : smap) (t : term) : Prop :=
  match t with
  | TVar v _ => bound_in v r = true
  | TCons h tl => all_keys r h /\ all_keys r tl
  | TComp _ cs => all_keys_list r cs
  | _ => True
  end
with all_keys_list (r : smap) (ts : terms) : Prop :=
  match ts with TNil => True | TMore t rest => all_keys r t /\ all_keys_list r rest end.

Lemma all_vars_reified_spec r :
  (forall t, all_vars_reified r t = true <-> all_keys r t) /\
  (forall ts, all_vars_reified_list r ts = true <-> all_keys_list r ts).
Proof.
  apply term_terms_ind; intros; cbn [all_vars_reified all_vars_reified_list all_keys all_keys_list]; try tauto.
  all: try (rewrite andb_true_iff, H, H0; tauto); try (apply H).
Qed.

(* purify: a reported disequality mentions only reified variables of the answer *)
Theorem purify_closed r cs i ps :
  In (i, KDiseq ps) (purify r cs) ->
  forall x t, In (x, t) ps -> bound_in x r = true /\ all_keys r t.
Proof.
  unfold purify. rewrite filter_In. cbn [snd]. intros [_ H] x t HI.
  rewrite forallb_forall in H. specialize (H (x, t) HI). cbn [fst snd] in H.
  apply andb_true_iff in H as [H1 H2]. split.
  - cbn [is_anyvar] in H1. apply andb_true_iff in H1 as [H1 _]. exact H1.
  - apply (proj1 (all_vars_reified_spec r)). exact H2.
Qed.

(* and the pinned purify did not guarantee it *)
Example purify_pinned_refuted :
  exists r cs i ps x t, In (i, KDiseq ps) (purify_pinned r cs) /\ In (x, t) ps /\ ~ all_keys r t.
Proof.
  exists [(0, TVar 5 true)], [(0, KDiseq [(0, TVar 1 false)])], 0, [(0, TVar 1 false)], 0, (TVar 1 false).
  split; [vm_compute; auto|]. split; [left; reflexivity|]. cbn. discriminate.
Qed.

(* reification binds exactly the unbound variables it meets to new any-variables with increasing ids *)
Lemma reify_s_mono : forall f,
  (forall s n t s' n', reify_s f s n t = Some (s', n') -> n <= n' /\ exists new, s' = new ++ s) /\
  (forall s n ts s' n', reify_list f s n ts = Some (s', n') -> n <= n' /\ exists new, s' = new ++ s).
Proof.
  induction f as [|f [IHt IHl]]; [split; intros; discriminate|]. split.
  - intros s n t s' n' H. cbn [reify_s] in H. destruct (wk s t) as [l|v a| |h tl|g cs].
    + inversion H; subst. split; [lia|exists []; auto].
    + inversion H; subst. split; [lia|exists [(v, TVar n true)]; auto].
    + inversion H; subst. split; [lia|exists []; auto].
    + destruct (reify_s f s n h) as [[s1 n1]|] eqn:E1; [|discriminate].
      destruct (IHt _ _ _ _ _ E1) as [L1 [new1 ->]]. destruct (IHt _ _ _ _ _ H) as [L2 [new2 ->]].
      split; [lia|exists (new2 ++ new1); rewrite app_assoc; auto].
    + apply (IHl _ _ _ _ _ H).
  - intros s n ts s' n' H. cbn [reify_list] in H. destruct ts as [|t r].
    + inversion H; subst. split; [lia|exists []; auto].
    + destruct (reify_s f s n t) as [[s1 n1]|] eqn:E1; [|discriminate].
      destruct (IHt _ _ _ _ _ E1) as [L1 [new1 ->]]. destruct (IHl _ _ _ _ _ H) as [L2 [new2 ->]].
      split; [lia|exists (new2 ++ new1); rewrite app_assoc; auto].
Qed.
