(* Scoping of states (C15, C03): every variable identity that occurs in a state - as a key or inside a
   term of the substitution, in a stored constraint, as the owner of a domain - is below the state's
   variable counter, and the four state operations keep it so (they never invent a variable; they do
   not move the counter).  So the variables goal construction draws from the counter are different
   from everything already in the state. *)
From Coq Require Import List ZArith Bool Arith Lia.
From PV Require Import Model.Term Model.Subst Model.Unify Model.FD Model.State Model.Engine
  Proofs.UnifyProofs Proofs.MonoProofs Proofs.KeyProofs Proofs.DenProofs Proofs.FDDen Proofs.ElabAll.
From PV Require Import Proofs.ScopeElab.
Import ListNotations.

Definition smapb (n : nat) (s : smap) : Prop := forall x t, In (x, t) s -> x < n /\ tb n t.
Definition storeb (n : nat) (cs : list (nat * constraint)) : Prop := forall i c, In (i, c) cs -> cb n c.
Definition domb (n : nat) (ds : list (nat * fd)) : Prop := forall x d, In (x, d) ds -> x < n.
(* [stbn n st] : everything in st is below n *)
Definition stbn (n : nat) (st : state) : Prop := smapb n (st_smap st) /\ storeb n (st_cstore st) /\ domb n (st_dstore st).
Definition stb (st : state) : Prop := stbn (st_nextv st) st.

Lemma smapb_cons n x t s : x < n -> tb n t -> smapb n s -> smapb n ((x, t) :: s).
Proof. intros Hx Ht Hs y u [Hin|Hin]; [inversion Hin; subst; auto|apply Hs, Hin]. Qed.
Lemma smapb_app n a b : smapb n a -> smapb n b -> smapb n (a ++ b).
Proof. intros Ha Hb x t Hin. apply in_app_or in Hin as [Hin|Hin]; auto. Qed.

Lemma walk_tb n s : smapb n s -> forall f t, tb n t -> tb n (walk f s t).
Proof.
  intros Hs. induction f as [|f IH]; intros t Ht; destruct t as [l|v a| |h tl|g cs]; cbn [walk]; auto.
  - destruct (lookup v s); exact Ht.
  - destruct (lookup v s) as [t'|] eqn:E; [|exact Ht]. apply IH. apply (Hs v t'). apply lookup_in, E.
Qed.
Lemma wk_tb n s t : smapb n s -> tb n t -> tb n (wk s t).
Proof. intros Hs Ht. apply walk_tb; assumption. Qed.
Lemma wk_var_lt n s t v a : smapb n s -> tb n t -> wk s t = TVar v a -> v < n.
Proof. intros Hs Ht E. pose proof (wk_tb n s t Hs Ht) as H. rewrite E in H. apply tb_var in H. exact H. Qed.

(* ------------------------------------------------------------------ unification *)
Definition uresb (n : nat) (r : ures) : Prop := match r with UOk s' e' => smapb n s' /\ smapb n e' | _ => True end.
Lemma bindv_b n f s ext x t : smapb n s -> smapb n ext -> x < n -> tb n t -> uresb n (bindv f s ext x t).
Proof. intros Hs He Hx Ht. unfold bindv. destruct (occurs f s x t) as [[|]|]; cbn; auto. split; apply smapb_cons; assumption. Qed.
Lemma unify_b n : forall f,
  (forall s ext u v, smapb n s -> smapb n ext -> tb n u -> tb n v -> uresb n (unify f s ext u v)) /\
  (forall s ext us vs, smapb n s -> smapb n ext -> tsb n us -> tsb n vs -> uresb n (unify_list f s ext us vs)).
Proof.
  induction f as [|f [IHt IHl]]; [split; intros; exact I|]. split.
  - intros s ext u v Hs He Hu Hv. cbn [unify].
    destruct (wkc s u) as [uw|] eqn:Eu; [|exact I]. destruct (wkc s v) as [vw|] eqn:Ev; [|exact I].
    apply wkc_some in Eu as [-> _]. apply wkc_some in Ev as [-> _].
    pose proof (wk_tb n s u Hs Hu) as Bu. pose proof (wk_tb n s v Hs Hv) as Bv.
    destruct (wk s u) as [x|a fa| |h1 t1|g1 c1]; destruct (wk s v) as [y|b fb| |h2 t2|g2 c2]; try exact I;
      try (apply bindv_b; auto; apply tb_var in Bu; exact Bu); try (apply bindv_b; auto; apply tb_var in Bv; exact Bv).
    + destruct (lit_eqb x y); cbn; auto.
    + destruct (Nat.eqb a b); [cbn; auto|]. apply bindv_b; auto. apply tb_var in Bu. exact Bu.
    + cbn; auto.
    + apply tb_cons in Bu as [Bh1 Bt1]. apply tb_cons in Bv as [Bh2 Bt2].
      pose proof (IHt s ext h1 h2 Hs He Bh1 Bh2) as H1. destruct (unify f s ext h1 h2) as [s1 e1| |]; try exact I.
      destruct H1 as [Hs1 He1]. apply IHt; assumption.
    + destruct (Nat.eqb g1 g2); [|exact I]. apply IHl; assumption.
  - intros s ext us vs Hs He Hu Hv. cbn [unify_list]. destruct us as [|a ar]; destruct vs as [|b br]; try exact I; [cbn; auto|].
    apply tsb_more in Hu as [Ba Bar]. apply tsb_more in Hv as [Bb Bbr].
    pose proof (IHt s ext a b Hs He Ba Bb) as H1. destruct (unify f s ext a b) as [s1 e1| |]; try exact I.
    destruct H1 as [Hs1 He1]. apply IHl; assumption.
Qed.
Lemma unify_pairs_b n f : forall ps s ext, smapb n s -> smapb n ext -> smapb n ps -> uresb n (unify_pairs f s ext ps).
Proof.
  induction ps as [|[x t] r IH]; intros s ext Hs He Hp; cbn [unify_pairs]; [cbn; auto|].
  destruct (Hp x t (or_introl eq_refl)) as [Hx Ht].
  pose proof (proj1 (unify_b n f) s ext (TVar x false) t Hs He (proj2 (tb_var n x false) Hx) Ht) as H1.
  destruct (unify f s ext (TVar x false) t) as [s1 e1| |]; try exact I. destruct H1 as [Hs1 He1].
  apply IH; auto. intros y u Hin. apply Hp. right. exact Hin.
Qed.

(* ------------------------------------------------------------------ the pass *)
Definition sresB (st : state) (r : sres) : Prop :=
  match r with SOk st' => stb st' /\ st_nextv st' = st_nextv st | _ => True end.

Lemma pan_in store id c i (c' : constraint) : In (i, c') (fst (push_and_normalize store id c)) -> In (i, c') store \/ c' = c.
Proof.
  unfold push_and_normalize. destruct (is_diseq c); [destruct (stored_subsumes_new store s)|]; cbn [fst]; auto;
    intros Hin; apply in_app_or in Hin as [Hin|[Hin|[]]]; try (apply filter_In in Hin as [Hin _]); auto; inversion Hin; auto.
Qed.
Lemma fold_take_nextv (dropped : list (nat * constraint)) : forall st,
  st_nextv (fold_left (fun s ic => log_event s (UTake (fst ic))) dropped st) = st_nextv st.
Proof. induction dropped as [|d r IH]; intros st; cbn [fold_left]; [reflexivity|]. rewrite IH. reflexivity. Qed.
Lemma with_constraint_id_nextv st id c : st_nextv (with_constraint_id st id c) = st_nextv st.
Proof. unfold with_constraint_id. destruct (push_and_normalize _ id c) as [store dropped]. rewrite fold_take_nextv. reflexivity. Qed.
Lemma wc_B st id c : stb st -> cb (st_nextv st) c -> sresB st (SOk (with_constraint_id st id c)).
Proof.
  intros [Hs [Hc Hd]] Hcb. cbn [sresB]. split; [|apply with_constraint_id_nextv]. unfold stb, stbn.
  rewrite with_constraint_id_nextv, with_constraint_id_smap, with_constraint_id_cstore, with_constraint_id_dstore.
  split; [exact Hs|]. split; [|exact Hd]. intros i c' Hin. apply pan_in in Hin as [Hin| ->]; [apply (Hc i c' Hin)|exact Hcb].
Qed.
Lemma wn_B st c : stb st -> cb (st_nextv st) c -> sresB st (SOk (with_new_constraint st c)).
Proof. intros H Hc. unfold with_new_constraint. apply (wc_B (bump_nextc st) (st_nextc st) c H Hc). Qed.
Lemma sbind_B st r k : sresB st r -> (forall st1, stb st1 -> st_nextv st1 = st_nextv st -> sresB st1 (k st1)) -> sresB st (sbind r k).
Proof.
  destruct r as [st1| | |]; cbn [sbind sresB]; auto. intros [H1 E1] Hk. specialize (Hk st1 H1 E1).
  destruct (k st1); cbn [sresB] in *; auto. destruct Hk as [H2 E2]. split; [exact H2|congruence].
Qed.
Lemma sresB_same st st1 r : st_nextv st1 = st_nextv st -> sresB st1 r -> sresB st r.
Proof. intros E. destruct r; cbn; auto. intros [H1 E1]. split; [exact H1|congruence]. Qed.
Lemma stb_refl st : stb st -> sresB st (SOk st).
Proof. intros H. split; [exact H|reflexivity]. Qed.

Section Fuelled.
Variable rcs : state -> sres.
Hypothesis rcs_B : forall st, stb st -> sresB st (rcs st).

Lemma bind_B st x t v : stb st -> x < st_nextv st -> tb (st_nextv st) t ->
  sresB st (rcs (dom_remove (set_smap st ((x, t) :: st_smap st)) v)).
Proof.
  intros [Hs [Hc Hd]] Hx Ht. eapply sresB_same; [|apply rcs_B]; [reflexivity|].
  split; [apply smapb_cons; assumption|]. split; [exact Hc|]. intros y d Hin. apply (Hd y d). cbn in Hin. eapply remove_id_in; eauto.
Qed.
Lemma bindz_B st x t : stb st -> x < st_nextv st -> tb (st_nextv st) t ->
  sresB st (rcs (set_smap st ((x, t) :: st_smap st))).
Proof.
  intros [Hs [Hc Hd]] Hx Ht. eapply sresB_same; [|apply rcs_B]; [reflexivity|].
  split; [apply smapb_cons; assumption|]. split; [exact Hc|exact Hd].
Qed.

Lemma process_domain_B st x d : stb st -> tb (st_nextv st) x -> sresB st (process_domain rcs st x d).
Proof.
  intros H Hx. unfold process_domain. destruct (wk (st_smap st) x) as [[]|v a| | |] eqn:Ex; try exact I.
  - match goal with |- sresB _ (if ?b then _ else _) => destruct b end; [apply stb_refl, H|exact I].
  - pose proof (wk_var_lt _ _ _ _ _ (proj1 H) Hx Ex) as Hv.
    unfold update_var_domain, resolve_storable_domain.
    assert (K : forall dd, sresB st (match fd_singleton_value dd with
                | Some n => rcs (dom_remove (set_smap st ((v, tnum n) :: st_smap st)) v)
                | None => SOk (dom_insert st v dd) end)).
    { intros dd. destruct (fd_singleton_value dd); [apply bind_B; [exact H|exact Hv|apply tb_val]|].
      destruct H as [Hs [Hc Hd]]. split; [|reflexivity]. split; [exact Hs|]. split; [exact Hc|].
      intros y dy [Hin|Hin]; [inversion Hin; subst; exact Hv|]. apply (Hd y dy). eapply remove_id_in; eauto. }
    destruct (find_id v (st_dstore st)) as [old|]; [|apply K]. destruct (fd_intersect old d); [apply K|exact I].
Qed.
Lemma exclude_B ds excl : forall xs st, stb st -> Forall (tb (st_nextv st)) xs -> sresB st (exclude_from_domain rcs ds st xs excl).
Proof.
  induction xs as [|y r IH]; intros st H Hx; cbn [exclude_from_domain]; [apply stb_refl, H|]. inversion Hx as [|? ? Hy Hr]; subst.
  destruct (match y with TVar v _ => find_id v ds | _ => None end); [|apply IH; assumption].
  destruct (fd_diff f excl); [|exact I]. apply sbind_B; [apply process_domain_B; assumption|].
  intros st1 H1 E1. apply IH; [exact H1|rewrite E1; exact Hr].
Qed.

Variable rcr : nat -> constraint -> state -> sres.
Hypothesis rcr_B : forall id c st, stb st -> cb (st_nextv st) c -> sresB st (rcr id c st).

Lemma arith3_B id c st u v w gr a1 a2 a3 a4 a5 a6 : stb st -> cb (st_nextv st) c ->
  tb (st_nextv st) u -> tb (st_nextv st) v -> tb (st_nextv st) w ->
  sresB st (arith3 rcs rcr id c st u v w gr a1 a2 a3 a4 a5 a6).
Proof.
  intros H Hc Hu Hv Hw. unfold arith3.
  pose proof (wk_tb _ _ u (proj1 H) Hu) as Bu. pose proof (wk_tb _ _ v (proj1 H) Hv) as Bv. pose proof (wk_tb _ _ w (proj1 H) Hw) as Bw.
  destruct (get_number (wk (st_smap st) u)), (get_number (wk (st_smap st) v)), (get_number (wk (st_smap st) w));
    try (match goal with |- sresB _ (if ?b then _ else _) => destruct b; [apply stb_refl, H|exact I] end);
    (destruct (operand_domain st (wk (st_smap st) u)), (operand_domain st (wk (st_smap st) v)),
              (operand_domain st (wk (st_smap st) w)); try (apply wc_B; assumption);
     apply sbind_B; [apply process_domain_B; assumption|intros st1 H1 E1];
     apply sbind_B; [apply process_domain_B; [exact H1|rewrite E1; exact Bu]|intros st2 H2 E2];
     apply sbind_B; [apply process_domain_B; [exact H2|rewrite E2, E1; exact Bv]|intros st3 H3 E3];
     destruct (Nat.eqb _ _); [apply wc_B; [exact H3|rewrite E3, E2, E1; exact Hc]|apply rcr_B; [exact H3|rewrite E3, E2, E1; exact Hc]]).
Qed.

Lemma filter_tb n p l : Forall (tb n) l -> Forall (tb n) (filter p l).
Proof. intros H. apply Forall_forall. intros t Hin. apply filter_In in Hin as [Hin _]. rewrite Forall_forall in H. apply H, Hin. Qed.

Lemma run_constraint_B id c st : stb st -> cb (st_nextv st) c -> sresB st (run_constraint rcs rcr id c st).
Proof.
  intros H Hc. pose proof (proj1 H) as Hs.
  destruct c as [ps|u v|u v w|u v w|u v w|u v|u|u ys n|u v w|u v w]; cbn [run_constraint]; cbn [cb] in Hc.
  - pose proof (unify_pairs_b (st_nextv st) dfuel ps (st_smap st) [] Hs (fun x t (F : In (x, t) []) => match F with end) Hc) as U.
    destruct (unify_pairs dfuel (st_smap st) [] ps) as [s' [|e ext0]| |]; try exact I; [|apply stb_refl, H].
    apply wn_B; [exact H|]. cbn [cb]. apply U.
  - destruct Hc as [Hu Hv]. pose proof (wk_tb _ _ u Hs Hu) as Bu. pose proof (wk_tb _ _ v Hs Hv) as Bv.
    destruct (dom_get st (wk (st_smap st) u)), (dom_get st (wk (st_smap st) v)).
    + destruct (fd_copy_before _ f); [|exact I]. cbn [opt_domain]. apply sbind_B; [apply process_domain_B; assumption|intros st1 H1 E1].
      destruct (fd_drop_before _ f0); [|exact I]. cbn [opt_domain]. apply sbind_B; [apply process_domain_B; [exact H1|rewrite E1; exact Bv]|intros st2 H2 E2].
      destruct (Nat.eqb _ _); [apply wc_B|apply rcr_B]; try exact H2; rewrite E2, E1; split; assumption.
    + destruct (get_number (wk (st_smap st) v)); [|apply wc_B; [exact H|split; assumption]].
      destruct (fd_copy_before _ f); [|exact I]. apply process_domain_B; assumption.
    + destruct (get_number (wk (st_smap st) u)); [|apply wc_B; [exact H|split; assumption]].
      destruct (fd_drop_before _ f); [|exact I]. apply process_domain_B; assumption.
    + destruct (get_number (wk (st_smap st) u)), (get_number (wk (st_smap st) v)); try (apply wc_B; [exact H|split; assumption]).
      destruct (Z.leb z z0); [apply stb_refl, H|exact I].
  - destruct Hc as [Hu [Hv Hw]]. apply arith3_B; cbn [cb]; auto.
  - destruct Hc as [Hu [Hv Hw]]. apply arith3_B; cbn [cb]; auto.
  - destruct Hc as [Hu [Hv Hw]]. apply arith3_B; cbn [cb]; auto.
  - destruct Hc as [Hu Hv]. pose proof (wk_tb _ _ u Hs Hu) as Bu. pose proof (wk_tb _ _ v Hs Hv) as Bv.
    assert (Hcc : cb (st_nextv st) (KDiseqFd u v)) by (split; assumption).
    destruct (operand_domain st (wk (st_smap st) u)) as [ud|], (operand_domain st (wk (st_smap st) v)) as [vd|]; try (apply wc_B; assumption).
    destruct (fd_is_singleton ud && fd_is_singleton vd).
    + destruct (Z.eqb _ _); [exact I|apply stb_refl, H].
    + pose proof (wc_B st id (KDiseqFd u v) H Hcc) as [H1 E1].
      destruct (fd_is_disjoint ud vd) as [[|]|]; try (apply stb_refl, H);
        (destruct (fd_is_singleton ud); [destruct (fd_diff vd ud); [|exact I]; eapply sresB_same; [exact E1|apply process_domain_B; [exact H1|rewrite E1; assumption]]|];
         destruct (fd_is_singleton vd); [destruct (fd_diff ud vd); [|exact I]; eapply sresB_same; [exact E1|apply process_domain_B; [exact H1|rewrite E1; assumption]]|apply wc_B; assumption]).
  - pose proof (wk_tb _ _ u Hs Hc) as Bu.
    destruct (wk (st_smap st) u) as [l|xv xa| |h t|g cs] eqn:Eu; try exact I; try (apply wc_B; assumption);
      (destruct (forallb _ _); [|exact I]; destruct (strictly_increasing _); [|exact I];
       eapply sresB_same; [|apply rcr_B; [exact H|]]; [reflexivity|]; cbn [cb bump_nextc st_nextv]; split; [exact Hc|];
       apply filter_tb, list_of_term_tb; exact Bu).
  - destruct Hc as [Hu Hy].
    match goal with |- sresB _ (match ?F ys [] n with _ => _ end) => set (step := F) end.
    assert (SP : forall ys0 x0 n0 x' n', Forall (tb (st_nextv st)) ys0 -> Forall (tb (st_nextv st)) x0 ->
              step ys0 x0 n0 = inl (Some (Some (x', n'))) -> Forall (tb (st_nextv st)) x').
    { induction ys0 as [|y r IH]; intros x0 n0 x' n' Hys Hx0 E; cbn [step] in E.
      - inversion E; subst. apply Forall_rev. exact Hx0.
      - inversion Hys as [|? ? Hy0 Hr]; subst. destruct (wk (st_smap st) y) as [[z| | |]|yv ya| | |]; try discriminate.
        + destruct (insert_sorted_nodup z n0) as [n1|]; [|discriminate]. apply (IH x0 n1 x' n' Hr Hx0 E).
        + apply (IH (y :: x0) n0 x' n' Hr (Forall_cons _ Hy0 Hx0) E). }
    destruct (step ys [] n) as [[[[x n']|]|]|site] eqn:Est; try exact I.
    pose proof (SP ys [] n x n' Hy (Forall_nil _) Est) as Hx.
    assert (Hcc : cb (st_nextv st) (KDistinct2 u x n')) by (split; assumption).
    destruct n' as [|z n']; [apply wn_B; assumption|]. destruct (fd_from_vec (z :: n')); [|exact I].
    pose proof (wn_B st (KDistinct2 u x (z :: n')) H Hcc) as [H1 E1].
    eapply sresB_same; [exact E1|]. apply exclude_B; [exact H1|rewrite E1; exact Hx].
  - destruct Hc as [Hu [Hv Hw]].
    assert (Hcc : cb (st_nextv st) (KPlusZ u v w)) by (repeat split; assumption).
    destruct (wk (st_smap st) u) as [[]| | | |] eqn:Eu, (wk (st_smap st) v) as [[]| | | |] eqn:Ev, (wk (st_smap st) w) as [[]| | | |] eqn:Ew;
      try exact I; try (apply wc_B; assumption);
      try (apply bindz_B; [exact H| |apply tb_val]; first [eapply wk_var_lt; [exact Hs|exact Hw|exact Ew]|eapply wk_var_lt; [exact Hs|exact Hv|exact Ev]|eapply wk_var_lt; [exact Hs|exact Hu|exact Eu]]);
      (destruct (Z.eqb _ _); [apply stb_refl, H|exact I]).
  - destruct Hc as [Hu [Hv Hw]].
    assert (Hcc : cb (st_nextv st) (KTimesZ u v w)) by (repeat split; assumption).
    destruct (wk (st_smap st) u) as [[]| | | |] eqn:Eu, (wk (st_smap st) v) as [[]| | | |] eqn:Ev, (wk (st_smap st) w) as [[]| | | |] eqn:Ew;
      try exact I; try (apply wc_B; assumption);
      try (apply bindz_B; [exact H|eapply wk_var_lt; [exact Hs|exact Hw|exact Ew]|apply tb_val]);
      repeat (match goal with |- sresB _ (if ?b then _ else _) => destruct b end);
      try exact I; try (apply stb_refl, H); try (apply wc_B; assumption);
      try (apply bindz_B; [exact H| |apply tb_val]; first [eapply wk_var_lt; [exact Hs|exact Hv|exact Ev]|eapply wk_var_lt; [exact Hs|exact Hu|exact Eu]]).
Qed.
End Fuelled.

Lemma run_constraints_B : forall f st, stb st -> sresB st (run_constraints f st).
Proof.
  induction f as [|f IH]; intros st H; [exact I|]. cbn [run_constraints].
  set (rc := fix rc (g id : nat) (c : constraint) (st0 : state) {struct g} : sres :=
               match g with O => SOOF | S g' => run_constraint (run_constraints f) (rc g') id c st0 end).
  assert (RC : forall g id c st0, stb st0 -> cb (st_nextv st0) c -> sresB st0 (rc g id c st0)).
  { induction g as [|g IHg]; intros; [exact I|]. cbn [rc]. apply run_constraint_B; auto. }
  generalize (map fst (st_cstore st)). intros ids. revert st H.
  induction ids as [|id r IHr]; intros st H; [apply stb_refl, H|].
  unfold take_constraint. destruct (find_id id (st_cstore st)) as [c|] eqn:Ef; [|apply IHr, H].
  set (st1 := log_event (set_cstore st (remove_id id (st_cstore st))) (UTake id)).
  assert (H1 : stb st1).
  { destruct H as [Hs [Hc Hd]]. split; [exact Hs|]. split; [|exact Hd]. intros i c' Hin. apply (Hc i c'). cbn in Hin. eapply remove_id_in; eauto. }
  assert (Hcb : cb (st_nextv st1) c) by (apply (proj1 (proj2 H) id c), find_id_in, Ef).
  eapply sresB_same; [|apply sbind_B; [apply RC; assumption|intros st2 H2 E2; apply IHr, H2]]. reflexivity.
Qed.
Lemma run_constraint_top_B : forall g f id c st, stb st -> cb (st_nextv st) c -> sresB st (run_constraint_top g f id c st).
Proof.
  induction g as [|g IH]; intros; [exact I|]. cbn [run_constraint_top].
  apply run_constraint_B; auto. apply run_constraints_B.
Qed.
Theorem post_constraint_B c st : stb st -> cb (st_nextv st) c -> sresB st (post_constraint c st).
Proof. intros H Hc. unfold post_constraint. eapply sresB_same; [|apply run_constraint_top_B; [exact H|exact Hc]]. reflexivity. Qed.
Theorem post_domain_B x d st : stb st -> tb (st_nextv st) x -> sresB st (post_domain x d st).
Proof. intros H Hx. apply process_domain_B; [apply run_constraints_B|exact H|apply wk_tb; [apply H|exact Hx]]. Qed.

Lemma process_extension_B ds : forall e st, stb st -> smapb (st_nextv st) e -> sresB st (process_extension_fd ds e st).
Proof.
  induction e as [|[x v] r IH]; intros st H He; cbn [process_extension_fd]; [apply stb_refl, H|].
  assert (Hr : smapb (st_nextv st) r) by (intros y t Hin; apply He; right; exact Hin).
  destruct (find_id x ds); [|apply IH; assumption].
  apply sbind_B; [apply process_domain_B; [apply run_constraints_B|exact H|apply (He x v); left; reflexivity]|intros st1 H1 E1].
  destruct (find_id x (st_dstore st1)); [|exact I].
  assert (H1' : stb (dom_remove st1 x)).
  { destruct H1 as [Hs [Hc Hd]]. split; [exact Hs|]. split; [exact Hc|]. intros y d Hin. apply (Hd y d). cbn in Hin. eapply remove_id_in; eauto. }
  eapply sresB_same; [|apply sbind_B; [apply run_constraints_B, H1'|intros st2 H2 E2; apply IH; [exact H2|rewrite E2; cbn; rewrite E1; exact Hr]]]. reflexivity.
Qed.

Theorem state_unify_B st u v : stb st -> tb (st_nextv st) u -> tb (st_nextv st) v -> sresB st (state_unify st u v).
Proof.
  intros H Hu Hv. unfold state_unify.
  pose proof (proj1 (unify_b (st_nextv st) dfuel) (st_smap st) [] u v (proj1 H) (fun x t (F : In (x, t) []) => match F with end) Hu Hv) as U.
  destruct (unify dfuel (st_smap st) [] u v) as [s' e| |]; try exact I. destruct U as [Hs' He].
  assert (H1 : stb (set_smap st s')) by (destruct H as [_ [Hc Hd]]; split; [exact Hs'|split; assumption]).
  eapply sresB_same; [|apply sbind_B; [apply run_constraints_B, H1|intros st2 H2 E2]]; [reflexivity|].
  apply sbind_B; [apply process_extension_B; [exact H2|]|].
  - rewrite E2. cbn. intros x t Hin. apply He. apply in_rev. exact Hin.
  - intros st3 H3 E3. split; [exact H3|reflexivity].
Qed.
Theorem state_disunify_B st u v : stb st -> tb (st_nextv st) u -> tb (st_nextv st) v -> sresB st (state_disunify st u v).
Proof.
  intros H Hu Hv. unfold state_disunify.
  pose proof (proj1 (unify_b (st_nextv st) dfuel) (st_smap st) [] u v (proj1 H) (fun x t (F : In (x, t) []) => match F with end) Hu Hv) as U.
  destruct (unify dfuel (st_smap st) [] u v) as [s' [|e r]| |]; try exact I; [|apply stb_refl, H].
  apply wn_B; [exact H|]. cbn [cb]. apply U.
Qed.

Lemma stb_empty n : stb (empty_state n).
Proof. split; [intros x t []|]. split; [intros i c []|intros x d []]. Qed.
Lemma stb_nextv st n : st_nextv st <= n -> stb st -> stb (set_nextv st n).
Proof.
  intros L [Hs [Hc Hd]]. split; [|split].
  - intros x t Hin. destruct (Hs x t Hin). split; [cbn; lia|eapply tb_mono; eauto].
  - intros i c Hin. eapply cb_mono; [exact L|apply (Hc i c Hin)].
  - intros x d Hin. specialize (Hd x d Hin). cbn. lia.
Qed.
