(* A generic pass over the state operations.  If a relation R between states is reflexive and
   transitive and holds for the primitive changes the operations are made of - storing a constraint,
   taking one, drawing a constraint identity, inserting a domain for a walked (hence unbound)
   variable, binding a walked variable to a number, removing the domain of a bound variable,
   installing a successful unification, logging - then R relates the state every operation starts
   from to the state it returns: posting a constraint or a domain, == and !=, for all fuel. *)
From Coq Require Import List ZArith Bool Arith Lia.
From PV Require Import Model.Term Model.Subst Model.Unify Model.FD Model.State Model.Engine
  Proofs.UnifyProofs Proofs.MonoProofs.
Import ListNotations.

Section Pass.
Variable R : state -> state -> Prop.
Hypothesis R_refl : forall st, R st st.
Hypothesis R_trans : forall a b c, R a b -> R b c -> R a c.
Hypothesis R_wc : forall st id c, R st (with_constraint_id st id c).
Hypothesis R_bump : forall st, R st (bump_nextc st).
Hypothesis R_take : forall st id, R st (fst (take_constraint st id)).
Hypothesis R_ins : forall st x v a d, wk (st_smap st) x = TVar v a -> R st (dom_insert st v d).
Hypothesis R_bind : forall st x v a n, wk (st_smap st) x = TVar v a ->
  R st (dom_remove (set_smap st ((v, tnum n) :: st_smap st)) v).
Hypothesis R_bindz : forall st x v a n, wk (st_smap st) x = TVar v a ->
  R st (set_smap st ((v, tnum n) :: st_smap st)).
Hypothesis R_unify : forall st u v s' e, unify dfuel (st_smap st) [] u v = UOk s' e -> R st (set_smap st s').
(* the domain of a variable that an earlier unification bound *)
Hypothesis R_domrm : forall st x t, In (x, t) (st_smap st) -> R st (dom_remove st x).
Hypothesis R_log : forall st e, R st (log_event st e).

Definition sresR (st : state) (r : sres) : Prop := match r with SOk st' => R st st' | _ => True end.

Lemma R_wn st c : R st (with_new_constraint st c).
Proof. unfold with_new_constraint. eapply R_trans; [apply R_bump|]. apply (R_wc (bump_nextc st)). Qed.
Lemma sbind_R st r k : sresR st r -> (forall st1, R st st1 -> sresR st1 (k st1)) -> sresR st (sbind r k).
Proof.
  destruct r as [st1| | |]; cbn [sbind sresR]; auto. intros E1 Hk. specialize (Hk st1 E1).
  destruct (k st1); cbn in *; auto. eapply R_trans; eauto.
Qed.
Lemma opt_domain_R st o k : (forall d, sresR st (k d)) -> sresR st (opt_domain o k).
Proof. destruct o; cbn; auto. Qed.
Lemma sresR_then st st1 r : R st st1 -> sresR st1 r -> sresR st r.
Proof. intros H. destruct r; cbn; auto. apply R_trans, H. Qed.

Section Fuelled.
Variable rcs : state -> sres.
Hypothesis rcs_R : forall st, sresR st (rcs st).

Lemma process_domain_R st x d : sresR st (process_domain rcs st x d).
Proof.
  unfold process_domain. destruct (wk (st_smap st) x) as [[]|v a| | |] eqn:Ex; try exact I.
  - match goal with |- sresR _ (if ?b then _ else _) => destruct b end; [apply R_refl|exact I].
  - unfold update_var_domain, resolve_storable_domain.
    assert (K : forall dd, sresR st (match fd_singleton_value dd with
                | Some n => rcs (dom_remove (set_smap st ((v, tnum n) :: st_smap st)) v)
                | None => SOk (dom_insert st v dd) end)).
    { intros dd. destruct (fd_singleton_value dd).
      - eapply sresR_then; [eapply R_bind; exact Ex|apply rcs_R].
      - eapply R_ins; exact Ex. }
    destruct (find_id v (st_dstore st)) as [old|]; [|apply K]. destruct (fd_intersect old d); [apply K|exact I].
Qed.
Lemma exclude_R ds excl : forall xs st, sresR st (exclude_from_domain rcs ds st xs excl).
Proof.
  induction xs as [|y r IH]; intros st; cbn [exclude_from_domain]; [apply R_refl|].
  destruct (match y with TVar v _ => find_id v ds | _ => None end); [|apply IH].
  destruct (fd_diff f excl); [|exact I]. apply sbind_R; [apply process_domain_R|intros; apply IH].
Qed.

Variable rcr : nat -> constraint -> state -> sres.
Hypothesis rcr_R : forall id c st, sresR st (rcr id c st).

Lemma arith3_R id c st u v w gr a1 a2 a3 a4 a5 a6 : sresR st (arith3 rcs rcr id c st u v w gr a1 a2 a3 a4 a5 a6).
Proof.
  unfold arith3.
  destruct (get_number (wk (st_smap st) u)), (get_number (wk (st_smap st) v)), (get_number (wk (st_smap st) w));
    try (match goal with |- sresR _ (if ?b then _ else _) => destruct b; [apply R_refl|exact I] end);
    (destruct (operand_domain st (wk (st_smap st) u)), (operand_domain st (wk (st_smap st) v)),
              (operand_domain st (wk (st_smap st) w)); try apply R_wc;
     apply sbind_R; [apply process_domain_R|intros st1 _];
     apply sbind_R; [apply process_domain_R|intros st2 _];
     apply sbind_R; [apply process_domain_R|intros st3 _];
     destruct (Nat.eqb _ _); [apply R_wc|apply rcr_R]).
Qed.

Lemma rcs_bindz st x v a n : wk (st_smap st) x = TVar v a -> sresR st (rcs (set_smap st ((v, tnum n) :: st_smap st))).
Proof. intros E. eapply sresR_then; [eapply R_bindz; exact E|apply rcs_R]. Qed.

Lemma run_constraint_R id c st : sresR st (run_constraint rcs rcr id c st).
Proof.
  destruct c as [ps|u v|u v w|u v w|u v w|u v|u|u ys n|u v w|u v w]; cbn [run_constraint].
  - destruct (unify_pairs dfuel (st_smap st) [] ps) as [s' [|e ext0]| |]; try exact I; [apply R_wn|apply R_refl].
  - destruct (dom_get st (wk (st_smap st) u)), (dom_get st (wk (st_smap st) v)).
    + apply opt_domain_R; intros d1. apply sbind_R; [apply process_domain_R|intros st1 _].
      apply opt_domain_R; intros d2. apply sbind_R; [apply process_domain_R|intros st2 _].
      destruct (Nat.eqb _ _); [apply R_wc|apply rcr_R].
    + destruct (get_number (wk (st_smap st) v)); [|apply R_wc]. apply opt_domain_R; intros; apply process_domain_R.
    + destruct (get_number (wk (st_smap st) u)); [|apply R_wc]. apply opt_domain_R; intros; apply process_domain_R.
    + destruct (get_number (wk (st_smap st) u)), (get_number (wk (st_smap st) v)); try apply R_wc.
      destruct (Z.leb z z0); [apply R_refl|exact I].
  - apply arith3_R.
  - apply arith3_R.
  - apply arith3_R.
  - destruct (operand_domain st (wk (st_smap st) u)) as [ud|], (operand_domain st (wk (st_smap st) v)) as [vd|]; try apply R_wc.
    destruct (fd_is_singleton ud && fd_is_singleton vd).
    + destruct (Z.eqb _ _); [exact I|apply R_refl].
    + destruct (fd_is_disjoint ud vd) as [[|]|]; try apply R_refl;
        (destruct (fd_is_singleton ud); [apply opt_domain_R; intros; eapply sresR_then; [apply R_wc|apply process_domain_R]|];
         destruct (fd_is_singleton vd); [apply opt_domain_R; intros; eapply sresR_then; [apply R_wc|apply process_domain_R]|apply R_wc]).
  - destruct (wk (st_smap st) u) as [l|xv xa| |h t|g cs]; try exact I; try apply R_wc;
      (destruct (forallb _ _); [|exact I]; destruct (strictly_increasing _); [|exact I];
       eapply sresR_then; [apply R_bump|apply rcr_R]).
  - match goal with |- sresR _ (match ?X with _ => _ end) => destruct X as [[[[x n']|]|]|site] end; try exact I.
    destruct n' as [|z n']; [apply R_wn|]. destruct (fd_from_vec (z :: n')); [|exact I].
    eapply sresR_then; [apply R_wn|apply exclude_R].
  - destruct (wk (st_smap st) u) as [[]| | | |] eqn:Eu, (wk (st_smap st) v) as [[]| | | |] eqn:Ev, (wk (st_smap st) w) as [[]| | | |] eqn:Ew;
      try exact I; try apply R_wc;
      try (eapply rcs_bindz; exact Eu); try (eapply rcs_bindz; exact Ev); try (eapply rcs_bindz; exact Ew);
      (destruct (Z.eqb _ _); [apply R_refl|exact I]).
  - destruct (wk (st_smap st) u) as [[]| | | |] eqn:Eu, (wk (st_smap st) v) as [[]| | | |] eqn:Ev, (wk (st_smap st) w) as [[]| | | |] eqn:Ew;
      try exact I; try apply R_wc;
      try (eapply rcs_bindz; exact Ew);
      repeat (match goal with |- sresR _ (if ?b then _ else _) => destruct b end);
      try exact I; try apply R_refl; try apply R_wc;
      try (eapply rcs_bindz; exact Eu); try (eapply rcs_bindz; exact Ev); try (eapply rcs_bindz; exact Ew).
Qed.
End Fuelled.

Lemma run_constraints_R : forall f st, sresR st (run_constraints f st).
Proof.
  induction f as [|f IH]; intros st; [exact I|]. cbn [run_constraints].
  set (rc := fix rc (g id : nat) (c : constraint) (st0 : state) {struct g} : sres :=
               match g with O => SOOF | S g' => run_constraint (run_constraints f) (rc g') id c st0 end).
  assert (RC : forall g id c st0, sresR st0 (rc g id c st0)).
  { induction g as [|g IHg]; intros; [exact I|]. cbn [rc]. apply run_constraint_R; auto. }
  generalize (map fst (st_cstore st)). intros ids. revert st.
  induction ids as [|id r IHr]; intros st; [apply R_refl|].
  pose proof (R_take st id) as HT.
  destruct (take_constraint st id) as [st1 [c|]]; cbn [fst] in HT.
  - eapply sresR_then; [exact HT|]. apply sbind_R; [apply RC|intros; apply IHr].
  - eapply sresR_then; [exact HT|]. apply IHr.
Qed.
Lemma run_constraint_top_R : forall g f id c st, sresR st (run_constraint_top g f id c st).
Proof.
  induction g as [|g IH]; intros; [exact I|]. cbn [run_constraint_top].
  apply run_constraint_R; [apply run_constraints_R|apply IH].
Qed.
Theorem post_constraint_R c st : sresR st (post_constraint c st).
Proof. unfold post_constraint. eapply sresR_then; [apply R_bump|apply run_constraint_top_R]. Qed.
Theorem post_domain_R x d st : sresR st (post_domain x d st).
Proof. apply process_domain_R, run_constraints_R. Qed.

Lemma process_extension_R ds : forall e st, (forall x t, In (x, t) e -> In (x, t) (st_smap st)) -> sresR st (process_extension_fd ds e st).
Proof.
  induction e as [|[x v] r IH]; intros st Hin; cbn [process_extension_fd]; [apply R_refl|].
  assert (Hr : forall st1, ext st st1 -> forall y t, In (y, t) r -> In (y, t) (st_smap st1)).
  { intros st1 [new E] y t Hy. rewrite E. apply in_or_app. right. apply Hin. right. exact Hy. }
  destruct (find_id x ds); [|apply IH; intros; apply Hin; right; assumption].
  pose proof (process_domain_E (run_constraints cfuel) (run_constraints_E cfuel) st v f) as E1.
  pose proof (process_domain_R (run_constraints cfuel) (run_constraints_R cfuel) st v f) as R1.
  destruct (process_domain (run_constraints cfuel) st v f) as [st1| | |]; cbn [sbind sresR]; auto.
  cbn in E1, R1. destruct (find_id x (st_dstore st1)); [|exact I].
  assert (Hx : In (x, v) (st_smap st1)) by (destruct E1 as [new E]; rewrite E; apply in_or_app; right; apply Hin; left; reflexivity).
  pose proof (run_constraints_E cfuel (dom_remove st1 x)) as E2.
  pose proof (run_constraints_R cfuel (dom_remove st1 x)) as R2.
  destruct (run_constraints cfuel (dom_remove st1 x)) as [st2| | |]; cbn [sbind sresR]; auto.
  cbn in E2, R2.
  assert (R02 : R st st2) by (eapply R_trans; [exact R1|]; eapply R_trans; [eapply R_domrm; exact Hx|exact R2]).
  eapply sresR_then; [exact R02|]. apply IH. apply Hr. eapply ext_trans; [exact E1|]. exact E2.
Qed.

Theorem state_unify_R st u v : sresR st (state_unify st u v).
Proof.
  unfold state_unify. pose proof (unify_extends dfuel (st_smap st) [] u v) as HE.
  destruct (unify dfuel (st_smap st) [] u v) as [s' e| |] eqn:EU; try exact I.
  destruct (HE s' e eq_refl) as [new [Es Ee]]. rewrite app_nil_r in Ee. subst e.
  pose proof (R_unify st u v s' new EU) as R0.
  pose proof (run_constraints_E cfuel (set_smap st s')) as E1.
  pose proof (run_constraints_R cfuel (set_smap st s')) as R1.
  destruct (run_constraints cfuel (set_smap st s')) as [st2| | |]; cbn [sbind sresR]; auto.
  cbn in E1, R1.
  assert (Hin : forall x t, In (x, t) (rev new) -> In (x, t) (st_smap st2)).
  { intros x t Hx. apply in_rev in Hx. destruct E1 as [n2 E2]. rewrite E2. cbn [set_smap st_smap]. rewrite Es.
    apply in_or_app. right. apply in_or_app. left. exact Hx. }
  pose proof (process_extension_R (st_dstore st2) (rev new) st2 Hin) as R2.
  destruct (process_extension_fd (st_dstore st2) (rev new) st2) as [st3| | |]; cbn [sbind sresR]; auto.
  cbn in R2. eapply R_trans; [exact R0|]. eapply R_trans; [exact R1|]. eapply R_trans; [exact R2|apply R_log].
Qed.
Theorem state_disunify_R st u v : sresR st (state_disunify st u v).
Proof.
  unfold state_disunify. destruct (unify dfuel (st_smap st) [] u v) as [s' [|e r]| |]; try exact I; [apply R_wn|apply R_refl].
Qed.
End Pass.
