(* Scoping over the whole search (C15, C03): in every stream the engine builds for a goal the front end
   elaborated, every state is below its own variable counter, every goal still to be run is below the
   counter of every state it will be run in, so every variable that goal construction draws at run
   time (fresh blocks, patterns, wildcards, closure and relation bodies unfolded again) is different
   from every variable in the state and in everything that is still to run. *)
From Coq Require Import List ZArith Bool Arith Lia.
From PV Require Import Model.Term Model.Subst Model.Unify Model.FD Model.State Model.Engine
  Proofs.UnifyProofs Proofs.MonoProofs Proofs.PanicProofs Proofs.ElabAll Proofs.KeyProofs Proofs.KeyStream.
From PV Require Import Proofs.ScopeElab Proofs.ScopeState.
Import ListNotations.

Definition Ab (n : nat) (g : cgoal) : Prop := Agb n g /\ A_body g.
Definition gbb (n : nat) : cgoal -> Prop := gall (Ab n).

Lemma gall_and (A B : cgoal -> Prop) : forall g, gall A g -> gall B g -> gall (fun c => A c /\ B c) g.
Proof.
  fix IH 1. intros g. destruct g; cbn [gall]; try (intros HA HB; split; assumption).
  - intros [H1 H2] [H3 H4]. split; apply IH; assumption.
  - induction gs as [|c r IHr]; [auto|]. intros [H1 H2] [H3 H4]. split; [apply IH; assumption|apply IHr; assumption].
  - apply IH.
  - intros [H1 [H2 H3]] [H4 [H5 H6]]. repeat split; apply IH; assumption.
  - intros [H1 [H2 H3]] [H4 [H5 H6]]. repeat split; apply IH; assumption.
  - apply IH.
Qed.
Lemma gbb_of n g : gb n g -> body g -> gbb n g.
Proof. apply gall_and. Qed.
Lemma gbb_gb n g : gbb n g -> gb n g.
Proof. apply gall_impl. intros c [H _]. exact H. Qed.
Lemma gbb_body n g : gbb n g -> body g.
Proof. apply gall_impl. intros c [_ H]. exact H. Qed.
Lemma gbb_mono n m g : n <= m -> gbb n g -> gbb m g.
Proof. intros L H. apply gbb_of; [eapply gb_mono; [exact L|apply gbb_gb, H]|eapply gbb_body; eauto]. Qed.
Lemma Ab_succeed n : Ab n CSucceed. Proof. split; exact I. Qed.
Lemma Ab_fail n : Ab n CFail. Proof. split; exact I. Qed.
Lemma gbb_conde n k gs : gbb n (CConde k gs) <-> Forall (gbb n) gs.
Proof. apply gall_conde. Qed.

(* every state in the stream has a counter >= m *)
Fixpoint lbL (m : nat) (l : lzy) : Prop :=
  match l with
  | LBind l' _ | LBindDFS l' _ => lbL m l'
  | LMPlus a b | LMPlusDFS a b => lbL m a /\ lbL m b
  | LPause st _ | LPauseDFS st _ => m <= st_nextv st
  | LDelay s => lbS m s
  end
with lbS (m : nat) (s : stream) : Prop :=
  match s with
  | SEmpty | SErr _ _ => True
  | SUnit st => m <= st_nextv st
  | SLazy l => lbL m l
  | SCons st l => m <= st_nextv st /\ lbL m l
  end.
(* states are scoped; each pending goal is scoped for every state it will meet *)
Fixpoint scL (l : lzy) : Prop :=
  match l with
  | LBind l' g | LBindDFS l' g => scL l' /\ exists m, gbb m g /\ lbL m l'
  | LMPlus a b | LMPlusDFS a b => scL a /\ scL b
  | LPause st g | LPauseDFS st g => stb st /\ gbb (st_nextv st) g
  | LDelay s => scS s
  end
with scS (s : stream) : Prop :=
  match s with
  | SEmpty | SErr _ _ => True
  | SUnit st => stb st
  | SLazy l => scL l
  | SCons st l => stb st /\ scL l
  end.
Definition okS (m : nat) (s : stream) : Prop := scS s /\ lbS m s.
Definition okL (m : nat) (l : lzy) : Prop := scL l /\ lbL m l.

Lemma lb_mono : forall m m', m' <= m -> (forall l, lbL m l -> lbL m' l) /\ (forall s, lbS m s -> lbS m' s).
Proof.
  intros m m' L.
  assert (HL : forall l, lbL m l -> lbL m' l).
  { fix IHl 1. intros l. destruct l as [l0 g|a b|st g|l0 g|a b|st g|s]; cbn [lbL].
    - apply IHl.
    - intros [A B]; split; apply IHl; assumption.
    - intros; lia.
    - apply IHl.
    - intros [A B]; split; apply IHl; assumption.
    - intros; lia.
    - destruct s as [|st|l0|st l0|o p]; cbn [lbS]; [exact (fun H => H)|intros; lia|apply IHl|intros [A B]; split; [lia|apply IHl, B]|exact (fun H => H)]. }
  split; [exact HL|]. intros s. destruct s as [|st|l0|st l0|o p]; cbn [lbS]; [exact (fun H => H)|intros; lia|apply HL|intros [A B]; split; [lia|apply HL, B]|exact (fun H => H)].
Qed.
Lemma okS_mono m m' s : m' <= m -> okS m s -> okS m' s.
Proof. intros L [A B]. split; [exact A|apply (proj2 (lb_mono m m' L)), B]. Qed.
Lemma okL_mono m m' l : m' <= m -> okL m l -> okL m' l.
Proof. intros L [A B]. split; [exact A|apply (proj1 (lb_mono m m' L)), B]. Qed.

Lemma sres_stream_ok st r : sresB st r -> okS (st_nextv st) (sres_stream r).
Proof. destruct r; cbn; try (intros; split; exact I). intros [H E]. split; [exact H|cbn; lia]. Qed.
Lemma mplus_ok m s l : okS m s -> okL m l -> okS m (mplus s l).
Proof. unfold okS, okL. destruct s; cbn; tauto. Qed.
Lemma mplus_dfs_ok m s l : okS m s -> okL m l -> okS m (mplus_dfs s l).
Proof. unfold okS, okL. destruct s; cbn; tauto. Qed.
Lemma mplus_k_ok k m s l : okS m s -> okL m l -> okS m (mplus_k k s l).
Proof. destruct k; [apply mplus_ok|apply mplus_dfs_ok]. Qed.
Lemma lazy_bind_ok m l g : okL m l -> gbb m g -> okS m (lazy_bind l g).
Proof. unfold lazy_bind, okS, okL. destruct (is_succeed g), (is_fail g); cbn; intros [A B] G; try tauto. split; [split; [exact A|exists m; auto]|exact B]. Qed.
Lemma lazy_bind_dfs_ok m l g : okL m l -> gbb m g -> okS m (lazy_bind_dfs l g).
Proof. unfold lazy_bind_dfs, okS, okL. destruct (is_succeed g), (is_fail g); cbn; intros [A B] G; try tauto. split; [split; [exact A|exists m; auto]|exact B]. Qed.
Lemma lazy_bind_k_ok k m l g : okL m l -> gbb m g -> okS m (lazy_bind_k k l g).
Proof. destruct k; [apply lazy_bind_ok|apply lazy_bind_dfs_ok]. Qed.
Lemma bind_ok m s g : okS m s -> gbb m g -> okS m (bind s g).
Proof.
  unfold bind. destruct (is_succeed g); [auto|]. destruct (is_fail g); [intros; split; exact I|].
  destruct s; intros [A B] G; try (split; exact I).
  - cbn in *. split; [split; [exact A|eapply gbb_mono; eauto]|exact B].
  - apply lazy_bind_ok; [split; assumption|exact G].
  - cbn in *. destruct A as [A1 A2], B as [B1 B2]. split; [|split; assumption].
    split; [split; [exact A1|eapply gbb_mono; eauto]|]. split; [exact A2|exists m; auto].
Qed.
Lemma bind_dfs_ok m s g : okS m s -> gbb m g -> okS m (bind_dfs s g).
Proof.
  unfold bind_dfs. destruct (is_succeed g); [auto|]. destruct (is_fail g); [intros; split; exact I|].
  destruct s; intros [A B] G; try (split; exact I).
  - cbn in *. split; [split; [exact A|eapply gbb_mono; eauto]|exact B].
  - apply lazy_bind_dfs_ok; [split; assumption|exact G].
  - cbn in *. destruct A as [A1 A2], B as [B1 B2]. split; [|split; assumption].
    split; [split; [exact A1|eapply gbb_mono; eauto]|]. split; [exact A2|exists m; auto].
Qed.
Lemma pause_k_ok k st g : stb st -> gbb (st_nextv st) g -> okL (st_nextv st) (pause_k k st g).
Proof. destruct k; cbn; intros; split; cbn; auto. Qed.

Lemma step_with_ok startf : (forall g st, stb st -> gbb (st_nextv st) g -> okS (st_nextv st) (startf g st)) ->
  forall l m, okL m l -> okS m (step_with startf l).
Proof.
  intros Hs. induction l; intros m [A B]; cbn [step_with scL lbL] in *.
  - destruct A as [A1 [m0 [G0 L0]]]. pose proof (IHl (Nat.max m m0)) as H.
    assert (HL : lbL (Nat.max m m0) l).
    { clear -B L0. destruct (Nat.max_spec m m0) as [[_ ->]|[_ ->]]; assumption. }
    specialize (H (conj A1 HL)). eapply okS_mono; [apply Nat.le_max_l|]. apply bind_ok; [exact H|]. eapply gbb_mono; [apply Nat.le_max_r|exact G0].
  - destruct A, B. apply mplus_ok; [apply IHl1; split; assumption|split; assumption].
  - destruct A as [A1 A2]. eapply okS_mono; [exact B|]. apply Hs; assumption.
  - destruct A as [A1 [m0 [G0 L0]]]. pose proof (IHl (Nat.max m m0)) as H.
    assert (HL : lbL (Nat.max m m0) l).
    { clear -B L0. destruct (Nat.max_spec m m0) as [[_ ->]|[_ ->]]; assumption. }
    specialize (H (conj A1 HL)). eapply okS_mono; [apply Nat.le_max_l|]. apply bind_dfs_ok; [exact H|]. eapply gbb_mono; [apply Nat.le_max_r|exact G0].
  - destruct A, B. apply mplus_dfs_ok; [apply IHl1; split; assumption|split; assumption].
  - destruct A as [A1 A2]. eapply okS_mono; [exact B|]. apply Hs; assumption.
  - split; assumption.
Qed.
Lemma mature_ok stepf m : (forall l, okL m l -> okS m (stepf l)) -> forall f s, okS m s -> okS m (mature stepf f s).
Proof. intros Hs. induction f as [|f IH]; intros s H; [split; exact I|]. cbn [mature]. destruct s; auto. Qed.
Lemma trunc_ok m s : okS m s -> okS m (trunc_of s).
Proof. unfold okS. destruct s; cbn; tauto. Qed.

(* terms reached from scoped terms through a scoped substitution are scoped *)
Lemma walk_star_tb n s : smapb n s -> forall f,
  (forall t t', tb n t -> walk_star f s t = Some t' -> tb n t') /\
  (forall ts ts', tsb n ts -> walk_star_list f s ts = Some ts' -> tsb n ts').
Proof.
  intros Hs. induction f as [|f [IHt IHl]]; [split; intros; discriminate|]. split.
  - intros t t' Ht H. cbn [walk_star] in H. pose proof (wk_tb n s t Hs Ht) as Bw.
    destruct (wk s t) as [l|v a| |h tl|g cs]; try (inversion H; subst; exact Bw).
    + apply tb_cons in Bw as [B1 B2]. destruct (walk_star f s h) as [h'|] eqn:Eh; [|discriminate].
      destruct (walk_star f s tl) as [tl'|] eqn:Et; [|discriminate]. inversion H; subst.
      apply tb_cons. split; [apply (IHt h h' B1 Eh)|apply (IHt tl tl' B2 Et)].
    + destruct (walk_star_list f s cs) as [cs'|] eqn:Ec; [|discriminate]. inversion H; subst. apply tb_comp. apply (IHl cs cs' Bw Ec).
  - intros ts ts' Ht H. cbn [walk_star_list] in H. destruct ts as [|t r]; [inversion H; subst; exact Ht|].
    apply tsb_more in Ht as [B1 B2]. destruct (walk_star f s t) as [t'|] eqn:Et; [|discriminate].
    destruct (walk_star_list f s r) as [r'|] eqn:Er; [|discriminate]. inversion H; subst.
    apply tsb_more. split; [apply (IHt t t' B1 Et)|apply (IHl r r' B2 Er)].
Qed.
Lemma project_env_b st rho : stb st -> envb (st_nextv st) rho -> forall xs acc rho',
  envb (st_nextv st) acc -> project_env st rho xs acc = Some rho' -> envb (st_nextv st) rho'.
Proof.
  intros H He. induction xs as [|x r IH]; intros acc rho' Ha E; cbn [project_env] in E; [inversion E; subst; exact Ha|].
  destruct (env_lookup x rho) as [t|] eqn:El; [|eapply IH; eauto].
  destruct (walk_star dfuel (st_smap st) t) as [w|] eqn:Ew; [|discriminate].
  eapply IH; [|exact E]. intros y u [Hin|Hin]; [|eapply Ha; eauto]. inversion Hin; subst.
  eapply (proj1 (walk_star_tb _ _ (proj1 H) dfuel)); [|exact Ew]. eapply He. apply env_lookup_in, El.
Qed.
Lemma flat_children_tb n : forall cs, tsb n cs -> Forall (tb n) (flat_children cs).
Proof.
  fix IH 1. intros cs. destruct cs as [|t r]; intros H; cbn [flat_children]; [constructor|].
  apply tsb_more in H as [B1 B2]. apply Forall_app. split; [|apply IH, B2].
  destruct t as [l|v a| |h tl|g cs']; try (constructor; [exact B1|constructor]).
  destruct (Nat.eqb g opt_tag); [apply IH; exact B1|constructor; [exact B1|constructor]].
Qed.
Lemma list_term_tb n l : Forall (tb n) l -> tb n (list_term l).
Proof. induction 1; cbn [list_term]; [apply tb_empty|]. apply tb_cons. split; assumption. Qed.

Section WithDefs.
Variable defs : list (nat * def).

Lemma elab_gbb f k rho g n : envb n rho -> n <= snd (elab defs f k rho g n) /\ gbb (snd (elab defs f k rho g n)) (fst (elab defs f k rho g n)).
Proof. intros He. destruct (elab_scope defs f k rho g n He) as [L B]. split; [exact L|]. apply gbb_of; [exact B|apply elab_body]. Qed.

Lemma start_ok : forall n g st, stb st -> gbb (st_nextv st) g -> okS (st_nextv st) (start defs n g st).
Proof.
  induction n as [|n IH]; intros g st HP Hg; [split; exact I|].
  assert (Hstep : forall m l, okL m l -> okS m (step_with (start defs n) l)) by (intros m l; apply step_with_ok; exact IH).
  assert (BA : forall m l, Forall (gbb m) l -> gbb m (from_array BFS l)) by (intros; apply (s_from_array (Ab m) (Ab_succeed m) (Ab_fail m)); assumption).
  assert (Elab : forall k rho gl, envb (st_nextv st) rho ->
            okS (st_nextv st) (let '(c, nv) := elab defs efuel k rho gl (st_nextv st) in start defs n c (set_nextv st nv))).
  { intros k rho gl He. destruct (elab_gbb efuel k rho gl (st_nextv st) He) as [L B].
    destruct (elab defs efuel k rho gl (st_nextv st)) as [c nv]. cbn [fst snd] in *.
    eapply okS_mono; [exact L|]. apply (IH c (set_nextv st nv)); [apply stb_nextv; assumption|exact B]. }
  destruct g; cbn [start].
  - split; [exact HP|cbn; lia].
  - split; exact I.
  - destruct Hg as [[Hu Hv] _]. apply sres_stream_ok, state_unify_B; assumption.
  - destruct Hg as [[Hu Hv] _]. apply sres_stream_ok, state_disunify_B; assumption.
  - destruct Hg as [H1 H2]. apply lazy_bind_k_ok; [apply pause_k_ok|]; assumption.
  - apply gbb_conde in Hg. induction Hg as [|c r Hc Hr IHr]; [split; exact I|]. cbn [fold_right].
    apply mplus_k_ok; [apply IH; auto|exact IHr].
  - pose proof (pause_k_ok k st g HP Hg) as H. exact H.
  - apply Elab. apply Hg.
  - destruct (find_def r defs); [|split; exact I]. apply Elab. destruct Hg as [Ha _].
    intros y t Hin. apply in_combine_r in Hin. cbn [Agb] in Ha. rewrite Forall_forall in Ha. apply Ha, Hin.
  - destruct Hg as [H1 [H2 H3]]. pose proof (mature_ok _ _ (Hstep (st_nextv st)) mfuel _ (IH g1 st HP H1)) as Hm.
    destruct (mature _ mfuel (start defs n g1 st)) eqn:E; try (apply bind_ok; [exact Hm|exact H2]); [apply IH; auto|exact Hm].
  - destruct Hg as [H1 [H2 H3]]. pose proof (mature_ok _ _ (Hstep (st_nextv st)) mfuel _ (IH g1 st HP H1)) as Hm.
    destruct (mature _ mfuel (start defs n g1 st)) eqn:E;
      try (apply bind_ok; [apply trunc_ok; exact Hm|exact H2]); [apply IH; auto|exact Hm].
  - apply IH; [exact HP|]. apply (s_conde_from (Ab _) (Ab_succeed _) (Ab_fail _)). repeat constructor; [exact Hg|].
    apply (s_anyo_from (Ab _) (Ab_succeed _) (Ab_fail _)). repeat constructor. exact Hg.
  - destruct Hg as [[He Hel] _].
    match goal with |- okS _ (let '(cs, nv) := ?F elems (st_nextv st) in _) =>
      assert (H : forall m, st_nextv st <= m -> m <= snd (F elems m) /\ Forall (gbb (snd (F elems m))) (fst (F elems m))) end.
    { clear IH Hstep Elab BA. induction elems as [|e r IHr]; intros m Lm; [split; cbn; [lia|constructor]|].
      inversion Hel as [|? ? He0 Hr]; subst. cbn -[efuel elab].
      assert (He1 : envb m ((x, e) :: rho)).
      { intros y t [Hin|Hin]; [inversion Hin; subst; eapply tb_mono; eauto|eapply tb_mono; [exact Lm|eapply He; eauto]]. }
      destruct (elab_gbb efuel k ((x, e) :: rho) (GConj (map GConj cs)) m He1) as [L1 B1].
      destruct (elab defs efuel k ((x, e) :: rho) (GConj (map GConj cs)) m) as [c n1]. cbn [fst snd] in *.
      specialize (IHr Hr n1 ltac:(lia)).
      match goal with |- context [let '(cs0, n2) := ?X in _] => destruct X as [cs1 n2] end. cbn [fst snd] in *. destruct IHr as [L2 B2].
      split; [lia|]. constructor; [eapply gbb_mono; eauto|exact B2]. }
    specialize (H (st_nextv st) (Nat.le_refl _)).
    match goal with |- okS _ (let '(cs, nv) := ?X in _) => destruct X as [cs0 nv] end. cbn [fst snd] in H. destruct H as [L B].
    eapply okS_mono; [exact L|]. apply (IH _ (set_nextv st nv)); [apply stb_nextv; assumption|].
    apply (s_from_iter (Ab nv) (Ab_succeed nv) (Ab_fail nv)). exact B.
  - destruct (project_env st rho xs rho) as [rho'|] eqn:Ep; [|split; exact I]. apply Elab.
    destruct Hg as [He _]. eapply project_env_b; eauto.
  - destruct Hg as [Hx _]. apply sres_stream_ok, post_domain_B; assumption.
  - destruct Hg as [Hc _]. apply sres_stream_ok, post_constraint_B; assumption.
  - split; exact I.
  - split; [exact HP|cbn; lia].
  - destruct Hg as [[Hu Hv] _]. destruct (first_number u); [|split; exact I]. apply sres_stream_ok, state_unify_B; [exact HP|apply tb_val|exact Hv].
  - destruct Hg as [Hx _]. pose proof (wk_tb _ _ x (proj1 HP) Hx) as Bw.
    destruct (wk (st_smap st) x) as [l|v any| |t1 t2|tg ts] eqn:E; try (split; [exact HP|cbn; lia]).
    + destruct (dom_get st (TVar v any)) as [f|]; [|split; [exact HP|cbn; lia]].
      assert (H0 : okS (st_nextv st) SEmpty) by (split; exact I). revert H0. generalize SEmpty.
      induction (fd_iter_rev f) as [|z r IHr]; intros acc Hacc; [exact Hacc|].
      cbn [fold_left]. apply IHr. apply mplus_ok; [|exact Hacc]. apply sres_stream_ok, state_unify_B; [exact HP|apply tb_val|exact Bw].
    + apply tb_cons in Bw as [B1 B2]. destruct (dom_get st (TCons t1 t2)); apply IH; auto; apply BA; repeat constructor; assumption.
    + pose proof (flat_children_tb _ ts Bw) as HF.
      destruct (dom_get st (TComp tg ts)); apply IH; auto; apply BA; apply Forall_forall; intros c Hc;
        apply in_map_iff in Hc; destruct Hc as [v [<- Hv]]; (split; [|exact I]); cbn; rewrite Forall_forall in HF; apply HF, Hv.
  - destruct (verify_all_bound st); [|split; exact I].
    apply IH; [exact HP|]. apply (s_onceo_from (Ab _) (Ab_succeed _) (Ab_fail _)). constructor; [|constructor]. constructor; [|constructor]. split; [|exact I]. cbn [Agb].
    apply list_term_tb. apply Forall_forall. intros t Hin. apply in_map_iff in Hin as [[y d] [<- Hy]]. apply tb_var. apply (proj2 (proj2 HP) y d Hy).
  - destruct Hg as [_ []].
Qed.

Lemma step_ok m l : okL m l -> okS m (step defs l).
Proof. apply step_with_ok. intros; apply start_ok; assumption. Qed.

(* every delivered answer is scoped, and so is everything left in the stream *)
Lemma next_ok : forall k used s a rest used' m, okS m s -> next defs k used s = NAnswer a rest used' -> stb a /\ okS m rest.
Proof.
  induction k as [|k IH]; intros used s a rest used' m Hs H; destruct s; cbn in H; try discriminate.
  - injection H as <- <- _. split; [apply Hs|split; exact I].
  - injection H as <- <- _. destruct Hs as [[A1 A2] [B1 B2]]. split; [exact A1|split; assumption].
  - injection H as <- <- _. split; [apply Hs|split; exact I].
  - eapply IH; [|exact H]. apply step_ok. exact Hs.
  - injection H as <- <- _. destruct Hs as [[A1 A2] [B1 B2]]. split; [exact A1|split; assumption].
Qed.
End WithDefs.
