(* Unbounded completeness of the library relations append and member (C24), over the definitions translated
   from /repo/src/relation/*.rs on every run (Gen/RelDefs.v): whenever the argument VALUES under a valuation
   th that solves the state are in the relation (the inductive AppendV / MemberV of RelSound, any mode, any
   terms), the call delivers after finitely many steps an answer solved by a valuation that agrees with
   th on all variables that existed before the call.  Instance of RelComplete.completeV. *)
From Coq Require Import List ZArith Bool Arith Lia.
From PV Require Import Model.Term Model.Subst Model.Unify Model.FD Model.State Model.Engine Spec.StreamSem
  Proofs.UnifyProofs Proofs.StreamProofs Proofs.EngineProofs Proofs.SemProofs Proofs.FDDen Proofs.FDComp Proofs.FDProg
  Proofs.FairProofs Proofs.Complete0 Proofs.ForceC Proofs.ScopeElab Proofs.ScopeState Proofs.RelSound Gen.RelDefs.
From PV Require Import Proofs.RelComplete.
Import ListNotations.
Local Open Scope nat_scope.

Definition upd (th : val) (v : nat) (t : term) : val := fun x => if Nat.eqb x v then t else th x.
Lemma agree_upd m th th0 v t : agree m th th0 -> m <= v -> agree m th (upd th0 v t).
Proof. intros A L x Hx. unfold upd. destruct (Nat.eqb_spec x v); [lia|apply A, Hx]. Qed.
Ltac upd_simpl := unfold upd;
  repeat match goal with |- context [Nat.eqb ?a ?b] =>
    (replace (Nat.eqb a b) with true by (symmetry; apply Nat.eqb_eq; lia)) ||
    (replace (Nat.eqb a b) with false by (symmetry; apply Nat.eqb_neq; lia)) end; cbv iota.

(* the value-level relations, indexed by the height of the derivation *)
Fixpoint LibV (k : nat) (r : nat) (vals : list term) : Prop :=
  match k with
  | O => False
  | S k =>
      if Nat.eqb r rel_append then
        match vals with
        | [x; y; z] => (x = TEmpty /\ y = z) \/ exists h t w, x = TCons h t /\ z = TCons h w /\ LibV k rel_append [t; y; w]
        | _ => False
        end
      else if Nat.eqb r rel_member then
        match vals with
        | [x; l] => exists h t, l = TCons h t /\ (h = x \/ LibV k rel_member [x; t])
        | _ => False
        end
      else False
  end.

Lemma AppendV_LibV x y z : AppendV x y z -> exists k, LibV k rel_append [x; y; z].
Proof.
  induction 1 as [b|h t b r H [k IH]].
  - exists 1. cbn. left. auto.
  - exists (S k). cbn [LibV]. change (Nat.eqb rel_append rel_append) with true. cbv iota. right. exists h, t, r. auto.
Qed.
Lemma MemberV_LibV x l : MemberV x l -> exists k, LibV k rel_member [x; l].
Proof.
  induction 1 as [t|h t H [k IH]].
  - exists 1. cbn. exists x, t. auto.
  - exists (S k). cbn [LibV]. change (Nat.eqb rel_member rel_append) with false. change (Nat.eqb rel_member rel_member) with true. cbv iota.
    exists h, t. auto.
Qed.

Lemma lib_unfold : forall k r args th m, LibV (S k) r (map (app th) args) -> Forall (tb m) args ->
  exists d c nv th', find_def r lib_defs = Some d /\
    elab lib_defs efuel BFS (combine (d_params d) args) (GConj [d_body d]) m = (c, nv) /\
    agree m th th' /\ DenV LibV k th' c /\ flatV c.
Proof.
  intros k r args th m HR HA. cbn [LibV] in HR.
  destruct (Nat.eqb r rel_append) eqn:Er.
  - apply Nat.eqb_eq in Er. subst r. destruct args as [|a [|b [|c [|? ?]]]]; cbn [map] in HR; try contradiction.
    inversion HA as [|? ? Ba HA1]; subst. inversion HA1 as [|? ? Bb HA2]; subst. inversion HA2 as [|? ? Bc _]; subst.
    destruct HR as [[Ex Ey]|[h [t [w [Ex [Ez HR]]]]]].
    + pose (th' := upd th m (app th b)).
      assert (A : agree m th th') by (apply agree_upd; [apply agree_refl|lia]).
      pose proof (proj1 (app_agree m th th' A)) as AP.
      let v := eval vm_compute in (elab lib_defs efuel BFS (combine (d_params def_append) [a; b; c]) (GConj [d_body def_append]) m) in
        match v with (?c0, ?n0) => exists def_append, c0, n0, th' end.
      split; [reflexivity|]. split; [vm_compute; reflexivity|]. split; [exact A|]. split; [|cbn; auto 10].
      apply V_conj; [|apply V_succeed]. eapply V_conde; [left; reflexivity|]. apply V_conj; [|apply V_succeed]. apply V_eq.
      cbn [app]. rewrite <- (AP a Ba), <- (AP b Bb), <- (AP c Bc). unfold th'. upd_simpl. rewrite Ex, Ey. reflexivity.
    + pose (th' := upd (upd (upd (upd th (S m) t) (S (S m)) (app th b)) (S (S (S m))) h) (S (S (S (S m)))) w).
      assert (A : agree m th th') by (repeat (apply agree_upd; [|lia]); apply agree_refl).
      pose proof (proj1 (app_agree m th th' A)) as AP.
      let v := eval vm_compute in (elab lib_defs efuel BFS (combine (d_params def_append) [a; b; c]) (GConj [d_body def_append]) m) in
        match v with (?c0, ?n0) => exists def_append, c0, n0, th' end.
      split; [reflexivity|]. split; [vm_compute; reflexivity|]. split; [exact A|]. split; [|cbn; auto 10].
      apply V_conj; [|apply V_succeed]. eapply V_conde; [right; left; reflexivity|]. apply V_conj.
      * apply V_eq. cbn [app]. rewrite <- (AP a Ba), <- (AP b Bb), <- (AP c Bc). unfold th'. upd_simpl. rewrite Ex, Ez. reflexivity.
      * apply V_conj; [|apply V_succeed]. apply V_call. cbn [map app]. unfold th'. upd_simpl. exact HR.
  - destruct (Nat.eqb r rel_member) eqn:Em; [|contradiction].
    apply Nat.eqb_eq in Em. subst r. destruct args as [|a [|b [|? ?]]]; cbn [map] in HR; try contradiction.
    inversion HA as [|? ? Ba HA1]; subst. inversion HA1 as [|? ? Bb _]; subst.
    destruct HR as [h [t [El [Eh|HR]]]].
    + pose (th' := upd (upd th m (app th a)) (S m) t).
      assert (A : agree m th th') by (repeat (apply agree_upd; [|lia]); apply agree_refl).
      pose proof (proj1 (app_agree m th th' A)) as AP.
      let v := eval vm_compute in (elab lib_defs efuel BFS (combine (d_params def_member) [a; b]) (GConj [d_body def_member]) m) in
        match v with (?c0, ?n0) => exists def_member, c0, n0, th' end.
      split; [reflexivity|]. split; [vm_compute; reflexivity|]. split; [exact A|]. split; [|cbn; auto 10].
      apply V_conj; [|apply V_succeed]. eapply V_conde; [left; reflexivity|]. apply V_conj.
      * apply V_eq. cbn [app]. rewrite <- (AP b Bb). unfold th'. upd_simpl. rewrite El, Eh. reflexivity.
      * apply V_conj; [|apply V_succeed]. apply V_eq. cbn [app]. rewrite <- (AP a Ba). unfold th'. upd_simpl. reflexivity.
    + pose (th' := upd (upd th (S (S m)) t) (S (S (S m))) h).
      assert (A : agree m th th') by (repeat (apply agree_upd; [|lia]); apply agree_refl).
      pose proof (proj1 (app_agree m th th' A)) as AP.
      let v := eval vm_compute in (elab lib_defs efuel BFS (combine (d_params def_member) [a; b]) (GConj [d_body def_member]) m) in
        match v with (?c0, ?n0) => exists def_member, c0, n0, th' end.
      split; [reflexivity|]. split; [vm_compute; reflexivity|]. split; [exact A|]. split; [|cbn; auto 10].
      apply V_conj; [|apply V_succeed]. eapply V_conde; [right; left; reflexivity|]. apply V_conj.
      * apply V_eq. cbn [app]. rewrite <- (AP b Bb). unfold th'. upd_simpl. rewrite El. reflexivity.
      * apply V_conj; [|apply V_succeed]. apply V_call. cbn [map app]. rewrite <- (AP a Ba). unfold th'. upd_simpl. exact HR.
Qed.

Lemma LibV0 : forall r vals, ~ LibV 0 r vals.
Proof. intros r vals H. exact H. Qed.

Notation sq := (startq lib_defs).

Theorem append_complete : forall x y z, AppendV x y z ->
  forall st th a b c, MstG th st -> GoodS st -> stb st ->
  tb (st_nextv st) a -> tb (st_nextv st) b -> tb (st_nextv st) c ->
  app th a = x -> app th b = y -> app th c = z ->
  exists ans th' n, agree (st_nextv st) th th' /\ MstG th' ans /\ emitsE sq n (sq (CCall BFS rel_append [a; b; c]) st) ans.
Proof.
  intros x y z HV st th a b c HM HG B Ba Bb Bc Ea Eb Ec. destruct (AppendV_LibV x y z HV) as [k Hk].
  apply (completeV_delivered lib_defs LibV LibV0 lib_unfold k); auto.
  - apply V_call. cbn [map]. rewrite Ea, Eb, Ec. exact Hk.
  - reflexivity.
  - cbn. repeat constructor; assumption.
Qed.
Theorem member_complete : forall x l, MemberV x l ->
  forall st th a b, MstG th st -> GoodS st -> stb st ->
  tb (st_nextv st) a -> tb (st_nextv st) b -> app th a = x -> app th b = l ->
  exists ans th' n, agree (st_nextv st) th th' /\ MstG th' ans /\ emitsE sq n (sq (CCall BFS rel_member [a; b]) st) ans.
Proof.
  intros x l HV st th a b HM HG B Ba Bb Ea Eb. destruct (MemberV_LibV x l HV) as [k Hk].
  apply (completeV_delivered lib_defs LibV LibV0 lib_unfold k); auto.
  - apply V_call. cbn [map]. rewrite Ea, Eb. exact Hk.
  - reflexivity.
  - cbn. repeat constructor; assumption.
Qed.
