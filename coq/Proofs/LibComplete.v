(* Unbounded completeness of the library relations append and member (C24), over the definitions translated
   from /repo/src/relation/*.rs on every run (Gen/RelDefs.v): whenever the argument VALUES under a valuation
   th that solves the state are in the relation (the inductive AppendV / MemberV of RelSound, any mode, any
   terms), the call delivers after finitely many steps an answer solved by a valuation that agrees with
   th on all variables that existed before the call.  Instance of RelComplete.completeV. *)
From Coq Require Import List ZArith Bool Arith Lia.
From PV Require Import Model.Term Model.Subst Model.Unify Model.FD Model.State Model.Engine Spec.StreamSem
  Proofs.UnifyProofs Proofs.StreamProofs Proofs.EngineProofs Proofs.SemProofs Proofs.FDDen Proofs.FDComp Proofs.FDProg
  Proofs.FairProofs Proofs.Complete0 Proofs.ForceC Proofs.ScopeElab Proofs.ScopeState Proofs.RelSound Proofs.RelSound2 Gen.RelDefs.
From PV Require Import Proofs.RelComplete.
Import ListNotations.
Local Open Scope nat_scope.

Definition upd (th : val) (v : nat) (t : term) : val := fun x => if Nat.eqb x v then t else th x.
Lemma agree_upd m th th0 v t : agree m th th0 -> m <= v -> agree m th (upd th0 v t).
Proof. intros A L x Hx. unfold upd. destruct (Nat.eqb_spec x v); [lia|apply A, Hx]. Qed.
Ltac upd_simpl := unfold upd;
  repeat match goal with |- context [Nat.eqb ?a ?b] =>
    (replace (Nat.eqb a b) with true by (symmetry; apply Nat.eqb_eq; lia)) ||
    (replace (Nat.eqb a b) with false by (symmetry; apply Nat.eqb_neq; lia)) end; cbv iota.

(* the value-level relations, indexed by the height of the derivation *)
Fixpoint LibV (k : nat) (r : nat) (vals : list term) : Prop :=
  match k with
  | O => False
  | S k =>
      if Nat.eqb r rel_append then
        match vals with
        | [x; y; z] => (x = TEmpty /\ y = z) \/ exists h t w, x = TCons h t /\ z = TCons h w /\ LibV k rel_append [t; y; w]
        | _ => False
        end
      else if Nat.eqb r rel_member then
        match vals with
        | [x; l] => exists h t, l = TCons h t /\ (h = x \/ LibV k rel_member [x; t])
        | _ => False
        end
      else if Nat.eqb r rel_member1 then
        match vals with
        | [x; l] => exists h t, l = TCons h t /\ (h = x \/ (h <> x /\ LibV k rel_member1 [x; t]))
        | _ => False
        end
      else if Nat.eqb r rel_rember then
        match vals with
        | [x; l; o] => (l = TEmpty /\ o = TEmpty) \/ (exists t, l = TCons x t /\ o = t) \/
                       (exists h t w, l = TCons h t /\ o = TCons h w /\ h <> x /\ LibV k rel_rember [x; t; w])
        | _ => False
        end
      else if Nat.eqb r rel_distinct then
        match vals with
        | [l] => l = TEmpty \/ (exists a, l = TCons a TEmpty) \/
                 (exists a b t, l = TCons a (TCons b t) /\ a <> b /\ LibV k rel_distinct [TCons a t] /\ LibV k rel_distinct [TCons b t])
        | _ => False
        end
      else if Nat.eqb r rel_permute then
        match vals with
        | [a; b] => (a = TEmpty /\ b = TEmpty) \/
                    (exists x xs ys, a = TCons x xs /\ LibV k rel_permute [xs; ys] /\ LibV k rel_rember [x; b; ys])
        | _ => False
        end
      else False
  end.

Ltac rel_ids := cbv [rel_append rel_member rel_member1 rel_rember rel_distinct rel_permute Nat.eqb]; cbv iota.

Lemma LibV_mono : forall k r vals, LibV k r vals -> LibV (S k) r vals.
Proof.
  induction k as [|k IH]; intros r vals H; [destruct H|].
  cbn [LibV] in H. change (LibV (S (S k)) r vals) with
    (if Nat.eqb r rel_append then
        match vals with
        | [x; y; z] => (x = TEmpty /\ y = z) \/ exists h t w, x = TCons h t /\ z = TCons h w /\ LibV (S k) rel_append [t; y; w]
        | _ => False
        end
      else if Nat.eqb r rel_member then
        match vals with
        | [x; l] => exists h t, l = TCons h t /\ (h = x \/ LibV (S k) rel_member [x; t])
        | _ => False
        end
      else if Nat.eqb r rel_member1 then
        match vals with
        | [x; l] => exists h t, l = TCons h t /\ (h = x \/ (h <> x /\ LibV (S k) rel_member1 [x; t]))
        | _ => False
        end
      else if Nat.eqb r rel_rember then
        match vals with
        | [x; l; o] => (l = TEmpty /\ o = TEmpty) \/ (exists t, l = TCons x t /\ o = t) \/
                       (exists h t w, l = TCons h t /\ o = TCons h w /\ h <> x /\ LibV (S k) rel_rember [x; t; w])
        | _ => False
        end
      else if Nat.eqb r rel_distinct then
        match vals with
        | [l] => l = TEmpty \/ (exists a, l = TCons a TEmpty) \/
                 (exists a b t, l = TCons a (TCons b t) /\ a <> b /\ LibV (S k) rel_distinct [TCons a t] /\ LibV (S k) rel_distinct [TCons b t])
        | _ => False
        end
      else if Nat.eqb r rel_permute then
        match vals with
        | [a; b] => (a = TEmpty /\ b = TEmpty) \/
                    (exists x xs ys, a = TCons x xs /\ LibV (S k) rel_permute [xs; ys] /\ LibV (S k) rel_rember [x; b; ys])
        | _ => False
        end
      else False).
  destruct (Nat.eqb r rel_append).
  { destruct vals as [|x [|y [|z [|? ?]]]]; try contradiction. destruct H as [H|[h [t [w [A [B C]]]]]]; [left; exact H|right; exists h, t, w; auto]. }
  destruct (Nat.eqb r rel_member).
  { destruct vals as [|x [|l [|? ?]]]; try contradiction. destruct H as [h [t [A [B|B]]]]; exists h, t; auto. }
  destruct (Nat.eqb r rel_member1).
  { destruct vals as [|x [|l [|? ?]]]; try contradiction. destruct H as [h [t [A [B|[B C]]]]]; exists h, t; auto. }
  destruct (Nat.eqb r rel_rember).
  { destruct vals as [|x [|l [|o [|? ?]]]]; try contradiction. destruct H as [H|[H|[h [t [w [A [B [C D]]]]]]]]; [left; exact H|right; left; exact H|].
    right. right. exists h, t, w. auto. }
  destruct (Nat.eqb r rel_distinct).
  { destruct vals as [|l [|? ?]]; try contradiction. destruct H as [H|[H|[a [b [t [A [B [C D]]]]]]]]; [left; exact H|right; left; exact H|].
    right. right. exists a, b, t. auto. }
  destruct (Nat.eqb r rel_permute); [|contradiction].
  destruct vals as [|a [|b [|? ?]]]; try contradiction. destruct H as [H|[x [xs [ys [A [B C]]]]]]; [left; exact H|]. right. exists x, xs, ys. auto.
Qed.
Lemma LibV_le k k' r vals : k <= k' -> LibV k r vals -> LibV k' r vals.
Proof. induction 1; intros HV; auto. apply LibV_mono. auto. Qed.

Lemma AppendV_LibV x y z : AppendV x y z -> exists k, LibV k rel_append [x; y; z].
Proof.
  induction 1 as [b|h t b r H [k IH]].
  - exists 1. cbn. left. auto.
  - exists (S k). cbn [LibV]. change (Nat.eqb rel_append rel_append) with true. cbv iota. right. exists h, t, r. auto.
Qed.
Lemma MemberV_LibV x l : MemberV x l -> exists k, LibV k rel_member [x; l].
Proof.
  induction 1 as [t|h t H [k IH]].
  - exists 1. cbn. exists x, t. auto.
  - exists (S k). cbn [LibV]. change (Nat.eqb rel_member rel_append) with false. change (Nat.eqb rel_member rel_member) with true. cbv iota.
    exists h, t. auto.
Qed.

Lemma Member1V_LibV x l : Member1V x l -> exists k, LibV k rel_member1 [x; l].
Proof.
  induction 1 as [t|h t Hn H [k IH]].
  - exists 1. cbn. exists x, t. auto.
  - exists (S k). cbn [LibV]. rel_ids. exists h, t. auto.
Qed.
Lemma RemberV_LibV x l o : RemberV x l o -> exists k, LibV k rel_rember [x; l; o].
Proof.
  induction 1 as [|t|h t w Hn H [k IH]].
  - exists 1. cbn. left. auto.
  - exists 1. cbn. right. left. exists t. auto.
  - exists (S k). cbn [LibV]. rel_ids. right. right. exists h, t, w. auto.
Qed.
Lemma DistinctV_LibV l : DistinctV l -> exists k, LibV k rel_distinct [l].
Proof.
  induction 1 as [|a|a b t Hn H1 [k1 IH1] H2 [k2 IH2]].
  - exists 1. cbn. left. auto.
  - exists 1. cbn. right. left. exists a. auto.
  - exists (S (k1 + k2)). cbn [LibV]. rel_ids. right. right. exists a, b, t. split; [reflexivity|]. split; [exact Hn|].
    split; [apply (LibV_le k1); [lia|exact IH1]|apply (LibV_le k2); [lia|exact IH2]].
Qed.
Lemma PermuteV_LibV a b : PermuteV a b -> exists k, LibV k rel_permute [a; b].
Proof.
  induction 1 as [|x xs yl ys H1 [k1 IH1] H2].
  - exists 1. cbn. left. auto.
  - destruct (RemberV_LibV _ _ _ H2) as [k2 IH2]. exists (S (k1 + k2)). cbn [LibV]. rel_ids. right. exists x, xs, ys. split; [reflexivity|].
    split; [apply (LibV_le k1); [lia|exact IH1]|apply (LibV_le k2); [lia|exact IH2]].
Qed.

Ltac give def args th' m :=
  let v := eval vm_compute in (elab lib_defs efuel BFS (combine (d_params def) args) (GConj [d_body def]) m) in
  match v with (?c0, ?n0) => exists def, c0, n0, th' end.
Ltac start_case A AP m th th' :=
  assert (A : agree m th th') by (repeat (apply agree_upd; [|lia]); apply agree_refl);
  pose proof (proj1 (app_agree m th th' A)) as AP.

Lemma lib_unfold : forall k r args th m, LibV (S k) r (map (app th) args) -> Forall (tb m) args ->
  exists d c nv th', find_def r lib_defs = Some d /\
    elab lib_defs efuel BFS (combine (d_params d) args) (GConj [d_body d]) m = (c, nv) /\
    agree m th th' /\ DenV lib_defs LibV k th' c /\ flatV c.
Proof.
  intros k r args th m HR HA. cbn [LibV] in HR.
  destruct (Nat.eqb r rel_append) eqn:Er.
  - apply Nat.eqb_eq in Er. subst r. destruct args as [|a [|b [|c [|? ?]]]]; cbn [map] in HR; try contradiction.
    inversion HA as [|? ? Ba HA1]; subst. inversion HA1 as [|? ? Bb HA2]; subst. inversion HA2 as [|? ? Bc _]; subst.
    destruct HR as [[Ex Ey]|[h [t [w [Ex [Ez HR]]]]]].
    + pose (th' := upd th m (app th b)).
      assert (A : agree m th th') by (apply agree_upd; [apply agree_refl|lia]).
      pose proof (proj1 (app_agree m th th' A)) as AP.
      let v := eval vm_compute in (elab lib_defs efuel BFS (combine (d_params def_append) [a; b; c]) (GConj [d_body def_append]) m) in
        match v with (?c0, ?n0) => exists def_append, c0, n0, th' end.
      split; [reflexivity|]. split; [vm_compute; reflexivity|]. split; [exact A|]. split; [|cbn; repeat split; reflexivity].
      apply V_conj; [|apply V_succeed]. eapply V_conde; [left; reflexivity|]. apply V_conj; [|apply V_succeed]. apply V_eq.
      cbn [app]. rewrite <- (AP a Ba), <- (AP b Bb), <- (AP c Bc). unfold th'. upd_simpl. rewrite Ex, Ey. reflexivity.
    + pose (th' := upd (upd (upd (upd th (S m) t) (S (S m)) (app th b)) (S (S (S m))) h) (S (S (S (S m)))) w).
      assert (A : agree m th th') by (repeat (apply agree_upd; [|lia]); apply agree_refl).
      pose proof (proj1 (app_agree m th th' A)) as AP.
      let v := eval vm_compute in (elab lib_defs efuel BFS (combine (d_params def_append) [a; b; c]) (GConj [d_body def_append]) m) in
        match v with (?c0, ?n0) => exists def_append, c0, n0, th' end.
      split; [reflexivity|]. split; [vm_compute; reflexivity|]. split; [exact A|]. split; [|cbn; repeat split; reflexivity].
      apply V_conj; [|apply V_succeed]. eapply V_conde; [right; left; reflexivity|]. apply V_conj.
      * apply V_eq. cbn [app]. rewrite <- (AP a Ba), <- (AP b Bb), <- (AP c Bc). unfold th'. upd_simpl. rewrite Ex, Ez. reflexivity.
      * apply V_conj; [|apply V_succeed]. apply V_call. cbn [map app]. unfold th'. upd_simpl. exact HR.
  - destruct (Nat.eqb r rel_member) eqn:Em; [|destruct (Nat.eqb r rel_member1) eqn:Em1; [|destruct (Nat.eqb r rel_rember) eqn:Er4;
      [|destruct (Nat.eqb r rel_distinct) eqn:Ed; [|destruct (Nat.eqb r rel_permute) eqn:Ep; [|contradiction]]]]].
    apply Nat.eqb_eq in Em. subst r. destruct args as [|a [|b [|? ?]]]; cbn [map] in HR; try contradiction.
    inversion HA as [|? ? Ba HA1]; subst. inversion HA1 as [|? ? Bb _]; subst.
    destruct HR as [h [t [El [Eh|HR]]]].
    + pose (th' := upd (upd th m (app th a)) (S m) t).
      assert (A : agree m th th') by (repeat (apply agree_upd; [|lia]); apply agree_refl).
      pose proof (proj1 (app_agree m th th' A)) as AP.
      let v := eval vm_compute in (elab lib_defs efuel BFS (combine (d_params def_member) [a; b]) (GConj [d_body def_member]) m) in
        match v with (?c0, ?n0) => exists def_member, c0, n0, th' end.
      split; [reflexivity|]. split; [vm_compute; reflexivity|]. split; [exact A|]. split; [|cbn; repeat split; reflexivity].
      apply V_conj; [|apply V_succeed]. eapply V_conde; [left; reflexivity|]. apply V_conj.
      * apply V_eq. cbn [app]. rewrite <- (AP b Bb). unfold th'. upd_simpl. rewrite El, Eh. reflexivity.
      * apply V_conj; [|apply V_succeed]. apply V_eq. cbn [app]. rewrite <- (AP a Ba). unfold th'. upd_simpl. reflexivity.
    + pose (th' := upd (upd th (S (S m)) t) (S (S (S m))) h).
      assert (A : agree m th th') by (repeat (apply agree_upd; [|lia]); apply agree_refl).
      pose proof (proj1 (app_agree m th th' A)) as AP.
      let v := eval vm_compute in (elab lib_defs efuel BFS (combine (d_params def_member) [a; b]) (GConj [d_body def_member]) m) in
        match v with (?c0, ?n0) => exists def_member, c0, n0, th' end.
      split; [reflexivity|]. split; [vm_compute; reflexivity|]. split; [exact A|]. split; [|cbn; repeat split; reflexivity].
      apply V_conj; [|apply V_succeed]. eapply V_conde; [right; left; reflexivity|]. apply V_conj.
      * apply V_eq. cbn [app]. rewrite <- (AP b Bb). unfold th'. upd_simpl. rewrite El. reflexivity.
      * apply V_conj; [|apply V_succeed]. apply V_call. cbn [map app]. rewrite <- (AP a Ba). unfold th'. upd_simpl. exact HR.
    + (* member1 *)
      apply Nat.eqb_eq in Em1. subst r. destruct args as [|a [|b [|? ?]]]; cbn [map] in HR; try contradiction.
      inversion HA as [|? ? Ba HA1]; subst. inversion HA1 as [|? ? Bb _]; subst.
      destruct HR as [h [t [El [Eh|[Hn HR]]]]].
      * pose (th' := upd (upd th m (app th a)) (S m) t). start_case A AP m th th'. give def_member1 [a; b] th' m.
        split; [reflexivity|]. split; [vm_compute; reflexivity|]. split; [exact A|]. split; [|cbn; repeat split; reflexivity].
        apply V_conj; [|apply V_succeed]. eapply V_conde; [left; reflexivity|]. apply V_conj.
        -- apply V_eq. cbn [app]. rewrite <- (AP b Bb). unfold th'. upd_simpl. rewrite El, Eh. reflexivity.
        -- apply V_conj; [|apply V_succeed]. apply V_eq. cbn [app]. rewrite <- (AP a Ba). unfold th'. upd_simpl. reflexivity.
      * pose (th' := upd (upd th (S (S m)) h) (S (S (S m))) t). start_case A AP m th th'. give def_member1 [a; b] th' m.
        split; [reflexivity|]. split; [vm_compute; reflexivity|]. split; [exact A|]. split; [|cbn; repeat split; reflexivity].
        apply V_conj; [|apply V_succeed]. eapply V_conde; [right; left; reflexivity|]. apply V_conj.
        -- apply V_eq. cbn [app]. rewrite <- (AP b Bb). unfold th'. upd_simpl. rewrite El. reflexivity.
        -- apply V_conj; [|apply V_succeed]. apply V_conj.
           ++ apply V_diseq. cbn [app]. rewrite <- (AP a Ba). unfold th'. upd_simpl. exact Hn.
           ++ apply V_conj; [|apply V_succeed]. apply V_call. cbn [map app]. rewrite <- (AP a Ba). unfold th'. upd_simpl. exact HR.
    + (* rember *)
      apply Nat.eqb_eq in Er4. subst r. destruct args as [|a [|b [|c [|? ?]]]]; cbn [map] in HR; try contradiction.
      inversion HA as [|? ? Ba HA1]; subst. inversion HA1 as [|? ? Bb HA2]; subst. inversion HA2 as [|? ? Bc _]; subst.
      destruct HR as [[El Eo]|[[t [El Eo]]|[h [t [w [El [Eo [Hn HR]]]]]]]].
      * pose (th' := th). start_case A AP m th th'. give def_rember [a; b; c] th' m.
        split; [reflexivity|]. split; [vm_compute; reflexivity|]. split; [exact A|]. split; [|cbn; repeat split; reflexivity].
        apply V_conj; [|apply V_succeed]. eapply V_conde; [left; reflexivity|]. apply V_conj; [|apply V_succeed].
        apply V_eq. cbn [app]. unfold th'. rewrite El, Eo. reflexivity.
      * pose (th' := upd (upd th m (app th a)) (S m) t). start_case A AP m th th'. give def_rember [a; b; c] th' m.
        split; [reflexivity|]. split; [vm_compute; reflexivity|]. split; [exact A|]. split; [|cbn; repeat split; reflexivity].
        apply V_conj; [|apply V_succeed]. eapply V_conde; [right; left; reflexivity|]. apply V_conj.
        -- apply V_eq. cbn [app]. rewrite <- (AP b Bb), <- (AP c Bc). unfold th'. upd_simpl. rewrite El, Eo. reflexivity.
        -- apply V_conj; [|apply V_succeed]. apply V_eq. cbn [app]. rewrite <- (AP a Ba). unfold th'. upd_simpl. reflexivity.
      * pose (th' := upd (upd (upd th (S (S m)) t) (S (S (S m))) h) (S (S (S (S m)))) w). start_case A AP m th th'. give def_rember [a; b; c] th' m.
        split; [reflexivity|]. split; [vm_compute; reflexivity|]. split; [exact A|]. split; [|cbn; repeat split; reflexivity].
        apply V_conj; [|apply V_succeed]. eapply V_conde; [right; right; left; reflexivity|]. apply V_conj.
        -- apply V_eq. cbn [app]. rewrite <- (AP b Bb), <- (AP c Bc). unfold th'. upd_simpl. rewrite El, Eo. reflexivity.
        -- apply V_conj.
           ++ apply V_diseq. cbn [app]. rewrite <- (AP a Ba). unfold th'. upd_simpl. exact Hn.
           ++ apply V_conj; [|apply V_succeed]. apply V_call. cbn [map app]. rewrite <- (AP a Ba). unfold th'. upd_simpl. exact HR.
    + (* distinct *)
      apply Nat.eqb_eq in Ed. subst r. destruct args as [|a [|? ?]]; cbn [map] in HR; try contradiction.
      inversion HA as [|? ? Ba _]; subst.
      destruct HR as [El|[[x El]|[x [y [t [El [Hn [H1 H2]]]]]]]].
      * pose (th' := th). start_case A AP m th th'. give def_distinct [a] th' m.
        split; [reflexivity|]. split; [vm_compute; reflexivity|]. split; [exact A|]. split; [|cbn; repeat split; reflexivity].
        apply V_conj; [|apply V_succeed]. eapply V_conde; [left; reflexivity|]. apply V_conj; [|apply V_succeed].
        apply V_eq. cbn [app]. unfold th'. exact El.
      * pose (th' := upd th m x). start_case A AP m th th'. give def_distinct [a] th' m.
        split; [reflexivity|]. split; [vm_compute; reflexivity|]. split; [exact A|]. split; [|cbn; repeat split; reflexivity].
        apply V_conj; [|apply V_succeed]. eapply V_conde; [right; left; reflexivity|]. apply V_conj; [|apply V_succeed].
        apply V_eq. cbn [app]. rewrite <- (AP a Ba). unfold th'. upd_simpl. exact El.
      * pose (th' := upd (upd (upd th (S m) x) (S (S m)) y) (S (S (S m))) t). start_case A AP m th th'. give def_distinct [a] th' m.
        split; [reflexivity|]. split; [vm_compute; reflexivity|]. split; [exact A|]. split; [|cbn; repeat split; reflexivity].
        apply V_conj; [|apply V_succeed]. eapply V_conde; [right; right; left; reflexivity|]. apply V_conj.
        -- apply V_eq. cbn [app]. rewrite <- (AP a Ba). unfold th'. upd_simpl. exact El.
        -- apply V_conj.
           ++ apply V_diseq. cbn [app]. unfold th'. upd_simpl. exact Hn.
           ++ apply V_conj; [apply V_call; cbn [map app]; unfold th'; upd_simpl; exact H1|].
              apply V_conj; [|apply V_succeed]. apply V_call. cbn [map app]. unfold th'. upd_simpl. exact H2.
    + (* permute *)
      apply Nat.eqb_eq in Ep. subst r. destruct args as [|a [|b [|? ?]]]; cbn [map] in HR; try contradiction.
      inversion HA as [|? ? Ba HA1]; subst. inversion HA1 as [|? ? Bb _]; subst.
      destruct HR as [[Ea Eb]|[x [xs [ys [Ea [H1 H2]]]]]].
      * pose (th' := th). start_case A AP m th th'. give def_permute [a; b] th' m.
        split; [reflexivity|]. split; [vm_compute; reflexivity|]. split; [exact A|]. split; [|cbn; repeat split; reflexivity].
        apply V_conj; [|apply V_succeed]. eapply V_conde; [left; reflexivity|]. apply V_conj; [|apply V_succeed].
        apply V_eq. cbn [app]. unfold th'. rewrite Ea, Eb. reflexivity.
      * pose (th' := upd (upd (upd (upd th m x) (S m) xs) (S (S m)) (app th b)) (S (S (S m))) ys). start_case A AP m th th'. give def_permute [a; b] th' m.
        split; [reflexivity|]. split; [vm_compute; reflexivity|]. split; [exact A|]. split; [|cbn; repeat split; reflexivity].
        apply V_conj; [|apply V_succeed]. eapply V_conde; [right; left; reflexivity|]. apply V_conj.
        -- apply V_eq. cbn [app]. rewrite <- (AP a Ba), <- (AP b Bb). unfold th'. upd_simpl. rewrite Ea. reflexivity.
        -- apply V_conj; [|apply V_succeed]. apply V_fresh. apply V_conj.
           ++ apply V_call. cbn [map app]. unfold th'. upd_simpl. exact H1.
           ++ apply V_conj; [|apply V_succeed]. apply V_call. cbn [map app]. rewrite <- (AP b Bb). unfold th'. upd_simpl. exact H2.
Qed.

Lemma LibV0 : forall r vals, ~ LibV 0 r vals.
Proof. intros r vals H. exact H. Qed.

Notation sq := (startq lib_defs).

Theorem append_complete : forall x y z, AppendV x y z ->
  forall st th a b c, MstG th st -> GoodS st -> stb st ->
  tb (st_nextv st) a -> tb (st_nextv st) b -> tb (st_nextv st) c ->
  app th a = x -> app th b = y -> app th c = z ->
  exists ans th' n, agree (st_nextv st) th th' /\ MstG th' ans /\ emitsE sq n (sq (CCall BFS rel_append [a; b; c]) st) ans.
Proof.
  intros x y z HV st th a b c HM HG B Ba Bb Bc Ea Eb Ec. destruct (AppendV_LibV x y z HV) as [k Hk].
  apply (completeV_delivered lib_defs LibV LibV0 lib_unfold k); auto.
  - apply V_call. cbn [map]. rewrite Ea, Eb, Ec. exact Hk.
  - reflexivity.
  - cbn. repeat constructor; assumption.
Qed.
Theorem member_complete : forall x l, MemberV x l ->
  forall st th a b, MstG th st -> GoodS st -> stb st ->
  tb (st_nextv st) a -> tb (st_nextv st) b -> app th a = x -> app th b = l ->
  exists ans th' n, agree (st_nextv st) th th' /\ MstG th' ans /\ emitsE sq n (sq (CCall BFS rel_member [a; b]) st) ans.
Proof.
  intros x l HV st th a b HM HG B Ba Bb Ea Eb. destruct (MemberV_LibV x l HV) as [k Hk].
  apply (completeV_delivered lib_defs LibV LibV0 lib_unfold k); auto.
  - apply V_call. cbn [map]. rewrite Ea, Eb. exact Hk.
  - reflexivity.
  - cbn. repeat constructor; assumption.
Qed.

Ltac finish_complete k Hk := apply (completeV_delivered lib_defs LibV LibV0 lib_unfold k); auto;
  [apply V_call; cbn [map]; exact Hk|reflexivity|cbn; repeat constructor; assumption].

Theorem member1_complete : forall x l, Member1V x l ->
  forall st th a b, MstG th st -> GoodS st -> stb st ->
  tb (st_nextv st) a -> tb (st_nextv st) b -> app th a = x -> app th b = l ->
  exists ans th' n, agree (st_nextv st) th th' /\ MstG th' ans /\ emitsE sq n (sq (CCall BFS rel_member1 [a; b]) st) ans.
Proof.
  intros x l HV st th a b HM HG B Ba Bb Ea Eb. destruct (Member1V_LibV x l HV) as [k Hk]. rewrite <- Ea, <- Eb in Hk. finish_complete k Hk.
Qed.
Theorem rember_complete : forall x l o, RemberV x l o ->
  forall st th a b c, MstG th st -> GoodS st -> stb st ->
  tb (st_nextv st) a -> tb (st_nextv st) b -> tb (st_nextv st) c -> app th a = x -> app th b = l -> app th c = o ->
  exists ans th' n, agree (st_nextv st) th th' /\ MstG th' ans /\ emitsE sq n (sq (CCall BFS rel_rember [a; b; c]) st) ans.
Proof.
  intros x l o HV st th a b c HM HG B Ba Bb Bc Ea Eb Ec. destruct (RemberV_LibV x l o HV) as [k Hk]. rewrite <- Ea, <- Eb, <- Ec in Hk. finish_complete k Hk.
Qed.
Theorem distinct_complete : forall l, DistinctV l ->
  forall st th a, MstG th st -> GoodS st -> stb st -> tb (st_nextv st) a -> app th a = l ->
  exists ans th' n, agree (st_nextv st) th th' /\ MstG th' ans /\ emitsE sq n (sq (CCall BFS rel_distinct [a]) st) ans.
Proof.
  intros l HV st th a HM HG B Ba Ea. destruct (DistinctV_LibV l HV) as [k Hk]. rewrite <- Ea in Hk. finish_complete k Hk.
Qed.
Theorem permute_complete : forall x y, PermuteV x y ->
  forall st th a b, MstG th st -> GoodS st -> stb st ->
  tb (st_nextv st) a -> tb (st_nextv st) b -> app th a = x -> app th b = y ->
  exists ans th' n, agree (st_nextv st) th th' /\ MstG th' ans /\ emitsE sq n (sq (CCall BFS rel_permute [a; b]) st) ans.
Proof.
  intros x y HV st th a b HM HG B Ba Bb Ea Eb. destruct (PermuteV_LibV x y HV) as [k Hk]. rewrite <- Ea, <- Eb in Hk. finish_complete k Hk.
Qed.
