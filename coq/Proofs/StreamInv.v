(* Lifting an invariant of states over the whole search: if a predicate P on states is preserved by
   every state operation the engine performs, then every state inside every stream the engine
   builds - pending pauses, delivered heads, delayed tails - satisfies P, for all goals,
   definitions and fuel; in particular every answer Solver::next delivers does. *)
From Coq Require Import List ZArith Bool Arith Lia.
From PV Require Import Model.Term Model.Subst Model.Unify Model.FD Model.State Model.Engine.
Import ListNotations.

Section Inv.
Variable P : state -> Prop.
Definition sresP (r : sres) : Prop := match r with SOk st => P st | _ => True end.

Hypothesis P_unify : forall st u v, P st -> sresP (state_unify st u v).
Hypothesis P_disunify : forall st u v, P st -> sresP (state_disunify st u v).
Hypothesis P_post_domain : forall x d st, P st -> sresP (post_domain x d st).
Hypothesis P_post_constraint : forall c st, P st -> sresP (post_constraint c st).
Hypothesis P_nextv : forall st n, P st -> P (set_nextv st n).
Hypothesis P_probe : forall st tag, P st -> P (log_event st (probe_event tag st)).
(* the reification step: new substitution, every old constraint taken, walked disequalities added *)
Hypothesis P_reify_smap : forall st r nv, P st -> P (set_nextv (set_smap st r) nv).
Hypothesis P_take : forall st id, P st -> P (fst (take_constraint st id)).
Hypothesis P_with_new : forall st c, P st -> P (with_new_constraint st c).

Fixpoint allL (l : lzy) : Prop :=
  match l with
  | LBind l' _ | LBindDFS l' _ => allL l'
  | LMPlus a b | LMPlusDFS a b => allL a /\ allL b
  | LPause st _ | LPauseDFS st _ => P st
  | LDelay s => allS s
  end
with allS (s : stream) : Prop :=
  match s with
  | SEmpty | SErr _ _ => True
  | SUnit st => P st
  | SLazy l => allL l
  | SCons st l => P st /\ allL l
  end.

Lemma sres_stream_all r : sresP r -> allS (sres_stream r).
Proof. destruct r; cbn; auto. Qed.
Lemma mplus_all s l : allS s -> allL l -> allS (mplus s l).
Proof. destruct s; cbn; tauto. Qed.
Lemma mplus_dfs_all s l : allS s -> allL l -> allS (mplus_dfs s l).
Proof. destruct s; cbn; tauto. Qed.
Lemma mplus_k_all k s l : allS s -> allL l -> allS (mplus_k k s l).
Proof. destruct k; [apply mplus_all|apply mplus_dfs_all]. Qed.
Lemma lazy_bind_all l g : allL l -> allS (lazy_bind l g).
Proof. unfold lazy_bind. destruct (is_succeed g), (is_fail g); cbn; auto. Qed.
Lemma lazy_bind_dfs_all l g : allL l -> allS (lazy_bind_dfs l g).
Proof. unfold lazy_bind_dfs. destruct (is_succeed g), (is_fail g); cbn; auto. Qed.
Lemma lazy_bind_k_all k l g : allL l -> allS (lazy_bind_k k l g).
Proof. destruct k; [apply lazy_bind_all|apply lazy_bind_dfs_all]. Qed.
Lemma bind_all s g : allS s -> allS (bind s g).
Proof.
  unfold bind. destruct (is_succeed g); [auto|]. destruct (is_fail g); [intros; exact I|].
  destruct s; cbn; auto. apply lazy_bind_all.
Qed.
Lemma bind_dfs_all s g : allS s -> allS (bind_dfs s g).
Proof.
  unfold bind_dfs. destruct (is_succeed g); [auto|]. destruct (is_fail g); [intros; exact I|].
  destruct s; cbn; auto. apply lazy_bind_dfs_all.
Qed.
Lemma pause_k_all k st g : P st -> allL (pause_k k st g).
Proof. destruct k; auto. Qed.
Lemma step_with_all startf : (forall g st, P st -> allS (startf g st)) -> forall l, allL l -> allS (step_with startf l).
Proof.
  intros Hs. induction l; cbn [step_with allL]; intros H; auto.
  - apply bind_all; auto.
  - destruct H. apply mplus_all; auto.
  - apply bind_dfs_all; auto.
  - destruct H. apply mplus_dfs_all; auto.
Qed.
Lemma mature_all stepf : (forall l, allL l -> allS (stepf l)) -> forall f s, allS s -> allS (mature stepf f s).
Proof. intros Hs. induction f as [|f IH]; intros s H; [exact I|]. cbn [mature]. destruct s; auto. Qed.
Lemma trunc_all s : allS s -> allS (trunc_of s).
Proof. destruct s; cbn; tauto. Qed.

Section WithDefs.
Variable defs : list (nat * def).

Lemma start_all : forall n g st, P st -> allS (start defs n g st).
Proof.
  induction n as [|n IH]; intros g st HP; [exact I|].
  assert (Hstep : forall l, allL l -> allS (step_with (start defs n) l)) by (apply step_with_all; exact IH).
  destruct g; cbn [start].
  - exact HP.
  - exact I.
  - apply sres_stream_all, P_unify, HP.
  - apply sres_stream_all, P_disunify, HP.
  - apply lazy_bind_k_all, pause_k_all, HP.
  - induction gs as [|c r IHr]; [exact I|]. cbn [fold_right]. apply mplus_k_all; [apply IH, HP|exact IHr].
  - apply pause_k_all, HP.
  - destruct (elab defs efuel k rho (GConj gs) (st_nextv st)). apply IH, P_nextv, HP.
  - destruct (find_def r defs); [|exact I]. destruct (elab defs efuel k _ _ _). apply IH, P_nextv, HP.
  - pose proof (mature_all _ Hstep mfuel _ (IH g1 st HP)) as Hm.
    destruct (mature _ mfuel (start defs n g1 st)) eqn:E; try (apply bind_all; exact Hm); [apply IH, HP|exact I].
  - pose proof (mature_all _ Hstep mfuel _ (IH g1 st HP)) as Hm.
    destruct (mature _ mfuel (start defs n g1 st)) eqn:E; try (apply bind_all, trunc_all; exact Hm); [apply IH, HP|exact I].
  - apply IH, HP.
  - match goal with |- allS (let '(cs, nv) := ?X in _) => destruct X end. apply IH, P_nextv, HP.
  - destruct (project_env st rho xs rho); [|exact I]. destruct (elab defs efuel k e _ _). apply IH, P_nextv, HP.
  - apply sres_stream_all, P_post_domain, HP.
  - apply sres_stream_all, P_post_constraint, HP.
  - exact I.
  - apply P_probe, HP.
  - destruct (first_number u); [apply sres_stream_all, P_unify, HP|exact I].
  - destruct (wk (st_smap st) x) as [l|v any| |t1 t2|tg ts] eqn:E; try exact HP.
    + destruct (dom_get st (TVar v any)) as [f|]; [|exact HP].
      generalize SEmpty (I : allS SEmpty). induction (fd_iter_rev f) as [|z r IHr]; intros acc Hacc; [exact Hacc|].
      cbn [fold_left]. apply IHr. apply mplus_all; [apply sres_stream_all, P_unify, HP|exact Hacc].
    + destruct (dom_get st (TCons t1 t2)); apply IH, HP.
    + destruct (dom_get st (TComp tg ts)); apply IH, HP.
  - destruct (verify_all_bound st); [apply IH, HP|exact I].
  - destruct (walk_star dfuel (st_smap st) x); [|exact I].
    destruct (reify_s dfuel (st_smap st) (st_nextv st) t) as [[r nv]|]; [|exact I].
    assert (H2 : P (fold_left (fun s ic => fst (take_constraint s (fst ic))) (st_cstore st) (set_nextv (set_smap st r) nv))).
    { generalize (P_reify_smap st r nv HP). generalize (set_nextv (set_smap st r) nv).
      induction (st_cstore st) as [|ic r' IHr]; intros s0 H0; [exact H0|]. cbn [fold_left]. apply IHr, P_take, H0. }
    revert H2. generalize (fold_left (fun s ic => fst (take_constraint s (fst ic))) (st_cstore st) (set_nextv (set_smap st r) nv)).
    induction (st_cstore st) as [|[id c] r' IHr]; intros s0 H0; [exact H0|].
    destruct c; try (apply IHr; exact H0).
    destruct (walk_star_pairs (st_smap st) ps) as [[ps'|]|]; [apply IHr, P_with_new, H0|exact I|exact I].
Qed.

Lemma step_all l : allL l -> allS (step defs l).
Proof. apply step_with_all. intros; apply start_all; assumption. Qed.

(* every answer Solver::next delivers satisfies P, and so does everything left in the stream *)
Lemma next_all : forall k used s a rest used', allS s -> next defs k used s = NAnswer a rest used' -> P a /\ allS rest.
Proof.
  induction k as [|k IH]; intros used s a rest used' Hs H; destruct s; cbn in H; try discriminate.
  - injection H as <- <- _. split; [exact Hs|exact I].
  - injection H as <- <- _. destruct Hs. split; assumption.
  - injection H as <- <- _. split; [exact Hs|exact I].
  - eapply IH; [|exact H]. apply step_all, Hs.
  - injection H as <- <- _. destruct Hs. split; assumption.
Qed.
Lemma next_budget_all : forall k used s rest, allS s -> next defs k used s = NBudget rest -> allS rest.
Proof.
  induction k as [|k IH]; intros used s rest Hs H; destruct s; cbn in H; try discriminate.
  - injection H as <-. exact Hs.
  - eapply IH; [|exact H]. apply step_all, Hs.
Qed.
End WithDefs.
End Inv.
