(* Finite-domain propagation loses no solution (C17): a valuation that solves a state - its
   substitution, every stored constraint, every domain - and satisfies the constraint being run or the
   domain being posted also solves the state the operation returns; and the operation fails only
   when no such valuation exists.  Panics and fuel exhaustion are separate outcomes about which
   nothing is claimed here (C23 bounds the former).

   The arithmetic propagators work with saturating isize arithmetic, so the meaning of plusfd,
   minusfd and timesfd constraints carries the guard of the property: the three values are within
   isize.  distinctfd is read on the list term it was posted on (an improper tail variable counts as
   one more element, as the implementation treats it). *)
From Coq Require Import List ZArith Bool Arith Lia Sorted Permutation.
From PV Require Import Model.Term Model.Subst Model.Unify Model.FD Model.State Model.Engine
  Proofs.FDProofs Proofs.FDPropProofs Proofs.UnifyProofs Proofs.DiseqProofs Proofs.KeyProofs Proofs.MonoProofs
  Proofs.DenProofs Proofs.FDDen.
Import ListNotations.
Local Open Scope Z_scope.

Definition choldG (th : val) (c : constraint) : Prop :=
  match c with
  | KPlus u v w => exists a b r, numv th u a /\ numv th v b /\ numv th w r /\ a + b = r /\ in_isize a /\ in_isize b /\ in_isize r
  | KMinus u v w => exists a b r, numv th u a /\ numv th v b /\ numv th w r /\ a - b = r /\ in_isize a /\ in_isize b /\ in_isize r
  | KTimes u v w => exists a b r, numv th u a /\ numv th v b /\ numv th w r /\ a * b = r /\ in_isize a /\ in_isize b /\ in_isize r
  | KDistinct u => is_list_term u = true /\ exists zs, Forall2 (numv th) (list_of_term u) zs /\ NoDup zs
  | other => choldF th other
  end.
Definition storeG (th : val) (store : list (nat * constraint)) : Prop := forall i c, In (i, c) store -> choldG th c.
Definition MstG (th : val) (st : state) : Prop :=
  sat th (st_smap st) /\ storeG th (st_cstore st) /\ domF th (st_dstore st).

(* [Q th] : the extra fact known about th (the constraint run, the domain posted) *)
Definition sresCP (Q : val -> Prop) (st : state) (r : sres) : Prop :=
  match r with
  | SOk st' => forall th, MstG th st -> Q th -> MstG th st'
  | SFail => forall th, MstG th st -> ~ Q th
  | _ => True
  end.
Definition QT : val -> Prop := fun _ => True.

Lemma sresCP_ext (Q Q' : val -> Prop) st r : (forall th, MstG th st -> Q' th -> Q th) -> sresCP Q st r -> sresCP Q' st r.
Proof. intros H. destruct r; cbn; auto. intros H1 th HM HQ. apply (H1 th HM). apply H; assumption. Qed.
Lemma sbind_C Q st r k : sresF st r -> sresCP Q st r -> (forall st1, WFD st1 -> sresCP Q st1 (k st1)) -> sresCP Q st (sbind r k).
Proof.
  destruct r as [st1| | |]; cbn [sbind sresF sresCP]; auto. intros [_ [W1 _]] H1 Hk. specialize (Hk st1 W1).
  destruct (k st1); cbn [sresCP] in *; auto. intros th HM HQ. apply (Hk th); auto.
Qed.
Lemma sresCP_pre (Q Q' : val -> Prop) st st1 r : (forall th, MstG th st -> Q th -> MstG th st1 /\ Q' th) -> sresCP Q' st1 r -> sresCP Q st r.
Proof.
  intros H. destruct r; cbn; auto.
  - intros H1 th HM HQ. destruct (H th HM HQ). apply H1; assumption.
  - intros H1 th HM HQ. destruct (H th HM HQ). apply (H1 th); assumption.
Qed.

Lemma wf'_mem d z : wf' d -> mem d z -> wf_fd d.
Proof. destruct d; cbn; [lia|tauto]. Qed.
Lemma numv_fun th t a b : numv th t a -> numv th t b -> a = b.
Proof. unfold numv. intros H1 H2. rewrite H1 in H2. inversion H2. reflexivity. Qed.
Lemma numv_wk' th s t z : sat th s -> numv th t z -> numv th (wk s t) z.
Proof. unfold numv. intros Hs H. rewrite (wk_sat th s t Hs). exact H. Qed.

(* storing: the new store holds when the old one and the new constraint do *)
Lemma panG th store id c : storeG th store -> choldG th c -> storeG th (fst (push_and_normalize store id c)).
Proof.
  intros HS HC. unfold push_and_normalize. destruct (is_diseq c) as [ps|] eqn:Ec.
  - destruct (stored_subsumes_new store ps); cbn [fst]; [exact HS|].
    intros i c' Hin. apply in_app_or in Hin as [Hin|[Hin|[]]].
    + apply filter_In in Hin as [Hin _]. apply (HS i c' Hin).
    + inversion Hin; subst. exact HC.
  - cbn [fst]. intros i c' Hin. apply in_app_or in Hin as [Hin|[Hin|[]]]; [apply (HS i c' Hin)|inversion Hin; subst; exact HC].
Qed.
Lemma with_constraint_id_cstore' st id c : st_cstore (with_constraint_id st id c) = fst (push_and_normalize (st_cstore st) id c).
Proof. apply with_constraint_id_cstore. Qed.
Lemma wc_C st id c : sresCP (fun th => choldG th c) st (SOk (with_constraint_id st id c)).
Proof.
  cbn. intros th [Hs [HS HD]] HC. split; [rewrite with_constraint_id_smap; exact Hs|]. split.
  - rewrite with_constraint_id_cstore'. apply panG; assumption.
  - rewrite with_constraint_id_dstore. exact HD.
Qed.
Lemma wn_C st c : sresCP (fun th => choldG th c) st (SOk (with_new_constraint st c)).
Proof. unfold with_new_constraint. apply (wc_C (bump_nextc st) (st_nextc st) c). Qed.
Lemma MstG_wc th st id c : MstG th st -> choldG th c -> MstG th (with_constraint_id st id c).
Proof. intros HM HC. apply (wc_C st id c th HM HC). Qed.

Section Fuelled.
Variable rcs : state -> sres.
Hypothesis rcs_F : forall st, WFD st -> sresF st (rcs st).
Hypothesis rcs_C : forall st, WFD st -> sresCP QT st (rcs st).

(* posting / narrowing a domain keeps every solution whose value for the operand lies in the domain *)
Lemma process_domain_C st x d : WFD st -> wf' d ->
  sresCP (fun th => exists z, numv th x z /\ mem d z) st (process_domain rcs st x d).
Proof.
  intros W Wd. unfold process_domain.
  destruct (wk (st_smap st) x) as [[n|b|c|s0]|v a| |h t|g cs] eqn:Ex;
    try (cbn [sresCP]; intros th [Hs _] [z [Hz _]]; apply (numv_wk' th _ x z Hs) in Hz; rewrite Ex in Hz; unfold numv in Hz; cbn [app] in Hz; discriminate).
  - destruct (fd_contains d n) eqn:Ec; cbn [sresCP]; [auto|].
    intros th [Hs _] [z [Hz Mz]]. pose proof (numv_wk th _ x n Hs Ex) as Hn. rewrite (numv_fun _ _ _ _ Hz Hn) in Mz.
    apply (contains_spec d n (wf'_mem d n Wd Mz)) in Mz. congruence.
  - unfold update_var_domain, resolve_storable_domain.
    assert (Hv : forall th z, sat th (st_smap st) -> numv th x z -> th v = tnum z).
    { intros th z Hs Hz. unfold numv in Hz. rewrite <- (app_wk_var th _ x v a Hs Ex). exact Hz. }
    assert (K : forall dd, wf' dd ->
                sresCP (fun th => exists z, numv th x z /\ mem dd z) st
                  (match fd_singleton_value dd with
                   | Some n => rcs (dom_remove (set_smap st ((v, tnum n) :: st_smap st)) v)
                   | None => SOk (dom_insert st v dd) end)).
    { intros dd Wdd. destruct (fd_singleton_value dd) as [n|] eqn:Es.
      - destruct (singleton_mem _ _ Es) as [Mn Only].
        assert (W1 : WFD (dom_remove (set_smap st ((v, tnum n) :: st_smap st)) v)).
        { intros y dy Hin. cbn in Hin. apply (W y dy). eapply remove_id_in; eauto. }
        eapply sresCP_pre; [|apply (rcs_C _ W1)].
        intros th [Hs [HS HD]] [z [Hz Mz]]. split; [|exact I]. rewrite (Only z Mz Wdd) in Hz.
        split; [|split; [exact HS|]].
        * cbn. apply sat_cons. split; [apply Hv; assumption|exact Hs].
        * intros y dy Hin. cbn in Hin. apply (HD y dy). eapply remove_id_in; eauto.
      - cbn [sresCP]. intros th [Hs [HS HD]] [z [Hz Mz]]. split; [exact Hs|]. split; [exact HS|].
        intros y dy [Hin|Hin]; [inversion Hin; subst; exists z; split; [apply Hv; assumption|exact Mz]|].
        apply (HD y dy). eapply remove_id_in; eauto. }
    destruct (find_id v (st_dstore st)) as [old|] eqn:Ef.
    + assert (Wold : wf' old) by (apply (W v old); apply find_id_in; exact Ef).
      assert (Hold : forall th z, MstG th st -> numv th x z -> mem old z).
      { intros th z [Hs [_ HD]] Hz. destruct (HD v old (find_id_in _ _ _ Ef)) as [z' [Hz' Mz']].
        rewrite (Hv th z Hs Hz) in Hz'. inversion Hz'; subst. exact Mz'. }
      pose proof (intersect_spec old d) as IS.
      destruct (fd_intersect old d) as [i|] eqn:Ei.
      * destruct (intersect_sub old d i Wold Wd Ei) as [Wi _].
        eapply sresCP_ext; [|apply (K i Wi)]. intros th HM [z [Hz Mz]]. exists z. split; [exact Hz|].
        pose proof (Hold th z HM Hz) as Mo. specialize (IS (wf'_mem _ _ Wold Mo) (wf'_mem _ _ Wd Mz)). cbn in IS. apply IS. auto.
      * cbn [sresCP]. intros th HM [z [Hz Mz]]. pose proof (Hold th z HM Hz) as Mo.
        specialize (IS (wf'_mem _ _ Wold Mo) (wf'_mem _ _ Wd Mz)). cbn in IS. apply (IS z). auto.
    + apply K, Wd.
Qed.

Lemma process_domain_C' st x d (Q : val -> Prop) : WFD st -> wf' d ->
  (forall th, Q th -> exists z, numv th x z /\ mem d z) ->
  sresCP Q st (process_domain rcs st x d).
Proof. intros W Wd H. eapply sresCP_ext; [|apply process_domain_C; assumption]. intros th _ HQ. apply H, HQ. Qed.

Lemma opdom_val th st t ud z : MstG th st -> operand_domain st (wk (st_smap st) t) = Some ud -> numv th t z -> mem ud z.
Proof.
  intros [Hs [_ HD]] H Hz. apply (numv_wk' th _ t z Hs) in Hz.
  destruct (wk (st_smap st) t) as [[n| | |]|v a| | |] eqn:E; cbn [operand_domain] in H; try discriminate.
  - inversion H; subst. unfold numv in Hz. cbn [app] in Hz. inversion Hz; subst. cbn. lia.
  - apply find_id_in in H. destruct (HD v ud H) as [z' [Hz' Mz']]. unfold numv in Hz. cbn [app] in Hz. rewrite Hz in Hz'. inversion Hz'; subst. exact Mz'.
Qed.
Lemma dom_val th st t ud z : MstG th st -> dom_get st (wk (st_smap st) t) = Some ud -> numv th t z -> mem ud z.
Proof.
  intros HM H Hz. apply (opdom_val th st t ud z HM); [|exact Hz].
  destruct (wk (st_smap st) t); cbn in *; try discriminate. exact H.
Qed.
Lemma zmin_zmax d z : wf' d -> mem d z -> zmin d <= z <= zmax d.
Proof.
  intros W M. pose proof (wf'_mem d z W M) as Wf. destruct (min_spec d Wf) as [m [Em [_ Hm]]]. destruct (max_spec d Wf) as [x [Ex [_ Hx]]].
  unfold zmin, zmax. rewrite Em, Ex. split; [apply Hm, M|apply Hx, M].
Qed.
Lemma numv_num th s t n z : sat th s -> get_number (wk s t) = Some n -> numv th t z -> z = n.
Proof.
  intros Hs H Hz. apply (numv_wk' th s t z Hs) in Hz. destruct (wk s t) as [[m| | |]| | | |]; try discriminate.
  inversion H; subst. unfold numv in Hz. cbn [app] in Hz. inversion Hz. reflexivity.
Qed.

Lemma exclude_C ds excl n' : wf_fd excl -> (forall z, mem excl z <-> In z n') ->
  (forall v d, find_id v ds = Some d -> wf' d) ->
  forall xs st, WFD st ->
  sresCP (fun th => domF th ds /\ exists zs, Forall2 (numv th) xs zs /\ forall z, In z zs -> ~ In z n') st (exclude_from_domain rcs ds st xs excl).
Proof.
  intros We He Hds. induction xs as [|y r IH]; intros st W; cbn [exclude_from_domain]; [cbn; auto|].
  assert (Tail : forall st1, WFD st1 -> sresCP (fun th => domF th ds /\ exists zs, Forall2 (numv th) (y :: r) zs /\ forall z, In z zs -> ~ In z n') st1
                    (exclude_from_domain rcs ds st1 r excl)).
  { intros st1 W1. eapply sresCP_ext; [|apply IH, W1]. intros th _ [HD [zs [Hz Hn]]]. split; [exact HD|].
    inversion Hz as [|? zy ? zr Hzy Hzr]; subst. exists zr. split; [exact Hzr|]. intros z Hin. apply Hn. right. exact Hin. }
  destruct (match y with TVar v _ => find_id v ds | _ => None end) as [d|] eqn:Ed; [|apply Tail, W].
  assert (Wd : wf' d) by (destruct y; try discriminate; eapply Hds; eauto).
  assert (Val : forall th, domF th ds -> forall zy, numv th y zy -> mem d zy).
  { intros th HD zy Hzy. destruct y as [|v a| | |]; try discriminate. apply find_id_in in Ed. destruct (HD v d Ed) as [z' [Hz' Mz']].
    unfold numv in Hzy. cbn [app] in Hzy. rewrite Hzy in Hz'. inversion Hz'; subst. exact Mz'. }
  pose proof (diff_spec d excl) as DS.
  destruct (fd_diff d excl) as [d'|] eqn:E.
  - apply sbind_C; [apply process_domain_F; [exact rcs_F|exact W|apply (diff_sub _ _ _ Wd E)]| |intros st1 W1; apply Tail, W1].
    apply process_domain_C'; [exact W|apply (diff_sub _ _ _ Wd E)|].
    intros th [HD [zs [Hz Hn]]]. inversion Hz as [|? zy ? zr Hzy Hzr]; subst. exists zy. split; [exact Hzy|].
    pose proof (Val th HD zy Hzy) as Md. specialize (DS (wf'_mem _ _ Wd Md) We). cbn in DS. apply DS. split; [exact Md|].
    rewrite He. apply Hn. left. reflexivity.
  - cbn [sresCP]. intros th _ [HD [zs [Hz Hn]]]. inversion Hz as [|? zy ? zr Hzy Hzr]; subst.
    pose proof (Val th HD zy Hzy) as Md. specialize (DS (wf'_mem _ _ Wd Md) We). cbn in DS. apply (DS zy). split; [exact Md|].
    rewrite He. apply Hn. left. reflexivity.
Qed.

Variable rcr : nat -> constraint -> state -> sres.
Hypothesis rcr_C : forall id c st, WFD st -> sresCP (fun th => choldG th c) st (rcr id c st).

Lemma arith3_C id c st u v w gr (Rel : Z -> Z -> Z -> Prop) a1 a2 a3 a4 a5 a6 : WFD st ->
  (forall a b r, gr a b r = true <-> Rel a b r) ->
  (forall th, choldG th c -> exists a b r, numv th u a /\ numv th v b /\ numv th w r /\ Rel a b r /\ in_isize a /\ in_isize b /\ in_isize r) ->
  (forall ud vd wd a b r, zmin ud <= a <= zmax ud -> zmin vd <= b <= zmax vd -> zmin wd <= r <= zmax wd -> Rel a b r ->
     in_isize a -> in_isize b -> in_isize r ->
     a1 ud vd wd <= r <= a2 ud vd wd /\ a3 ud vd wd <= a <= a4 ud vd wd /\ a5 ud vd wd <= b <= a6 ud vd wd) ->
  sresCP (fun th => choldG th c) st (arith3 rcs rcr id c st u v w gr a1 a2 a3 a4 a5 a6).
Proof.
  intros W Hgr HQ Hb. unfold arith3.
  destruct (get_number (wk (st_smap st) u)) as [na|] eqn:Eu, (get_number (wk (st_smap st) v)) as [nb|] eqn:Ev,
           (get_number (wk (st_smap st) w)) as [nr|] eqn:Ew;
    try (destruct (gr na nb nr) eqn:Eg; cbn [sresCP]; [auto|];
         intros th [Hs _] HC; destruct (HQ th HC) as [a [b [r [Ha [Hb' [Hr [HR _]]]]]]];
         rewrite (numv_num th _ u na a Hs Eu Ha), (numv_num th _ v nb b Hs Ev Hb'), (numv_num th _ w nr r Hs Ew Hr) in HR;
         apply Hgr in HR; congruence);
    (destruct (operand_domain st (wk (st_smap st) u)) as [ud|] eqn:Du, (operand_domain st (wk (st_smap st) v)) as [vd|] eqn:Dv,
              (operand_domain st (wk (st_smap st) w)) as [wd|] eqn:Dw; try apply wc_C;
     apply (sresCP_pre (fun th => choldG th c)
              (fun th => choldG th c /\ exists a b r, numv th (wk (st_smap st) u) a /\ numv th (wk (st_smap st) v) b /\ numv th (wk (st_smap st) w) r /\
                 a1 ud vd wd <= r <= a2 ud vd wd /\ a3 ud vd wd <= a <= a4 ud vd wd /\ a5 ud vd wd <= b <= a6 ud vd wd) st st);
     [intros th HM HC; split; [exact HM|]; split; [exact HC|];
      destruct (HQ th HC) as [a [b [r [Ha [Hb' [Hr [HR [Ia [Ib Ir]]]]]]]]]; exists a, b, r;
      pose proof (proj1 HM) as Hs;
      split; [apply numv_wk'; assumption|]; split; [apply numv_wk'; assumption|]; split; [apply numv_wk'; assumption|];
      apply Hb; auto; apply zmin_zmax;
      [eapply WFD_opdom; eauto|eapply opdom_val; eauto|eapply WFD_opdom; eauto|eapply opdom_val; eauto|eapply WFD_opdom; eauto|eapply opdom_val; eauto]
     |];
     apply sbind_C; [apply process_domain_F; [exact rcs_F|exact W|exact I]| |intros st1 W1];
     [apply process_domain_C'; [exact W|exact I|]; intros th [_ [a [b [r [Ha [Hb' [Hr [B1 [B2 B3]]]]]]]]]; exists r; split; [exact Hr|exact B1]|];
     apply sbind_C; [apply process_domain_F; [exact rcs_F|exact W1|exact I]| |intros st2 W2];
     [apply process_domain_C'; [exact W1|exact I|]; intros th [_ [a [b [r [Ha [Hb' [Hr [B1 [B2 B3]]]]]]]]]; exists a; split; [exact Ha|exact B2]|];
     apply sbind_C; [apply process_domain_F; [exact rcs_F|exact W2|exact I]| |intros st3 W3];
     [apply process_domain_C'; [exact W2|exact I|]; intros th [_ [a [b [r [Ha [Hb' [Hr [B1 [B2 B3]]]]]]]]]; exists b; split; [exact Hb'|exact B3]|];
     (eapply sresCP_ext; [|destruct (Nat.eqb _ _); [apply wc_C|apply rcr_C; exact W3]]); intros th _ [HC _]; exact HC).
Qed.

Lemma rcs_bindC st x t (Q : val -> Prop) : WFD st ->
  (forall th, MstG th st -> Q th -> th x = app th t) ->
  sresCP Q st (rcs (set_smap st ((x, t) :: st_smap st))).
Proof.
  intros W H. assert (W1 : WFD (set_smap st ((x, t) :: st_smap st))) by exact W.
  eapply sresCP_pre; [|apply (rcs_C _ W1)]. intros th HM HQ. split; [|exact I].
  destruct HM as [Hs [HS HD]]. split; [|split; [exact HS|exact HD]]. cbn. apply sat_cons. split; [apply H; [split; auto|exact HQ]|exact Hs].
Qed.

Lemma nodup_app_r {A} (l l' : list A) : NoDup (l ++ l') -> NoDup l'.
Proof. induction l as [|x r IH]; cbn; [auto|]. intros H. inversion H; subst. auto. Qed.
Lemma wsorted_nodup_incr l : wsorted l -> NoDup l -> strictly_increasing l = true.
Proof.
  induction l as [|x [|y r] IH]; intros Hs Hn; cbn [strictly_increasing]; auto.
  inversion Hs as [|? ? Hs' Hx]; subst. inversion Hn as [|? ? Hnx Hn']; subst.
  apply andb_true_intro. split; [|apply IH; assumption].
  apply Z.ltb_lt. inversion Hx as [|? ? Hxy _]; subst. assert (x <> y) by (intros ->; apply Hnx; left; reflexivity). lia.
Qed.
Lemma insert_nodup_some z : forall n, ~ In z n -> exists n', insert_sorted_nodup z n = Some n'.
Proof.
  induction n as [|y r IH]; intros H; cbn [insert_sorted_nodup]; [eexists; reflexivity|].
  destruct (Z.eqb_spec z y) as [E|E]; [subst; exfalso; apply H; left; reflexivity|].
  destruct (z <? y); [eexists; reflexivity|]. destruct IH as [r' ->]; [intros Hin; apply H; right; exact Hin|]. eexists; reflexivity.
Qed.
Lemma elems_split th : forall elems zs, Forall2 (numv th) elems zs ->
  (forall e, In e elems -> is_var e = false -> exists z, e = tnum z) ->
  exists zx, Forall2 (numv th) (filter is_var elems) zx /\ Permutation zs (zx ++ numvals (filter (fun t => negb (is_var t)) elems)).
Proof.
  induction elems as [|e r IH]; intros zs H Hnum.
  - inversion H; subst. exists []. split; constructor.
  - inversion H as [|? z ? zr Hz Hr]; subst. destruct (IH zr Hr) as [zx [A B]]; [intros e' Hin; apply Hnum; right; exact Hin|].
    cbn [filter]. destruct (is_var e) eqn:Ev; cbn [negb].
    + exists (z :: zx). split; [constructor; assumption|]. cbn [List.app]. apply perm_skip, B.
    + destruct (Hnum e (or_introl eq_refl) Ev) as [w ->]. unfold numv in Hz. cbn [app] in Hz. inversion Hz; subst.
      exists zx. split; [exact A|]. unfold numvals. cbn [flat_map get_number tnum List.app]. apply Permutation_cons_app. exact B.
Qed.

Lemma run_constraint_C id c st : WFD st -> sresCP (fun th => choldG th c) st (run_constraint rcs rcr id c st).
Proof.
  intros W.
  destruct c as [ps|u v|u v w|u v w|u v w|u v|u|u ys n|u v w|u v w]; cbn [run_constraint].
  - (* tree disequality *)
    pose proof (recheck_spec (st_smap st) ps) as R.
    destruct (unify_pairs dfuel (st_smap st) [] ps) as [s' [|e ext0]| |]; cbn [sresCP]; auto.
    + intros th [Hs _] HC. apply (R th Hs). exact HC.
    + intros th HM HC. apply (wn_C st (KDiseq (e :: ext0)) th HM). cbn [choldG choldF] in *. apply (R th (proj1 HM)). exact HC.
  - (* ltefd *)
    destruct (dom_get st (wk (st_smap st) u)) as [ud|] eqn:Du, (dom_get st (wk (st_smap st) v)) as [vd|] eqn:Dv.
    + pose proof (WFD_dom st u ud W Du) as Wu. pose proof (WFD_dom st v vd W Dv) as Wv.
      apply (sresCP_pre (fun th => choldG th (KLte u v))
               (fun th => choldG th (KLte u v) /\ exists a b, numv th (wk (st_smap st) u) a /\ numv th (wk (st_smap st) v) b /\ mem ud a /\ mem vd b /\ a <= b) st st).
      { intros th HM HC. split; [exact HM|]. split; [exact HC|]. destruct HC as [a [b [Ha [Hb Hab]]]]. exists a, b.
        pose proof (proj1 HM) as Hs. split; [apply numv_wk'; assumption|]. split; [apply numv_wk'; assumption|].
        split; [eapply dom_val; eauto|]. split; [eapply dom_val; eauto|exact Hab]. }
      destruct (fd_copy_before (fun x => zmax vd <? x) ud) as [d1|] eqn:E1; cbn [opt_domain].
      * destruct (copy_before_sub _ _ _ Wu E1) as [Wd1 _].
        apply sbind_C; [apply process_domain_F; [exact rcs_F|exact W|exact Wd1]| |intros st1 W1].
        { apply process_domain_C'; [exact W|exact Wd1|]. intros th [_ [a [b [Ha [Hb [Ma [Mb Hab]]]]]]]. exists a. split; [exact Ha|].
          destruct (lte_keeps ud vd a b (wf'_mem _ _ Wu Ma) (wf'_mem _ _ Wv Mb) Ma Mb Hab) as [[d1' [E1' M1]] _]. rewrite E1 in E1'. inversion E1'; subst. exact M1. }
        destruct (fd_drop_before (fun x => zmin ud <=? x) vd) as [d2|] eqn:E2; cbn [opt_domain].
        -- destruct (drop_before_sub _ _ _ Wv E2) as [Wd2 _].
           apply sbind_C; [apply process_domain_F; [exact rcs_F|exact W1|exact Wd2]| |intros st2 W2].
           { apply process_domain_C'; [exact W1|exact Wd2|]. intros th [_ [a [b [Ha [Hb [Ma [Mb Hab]]]]]]]. exists b. split; [exact Hb|].
             destruct (lte_keeps ud vd a b (wf'_mem _ _ Wu Ma) (wf'_mem _ _ Wv Mb) Ma Mb Hab) as [_ [d2' [E2' M2]]]. rewrite E2 in E2'. inversion E2'; subst. exact M2. }
           eapply sresCP_ext; [|destruct (Nat.eqb _ _); [apply wc_C|apply rcr_C; exact W2]]. intros th _ [HC _]. exact HC.
        -- cbn [sresCP]. intros th _ [_ [a [b [Ha [Hb [Ma [Mb Hab]]]]]]].
           destruct (lte_keeps ud vd a b (wf'_mem _ _ Wu Ma) (wf'_mem _ _ Wv Mb) Ma Mb Hab) as [_ [d2' [E2' M2]]]. congruence.
      * cbn [sresCP]. intros th _ [_ [a [b [Ha [Hb [Ma [Mb Hab]]]]]]].
        destruct (lte_keeps ud vd a b (wf'_mem _ _ Wu Ma) (wf'_mem _ _ Wv Mb) Ma Mb Hab) as [[d1' [E1' M1]] _]. congruence.
    + destruct (get_number (wk (st_smap st) v)) as [nv|] eqn:Ev; [|apply wc_C].
      pose proof (WFD_dom st u ud W Du) as Wu.
      assert (Val : forall th, MstG th st -> choldG th (KLte u v) -> exists a, numv th (wk (st_smap st) u) a /\ mem ud a /\ a <= nv).
      { intros th HM [a [b [Ha [Hb Hab]]]]. exists a. pose proof (proj1 HM) as Hs. split; [apply numv_wk'; assumption|].
        split; [eapply dom_val; eauto|]. rewrite <- (numv_num th _ v nv b Hs Ev Hb). exact Hab. }
      pose proof (copy_before_spec (fun x => nv <? x) ud) as CS.
      destruct (fd_copy_before (fun x => nv <? x) ud) as [d1|] eqn:E1; cbn [opt_domain].
      * destruct (copy_before_sub _ _ _ Wu E1) as [Wd1 _].
        eapply sresCP_pre; [|apply (process_domain_C st (wk (st_smap st) u) d1 W Wd1)].
        intros th HM HC. split; [exact HM|]. destruct (Val th HM HC) as [a [Ha [Ma Hle]]]. exists a. split; [exact Ha|].
        specialize (CS (wf'_mem _ _ Wu Ma)). cbn in CS. apply CS. split; [exact Ma|]. intros y My Hy. apply Z.ltb_ge. lia.
      * cbn [sresCP]. intros th HM HC. destruct (Val th HM HC) as [a [Ha [Ma Hle]]].
        specialize (CS (wf'_mem _ _ Wu Ma)). cbn in CS. apply (CS a). split; [exact Ma|]. intros y My Hy. apply Z.ltb_ge. lia.
    + destruct (get_number (wk (st_smap st) u)) as [nu|] eqn:Eu; [|apply wc_C].
      pose proof (WFD_dom st v vd W Dv) as Wv.
      assert (Val : forall th, MstG th st -> choldG th (KLte u v) -> exists b, numv th (wk (st_smap st) v) b /\ mem vd b /\ nu <= b).
      { intros th HM [a [b [Ha [Hb Hab]]]]. exists b. pose proof (proj1 HM) as Hs. split; [apply numv_wk'; assumption|].
        split; [eapply dom_val; eauto|]. rewrite <- (numv_num th _ u nu a Hs Eu Ha). exact Hab. }
      pose proof (drop_before_spec (fun x => nu <=? x) vd) as DS.
      destruct (fd_drop_before (fun x => nu <=? x) vd) as [d2|] eqn:E2; cbn [opt_domain].
      * destruct (drop_before_sub _ _ _ Wv E2) as [Wd2 _].
        eapply sresCP_pre; [|apply (process_domain_C st (wk (st_smap st) v) d2 W Wd2)].
        intros th HM HC. split; [exact HM|]. destruct (Val th HM HC) as [b [Hb [Mb Hle]]]. exists b. split; [exact Hb|].
        specialize (DS (wf'_mem _ _ Wv Mb)). cbn in DS. apply DS. split; [exact Mb|]. exists b. split; [exact Mb|]. split; [lia|]. apply Z.leb_le. exact Hle.
      * cbn [sresCP]. intros th HM HC. destruct (Val th HM HC) as [b [Hb [Mb Hle]]].
        specialize (DS (wf'_mem _ _ Wv Mb)). cbn in DS. apply (DS b). split; [exact Mb|]. exists b. split; [exact Mb|]. split; [lia|]. apply Z.leb_le. exact Hle.
    + destruct (get_number (wk (st_smap st) u)) as [a|] eqn:Eu, (get_number (wk (st_smap st) v)) as [b|] eqn:Ev; try apply wc_C.
      destruct (Z.leb_spec a b); cbn [sresCP]; [auto|]. intros th [Hs _] [a' [b' [Ha [Hb Hab]]]].
      rewrite (numv_num th _ u a a' Hs Eu Ha), (numv_num th _ v b b' Hs Ev Hb) in Hab. lia.
  - (* plusfd *)
    apply (arith3_C id _ st u v w _ (fun a b r => a + b = r)); [exact W|intros; apply Z.eqb_eq|intros th HC; exact HC|].
    intros ud vd wd a b r Ha Hb Hr E Ia Ib Ir. subst r. apply plus_keeps; assumption.
  - (* minusfd *)
    apply (arith3_C id _ st u v w _ (fun a b r => a - b = r)); [exact W|intros; apply Z.eqb_eq|intros th HC; exact HC|].
    intros ud vd wd a b r Ha Hb Hr E Ia Ib Ir. subst r. apply minus_keeps; assumption.
  - (* timesfd *)
    apply (arith3_C id _ st u v w _ (fun a b r => a * b = r)); [exact W|intros; apply Z.eqb_eq|intros th HC; exact HC|].
    intros ud vd wd a b r Ha Hb Hr E Ia Ib Ir. subst r. split; [apply times_product_keeps; assumption|].
    destruct ((0 <=? zmin ud) && (0 <=? zmin vd) && (0 <=? zmin wd)) eqn:En; [|lia].
    apply andb_prop in En as [En E3]. apply andb_prop in En as [E1 E2]. apply Z.leb_le in E1, E2, E3.
    apply times_quotient_keeps; assumption.
  - (* diseqfd *)
    destruct (operand_domain st (wk (st_smap st) u)) as [ud|] eqn:Du, (operand_domain st (wk (st_smap st) v)) as [vd|] eqn:Dv; try apply wc_C.
    pose proof (WFD_opdom st u ud W Du) as Wu. pose proof (WFD_opdom st v vd W Dv) as Wv.
    assert (Val : forall th, MstG th st -> choldG th (KDiseqFd u v) ->
              exists a b, numv th (wk (st_smap st) u) a /\ numv th (wk (st_smap st) v) b /\ mem ud a /\ mem vd b /\ a <> b).
    { intros th HM [a [b [Ha [Hb Hab]]]]. exists a, b. pose proof (proj1 HM) as Hs.
      split; [apply numv_wk'; assumption|]. split; [apply numv_wk'; assumption|].
      split; [eapply opdom_val; eauto|]. split; [eapply opdom_val; eauto|exact Hab]. }
    destruct (fd_is_singleton ud && fd_is_singleton vd) eqn:Es.
    + apply andb_prop in Es as [Su Sv]. destruct (Z.eqb_spec (zmin ud) (zmin vd)) as [Eq|Ne]; cbn [sresCP]; [|auto].
      intros th HM HC. destruct (Val th HM HC) as [a [b [_ [_ [Ma [Mb Hab]]]]]].
      rewrite (singleton_only _ _ Su Ma), (singleton_only _ _ Sv Mb) in Hab. contradiction.
    + set (st1 := with_constraint_id st id (KDiseqFd u v)).
      assert (W1 : WFD st1) by (apply (SolF_wc st id _ W)).
      assert (Drop : sresCP (fun th => choldG th (KDiseqFd u v)) st
                (if fd_is_singleton ud then opt_domain (fd_diff vd ud) (fun d => process_domain rcs st1 (wk (st_smap st) v) d)
                 else if fd_is_singleton vd then opt_domain (fd_diff ud vd) (fun d => process_domain rcs st1 (wk (st_smap st) u) d)
                 else SOk st1)).
      { destruct (fd_is_singleton ud) eqn:Su.
        - pose proof (diff_spec vd ud) as DS. destruct (fd_diff vd ud) as [d|] eqn:Ed; cbn [opt_domain].
          + eapply sresCP_pre; [|apply (process_domain_C st1 (wk (st_smap st) v) d W1 (proj1 (diff_sub _ _ _ Wv Ed)))].
            intros th HM HC. split; [apply MstG_wc; assumption|]. destruct (Val th HM HC) as [a [b [_ [Hb [Ma [Mb Hab]]]]]].
            exists b. split; [exact Hb|]. specialize (DS (wf'_mem _ _ Wv Mb) (wf'_mem _ _ Wu Ma)). cbn in DS. apply DS. split; [exact Mb|].
            intros Mb'. apply Hab. rewrite (singleton_only _ _ Su Ma), (singleton_only _ _ Su Mb'). reflexivity.
          + cbn [sresCP]. intros th HM HC. destruct (Val th HM HC) as [a [b [_ [Hb [Ma [Mb Hab]]]]]].
            specialize (DS (wf'_mem _ _ Wv Mb) (wf'_mem _ _ Wu Ma)). cbn in DS. apply (DS b). split; [exact Mb|].
            intros Mb'. apply Hab. rewrite (singleton_only _ _ Su Ma), (singleton_only _ _ Su Mb'). reflexivity.
        - destruct (fd_is_singleton vd) eqn:Sv; [|apply wc_C].
          pose proof (diff_spec ud vd) as DS. destruct (fd_diff ud vd) as [d|] eqn:Ed; cbn [opt_domain].
          + eapply sresCP_pre; [|apply (process_domain_C st1 (wk (st_smap st) u) d W1 (proj1 (diff_sub _ _ _ Wu Ed)))].
            intros th HM HC. split; [apply MstG_wc; assumption|]. destruct (Val th HM HC) as [a [b [Ha [_ [Ma [Mb Hab]]]]]].
            exists a. split; [exact Ha|]. specialize (DS (wf'_mem _ _ Wu Ma) (wf'_mem _ _ Wv Mb)). cbn in DS. apply DS. split; [exact Ma|].
            intros Ma'. apply Hab. rewrite (singleton_only _ _ Sv Ma'), (singleton_only _ _ Sv Mb). reflexivity.
          + cbn [sresCP]. intros th HM HC. destruct (Val th HM HC) as [a [b [Ha [_ [Ma [Mb Hab]]]]]].
            specialize (DS (wf'_mem _ _ Wu Ma) (wf'_mem _ _ Wv Mb)). cbn in DS. apply (DS a). split; [exact Ma|].
            intros Ma'. apply Hab. rewrite (singleton_only _ _ Sv Ma'), (singleton_only _ _ Sv Mb). reflexivity. }
      destruct (fd_is_disjoint ud vd) as [[|]|] eqn:Edj; try exact Drop. cbn [sresCP]. auto.
  - (* distinctfd on a list term *)
    destruct (wk (st_smap st) u) as [l|xv xa| |h t|g cs] eqn:Eu; try exact I; try apply wc_C.
    + (* empty list *)
      cbn [list_of_term filter forallb flat_map isort strictly_increasing].
      eapply sresCP_pre; [|apply (rcr_C (st_nextc st) (KDistinct2 u [] []) (bump_nextc st) W)].
      intros th HM HC. split; [exact HM|]. exists []. split; constructor.
    + set (elems := list_of_term (TCons h t)).
      assert (Hu : forall th, choldG th (KDistinct u) -> u = TCons h t).
      { intros th [Hl _]. destruct u; try discriminate. unfold wk in Eu. cbn [walk] in Eu. exact Eu. }
      assert (Sp : forall th, choldG th (KDistinct u) -> exists zs, Forall2 (numv th) elems zs /\ NoDup zs).
      { intros th HC. pose proof (Hu th HC) as E. destruct HC as [_ [zs [Hz Hn]]]. rewrite E in Hz. exists zs. split; assumption. }
      destruct (forallb _ (filter (fun t0 => negb (is_var t0)) elems)) eqn:Ef; [|exact I].
      assert (Hnum : forall e, In e elems -> is_var e = false -> exists z, e = tnum z).
      { intros e Hin Hv. rewrite forallb_forall in Ef. specialize (Ef e). rewrite filter_In in Ef. rewrite Hv in Ef.
        specialize (Ef (conj Hin eq_refl)). destruct e as [[z| | |]| | | |]; try discriminate. exists z. reflexivity. }
      destruct (strictly_increasing _) eqn:Esi.
      * eapply sresCP_pre; [|apply (rcr_C (st_nextc st) _ (bump_nextc st) W)].
        intros th HM HC. split; [exact HM|]. destruct (Sp th HC) as [zs [Hz Hn]].
        destruct (elems_split th elems zs Hz Hnum) as [zx [A B]]. exists zx. split; [exact A|].
        eapply Permutation_NoDup; [|exact Hn]. eapply perm_trans; [exact B|]. apply Permutation_app_head, Permutation_sym, isort_perm.
      * cbn [sresCP]. intros th HM HC. destruct (Sp th HC) as [zs [Hz Hn]].
        destruct (elems_split th elems zs Hz Hnum) as [zx [A B]].
        assert (Hn2 : NoDup (isort (numvals (filter (fun t0 => negb (is_var t0)) elems)))).
        { eapply Permutation_NoDup; [apply Permutation_sym, isort_perm|]. apply (Permutation_NoDup B) in Hn. apply nodup_app_r in Hn. exact Hn. }
        pose proof (wsorted_nodup_incr _ (isort_sorted _) Hn2) as Hsi. unfold numvals in Hsi. fold elems in Hsi. rewrite Hsi in Esi. discriminate.
  - (* the running distinct object *)
    match goal with |- sresCP _ _ (match ?F ys [] n with _ => _ end) => set (step := F) end.
    assert (SP : forall th, sat th (st_smap st) -> forall ys0 x0 n0 zsy zsx,
              Forall2 (numv th) ys0 zsy -> Forall2 (numv th) (rev x0) zsx -> NoDup (zsy ++ zsx ++ n0) ->
              match step ys0 x0 n0 with
              | inl (Some (Some (x', n'))) => exists zs', Forall2 (numv th) x' zs' /\ Permutation (zs' ++ n') (zsy ++ zsx ++ n0)
              | inl (Some None) => False
              | _ => True
              end).
    { intros th Hs. induction ys0 as [|y r IH]; intros x0 n0 zsy zsx Hy Hx Hn; cbn [step].
      - inversion Hy; subst. exists zsx. split; [exact Hx|apply Permutation_refl].
      - inversion Hy as [|? zy ? zr Hzy Hzr]; subst.
        destruct (wk (st_smap st) y) as [[z| | |]|yv ya| | |] eqn:Ey; try exact I.
        + assert (zy = z) by (eapply numv_num; [exact Hs| |exact Hzy]; rewrite Ey; reflexivity). subst zy.
          assert (Hnin : ~ In z n0).
          { cbn [List.app] in Hn. inversion Hn as [|? ? Hni _]; subst. intros Hin. apply Hni. apply in_or_app. right. apply in_or_app. right. exact Hin. }
          destruct (insert_nodup_some z n0 Hnin) as [n1 Ei]. rewrite Ei.
          assert (P1 : Permutation (zr ++ zsx ++ n1) ((z :: zr) ++ zsx ++ n0)).
          { cbn [List.app]. eapply perm_trans; [apply Permutation_app_head, Permutation_app_head, (insert_nodup_perm _ _ _ Ei)|].
            rewrite !List.app_assoc. apply Permutation_sym, Permutation_cons_app. apply Permutation_refl. }
          specialize (IH x0 n1 zr zsx Hzr Hx (Permutation_NoDup (Permutation_sym P1) Hn)).
          destruct (step r x0 n1) as [[[[x' n']|]|]|]; auto. destruct IH as [zs' [A B]]. exists zs'. split; [exact A|].
          eapply perm_trans; [exact B|exact P1].
        + assert (P1 : Permutation (zr ++ (zsx ++ [zy]) ++ n0) ((zy :: zr) ++ zsx ++ n0)).
          { cbn [List.app]. rewrite <- !List.app_assoc. cbn [List.app]. apply Permutation_sym. eapply perm_trans; [apply Permutation_middle|].
            apply Permutation_app_head. apply Permutation_middle. }
          assert (Hx' : Forall2 (numv th) (rev (y :: x0)) (zsx ++ [zy])) by (cbn [rev]; apply Forall2_app; [exact Hx|constructor; [exact Hzy|constructor]]).
          specialize (IH (y :: x0) n0 zr (zsx ++ [zy]) Hzr Hx' (Permutation_NoDup (Permutation_sym P1) Hn)).
          destruct (step r (y :: x0) n0) as [[[[x' n']|]|]|]; auto. destruct IH as [zs' [A B]]. exists zs'. split; [exact A|].
          eapply perm_trans; [exact B|exact P1]. }
    assert (SP0 : forall th, MstG th st -> choldG th (KDistinct2 u ys n) ->
              match step ys [] n with
              | inl (Some (Some (x', n'))) => exists zs', Forall2 (numv th) x' zs' /\ NoDup (zs' ++ n')
              | inl (Some None) => False
              | _ => True
              end).
    { intros th HM [zs [Hz Hn]]. pose proof (SP th (proj1 HM) ys [] n zs [] Hz (Forall2_nil _) Hn) as H.
      destruct (step ys [] n) as [[[[x' n']|]|]|]; auto. destruct H as [zs' [A B]]. exists zs'. split; [exact A|].
      eapply Permutation_NoDup; [apply Permutation_sym, B|exact Hn]. }
    destruct (step ys [] n) as [[[[x n']|]|]|site] eqn:Est; try exact I.
    + set (st1 := with_new_constraint st (KDistinct2 u x n')).
      assert (W1 : WFD st1) by (apply (SolF_wn st _ W)).
      destruct n' as [|z n'].
      * cbn [sresCP]. intros th HM HC. apply (wn_C st (KDistinct2 u x []) th HM). exact (SP0 th HM HC).
      * pose proof (from_vec_spec (z :: n') ltac:(discriminate)) as [excl [Ee [We He]]]. rewrite Ee.
        eapply sresCP_pre; [|apply (exclude_C (st_dstore st1) excl (z :: n') We He (fun v d Hf => W1 v d (find_id_in _ _ _ Hf)) x st1 W1)].
        intros th HM HC. pose proof (SP0 th HM HC) as [zs' [A B]].
        assert (HM1 : MstG th st1) by (apply (wn_C st (KDistinct2 u x (z :: n')) th HM); exists zs'; split; assumption).
        split; [exact HM1|]. split; [apply HM1|]. exists zs'. split; [exact A|].
        intros w Hw Hin.
        revert B. clear -Hw Hin. intros B. induction zs' as [|q r IH]; [destruct Hw|].
        cbn [List.app] in B. inversion B as [|? ? Hni Hr]; subst. destruct Hw as [->|Hw]; [apply Hni; apply in_or_app; right; exact Hin|apply IH; assumption].
    + cbn [sresCP]. intros th HM HC. exact (SP0 th HM HC).
  - (* plusz *)
    destruct (wk (st_smap st) u) as [[na|bu|cu|su]|xu au| | |] eqn:Eu, (wk (st_smap st) v) as [[nb|bv|cv|sv]|xv av| | |] eqn:Ev,
             (wk (st_smap st) w) as [[nr|bw|cw|sw]|xw aw| | |] eqn:Ew; try exact I; try apply wc_C;
      try (cbn [sresCP]; intros th [Hs _] [a [b [r [Ha [Hb [Hr _]]]]]];
           apply (numv_wk' th _ _ _ Hs) in Ha; apply (numv_wk' th _ _ _ Hs) in Hb; apply (numv_wk' th _ _ _ Hs) in Hr;
           rewrite ?Eu, ?Ev, ?Ew in *; unfold numv in *; cbn [app] in *; discriminate).
    + destruct (Z.eqb_spec (na + nb) nr); cbn [sresCP]; [auto|]. intros th [Hs _] [a [b [r [Ha [Hb [Hr E]]]]]].
      apply (numv_wk' th _ _ _ Hs) in Ha, Hb, Hr. rewrite Eu in Ha. rewrite Ev in Hb. rewrite Ew in Hr. unfold numv in *. cbn [app] in *.
      inversion Ha; inversion Hb; inversion Hr; subst. congruence.
    + apply rcs_bindC; [exact W|]. intros th [Hs _] [a [b [r [Ha [Hb [Hr E]]]]]].
      apply (numv_wk' th _ _ _ Hs) in Ha, Hb, Hr. rewrite Eu in Ha. rewrite Ev in Hb. rewrite Ew in Hr. unfold numv in *. cbn [app] in *.
      inversion Ha; inversion Hb; subst. exact Hr.
    + apply rcs_bindC; [exact W|]. intros th [Hs _] [a [b [r [Ha [Hb [Hr E]]]]]].
      apply (numv_wk' th _ _ _ Hs) in Ha, Hb, Hr. rewrite Eu in Ha. rewrite Ev in Hb. rewrite Ew in Hr. unfold numv in *. cbn [app] in *.
      inversion Ha; inversion Hr; subst. rewrite Hb. unfold tnum. cbn [app]. f_equal. f_equal. lia.
    + apply rcs_bindC; [exact W|]. intros th [Hs _] [a [b [r [Ha [Hb [Hr E]]]]]].
      apply (numv_wk' th _ _ _ Hs) in Ha, Hb, Hr. rewrite Eu in Ha. rewrite Ev in Hb. rewrite Ew in Hr. unfold numv in *. cbn [app] in *.
      inversion Hb; inversion Hr; subst. rewrite Ha. unfold tnum. cbn [app]. f_equal. f_equal. lia.
  - (* timesz *)
    destruct (wk (st_smap st) u) as [[na|bu|cu|su]|xu au| | |] eqn:Eu, (wk (st_smap st) v) as [[nb|bv|cv|sv]|xv av| | |] eqn:Ev,
             (wk (st_smap st) w) as [[nr|bw|cw|sw]|xw aw| | |] eqn:Ew; try exact I; try apply wc_C;
      try (cbn [sresCP]; intros th [Hs _] [a [b [r [Ha [Hb [Hr _]]]]]];
           apply (numv_wk' th _ _ _ Hs) in Ha; apply (numv_wk' th _ _ _ Hs) in Hb; apply (numv_wk' th _ _ _ Hs) in Hr;
           rewrite ?Eu, ?Ev, ?Ew in *; unfold numv in *; cbn [app] in *; discriminate).
    + destruct (Z.eqb_spec (na * nb) nr); cbn [sresCP]; [auto|]. intros th [Hs _] [a [b [r [Ha [Hb [Hr E]]]]]].
      apply (numv_wk' th _ _ _ Hs) in Ha, Hb, Hr. rewrite Eu in Ha. rewrite Ev in Hb. rewrite Ew in Hr. unfold numv in *. cbn [app] in *.
      inversion Ha; inversion Hb; inversion Hr; subst. congruence.
    + apply rcs_bindC; [exact W|]. intros th [Hs _] [a [b [r [Ha [Hb [Hr E]]]]]].
      apply (numv_wk' th _ _ _ Hs) in Ha, Hb, Hr. rewrite Eu in Ha. rewrite Ev in Hb. rewrite Ew in Hr. unfold numv in *. cbn [app] in *.
      inversion Ha; inversion Hb; subst. exact Hr.
    + assert (Val : forall th, MstG th st -> choldG th (KTimesZ u v w) -> exists b, th xv = tnum b /\ na * b = nr).
      { intros th [Hs _] [a [b [r [Ha [Hb [Hr E]]]]]].
        apply (numv_wk' th _ _ _ Hs) in Ha, Hb, Hr. rewrite Eu in Ha. rewrite Ev in Hb. rewrite Ew in Hr. unfold numv in *. cbn [app] in *.
        inversion Ha; inversion Hr; subst. exists b. split; [exact Hb|reflexivity]. }
      destruct (Z.eqb_spec na 0) as [E0|E0].
      * destruct (Z.eqb_spec nr 0); [apply wc_C|]. cbn [sresCP]. intros th HM HC. destruct (Val th HM HC) as [b [_ E]]. subst na. lia.
      * destruct (Z.eqb_spec (Z.rem nr na) 0) as [Er|Er].
        -- apply rcs_bindC; [exact W|]. intros th HM HC. destruct (Val th HM HC) as [b [Hb E]]. rewrite Hb. unfold tnum. cbn [app]. f_equal. f_equal.
           subst nr. rewrite Z.mul_comm. symmetry. apply Z.quot_mul. exact E0.
        -- cbn [sresCP]. intros th HM HC. destruct (Val th HM HC) as [b [Hb E]]. apply Er. subst nr. rewrite Z.mul_comm. apply Z.rem_mul. exact E0.
    + assert (Val : forall th, MstG th st -> choldG th (KTimesZ u v w) -> exists a, th xu = tnum a /\ a * nb = nr).
      { intros th [Hs _] [a [b [r [Ha [Hb [Hr E]]]]]].
        apply (numv_wk' th _ _ _ Hs) in Ha, Hb, Hr. rewrite Eu in Ha. rewrite Ev in Hb. rewrite Ew in Hr. unfold numv in *. cbn [app] in *.
        inversion Hb; inversion Hr; subst. exists a. split; [exact Ha|reflexivity]. }
      destruct (Z.eqb_spec nb 0) as [E0|E0].
      * destruct (Z.eqb_spec nr 0); [apply wc_C|]. cbn [sresCP]. intros th HM HC. destruct (Val th HM HC) as [a [_ E]]. subst nb. lia.
      * destruct (Z.eqb_spec (Z.rem nr nb) 0) as [Er|Er].
        -- apply rcs_bindC; [exact W|]. intros th HM HC. destruct (Val th HM HC) as [a [Ha E]]. rewrite Ha. unfold tnum. cbn [app]. f_equal. f_equal.
           subst nr. symmetry. apply Z.quot_mul. exact E0.
        -- cbn [sresCP]. intros th HM HC. destruct (Val th HM HC) as [a [Ha E]]. apply Er. subst nr. apply Z.rem_mul. exact E0.
Qed.
End Fuelled.

(* ------------------------------------------------------------------ the fuelled recursion *)
Lemma take_holdsG th st id st1 c : take_constraint st id = (st1, Some c) -> MstG th st -> MstG th st1 /\ choldG th c.
Proof.
  unfold take_constraint. destruct (find_id id (st_cstore st)) as [c'|] eqn:E; [|discriminate].
  intros H [Hs [HS HD]]. inversion H; subst. split; [|apply (HS id c), find_id_in, E].
  split; [exact Hs|]. split; [|exact HD]. cbn [log_event set_cstore st_cstore]. intros i cc Hin. apply (HS i cc). eapply remove_id_in; eauto.
Qed.

Lemma run_constraints_C : forall f st, WFD st -> sresCP QT st (run_constraints f st).
Proof.
  induction f as [|f IH]; intros st W; [exact I|]. cbn [run_constraints].
  set (rc := fix rc (g id : nat) (c : constraint) (st0 : state) {struct g} : sres :=
               match g with O => SOOF | S g' => run_constraint (run_constraints f) (rc g') id c st0 end).
  assert (RCF : forall g id c st0, WFD st0 -> sresFC c st0 (rc g id c st0)).
  { induction g as [|g IHg]; intros id c st0 W0; [exact I|]. cbn [rc]. apply run_constraint_FC; auto. apply run_constraints_F. }
  assert (RC : forall g id c st0, WFD st0 -> sresCP (fun th => choldG th c) st0 (rc g id c st0)).
  { induction g as [|g IHg]; intros id c st0 W0; [exact I|]. cbn [rc]. apply run_constraint_C; auto. apply run_constraints_F. }
  generalize (map fst (st_cstore st)). intros ids. revert st W.
  induction ids as [|id r IHr]; intros st W; [cbn; auto|].
  destruct (take_constraint st id) as [st1 [c|]] eqn:ET.
  - destruct (take_holdsF (fun _ => TEmpty) _ _ _ _ ET) as [Es [Ed _]].
    assert (W1 : WFD st1) by (intros x d; rewrite Ed; apply W).
    apply (sresCP_pre QT (fun th => choldG th c) st st1); [intros th HM _; apply (take_holdsG th _ _ _ _ ET HM)|].
    apply sbind_C; [apply (sresFC_F c), RCF, W1|apply RC, W1|].
    intros st2 W2. eapply sresCP_ext; [|apply IHr, W2]. intros; exact I.
  - unfold take_constraint in ET. destruct (find_id id (st_cstore st)); [discriminate|]. inversion ET; subst. apply IHr, W.
Qed.

Lemma run_constraint_top_C : forall g f id c st, WFD st -> sresCP (fun th => choldG th c) st (run_constraint_top g f id c st).
Proof.
  induction g as [|g IH]; intros f id c st W; [exact I|]. cbn [run_constraint_top].
  apply run_constraint_C; [apply run_constraints_F|apply run_constraints_C|intros; apply IH; assumption|exact W].
Qed.

(* posting a constraint: no solution of the state that satisfies the constraint is lost; failure means there is none *)
Theorem post_constraint_C c st : WFD st -> sresCP (fun th => choldG th c) st (post_constraint c st).
Proof.
  intros W. unfold post_constraint. pose proof (run_constraint_top_C cfuel cfuel (st_nextc st) c (bump_nextc st) W) as H.
  destruct (run_constraint_top _ _ _ c (bump_nextc st)); cbn in *; auto.
Qed.
(* posting a domain *)
Theorem post_domain_C x d st : WFD st -> wf' d ->
  sresCP (fun th => exists z, numv th x z /\ mem d z) st (post_domain x d st).
Proof.
  intros W Wd. unfold post_domain.
  eapply sresCP_pre; [|apply (process_domain_C (run_constraints cfuel) (run_constraints_C cfuel) st (wk (st_smap st) x) d W Wd)].
  intros th HM [z [Hz Mz]]. split; [exact HM|]. exists z. split; [apply numv_wk'; [apply HM|exact Hz]|exact Mz].
Qed.

