(* C22: the hook balance holds in every state of every stream the engine builds (lift of
   HookProofs over the search by StreamInv). *)
From Coq Require Import List ZArith Bool Arith Lia.
From PV Require Import Model.Term Model.Subst Model.Unify Model.FD Model.State Model.Engine
  Proofs.UnifyProofs Proofs.DiseqProofs Proofs.HookProofs Proofs.StreamInv.
Import ListNotations.

Lemma sresP_bal r : sres_bal r -> sresP bal r.
Proof. destruct r; auto. Qed.

Lemma bal_probe st tag : bal st -> bal (log_event st (probe_event tag st)).
Proof. apply bal_log_other; reflexivity. Qed.

Section WithDefs.
Variable defs : list (nat * def).

Theorem start_bal n g st : bal st -> allS bal (start defs n g st).
Proof.
  apply start_all.
  - intros; apply sresP_bal, state_unify_bal; assumption.
  - intros; apply sresP_bal, state_disunify_bal; assumption.
  - intros; apply sresP_bal, post_domain_bal; assumption.
  - intros; apply sresP_bal, post_constraint_bal; assumption.
  - intros st0 n0 H; exact H.
  - intros; apply bal_probe; assumption.
  - intros st0 r nv H; exact H.
  - intros; apply bal_take_constraint; assumption.
  - intros; apply bal_with_new_constraint; assumption.
Qed.

Theorem next_bal k used s a rest used' :
  allS bal s -> next defs k used s = NAnswer a rest used' -> bal a /\ allS bal rest.
Proof.
  apply next_all.
  - intros; apply sresP_bal, state_unify_bal; assumption.
  - intros; apply sresP_bal, state_disunify_bal; assumption.
  - intros; apply sresP_bal, post_domain_bal; assumption.
  - intros; apply sresP_bal, post_constraint_bal; assumption.
  - intros st0 n0 H; exact H.
  - intros; apply bal_probe; assumption.
  - intros st0 r nv H; exact H.
  - intros; apply bal_take_constraint; assumption.
  - intros; apply bal_with_new_constraint; assumption.
Qed.
End WithDefs.
