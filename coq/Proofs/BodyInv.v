(* Lifting a state invariant over the search of every goal without a reification step (everything
   the front end elaborates; the reification goal is only ever the last conjunct of a query):
   if P is preserved by the four state operations and does not depend on the counters and the hook
   log, every state inside every stream of such a goal satisfies P, and so does every answer that
   flows on into later goals or reaches the reification step. *)
From Coq Require Import List ZArith Bool Arith Lia.
From PV Require Import Model.Term Model.Subst Model.Unify Model.FD Model.State Model.Engine
  Proofs.UnifyProofs Proofs.PanicProofs Proofs.ElabAll Proofs.KeyProofs Proofs.KeyStream.
Import ListNotations.

Section Inv.
Variable P : state -> Prop.
Definition sresPb (r : sres) : Prop := match r with SOk st => P st | _ => True end.

Hypothesis P_unify : forall st u v, P st -> sresPb (state_unify st u v).
Hypothesis P_disunify : forall st u v, P st -> sresPb (state_disunify st u v).
Hypothesis P_post_domain : forall x d st, P st -> sresPb (post_domain x d st).
Hypothesis P_post_constraint : forall c st, P st -> sresPb (post_constraint c st).
Hypothesis P_nextv : forall st n, P st -> P (set_nextv st n).
Hypothesis P_log : forall st e, P st -> P (log_event st e).

Fixpoint pbL (l : lzy) : Prop :=
  match l with
  | LBind l' g | LBindDFS l' g => pbL l' /\ body g
  | LMPlus a b | LMPlusDFS a b => pbL a /\ pbL b
  | LPause st g | LPauseDFS st g => P st /\ body g
  | LDelay s => pbS s
  end
with pbS (s : stream) : Prop :=
  match s with
  | SEmpty | SErr _ _ => True
  | SUnit st => P st
  | SLazy l => pbL l
  | SCons st l => P st /\ pbL l
  end.

Lemma sres_stream_pb r : sresPb r -> pbS (sres_stream r).
Proof. destruct r; cbn; auto. Qed.
Lemma mplus_pb s l : pbS s -> pbL l -> pbS (mplus s l).
Proof. destruct s; cbn; tauto. Qed.
Lemma mplus_dfs_pb s l : pbS s -> pbL l -> pbS (mplus_dfs s l).
Proof. destruct s; cbn; tauto. Qed.
Lemma mplus_k_pb k s l : pbS s -> pbL l -> pbS (mplus_k k s l).
Proof. destruct k; [apply mplus_pb|apply mplus_dfs_pb]. Qed.
Lemma lazy_bind_pb l g : pbL l -> body g -> pbS (lazy_bind l g).
Proof. unfold lazy_bind. destruct (is_succeed g), (is_fail g); cbn; auto. Qed.
Lemma lazy_bind_dfs_pb l g : pbL l -> body g -> pbS (lazy_bind_dfs l g).
Proof. unfold lazy_bind_dfs. destruct (is_succeed g), (is_fail g); cbn; auto. Qed.
Lemma lazy_bind_k_pb k l g : pbL l -> body g -> pbS (lazy_bind_k k l g).
Proof. destruct k; [apply lazy_bind_pb|apply lazy_bind_dfs_pb]. Qed.
Lemma bind_pb s g : pbS s -> body g -> pbS (bind s g).
Proof.
  unfold bind. destruct (is_succeed g); [auto|]. destruct (is_fail g); [intros; exact I|].
  destruct s; cbn; auto.
  - apply lazy_bind_pb.
  - intros [H1 H2] H3. auto.
Qed.
Lemma bind_dfs_pb s g : pbS s -> body g -> pbS (bind_dfs s g).
Proof.
  unfold bind_dfs. destruct (is_succeed g); [auto|]. destruct (is_fail g); [intros; exact I|].
  destruct s; cbn; auto.
  - apply lazy_bind_dfs_pb.
  - intros [H1 H2] H3. auto.
Qed.
Lemma pause_k_pb k st g : P st -> body g -> pbL (pause_k k st g).
Proof. destruct k; cbn; auto. Qed.
Lemma step_with_pb startf : (forall g st, P st -> body g -> pbS (startf g st)) -> forall l, pbL l -> pbS (step_with startf l).
Proof.
  intros Hs. induction l; cbn [step_with pbL]; intros H; auto.
  - destruct H. apply bind_pb; auto.
  - destruct H. apply mplus_pb; auto.
  - destruct H. apply Hs; auto.
  - destruct H. apply bind_dfs_pb; auto.
  - destruct H. apply mplus_dfs_pb; auto.
  - destruct H. apply Hs; auto.
Qed.
Lemma mature_pb stepf : (forall l, pbL l -> pbS (stepf l)) -> forall f s, pbS s -> pbS (mature stepf f s).
Proof. intros Hs. induction f as [|f IH]; intros s H; [exact I|]. cbn [mature]. destruct s; auto. Qed.
Lemma trunc_pb s : pbS s -> pbS (trunc_of s).
Proof. destruct s; cbn; tauto. Qed.

Section WithDefs.
Variable defs : list (nat * def).

Lemma start_pb : forall n g st, P st -> body g -> pbS (start defs n g st).
Proof.
  induction n as [|n IH]; intros g st HP Hg; [exact I|].
  assert (Hstep : forall l, pbL l -> pbS (step_with (start defs n) l)) by (apply step_with_pb; exact IH).
  assert (BA : forall l, Forall body l -> body (from_array BFS l)) by (intros; apply from_array_all; [exact A_body_elab|assumption]).
  destruct g; cbn [start].
  - exact HP.
  - exact I.
  - apply sres_stream_pb, P_unify, HP.
  - apply sres_stream_pb, P_disunify, HP.
  - destruct Hg. apply lazy_bind_k_pb; [apply pause_k_pb|]; assumption.
  - apply body_conde in Hg. induction Hg as [|c r Hc Hr IHr]; [exact I|]. cbn [fold_right]. apply mplus_k_pb; [apply IH; auto|exact IHr].
  - apply pause_k_pb; assumption.
  - pose proof (elab_body defs efuel k rho (GConj gs) (st_nextv st)) as He.
    destruct (elab defs efuel k rho (GConj gs) (st_nextv st)). apply IH; [apply P_nextv, HP|exact He].
  - destruct (find_def r defs); [|exact I].
    match goal with |- pbS (let '(c, nv) := ?X in _) => pose proof (elab_body defs efuel k (combine (d_params d) args) (GConj [d_body d]) (st_nextv st)) as He; destruct X end.
    apply IH; [apply P_nextv, HP|exact He].
  - destruct Hg as [H1 [H2 H3]]. pose proof (mature_pb _ Hstep mfuel _ (IH g1 st HP H1)) as Hm.
    destruct (mature _ mfuel (start defs n g1 st)) eqn:E; try (apply bind_pb; [exact Hm|exact H2]); [apply IH; auto|exact Hm].
  - destruct Hg as [H1 [H2 H3]]. pose proof (mature_pb _ Hstep mfuel _ (IH g1 st HP H1)) as Hm.
    destruct (mature _ mfuel (start defs n g1 st)) eqn:E;
      try (apply bind_pb; [apply trunc_pb; exact Hm|exact H2]); [apply IH; auto|exact Hm].
  - apply IH; [exact HP|]. apply conde_from_all; [exact A_body_elab|]. repeat constructor; [exact Hg|].
    apply anyo_from_all; [exact A_body_elab|]. repeat constructor. exact Hg.
  - match goal with |- pbS (let '(cs, nv) := ?X in _) => assert (H : Forall body (fst X)) end.
    { clear Hg. generalize (st_nextv st). induction elems as [|e r IHr]; intros nv; [constructor|].
      pose proof (elab_body defs efuel k ((x, e) :: rho) (GConj (map GConj cs)) nv) as He.
      destruct (elab defs efuel k ((x, e) :: rho) (GConj (map GConj cs)) nv) as [c n1].
      specialize (IHr n1). match goal with |- context [let '(cs0, n2) := ?X in _] => destruct X end.
      constructor; assumption. }
    match goal with |- pbS (let '(cs, nv) := ?X in _) => destruct X end.
    apply IH; [apply P_nextv, HP|]. apply from_iter_all; [exact A_body_elab|exact H].
  - destruct (project_env st rho xs rho); [|exact I].
    match goal with |- pbS (let '(c, nv) := elab defs efuel k e ?G ?N in _) => pose proof (elab_body defs efuel k e G N) as He; destruct (elab defs efuel k e G N) end.
    apply IH; [apply P_nextv, HP|exact He].
  - apply sres_stream_pb, P_post_domain, HP.
  - apply sres_stream_pb, P_post_constraint, HP.
  - exact I.
  - apply P_log, HP.
  - destruct (first_number u); [|exact I]. apply sres_stream_pb, P_unify, HP.
  - destruct (wk (st_smap st) x) as [l|v any| |t1 t2|tg ts] eqn:E; try exact HP.
    + destruct (dom_get st (TVar v any)) as [f|]; [|exact HP].
      generalize SEmpty (I : pbS SEmpty). induction (fd_iter_rev f) as [|z r IHr]; intros acc Hacc; [exact Hacc|].
      cbn [fold_left]. apply IHr. apply mplus_pb; [|exact Hacc]. apply sres_stream_pb, P_unify, HP.
    + destruct (dom_get st (TCons t1 t2)); apply IH; auto; apply BA; repeat constructor.
    + destruct (dom_get st (TComp tg ts)); apply IH; auto; apply BA; apply Forall_forall; intros c Hc;
        apply in_map_iff in Hc; destruct Hc as [v [<- _]]; exact I.
  - destruct (verify_all_bound st); [|exact I].
    apply IH; [exact HP|]. apply onceo_from_all; [exact A_body_elab|]. repeat constructor.
  - destruct Hg.
Qed.

Lemma step_pb l : pbL l -> pbS (step defs l).
Proof. apply step_with_pb. intros; apply start_pb; assumption. Qed.

(* every answer delivered from a body stream satisfies P, and so does everything left in the stream *)
Lemma next_pb : forall k used s a rest used', pbS s -> next defs k used s = NAnswer a rest used' -> P a /\ pbS rest.
Proof.
  induction k as [|k IH]; intros used s a rest used' Hs H; destruct s; cbn in H; try discriminate.
  - injection H as <- <- _. split; [exact Hs|exact I].
  - injection H as <- <- _. destruct Hs. split; assumption.
  - injection H as <- <- _. split; [exact Hs|exact I].
  - eapply IH; [|exact H]. apply step_pb, Hs.
  - injection H as <- <- _. destruct Hs. split; assumption.
Qed.
End WithDefs.
End Inv.
