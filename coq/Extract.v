(* Extraction of the executable model to OCaml (ExtrOcamlBasic only: bool, option, unit,
   list, prod, sumbool, sumor are mapped to OCaml's; Z, N, positive, nat stay inductive). *)
From Coq Require Import Extraction ExtrOcamlBasic ZArith List.
From PV Require Import Model.FD Model.Term Model.Subst Model.Unify Model.State Model.Engine Model.LTermOps.
Extraction Language OCaml.
Set Extraction AccessOpaque.
Extraction "model.ml"
  Z.add Z.sub Z.mul Z.opp Z.of_nat Z.to_nat Z.quotrem Z.compare Z.eqb Z.ltb Z.leb N.of_nat N.to_nat
  fd_iter fd_iter_rev fd_min fd_max fd_is_singleton fd_singleton_value fd_contains
  fd_copy_before fd_drop_before fd_intersect fd_diff fd_is_disjoint fd_eqb fd_eqb_subset
  fd_from_vec fd_from_vec_nodedup fd_from_range fd_from_value
  term_eqb list_term improper_term walk_star wk unify occurs dfuel
  state_unify state_disunify empty_state
  query_goal start sfuel run_query relevant_constraints
  lt_iter lt_iter_mut_pinned lt_is_list lt_is_empty lt_is_non_empty_list lt_is_improper lt_head lt_tail lt_index
  lt_contains lt_collect lt_improper lt_extend hash_tokens.
