(* GENERATED on every run by /verif/gen/pv2sexp.py from /repo/src/relation/*.rs -- do not edit. *)
From Coq Require Import List ZArith.
From PV Require Import Model.Term Model.FD Model.State Model.Engine.
Import ListNotations.

Definition rel_member : nat := 1.
Definition rel_member1 : nat := 2.
Definition rel_append : nat := 3.
Definition rel_rember : nat := 4.
Definition rel_permute : nat := 5.
Definition rel_distinct : nat := 6.
Definition rel_cons : nat := 7.
Definition rel_first : nat := 8.
Definition rel_rest : nat := 9.
Definition rel_empty : nat := 10.
Definition rel_never : nat := 11.
Definition rel_always : nat := 12.

Definition def_member : def := mkDef [1; 2] true
  (GMatch MMatch (TVar 2 false) [([(improper_term [(TVar 3 false)] (TVar 0 true))], [(GEq (TVar 3 false) (TVar 1 false))]); ([(improper_term [(TVar 0 true)] (TVar 4 false))], [(GCall 1 [(TVar 1 false); (TVar 4 false)])])]).
Definition def_member1 : def := mkDef [1; 2] true
  (GMatch MMatch (TVar 2 false) [([(improper_term [(TVar 3 false)] (TVar 0 true))], [(GEq (TVar 3 false) (TVar 1 false))]); ([(improper_term [(TVar 3 false)] (TVar 4 false))], [(GConj [(GDiseq (TVar 3 false) (TVar 1 false)); (GCall 2 [(TVar 1 false); (TVar 4 false)])])])]).
Definition def_append : def := mkDef [1; 2; 3] true
  (GMatch MMatch (list_term [(TVar 1 false); (TVar 2 false); (TVar 3 false)]) [([(list_term [TEmpty; (TVar 4 false); (TVar 4 false)])], []); ([(list_term [(improper_term [(TVar 4 false)] (TVar 5 false)); (TVar 6 false); (improper_term [(TVar 4 false)] (TVar 7 false))])], [(GCall 3 [(TVar 5 false); (TVar 6 false); (TVar 7 false)])])]).
Definition def_rember : def := mkDef [1; 2; 3] true
  (GMatch MMatch (list_term [(TVar 2 false); (TVar 3 false)]) [([(list_term [TEmpty; TEmpty])], []); ([(list_term [(improper_term [(TVar 4 false)] (TVar 5 false)); (TVar 5 false)])], [(GEq (TVar 4 false) (TVar 1 false))]); ([(list_term [(improper_term [(TVar 6 false)] (TVar 7 false)); (improper_term [(TVar 6 false)] (TVar 8 false))])], [(GDiseq (TVar 6 false) (TVar 1 false)); (GCall 4 [(TVar 1 false); (TVar 7 false); (TVar 8 false)])])]).
Definition def_permute : def := mkDef [1; 2] true
  (GMatch MMatch (list_term [(TVar 1 false); (TVar 2 false)]) [([(list_term [TEmpty; TEmpty])], []); ([(list_term [(improper_term [(TVar 3 false)] (TVar 4 false)); (TVar 0 true)])], [(GFresh [5] [(GCall 5 [(TVar 4 false); (TVar 5 false)]); (GCall 4 [(TVar 3 false); (TVar 2 false); (TVar 5 false)])])])]).
Definition def_distinct : def := mkDef [1] true
  (GMatch MMatch (TVar 1 false) [([TEmpty; (list_term [(TVar 0 true)])], []); ([(improper_term [(TVar 2 false); (TVar 3 false)] (TVar 4 false))], [(GDiseq (TVar 2 false) (TVar 3 false)); (GCall 6 [(improper_term [(TVar 2 false)] (TVar 4 false))]); (GCall 6 [(improper_term [(TVar 3 false)] (TVar 4 false))])])]).
Definition def_cons : def := mkDef [1; 2; 3] false
  (GEq (improper_term [(TVar 1 false)] (TVar 2 false)) (TVar 3 false)).
Definition def_first : def := mkDef [1; 2] false
  (GFresh [3] [(GCall 7 [(TVar 2 false); (TVar 3 false); (TVar 1 false)])]).
Definition def_rest : def := mkDef [1; 2] false
  (GFresh [3] [(GCall 7 [(TVar 3 false); (TVar 2 false); (TVar 1 false)])]).
Definition def_empty : def := mkDef [1] false
  (GEq TEmpty (TVar 1 false)).
Definition def_never : def := mkDef [] false
  (GLoop [[GFalse]]).
Definition def_always : def := mkDef [] false
  (GLoop [[GTrue]]).

Definition lib_defs : list (nat * def) := [(rel_member, def_member); (rel_member1, def_member1); (rel_append, def_append); (rel_rember, def_rember); (rel_permute, def_permute); (rel_distinct, def_distinct); (rel_cons, def_cons); (rel_first, def_first); (rel_rest, def_rest); (rel_empty, def_empty); (rel_never, def_never); (rel_always, def_always)].
