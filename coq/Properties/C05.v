(* C05 - Depth-first search yields answers in Prolog order.
   Only statements: each theorem is closed by [exact lemma], pinned by [Check], followed by
   [Print Assumptions].

   startq defs        : the function the engine's steps use to start a goal ([start defs sfuel])
   runs f n s ys s'   : n micro-steps of Solver::next from stream s deliver exactly ys, in this
                        order, and leave s'
   ansS f s ys        : ys is an admissible complete answer sequence of s in the reference
                        semantics (Spec/StreamSem.v): depth-first nodes fix the order *)
From Coq Require Import List Permutation ZArith.
From PV Require Import Model.Term Model.Subst Model.State Model.Engine Spec.StreamSem
  Proofs.StreamProofs Proofs.EngineProofs Gen.RelDefs.
Import ListNotations.

(* whatever the engine has delivered when the stream is exhausted is an admissible sequence *)
Theorem C05_delivered_is_admissible : forall defs n s ys,
  runs (startq defs) n s ys SEmpty -> ansS (startq defs) s ys.
Proof. intros defs. exact (runs_finished (startq defs) (startq_succeed defs)). Qed.

(* ... and at any moment the delivered prefix extends to one, if the rest has a finite semantics *)
Theorem C05_prefix : forall defs n s ys s' zs,
  runs (startq defs) n s ys s' -> ansS (startq defs) s' zs -> ansS (startq defs) s (ys ++ zs).
Proof. intros defs n s ys s' zs R. exact (runs_ans (startq defs) (startq_succeed defs) n s ys s' R zs). Qed.

(* depth-first disjunction: all answers of the first clause, in their own order, then those of
   the second clause, ... (each clause started from the same state) *)
Theorem C05_disjunction_order : forall defs m n st gs zs,
  ansS (start defs (S m)) (start defs (S n) (CConde DFS gs) st) zs ->
  exists yss, Forall2 (fun c ys => ansS (start defs (S m)) (start defs n c st) ys) gs yss /\ zs = concat yss.
Proof. intros defs m n st gs zs. rewrite start_conde. exact (conde_dfs_ans defs m n st gs zs). Qed.

(* depth-first conjunction: for each answer x of the first goal, in order, the answers of the
   second goal started in x, in their order *)
Theorem C05_conjunction_order : forall defs m n g1 g2 st zs,
  is_fail g2 = false ->
  ansS (start defs (S m)) (start defs (S n) (CConj DFS g1 g2) st) zs ->
  exists xs yss, ansS (start defs (S m)) (start defs (S m) g1 st) xs /\
                 ansB (start defs (S m)) g2 xs yss /\ zs = concat yss.
Proof. exact conj_dfs_ans. Qed.

(* the run function of the model is such a sequence of micro-steps *)
Theorem C05_drain_is_run : forall defs k s ys, drain defs k s = Some ys -> exists n, runs (startq defs) n s ys SEmpty.
Proof. exact drain_runs. Qed.

(* non-vacuity: dfs { cond { member(q, [1, 2]), member(q, [3]) } } runs to the end and delivers 1, 2, 3 *)
Definition C05_example_query :=
  query_goal lib_defs 1 [100]
    [GDfs [[GCond [[GCall rel_member [TVar 100 false; list_term [tnum 1; tnum 2]]];
                   [GCall rel_member [TVar 100 false; list_term [tnum 3]]]]]]].
Example C05_example :
  option_map (map (fun st => walk_star dfuel (st_smap st) (TVar 0 false)))
    (drain lib_defs 400 (start lib_defs sfuel (fst C05_example_query) (snd C05_example_query)))
  = Some [Some (tnum 1); Some (tnum 2); Some (tnum 3)].
Proof. vm_compute. reflexivity. Qed.

(* KNOWN FINDING (dfs_order_after_reification).  The theorems above are about the stream of the dfs
   block.  The sequence a *query* reports is that stream followed by the reification conjunction the
   query macro appends, which interleaves: its cost depends on the answer, so an answer that needs
   more reification steps (q bound to a list) is overtaken by a later cheap one.  The query-level
   reading of the property is refuted by this witness: dfs { cond { q == [3], true } } reports the
   unbound answer of the second clause first. *)
Definition C05_reported (body : list goal) : list (option term) * run_end :=
  let '(g, st) := query_goal lib_defs 1 [100] body in
  let r := run_query lib_defs 10 3000 1 (start lib_defs sfuel g st) [] in
  (map (fun a => nth_error (a_terms (fst a)) 0) (fst (fst r)), snd (fst r)).
Example C05_query_order_refuted :
  exists v, C05_reported [GDfs [[GCond [[GEq (TVar 100 false) (list_term [tnum 3])]; [GTrue]]]]]
            = ([Some (TVar v true); Some (list_term [tnum 3])], EDone).
Proof. eexists. vm_compute. reflexivity. Qed.
(* ... whereas the block's own stream is in order (what C05_disjunction_order states) *)
Example C05_block_order :
  option_map (map (fun st => walk_star dfuel (st_smap st) (TVar 100 false)))
    (drain lib_defs 400 (start lib_defs sfuel
       (fst (elab lib_defs efuel BFS [(100, TVar 100 false)] (GDfs [[GCond [[GEq (TVar 100 false) (list_term [tnum 3])]; [GTrue]]]]) 101))
       (empty_state 101)))
  = Some [Some (list_term [tnum 3]); Some (TVar 100 false)].
Proof. vm_compute. reflexivity. Qed.

Check C05_delivered_is_admissible : forall defs n s ys, runs (startq defs) n s ys SEmpty -> ansS (startq defs) s ys.
Check C05_disjunction_order : forall defs m n st gs zs,
  ansS (start defs (S m)) (start defs (S n) (CConde DFS gs) st) zs ->
  exists yss, Forall2 (fun c ys => ansS (start defs (S m)) (start defs n c st) ys) gs yss /\ zs = concat yss.
Print Assumptions C05_delivered_is_admissible.
Print Assumptions C05_prefix.
Print Assumptions C05_disjunction_order.
Print Assumptions C05_conjunction_order.
Print Assumptions C05_drain_is_run.
