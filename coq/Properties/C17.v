(* C17 - CLP(FD) labeling returns every solution exactly once (partial: see level note).
   Proved: pruning keeps every solution -- the interval each propagator intersects an operand's
   domain with contains the value that operand takes in any solution within the current domains
   (signs arbitrary; saturating arithmetic under the "within isize" guard), and intersecting a
   well-formed domain with such an interval keeps the value; labeling enumerates each domain value
   once (C18_iter: strictly increasing enumeration of exactly the members). *)
From Coq Require Import List ZArith Bool Arith Sorted.
From PV Require Import Model.Term Model.Subst Model.Unify Model.FD Model.State Proofs.FDProofs Proofs.FDPropProofs.
Import ListNotations.
Local Open Scope Z_scope.

Theorem C17_plus_keeps : forall umin umax vmin vmax wmin wmax a b,
  umin <= a <= umax -> vmin <= b <= vmax -> wmin <= a + b <= wmax ->
  in_isize a -> in_isize b -> in_isize (a + b) ->
  sat_add umin vmin <= a + b <= sat_add umax vmax /\
  sat_sub wmin vmax <= a <= sat_sub wmax vmin /\
  sat_sub wmin umax <= b <= sat_sub wmax umin.
Proof. exact plus_keeps. Qed.

Theorem C17_minus_keeps : forall umin umax vmin vmax wmin wmax a b,
  umin <= a <= umax -> vmin <= b <= vmax -> wmin <= a - b <= wmax ->
  in_isize a -> in_isize b -> in_isize (a - b) ->
  sat_sub umin vmax <= a - b <= sat_sub umax vmin /\
  sat_add wmin vmin <= a <= sat_add wmax vmax /\
  sat_sub umin wmax <= b <= sat_sub umax wmin.
Proof. exact minus_keeps. Qed.

Theorem C17_times_product_keeps : forall umin umax vmin vmax a b,
  umin <= a <= umax -> vmin <= b <= vmax -> in_isize (a * b) ->
  zmin4 (sat_mul umin vmin) (sat_mul umin vmax) (sat_mul umax vmin) (sat_mul umax vmax) <= a * b <=
  zmax4 (sat_mul umin vmin) (sat_mul umin vmax) (sat_mul umax vmin) (sat_mul umax vmax).
Proof. exact times_product_keeps. Qed.

Theorem C17_times_quotient_keeps : forall umin umax vmin vmax wmin wmax a b,
  0 <= umin -> 0 <= vmin -> 0 <= wmin ->
  umin <= a <= umax -> vmin <= b <= vmax -> wmin <= a * b <= wmax ->
  or_default (chk_div wmin vmax) umin <= a <= or_default (chk_div wmax vmin) umax /\
  or_default (chk_div wmin umax) vmin <= b <= or_default (chk_div wmax umin) vmax.
Proof. exact times_quotient_keeps. Qed.

Theorem C17_lte_keeps : forall ud vd a b,
  wf_fd ud -> wf_fd vd -> mem ud a -> mem vd b -> a <= b ->
  (exists d1, fd_copy_before (fun x => Z.ltb (zmax vd) x) ud = Some d1 /\ mem d1 a) /\
  (exists d2, fd_drop_before (fun x => Z.leb (zmin ud) x) vd = Some d2 /\ mem d2 b).
Proof. exact lte_keeps. Qed.

Theorem C17_intersect_keeps : forall d lo hi a,
  wf_fd d -> mem d a -> lo <= a <= hi ->
  exists d', fd_intersect d (Interval lo hi) = Some d' /\ wf_fd d' /\ mem d' a.
Proof. exact intersect_keeps. Qed.

(* labeling enumerates exactly the members of the domain, each once (largest first, as map_sum does) *)
Theorem C17_label_values : forall d, wf_fd d ->
  StronglySorted Z.gt (fd_iter_rev d) /\ forall z, In z (fd_iter_rev d) <-> mem d z.
Proof. exact iter_rev_spec. Qed.

(* the pinned bounds lost x * y = -2 over -2..=2 *)
Example C17_times_negative :
  zmin4 (sat_mul (-2) (-2)) (sat_mul (-2) 2) (sat_mul 2 (-2)) (sat_mul 2 2) <= -2 <=
  zmax4 (sat_mul (-2) (-2)) (sat_mul (-2) 2) (sat_mul 2 (-2)) (sat_mul 2 2) /\
  ~ (sat_mul (-2) (-2) <= -2 <= sat_mul 2 2).
Proof. vm_compute. split; [split; discriminate|]. intros [H _]. apply H. reflexivity. Qed.

Check C17_times_product_keeps : forall umin umax vmin vmax a b,
  umin <= a <= umax -> vmin <= b <= vmax -> in_isize (a * b) ->
  zmin4 (sat_mul umin vmin) (sat_mul umin vmax) (sat_mul umax vmin) (sat_mul umax vmax) <= a * b <=
  zmax4 (sat_mul umin vmin) (sat_mul umin vmax) (sat_mul umax vmin) (sat_mul umax vmax).
Print Assumptions C17_plus_keeps.
Print Assumptions C17_minus_keeps.
Print Assumptions C17_times_product_keeps.
Print Assumptions C17_times_quotient_keeps.
Print Assumptions C17_lte_keeps.
Print Assumptions C17_intersect_keeps.
Print Assumptions C17_label_values.
