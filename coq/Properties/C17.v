(* C17 - CLP(FD) labeling returns every solution exactly once (partial: see level note; that no state
   operation except == between domain variables loses a solution is proved at the end of this file).
   Proved: pruning keeps every solution -- the interval each propagator intersects an operand's
   domain with contains the value that operand takes in any solution within the current domains
   (signs arbitrary; saturating arithmetic under the "within isize" guard), and intersecting a
   well-formed domain with such an interval keeps the value; labeling enumerates each domain value
   once (C18_iter: strictly increasing enumeration of exactly the members). *)
From Coq Require Import List ZArith Bool Arith Sorted Lia.
From PV Require Import Model.Term Model.Subst Model.Unify Model.FD Model.State Model.Engine Proofs.FDProofs Proofs.FDPropProofs
  Proofs.UnifyProofs Proofs.DiseqProofs Proofs.MonoProofs Proofs.DenProofs Proofs.FDDen Proofs.FDComp Proofs.Acyc Proofs.FDEq Spec.StreamSem Proofs.EngineProofs Proofs.FDProg Proofs.Complete0 Proofs.ForceC Proofs.StreamProofs Proofs.Unique Proofs.ScopeElab Proofs.ScopeState Proofs.RelComplete Proofs.LibCor.
Import ListNotations.
Local Open Scope Z_scope.

Theorem C17_plus_keeps : forall umin umax vmin vmax wmin wmax a b,
  umin <= a <= umax -> vmin <= b <= vmax -> wmin <= a + b <= wmax ->
  in_isize a -> in_isize b -> in_isize (a + b) ->
  sat_add umin vmin <= a + b <= sat_add umax vmax /\
  sat_sub wmin vmax <= a <= sat_sub wmax vmin /\
  sat_sub wmin umax <= b <= sat_sub wmax umin.
Proof. exact plus_keeps. Qed.

Theorem C17_minus_keeps : forall umin umax vmin vmax wmin wmax a b,
  umin <= a <= umax -> vmin <= b <= vmax -> wmin <= a - b <= wmax ->
  in_isize a -> in_isize b -> in_isize (a - b) ->
  sat_sub umin vmax <= a - b <= sat_sub umax vmin /\
  sat_add wmin vmin <= a <= sat_add wmax vmax /\
  sat_sub umin wmax <= b <= sat_sub umax wmin.
Proof. exact minus_keeps. Qed.

Theorem C17_times_product_keeps : forall umin umax vmin vmax a b,
  umin <= a <= umax -> vmin <= b <= vmax -> in_isize (a * b) ->
  zmin4 (sat_mul umin vmin) (sat_mul umin vmax) (sat_mul umax vmin) (sat_mul umax vmax) <= a * b <=
  zmax4 (sat_mul umin vmin) (sat_mul umin vmax) (sat_mul umax vmin) (sat_mul umax vmax).
Proof. exact times_product_keeps. Qed.

Theorem C17_times_quotient_keeps : forall umin umax vmin vmax wmin wmax a b,
  0 <= umin -> 0 <= vmin -> 0 <= wmin ->
  umin <= a <= umax -> vmin <= b <= vmax -> wmin <= a * b <= wmax ->
  or_default (chk_div wmin vmax) umin <= a <= or_default (chk_div wmax vmin) umax /\
  or_default (chk_div wmin umax) vmin <= b <= or_default (chk_div wmax umin) vmax.
Proof. exact times_quotient_keeps. Qed.

Theorem C17_lte_keeps : forall ud vd a b,
  wf_fd ud -> wf_fd vd -> mem ud a -> mem vd b -> a <= b ->
  (exists d1, fd_copy_before (fun x => Z.ltb (zmax vd) x) ud = Some d1 /\ mem d1 a) /\
  (exists d2, fd_drop_before (fun x => Z.leb (zmin ud) x) vd = Some d2 /\ mem d2 b).
Proof. exact lte_keeps. Qed.

Theorem C17_intersect_keeps : forall d lo hi a,
  wf_fd d -> mem d a -> lo <= a <= hi ->
  exists d', fd_intersect d (Interval lo hi) = Some d' /\ wf_fd d' /\ mem d' a.
Proof. exact intersect_keeps. Qed.

(* labeling enumerates exactly the members of the domain, each once (largest first, as map_sum does) *)
Theorem C17_label_values : forall d, wf_fd d ->
  StronglySorted Z.gt (fd_iter_rev d) /\ forall z, In z (fd_iter_rev d) <-> mem d z.
Proof. exact iter_rev_spec. Qed.

(* the pinned bounds lost x * y = -2 over -2..=2 *)
(* NO SOLUTION IS LOST by any propagation.
   MstG th st : the valuation th solves st - substitution, every stored constraint of every kind, every
   domain - where plusfd/minusfd/timesfd constraints carry the guard of the property (the three values
   are within isize: the propagators use saturating arithmetic) and distinctfd is read on the list term
   it was posted on.  sresCP Q st r : if r is a state, every solution of st that satisfies Q solves
   it; if r is failure, no solution of st satisfies Q.  (Panic and out-of-fuel are separate outcomes.)
   For EVERY constraint kind, any operands (ground, partly bound, unbound), any domains (negative,
   mixed sign, sparse), all fuel, from any state with well-formed domains:
     - posting a constraint keeps every solution of the state that satisfies the constraint - through
       the pruning of all operand domains, the bindings made when a domain becomes one value, the
       re-run of every other stored constraint those bindings trigger, and the dropping of decided
       constraints - and fails only if there is none;
     - posting a domain keeps every solution whose value for the operand lies in the domain;
     - re-running the store after the substitution grew keeps every solution. *)
Theorem C17_post_constraint_complete : forall c st, WFD st -> sresCP (fun th => choldG th c) st (post_constraint c st).
Proof. exact post_constraint_C. Qed.
Theorem C17_post_domain_complete : forall x d st, WFD st -> wf' d ->
  sresCP (fun th => exists z, numv th x z /\ mem d z) st (post_domain x d st).
Proof. exact post_domain_C. Qed.
Theorem C17_rerun_complete : forall f st, WFD st -> sresCP QT st (run_constraints f st).
Proof. exact run_constraints_C. Qed.
(* == on states with domains loses no solution either: every solution of the state that makes both sides
   equal solves the result - the domain of each newly bound variable is intersected into the term it was
   bound to, never lost, never applied twice - and failure means there is none *)
Theorem C17_eq_complete : forall st u v, acyc (st_smap st) -> WFD st ->
  sresCP (fun th => app th u = app th v) st (state_unify st u v).
Proof. exact state_unify_C. Qed.
(* WHOLE PROGRAMS without recursion and before labeling: goals built from domains, every CLP(FD)/CLP(Z)
   constraint, ==, !=, interleaving conjunction and disjunction, fresh variables (flat; written domains
   well-formed).  Every valuation that solves the starting state and satisfies the reading of the goal
   (each constraint its integer relation within isize, each domain membership) solves some answer state
   that is delivered after finitely many steps, or an engine step fails with an error outcome first:
   propagation and search together lose no solution. *)
Theorem C17_no_solution_lost_flat : forall defs th g st, Den0 th g -> flat g -> MstG th st -> GoodS st ->
  exists a n, MstG th a /\ emitsE (startq defs) n (startq defs g st) a.
Proof. exact complete0_delivered. Qed.

(* LABELING loses no solution: force_ans(x) - which enumerates, smallest value first, the domain of
   every domain variable reachable from x through lists and compound terms (typed non-term fields
   looked through) - started in a state that th solves delivers, after finitely many steps, a state
   that th still solves: the branch of each variable's enumeration that carries th's value survives.
   And the flat program followed by the labeling of the query term q, as proto_vulcan_query! runs it:
   every assignment that satisfies all constraints within the domains solves a labeled answer. *)
Theorem C17_labeling_complete : forall defs th x st, MstG th st -> GoodS st ->
  exists a n, MstG th a /\ emitsE (startq defs) n (startq defs (CForceAns x) st) a.
Proof. exact force_delivered. Qed.
Theorem C17_program_then_labeling : forall defs th g q st, Den0 th g -> flat g -> MstG th st -> GoodS st ->
  exists a n, MstG th a /\ emitsE (startq defs) n (startq defs (from_array BFS [g; CForceAns q]) st) a.
Proof. exact flat_then_label. Qed.

(* ... and the same for programs WITH CALLS of recursively defined relations (and closure blocks): for any definitions and any
   step-indexed value-level reading RelV of the relations that unfolds to the reading of the elaborated body, a solution th
   of the reading of the program is still solved - up to the variables drawn while running - by an answer delivered after
   the labeling of the query term *)
Theorem C17_calls_then_labeling : forall defs (RelV : nat -> nat -> list term -> Prop),
  (forall r vals, ~ RelV 0%nat r vals) ->
  (forall k r args th m, RelV (S k) r (map (app th) args) -> Forall (tb m) args ->
     exists d c nv th', find_def r defs = Some d /\
       elab defs efuel BFS (combine (d_params d) args) (GConj [d_body d]) m = (c, nv) /\
       agree m th th' /\ DenV defs RelV k th' c /\ flatV c) ->
  forall k g q th st, DenV defs RelV k th g -> flatV g -> MstG th st -> GoodS st -> stb st -> gb (st_nextv st) g ->
  exists a th' n, agree (st_nextv st) th th' /\ MstG th' a /\
    emitsE (startq defs) n (startq defs (CConj BFS g (CForceAns q)) st) a.
Proof. exact calls_then_label. Qed.

(* "exactly once", first half: a program without disjunction (==, !=, domains, constraints, conjunction,
   fresh) has at most ONE answer state before labeling - any two answers Solver::next delivers from it are
   the same state - so all its solutions are carried by that one state and none is returned twice by
   propagation; the labeling then enumerates each domain value once (C17_label_values) *)
Theorem C17_one_answer_before_labeling : forall defs g, det g -> forall f n1 n2 st ys1 ys2 s1 s2 a b,
  runs (start defs (S f)) n1 (start defs (S f) g st) ys1 s1 -> runs (start defs (S f)) n2 (start defs (S f) g st) ys2 s2 ->
  In a ys1 -> In b ys2 -> a = b.
Proof. exact det_one_answer. Qed.

(* readings of the two outcomes *)
Theorem C17_success_keeps : forall c st st' th, WFD st -> post_constraint c st = SOk st' ->
  MstG th st -> choldG th c -> MstG th st'.
Proof. intros c st st' th W E. pose proof (post_constraint_C c st W) as H. rewrite E in H. exact (H th). Qed.
Theorem C17_failure_means_none : forall c st th, WFD st -> post_constraint c st = SFail ->
  MstG th st -> ~ choldG th c.
Proof. intros c st th W E. pose proof (post_constraint_C c st W) as H. rewrite E in H. exact (H th). Qed.
(* with C16: on success the solutions of the result are solutions of the state that satisfy the constraint
   (soundness, FDDen) and conversely every such solution within the guard is kept (above) *)
Theorem C17_with_C16 : forall c st st', WFD st -> post_constraint c st = SOk st' ->
  (forall th, MstF th st' -> MstF th st /\ choldF th c) /\
  (forall th, MstG th st -> choldG th c -> MstG th st').
Proof.
  intros c st st' W E. split.
  - intros th HM. pose proof (post_constraint_FC c st W) as H. rewrite E in H. cbn in H. destruct H as [S HC].
    split; [eapply MstF_SolF; eauto|apply HC, HM].
  - intros th. eapply C17_success_keeps; eauto.
Qed.
(* non-vacuity: a state, a valuation that solves it and satisfies x * y = -2 with x, y in -2..2 *)
Example C17_guard_satisfiable :
  let st := mkState [] [] [(0%nat, Interval (-2) 2); (1%nat, Interval (-2) 2)] [] 2 0 in
  let th := fun v : nat => match v with O => tnum (-1) | _ => tnum 2 end in
  WFD st /\ MstG th st /\ choldG th (KTimes (TVar 0 false) (TVar 1 false) (tnum (-2))).
Proof.
  cbn. split; [intros x d [H|[H|[]]]; inversion H; subst; exact I|]. split.
  - split; [intros x t []|]. split; [intros i c []|].
    intros x d [H|[H|[]]]; inversion H; subst; [exists (-1)|exists 2]; split; try reflexivity; cbn; lia.
  - exists (-1), 2, (-2). unfold numv, in_isize, isize_min, isize_max. cbn. repeat split; try reflexivity; lia.
Qed.

Example C17_times_negative :
  zmin4 (sat_mul (-2) (-2)) (sat_mul (-2) 2) (sat_mul 2 (-2)) (sat_mul 2 2) <= -2 <=
  zmax4 (sat_mul (-2) (-2)) (sat_mul (-2) 2) (sat_mul 2 (-2)) (sat_mul 2 2) /\
  ~ (sat_mul (-2) (-2) <= -2 <= sat_mul 2 2).
Proof. vm_compute. split; [split; discriminate|]. intros [H _]. apply H. reflexivity. Qed.

Check C17_times_product_keeps : forall umin umax vmin vmax a b,
  umin <= a <= umax -> vmin <= b <= vmax -> in_isize (a * b) ->
  zmin4 (sat_mul umin vmin) (sat_mul umin vmax) (sat_mul umax vmin) (sat_mul umax vmax) <= a * b <=
  zmax4 (sat_mul umin vmin) (sat_mul umin vmax) (sat_mul umax vmin) (sat_mul umax vmax).
Print Assumptions C17_plus_keeps.
Print Assumptions C17_minus_keeps.
Print Assumptions C17_times_product_keeps.
Print Assumptions C17_times_quotient_keeps.
Print Assumptions C17_lte_keeps.
Print Assumptions C17_intersect_keeps.
Print Assumptions C17_label_values.
Print Assumptions C17_post_constraint_complete.
Print Assumptions C17_post_domain_complete.
Print Assumptions C17_rerun_complete.
Print Assumptions C17_success_keeps.
Print Assumptions C17_failure_means_none.
Print Assumptions C17_with_C16.
Print Assumptions C17_eq_complete.
Print Assumptions C17_no_solution_lost_flat.
Print Assumptions C17_labeling_complete.
Print Assumptions C17_program_then_labeling.
Print Assumptions C17_one_answer_before_labeling.
Print Assumptions C17_calls_then_labeling.
