(* C18 - FiniteDomain operations implement set semantics.
   Only statements: every theorem is closed by [exact lemma], pinned by [Check],
   and followed by [Print Assumptions]. *)
From Coq Require Import List ZArith Bool Sorted Lia.
From PV Require Import Model.FD Proofs.FDProofs.
Import ListNotations.
Open Scope Z_scope.

(* [mem d z]   : the set of integers the domain denotes
   [wf_fd d]   : lo <= hi, or a non-empty strictly increasing list
   [res_spec r P] : r = Some d with d well formed and denoting exactly P, or r = None and P is empty *)

Theorem C18_intersect : forall a b, wf_fd a -> wf_fd b ->
  res_spec (fd_intersect a b) (fun z => mem a z /\ mem b z).
Proof. exact intersect_spec. Qed.

Theorem C18_diff : forall a b, wf_fd a -> wf_fd b ->
  res_spec (fd_diff a b) (fun z => mem a z /\ ~ mem b z).
Proof. exact diff_spec. Qed.

Theorem C18_is_disjoint : forall a b, wf_fd a -> wf_fd b ->
  exists r, fd_is_disjoint a b = Some r /\ (r = true <-> forall z, mem a z -> ~ mem b z).
Proof. exact is_disjoint_spec. Qed.

Theorem C18_contains : forall d u, wf_fd d -> (fd_contains d u = true <-> mem d u).
Proof. exact contains_spec. Qed.

Theorem C18_min : forall d, wf_fd d ->
  exists m, fd_min d = Some m /\ mem d m /\ forall z, mem d z -> m <= z.
Proof. exact min_spec. Qed.

Theorem C18_max : forall d, wf_fd d ->
  exists m, fd_max d = Some m /\ mem d m /\ forall z, mem d z -> z <= m.
Proof. exact max_spec. Qed.

Theorem C18_is_singleton : forall d, wf_fd d ->
  (fd_is_singleton d = true <-> exists v, forall z, mem d z <-> z = v).
Proof. exact is_singleton_spec. Qed.

Theorem C18_singleton_value : forall d v, wf_fd d ->
  (fd_singleton_value d = Some v <-> forall z, mem d z <-> z = v).
Proof. exact singleton_value_spec. Qed.

Theorem C18_copy_before : forall p d, wf_fd d ->
  res_spec (fd_copy_before p d)
           (fun z => mem d z /\ forall y, mem d y -> y <= z -> p y = false).
Proof. exact copy_before_spec. Qed.

Theorem C18_drop_before : forall p d, wf_fd d ->
  res_spec (fd_drop_before p d)
           (fun z => mem d z /\ exists y, mem d y /\ y <= z /\ p y = true).
Proof. exact drop_before_spec. Qed.

Theorem C18_iter : forall d, wf_fd d ->
  StronglySorted Z.lt (fd_iter d) /\ forall z, In z (fd_iter d) <-> mem d z.
Proof. exact iter_spec. Qed.

Theorem C18_iter_rev : forall d, wf_fd d ->
  StronglySorted Z.gt (fd_iter_rev d) /\ forall z, In z (fd_iter_rev d) <-> mem d z.
Proof. exact iter_rev_spec. Qed.

Theorem C18_eq : forall a b, wf_fd a -> wf_fd b ->
  (fd_eqb a b = true <-> forall z, mem a z <-> mem b z).
Proof. exact eq_spec. Qed.

Theorem C18_from_vec : forall v, v <> [] ->
  exists d, fd_from_vec v = Some d /\ wf_fd d /\ forall z, mem d z <-> In z v.
Proof. exact from_vec_spec. Qed.

(* non-vacuity: both representations have well-formed inhabitants meeting every guard *)
Example C18_nonvacuous :
  wf_fd (Interval (-3) 4) /\ wf_fd (Sparse [-2; 0; 5]) /\
  fd_intersect (Interval (-3) 4) (Sparse [-2; 0; 5]) = Some (Sparse [-2; 0]) /\
  fd_from_vec [3; 1; 3; 2] = Some (Sparse [1; 2; 3]).
Proof.
  repeat split; try (cbn; lia); try discriminate; try reflexivity.
  repeat constructor; lia.
Qed.

(* What the theorems above exclude, as machine-checked witnesses.
   (a) the subset test that the pinned tree used for == is not set equality;
   (b) sorting without dedup breaks well-formedness;
   (c) the pinned copy_before saturated at isize::MIN (all four repaired by fix: commits in /repo;
       the pinned is_singleton overflowed in the Rust subtraction itself, which Z does not exhibit). *)
Example C18_eq_subset_refuted :
  fd_eqb_subset (Interval 1 3) (Interval 1 5) = true /\ ~ (forall z, mem (Interval 1 3) z <-> mem (Interval 1 5) z).
Proof. split; [reflexivity|]. intros H. specialize (H 5). cbn in H. lia. Qed.

Example C18_from_vec_nodedup_refuted :
  exists d, fd_from_vec_nodedup [1; 1] = Some d /\ ~ wf_fd d /\ fd_is_singleton d = false.
Proof.
  eexists. split; [reflexivity|]. split; [|reflexivity]. intros [_ H].
  inversion H as [|? ? _ H']; subst. inversion H' as [|? ? H'' _]; subst. lia.
Qed.

Example C18_copy_before_pinned_refuted :
  fd_copy_before_pinned (fun _ => true) (Interval isize_min (isize_min + 2)) = Some (Interval isize_min isize_min) /\
  fd_copy_before (fun _ => true) (Interval isize_min (isize_min + 2)) = None.
Proof. vm_compute. split; reflexivity. Qed.

Check C18_intersect : forall a b, wf_fd a -> wf_fd b -> res_spec (fd_intersect a b) (fun z => mem a z /\ mem b z).
Check C18_diff : forall a b, wf_fd a -> wf_fd b -> res_spec (fd_diff a b) (fun z => mem a z /\ ~ mem b z).
Check C18_copy_before : forall p d, wf_fd d -> res_spec (fd_copy_before p d) (fun z => mem d z /\ forall y, mem d y -> y <= z -> p y = false).
Check C18_is_singleton : forall d, wf_fd d -> (fd_is_singleton d = true <-> exists v, forall z, mem d z <-> z = v).
Check C18_eq : forall a b, wf_fd a -> wf_fd b -> (fd_eqb a b = true <-> forall z, mem a z <-> mem b z).
Print Assumptions C18_intersect.
Print Assumptions C18_diff.
Print Assumptions C18_is_disjoint.
Print Assumptions C18_contains.
Print Assumptions C18_min.
Print Assumptions C18_max.
Print Assumptions C18_is_singleton.
Print Assumptions C18_singleton_value.
Print Assumptions C18_copy_before.
Print Assumptions C18_drop_before.
Print Assumptions C18_iter.
Print Assumptions C18_iter_rev.
Print Assumptions C18_eq.
Print Assumptions C18_from_vec.
