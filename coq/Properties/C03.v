(* C03 - Answers are fully reified, closed and carry their relevant constraints. *)
From Coq Require Import List ZArith Bool Arith.
From PV Require Import Model.Term Model.Subst Model.Unify Model.FD Model.State Model.Engine Proofs.ReifyProofs.
Import ListNotations.

(* the constraints reported with an answer mention only reified variables of that answer
   (r is the reifying substitution of the answer state) *)
Theorem C03_reported_constraints_closed : forall r cs i ps,
  In (i, KDiseq ps) (purify r cs) ->
  forall x t, In (x, t) ps -> bound_in x r = true /\ all_keys r t.
Proof. exact purify_closed. Qed.

(* asking a result term for its constraints returns exactly the reported constraints with an
   operand among the any-variables occurring anywhere in the term -- inside lists and compounds too *)
Theorem C03_constraints_complete : forall t cs ps,
  In ps (relevant_constraints t cs) <-> In ps cs /\ exists v, any_occurs v t /\ operand v ps.
Proof. exact relevant_constraints_spec. Qed.

(* reification only adds bindings to new any-variables with increasing identities *)
Theorem C03_reify_extends : forall f s n t s' n',
  reify_s f s n t = Some (s', n') -> n <= n' /\ exists new, s' = new ++ s.
Proof. intros f. exact (proj1 (reify_s_mono f)). Qed.

(* non-vacuity: p == Pair(1, x), x != 3: the constraint is reported and is found through p *)
Example C03_compound_example :
  relevant_constraints (TComp 7 (TMore (tnum 1) (TMore (TVar 5 true) TNil))) [[(5, tnum 3)]] = [[(5, tnum 3)]].
Proof. vm_compute. reflexivity. Qed.

Check C03_constraints_complete : forall t cs ps,
  In ps (relevant_constraints t cs) <-> In ps cs /\ exists v, any_occurs v t /\ operand v ps.
Print Assumptions C03_reported_constraints_closed.
Print Assumptions C03_constraints_complete.
Print Assumptions C03_reify_extends.
