(* C03 - Answers are fully reified, closed and carry their relevant constraints. *)
From Coq Require Import List ZArith Bool Arith.
From PV Require Import Model.Term Model.Subst Model.Unify Model.FD Model.State Model.Engine Proofs.UnifyProofs Proofs.ReifyProofs
  Proofs.Acyc Proofs.ScopeElab Proofs.ScopeState Proofs.ScopeReify.
Import ListNotations.

(* the constraints reported with an answer mention only reified variables of that answer
   (r is the reifying substitution of the answer state) *)
Theorem C03_reported_constraints_closed : forall r cs i ps,
  In (i, KDiseq ps) (purify r cs) ->
  forall x t, In (x, t) ps -> bound_in x r = true /\ all_keys r t.
Proof. exact purify_closed. Qed.

(* asking a result term for its constraints returns exactly the reported constraints with an
   operand among the any-variables occurring anywhere in the term -- inside lists and compounds too *)
Theorem C03_constraints_complete : forall t cs ps,
  In ps (relevant_constraints t cs) <-> In ps cs /\ exists v, any_occurs v t /\ operand v ps.
Proof. exact relevant_constraints_spec. Qed.

(* reification only adds bindings to new any-variables with increasing identities *)
Theorem C03_reify_extends : forall f s n t s' n',
  reify_s f s n t = Some (s', n') -> n <= n' /\ exists new, s' = new ++ s.
Proof. intros f. exact (proj1 (reify_s_mono f)). Qed.

(* non-vacuity: p == Pair(1, x), x != 3: the constraint is reported and is found through p *)
Example C03_compound_example :
  relevant_constraints (TComp 7 (TMore (tnum 1) (TMore (TVar 5 true) TNil))) [[(5, tnum 3)]] = [[(5, tnum 3)]].
Proof. vm_compute. reflexivity. Qed.

(* one reified name per unbound variable, all new.  From an acyclic substitution whose variables are
   below the counter n (which holds in every state of every execution: C01_acyclic_everywhere,
   C15_scoped_everywhere), reifying a term t below n adds bindings new with: every value is an
   any-variable _m with n <= m < n', the names are pairwise different and so are the variables they
   rename, each was unbound before; the result is again acyclic and below the new counter.  So a
   reified name never coincides with a variable of the state or of the term, two different unbound
   variables never share a name, and (the substitution being a function) all occurrences of one
   variable - across all query variables of the answer - resolve to the same name. *)
Theorem C03_reified_names : forall f s n t s' n',
  acyc s -> smapb n s -> tb n t -> reify_s f s n t = Some (s', n') ->
  acyc s' /\ smapb n' s' /\ n <= n' /\ exists new, s' = new ++ s /\ rnew s n n' new.
Proof. intros f. exact (proj1 (reify_scope f)). Qed.
(* unfolding rnew, for readers *)
Theorem C03_reified_names_reading : forall s n n' new, rnew s n n' new ->
  (forall v u, In (v, u) new -> exists m, u = TVar m true /\ n <= m < n') /\
  NoDup (map snd new) /\ NoDup (map fst new) /\ (forall v u, In (v, u) new -> lookup v s = None).
Proof. intros s n n' new H. exact H. Qed.
(* a variable met twice: its any-variable is renamed once more, and every occurrence resolves to one name *)
Example C03_reified_names_example :
  let s := [(0, TCons (TVar 1 false) (TCons (TVar 2 false) (TCons (TVar 1 false) TEmpty)))] in
  reify_s dfuel s 3 (TVar 0 false) = Some ([(3, TVar 5 true); (2, TVar 4 true); (1, TVar 3 true)] ++ s, 6) /\
  walk_star dfuel ([(3, TVar 5 true); (2, TVar 4 true); (1, TVar 3 true)] ++ s) (TVar 0 false) =
    Some (TCons (TVar 5 true) (TCons (TVar 4 true) (TCons (TVar 5 true) TEmpty))).
Proof. vm_compute. split; reflexivity. Qed.

Check C03_constraints_complete : forall t cs ps,
  In ps (relevant_constraints t cs) <-> In ps cs /\ exists v, any_occurs v t /\ operand v ps.
Print Assumptions C03_reported_constraints_closed.
Print Assumptions C03_constraints_complete.
Print Assumptions C03_reify_extends.
Print Assumptions C03_reified_names.
Print Assumptions C03_reified_names_reading.
