(* C08 - Committed-choice operators keep exactly the committed answers.
   mature = Solver::peek (run engine steps until the head stream is no longer lazy);
   trunc_of = what Solver::trunc leaves (at most the head). *)
From Coq Require Import List Permutation ZArith Arith.
From PV Require Import Model.Term Model.Subst Model.State Model.Engine Spec.StreamSem
  Proofs.StreamProofs Proofs.EngineProofs Gen.RelDefs.
Import ListNotations.

(* conda: if the head of the first clause has an answer, the clause is committed to: the result
   is the matured head stream bound to the rest of the clause, and that matured stream is reached
   from the head's stream by micro-steps that deliver nothing -- so it still delivers every head
   answer, each once; later clauses are not consulted *)
Theorem C08_conda_commit : forall defs n first rest next st s',
  mature (step_with (start defs n)) mfuel (start defs n first st) = s' ->
  (forall o p, s' <> SErr o p) -> s' <> SEmpty ->
  start defs (S n) (CConda first rest next) st = bind s' rest /\
  exists k, runs (start defs n) k (start defs n first st) [] s'.
Proof. exact conda_commit. Qed.

(* conda: a head without answers hands over to the remaining clauses *)
Theorem C08_conda_skip : forall defs n first rest next st,
  mature (step_with (start defs n)) mfuel (start defs n first st) = SEmpty ->
  start defs (S n) (CConda first rest next) st = start defs n next st.
Proof. exact conda_skip. Qed.

(* condu: as conda, but exactly the first answer the head delivers is kept *)
Theorem C08_condu_commit : forall defs n first rest next st s',
  mature (step_with (start defs n)) mfuel (start defs n first st) = s' ->
  (forall o p, s' <> SErr o p) -> s' <> SEmpty ->
  exists a, start defs (S n) (CCondu first rest next) st = bind (SUnit a) rest /\
            exists k s'', runs (start defs n) k (start defs n first st) [a] s''.
Proof. exact condu_commit. Qed.

Theorem C08_condu_skip : forall defs n first rest next st,
  mature (step_with (start defs n)) mfuel (start defs n first st) = SEmpty ->
  start defs (S n) (CCondu first rest next) st = start defs n next st.
Proof. exact condu_skip. Qed.

(* onceo { g }: no answer if g has none, otherwise exactly one: the first g delivers *)
Theorem C08_onceo : forall defs n g st,
  let g' := from_conjs BFS [[g]] in
  let s' := mature (step_with (start defs (S n))) mfuel (start defs (S n) g' st) in
  (forall o p, s' <> SErr o p) ->
  (s' = SEmpty /\ start defs (S (S n)) (onceo_from [[g]]) st = SEmpty) \/
  (exists a, start defs (S (S n)) (onceo_from [[g]]) st = SUnit a /\
             exists k s'', runs (start defs (S n)) k (start defs (S n) g' st) [a] s'').
Proof. exact onceo_spec. Qed.

(* maturing delivers nothing and loses nothing: what the matured stream may deliver is what the
   original stream may deliver *)
Theorem C08_mature_preserves : forall defs f s s' zs,
  mature (step_with (startq defs)) f s = s' -> (forall o p, s' <> SErr o p) ->
  ansS (startq defs) s' zs -> ansS (startq defs) s zs.
Proof. intros defs. exact (mature_ans (startq defs) (startq_succeed defs)). Qed.

(* the surface operators are these goals: matcha/matchu are conda/condu over the arm list *)
Theorem C08_surface : forall defs f k rho css n,
  elab defs (S f) k rho (GConda css) n =
    (let '(cs, n1) := (fix ell (k : kind) (rho : env) (css : list (list goal)) (n : nat) {struct css} :=
        match css with
        | [] => ([], n)
        | gs :: r =>
            let '(c, n1) := (fix el (k : kind) (rho : env) (gs : list goal) (n : nat) {struct gs} :=
               match gs with
               | [] => ([], n)
               | g :: r => let '(c, n1) := elab defs f k rho g n in let '(cs, n2) := el k rho r n1 in (c :: cs, n2)
               end) k rho gs n in
            let '(cs, n2) := ell k rho r n1 in (c :: cs, n2)
        end) BFS rho css n in (conda_from cs, n1)).
Proof. reflexivity. Qed.

Definition first_answers (k : nat) (body : list goal) : list (option term) :=
  let '(g, st) := query_goal lib_defs 1 [100] body in
  map (fun a => nth_error (a_terms (fst a)) 0) (fst (fst (run_query lib_defs k 2000 1 (start lib_defs sfuel g st) []))).

(* conda { [member(q, [1, 2, 3]), q != 2], q == 9 } commits to the first clause and keeps all its head answers *)
Example C08_conda_example :
  first_answers 10 [GConda [[GCall rel_member [TVar 100 false; list_term [tnum 1; tnum 2; tnum 3]];
                             GDiseq (TVar 100 false) (tnum 2)]; [GEq (TVar 100 false) (tnum 9)]]]
  = [Some (tnum 1); Some (tnum 3)].
Proof. vm_compute. reflexivity. Qed.
(* condu keeps only the first head answer; onceo { member(q, [1,2,3]) } gives exactly 1 *)
Example C08_condu_example :
  first_answers 10 [GCondu [[GCall rel_member [TVar 100 false; list_term [tnum 1; tnum 2; tnum 3]];
                             GDiseq (TVar 100 false) (tnum 2)]; [GEq (TVar 100 false) (tnum 9)]]]
  = [Some (tnum 1)] /\
  first_answers 10 [GOnceo [[GCall rel_member [TVar 100 false; list_term [tnum 1; tnum 2; tnum 3]]]]] = [Some (tnum 1)].
Proof. vm_compute. split; reflexivity. Qed.

Check C08_condu_commit : forall defs n first rest next st s',
  mature (step_with (start defs n)) mfuel (start defs n first st) = s' ->
  (forall o p, s' <> SErr o p) -> s' <> SEmpty ->
  exists a, start defs (S n) (CCondu first rest next) st = bind (SUnit a) rest /\
            exists k s'', runs (start defs n) k (start defs n first st) [a] s''.
Print Assumptions C08_conda_commit.
Print Assumptions C08_conda_skip.
Print Assumptions C08_condu_commit.
Print Assumptions C08_condu_skip.
Print Assumptions C08_onceo.
Print Assumptions C08_mature_preserves.
Print Assumptions C08_surface.
