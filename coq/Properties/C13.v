(* C13 - Pattern matching has the documented match/matche/matcha/matchu meaning (partial: the
   parser is exercised by the compiled batches only).
   One arm with one pattern, which is the building block of the general expansion (arms and
   alternatives are concatenated in order): the matched term is constructed in the *outer*
   environment, each distinct pattern name becomes one new variable (a repeated name is the same
   variable), `_` is a new any-variable per occurrence, the clause is t == p followed by the body
   constructed in the extended environment; match is the disjunction of the clauses, matcha/matchu
   the committed-choice operators of C08 over the same clauses. *)
From Coq Require Import List ZArith Bool Arith.
From PV Require Import Model.Term Model.Subst Model.Unify Model.FD Model.State Model.Engine Proofs.ElabProofs.
Import ListNotations.

Definition arm_clause defs f k rho t p body n :=
  let '(t', n0) := elab_term rho t n in
  let '(rho', n1) := bind_fresh (nodup_nat (pat_names p)) rho n0 in
  let '(p', n2) := elab_term rho' p n1 in
  let '(cs, n3) := (fix el (k : kind) (rho : env) (gs : list goal) (n : nat) : list cgoal * nat :=
                      match gs with
                      | [] => ([], n)
                      | g :: r => let '(c, n1) := elab defs f k rho g n in
                                  let '(cs, n2) := el k rho r n1 in (c :: cs, n2)
                      end) k rho' body n2 in
  (CEq t' p' :: cs, n3).

Theorem C13_match_arm : forall defs f k rho t p body n,
  elab defs (S f) k rho (GMatch MMatch t [([p], body)]) n =
    (let '(cl, n') := arm_clause defs f k rho t p body n in (conde_from k [cl], n')).
Proof.
  intros. unfold arm_clause. cbn [elab].
  destruct (elab_term rho t n) as [t' n0]. destruct (bind_fresh (nodup_nat (pat_names p)) rho n0) as [rho' n1].
  destruct (elab_term rho' p n1) as [p' n2].
  match goal with |- context [let '(cs, n3) := ?X in _] => destruct X as [cs n3] end. reflexivity.
Qed.
Theorem C13_matcha_arm : forall defs f k rho t p body n,
  elab defs (S f) k rho (GMatch MMatcha t [([p], body)]) n =
    (let '(cl, n') := arm_clause defs f k rho t p body n in (conda_from [cl], n')).
Proof.
  intros. unfold arm_clause. cbn [elab].
  destruct (elab_term rho t n) as [t' n0]. destruct (bind_fresh (nodup_nat (pat_names p)) rho n0) as [rho' n1].
  destruct (elab_term rho' p n1) as [p' n2].
  match goal with |- context [let '(cs, n3) := ?X in _] => destruct X as [cs n3] end. reflexivity.
Qed.
Theorem C13_matchu_arm : forall defs f k rho t p body n,
  elab defs (S f) k rho (GMatch MMatchu t [([p], body)]) n =
    (let '(cl, n') := arm_clause defs f k rho t p body n in (condu_from [cl], n')).
Proof.
  intros. unfold arm_clause. cbn [elab].
  destruct (elab_term rho t n) as [t' n0]. destruct (bind_fresh (nodup_nat (pat_names p)) rho n0) as [rho' n1].
  destruct (elab_term rho' p n1) as [p' n2].
  match goal with |- context [let '(cs, n3) := ?X in _] => destruct X as [cs n3] end. reflexivity.
Qed.

(* a repeated pattern name denotes one variable; `_` binds nothing and is new at each occurrence *)
Theorem C13_repeated_name : forall x, nodup_nat (pat_names (list_term [TVar x false; TVar x false])) = [x].
Proof. intros x. cbn. rewrite Nat.eqb_refl. reflexivity. Qed.
Theorem C13_wildcard : forall rho v n, elab_term rho (TVar v true) n = (TVar n true, S n) /\ pat_names (TVar v true) = [].
Proof. intros; split; reflexivity. Qed.
Theorem C13_pattern_vars_fresh : forall p rho n rho' n',
  bind_fresh (nodup_nat (pat_names p)) rho n = (rho', n') ->
  exists new, rho' = new ++ rho /\ NoDup (map snd new) /\
              forall t, In t (map snd new) -> exists i, t = TVar i false /\ n <= i < n'.
Proof.
  intros p rho n rho' n' H. destruct (bind_fresh_distinct _ _ _ _ _ H) as [new [E [_ [ND HI]]]]. exists new. auto.
Qed.

Check C13_match_arm : forall defs f k rho t p body n,
  elab defs (S f) k rho (GMatch MMatch t [([p], body)]) n =
    (let '(cl, n') := arm_clause defs f k rho t p body n in (conde_from k [cl], n')).
Print Assumptions C13_match_arm.
Print Assumptions C13_matcha_arm.
Print Assumptions C13_matchu_arm.
Print Assumptions C13_repeated_name.
Print Assumptions C13_wildcard.
Print Assumptions C13_pattern_vars_fresh.
