(* C14 - Surface syntax translates to the documented goals and terms (partial: the token-level
   parser of the proc macros is not modelled; it is exercised by the compiled batches).
   [elab] is goal construction; the equations below say what each construct constructs. *)
From Coq Require Import List ZArith Bool Arith.
From PV Require Import Model.Term Model.Subst Model.Unify Model.FD Model.State Model.Engine Proofs.ElabProofs Proofs.EngineProofs.
Import ListNotations.

Theorem C14_true_false : forall defs f k rho n,
  elab defs (S f) k rho GTrue n = (CSucceed, n) /\ elab defs (S f) k rho GFalse n = (CFail, n).
Proof. intros; split; reflexivity. Qed.

Theorem C14_eq_diseq : forall defs f k rho u v n,
  elab defs (S f) k rho (GEq u v) n =
    (let '(u', n1) := elab_term rho u n in let '(v', n2) := elab_term rho v n1 in (CEq u' v', n2)) /\
  elab defs (S f) k rho (GDiseq u v) n =
    (let '(u', n1) := elab_term rho u n in let '(v', n2) := elab_term rho v n1 in (CDiseq u' v', n2)).
Proof. intros; split; reflexivity. Qed.

(* == is unification, != is disunification, on the state *)
Theorem C14_eq_is_unify : forall defs n u v st,
  start defs (S n) (CEq u v) st = sres_stream (state_unify st u v) /\
  start defs (S n) (CDiseq u v) st = sres_stream (state_disunify st u v).
Proof. intros; split; reflexivity. Qed.

(* |x, y| { body } : new distinct variables for the names, then the conjunction of the body *)
Theorem C14_fresh : forall defs f k rho xs gs n,
  exists cs n2, elab defs (S f) k rho (GFresh xs gs) n = (CFresh k (from_array k cs), n2) /\
                exists rho', bind_fresh xs rho n = (rho', n + length xs).
Proof.
  intros. cbn [elab]. destruct (bind_fresh xs rho n) as [rho' n1] eqn:E.
  pose proof (bind_fresh_spec _ _ _ _ _ E) as [-> _].
  match goal with |- context [let '(cs, n2) := ?X in _] => destruct X as [cs n2] end.
  exists cs, n2. split; [reflexivity|]. exists rho'. reflexivity.
Qed.

(* closure { body } has its body's answers: solving it constructs the body and solves that *)
Theorem C14_closure : forall defs n k rho gs st,
  start defs (S n) (CClosure k rho gs) st =
    (let '(c, nv) := elab defs efuel k rho (GConj gs) (st_nextv st) in start defs n c (set_nextv st nv)).
Proof. reflexivity. Qed.

(* written terms denote the written term *)
Theorem C14_list_term : forall rho ts n,
  elab_term rho (list_term ts) n = (let '(ts', n') := elab_term_list rho ts n in (list_term ts', n')).
Proof. exact elab_list_term. Qed.
Theorem C14_improper_term : forall rho ts last n,
  elab_term rho (improper_term ts last) n =
  (let '(ts', n1) := elab_term_list rho ts n in let '(l', n2) := elab_term rho last n1 in (improper_term ts' l', n2)).
Proof. exact elab_improper_term. Qed.
Theorem C14_wildcard : forall rho v n, elab_term rho (TVar v true) n = (TVar n true, S n).
Proof. exact elab_wildcard. Qed.
Theorem C14_literal : forall rho l n, elab_term rho (TVal l) n = (TVal l, n).
Proof. reflexivity. Qed.

Check C14_closure : forall defs n k rho gs st,
  start defs (S n) (CClosure k rho gs) st =
    (let '(c, nv) := elab defs efuel k rho (GConj gs) (st_nextv st) in start defs n c (set_nextv st nv)).
Print Assumptions C14_true_false.
Print Assumptions C14_eq_diseq.
Print Assumptions C14_eq_is_unify.
Print Assumptions C14_fresh.
Print Assumptions C14_closure.
Print Assumptions C14_list_term.
Print Assumptions C14_improper_term.
Print Assumptions C14_wildcard.
Print Assumptions C14_literal.
