(* C23 - Solving well-formed programs never panics.
   Every panic!/assert!/unwrap/unreachable! site of the modelled code is an explicit outcome of the
   model (SPanic site in the state layer, SErr false site in the engine).  The theorems below hold
   for ALL goals, states, relation definitions and fuel - no well-formedness assumption - and say
   that the only sites an execution can ever reach are the documented ill-formedness assertions:
     1, 2, 3   distinctfd applied to something that is not a list of variables and integers
     1         (engine) a call of an undefined relation (a compile error in Rust)
     10        an FD relation built with an operand that is neither a variable nor an integer
     20        labeling while an FD-constrained variable has no domain
     22        assert!(kwalk.is_var()) of DisequalityConstraint::walk_star
   so for a well-formed program (operands of the documented kinds, domains before labeling) there is
   no panic: the sites of exclude_from_domain, update_var_domain, the division in timesz, and a
   second visit of a project goal are unreachable, whatever the program.  PARTIAL: site 22 is not
   excluded by proof (it needs the invariant that the keys of stored disequalities are unbound,
   which is observed on every run by the check); arithmetic overflow is outside the model (Z). *)
From Coq Require Import List ZArith Bool Arith.
From PV Require Import Model.Term Model.Subst Model.Unify Model.FD Model.State Model.Engine Proofs.PanicProofs Proofs.CLPZProofs.
Import ListNotations.

(* state layer: unification, disunification, posting any constraint or domain *)
Theorem C23_state_ops : forall st u v c x d,
  okr (state_unify st u v) /\ okr (state_disunify st u v) /\ okr (post_constraint c st) /\ okr (post_domain x d st).
Proof. intros. repeat split; [apply state_unify_okr|apply state_disunify_okr|apply post_constraint_okr|apply post_domain_okr]. Qed.

(* goal construction puts only the sites 0 (diverges), 1 and 10 into goals *)
Theorem C23_goal_construction : forall defs f k rho g n, cg_ok (fst (elab defs f k rho g n)).
Proof. exact elab_ok. Qed.

(* one engine step, from any stream whose pending goals were constructed by the front end *)
Theorem C23_step : forall defs l, okL l -> okS (step defs l).
Proof. exact step_ok. Qed.

(* Solver::next, any number of steps *)
Theorem C23_next : forall defs k used s site, okS s -> next defs k used s = NErr false site -> allowed site.
Proof. exact next_ok. Qed.

(* ... in particular from the start of any query *)
Theorem C23_query : forall defs n g st k site,
  cg_ok g -> next defs k 0 (start defs n g st) = NErr false site -> allowed site.
Proof. intros defs n g st k site Hg H. eapply next_ok; [|exact H]. apply start_ok, Hg. Qed.

(* the sites that are NOT reachable *)
Theorem C23_unreachable : forall site, allowed site ->
  site <> panic_site_exclude_not_list /\ site <> panic_site_update_nonvar /\ site <> panic_site_timesz_div /\ site <> panic_site_project.
Proof.
  intros site H. unfold allowed, allowedS in H. cbv [panic_site_exclude_not_list panic_site_update_nonvar panic_site_timesz_div panic_site_project].
  repeat split; intros ->; repeat (destruct H as [H|H]); discriminate.
Qed.

Check C23_next : forall defs k used s site, okS s -> next defs k used s = NErr false site -> allowed site.
Print Assumptions C23_state_ops.
Print Assumptions C23_goal_construction.
Print Assumptions C23_step.
Print Assumptions C23_next.
Print Assumptions C23_query.
Print Assumptions C23_unreachable.
