(* C23 - Solving well-formed programs never panics.
   Every panic!/assert!/unwrap/unreachable! site of the modelled code is an explicit outcome of the
   model (SPanic site in the state layer, SErr false site in the engine).  The theorems below hold
   for ALL goals, states, relation definitions and fuel - no well-formedness assumption - and say
   that the only sites an execution can ever reach are the documented ill-formedness assertions:
     1, 2, 3   distinctfd applied to something that is not a list of variables and integers
     1         (engine) a call of an undefined relation (a compile error in Rust)
     10        an FD relation built with an operand that is neither a variable nor an integer
     20        labeling while an FD-constrained variable has no domain
     22        assert!(kwalk.is_var()) of DisequalityConstraint::walk_star
   so for a well-formed program (operands of the documented kinds, domains before labeling) there is
   no panic: the sites of exclude_from_domain, update_var_domain, the division in timesz, and a
   second visit of a project goal are unreachable, whatever the program.  For a query (the goal
   proto_vulcan_query! builds from ANY body) site 22 is excluded as well: the invariant "constraint
   identities are unique and the keys of stored disequalities are unbound" holds in every state the
   search still uses, because every extension of the substitution is followed by a complete re-run of
   the store (Proofs/KeyProofs.v, Proofs/KeyStream.v).  Arithmetic overflow is outside the model (Z). *)
From Coq Require Import List ZArith Bool Arith.
From PV Require Import Model.Term Model.Subst Model.Unify Model.FD Model.State Model.Engine Proofs.PanicProofs Proofs.CLPZProofs Proofs.ElabAll Proofs.KeyProofs Proofs.KeyStream.
Import ListNotations.

(* state layer: unification, disunification, posting any constraint or domain *)
Theorem C23_state_ops : forall st u v c x d,
  okr (state_unify st u v) /\ okr (state_disunify st u v) /\ okr (post_constraint c st) /\ okr (post_domain x d st).
Proof. intros. repeat split; [apply state_unify_okr|apply state_disunify_okr|apply post_constraint_okr|apply post_domain_okr]. Qed.

(* goal construction puts only the sites 0 (diverges), 1 and 10 into goals *)
Theorem C23_goal_construction : forall defs f k rho g n, cg_ok (fst (elab defs f k rho g n)).
Proof. exact elab_ok. Qed.

(* one engine step, from any stream whose pending goals were constructed by the front end *)
Theorem C23_step : forall defs l, okL l -> okS (step defs l).
Proof. exact step_ok. Qed.

(* Solver::next, any number of steps *)
Theorem C23_next : forall defs k used s site, okS s -> next defs k used s = NErr false site -> allowed site.
Proof. exact next_ok. Qed.

(* ... in particular from the start of any query *)
Theorem C23_query : forall defs n g st k site,
  cg_ok g -> next defs k 0 (start defs n g st) = NErr false site -> allowed site.
Proof. intros defs n g st k site Hg H. eapply next_ok; [|exact H]. apply start_ok, Hg. Qed.

(* the sites that are NOT reachable *)
Theorem C23_unreachable : forall site, allowed site ->
  site <> panic_site_exclude_not_list /\ site <> panic_site_update_nonvar /\ site <> panic_site_timesz_div /\ site <> panic_site_project.
Proof.
  intros site H. unfold allowed, allowedS in H. cbv [panic_site_exclude_not_list panic_site_update_nonvar panic_site_timesz_div panic_site_project].
  repeat split; intros ->; repeat (destruct H as [H|H]); discriminate.
Qed.

(* the invariant behind the disequality-key assertion, per state operation ... *)
Theorem C23_inv_state_ops : forall st u v c x d, Inv st ->
  sresInv (state_unify st u v) /\ sresInv (state_disunify st u v) /\ sresInv (post_constraint c st) /\ sresInv (post_domain x d st).
Proof. intros. repeat split; [apply state_unify_inv|apply state_disunify_inv|apply post_constraint_inv|apply post_domain_inv]; assumption. Qed.
(* ... re-established by run_constraints from any state with unique identities, whatever its keys *)
Theorem C23_rerun_restores : forall f st, UID st -> sresG none st (run_constraints f st).
Proof. exact run_constraints_good. Qed.

(* a query never reaches the assertion, and so panics only on the documented ill-formedness *)
Definition documented (site : nat) : Prop := site = 1 \/ site = 2 \/ site = 3 \/ site = 10 \/ site = 20.
Theorem C23_query_sites : forall defs nvars names body n k site,
  let '(g, st) := query_goal defs nvars names body in
  next defs k 0 (start defs n g st) = NErr false site -> documented site.
Proof.
  intros defs nvars names body n k site.
  pose proof (query_never_site22 defs nvars names body n k site) as H22.
  assert (Hok : cg_ok (fst (query_goal defs nvars names body))).
  { unfold query_goal. pose proof (elab_ok defs efuel BFS (combine names (map (fun i => TVar i false) (seq 0 nvars))) (GConj body) (S nvars)) as He.
    destruct (elab defs efuel BFS _ (GConj body) (S nvars)) as [cs nv]. cbn [fst] in *. cbn [cg_ok].
    apply from_array_ok. constructor; [exact I|]. constructor; [exact He|]. constructor; [|constructor].
    unfold reify_goal. apply from_array_ok. constructor; [|constructor; [exact I|constructor]].
    apply from_array_ok. constructor; [|constructor; [exact I|constructor]].
    apply from_array_ok. constructor; [exact I|]. constructor; [exact I|constructor]. }
  destruct (query_goal defs nvars names body) as [g st]. cbn [fst] in Hok. intros H.
  specialize (H22 H). pose proof (next_ok defs k 0 _ site (start_ok defs n g st Hok) H) as Ha.
  unfold documented. destruct Ha as [[->|[->| ->]]|[->|[->| ->]]]; auto. congruence.
Qed.

Check C23_next : forall defs k used s site, okS s -> next defs k used s = NErr false site -> allowed site.
Print Assumptions C23_state_ops.
Print Assumptions C23_goal_construction.
Print Assumptions C23_step.
Print Assumptions C23_next.
Print Assumptions C23_query.
Print Assumptions C23_unreachable.
Print Assumptions C23_inv_state_ops.
Print Assumptions C23_rerun_restores.
Print Assumptions C23_query_sites.
