(* C15 - Fresh variables are distinct and renaming-invariant (partial: alpha-invariance is proved
   for term construction under one binder; whole-program alpha-invariance is checked by compiling
   every generated program as written and renamed apart). *)
From Coq Require Import List ZArith Bool Arith.
From PV Require Import Model.Term Model.Subst Model.Unify Model.FD Model.State Model.Engine Proofs.ElabProofs.
Import ListNotations.

(* the variables a fresh block / pattern arm / query introduces: one per name, pairwise distinct,
   all new (at or above the counter), bound in front of (shadowing) the enclosing environment *)
Theorem C15_fresh_distinct : forall xs rho n rho' n',
  bind_fresh xs rho n = (rho', n') ->
  exists new, rho' = new ++ rho /\ length new = length xs /\
    NoDup (map snd new) /\ forall t, In t (map snd new) -> exists i, t = TVar i false /\ n <= i < n'.
Proof. exact bind_fresh_distinct. Qed.

Theorem C15_shadowing : forall x new rho,
  env_lookup x (new ++ rho) = match env_lookup x new with Some v => Some v | None => env_lookup x rho end.
Proof. exact env_lookup_app. Qed.

(* the counter only grows, so later scopes and later unfoldings of a relation (each closure body is
   constructed from the arriving state's counter) get variables above everything earlier *)
Theorem C15_counter_monotone : forall t rho n t' n', elab_term rho t n = (t', n') -> n <= n'.
Proof. exact (proj1 elab_term_mono). Qed.

Theorem C15_closure_refreshes : forall defs n k r args st d,
  find_def r defs = Some d ->
  start defs (S n) (CCall k r args) st =
    (let '(c, nv) := elab defs efuel k (combine (d_params d) args) (GConj [d_body d]) (st_nextv st) in
     start defs n c (set_nextv st nv)).
Proof. intros defs n k r args st d H. cbn [start]. rewrite H. reflexivity. Qed.

(* construction depends on the environment only through the names that occur *)
Theorem C15_only_free_names : forall t rho rho' n,
  (forall x, In x (names_of t) -> env_lookup x rho = env_lookup x rho') -> elab_term rho t n = elab_term rho' t n.
Proof. exact (proj1 elab_term_ext). Qed.

(* renaming a bound name consistently does not change what is constructed *)
Theorem C15_alpha_term : forall x y v t rho n,
  ~ In y (names_of t) -> elab_term ((y, v) :: rho) (rename x y t) n = elab_term ((x, v) :: rho) t n.
Proof. intros x y v. exact (proj1 (elab_term_rename x y v)). Qed.

Check C15_fresh_distinct : forall xs rho n rho' n',
  bind_fresh xs rho n = (rho', n') ->
  exists new, rho' = new ++ rho /\ length new = length xs /\
    NoDup (map snd new) /\ forall t, In t (map snd new) -> exists i, t = TVar i false /\ n <= i < n'.
Print Assumptions C15_fresh_distinct.
Print Assumptions C15_shadowing.
Print Assumptions C15_counter_monotone.
Print Assumptions C15_closure_refreshes.
Print Assumptions C15_only_free_names.
Print Assumptions C15_alpha_term.
