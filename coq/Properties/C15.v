(* C15 - Fresh variables are distinct and renaming-invariant (distinctness is proved for whole
   executions, see the scoping theorems at the end; partial: alpha-invariance is proved
   for term construction under one binder; whole-program alpha-invariance is checked by compiling
   every generated program as written and renamed apart). *)
From Coq Require Import List ZArith Bool Arith.
From PV Require Import Model.Term Model.Subst Model.Unify Model.FD Model.State Model.Engine Proofs.ElabProofs
  Proofs.ElabAll Proofs.KeyStream Proofs.ScopeElab Proofs.ScopeState Proofs.ScopeStream.
Import ListNotations.

(* the variables a fresh block / pattern arm / query introduces: one per name, pairwise distinct,
   all new (at or above the counter), bound in front of (shadowing) the enclosing environment *)
Theorem C15_fresh_distinct : forall xs rho n rho' n',
  bind_fresh xs rho n = (rho', n') ->
  exists new, rho' = new ++ rho /\ length new = length xs /\
    NoDup (map snd new) /\ forall t, In t (map snd new) -> exists i, t = TVar i false /\ n <= i < n'.
Proof. exact bind_fresh_distinct. Qed.

Theorem C15_shadowing : forall x new rho,
  env_lookup x (new ++ rho) = match env_lookup x new with Some v => Some v | None => env_lookup x rho end.
Proof. exact env_lookup_app. Qed.

(* the counter only grows, so later scopes and later unfoldings of a relation (each closure body is
   constructed from the arriving state's counter) get variables above everything earlier *)
Theorem C15_counter_monotone : forall t rho n t' n', elab_term rho t n = (t', n') -> n <= n'.
Proof. exact (proj1 elab_term_mono). Qed.

Theorem C15_closure_refreshes : forall defs n k r args st d,
  find_def r defs = Some d ->
  start defs (S n) (CCall k r args) st =
    (let '(c, nv) := elab defs efuel k (combine (d_params d) args) (GConj [d_body d]) (st_nextv st) in
     start defs n c (set_nextv st nv)).
Proof. intros defs n k r args st d H. cbn [start]. rewrite H. reflexivity. Qed.

(* construction depends on the environment only through the names that occur *)
Theorem C15_only_free_names : forall t rho rho' n,
  (forall x, In x (names_of t) -> env_lookup x rho = env_lookup x rho') -> elab_term rho t n = elab_term rho' t n.
Proof. exact (proj1 elab_term_ext). Qed.

(* renaming a bound name consistently does not change what is constructed *)
Theorem C15_alpha_term : forall x y v t rho n,
  ~ In y (names_of t) -> elab_term ((y, v) :: rho) (rename x y t) n = elab_term ((x, v) :: rho) t n.
Proof. intros x y v. exact (proj1 (elab_term_rename x y v)). Qed.

(* ---------------------------------------------------------------- scoping of whole executions *)
(* tb n t : every variable of t is below n; envb n rho : every term of the environment is;
   gbb n g : every term inside the goal object g (operands, environments of closures / for / project,
   arguments of relation calls, constraint operands) is below n, and g has no reification step;
   stb st : every variable identity in st - keys and terms of the substitution, every stored
   constraint, every domain owner - is below st's counter.
   okS m s : every state in the stream s is stb, has a counter >= m, and every goal still pending in s
   is scoped for (the lower bound of) the states it will be run in. *)

(* goal construction never invents a variable: from a scoped environment everything it builds is
   scoped at the counter it returns, which only grows; the variables it draws lie in between *)
Theorem C15_elab_scoped : forall defs f k rho g n, envb n rho ->
  n <= snd (elab defs f k rho g n) /\ gb (snd (elab defs f k rho g n)) (fst (elab defs f k rho g n)).
Proof. exact elab_scope. Qed.

(* the four state operations never invent a variable and do not move the counter *)
Theorem C15_ops_scoped : forall st, stb st ->
  (forall u v, tb (st_nextv st) u -> tb (st_nextv st) v -> sresB st (state_unify st u v)) /\
  (forall u v, tb (st_nextv st) u -> tb (st_nextv st) v -> sresB st (state_disunify st u v)) /\
  (forall x d, tb (st_nextv st) x -> sresB st (post_domain x d st)) /\
  (forall c, cb (st_nextv st) c -> sresB st (post_constraint c st)).
Proof.
  intros st H. repeat split; intros.
  - apply state_unify_B; assumption.
  - apply state_disunify_B; assumption.
  - apply post_domain_B; assumption.
  - apply post_constraint_B; assumption.
Qed.

(* for every program, relation definitions, search strategy and fuel: started in a scoped state on
   a scoped goal, every state of every stream is scoped and every pending goal is scoped for the
   states it will meet; so is every delivered answer and the rest of the stream *)
Theorem C15_scoped_everywhere : forall defs n g st,
  stb st -> gbb (st_nextv st) g -> okS (st_nextv st) (start defs n g st).
Proof. exact start_ok. Qed.
Theorem C15_scoped_answers : forall defs k used s a rest used' m,
  okS m s -> next defs k used s = NAnswer a rest used' -> stb a /\ okS m rest.
Proof. exact next_ok. Qed.
Theorem C15_initial_scoped : forall n, stb (empty_state n).
Proof. exact stb_empty. Qed.

(* hence: the variables a fresh block (or a pattern, a closure body, a relation body unfolded again,
   recursively or not) introduces when it is reached in a state st are different from every
   variable of st's substitution, stored constraints and domains, and from every variable of the
   environment it extends *)
Theorem C15_fresh_not_elsewhere : forall st xs rho rho' n',
  stb st -> envb (st_nextv st) rho -> bind_fresh xs rho (st_nextv st) = (rho', n') ->
  exists new, rho' = new ++ rho /\
    forall x t, In (x, t) new -> exists i, t = TVar i false /\
      (forall y u, In (y, u) (st_smap st) -> i <> y /\ ~ In i (tvars u)) /\
      (forall y d, In (y, d) (st_dstore st) -> i <> y) /\
      (forall y u, In (y, u) rho -> ~ In i (tvars u)).
Proof.
  intros st xs rho rho' n' [Hs [Hc Hd]] He Hb.
  destruct (bind_fresh_distinct _ _ _ _ _ Hb) as [new [E [_ [_ Hnew]]]]. exists new. split; [exact E|].
  intros x t Hin. destruct (Hnew t) as [i [-> Hi]]; [apply in_map_iff; exists (x, t); auto|]. exists i. split; [reflexivity|].
  repeat split.
  - destruct (Hs y u H). Lia.lia.
  - intros Hi2. destruct (Hs y u H) as [_ Hu]. specialize (Hu i Hi2). Lia.lia.
  - intros y d Hy. specialize (Hd y d Hy). Lia.lia.
  - intros y u Hy Hi2. specialize (He y u Hy i Hi2). Lia.lia.
Qed.

Check C15_fresh_distinct : forall xs rho n rho' n',
  bind_fresh xs rho n = (rho', n') ->
  exists new, rho' = new ++ rho /\ length new = length xs /\
    NoDup (map snd new) /\ forall t, In t (map snd new) -> exists i, t = TVar i false /\ n <= i < n'.
Print Assumptions C15_fresh_distinct.
Print Assumptions C15_shadowing.
Print Assumptions C15_counter_monotone.
Print Assumptions C15_closure_refreshes.
Print Assumptions C15_only_free_names.
Print Assumptions C15_alpha_term.
Print Assumptions C15_elab_scoped.
Print Assumptions C15_ops_scoped.
Print Assumptions C15_scoped_everywhere.
Print Assumptions C15_scoped_answers.
Print Assumptions C15_initial_scoped.
Print Assumptions C15_fresh_not_elsewhere.
