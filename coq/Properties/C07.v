(* C07 - Interleaving disjunction is fair and productive.
   emitsE f n s a : within n micro-steps of Solver::next from s, the answer a is delivered -- or an
   engine step fails to return (the model's error stream; a single step that diverges or panics
   is outside the property).  The other operand is arbitrary: it may produce forever or never. *)
From Coq Require Import List Permutation ZArith Arith.
From PV Require Import Model.Term Model.Subst Model.State Model.Engine Spec.StreamSem
  Proofs.StreamProofs Proofs.EngineProofs Proofs.SemProofs Proofs.PureElab Proofs.FairProofs Gen.RelDefs.
Import ListNotations.

Theorem C07_merge_left : forall defs n s l a,
  emitsE (startq defs) n s a -> emitsE (startq defs) (4 * n + 2) (mplus s l) a.
Proof. intros defs. exact (mplus_fair_left (startq defs)). Qed.

Theorem C07_merge_right : forall defs n s l a,
  emitsE (startq defs) n (SLazy l) a -> emitsE (startq defs) (4 * n) (mplus s l) a.
Proof. intros defs. exact (mplus_fair_right (startq defs)). Qed.

Theorem C07_bind : forall defs g, is_succeed g = false -> is_fail g = false ->
  forall n s b a m, emitsE (startq defs) n s b -> emitsE (startq defs) m (startq defs g b) a ->
  emitsE (startq defs) (bind_bound n m) (bind s g) a.
Proof.
  intros defs g Es Ef n s b a m H Hg.
  apply (bind_fair (startq defs) g Es Ef n s b a m H). intros k ->. exact Hg.
Qed.

(* completeness: every answer with a derivation through interleaving nodes (any nesting of
   mplus / bind / pause / delay) is delivered after finitely many micro-steps *)
Theorem C07_complete : forall defs s a,
  inSb (startq defs) s a -> exists n, emitsE (startq defs) n s a.
Proof. intros defs. exact (proj2 (inb_emits (startq defs) (startq_succeed defs) (startq_fail defs))). Qed.

(* the examples of the property text, run on the model *)
Definition first_answers (k : nat) (body : list goal) : list (option term) :=
  let '(g, st) := query_goal lib_defs 1 [100] body in
  map (fun a => nth_error (a_terms (fst a)) 0) (fst (fst (run_query lib_defs k 2000 1 (start lib_defs sfuel g st) []))).

(* conde { never(), q == 1 } yields q = 1 *)
Example C07_never_then_one :
  first_answers 1 [GCond [[GCall rel_never []]; [GEq (TVar 100 false) (tnum 1)]]] = [Some (tnum 1)].
Proof. vm_compute. reflexivity. Qed.

(* conde { [always(), q == 1], [always(), q == 2] } yields both values among its first answers *)
Example C07_two_infinite_branches :
  first_answers 4 [GCond [[GCall rel_always []; GEq (TVar 100 false) (tnum 1)];
                          [GCall rel_always []; GEq (TVar 100 false) (tnum 2)]]]
  = [Some (tnum 1); Some (tnum 2); Some (tnum 1); Some (tnum 2)].
Proof. vm_compute. reflexivity. Qed.

(* ---------------------------------------------------------------- fairness at the level of goals *)
(* psrc : a source program of the pure relational fragment - interleaving conjunction and disjunction
   (conde, match, loop/anyo), fresh, closures, relation calls, for-all, project, ==, !=, domains and
   constraints; no committed choice (conda, condu, onceo) and no dfs block.  pureg : the same for goal
   objects; goal construction in interleaving mode maps psrc programs to pureg goals, including every
   body it elaborates later (C07_pure_elab).
   For every such goal, at any nesting depth, with any relation definitions: an answer that ONE CLAUSE
   of a disjunction delivers when run on its own is delivered by the WHOLE disjunction after finitely
   many steps - whatever the other clauses do: produce infinitely many answers, or run forever
   without producing any - unless an engine step fails with an error outcome first.  More generally
   every answer that is derivable in the declarative semantics (SemProofs) is delivered:
   the search is complete on the pure fragment (the converse of the soundness theorem of C06). *)
Theorem C07_disjunction_fair : forall defs,
  (forall r d, find_def r defs = Some d -> psrc (d_body d)) ->
  forall k u m gs c st a rest u',
  pureg (CConde BFS gs) -> In c gs ->
  next defs k u (start defs m c st) = NAnswer a rest u' ->
  exists n, emitsE (startq defs) n (startq defs (CConde BFS gs) st) a.
Proof. exact disjunction_fair. Qed.
Theorem C07_conjunction_fair : forall defs,
  (forall r d, find_def r defs = Some d -> psrc (d_body d)) ->
  forall k1 u1 m1 k2 u2 m2 g1 g2 st b a r1 r2 v1 v2,
  pureg (CConj BFS g1 g2) ->
  next defs k1 u1 (start defs m1 g1 st) = NAnswer b r1 v1 ->
  next defs k2 u2 (start defs m2 g2 b) = NAnswer a r2 v2 ->
  exists n, emitsE (startq defs) n (startq defs (CConj BFS g1 g2) st) a.
Proof. exact conjunction_fair. Qed.
Theorem C07_search_complete : forall defs,
  (forall r d, find_def r defs = Some d -> psrc (d_body d)) ->
  forall g st a, Sem defs g st a -> pureg g -> exists n, emitsE (startq defs) n (startq defs g st) a.
Proof. exact fair_complete. Qed.
Theorem C07_pure_elab : forall defs,
  (forall r d, find_def r defs = Some d -> psrc (d_body d)) ->
  forall f rho g n, psrc g -> pureg (fst (elab defs f BFS rho g n)).
Proof. exact elab_pure. Qed.
(* the examples of the property text are in the fragment *)
Example C07_never_is_pure : psrc (GCond [[GLoop [[GFalse]]]; [GEq (TVar 0 false) (tnum 1)]]).
Proof. cbn. tauto. Qed.

Check C07_merge_left : forall defs n s l a, emitsE (startq defs) n s a -> emitsE (startq defs) (4 * n + 2) (mplus s l) a.
Check C07_complete : forall defs s a, inSb (startq defs) s a -> exists n, emitsE (startq defs) n s a.
Print Assumptions C07_merge_left.
Print Assumptions C07_merge_right.
Print Assumptions C07_bind.
Print Assumptions C07_complete.
Print Assumptions C07_disjunction_fair.
Print Assumptions C07_conjunction_fair.
Print Assumptions C07_search_complete.
Print Assumptions C07_pure_elab.
