(* C07 - Interleaving disjunction is fair and productive.
   emitsE f n s a : within n micro-steps of Solver::next from s, the answer a is delivered -- or an
   engine step fails to return (the model's error stream; a single step that diverges or panics
   is outside the property).  The other operand is arbitrary: it may produce forever or never. *)
From Coq Require Import List Permutation ZArith Arith.
From PV Require Import Model.Term Model.Subst Model.State Model.Engine Spec.StreamSem
  Proofs.StreamProofs Proofs.EngineProofs Gen.RelDefs.
Import ListNotations.

Theorem C07_merge_left : forall defs n s l a,
  emitsE (startq defs) n s a -> emitsE (startq defs) (4 * n + 2) (mplus s l) a.
Proof. intros defs. exact (mplus_fair_left (startq defs)). Qed.

Theorem C07_merge_right : forall defs n s l a,
  emitsE (startq defs) n (SLazy l) a -> emitsE (startq defs) (4 * n) (mplus s l) a.
Proof. intros defs. exact (mplus_fair_right (startq defs)). Qed.

Theorem C07_bind : forall defs g, is_succeed g = false -> is_fail g = false ->
  forall n s b a m, emitsE (startq defs) n s b -> emitsE (startq defs) m (startq defs g b) a ->
  emitsE (startq defs) (bind_bound n m) (bind s g) a.
Proof.
  intros defs g Es Ef n s b a m H Hg.
  apply (bind_fair (startq defs) g Es Ef n s b a m H). intros k ->. exact Hg.
Qed.

(* completeness: every answer with a derivation through interleaving nodes (any nesting of
   mplus / bind / pause / delay) is delivered after finitely many micro-steps *)
Theorem C07_complete : forall defs s a,
  inSb (startq defs) s a -> exists n, emitsE (startq defs) n s a.
Proof. intros defs. exact (proj2 (inb_emits (startq defs) (startq_succeed defs) (startq_fail defs))). Qed.

(* the examples of the property text, run on the model *)
Definition first_answers (k : nat) (body : list goal) : list (option term) :=
  let '(g, st) := query_goal lib_defs 1 [100] body in
  map (fun a => nth_error (a_terms (fst a)) 0) (fst (fst (run_query lib_defs k 2000 1 (start lib_defs sfuel g st) []))).

(* conde { never(), q == 1 } yields q = 1 *)
Example C07_never_then_one :
  first_answers 1 [GCond [[GCall rel_never []]; [GEq (TVar 100 false) (tnum 1)]]] = [Some (tnum 1)].
Proof. vm_compute. reflexivity. Qed.

(* conde { [always(), q == 1], [always(), q == 2] } yields both values among its first answers *)
Example C07_two_infinite_branches :
  first_answers 4 [GCond [[GCall rel_always []; GEq (TVar 100 false) (tnum 1)];
                          [GCall rel_always []; GEq (TVar 100 false) (tnum 2)]]]
  = [Some (tnum 1); Some (tnum 2); Some (tnum 1); Some (tnum 2)].
Proof. vm_compute. reflexivity. Qed.

Check C07_merge_left : forall defs n s l a, emitsE (startq defs) n s a -> emitsE (startq defs) (4 * n + 2) (mplus s l) a.
Check C07_complete : forall defs s a, inSb (startq defs) s a -> exists n, emitsE (startq defs) n s a.
Print Assumptions C07_merge_left.
Print Assumptions C07_merge_right.
Print Assumptions C07_bind.
Print Assumptions C07_complete.
