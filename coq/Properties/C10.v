(* C10 - Search branches are isolated from each other (partial: Rc aliasing and the unsafe write
   of project are runtime behaviour outside a Gallina model; see the level note).
   In the model every clause of a disjunction is started from the *same* state value, and the
   answers of the disjunction are, as a multiset, the union of the clauses' own answers. *)
From Coq Require Import List Permutation ZArith Arith.
From PV Require Import Model.Term Model.Subst Model.State Model.Engine Spec.StreamSem
  Proofs.StreamProofs Proofs.EngineProofs Proofs.SemProofs Proofs.PureElab Proofs.FairProofs Proofs.Fair10 Gen.RelDefs.
Import ListNotations.

Theorem C10_union : forall defs m n st A B zs,
  ansS (start defs (S m)) (start defs (S n) (CConde BFS [A; B]) st) zs ->
  exists xs ys, ansS (start defs (S m)) (start defs n A st) xs /\
                ansS (start defs (S m)) (start defs n B st) ys /\ Permutation zs (xs ++ ys).
Proof.
  intros defs m n st A B zs H. rewrite start_conde in H.
  destruct (conde_bfs_ans defs m n st _ _ H) as [yss [HF HP]].
  inversion HF as [|? xs ? yss1 HA HF1]; subst. inversion HF1 as [|? ys ? yss2 HB HF2]; subst.
  inversion HF2; subst. exists xs, ys. repeat split; auto.
  cbn [concat] in HP. rewrite app_nil_r in HP. exact HP.
Qed.

Theorem C10_union_dfs : forall defs m n st A B zs,
  ansS (start defs (S m)) (start defs (S n) (CConde DFS [A; B]) st) zs ->
  exists xs ys, ansS (start defs (S m)) (start defs n A st) xs /\
                ansS (start defs (S m)) (start defs n B st) ys /\ zs = xs ++ ys.
Proof.
  intros defs m n st A B zs H. rewrite start_conde in H.
  destruct (conde_dfs_ans defs m n st _ _ H) as [yss [HF HP]].
  inversion HF as [|? xs ? yss1 HA HF1]; subst. inversion HF1 as [|? ys ? yss2 HB HF2]; subst.
  inversion HF2; subst. exists xs, ys. repeat split; auto.
  cbn [concat]. rewrite app_nil_r. reflexivity.
Qed.

(* every single answer of a disjunction (finite or not) is an answer of one clause run alone from
   the state that reached the disjunction *)
Theorem C10_no_leak : forall defs m k n st gs a,
  inS (start defs (S m)) (start defs (S n) (CConde k gs) st) a ->
  exists c, In c gs /\ inS (start defs (S m)) (start defs n c st) a.
Proof. intros defs m k n st gs a. rewrite start_conde. exact (conde_in defs m k n st gs a). Qed.

(* at the level of goals, on the pure relational fragment (C07): the answers of a disjunction are EXACTLY the
   answers of its clauses run alone from the same state - (1) nothing leaks: each answer of the disjunction is
   an answer one clause delivers by itself; (2) nothing is lost: each answer a clause delivers by itself is
   delivered by the disjunction (after finitely many steps, unless an engine step errs first) *)
Theorem C10_exactly_the_union : forall defs,
  (forall r d, find_def r defs = Some d -> psrc (d_body d)) ->
  forall gs st, pureg (CConde BFS gs) ->
  (forall k u m a rest u', next defs k u (start defs m (CConde BFS gs) st) = NAnswer a rest u' ->
     exists c n, In c gs /\ emitsE (startq defs) n (startq defs c st) a) /\
  (forall c k u m a rest u', In c gs -> next defs k u (start defs m c st) = NAnswer a rest u' ->
     exists n, emitsE (startq defs) n (startq defs (CConde BFS gs) st) a).
Proof. exact disjunction_exactly_union. Qed.

Check C10_union : forall defs m n st A B zs,
  ansS (start defs (S m)) (start defs (S n) (CConde BFS [A; B]) st) zs ->
  exists xs ys, ansS (start defs (S m)) (start defs n A st) xs /\
                ansS (start defs (S m)) (start defs n B st) ys /\ Permutation zs (xs ++ ys).
Print Assumptions C10_union.
Print Assumptions C10_union_dfs.
Print Assumptions C10_no_leak.
Print Assumptions C10_exactly_the_union.
