(* C19 - CLP(Z) plusz/timesz constrain integers exactly.
   Case analysis on the groundness of the walked operands; [rcs] is what runs the other stored
   constraints after a binding (State::run_constraints). *)
From Coq Require Import List ZArith Bool Arith.
From PV Require Import Model.Term Model.Subst Model.Unify Model.FD Model.State Proofs.CLPZProofs.
Import ListNotations.
Local Open Scope Z_scope.

Theorem C19_plusz_ground : forall rcs rc id st u v w a b r,
  num (wk (st_smap st) u) a -> num (wk (st_smap st) v) b -> num (wk (st_smap st) w) r ->
  run_constraint rcs rc id (KPlusZ u v w) st = if Z.eqb (a + b) r then SOk st else SFail.
Proof. exact plusz_ground. Qed.
Theorem C19_timesz_ground : forall rcs rc id st u v w a b r,
  num (wk (st_smap st) u) a -> num (wk (st_smap st) v) b -> num (wk (st_smap st) w) r ->
  run_constraint rcs rc id (KTimesZ u v w) st = if Z.eqb (a * b) r then SOk st else SFail.
Proof. exact timesz_ground. Qed.

Theorem C19_plusz_solve_w : forall rcs rc id st u v w a b x fl,
  num (wk (st_smap st) u) a -> num (wk (st_smap st) v) b -> wk (st_smap st) w = TVar x fl ->
  run_constraint rcs rc id (KPlusZ u v w) st = rcs (set_smap st ((x, tnum (a + b)) :: st_smap st)).
Proof. exact plusz_solve_w. Qed.
Theorem C19_plusz_solve_v : forall rcs rc id st u v w a r x fl,
  num (wk (st_smap st) u) a -> wk (st_smap st) v = TVar x fl -> num (wk (st_smap st) w) r ->
  run_constraint rcs rc id (KPlusZ u v w) st = rcs (set_smap st ((x, tnum (r - a)) :: st_smap st)).
Proof. exact plusz_solve_v. Qed.
Theorem C19_plusz_solve_u : forall rcs rc id st u v w b r x fl,
  wk (st_smap st) u = TVar x fl -> num (wk (st_smap st) v) b -> num (wk (st_smap st) w) r ->
  run_constraint rcs rc id (KPlusZ u v w) st = rcs (set_smap st ((x, tnum (r - b)) :: st_smap st)).
Proof. exact plusz_solve_u. Qed.

Theorem C19_timesz_solve_w : forall rcs rc id st u v w a b x fl,
  num (wk (st_smap st) u) a -> num (wk (st_smap st) v) b -> wk (st_smap st) w = TVar x fl ->
  run_constraint rcs rc id (KTimesZ u v w) st = rcs (set_smap st ((x, tnum (a * b)) :: st_smap st)).
Proof. exact timesz_solve_w. Qed.
Theorem C19_timesz_solve_v : forall rcs rc id st u v w a r x fl,
  num (wk (st_smap st) u) a -> wk (st_smap st) v = TVar x fl -> num (wk (st_smap st) w) r ->
  run_constraint rcs rc id (KTimesZ u v w) st =
    if Z.eqb a 0 then (if Z.eqb r 0 then SOk (with_constraint_id st id (KTimesZ u v w)) else SFail)
    else if Z.eqb (Z.rem r a) 0 then rcs (set_smap st ((x, tnum (Z.quot r a)) :: st_smap st)) else SFail.
Proof. exact timesz_solve_v. Qed.
Theorem C19_timesz_solve_u : forall rcs rc id st u v w b r x fl,
  wk (st_smap st) u = TVar x fl -> num (wk (st_smap st) v) b -> num (wk (st_smap st) w) r ->
  run_constraint rcs rc id (KTimesZ u v w) st =
    if Z.eqb b 0 then (if Z.eqb r 0 then SOk (with_constraint_id st id (KTimesZ u v w)) else SFail)
    else if Z.eqb (Z.rem r b) 0 then rcs (set_smap st ((x, tnum (Z.quot r b)) :: st_smap st)) else SFail.
Proof. exact timesz_solve_u. Qed.

(* the value bound is the unique integer solution; no solution exactly when the division is not exact *)
Theorem C19_times_solution : forall a r, a <> 0 ->
  (Z.rem r a = 0 -> a * Z.quot r a = r) /\ (forall y, a * y = r -> Z.rem r a = 0 /\ y = Z.quot r a).
Proof. exact times_solution. Qed.

Theorem C19_plusz_kept : forall rcs rc id st u v w,
  (unbound_var (wk (st_smap st) u) /\ unbound_var (wk (st_smap st) v)) \/
  (unbound_var (wk (st_smap st) u) /\ unbound_var (wk (st_smap st) w)) \/
  (unbound_var (wk (st_smap st) v) /\ unbound_var (wk (st_smap st) w)) ->
  (forall t, t = wk (st_smap st) u \/ t = wk (st_smap st) v \/ t = wk (st_smap st) w -> unbound_var t \/ exists z, num t z) ->
  run_constraint rcs rc id (KPlusZ u v w) st = SOk (with_constraint_id st id (KPlusZ u v w)).
Proof. exact plusz_kept. Qed.
Theorem C19_timesz_kept : forall rcs rc id st u v w,
  (unbound_var (wk (st_smap st) u) /\ unbound_var (wk (st_smap st) v)) \/
  (unbound_var (wk (st_smap st) u) /\ unbound_var (wk (st_smap st) w)) \/
  (unbound_var (wk (st_smap st) v) /\ unbound_var (wk (st_smap st) w)) ->
  (forall t, t = wk (st_smap st) u \/ t = wk (st_smap st) v \/ t = wk (st_smap st) w -> unbound_var t \/ exists z, num t z) ->
  run_constraint rcs rc id (KTimesZ u v w) st = SOk (with_constraint_id st id (KTimesZ u v w)).
Proof. exact timesz_kept. Qed.

Theorem C19_no_panic : forall rcs rc id st u v w site,
  (forall s, rcs s <> SPanic site) ->
  run_constraint rcs rc id (KPlusZ u v w) st <> SPanic site /\
  run_constraint rcs rc id (KTimesZ u v w) st <> SPanic site.
Proof. exact clpz_no_panic. Qed.

Check C19_timesz_solve_v : forall rcs rc id st u v w a r x fl,
  num (wk (st_smap st) u) a -> wk (st_smap st) v = TVar x fl -> num (wk (st_smap st) w) r ->
  run_constraint rcs rc id (KTimesZ u v w) st =
    if Z.eqb a 0 then (if Z.eqb r 0 then SOk (with_constraint_id st id (KTimesZ u v w)) else SFail)
    else if Z.eqb (Z.rem r a) 0 then rcs (set_smap st ((x, tnum (Z.quot r a)) :: st_smap st)) else SFail.
Print Assumptions C19_plusz_ground.
Print Assumptions C19_timesz_ground.
Print Assumptions C19_plusz_solve_w.
Print Assumptions C19_plusz_solve_v.
Print Assumptions C19_plusz_solve_u.
Print Assumptions C19_timesz_solve_w.
Print Assumptions C19_timesz_solve_v.
Print Assumptions C19_timesz_solve_u.
Print Assumptions C19_times_solution.
Print Assumptions C19_plusz_kept.
Print Assumptions C19_timesz_kept.
Print Assumptions C19_no_panic.
