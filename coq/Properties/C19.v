(* C19 - CLP(Z) plusz/timesz constrain integers exactly.
   Case analysis on the groundness of the walked operands; [rcs] is what runs the other stored
   constraints after a binding (State::run_constraints). *)
From Coq Require Import List ZArith Bool Arith.
From PV Require Import Model.Term Model.Subst Model.Unify Model.FD Model.State Model.Engine Proofs.FDProofs Proofs.UnifyProofs
  Proofs.CLPZProofs Proofs.DenProofs Proofs.FDDen Proofs.FDComp.
Import ListNotations.
Local Open Scope Z_scope.

Theorem C19_plusz_ground : forall rcs rc id st u v w a b r,
  num (wk (st_smap st) u) a -> num (wk (st_smap st) v) b -> num (wk (st_smap st) w) r ->
  run_constraint rcs rc id (KPlusZ u v w) st = if Z.eqb (a + b) r then SOk st else SFail.
Proof. exact plusz_ground. Qed.
Theorem C19_timesz_ground : forall rcs rc id st u v w a b r,
  num (wk (st_smap st) u) a -> num (wk (st_smap st) v) b -> num (wk (st_smap st) w) r ->
  run_constraint rcs rc id (KTimesZ u v w) st = if Z.eqb (a * b) r then SOk st else SFail.
Proof. exact timesz_ground. Qed.

Theorem C19_plusz_solve_w : forall rcs rc id st u v w a b x fl,
  num (wk (st_smap st) u) a -> num (wk (st_smap st) v) b -> wk (st_smap st) w = TVar x fl ->
  run_constraint rcs rc id (KPlusZ u v w) st = rcs (set_smap st ((x, tnum (a + b)) :: st_smap st)).
Proof. exact plusz_solve_w. Qed.
Theorem C19_plusz_solve_v : forall rcs rc id st u v w a r x fl,
  num (wk (st_smap st) u) a -> wk (st_smap st) v = TVar x fl -> num (wk (st_smap st) w) r ->
  run_constraint rcs rc id (KPlusZ u v w) st = rcs (set_smap st ((x, tnum (r - a)) :: st_smap st)).
Proof. exact plusz_solve_v. Qed.
Theorem C19_plusz_solve_u : forall rcs rc id st u v w b r x fl,
  wk (st_smap st) u = TVar x fl -> num (wk (st_smap st) v) b -> num (wk (st_smap st) w) r ->
  run_constraint rcs rc id (KPlusZ u v w) st = rcs (set_smap st ((x, tnum (r - b)) :: st_smap st)).
Proof. exact plusz_solve_u. Qed.

Theorem C19_timesz_solve_w : forall rcs rc id st u v w a b x fl,
  num (wk (st_smap st) u) a -> num (wk (st_smap st) v) b -> wk (st_smap st) w = TVar x fl ->
  run_constraint rcs rc id (KTimesZ u v w) st = rcs (set_smap st ((x, tnum (a * b)) :: st_smap st)).
Proof. exact timesz_solve_w. Qed.
Theorem C19_timesz_solve_v : forall rcs rc id st u v w a r x fl,
  num (wk (st_smap st) u) a -> wk (st_smap st) v = TVar x fl -> num (wk (st_smap st) w) r ->
  run_constraint rcs rc id (KTimesZ u v w) st =
    if Z.eqb a 0 then (if Z.eqb r 0 then SOk (with_constraint_id st id (KTimesZ u v w)) else SFail)
    else if Z.eqb (Z.rem r a) 0 then rcs (set_smap st ((x, tnum (Z.quot r a)) :: st_smap st)) else SFail.
Proof. exact timesz_solve_v. Qed.
Theorem C19_timesz_solve_u : forall rcs rc id st u v w b r x fl,
  wk (st_smap st) u = TVar x fl -> num (wk (st_smap st) v) b -> num (wk (st_smap st) w) r ->
  run_constraint rcs rc id (KTimesZ u v w) st =
    if Z.eqb b 0 then (if Z.eqb r 0 then SOk (with_constraint_id st id (KTimesZ u v w)) else SFail)
    else if Z.eqb (Z.rem r b) 0 then rcs (set_smap st ((x, tnum (Z.quot r b)) :: st_smap st)) else SFail.
Proof. exact timesz_solve_u. Qed.

(* the value bound is the unique integer solution; no solution exactly when the division is not exact *)
Theorem C19_times_solution : forall a r, a <> 0 ->
  (Z.rem r a = 0 -> a * Z.quot r a = r) /\ (forall y, a * y = r -> Z.rem r a = 0 /\ y = Z.quot r a).
Proof. exact times_solution. Qed.

Theorem C19_plusz_kept : forall rcs rc id st u v w,
  (unbound_var (wk (st_smap st) u) /\ unbound_var (wk (st_smap st) v)) \/
  (unbound_var (wk (st_smap st) u) /\ unbound_var (wk (st_smap st) w)) \/
  (unbound_var (wk (st_smap st) v) /\ unbound_var (wk (st_smap st) w)) ->
  (forall t, t = wk (st_smap st) u \/ t = wk (st_smap st) v \/ t = wk (st_smap st) w -> unbound_var t \/ exists z, num t z) ->
  run_constraint rcs rc id (KPlusZ u v w) st = SOk (with_constraint_id st id (KPlusZ u v w)).
Proof. exact plusz_kept. Qed.
Theorem C19_timesz_kept : forall rcs rc id st u v w,
  (unbound_var (wk (st_smap st) u) /\ unbound_var (wk (st_smap st) v)) \/
  (unbound_var (wk (st_smap st) u) /\ unbound_var (wk (st_smap st) w)) \/
  (unbound_var (wk (st_smap st) v) /\ unbound_var (wk (st_smap st) w)) ->
  (forall t, t = wk (st_smap st) u \/ t = wk (st_smap st) v \/ t = wk (st_smap st) w -> unbound_var t \/ exists z, num t z) ->
  run_constraint rcs rc id (KTimesZ u v w) st = SOk (with_constraint_id st id (KTimesZ u v w)).
Proof. exact timesz_kept. Qed.

Theorem C19_no_panic : forall rcs rc id st u v w site,
  (forall s, rcs s <> SPanic site) ->
  run_constraint rcs rc id (KPlusZ u v w) st <> SPanic site /\
  run_constraint rcs rc id (KTimesZ u v w) st <> SPanic site.
Proof. exact clpz_no_panic. Qed.

Check C19_timesz_solve_v : forall rcs rc id st u v w a r x fl,
  num (wk (st_smap st) u) a -> wk (st_smap st) v = TVar x fl -> num (wk (st_smap st) w) r ->
  run_constraint rcs rc id (KTimesZ u v w) st =
    if Z.eqb a 0 then (if Z.eqb r 0 then SOk (with_constraint_id st id (KTimesZ u v w)) else SFail)
    else if Z.eqb (Z.rem r a) 0 then rcs (set_smap st ((x, tnum (Z.quot r a)) :: st_smap st)) else SFail.
(* plusz / timesz as posted goals, semantically, for any operands and any state (well-formed domains),
   through every re-run of the other stored constraints that a binding triggers:
   sound    - every valuation that solves the returned state solves the original state and satisfies
              u + v = w (u * v = w) over the integers;
   complete - every valuation that solves the original state and satisfies the equation solves the
              returned state, and failure is returned only when there is none. *)
Theorem C19_plusz_sound : forall u v w st st' th, WFD st -> post_constraint (KPlusZ u v w) st = SOk st' -> MstF th st' ->
  MstF th st /\ exists a b r, numv th u a /\ numv th v b /\ numv th w r /\ a + b = r.
Proof.
  intros u v w st st' th W E HM. pose proof (post_constraint_FC (KPlusZ u v w) st W) as H. rewrite E in H. destruct H as [S HC].
  split; [eapply MstF_SolF; eauto|exact (HC th HM)].
Qed.
Theorem C19_timesz_sound : forall u v w st st' th, WFD st -> post_constraint (KTimesZ u v w) st = SOk st' -> MstF th st' ->
  MstF th st /\ exists a b r, numv th u a /\ numv th v b /\ numv th w r /\ a * b = r.
Proof.
  intros u v w st st' th W E HM. pose proof (post_constraint_FC (KTimesZ u v w) st W) as H. rewrite E in H. destruct H as [S HC].
  split; [eapply MstF_SolF; eauto|exact (HC th HM)].
Qed.
Theorem C19_plusz_complete : forall u v w st, WFD st ->
  sresCP (fun th => exists a b r, numv th u a /\ numv th v b /\ numv th w r /\ a + b = r) st (post_constraint (KPlusZ u v w) st).
Proof. intros u v w st W. exact (post_constraint_C (KPlusZ u v w) st W). Qed.
Theorem C19_timesz_complete : forall u v w st, WFD st ->
  sresCP (fun th => exists a b r, numv th u a /\ numv th v b /\ numv th w r /\ a * b = r) st (post_constraint (KTimesZ u v w) st).
Proof. intros u v w st W. exact (post_constraint_C (KTimesZ u v w) st W). Qed.

Print Assumptions C19_plusz_ground.
Print Assumptions C19_timesz_ground.
Print Assumptions C19_plusz_solve_w.
Print Assumptions C19_plusz_solve_v.
Print Assumptions C19_plusz_solve_u.
Print Assumptions C19_timesz_solve_w.
Print Assumptions C19_timesz_solve_v.
Print Assumptions C19_timesz_solve_u.
Print Assumptions C19_times_solution.
Print Assumptions C19_plusz_kept.
Print Assumptions C19_timesz_kept.
Print Assumptions C19_no_panic.
Print Assumptions C19_plusz_sound.
Print Assumptions C19_timesz_sound.
Print Assumptions C19_plusz_complete.
Print Assumptions C19_timesz_complete.
