(* C20 - Compound terms unify, constrain, reify and label structurally.
   TComp tag children is an ordinary constructor of the term algebra (tag = the Rust type,
   children = the fields in order), so the theorems of C01 (unification, occurs check), C02
   (disequality), C03 (reification, relevant constraints) hold for terms *with* compounds; the
   statements below are their compound instances and the compound-specific equations. *)
From Coq Require Import List ZArith Bool Arith.
From PV Require Import Model.Term Model.Subst Model.Unify Model.FD Model.State Model.Engine
  Proofs.UnifyProofs Proofs.ReifyProofs Proofs.EngineProofs.
Import ListNotations.

(* same compound type: exactly pairwise unification of the fields *)
Theorem C20_same_type : forall f s ext g c1 c2,
  unify (S f) s ext (TComp g c1) (TComp g c2) = unify_list f s ext c1 c2.
Proof.
  intros. cbn [unify]. rewrite !wkc_nonvar by reflexivity. rewrite Nat.eqb_refl. reflexivity.
Qed.

(* different compound types never unify; a compound never unifies with a list or a literal *)
Theorem C20_different_type : forall f s ext g1 g2 c1 c2, g1 <> g2 ->
  unify (S f) s ext (TComp g1 c1) (TComp g2 c2) = UFail.
Proof.
  intros f s ext g1 g2 c1 c2 H. cbn [unify]. rewrite !wkc_nonvar by reflexivity.
  destruct (Nat.eqb_spec g1 g2); [contradiction|reflexivity].
Qed.
Theorem C20_compound_vs_other : forall f s ext g c h t l,
  unify (S f) s ext (TComp g c) (TCons h t) = UFail /\
  unify (S f) s ext (TCons h t) (TComp g c) = UFail /\
  unify (S f) s ext (TComp g c) TEmpty = UFail /\
  unify (S f) s ext (TComp g c) (TVal l) = UFail.
Proof. intros. cbn [unify]. rewrite !wkc_nonvar by reflexivity. repeat split; reflexivity. Qed.

(* arity: field lists of different lengths do not unify (after the common prefix) *)
Theorem C20_arity : forall f s ext t ts,
  unify_list (S f) s ext (TMore t ts) TNil = UFail /\ unify_list (S f) s ext TNil (TMore t ts) = UFail.
Proof. intros. split; reflexivity. Qed.

(* the general theorems, instantiated at compounds: success = exactly the unifiers; failure = no unifier *)
Theorem C20_success : forall f s ext g c1 c2 s' ext',
  unify f s ext (TComp g c1) (TComp g c2) = UOk s' ext' ->
  forall th, sat th s' <-> (sat th s /\ apps th c1 = apps th c2).
Proof.
  intros f s ext g c1 c2 s' ext' E th. rewrite (unify_sat _ _ _ _ _ _ _ E th). cbn [app].
  split; intros [A B]; split; auto; congruence.
Qed.
Theorem C20_failure : forall f s ext g c1 c2,
  unify f s ext (TComp g c1) (TComp g c2) = UFail -> forall th, sat th s -> apps th c1 <> apps th c2.
Proof.
  intros f s ext g c1 c2 E th Hs H. apply (unify_complete _ _ _ _ _ E th Hs). cbn [app]. congruence.
Qed.

(* occurs check through the fields of a compound *)
Theorem C20_occurs : forall f s x t th,
  occurs f s x t = Some true -> sat th s -> is_var t = false -> tsize (th x) < tsize (app th t).
Proof. exact occurs_size_strict. Qed.
Example C20_occurs_example :
  unify dfuel [] [] (TVar 0 false) (TComp 7 (TMore (tnum 1) (TMore (TVar 0 false) TNil))) = UFail.
Proof. vm_compute. reflexivity. Qed.

(* reification: any-variables inside a compound are found (constraints() looks inside compounds) *)
Theorem C20_anyvars : forall g cs v, In v (anyvars (TComp g cs)) <-> any_occurs_list v cs.
Proof. intros. exact (proj2 anyvars_spec cs v). Qed.

(* labeling: a compound is labeled field by field, like a list; a typed field that is not itself a
   term (Option<..>, the reserved tag) is looked through *)
Theorem C20_label : forall defs n g cs st,
  wk (st_smap st) (TComp g cs) = TComp g cs ->
  start defs (S n) (CForceAns (TComp g cs)) st = start defs n (from_array BFS (map CForceAns (flat_children cs))) st.
Proof. intros defs n g cs st H. cbn [start]. rewrite H. reflexivity. Qed.
Theorem C20_label_plain_fields : forall cs,
  (forall t, In t (terms_to_list cs) -> match t with TComp g _ => g <> opt_tag | _ => True end) ->
  flat_children cs = terms_to_list cs.
Proof.
  induction cs as [|t r IH]; [reflexivity|]. cbn [flat_children terms_to_list]. intros H.
  rewrite IH by (intros u Hu; apply H; right; exact Hu).
  specialize (H t (or_introl eq_refl)). destruct t as [l|v a| |h tl|tg ts]; try reflexivity.
  destruct (Nat.eqb tg opt_tag) eqn:E; [apply Nat.eqb_eq in E; contradiction|reflexivity].
Qed.

Check C20_same_type : forall f s ext g c1 c2, unify (S f) s ext (TComp g c1) (TComp g c2) = unify_list f s ext c1 c2.
Print Assumptions C20_same_type.
Print Assumptions C20_label_plain_fields.
Print Assumptions C20_different_type.
Print Assumptions C20_compound_vs_other.
Print Assumptions C20_arity.
Print Assumptions C20_success.
Print Assumptions C20_failure.
Print Assumptions C20_occurs.
Print Assumptions C20_anyvars.
Print Assumptions C20_label.
