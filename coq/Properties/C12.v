(* C12 - for/everyg is the conjunction of its body over the collection (partial: see level note).
   Everyg::solve builds InferredConj::from_iter over the instantiated bodies; from_iter nests the
   goals in reverse order.  Proved: that goal *is* the conjunction (from_array) of the same goals in
   reverse order, and an empty collection is Succeed.  That the order of conjuncts does not change
   the answer multiset is C04. *)
From Coq Require Import List Permutation ZArith Bool Arith.
From PV Require Import Model.Term Model.Subst Model.Unify Model.FD Model.State Model.Engine Proofs.PermProofs.
Import ListNotations.

Theorem C12_is_conjunction : forall k cs, from_iter k cs = from_array k (rev cs).
Proof. exact from_iter_rev. Qed.

Theorem C12_empty : forall defs n k rho x css st,
  exists st', start defs (S (S n)) (CEveryg k rho x [] css) st = SUnit st' /\
              st_smap st' = st_smap st /\ st_cstore st' = st_cstore st /\ st_dstore st' = st_dstore st /\ st_ulog st' = st_ulog st.
Proof. intros. eexists. split; [reflexivity|]. repeat split. Qed.

(* the goal everyg solves for a collection e1..en: the bodies elaborated with x bound to each element *)
Theorem C12_unfold : forall defs n k rho x e es css st,
  start defs (S n) (CEveryg k rho x (e :: es) css) st =
  (let mk := fix mk (es : list term) (nv : nat) : list cgoal * nat :=
      match es with
      | [] => ([], nv)
      | e :: r => let '(c, n1) := elab defs efuel k ((x, e) :: rho) (GConj (map GConj css)) nv in
                  let '(cs, n2) := mk r n1 in (c :: cs, n2)
      end in
   let '(cs, nv) := mk (e :: es) (st_nextv st) in
   start defs n (from_iter k cs) (set_nextv st nv)).
Proof. reflexivity. Qed.

Check C12_is_conjunction : forall k cs, from_iter k cs = from_array k (rev cs).
Print Assumptions C12_is_conjunction.
Print Assumptions C12_empty.
Print Assumptions C12_unfold.
