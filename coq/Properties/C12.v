(* C12 - for/everyg is the conjunction of its body over the collection (partial: see level note).
   Everyg::solve builds InferredConj::from_iter over the instantiated bodies; from_iter nests the
   goals in reverse order.  Proved: that goal *is* the conjunction (from_array) of the same goals in
   reverse order, and an empty collection is Succeed.  That the order of conjuncts does not change
   the answer multiset is C04. *)
From Coq Require Import List Permutation ZArith Bool Arith.
From PV Require Import Model.Term Model.Subst Model.Unify Model.FD Model.State Model.Engine Proofs.PermProofs Proofs.UnifyProofs Proofs.DiseqProofs Proofs.SemProofs Proofs.MonoProofs Proofs.DenProofs.
Import ListNotations.

Theorem C12_is_conjunction : forall k cs, from_iter k cs = from_array k (rev cs).
Proof. exact from_iter_rev. Qed.

Theorem C12_empty : forall defs n k rho x css st,
  exists st', start defs (S (S n)) (CEveryg k rho x [] css) st = SUnit st' /\
              st_smap st' = st_smap st /\ st_cstore st' = st_cstore st /\ st_dstore st' = st_dstore st /\ st_ulog st' = st_ulog st.
Proof. intros. eexists. split; [reflexivity|]. repeat split. Qed.

(* the goal everyg solves for a collection e1..en: the bodies elaborated with x bound to each element *)
Theorem C12_unfold : forall defs n k rho x e es css st,
  start defs (S n) (CEveryg k rho x (e :: es) css) st =
  (let mk := fix mk (es : list term) (nv : nat) : list cgoal * nat :=
      match es with
      | [] => ([], nv)
      | e :: r => let '(c, n1) := elab defs efuel k ((x, e) :: rho) (GConj (map GConj css)) nv in
                  let '(cs, n2) := mk r n1 in (c :: cs, n2)
      end in
   let '(cs, nv) := mk (e :: es) (st_nextv st) in
   start defs n (from_iter k cs) (set_nextv st nv)).
Proof. reflexivity. Qed.

(* the conjunction, semantically: every solution of every answer the engine delivers for
   for x in coll { body } satisfies the logical reading of the body constructed for EVERY element
   (whatever the order in which the conjuncts are scheduled), and solves the starting state *)
Theorem C12_every_element : forall defs kk u n k rho x elems css st a rest u' th,
  next defs kk u (start defs n (CEveryg k rho x elems css) st) = NAnswer a rest u' -> Mst th a ->
  exists m cs nv,
    (fix mk (es : list term) (nv : nat) : list cgoal * nat :=
       match es with
       | [] => ([], nv)
       | e :: r =>
           let '(c, n1) := elab defs efuel k ((x, e) :: rho) (GConj (map GConj css)) nv in
           let '(cs, n2) := mk r n1 in (c :: cs, n2)
       end) elems m = (cs, nv) /\
    length cs = length elems /\ forall c, In c cs -> Den defs th c.
Proof.
  intros defs kk u n k rho x elems css st a rest u' th H HM.
  destruct (delivered_sound _ _ _ _ _ _ _ _ _ th H HM) as [HD _].
  inversion HD; subst; [|match goal with O : opaque _ |- _ => destruct O end].
  match goal with E : _ elems ?m = (?c, ?v), D : Den _ _ (from_iter _ ?c) |- _ =>
    exists m, c, v; split; [exact E|]; split; [|apply (Den_from_iter _ _ _ _ D)]; clear - E; revert m c v E end. induction elems as [|e r IH]; intros m cs9 nv9 E; [inversion E; reflexivity|].
  destruct (elab defs efuel k ((x, e) :: rho) (GConj (map GConj css)) m) as [c n1].
  match type of E with (let '(cs0, n2) := ?X in _) = _ => destruct X as [cs8 n8] eqn:E2 end.
  inversion E; subst. cbn [length]. f_equal. eapply IH. exact E2.
Qed.

Check C12_is_conjunction : forall k cs, from_iter k cs = from_array k (rev cs).
Print Assumptions C12_is_conjunction.
Print Assumptions C12_empty.
Print Assumptions C12_unfold.
Print Assumptions C12_every_element.
