(* C16 - CLP(FD) answers satisfy every posted finite-domain constraint (partial: see level note; the
   semantic soundness of every state operation except == between domain variables is proved below).
   Proved per propagator: with all operands ground the constraint is decided exactly (so a
   constraint that is re-run once its operands are bound cannot let a violating answer through),
   and the repaired propagators never store themselves with operands bound during their own
   pruning without running again.  The global statement over whole programs is carried by the
   brute-force oracle of the check. *)
From Coq Require Import List ZArith Bool Arith.
From PV Require Import Model.Term Model.Subst Model.Unify Model.FD Model.State Proofs.FDProofs Proofs.FDPropProofs Model.Engine Proofs.UnifyProofs Proofs.DiseqProofs Proofs.MonoProofs Proofs.DenProofs Proofs.FDDen
  Proofs.ElabAll Proofs.Acyc Proofs.AcycState Proofs.FDComp Proofs.FDEq Proofs.FDProg Proofs.Complete0 Proofs.KeyStream Proofs.BodyInv Proofs.QStream.
Import ListNotations.
Local Open Scope Z_scope.

Theorem C16_plusfd_ground : forall rcs rc id st u v w a b r,
  num (wk (st_smap st) u) a -> num (wk (st_smap st) v) b -> num (wk (st_smap st) w) r ->
  run_constraint rcs rc id (KPlus u v w) st = if Z.eqb (a + b) r then SOk st else SFail.
Proof. exact plusfd_ground. Qed.
Theorem C16_minusfd_ground : forall rcs rc id st u v w a b r,
  num (wk (st_smap st) u) a -> num (wk (st_smap st) v) b -> num (wk (st_smap st) w) r ->
  run_constraint rcs rc id (KMinus u v w) st = if Z.eqb (a - b) r then SOk st else SFail.
Proof. exact minusfd_ground. Qed.
Theorem C16_timesfd_ground : forall rcs rc id st u v w a b r,
  num (wk (st_smap st) u) a -> num (wk (st_smap st) v) b -> num (wk (st_smap st) w) r ->
  run_constraint rcs rc id (KTimes u v w) st = if Z.eqb (a * b) r then SOk st else SFail.
Proof. exact timesfd_ground. Qed.
Theorem C16_ltefd_ground : forall rcs rc id st u v a b,
  num (wk (st_smap st) u) a -> num (wk (st_smap st) v) b ->
  run_constraint rcs rc id (KLte u v) st = if Z.leb a b then SOk st else SFail.
Proof. exact ltefd_ground. Qed.
Theorem C16_diseqfd_ground : forall rcs rc id st u v a b,
  num (wk (st_smap st) u) a -> num (wk (st_smap st) v) b ->
  run_constraint rcs rc id (KDiseqFd u v) st = if Z.eqb a b then SFail else SOk st.
Proof. exact diseqfd_ground. Qed.

Theorem C16_self_recheck : forall rcs rc id c st u v w g a1 a2 a3 a4 a5 a6 st1 st2 st3 ud vd wd,
  get_number (wk (st_smap st) u) = None \/ get_number (wk (st_smap st) v) = None \/ get_number (wk (st_smap st) w) = None ->
  operand_domain st (wk (st_smap st) u) = Some ud -> operand_domain st (wk (st_smap st) v) = Some vd ->
  operand_domain st (wk (st_smap st) w) = Some wd ->
  process_domain rcs st (wk (st_smap st) w) (Interval (a1 ud vd wd) (a2 ud vd wd)) = SOk st1 ->
  process_domain rcs st1 (wk (st_smap st) u) (Interval (a3 ud vd wd) (a4 ud vd wd)) = SOk st2 ->
  process_domain rcs st2 (wk (st_smap st) v) (Interval (a5 ud vd wd) (a6 ud vd wd)) = SOk st3 ->
  arith3 rcs rc id c st u v w g a1 a2 a3 a4 a5 a6 =
    if Nat.eqb (length (st_smap st3)) (length (st_smap st)) then SOk (with_constraint_id st3 id c) else rc id c st3.
Proof. exact arith3_recheck. Qed.

(* the witness of the pinned defect, on the repaired model: x in 1..=3, plusfd(x, x, x) has no answer *)
Example C16_plusfd_xxx :
  let st0 := empty_state 1 in
  match post_domain (TVar 0 false) (Interval 1 3) st0 with
  | SOk st1 => post_constraint (KPlus (TVar 0 false) (TVar 0 false) (TVar 0 false)) st1
  | r => r
  end = SFail.
Proof. vm_compute. reflexivity. Qed.

(* SEMANTIC SOUNDNESS of every propagator, ground or not.
   MstF th st : the valuation th solves st - its substitution, every stored constraint of every kind
   (ltefd/plusfd/minusfd/timesfd/diseqfd, distinctfd read as "the elements of the list are pairwise
   different integers", and the CLP(Z) and tree constraints, read as integer relations on the values
   th gives their operands) and every domain (the variable's value is an
   integer of the domain).  SolF st st' : st' extends st's substitution, keeps all sparse domains
   sorted, and every solution of st' solves st's constraints and domains.
   For EVERY constraint kind, any operands (ground, partly bound, variables), any fuel, and states whose
   stored domains are well-formed (WFD; holds initially and is preserved):
     - posting a constraint gives a state all of whose solutions solve the original state AND satisfy
       the constraint, whether the propagator decided it, pruned domains and kept it, dropped it
       because the domains already imply it, or bound its last unknown;
     - posting a domain puts the operand's value in the domain;
     - re-running the whole store after the substitution grew never loses a constraint or a domain.
   So whichever way the remaining variables are later labeled, every posted constraint holds. *)
Theorem C16_post_constraint_sound : forall c st, WFD st -> sresFC c st (post_constraint c st).
Proof. exact post_constraint_FC. Qed.
Theorem C16_post_domain_sound : forall x d st, WFD st -> wf' d -> sresFD st x d (post_domain x d st).
Proof. exact post_domain_FD. Qed.
Theorem C16_rerun_sound : forall f st, WFD st -> sresF st (run_constraints f st).
Proof. exact run_constraints_F. Qed.
Theorem C16_initial_wf : forall n, WFD (empty_state n).
Proof. exact WFD_empty. Qed.
(* unfolding of the result shape, for readers: a successful post *)
Theorem C16_post_constraint_reading : forall c st st' th, WFD st -> post_constraint c st = SOk st' -> MstF th st' ->
  choldF th c /\ storeF th (st_cstore st) /\ domF th (st_dstore st) /\ sat th (st_smap st) /\ WFD st'.
Proof.
  intros c st st' th W E HM. pose proof (post_constraint_FC c st W) as H. rewrite E in H. cbn in H. destruct H as [S HC].
  pose proof (MstF_SolF th st st' S HM) as [A [B D]]. split; [apply HC, HM|]. split; [exact B|]. split; [exact D|]. split; [exact A|apply S].
Qed.

(* == on states with domains: unify, re-run the store, then hand the domain of every newly bound variable
   over to the term it was bound to and remove it.  Every solution of the result solves the starting
   state - including the domains of the variables that were just bound - and makes both sides equal. *)
Theorem C16_eq_sound : forall st u v st', acyc (st_smap st) -> WFD st -> state_unify st u v = SOk st' ->
  ext st st' /\ WFD st' /\ acyc (st_smap st') /\ forall th, MstF th st' -> MstF th st /\ app th u = app th v.
Proof. exact state_unify_F. Qed.

(* WHOLE PROGRAMS.  gdwf g : the domains written in the source goal are well-formed (sparse domains
   sorted, as FiniteDomain::from builds them); dwf c : the same for an elaborated goal, which contains
   no reification step.  DenF defs th c : the logical reading of c under th - conjunction, disjunction,
   committed choice read as one of its branches, relation calls unfolded, == equality, != difference,
   x in d membership, each FD / CLP(Z) constraint its integer relation, distinctfd pairwise
   different.  For all relation definitions, goals, search strategies, fuel, and every answer
   Solver::next delivers (before reification): every valuation that solves the answer state satisfies
   the reading of the whole program and solves the state the program started from. *)
Theorem C16_whole_program : forall defs,
  (forall r d, find_def r defs = Some d -> gdwf (d_body d)) ->
  forall k u n g st a rest u' th, dwf g -> GoodS st ->
  next defs k u (start defs n g st) = NAnswer a rest u' -> MstF th a ->
  DenF defs th g /\ MstF th st /\ GoodS a.
Proof. exact fd_delivered_sound. Qed.
(* goal construction keeps the domains of the source *)
Theorem C16_elab_keeps_domains : forall defs,
  (forall r d, find_def r defs = Some d -> gdwf (d_body d)) ->
  forall f k rho g n, gdwf g -> dwf (fst (elab defs f k rho g n)).
Proof. exact elab_dwf. Qed.
Theorem C16_initial_good : forall n, GoodS (empty_state n).
Proof. intros n. split; [constructor|apply WFD_empty]. Qed.
(* readings of the atoms, for readers *)
Example C16_reading_atoms : forall defs th x d u v w,
  (DenF defs th (CDom x d) -> exists z, numv th x z /\ mem d z) /\
  (DenF defs th (CPost (KTimes u v w)) -> exists a b r, numv th u a /\ numv th v b /\ numv th w r /\ (a * b = r)%Z).
Proof.
  intros defs th x d u v w. split; intros H; inversion H; subst; auto;
    match goal with O : opaqueF _ |- _ => destruct O end.
Qed.

(* non-vacuity of the whole-program theorems (C16_whole_program, C17_no_solution_lost_flat): the program
   x in 1..3, y in 1..3, x + 1 = y run from the initial state delivers an answer with the domains pruned to
   1..2 and 2..3 and the constraint still stored; the valuation x = 1, y = 2 solves it and satisfies the reading *)
Definition C16_exg : cgoal := fst (elab [] efuel BFS [(0%nat, TVar 0 false); (1%nat, TVar 1 false)]
  (GConj [GDom (TVar 0 false) (Interval 1 3); GDom (TVar 1 false) (Interval 1 3); GRel RPlus [TVar 0 false; tnum 1; TVar 1 false]]) 2).
Definition C16_exth : val := fun v => match v with O => tnum 1 | _ => tnum 2 end.
Example C16_whole_program_example :
  exists a rest k, next [] 100 0 (start [] sfuel C16_exg (empty_state 2)) = NAnswer a rest k /\
    st_dstore a = [(0%nat, Interval 1 2); (1%nat, Interval 2 3)] /\
    dwf C16_exg /\ flat C16_exg /\ GoodS (empty_state 2) /\ MstF C16_exth a /\ MstG C16_exth a /\ Den0 C16_exth C16_exg.
Proof.
  eexists. eexists. eexists. split; [vm_compute; reflexivity|]. split; [reflexivity|].
  split; [cbn; repeat split; exact I|]. split; [cbn; repeat split; exact I|].
  split; [split; [constructor|apply WFD_empty]|].
  assert (M : MstG C16_exth (mkState [] [(0%nat, KPlus (TVar 0 false) (TVal (LNum 1)) (TVar 1 false))] [(0%nat, Interval 1 2); (1%nat, Interval 2 3)] [UWith 0] 2 1)).
  { split; [intros x t []|]. split.
    - intros i c [H|[]]. inversion H; subst. exists 1%Z, 1%Z, 2%Z. unfold numv, in_isize, isize_min, isize_max. cbn. repeat split; try reflexivity; Lia.lia.
    - intros x d [H|[H|[]]]; inversion H; subst; [exists 1%Z|exists 2%Z]; split; try reflexivity; cbn; Lia.lia. }
  split; [|split; [exact M|]].
  - destruct M as [A [B C]]. split; [exact A|]. split; [|exact C]. intros i c Hin. specialize (B i c Hin).
    destruct Hin as [H|[]]. inversion H; subst. destruct B as [a [b [r [H1 [H2 [H3 [H4 _]]]]]]]. exists a, b, r. auto.
  - unfold C16_exg. vm_compute fst. repeat constructor; cbn.
    + exists 1%Z. split; [reflexivity|cbn; Lia.lia].
    + exists 2%Z. split; [reflexivity|cbn; Lia.lia].
    + exists 1%Z, 1%Z, 2%Z. unfold numv, in_isize, isize_min, isize_max. cbn. repeat split; try reflexivity; Lia.lia.
Qed.

(* ------------------------------------------------------------------ quiescence: nothing is stored unchecked *)
(* In every state of every stream of every goal the front end elaborates, a stored arithmetic constraint
   still has an operand that does not resolve to a number: a constraint whose operands are all known
   has been decided (C16_*_ground) and removed; none is left stored with stale operands.  QInv also
   carries the uniqueness of constraint identities and the unbound keys of stored disequalities. *)
Theorem C16_quiescent_everywhere : forall defs n g st,
  QInv st -> body g -> pbS QInv (start defs n g st).
Proof. exact start_quiescent. Qed.
Theorem C16_quiescent_answers : forall defs k used s a rest used',
  pbS QInv s -> next defs k used s = NAnswer a rest used' -> QInv a /\ pbS QInv rest.
Proof. exact next_quiescent. Qed.
Theorem C16_quiescent_initial : forall n, QInv (empty_state n).
Proof. exact qinv_empty. Qed.
Theorem C16_quiescent_ops : forall st,
  QInv st ->
  (forall u v, sresPb QInv (state_unify st u v)) /\ (forall u v, sresPb QInv (state_disunify st u v)) /\
  (forall x d, sresPb QInv (post_domain x d st)) /\ (forall c, sresPb QInv (post_constraint c st)).
Proof.
  intros st A. repeat split; intros.
  - apply qinv_unify, A.
  - apply qinv_disunify, A.
  - apply qinv_dom, A.
  - apply qinv_post, A.
Qed.
Theorem C16_stored_not_ground3 : forall st id u v w, QInv st ->
  In (id, KPlus u v w) (st_cstore st) \/ In (id, KMinus u v w) (st_cstore st) \/ In (id, KTimes u v w) (st_cstore st) \/
  In (id, KPlusZ u v w) (st_cstore st) \/ In (id, KTimesZ u v w) (st_cstore st) ->
  ~ (exists a b r, wk (st_smap st) u = tnum a /\ wk (st_smap st) v = tnum b /\ wk (st_smap st) w = tnum r).
Proof. exact stored_not_ground. Qed.
Theorem C16_stored_not_ground2 : forall st id u v, QInv st ->
  In (id, KLte u v) (st_cstore st) \/ In (id, KDiseqFd u v) (st_cstore st) ->
  ~ (exists a b, wk (st_smap st) u = tnum a /\ wk (st_smap st) v = tnum b).
Proof. exact stored_not_ground2. Qed.

(* non-vacuity: the answer of the example program above still stores x + 1 = y, and it is quiescent *)
Example C16_quiescent_example :
  exists a rest k, next [] 100 0 (start [] sfuel C16_exg (empty_state 2)) = NAnswer a rest k /\
    st_cstore a = [(0%nat, KPlus (TVar 0 false) (TVal (LNum 1)) (TVar 1 false))] /\ QInv a.
Proof.
  assert (B : body C16_exg) by (apply (elab_all A_body A_body_elab)).
  pose proof (C16_quiescent_everywhere [] sfuel C16_exg (empty_state 2) (C16_quiescent_initial 2) B) as P.
  destruct (next [] 100 0 (start [] sfuel C16_exg (empty_state 2))) as [a rest k| | |] eqn:E; try (vm_compute in E; discriminate).
  exists a, rest, k. split; [reflexivity|]. split; [vm_compute in E; inversion E; reflexivity|].
  apply (C16_quiescent_answers _ _ _ _ _ _ _ P E).
Qed.

Check C16_plusfd_ground : forall rcs rc id st u v w a b r,
  num (wk (st_smap st) u) a -> num (wk (st_smap st) v) b -> num (wk (st_smap st) w) r ->
  run_constraint rcs rc id (KPlus u v w) st = if Z.eqb (a + b) r then SOk st else SFail.
Print Assumptions C16_plusfd_ground.
Print Assumptions C16_minusfd_ground.
Print Assumptions C16_timesfd_ground.
Print Assumptions C16_ltefd_ground.
Print Assumptions C16_diseqfd_ground.
Print Assumptions C16_self_recheck.
Print Assumptions C16_post_constraint_sound.
Print Assumptions C16_post_domain_sound.
Print Assumptions C16_rerun_sound.
Print Assumptions C16_initial_wf.
Print Assumptions C16_post_constraint_reading.
Print Assumptions C16_eq_sound.
Print Assumptions C16_whole_program.
Print Assumptions C16_elab_keeps_domains.
Print Assumptions C16_initial_good.
Print Assumptions C16_quiescent_everywhere.
Print Assumptions C16_quiescent_answers.
Print Assumptions C16_quiescent_initial.
Print Assumptions C16_quiescent_ops.
Print Assumptions C16_stored_not_ground3.
Print Assumptions C16_stored_not_ground2.
