(* C04 - Reordering conjuncts or disjuncts preserves the answer multiset (partial: see level note).
   Proved: (a) permuting the clauses of a disjunction permutes its admissible answers;
   (b) the meaning of the constraint store and of the substitution does not depend on the order in
   which equalities and disequalities are posted, and no order fails spuriously.
   The lift of (b) through whole programs with nested search (bijection between answer multisets)
   is carried by the correspondence and the permutation oracle of the check. *)
From Coq Require Import List Permutation ZArith Bool Arith.
From PV Require Import Model.Term Model.Subst Model.Unify Model.FD Model.State Model.Engine Spec.StreamSem
  Proofs.UnifyProofs Proofs.DiseqProofs Proofs.StreamProofs Proofs.EngineProofs Proofs.PermProofs
  Proofs.SemProofs Proofs.MonoProofs Proofs.DenProofs Proofs.FDDen Proofs.FDComp Proofs.FDProg Proofs.Complete0.
Import ListNotations.

Theorem C04_disjunction : forall defs m n st gs gs' zs,
  Permutation gs gs' ->
  ansS (start defs (S m)) (start defs (S n) (CConde BFS gs) st) zs ->
  exists yss', Forall2 (fun c ys => ansS (start defs (S m)) (start defs n c st) ys) gs' yss' /\
               Permutation zs (concat yss').
Proof. intros defs m n st gs gs' zs HP. rewrite start_conde. exact (conde_perm defs m n st gs gs' zs HP). Qed.

Theorem C04_equalities : forall f s u1 v1 u2 v2 s1 e1 s12 e12 s2 e2 s21 e21,
  unify f s [] u1 v1 = UOk s1 e1 -> unify f s1 [] u2 v2 = UOk s12 e12 ->
  unify f s [] u2 v2 = UOk s2 e2 -> unify f s2 [] u1 v1 = UOk s21 e21 ->
  forall th, sat th s12 <-> sat th s21.
Proof. exact eq_order_free. Qed.

Theorem C04_no_spurious_failure : forall f s u1 v1 u2 v2 s1 e1 s12 e12 th,
  unify f s [] u1 v1 = UOk s1 e1 -> unify f s1 [] u2 v2 = UOk s12 e12 -> sat th s12 ->
  unify f s [] u2 v2 <> UFail /\
  forall s2 e2, unify f s [] u2 v2 = UOk s2 e2 -> unify f s2 [] u1 v1 <> UFail.
Proof. exact eq_order_no_spurious_failure. Qed.

Theorem C04_disequalities : forall store i j p q th,
  store_holds th (fst (push_and_normalize (fst (push_and_normalize store i (KDiseq p))) j (KDiseq q))) <->
  store_holds th (fst (push_and_normalize (fst (push_and_normalize store j (KDiseq q))) i (KDiseq p))).
Proof. intros. rewrite !push_and_normalize_den. tauto. Qed.

(* WHOLE PROGRAMS, semantically: the logical reading of a goal does not depend on the order of its
   conjuncts or clauses, and (C02_answers_sound) every solution of every delivered answer of ANY
   program satisfies that reading - so reordering can neither add solutions to answers nor make an
   answer's solutions violate the reordered program. *)
Theorem C04_reading_conj_order : forall defs th k k' a b, Den defs th (CConj k a b) <-> Den defs th (CConj k' b a).
Proof.
  intros defs th k k' a b. split; intros H; inversion H; subst;
    try (constructor; assumption); match goal with O : opaque _ |- _ => destruct O end.
Qed.
Theorem C04_reading_clause_order : forall defs th k k' gs gs', Permutation gs gs' ->
  Den defs th (CConde k gs) -> Den defs th (CConde k' gs').
Proof.
  intros defs th k k' gs gs' P H. inversion H; subst; [|match goal with O : opaque _ |- _ => destruct O end].
  econstructor; [eapply Permutation_in; eauto|assumption].
Qed.
Theorem C04_answers_sound_any_order : forall defs kk u n k a b st s' rest u' th,
  next defs kk u (start defs n (CConj k b a) st) = NAnswer s' rest u' -> Mst th s' -> Den defs th (CConj k a b).
Proof.
  intros defs kk u n k a b st s' rest u' th H HM. apply (C04_reading_conj_order defs th k k b a).
  apply (proj1 (delivered_sound _ _ _ _ _ _ _ _ _ th H HM)).
Qed.

Check C04_disjunction : forall defs m n st gs gs' zs,
  Permutation gs gs' ->
  ansS (start defs (S m)) (start defs (S n) (CConde BFS gs) st) zs ->
  exists yss', Forall2 (fun c ys => ansS (start defs (S m)) (start defs n c st) ys) gs' yss' /\ Permutation zs (concat yss').
(* the set of solutions does not depend on the order, for the programs of this property (==, !=,
   interleaving conjunction and disjunction, fresh): the reading Den0 is invariant under reordering
   conjuncts and clauses, and by C02_exactly_the_solutions the solutions of the delivered answers are
   exactly the valuations satisfying the reading - so two orderings of the same program have the same
   solutions among their answers, and neither loses one *)
Theorem C04_reading_order_free : forall th k a b gs1 gs2,
  (Den0 th (CConj k a b) <-> Den0 th (CConj k b a)) /\
  (Permutation gs1 gs2 -> (Den0 th (CConde k gs1) <-> Den0 th (CConde k gs2))).
Proof.
  intros th k a b gs1 gs2. split.
  - split; intros H; inversion H; subst; constructor; assumption.
  - intros P. split; intros H; inversion H; subst; econstructor; eauto; [eapply Permutation_in; eauto|eapply Permutation_in; [apply Permutation_sym|]; eauto].
Qed.
Theorem C04_same_solutions_any_order : forall defs g1 g2 m th, flatT g1 -> flatT g2 ->
  (Den0 th g1 <-> Den0 th g2) ->
  (forall k u n a rest u', next defs k u (start defs n g1 (empty_state m)) = NAnswer a rest u' -> MstG th a ->
     exists a' n', MstG th a' /\ emitsE (startq defs) n' (startq defs g2 (empty_state m)) a').
Proof.
  intros defs g1 g2 m th F1 F2 E k u n a rest u' H HM.
  apply (proj2 (tree_program_exact defs g2 m th F2)). apply E.
  apply (proj1 (tree_program_exact defs g1 m th F1) k u n a rest u' H HM).
Qed.

Print Assumptions C04_disjunction.
Print Assumptions C04_equalities.
Print Assumptions C04_no_spurious_failure.
Print Assumptions C04_disequalities.
Print Assumptions C04_reading_conj_order.
Print Assumptions C04_reading_clause_order.
Print Assumptions C04_answers_sound_any_order.
Print Assumptions C04_reading_order_free.
Print Assumptions C04_same_solutions_any_order.
