(* C04 - Reordering conjuncts or disjuncts preserves the answer multiset (partial: see level note).
   Proved: (a) permuting the clauses of a disjunction permutes its admissible answers;
   (b) the meaning of the constraint store and of the substitution does not depend on the order in
   which equalities and disequalities are posted, and no order fails spuriously.
   The lift of (b) through whole programs with nested search (bijection between answer multisets)
   is carried by the correspondence and the permutation oracle of the check. *)
From Coq Require Import List Permutation ZArith Bool Arith.
From PV Require Import Model.Term Model.Subst Model.Unify Model.FD Model.State Model.Engine Spec.StreamSem
  Proofs.UnifyProofs Proofs.DiseqProofs Proofs.StreamProofs Proofs.EngineProofs Proofs.PermProofs
  Proofs.SemProofs Proofs.MonoProofs Proofs.DenProofs.
Import ListNotations.

Theorem C04_disjunction : forall defs m n st gs gs' zs,
  Permutation gs gs' ->
  ansS (start defs (S m)) (start defs (S n) (CConde BFS gs) st) zs ->
  exists yss', Forall2 (fun c ys => ansS (start defs (S m)) (start defs n c st) ys) gs' yss' /\
               Permutation zs (concat yss').
Proof. intros defs m n st gs gs' zs HP. rewrite start_conde. exact (conde_perm defs m n st gs gs' zs HP). Qed.

Theorem C04_equalities : forall f s u1 v1 u2 v2 s1 e1 s12 e12 s2 e2 s21 e21,
  unify f s [] u1 v1 = UOk s1 e1 -> unify f s1 [] u2 v2 = UOk s12 e12 ->
  unify f s [] u2 v2 = UOk s2 e2 -> unify f s2 [] u1 v1 = UOk s21 e21 ->
  forall th, sat th s12 <-> sat th s21.
Proof. exact eq_order_free. Qed.

Theorem C04_no_spurious_failure : forall f s u1 v1 u2 v2 s1 e1 s12 e12 th,
  unify f s [] u1 v1 = UOk s1 e1 -> unify f s1 [] u2 v2 = UOk s12 e12 -> sat th s12 ->
  unify f s [] u2 v2 <> UFail /\
  forall s2 e2, unify f s [] u2 v2 = UOk s2 e2 -> unify f s2 [] u1 v1 <> UFail.
Proof. exact eq_order_no_spurious_failure. Qed.

Theorem C04_disequalities : forall store i j p q th,
  store_holds th (fst (push_and_normalize (fst (push_and_normalize store i (KDiseq p))) j (KDiseq q))) <->
  store_holds th (fst (push_and_normalize (fst (push_and_normalize store j (KDiseq q))) i (KDiseq p))).
Proof. intros. rewrite !push_and_normalize_den. tauto. Qed.

(* WHOLE PROGRAMS, semantically: the logical reading of a goal does not depend on the order of its
   conjuncts or clauses, and (C02_answers_sound) every solution of every delivered answer of ANY
   program satisfies that reading - so reordering can neither add solutions to answers nor make an
   answer's solutions violate the reordered program. *)
Theorem C04_reading_conj_order : forall defs th k k' a b, Den defs th (CConj k a b) <-> Den defs th (CConj k' b a).
Proof.
  intros defs th k k' a b. split; intros H; inversion H; subst;
    try (constructor; assumption); match goal with O : opaque _ |- _ => destruct O end.
Qed.
Theorem C04_reading_clause_order : forall defs th k k' gs gs', Permutation gs gs' ->
  Den defs th (CConde k gs) -> Den defs th (CConde k' gs').
Proof.
  intros defs th k k' gs gs' P H. inversion H; subst; [|match goal with O : opaque _ |- _ => destruct O end].
  econstructor; [eapply Permutation_in; eauto|assumption].
Qed.
Theorem C04_answers_sound_any_order : forall defs kk u n k a b st s' rest u' th,
  next defs kk u (start defs n (CConj k b a) st) = NAnswer s' rest u' -> Mst th s' -> Den defs th (CConj k a b).
Proof.
  intros defs kk u n k a b st s' rest u' th H HM. apply (C04_reading_conj_order defs th k k b a).
  apply (proj1 (delivered_sound _ _ _ _ _ _ _ _ _ th H HM)).
Qed.

Check C04_disjunction : forall defs m n st gs gs' zs,
  Permutation gs gs' ->
  ansS (start defs (S m)) (start defs (S n) (CConde BFS gs) st) zs ->
  exists yss', Forall2 (fun c ys => ansS (start defs (S m)) (start defs n c st) ys) gs' yss' /\ Permutation zs (concat yss').
Print Assumptions C04_disjunction.
Print Assumptions C04_equalities.
Print Assumptions C04_no_spurious_failure.
Print Assumptions C04_disequalities.
Print Assumptions C04_reading_conj_order.
Print Assumptions C04_reading_clause_order.
Print Assumptions C04_answers_sound_any_order.
