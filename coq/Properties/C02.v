(* C02 - Disequality constraints (CLP(Tree)) are sound, complete and order-free.
   A stored constraint KDiseq ps means "not all equations of ps hold": [holds th ps].
   th ranges over *all* substitutions that solve the current bindings ([sat th s]). *)
From Coq Require Import List ZArith Bool Arith.
From PV Require Import Model.Term Model.Subst Model.Unify Model.FD Model.State Proofs.UnifyProofs Proofs.DiseqProofs Model.Engine Proofs.SemProofs Proofs.MonoProofs Proofs.DenProofs Proofs.FDDen Proofs.FDComp Proofs.DisunifyC Spec.StreamSem Proofs.EngineProofs Proofs.Complete0.
Import ListNotations.

(* posting u != v: nothing is stored when u and v can never be equal, the goal fails when they are
   already equal, otherwise the stored constraint holds exactly when u and v differ *)
Theorem C02_post_diseq : forall st u v,
  match unify dfuel (st_smap st) [] u v with
  | UFail => forall th, sat th (st_smap st) -> app th u <> app th v
  | UOk _ [] => forall th, sat th (st_smap st) -> app th u = app th v
  | UOk _ ext => forall th, sat th (st_smap st) -> (holds th ext <-> app th u <> app th v)
  | UOOF => True
  end.
Proof. exact disunify_spec. Qed.

(* posting u == v: C01 (solutions of the new substitution = solutions of the old one that unify u, v);
   afterwards every stored disequality is re-checked against the new substitution: *)
Theorem C02_recheck : forall s ps,
  match unify_pairs dfuel s [] ps with
  | UFail => forall th, sat th s -> holds th ps          (* satisfied for good: dropped *)
  | UOk _ [] => forall th, sat th s -> ~ holds th ps     (* violated: the unification fails *)
  | UOk _ ext => forall th, sat th s -> (holds th ext <-> holds th ps)   (* kept, in solved form *)
  | UOOF => True
  end.
Proof. exact recheck_spec. Qed.

(* a.subsumes(b): a implies b *)
Theorem C02_subsumes : forall a b, subsumes a b = true -> forall th, holds th a -> holds th b.
Proof. exact subsumes_sound. Qed.

(* normalisation never changes what the store means: only implied constraints are dropped *)
Theorem C02_normalize : forall store id ps th,
  store_holds th (fst (push_and_normalize store id (KDiseq ps))) <-> (store_holds th store /\ holds th ps).
Proof. exact push_and_normalize_den. Qed.

(* order-freedom of the store's meaning: it is the conjunction of the posted constraints *)
Corollary C02_order_free : forall store i j p q th,
  store_holds th (fst (push_and_normalize (fst (push_and_normalize store i (KDiseq p))) j (KDiseq q))) <->
  store_holds th (fst (push_and_normalize (fst (push_and_normalize store j (KDiseq q))) i (KDiseq p))).
Proof. intros. rewrite !push_and_normalize_den. tauto. Qed.

(* the pinned normalisation lost a constraint: x != 5 stored, then [x, y] != [5, 6] posted *)
Example C02_pinned_refuted :
  let store := [(0, KDiseq [(0, tnum 5)])] in
  let newc := KDiseq [(1, tnum 6); (0, tnum 5)] in
  push_and_normalize_pinned store 1 newc = [(1, newc)] /\
  fst (push_and_normalize store 1 newc) = store.
Proof. vm_compute. split; reflexivity. Qed.

(* WHOLE PROGRAMS.  Mst th st : th solves the substitution and every stored disequality of st.
   Den th g : the logical reading of the goal (== equality, != difference, conjunction, disjunction,
   calls by their bodies).  For ANY goal, search kind, fuel and number of steps: every solution of
   every answer the engine delivers satisfies the logical reading of the program and solves the state
   the program started from - the solutions of answers are solutions of the program. *)
Theorem C02_answers_sound : forall defs k u n g st a rest u' th,
  next defs k u (start defs n g st) = NAnswer a rest u' -> Mst th a -> Den defs th g /\ Mst th st.
Proof. exact delivered_sound. Qed.
(* the two constraint goals, on states *)
Theorem C02_eq_den : forall st u v a, state_unify st u v = SOk a ->
  Sol st a /\ forall th, sat th (st_smap a) -> app th u = app th v.
Proof. exact state_unify_den. Qed.
Theorem C02_diseq_den : forall st u v a, state_disunify st u v = SOk a ->
  Sol st a /\ forall th, sat th (st_smap a) -> store_holds th (st_cstore a) -> app th u <> app th v.
Proof. exact state_disunify_den. Qed.
(* re-running the whole store after the substitution grew never loses a constraint's meaning *)
Theorem C02_rerun_refines : forall f st, sresS st (run_constraints f st).
Proof. exact run_constraints_S. Qed.

Check C02_post_diseq : forall st u v,
  match unify dfuel (st_smap st) [] u v with
  | UFail => forall th, sat th (st_smap st) -> app th u <> app th v
  | UOk _ [] => forall th, sat th (st_smap st) -> app th u = app th v
  | UOk _ ext => forall th, sat th (st_smap st) -> (holds th ext <-> app th u <> app th v)
  | UOOF => True
  end.
(* complete: posting u != v loses no solution - every valuation that solves the state (substitution, every
   stored constraint, every domain) and makes the two sides different solves the state that is
   returned - and it fails only when no such valuation exists; the same for the re-check of the whole
   store after the substitution grew (FDComp.run_constraints_C covers the stored disequalities) *)
Theorem C02_diseq_complete : forall st u v, sresCP (fun th => app th u <> app th v) st (state_disunify st u v).
Proof. exact state_disunify_C. Qed.
Theorem C02_recheck_complete : forall f st, WFD st -> sresCP QT st (run_constraints f st).
Proof. exact run_constraints_C. Qed.

(* EXACTLY the solutions, for the programs this property quantifies over: goals built from ==, !=,
   interleaving conjunction and disjunction and fresh variables (flatT), run from the initial state.
   Den0 th g is the logical reading (== equality, != difference, conjunction, disjunction).
   (1) every valuation that solves a delivered answer (its substitution and its disequalities)
       satisfies the reading: answers have no wrong instances;
   (2) every valuation that satisfies the reading solves some answer that is delivered after
       finitely many steps (or an engine step fails with an error outcome first): no solution is
       missing.  The reading does not mention the order of conjuncts or clauses. *)
Theorem C02_exactly_the_solutions : forall defs g m th, flatT g ->
  (forall k u n a rest u', next defs k u (start defs n g (empty_state m)) = NAnswer a rest u' -> MstG th a -> Den0 th g) /\
  (Den0 th g -> exists a n, MstG th a /\ emitsE (startq defs) n (startq defs g (empty_state m)) a).
Proof. exact tree_program_exact. Qed.

Print Assumptions C02_post_diseq.
Print Assumptions C02_recheck.
Print Assumptions C02_subsumes.
Print Assumptions C02_normalize.
Print Assumptions C02_order_free.
Print Assumptions C02_answers_sound.
Print Assumptions C02_eq_den.
Print Assumptions C02_diseq_den.
Print Assumptions C02_rerun_refines.
Print Assumptions C02_diseq_complete.
Print Assumptions C02_recheck_complete.
Print Assumptions C02_exactly_the_solutions.
