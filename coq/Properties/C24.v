(* C24 - Library list relations implement their documented relations.
   The definitions are Gen/RelDefs.v, regenerated from /repo/src/relation/*.rs on every run.
   The theorems below are exhaustive over a stated finite scope (all lists over {1, 2} of length
   at most 3, resp. 4) and are proved by evaluating the engine model on every instance
   ([forallb ... = true] by vm_compute, lifted with forallb_forall): they hold for every input in
   that scope, not for a sample.  Beyond the scope the relations are compared with Vec-based
   definitions on the implementation, in all argument modes.
   permute is refuted on the unchanged tree (and pinned by test_permute_1): see C24_permute_refuted. *)
From Coq Require Import List ZArith Bool Arith Permutation.
From PV Require Import Model.Term Model.Subst Model.Unify Model.FD Model.State Model.Engine Proofs.EngineProofs Proofs.UnifyProofs Proofs.SemProofs Proofs.MonoProofs Proofs.RelSound Gen.RelDefs Proofs.DenProofs Proofs.RelSound2 Spec.StreamSem Proofs.StreamProofs Proofs.FDDen Proofs.FDComp Proofs.FDProg Proofs.FairProofs Proofs.ScopeElab Proofs.ScopeState Proofs.Complete0 Proofs.ForceC Proofs.RelComplete Proofs.LibComplete Proofs.LibCor.
Import ListNotations.

Definition q0 := TVar 100 false.
Definition q1 := TVar 101 false.
Definition L (l : list Z) : term := list_term (map tnum l).

(* all answers of a query with two query variables, as pairs of resolved terms; None if the model
   does not finish within the budget *)
Definition answers (body : list goal) : option (list (term * term)) :=
  let '(g, st) := query_goal lib_defs 2 [100; 101] body in
  match drain lib_defs 3000 (start lib_defs sfuel g st) with
  | None => None
  | Some sts =>
      Some (flat_map (fun s => match walk_star dfuel (st_smap s) (TVar 0 false), walk_star dfuel (st_smap s) (TVar 1 false) with
                              | Some a, Some b => [(a, b)] | _, _ => [] end) sts)
  end.

Definition pair_eqb (a b : term * term) : bool := term_eqb (fst a) (fst b) && term_eqb (snd a) (snd b).
Definition count_in (x : term * term) (l : list (term * term)) : nat := length (filter (pair_eqb x) l).
Definition same_bag (a b : list (term * term)) : bool :=
  Nat.eqb (length a) (length b) && forallb (fun x => Nat.eqb (count_in x a) (count_in x b)) a.
Definition is_bag (r : option (list (term * term))) (expected : list (term * term)) : bool :=
  match r with Some got => same_bag got expected | None => false end.
(* the second query variable is unused in one-variable queries: it stays the reified variable *)
Definition firsts (r : option (list (term * term))) : option (list term) := option_map (map fst) r.
Definition is_list_bag (r : option (list (term * term))) (expected : list term) : bool :=
  match r with Some got => same_bag (map (fun p => (fst p, TEmpty)) got) (map (fun t => (t, TEmpty)) expected) | None => false end.

Fixpoint lists_upto (n : nat) (alphabet : list Z) : list (list Z) :=
  match n with
  | O => [[]]
  | S n' => [] :: flat_map (fun l => map (fun a => a :: l) alphabet) (lists_upto n' alphabet)
  end.
Definition scope3 := nodup (list_eq_dec Z.eq_dec) (lists_upto 3 [1; 2]%Z).
Definition scope4 := nodup (list_eq_dec Z.eq_dec) (lists_upto 4 [1; 2]%Z).

(* ---- append *)
Theorem C24_append_forward : forall l s, In l scope3 -> In s scope3 ->
  is_list_bag (answers [GCall rel_append [L l; L s; q0]]) [L (l ++ s)] = true.
Proof.
  assert (H : forallb (fun l => forallb (fun s => is_list_bag (answers [GCall rel_append [L l; L s; q0]]) [L (l ++ s)]) scope3) scope3 = true)
    by (vm_compute; reflexivity).
  intros l s Hl Hs. rewrite forallb_forall in H. specialize (H l Hl). rewrite forallb_forall in H. exact (H s Hs).
Qed.

Definition splits (ls : list Z) : list (term * term) :=
  map (fun k => (L (firstn k ls), L (skipn k ls))) (seq 0 (S (length ls))).
Theorem C24_append_backward : forall ls, In ls scope4 ->
  is_bag (answers [GCall rel_append [q0; q1; L ls]]) (splits ls) = true.
Proof.
  assert (H : forallb (fun ls => is_bag (answers [GCall rel_append [q0; q1; L ls]]) (splits ls)) scope4 = true)
    by (vm_compute; reflexivity).
  intros ls Hl. rewrite forallb_forall in H. exact (H ls Hl).
Qed.

(* ---- member: one answer per matching position; member1: one per distinct matching value *)
Theorem C24_member_enumerates : forall l, In l scope4 ->
  is_list_bag (answers [GCall rel_member [q0; L l]]) (map tnum l) = true.
Proof.
  assert (H : forallb (fun l => is_list_bag (answers [GCall rel_member [q0; L l]]) (map tnum l)) scope4 = true) by (vm_compute; reflexivity).
  intros l Hl. rewrite forallb_forall in H. exact (H l Hl).
Qed.
Theorem C24_member1_enumerates : forall l, In l scope4 ->
  is_list_bag (answers [GCall rel_member1 [q0; L l]]) (map tnum (nodup Z.eq_dec l)) = true.
Proof.
  assert (H : forallb (fun l => is_list_bag (answers [GCall rel_member1 [q0; L l]]) (map tnum (nodup Z.eq_dec l))) scope4 = true) by (vm_compute; reflexivity).
  intros l Hl. rewrite forallb_forall in H. exact (H l Hl).
Qed.
Theorem C24_member_ground : forall x l, In x [1; 2; 3]%Z -> In l scope4 ->
  option_map (@length _) (answers [GCall rel_member [tnum x; L l]]) = Some (count_occ Z.eq_dec l x).
Proof.
  assert (H : forallb (fun x => forallb (fun l =>
      match option_map (@length _) (answers [GCall rel_member [tnum x; L l]]) with
      | Some n => Nat.eqb n (count_occ Z.eq_dec l x) | None => false end) scope4) [1; 2; 3]%Z = true) by (vm_compute; reflexivity).
  intros x l Hx Hl. rewrite forallb_forall in H. specialize (H x Hx). rewrite forallb_forall in H. specialize (H l Hl).
  destruct (option_map _ _); [apply Nat.eqb_eq in H; congruence|discriminate].
Qed.

(* ---- rember removes the first occurrence; the list is unchanged when x does not occur *)
Fixpoint remove_first (x : Z) (l : list Z) : list Z :=
  match l with [] => [] | y :: r => if Z.eqb x y then r else y :: remove_first x r end.
Theorem C24_rember : forall x l, In x [1; 2; 3]%Z -> In l scope4 ->
  is_list_bag (answers [GCall rel_rember [tnum x; L l; q0]]) [L (remove_first x l)] = true.
Proof.
  assert (H : forallb (fun x => forallb (fun l => is_list_bag (answers [GCall rel_rember [tnum x; L l; q0]]) [L (remove_first x l)]) scope4) [1; 2; 3]%Z = true)
    by (vm_compute; reflexivity).
  intros x l Hx Hl. rewrite forallb_forall in H. specialize (H x Hx). rewrite forallb_forall in H. exact (H l Hl).
Qed.

(* ---- distinct holds exactly when the elements pairwise differ *)
Fixpoint nodupb (l : list Z) : bool :=
  match l with [] => true | x :: r => negb (existsb (Z.eqb x) r) && nodupb r end.
Theorem C24_distinct : forall l, In l (nodup (list_eq_dec Z.eq_dec) (lists_upto 4 [1; 2; 3]%Z)) ->
  option_map (@length _) (answers [GCall rel_distinct [L l]]) = Some (if nodupb l then 1 else 0).
Proof.
  assert (H : forallb (fun l => match option_map (@length _) (answers [GCall rel_distinct [L l]]) with
                                | Some n => Nat.eqb n (if nodupb l then 1 else 0) | None => false end)
                      (nodup (list_eq_dec Z.eq_dec) (lists_upto 4 [1; 2; 3]%Z)) = true) by (vm_compute; reflexivity).
  intros l Hl. rewrite forallb_forall in H. specialize (H l Hl).
  destruct (option_map _ _); [apply Nat.eqb_eq in H; congruence|discriminate].
Qed.

(* ---- cons / first / rest / empty *)
Theorem C24_cons_first_rest_empty : forall x l, In x [1; 2]%Z -> In l scope3 ->
  is_list_bag (answers [GCall rel_cons [tnum x; L l; q0]]) [L (x :: l)] = true /\
  is_bag (answers [GCall rel_cons [q0; q1; L (x :: l)]]) [(tnum x, L l)] = true /\
  is_list_bag (answers [GCall rel_first [L (x :: l); q0]]) [tnum x] = true /\
  is_list_bag (answers [GCall rel_rest [L (x :: l); q0]]) [L l] = true /\
  option_map (@length _) (answers [GCall rel_empty [L (x :: l)]]) = Some 0 /\
  option_map (@length _) (answers [GCall rel_first [L []; q0]]) = Some 0 /\
  option_map (@length _) (answers [GCall rel_empty [L []]]) = Some 1.
Proof.
  assert (H : forallb (fun x => forallb (fun l =>
      is_list_bag (answers [GCall rel_cons [tnum x; L l; q0]]) [L (x :: l)] &&
      is_bag (answers [GCall rel_cons [q0; q1; L (x :: l)]]) [(tnum x, L l)] &&
      is_list_bag (answers [GCall rel_first [L (x :: l); q0]]) [tnum x] &&
      is_list_bag (answers [GCall rel_rest [L (x :: l); q0]]) [L l] &&
      match option_map (@length _) (answers [GCall rel_empty [L (x :: l)]]) with Some 0 => true | _ => false end) scope3) [1; 2]%Z = true)
    by (vm_compute; reflexivity).
  intros x l Hx Hl. rewrite forallb_forall in H. specialize (H x Hx). rewrite forallb_forall in H. specialize (H l Hl).
  repeat (apply andb_true_iff in H as [H ?]). repeat split; auto.
  all: try (destruct (option_map _ _) as [[|]|]; auto; discriminate); try (vm_compute; reflexivity).
Qed.

(* ---- permute: NOT the permutation relation on the unchanged tree (known finding) *)
Theorem C24_permute_refuted :
  exists extra, In extra [L []; L [1]%Z; L [2]%Z] /\
  match answers [GCall rel_permute [L [1; 2]%Z; q0]] with
  | Some got => existsb (fun p => term_eqb (fst p) extra) got = true
  | None => False
  end.
Proof. exists (L []). split; [left; reflexivity|]. vm_compute. reflexivity. Qed.

(* UNBOUNDED soundness, all argument modes, arbitrary (also non-ground, partial) terms, any search
   kind, any fuel, any number of steps: whatever the engine delivers for append(a, b, c) on the
   translated definition satisfies, under every valuation that solves the answer's substitution,
   the inductive relation "c is a with b appended"; likewise member.  (Completeness - that every
   such triple is delivered - is what the bounded theorems above and the check cover.) *)
Theorem C24_append_sound : forall kk u n k st a b c s' rest u',
  next lib_defs kk u (start lib_defs n (CCall k rel_append [a; b; c]) st) = NAnswer s' rest u' ->
  forall th, sat th (st_smap s') -> AppendV (app th a) (app th b) (app th c).
Proof. exact append_sound. Qed.
Theorem C24_append_sound_lists : forall kk u n k st a b c s' rest u' th xs ys,
  next lib_defs kk u (start lib_defs n (CCall k rel_append [a; b; c]) st) = NAnswer s' rest u' ->
  sat th (st_smap s') -> app th a = list_term xs -> app th b = list_term ys -> app th c = list_term (xs ++ ys).
Proof. exact append_sound_lists. Qed.
Theorem C24_member_sound : forall kk u n k st x l s' rest u',
  next lib_defs kk u (start lib_defs n (CCall k rel_member [x; l]) st) = NAnswer s' rest u' ->
  forall th, sat th (st_smap s') -> MemberV (app th x) (app th l).
Proof. exact member_sound. Qed.
Theorem C24_member_sound_lists : forall x xs, MemberV x (list_term xs) -> In x xs.
Proof. exact MemberV_list. Qed.

(* UNBOUNDED COMPLETENESS of the six list relations on the translated definitions (first append and member), every mode, arbitrary terms:
   whenever a valuation th solves the state the call starts from (substitution, disequalities, domains,
   constraints) and the VALUES of the arguments under th are in the relation, the call delivers after
   finitely many steps an answer solved by a valuation th' that agrees with th on every variable that
   existed before the call - no solution of the relation is lost, whatever else the state holds.
   (emitsE: delivered within n steps, or an engine step ends in an error outcome first.)  With
   C24_append_sound / C24_member_sound: the solutions of the delivered answers are exactly the relation. *)
Theorem C24_append_complete : forall x y z, AppendV x y z ->
  forall st th a b c, MstG th st -> GoodS st -> stb st ->
  tb (st_nextv st) a -> tb (st_nextv st) b -> tb (st_nextv st) c ->
  app th a = x -> app th b = y -> app th c = z ->
  exists ans th' n, agree (st_nextv st) th th' /\ MstG th' ans /\
    emitsE (startq lib_defs) n (startq lib_defs (CCall BFS rel_append [a; b; c]) st) ans.
Proof. exact append_complete. Qed.
Theorem C24_member_complete : forall x l, MemberV x l ->
  forall st th a b, MstG th st -> GoodS st -> stb st ->
  tb (st_nextv st) a -> tb (st_nextv st) b -> app th a = x -> app th b = l ->
  exists ans th' n, agree (st_nextv st) th th' /\ MstG th' ans /\
    emitsE (startq lib_defs) n (startq lib_defs (CCall BFS rel_member [a; b]) st) ans.
Proof. exact member_complete. Qed.
(* ... and of the four relations that use disequality (the inductive relations are those of the soundness theorems below;
   permute against the relation as defined) *)
Theorem C24_member1_complete : forall x l, Member1V x l ->
  forall st th a b, MstG th st -> GoodS st -> stb st ->
  tb (st_nextv st) a -> tb (st_nextv st) b -> app th a = x -> app th b = l ->
  exists ans th' n, agree (st_nextv st) th th' /\ MstG th' ans /\
    emitsE (startq lib_defs) n (startq lib_defs (CCall BFS rel_member1 [a; b]) st) ans.
Proof. exact member1_complete. Qed.
Theorem C24_rember_complete : forall x l o, RemberV x l o ->
  forall st th a b c, MstG th st -> GoodS st -> stb st ->
  tb (st_nextv st) a -> tb (st_nextv st) b -> tb (st_nextv st) c -> app th a = x -> app th b = l -> app th c = o ->
  exists ans th' n, agree (st_nextv st) th th' /\ MstG th' ans /\
    emitsE (startq lib_defs) n (startq lib_defs (CCall BFS rel_rember [a; b; c]) st) ans.
Proof. exact rember_complete. Qed.
Theorem C24_distinct_complete : forall l, DistinctV l ->
  forall st th a, MstG th st -> GoodS st -> stb st -> tb (st_nextv st) a -> app th a = l ->
  exists ans th' n, agree (st_nextv st) th th' /\ MstG th' ans /\
    emitsE (startq lib_defs) n (startq lib_defs (CCall BFS rel_distinct [a]) st) ans.
Proof. exact distinct_complete. Qed.
Theorem C24_permute_complete : forall x y, PermuteV x y ->
  forall st th a b, MstG th st -> GoodS st -> stb st ->
  tb (st_nextv st) a -> tb (st_nextv st) b -> app th a = x -> app th b = y ->
  exists ans th' n, agree (st_nextv st) th th' /\ MstG th' ans /\
    emitsE (startq lib_defs) n (startq lib_defs (CCall BFS rel_permute [a; b]) st) ans.
Proof. exact permute_complete. Qed.
(* the general theorem they instantiate: any program built from ==, !=, domains, constraints, interleaving
   conjunction / disjunction, fresh, CALLS of recursively defined relations, closure { } blocks and for-loops (both elaborated when
   they are reached, at the counter of the state they meet), for any definitions and any
   step-indexed value-level reading RelV of the relations that unfolds to the reading of the elaborated
   body (at every counter): no solution is lost *)
Theorem C24_calls_complete : forall defs (RelV : nat -> nat -> list term -> Prop),
  (forall r vals, ~ RelV 0%nat r vals) ->
  (forall k r args th m, RelV (S k) r (map (app th) args) -> Forall (tb m) args ->
     exists d c nv th', find_def r defs = Some d /\
       elab defs efuel BFS (combine (d_params d) args) (GConj [d_body d]) m = (c, nv) /\
       agree m th th' /\ DenV defs RelV k th' c /\ flatV c) ->
  forall k g th st, DenV defs RelV k th g -> flatV g -> MstG th st -> GoodS st -> stb st -> gb (st_nextv st) g ->
  exists a th' n, agree (st_nextv st) th th' /\ MstG th' a /\ emitsE (startq defs) n (startq defs g st) a.
Proof. exact completeV_delivered. Qed.
(* read on lists: EVERY split of a list (of terms without variables) is covered by an answer of append(q0, q1, l),
   every element by an answer of member(q0, l) - for lists of any length *)
Theorem C24_append_all_splits : forall xs ys, Forall (tb 0) (xs ++ ys) ->
  exists ans th' n, MstG th' ans /\ th' 0%nat = list_term xs /\ th' 1%nat = list_term ys /\
    emitsE (startq lib_defs) n (startq lib_defs (CCall BFS rel_append [TVar 0 false; TVar 1 false; list_term (xs ++ ys)]) (empty_state 2)) ans.
Proof. exact append_all_splits. Qed.
Theorem C24_member_all_elements : forall x xs, In x xs -> Forall (tb 0) xs ->
  exists ans th' n, MstG th' ans /\ th' 0%nat = x /\
    emitsE (startq lib_defs) n (startq lib_defs (CCall BFS rel_member [TVar 0 false; list_term xs]) (empty_state 1)) ans.
Proof. exact member_all_elements. Qed.
(* non-vacuity of the for-loop reading: for x in [1, 2] { x != 3 } *)
Example C24_for_reading : DenV [] (fun _ _ _ => False) 1 (fun _ => tnum 0)
  (CEveryg BFS [] 5 [tnum 1; tnum 2] [[GDiseq (TVar 5 false) (tnum 3)]]).
Proof. exact everyg_reading. Qed.
(* non-vacuity of the closure reading *)
Example C24_closure_reading : DenV [] (fun _ _ _ => False) 1 (fun _ => tnum 1) (CClosure BFS [(0%nat, TVar 0 false)] [GEq (TVar 0 false) (tnum 1)]).
Proof. exact closure_reading. Qed.
(* non-vacuity: the initial state meets the hypotheses, with [1;2] ++ [3] = [1;2;3] *)
Example C24_append_complete_example :
  exists ans th' n, MstG th' ans /\
    emitsE (startq lib_defs) n (startq lib_defs (CCall BFS rel_append [list_term [tnum 1; tnum 2]; list_term [tnum 3]; TVar 0 false]) (empty_state 1)) ans /\
    th' 0%nat = list_term [tnum 1; tnum 2; tnum 3].
Proof.
  pose (th := fun _ : nat => list_term [tnum 1; tnum 2; tnum 3]).
  assert (M0 : MstG th (empty_state 1)) by (split; [intros x t []|]; split; [intros i c []|intros x d []]).
  assert (G0 : GoodS (empty_state 1)) by (split; [constructor|apply WFD_empty]).
  assert (B1 : tb 1 (list_term [tnum 1; tnum 2])) by (intros v []).
  assert (B2 : tb 1 (list_term [tnum 3])) by (intros v []).
  assert (B3 : tb 1 (TVar 0 false)) by (intros v [<-|[]]; constructor).
  destruct (C24_append_complete (list_term [tnum 1; tnum 2]) (list_term [tnum 3]) (list_term [tnum 1; tnum 2; tnum 3])
              (AV_cons _ _ _ _ (AV_cons _ _ _ _ (AV_nil _))) (empty_state 1) th
              (list_term [tnum 1; tnum 2]) (list_term [tnum 3]) (TVar 0 false) M0 G0 (stb_empty 1) B1 B2 B3 eq_refl eq_refl eq_refl)
    as [ans [th' [n [A [M E]]]]].
  exists ans, th', n. split; [exact M|]. split; [exact E|]. rewrite <- (A 0%nat); [reflexivity|constructor].
Qed.

Check C24_append_backward : forall ls, In ls scope4 -> is_bag (answers [GCall rel_append [q0; q1; L ls]]) (splits ls) = true.
(* UNBOUNDED soundness of the relations that use disequality, on the translated definitions: every valuation
   that solves a delivered answer - its substitution AND its stored disequalities - satisfies the
   inductive reading of the relation, for arbitrary terms in every argument position and every mode.
     RemberV x l o  : o is l without its first element equal to x (l itself when there is none)
     Member1V x l   : x occurs in l (reached at its first occurrence)
     DistinctV l    : the elements of l are pairwise different
     PermuteV a b   : the relation as defined (each element of a removed once from b if present;
                      not "is a permutation": the known finding above) *)
Theorem C24_rember_sound : forall kk u n k st x l o a rest u' th,
  next lib_defs kk u (start lib_defs n (CCall k rel_rember [x; l; o]) st) = NAnswer a rest u' -> Mst th a ->
  RemberV (app th x) (app th l) (app th o).
Proof. exact rember_sound. Qed.
Theorem C24_member1_sound : forall kk u n k st x l a rest u' th,
  next lib_defs kk u (start lib_defs n (CCall k rel_member1 [x; l]) st) = NAnswer a rest u' -> Mst th a ->
  Member1V (app th x) (app th l).
Proof. exact member1_sound. Qed.
Theorem C24_distinct_sound : forall kk u n k st l a rest u' th,
  next lib_defs kk u (start lib_defs n (CCall k rel_distinct [l]) st) = NAnswer a rest u' -> Mst th a ->
  DistinctV (app th l).
Proof. exact distinct_sound. Qed.
Theorem C24_permute_sound : forall kk u n k st x y a rest u' th,
  next lib_defs kk u (start lib_defs n (CCall k rel_permute [x; y]) st) = NAnswer a rest u' -> Mst th a ->
  PermuteV (app th x) (app th y).
Proof. exact permute_sound. Qed.
(* read on lists *)
Theorem C24_rember_lists : forall x l o, RemberV x (list_term l) o ->
  exists l', o = list_term l' /\ ((exists l1 l2, l = l1 ++ x :: l2 /\ ~ In x l1 /\ l' = l1 ++ l2) \/ (~ In x l /\ l' = l)).
Proof. exact RemberV_list. Qed.
Theorem C24_distinct_lists : forall xs, DistinctV (list_term xs) -> NoDup xs.
Proof. intros xs H. exact (DistinctV_nodup (length xs) xs (le_n _) H). Qed.
Theorem C24_member1_lists : forall x xs, Member1V x (list_term xs) -> In x xs.
Proof. exact Member1V_list. Qed.

Print Assumptions C24_append_forward.
Print Assumptions C24_append_backward.
Print Assumptions C24_member_enumerates.
Print Assumptions C24_member1_enumerates.
Print Assumptions C24_member_ground.
Print Assumptions C24_rember.
Print Assumptions C24_distinct.
Print Assumptions C24_cons_first_rest_empty.
Print Assumptions C24_permute_refuted.
Print Assumptions C24_append_sound.
Print Assumptions C24_append_sound_lists.
Print Assumptions C24_member_sound.
Print Assumptions C24_member_sound_lists.
Print Assumptions C24_rember_sound.
Print Assumptions C24_member1_sound.
Print Assumptions C24_distinct_sound.
Print Assumptions C24_permute_sound.
Print Assumptions C24_rember_lists.
Print Assumptions C24_distinct_lists.
Print Assumptions C24_member1_lists.
Print Assumptions C24_append_complete.
Print Assumptions C24_member_complete.
Print Assumptions C24_calls_complete.
Print Assumptions C24_member1_complete.
Print Assumptions C24_rember_complete.
Print Assumptions C24_distinct_complete.
Print Assumptions C24_permute_complete.
Print Assumptions C24_append_all_splits.
Print Assumptions C24_member_all_elements.
