(* C21 - LTerm equality, hashing and list operations are consistent.
   [erase] forgets the name of a variable: LTerm == compares variables by identity only. *)
From Coq Require Import List ZArith Bool Arith.
From PV Require Import Model.Term Model.State Model.LTermOps Proofs.LTermProofs.
Import ListNotations.

Theorem C21_eq_structural : forall a b, term_eqb a b = true <-> erase a = erase b.
Proof. exact (proj1 term_eqb_spec). Qed.
Theorem C21_eq_refl : forall a, term_eqb a a = true.
Proof. exact term_eqb_refl. Qed.
Theorem C21_eq_sym : forall a b, term_eqb a b = term_eqb b a.
Proof. exact term_eqb_sym. Qed.
Theorem C21_eq_trans : forall a b c, term_eqb a b = true -> term_eqb b c = true -> term_eqb a c = true.
Proof. exact term_eqb_trans. Qed.
Theorem C21_hash : forall a b, term_eqb a b = true -> hash_tokens a = hash_tokens b.
Proof. exact hash_respects_eq. Qed.

Theorem C21_iter_from_vec : forall l, lt_iter (lt_collect l) = l.
Proof. exact iter_from_vec. Qed.
Theorem C21_iter_improper : forall l last, lt_is_list last = false -> lt_iter (improper_term l last) = l ++ [last].
Proof. exact iter_improper. Qed.
Theorem C21_collect_iter : forall t, lt_is_list t = true -> lt_is_improper t = false -> lt_collect (lt_iter t) = t.
Proof. exact collect_iter. Qed.
Theorem C21_extend : forall t c, lt_is_list t = true -> lt_is_improper t = false ->
  lt_extend t c = Some (lt_collect (lt_iter t ++ c)).
Proof. exact extend_spec. Qed.
Theorem C21_index : forall t n, lt_index t n = nth_error (lt_iter t) n.
Proof. exact index_spec. Qed.
Theorem C21_contains : forall t v, lt_contains t v = true <-> exists u, In u (lt_iter t) /\ term_eqb u v = true.
Proof. exact contains_spec. Qed.
Theorem C21_head_tail : forall t h tl, lt_head t = Some h /\ lt_tail t = Some tl <-> t = TCons h tl.
Proof. exact head_tail_spec. Qed.
Theorem C21_is_improper : forall t, lt_is_improper t = true <->
  exists l last, l <> [] /\ t = improper_term l last /\ lt_is_list last = false.
Proof. exact is_improper_spec. Qed.

(* the pinned iter_mut stopped before the improper tail *)
Example C21_iter_mut_pinned_refuted :
  lt_iter_mut_pinned (improper_term [tnum 1; tnum 2] (TVar 0 false)) = [tnum 1; tnum 2] /\
  lt_iter (improper_term [tnum 1; tnum 2] (TVar 0 false)) = [tnum 1; tnum 2; TVar 0 false].
Proof. vm_compute. split; reflexivity. Qed.

Check C21_eq_structural : forall a b, term_eqb a b = true <-> erase a = erase b.
Print Assumptions C21_eq_structural.
Print Assumptions C21_eq_refl.
Print Assumptions C21_eq_sym.
Print Assumptions C21_eq_trans.
Print Assumptions C21_hash.
Print Assumptions C21_iter_from_vec.
Print Assumptions C21_iter_improper.
Print Assumptions C21_collect_iter.
Print Assumptions C21_extend.
Print Assumptions C21_index.
Print Assumptions C21_contains.
Print Assumptions C21_head_tail.
Print Assumptions C21_is_improper.
