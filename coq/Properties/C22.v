(* C22 - User extension hooks observe a consistent constraint lifecycle.
   The user state is modelled by the state's own log of hook calls.
   bal st : #with_constraint = #take_constraint + (number of constraints in the store). *)
From Coq Require Import List ZArith Bool Arith.
From PV Require Import Model.Term Model.Subst Model.Unify Model.FD Model.State Proofs.UnifyProofs Proofs.DiseqProofs Proofs.HookProofs Model.Engine Proofs.StreamInv Proofs.HookStream.
Import ListNotations.

Theorem C22_initial : forall n, bal (empty_state n).
Proof. exact bal_empty. Qed.

(* every state operation preserves the balance, whatever constraints are re-run, dropped as
   redundant, replaced or re-added along the way, for every fuel *)
Theorem C22_unify : forall st u v, bal st -> sres_bal (state_unify st u v).
Proof. exact state_unify_bal. Qed.
Theorem C22_disunify : forall st u v, bal st -> sres_bal (state_disunify st u v).
Proof. exact state_disunify_bal. Qed.
Theorem C22_post_constraint : forall c st, bal st -> sres_bal (post_constraint c st).
Proof. exact post_constraint_bal. Qed.
Theorem C22_post_domain : forall x d st, bal st -> sres_bal (post_domain x d st).
Proof. exact post_domain_bal. Qed.
Theorem C22_run_constraints : forall f st, bal st -> sres_bal (run_constraints f st).
Proof. exact run_constraints_bal. Qed.
Theorem C22_with_constraint : forall st id c, bal st -> bal (with_constraint_id st id c).
Proof. exact bal_with_constraint_id. Qed.
Theorem C22_take_constraint : forall st id, bal st -> bal (fst (take_constraint st id)).
Proof. exact bal_take_constraint. Qed.

(* a constraint dropped as redundant counts as removed *)
Theorem C22_dropped_counted : forall store id c,
  let '(store', dropped) := push_and_normalize store id c in
  length store' + length dropped = S (length store).
Proof. exact push_and_normalize_count. Qed.

(* process_extension: one event per successful unification, with exactly its new bindings *)
Theorem C22_extension : forall st u v st',
  state_unify st u v = SOk st' ->
  exists s' ext rest, unify dfuel (st_smap st) [] u v = UOk s' ext /\ s' = ext ++ st_smap st /\
                      st_ulog st' = UExt ext :: rest.
Proof. exact state_unify_ext. Qed.

(* ... and therefore in every state the search ever holds: every state inside every stream started
   from a balanced state (pending pauses, delayed tails, heads) is balanced, for all goals,
   definitions and fuel, and so is every answer Solver::next delivers, however many steps it takes *)
Theorem C22_every_stream_state : forall defs n g st, bal st -> allS bal (start defs n g st).
Proof. exact start_bal. Qed.
Theorem C22_every_answer : forall defs k used s a rest used',
  allS bal s -> next defs k used s = NAnswer a rest used' -> bal a /\ allS bal rest.
Proof. exact next_bal. Qed.
Theorem C22_query : forall defs n g nv k a rest used',
  next defs k 0 (start defs n g (empty_state nv)) = NAnswer a rest used' -> bal a.
Proof. intros defs n g nv k a rest used' H. eapply next_bal; [|exact H]. apply start_bal, bal_empty. Qed.

Check C22_unify : forall st u v, bal st -> sres_bal (state_unify st u v).
Print Assumptions C22_initial.
Print Assumptions C22_unify.
Print Assumptions C22_disunify.
Print Assumptions C22_post_constraint.
Print Assumptions C22_post_domain.
Print Assumptions C22_run_constraints.
Print Assumptions C22_with_constraint.
Print Assumptions C22_take_constraint.
Print Assumptions C22_dropped_counted.
Print Assumptions C22_extension.
Print Assumptions C22_every_stream_state.
Print Assumptions C22_every_answer.
Print Assumptions C22_query.
