(* C01 - Unification computes a most general unifier, with occurs check.
   th : nat -> term is *any* substitution (not only ground), [app th t] applies it once,
   [sat th s] says th solves every binding of the substitution s.
   unify f s ext u v : UOk s' ext' | UFail | UOOF (fuel f exhausted; a separate outcome). *)
From Coq Require Import List ZArith Bool Arith.
From PV Require Import Model.Term Model.Subst Model.Unify Proofs.UnifyProofs.
Import ListNotations.

(* success: the solutions of the answer are exactly the unifiers of u and v that are consistent
   with the prior bindings -- soundness (->) and "any other unifier is an instance" (<-) *)
Theorem C01_success : forall f s ext u v s' ext',
  unify f s ext u v = UOk s' ext' ->
  forall th, sat th s' <-> (sat th s /\ app th u = app th v).
Proof. exact unify_sat. Qed.

(* both sides resolve identically under every solution of the answer *)
Corollary C01_sides_identical : forall f s ext u v s' ext' th,
  unify f s ext u v = UOk s' ext' -> sat th s' -> app th u = app th v.
Proof. intros f s ext u v s' ext' th E H. apply (proj1 (unify_sat f s ext u v s' ext' E th) H). Qed.

(* most general: a unifier th consistent with the prior bindings factors through the answer:
   resolving any term with the answer first does not change what th makes of it *)
Theorem C01_most_general : forall f s ext u v s' ext' th,
  unify f s ext u v = UOk s' ext' -> sat th s -> app th u = app th v ->
  forall t, app th (wk s' t) = app th t.
Proof. exact unify_most_general. Qed.

(* the answer extends the prior substitution by exactly the reported extension *)
Theorem C01_extends : forall f s ext u v s' ext',
  unify f s ext u v = UOk s' ext' -> exists new, s' = new ++ s /\ ext' = new ++ ext.
Proof. exact unify_extends. Qed.

(* failure: no substitution consistent with the prior bindings unifies u and v.  This covers
   constructor, literal, tag and arity clashes and the occurs check: a variable cannot be made
   equal to a term it occurs inside (size argument), so refusing such a binding loses nothing *)
Theorem C01_failure : forall f s ext u v,
  unify f s ext u v = UFail -> forall th, sat th s -> app th u <> app th v.
Proof. exact unify_complete. Qed.

(* the occurs check: a variable is never bound to a term in which it occurs *)
Theorem C01_occurs_check : forall f s x t th,
  occurs f s x t = Some true -> sat th s -> is_var t = false -> tsize (th x) < tsize (app th t).
Proof. exact occurs_size_strict. Qed.

(* non-vacuity, over the full term algebra: lists, improper lists, compounds, prior bindings *)
Example C01_example_ok :
  unify dfuel [(0, TVar 1 false)] [] (TComp 7 (TMore (TVar 0 false) (TMore (tnum 2) TNil)))
                                     (TComp 7 (TMore (tnum 1) (TMore (TVar 2 false) TNil)))
  = UOk [(2, tnum 2); (1, tnum 1); (0, TVar 1 false)] [(2, tnum 2); (1, tnum 1)].
Proof. vm_compute. reflexivity. Qed.
Example C01_example_occurs :
  unify dfuel [(0, TVar 1 false)] [] (TVar 0 false) (TCons (tnum 1) (TVar 0 false)) = UFail /\
  unify dfuel [] [] (TComp 7 (TMore (TVar 0 false) TNil)) (TCons (TVar 0 false) TEmpty) = UFail /\
  unify dfuel [] [] (TComp 7 (TMore (TVar 0 false) TNil)) (TComp 7 (TMore (tnum 1) (TMore (tnum 2) TNil))) = UFail.
Proof. vm_compute. repeat split; reflexivity. Qed.

Check C01_success : forall f s ext u v s' ext', unify f s ext u v = UOk s' ext' ->
  forall th, sat th s' <-> (sat th s /\ app th u = app th v).
Check C01_failure : forall f s ext u v, unify f s ext u v = UFail -> forall th, sat th s -> app th u <> app th v.
Print Assumptions C01_success.
Print Assumptions C01_sides_identical.
Print Assumptions C01_most_general.
Print Assumptions C01_extends.
Print Assumptions C01_failure.
Print Assumptions C01_occurs_check.
