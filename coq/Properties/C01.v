(* C01 - Unification computes a most general unifier, with occurs check.
   th : nat -> term is *any* substitution (not only ground), [app th t] applies it once,
   [sat th s] says th solves every binding of the substitution s.
   unify f s ext u v : UOk s' ext' | UFail | UOOF (fuel f exhausted; a separate outcome). *)
From Coq Require Import List ZArith Bool Arith.
From PV Require Import Model.Term Model.Subst Model.Unify Model.FD Model.State Model.Engine Proofs.UnifyProofs
  Proofs.KeyStream Proofs.Acyc Proofs.BodyInv Proofs.AcycState Proofs.ScopeElab Proofs.ScopeState Proofs.ScopeReify.
Import ListNotations.

(* success: the solutions of the answer are exactly the unifiers of u and v that are consistent
   with the prior bindings -- soundness (->) and "any other unifier is an instance" (<-) *)
Theorem C01_success : forall f s ext u v s' ext',
  unify f s ext u v = UOk s' ext' ->
  forall th, sat th s' <-> (sat th s /\ app th u = app th v).
Proof. exact unify_sat. Qed.

(* both sides resolve identically under every solution of the answer *)
Corollary C01_sides_identical : forall f s ext u v s' ext' th,
  unify f s ext u v = UOk s' ext' -> sat th s' -> app th u = app th v.
Proof. intros f s ext u v s' ext' th E H. apply (proj1 (unify_sat f s ext u v s' ext' E th) H). Qed.

(* most general: a unifier th consistent with the prior bindings factors through the answer:
   resolving any term with the answer first does not change what th makes of it *)
Theorem C01_most_general : forall f s ext u v s' ext' th,
  unify f s ext u v = UOk s' ext' -> sat th s -> app th u = app th v ->
  forall t, app th (wk s' t) = app th t.
Proof. exact unify_most_general. Qed.

(* the answer extends the prior substitution by exactly the reported extension *)
Theorem C01_extends : forall f s ext u v s' ext',
  unify f s ext u v = UOk s' ext' -> exists new, s' = new ++ s /\ ext' = new ++ ext.
Proof. exact unify_extends. Qed.

(* failure: no substitution consistent with the prior bindings unifies u and v.  This covers
   constructor, literal, tag and arity clashes and the occurs check: a variable cannot be made
   equal to a term it occurs inside (size argument), so refusing such a binding loses nothing *)
Theorem C01_failure : forall f s ext u v,
  unify f s ext u v = UFail -> forall th, sat th s -> app th u <> app th v.
Proof. exact unify_complete. Qed.

(* the occurs check: a variable is never bound to a term in which it occurs *)
Theorem C01_occurs_check : forall f s x t th,
  occurs f s x t = Some true -> sat th s -> is_var t = false -> tsize (th x) < tsize (app th t).
Proof. exact occurs_size_strict. Qed.

(* ---------------------------------------------------------------- finite unifier, idempotent mgu, no cycles *)
(* acyc s : s was built by binding one variable at a time, each unbound at that moment, to a walked
   term that does not contain it under the older bindings.  solve s applies the bindings oldest
   first; its values are finite trees by construction (terms are an inductive type). *)

(* success from an acyclic substitution: the answer is acyclic again; solve s' is a finite-tree
   unifier of u and v that solves the prior bindings (so success implies that a finite unifier
   exists); it is idempotent; and every unifier consistent with the prior bindings is an instance
   of it (th' = th' o solve s') *)
Theorem C01_idempotent_mgu : forall f s ext u v s' ext',
  acyc s -> unify f s ext u v = UOk s' ext' ->
  let th := solve s' in
  acyc s' /\ sat th s' /\ sat th s /\ app th u = app th v /\
  (forall x, app th (th x) = th x) /\
  (forall th', sat th' s -> app th' u = app th' v -> forall t, app th' (app th t) = app th' t).
Proof. exact unify_idempotent_mgu. Qed.

(* the walk loop terminates: in an acyclic substitution wk ends on an unbound variable or a
   non-variable for every term (the fuel |s|+1 of the model's walk is adequate), so unify never
   reports "out of fuel" for a walk *)
Theorem C01_walk_terminates : forall s t, acyc s -> final s (wk s t) = true.
Proof. intros s t A. apply wk_final, A. Qed.

(* no cyclic term, anywhere, ever: every state inside every stream of every goal the front end can
   elaborate (no reification step inside), started from an acyclic state, has an acyclic
   substitution; so has every answer such a stream delivers - for all programs, relation
   definitions, search strategies and fuel.  This covers every binding any operation makes:
   unification, the bindings CLP(FD) makes when a domain becomes a single value, and CLP(Z). *)
Theorem C01_acyclic_everywhere : forall defs n g st,
  acycS st -> body g -> pbS acycS (start defs n g st).
Proof. exact start_acyc. Qed.
Theorem C01_acyclic_answers : forall defs k used s a rest used',
  pbS acycS s -> next defs k used s = NAnswer a rest used' -> acycS a /\ pbS acycS rest.
Proof. exact next_acyc. Qed.
Theorem C01_acyclic_initial : forall n, acycS (empty_state n).
Proof. exact empty_acyc. Qed.
(* the four state operations individually *)
Theorem C01_acyclic_ops : forall st,
  acycS st ->
  (forall u v, sresPb acycS (state_unify st u v)) /\ (forall u v, sresPb acycS (state_disunify st u v)) /\
  (forall x d, sresPb acycS (post_domain x d st)) /\ (forall c, sresPb acycS (post_constraint c st)).
Proof.
  intros st A. repeat split; intros.
  - apply state_unify_acyc, A.
  - apply state_disunify_acyc, A.
  - apply post_domain_acyc, A.
  - apply post_constraint_acyc, A.
Qed.
(* the reification step keeps the substitution acyclic too (its any-variables are drawn from the
   counter, above every variable of a scoped state): the reified answer contains no cyclic term *)
Theorem C01_reify_acyclic : forall f s n t s' n',
  acyc s -> smapb n s -> tb n t -> reify_s f s n t = Some (s', n') -> acyc s'.
Proof. intros f s n t s' n' A Hs Ht H. exact (proj1 (proj1 (reify_scope f) s n t s' n' A Hs Ht H)). Qed.
Example C01_acyc_example : acyc [(1, TCons (TVar 2 false) TEmpty); (0, TVar 1 false)].
Proof. exact acyc_example. Qed.

(* non-vacuity, over the full term algebra: lists, improper lists, compounds, prior bindings *)
Example C01_example_ok :
  unify dfuel [(0, TVar 1 false)] [] (TComp 7 (TMore (TVar 0 false) (TMore (tnum 2) TNil)))
                                     (TComp 7 (TMore (tnum 1) (TMore (TVar 2 false) TNil)))
  = UOk [(2, tnum 2); (1, tnum 1); (0, TVar 1 false)] [(2, tnum 2); (1, tnum 1)].
Proof. vm_compute. reflexivity. Qed.
Example C01_example_occurs :
  unify dfuel [(0, TVar 1 false)] [] (TVar 0 false) (TCons (tnum 1) (TVar 0 false)) = UFail /\
  unify dfuel [] [] (TComp 7 (TMore (TVar 0 false) TNil)) (TCons (TVar 0 false) TEmpty) = UFail /\
  unify dfuel [] [] (TComp 7 (TMore (TVar 0 false) TNil)) (TComp 7 (TMore (tnum 1) (TMore (tnum 2) TNil))) = UFail.
Proof. vm_compute. repeat split; reflexivity. Qed.

Check C01_success : forall f s ext u v s' ext', unify f s ext u v = UOk s' ext' ->
  forall th, sat th s' <-> (sat th s /\ app th u = app th v).
Check C01_failure : forall f s ext u v, unify f s ext u v = UFail -> forall th, sat th s -> app th u <> app th v.
Print Assumptions C01_success.
Print Assumptions C01_sides_identical.
Print Assumptions C01_most_general.
Print Assumptions C01_extends.
Print Assumptions C01_failure.
Print Assumptions C01_occurs_check.
Print Assumptions C01_idempotent_mgu.
Print Assumptions C01_walk_terminates.
Print Assumptions C01_acyclic_everywhere.
Print Assumptions C01_acyclic_answers.
Print Assumptions C01_acyclic_initial.
Print Assumptions C01_acyclic_ops.
Print Assumptions C01_reify_acyclic.
