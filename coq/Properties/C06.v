(* C06 - Interleaving search loses no answers and invents none.
   ansS admits, at interleaving nodes, exactly the permutations of the combined answers; inS is
   answer membership and is meaningful for infinite streams too. *)
From Coq Require Import List Permutation ZArith.
From PV Require Import Model.Term Model.Subst Model.State Model.Engine Spec.StreamSem
  Proofs.StreamProofs Proofs.EngineProofs Proofs.SemProofs Proofs.MonoProofs Proofs.PureElab Proofs.FairProofs Gen.RelDefs.
Import ListNotations.

(* finite search: what the engine delivers until the stream is exhausted is admissible *)
Theorem C06_finite : forall defs n s ys,
  runs (startq defs) n s ys SEmpty -> ansS (startq defs) s ys.
Proof. intros defs. exact (runs_finished (startq defs) (startq_succeed defs)). Qed.

(* interleaving disjunction: a permutation of the clauses' answers -- none lost, none invented *)
Theorem C06_disjunction : forall defs m n st gs zs,
  ansS (start defs (S m)) (start defs (S n) (CConde BFS gs) st) zs ->
  exists yss, Forall2 (fun c ys => ansS (start defs (S m)) (start defs n c st) ys) gs yss /\
              Permutation zs (concat yss).
Proof. intros defs m n st gs zs. rewrite start_conde. exact (conde_bfs_ans defs m n st gs zs). Qed.

(* interleaving conjunction: a permutation of the second goal's answers over the first goal's answers *)
Theorem C06_conjunction : forall defs m n g1 g2 st zs,
  is_fail g2 = false ->
  ansS (start defs (S m)) (start defs (S n) (CConj BFS g1 g2) st) zs ->
  exists xs yss, ansS (start defs (S m)) (start defs (S m) g1 st) xs /\
                 ansB (start defs (S m)) g2 xs yss /\ Permutation zs (concat yss).
Proof. exact conj_bfs_ans. Qed.

(* infinite or finite: every delivered answer is an answer of the stream ... *)
Theorem C06_sound : forall defs n s ys s' a,
  runs (startq defs) n s ys s' -> In a ys -> inS (startq defs) s a.
Proof. intros defs. exact (runs_in (startq defs) (startq_succeed defs)). Qed.

(* ... where an answer of a disjunction is an answer of one clause started in the same state, and
   an answer of a conjunction is an answer of the second goal started in an answer of the first *)
Theorem C06_sound_disjunction : forall defs m k n st gs a,
  inS (start defs (S m)) (start defs (S n) (CConde k gs) st) a ->
  exists c, In c gs /\ inS (start defs (S m)) (start defs n c st) a.
Proof. intros defs m k n st gs a. rewrite start_conde. exact (conde_in defs m k n st gs a). Qed.

Theorem C06_sound_conjunction : forall defs m n k g1 g2 st a,
  inS (start defs (S m)) (start defs (S n) (CConj k g1 g2) st) a ->
  exists b, inS (start defs (S m)) (start defs (S m) g1 st) b /\ inS (start defs (S m)) (start defs (S m) g2 b) a.
Proof. exact conj_in. Qed.

(* non-vacuity: conde { member(q, [1, 2]), member(q, [3]) } delivers 1, 3, 2 and ends *)
Definition C06_example_query :=
  query_goal lib_defs 1 [100]
    [GCond [[GCall rel_member [TVar 100 false; list_term [tnum 1; tnum 2]]];
            [GCall rel_member [TVar 100 false; list_term [tnum 3]]]]].
Example C06_example :
  option_map (map (fun st => walk_star dfuel (st_smap st) (TVar 0 false)))
    (drain lib_defs 400 (start lib_defs sfuel (fst C06_example_query) (snd C06_example_query)))
  = Some [Some (tnum 1); Some (tnum 3); Some (tnum 2)].
Proof. vm_compute. reflexivity. Qed.

(* "invents none", declaratively: whatever the engine delivers - interleaving or depth-first, any
   fuel, after any number of steps - is an answer of the goal in the big-step semantics Sem
   (conjunction = composition, disjunction = union, calls = their constructed bodies), which knows
   nothing of streams or scheduling; and its substitution extends the one the goal started from *)
Theorem C06_sound_declarative : forall defs k u n g st a rest u',
  next defs k u (start defs n g st) = NAnswer a rest u' -> Sem defs g st a.
Proof. exact next_sound_goal. Qed.
Theorem C06_answers_extend : forall defs g st a, Sem defs g st a -> exists new, st_smap a = new ++ st_smap st.
Proof. exact Sem_ext. Qed.

Check C06_disjunction : forall defs m n st gs zs,
  ansS (start defs (S m)) (start defs (S n) (CConde BFS gs) st) zs ->
  exists yss, Forall2 (fun c ys => ansS (start defs (S m)) (start defs n c st) ys) gs yss /\ Permutation zs (concat yss).
Check C06_sound : forall defs n s ys s' a, runs (startq defs) n s ys s' -> In a ys -> inS (startq defs) s a.
(* loses no answers: on the pure relational fragment (no committed choice, no dfs block; C07) every
   answer that is derivable in the declarative semantics is delivered after finitely many steps (or an
   engine step fails with an error outcome first).  With C06_sound_declarative: on that fragment the
   answers the engine delivers are exactly the derivable ones. *)
Theorem C06_complete_declarative : forall defs,
  (forall r d, find_def r defs = Some d -> psrc (d_body d)) ->
  forall g st a, Sem defs g st a -> pureg g -> exists n, emitsE (startq defs) n (startq defs g st) a.
Proof. exact fair_complete. Qed.

Print Assumptions C06_finite.
Print Assumptions C06_disjunction.
Print Assumptions C06_conjunction.
Print Assumptions C06_sound.
Print Assumptions C06_sound_disjunction.
Print Assumptions C06_sound_conjunction.
Print Assumptions C06_sound_declarative.
Print Assumptions C06_answers_extend.
Print Assumptions C06_complete_declarative.
