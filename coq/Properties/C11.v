(* C11 - project sees the current value of projected variables in every branch.
   In the model (as in the repaired code) the body of a project goal is built anew for every state
   that reaches it, with each projected name bound to the walk_star'ed value it has *in that
   state*; there is no shared cell, so no arrival can disturb another, and nothing can panic. *)
From Coq Require Import List ZArith Bool Arith.
From PV Require Import Model.Term Model.Subst Model.Unify Model.FD Model.State Model.Engine Proofs.EngineProofs Gen.RelDefs.
Import ListNotations.

Theorem C11_project : forall defs n k rho xs gs st rho',
  project_env st rho xs rho = Some rho' ->
  start defs (S n) (CProject k rho xs gs) st =
    (let '(c, nv) := elab defs efuel k rho' (GConj (map (fun g => GConj [g]) gs)) (st_nextv st) in
     start defs n c (set_nextv st nv)).
Proof. intros defs n k rho xs gs st rho' H. cbn [start]. rewrite H. reflexivity. Qed.

(* the value a projected name gets is its fully walked value in the arriving state *)
Theorem C11_current_value : forall st rho x t w rho0,
  env_lookup x rho = Some t -> walk_star dfuel (st_smap st) t = Some w ->
  project_env st rho [x] rho0 = Some ((x, w) :: rho0).
Proof. intros st rho x t w rho0 H1 H2. cbn [project_env]. rewrite H1, H2. reflexivity. Qed.

(* reaching the goal never panics: the only non-stream outcome of the projection itself is fuel exhaustion *)
Theorem C11_no_panic : forall defs n k rho xs gs st site,
  project_env st rho xs rho = None ->
  start defs (S n) (CProject k rho xs gs) st <> SErr false site.
Proof. intros defs n k rho xs gs st site H. cbn [start]. rewrite H. discriminate. Qed.

(* two states reach the same project goal (x = 2 or 3); each body sees its own value: q = 4, 9 *)
Definition first_answers (k : nat) (body : list goal) : list (option term) * run_end :=
  let '(g, st) := query_goal lib_defs 1 [100] body in
  let r := run_query lib_defs k 3000 1 (start lib_defs sfuel g st) [] in
  (map (fun a => nth_error (a_terms (fst a)) 0) (fst (fst r)), snd (fst r)).
Example C11_two_arrivals :
  first_answers 10 [GFresh [101] [GCall rel_member [TVar 101 false; list_term [tnum 2; tnum 3]];
                                  GProject [101] [GSq (TVar 101 false) (TVar 100 false)]]]
  = ([Some (tnum 4); Some (tnum 9)], EDone).
Proof. vm_compute. reflexivity. Qed.
(* without project the non-relational goal does not see the value *)
Example C11_without_project :
  first_answers 10 [GFresh [101] [GEq (TVar 101 false) (tnum 5); GSq (TVar 101 false) (TVar 100 false)]] = ([], EDone).
Proof. vm_compute. reflexivity. Qed.

Check C11_project : forall defs n k rho xs gs st rho',
  project_env st rho xs rho = Some rho' ->
  start defs (S n) (CProject k rho xs gs) st =
    (let '(c, nv) := elab defs efuel k rho' (GConj (map (fun g => GConj [g]) gs)) (st_nextv st) in
     start defs n c (set_nextv st nv)).
Print Assumptions C11_project.
Print Assumptions C11_current_value.
Print Assumptions C11_no_panic.
