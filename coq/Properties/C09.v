(* C09 - Query iteration is lazy, fused and deterministic (partial: see the level note).
   next = the model of Solver::next: it stops at the first answer, after exactly the engine steps
   needed; on an exhausted stream it reports the end again and again.  Determinism in the model
   is functionality of [next]; the iteration order of Rust's hash sets is not part of the model
   and is covered by repeated and cross-process runs in the check. *)
From Coq Require Import List Permutation ZArith Arith.
From PV Require Import Model.Term Model.Subst Model.State Model.Engine Spec.StreamSem
  Proofs.StreamProofs Proofs.EngineProofs Gen.RelDefs.
Import ListNotations.

(* fused: once the stream is exhausted, every further call reports the end and takes no step *)
Theorem C09_fused : forall defs k u, next defs k u SEmpty = NDone u.
Proof. intros defs k u. destruct k; reflexivity. Qed.

(* after an answer from a unit stream the rest is the exhausted stream *)
Theorem C09_unit_then_end : forall defs k u a, next defs k u (SUnit a) = NAnswer a SEmpty u.
Proof. intros defs k u a. destruct k; reflexivity. Qed.

(* lazy: an answer is returned by a finite sequence of micro-steps that delivers exactly that
   answer -- nothing beyond it is computed; the rest of the stream is handed back untouched *)
Theorem C09_lazy : forall defs k u s a rest u',
  next defs k u s = NAnswer a rest u' -> exists n, runs (startq defs) n s [a] rest.
Proof. exact next_answer. Qed.

Theorem C09_end : forall defs k u s u',
  next defs k u s = NDone u' -> exists n, runs (startq defs) n s [] SEmpty.
Proof. exact next_done. Qed.

(* taking the first n answers of an infinite stream terminates: loop { true } *)
Definition first_answers (k : nat) (body : list goal) : list (option term) * run_end :=
  let '(g, st) := query_goal lib_defs 1 [100] body in
  let r := run_query lib_defs k 2000 1 (start lib_defs sfuel g st) [] in
  (map (fun a => nth_error (a_terms (fst a)) 0) (fst (fst r)), snd (fst r)).
Example C09_take_three_of_infinitely_many :
  first_answers 3 [GCall rel_always []; GEq (TVar 100 false) (tnum 7)] = ([Some (tnum 7); Some (tnum 7); Some (tnum 7)], ELimit).
Proof. vm_compute. reflexivity. Qed.

Check C09_fused : forall defs k u, next defs k u SEmpty = NDone u.
Print Assumptions C09_fused.
Print Assumptions C09_unit_then_end.
Print Assumptions C09_lazy.
Print Assumptions C09_end.
