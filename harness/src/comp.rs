// A fixed family of #[compound] types for generated terms (C20).
use crate::prog::{E, T, U};
use proto_vulcan::prelude::*;
use proto_vulcan::{Downcast, Upcast};

#[compound]
struct Pair(LTerm, LTerm);

#[compound]
struct Wrap(LTerm);

#[compound]
struct Tri(LTerm, LTerm, LTerm);

#[compound]
struct Named {
    a: LTerm,
    b: LTerm,
}

pub fn build_comp(tag: &str, mut args: Vec<T>) -> T {
    let mut nx = || {
        if args.is_empty() {
            panic!("harness: missing compound argument")
        }
        args.remove(0)
    };
    match tag {
        "Pair" => {
            let p: Pair<U, E> = Downcast::into_sub(Pair_compound::_InnerPair(nx(), nx()));
            Upcast::into_super(p)
        }
        "Wrap" => {
            let p: Wrap<U, E> = Downcast::into_sub(Wrap_compound::_InnerWrap(nx()));
            Upcast::into_super(p)
        }
        "Tri" => {
            let p: Tri<U, E> = Downcast::into_sub(Tri_compound::_InnerTri(nx(), nx(), nx()));
            Upcast::into_super(p)
        }
        "Named" => {
            let a = nx();
            let b = nx();
            let p: Named<U, E> = Downcast::into_sub(Named_compound::_InnerNamed { a, b });
            Upcast::into_super(p)
        }
        _ => panic!("harness: unknown compound {}", tag),
    }
}
