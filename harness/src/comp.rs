// A fixed family of #[compound] types for generated terms (C20).
use crate::prog::{E, T, U};
use proto_vulcan::prelude::*;
use proto_vulcan::{Downcast, Upcast};

#[compound]
struct Pair(LTerm, LTerm);

#[compound]
struct Wrap(LTerm);

#[compound]
struct Tri(LTerm, LTerm, LTerm);

#[compound]
struct Named {
    a: LTerm,
    b: LTerm,
}

// Option-typed field: Some(..) and None are one compound type with one or no child
#[compound]
struct OptW(Option<Pair>, LTerm);

// the same with term fields on both sides of the Option-typed one
#[compound]
struct WOpt(LTerm, Option<Pair>, LTerm);

// named fields, one of them compound-typed (a link, a link-typed variable or []): a singly linked chain
#[compound]
struct NLink {
    label: LTerm,
    next: NLink,
}

// the same chain with unnamed fields
#[compound]
struct TLink(LTerm, TLink);

const NONE_MARK: &str = "__harness_none__";

fn opt_field(o: &T) -> Option<Pair<U, E>> {
    match o.as_ref() {
        proto_vulcan::lterm::LTermInner::Val(LValue::String(m)) if m == NONE_MARK => None,
        proto_vulcan::lterm::LTermInner::Compound(obj) => {
            let kids: Vec<T> = obj.children().map(|k| k.as_term().expect("harness: Opt payload").clone()).collect();
            if obj.type_name() != "Pair" || kids.len() != 2 {
                panic!("harness: Opt payload must be a Pair")
            }
            Some(Downcast::into_sub(Pair_compound::_InnerPair(kids[0].clone(), kids[1].clone())))
        }
        _ => panic!("harness: Opt payload must be a Pair"),
    }
}

pub fn build_comp(tag: &str, mut args: Vec<T>) -> T {
    let no_args = args.is_empty();
    let mut nx = || {
        if args.is_empty() {
            panic!("harness: missing compound argument")
        }
        args.remove(0)
    };
    match tag {
        "Pair" => {
            let p: Pair<U, E> = Downcast::into_sub(Pair_compound::_InnerPair(nx(), nx()));
            Upcast::into_super(p)
        }
        "Wrap" => {
            let p: Wrap<U, E> = Downcast::into_sub(Wrap_compound::_InnerWrap(nx()));
            Upcast::into_super(p)
        }
        "Tri" => {
            let p: Tri<U, E> = Downcast::into_sub(Tri_compound::_InnerTri(nx(), nx(), nx()));
            Upcast::into_super(p)
        }
        "Named" => {
            let a = nx();
            let b = nx();
            let p: Named<U, E> = Downcast::into_sub(Named_compound::_InnerNamed { a, b });
            Upcast::into_super(p)
        }
        // (a, b): the Rust pair tuple as a compound
        "Tup" => {
            let a = nx();
            let b = nx();
            Into::<T>::into((a, b))
        }
        // ["comp","Opt", Pair(..)] / ["comp","Opt"]: only meaningful as the first field of OptW
        "Opt" => {
            if no_args {
                LTerm::from(NONE_MARK)
            } else {
                nx()
            }
        }
        "OptW" => {
            let o = nx();
            let c = nx();
            let field: Option<Pair<U, E>> = match o.as_ref() {
                proto_vulcan::lterm::LTermInner::Val(LValue::String(m)) if m == NONE_MARK => None,
                proto_vulcan::lterm::LTermInner::Compound(obj) => {
                    let kids: Vec<T> = obj.children().map(|k| k.as_term().expect("harness: Opt payload").clone()).collect();
                    if obj.type_name() != "Pair" || kids.len() != 2 {
                        panic!("harness: Opt payload must be a Pair")
                    }
                    Some(Downcast::into_sub(Pair_compound::_InnerPair(kids[0].clone(), kids[1].clone())))
                }
                _ => panic!("harness: Opt payload must be a Pair"),
            };
            let p: OptW<U, E> = Downcast::into_sub(OptW_compound::_InnerOptW(field, c));
            Upcast::into_super(p)
        }
        "NLink" => {
            let a = nx();
            let n = nx();
            // any term may sit in the typed position (the typed wrapper is a view of a term)
            let p: NLink<U, E> = Downcast::into_sub(NLink_compound::_InnerNLink { label: a, next: NLink { inner: n } });
            Upcast::into_super(p)
        }
        "TLink" => {
            let a = nx();
            let n = nx();
            let p: TLink<U, E> = Downcast::into_sub(TLink_compound::_InnerTLink(a, TLink { inner: n }));
            Upcast::into_super(p)
        }
        "WOpt" => {
            let a = nx();
            let o = nx();
            let c = nx();
            let p: WOpt<U, E> = Downcast::into_sub(WOpt_compound::_InnerWOpt(a, opt_field(&o), c));
            Upcast::into_super(p)
        }
        _ => panic!("harness: unknown compound {}", tag),
    }
}
