// C18: every public FiniteDomain operation, driven through the public API.
use crate::sexp::Sexp;
use proto_vulcan::state::FiniteDomain;

fn parse_fd(e: &Sexp) -> FiniteDomain {
    let l = e.list();
    match l[0].atom() {
        "i" => FiniteDomain::from(l[1].int()..=l[2].int()),
        "v" => FiniteDomain::from(l[1..].iter().map(|x| x.int()).collect::<Vec<isize>>()),
        "s" => { let v = l[1..].iter().map(|x| x.int()).collect::<Vec<isize>>(); FiniteDomain::from(&v[..]) }
        "n" => FiniteDomain::from(l[1].int()),
        _ => panic!("harness: bad fd"),
    }
}

fn parse_pred(e: &Sexp) -> Box<dyn FnMut(&isize) -> bool> {
    let l = e.list();
    match l[0].atom() {
        "gt" => { let c = l[1].int(); Box::new(move |x| c < *x) }
        "ge" => { let c = l[1].int(); Box::new(move |x| c <= *x) }
        "lt" => { let c = l[1].int(); Box::new(move |x| *x < c) }
        "le" => { let c = l[1].int(); Box::new(move |x| *x <= c) }
        "eq" => { let c = l[1].int(); Box::new(move |x| *x == c) }
        "never" => Box::new(|_| false),
        "always" => Box::new(|_| true),
        _ => panic!("harness: bad pred"),
    }
}

fn show_list<I: Iterator<Item = isize>>(it: I) -> String {
    let v: Vec<String> = it.map(|x| x.to_string()).collect();
    format!("[{}]", v.join(" "))
}

fn show_fdopt(d: Option<FiniteDomain>) -> String {
    match d {
        None => "none".to_string(),
        Some(FiniteDomain::Interval(r)) if (*r.end() as i128) - (*r.start() as i128) > 100 => {
            format!("{{{}..{}}}", r.start(), r.end())
        }
        Some(d) => show_list(d.iter()),
    }
}

pub fn run(args: &[Sexp]) -> String {
    let op = args[0].atom();
    match op {
        "iter" => show_list(parse_fd(&args[1]).iter()),
        "iter_rev" => show_list(parse_fd(&args[1]).iter().rev()),
        // the consuming iterator: forwards, backwards, and alternately from both ends
        "into_iter" => show_list(parse_fd(&args[1]).into_iter()),
        "into_rev" => show_list(parse_fd(&args[1]).into_iter().rev()),
        "into_alt" => {
            let mut it = parse_fd(&args[1]).into_iter();
            let mut out: Vec<isize> = vec![];
            let mut front = true;
            loop {
                let x = if front { it.next() } else { it.next_back() };
                match x {
                    Some(v) => out.push(v),
                    None => break,
                }
                front = !front;
            }
            show_list(out.into_iter())
        }
        "min" => parse_fd(&args[1]).min().to_string(),
        "max" => parse_fd(&args[1]).max().to_string(),
        "is_singleton" => parse_fd(&args[1]).is_singleton().to_string(),
        "singleton_value" => match parse_fd(&args[1]).singleton_value() {
            None => "none".to_string(),
            Some(x) => x.to_string(),
        },
        "contains" => parse_fd(&args[1]).contains(args[2].int()).to_string(),
        "copy_before" => show_fdopt(parse_fd(&args[2]).copy_before(parse_pred(&args[1]))),
        "drop_before" => show_fdopt(parse_fd(&args[2]).drop_before(parse_pred(&args[1]))),
        "intersect" => show_fdopt(parse_fd(&args[1]).intersect(parse_fd(&args[2]))),
        "diff" => show_fdopt(parse_fd(&args[1]).diff(parse_fd(&args[2]))),
        "is_disjoint" => parse_fd(&args[1]).is_disjoint(parse_fd(&args[2])).to_string(),
        "eq" => (parse_fd(&args[1]) == parse_fd(&args[2])).to_string(),
        _ => panic!("harness: bad fd op"),
    }
}
