// C01 / C20 / C21: direct unification through State::unify, and the LTerm API.
use crate::prog::{build_term, Env, HUser, E, T, U};
use crate::sexp::Sexp;
use proto_vulcan::lterm::{LTerm, LTermInner};
use proto_vulcan::lvalue::LValue;
use proto_vulcan::state::State;

fn show_named(t: &T, out: &mut String) {
    match t.as_ref() {
        LTermInner::Val(LValue::Number(n)) => out.push_str(&n.to_string()),
        LTermInner::Val(LValue::Bool(b)) => out.push_str(if *b { "#t" } else { "#f" }),
        LTermInner::Val(LValue::Char(c)) => out.push_str(&format!("'{}", *c as u32)),
        LTermInner::Val(LValue::String(s)) => out.push_str(&format!("\"{}\"", s)),
        LTermInner::Var(_, name) => out.push_str(name),
        LTermInner::Empty => out.push_str("()"),
        LTermInner::Cons(_, _) => {
            out.push('(');
            let mut cur = t;
            let mut first = true;
            loop {
                match cur.as_ref() {
                    LTermInner::Cons(h, tl) => {
                        if !first {
                            out.push(' ');
                        }
                        first = false;
                        show_named(h, out);
                        cur = tl;
                    }
                    LTermInner::Empty => break,
                    _ => {
                        out.push_str(" . ");
                        show_named(cur, out);
                        break;
                    }
                }
            }
            out.push(')')
        }
        LTermInner::Compound(c) => {
            out.push('{');
            out.push_str(c.type_name());
            fn kids(c: &dyn proto_vulcan::compound::CompoundObject<U, E>, out: &mut String) {
                for child in c.children() {
                    match child.as_term() {
                        Some(t) => {
                            out.push(' ');
                            show_named(t, out)
                        }
                        None => kids(child, out),
                    }
                }
            }
            kids(c.as_ref(), out);
            out.push('}')
        }
        _ => out.push_str("<other>"),
    }
}

fn named(t: &T) -> String {
    let mut s = String::new();
    show_named(t, &mut s);
    s
}

// (unify (vars x0 x1 ..) (prior (U V) ...) U V)
pub fn run_unify(args: &[Sexp]) -> String {
    let mut env = Env::new();
    let mut vars: Vec<T> = vec![];
    for n in &args[0].list()[1..] {
        let name: &'static str = Box::leak(n.atom().to_string().into_boxed_str());
        let v: T = LTerm::var(name);
        vars.push(v.clone());
        env = env.bind(n.atom(), v);
    }
    let mut state: State<U, E> = State::new(HUser::default());
    for p in &args[1].list()[1..] {
        let l = p.list();
        let (u, v) = (build_term(&env, &l[0]), build_term(&env, &l[1]));
        match state.unify(&u, &v) {
            Ok(s) => state = s,
            Err(_) => return "prior-fail".to_string(),
        }
    }
    let (u, v) = (build_term(&env, &args[2]), build_term(&env, &args[3]));
    match state.unify(&u, &v) {
        Err(_) => "fail".to_string(),
        Ok(s) => {
            let su = s.smap_ref().walk_star(&u);
            let sv = s.smap_ref().walk_star(&v);
            let binds: Vec<String> = vars.iter().map(|x| named(&s.smap_ref().walk_star(x))).collect();
            format!("ok {} {} ({}) {}", named(&su), named(&sv), binds.join(" "), s.user_state.n_ext)
        }
    }
}

// ---------------------------------------------------------------- LTerm API (C21)
fn lenv(vars: &[&'static str]) -> (Env, Vec<T>) {
    let mut env = Env::new();
    let mut vs = vec![];
    for n in vars {
        let v: T = LTerm::var(n);
        vs.push(v.clone());
        env = env.bind(n, v);
    }
    (env, vs)
}

fn hash_of(t: &T) -> u64 {
    use std::hash::{Hash, Hasher};
    let mut h = std::collections::hash_map::DefaultHasher::new();
    t.hash(&mut h);
    h.finish()
}

fn opt(t: Option<&T>) -> String {
    match t {
        Some(x) => named(x),
        None => "none".to_string(),
    }
}

// (lterm OP ARG...) ; variables x0 x1 x2 are fixed per case line
pub fn run_lterm(args: &[Sexp]) -> String {
    let (env, _vs) = lenv(&["x0", "x1", "x2"]);
    let op = args[0].atom();
    let t = |i: usize| build_term(&env, &args[i]);
    let ts = |i: usize| -> Vec<T> { args[i].list().iter().map(|x| build_term(&env, x)).collect() };
    match op {
        "eq" => {
            let (a, b) = (t(1), t(2));
            let e = a == b;
            let sym = b == a;
            let refl = a == a.clone();
            let hs = hash_of(&a) == hash_of(&b);
            let mut m = std::collections::HashMap::new();
            m.insert(a.clone(), 1);
            let found = m.contains_key(&b);
            format!("{} sym={} refl={} hash_equal={} map_lookup={}", e, sym, refl, hs, found)
        }
        "eqm" => {
            // as "eq", after the first term was traversed (not changed) through the &mut accessors on a handle that
            // shares its cells with other handles: equality, hash and map lookup must not notice
            fn touch(t: &mut T) {
                if let Some(h) = t.head_mut() {
                    touch(h);
                }
                if let Some(n) = t.tail_mut() {
                    touch(n);
                }
            }
            let (a, b) = (t(1), t(2));
            let mut a2 = a.clone();
            touch(&mut a2);
            for x in a2.iter_mut() {
                let _ = x;
            }
            let e = a2 == b;
            let sym = b == a2;
            let refl = a2 == a;
            let hs = hash_of(&a2) == hash_of(&b);
            let mut m = std::collections::HashMap::new();
            m.insert(a2.clone(), 1);
            let found = m.contains_key(&b);
            format!("{} sym={} refl={} hash_equal={} map_lookup={}", e, sym, refl, hs, found)
        }
        "from_vec" => named(&LTerm::from_vec(ts(1))),
        "from_array" => named(&LTerm::from_array(ts(1).as_slice())),
        "collect" => named(&ts(1).into_iter().collect::<T>()),
        "improper" => named(&LTerm::improper_from_vec(ts(1))),
        "improper_array" => named(&LTerm::improper_from_array(ts(1).as_slice())),
        "iter" => format!("[{}]", t(1).iter().map(named).collect::<Vec<String>>().join(" ")),
        "into_iter" => {
            let u = t(1);
            let v: Vec<String> = (&u).into_iter().map(named).collect();
            format!("[{}]", v.join(" "))
        }
        "iter_mut" => {
            let mut u = t(1);
            let v: Vec<String> = u.iter_mut().map(|x| named(x)).collect();
            format!("[{}]", v.join(" "))
        }
        "iter_mut_set" => {
            let mut u = t(1);
            let w = t(2);
            for x in u.iter_mut() {
                *x = w.clone();
            }
            named(&u)
        }
        "extend" => {
            let mut u = t(1);
            u.extend(ts(2));
            named(&u)
        }
        "index" => {
            let u = t(1);
            named(&u[args[2].int() as usize])
        }
        "head" => opt(t(1).head()),
        "tail" => opt(t(1).tail()),
        "is_list" => t(1).is_list().to_string(),
        "is_empty" => t(1).is_empty().to_string(),
        "is_improper" => t(1).is_improper().to_string(),
        "is_non_empty_list" => t(1).is_non_empty_list().to_string(),
        "contains" => t(1).contains(&t(2)).to_string(),
        "display" => format!("{}", t(1)),
        _ => panic!("harness: bad lterm op"),
    }
}
