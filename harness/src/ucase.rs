// C01 / C20 / C21: direct unification through State::unify, and the LTerm API.
use crate::prog::{build_term, Env, HUser, E, T, U};
use crate::sexp::Sexp;
use proto_vulcan::lterm::{LTerm, LTermInner};
use proto_vulcan::lvalue::LValue;
use proto_vulcan::state::State;

fn show_named(t: &T, out: &mut String) {
    match t.as_ref() {
        LTermInner::Val(LValue::Number(n)) => out.push_str(&n.to_string()),
        LTermInner::Val(LValue::Bool(b)) => out.push_str(if *b { "#t" } else { "#f" }),
        LTermInner::Val(LValue::Char(c)) => out.push_str(&format!("'{}", *c as u32)),
        LTermInner::Val(LValue::String(s)) => out.push_str(&format!("\"{}\"", s)),
        LTermInner::Var(_, name) => out.push_str(name),
        LTermInner::Empty => out.push_str("()"),
        LTermInner::Cons(_, _) => {
            out.push('(');
            let mut cur = t;
            let mut first = true;
            loop {
                match cur.as_ref() {
                    LTermInner::Cons(h, tl) => {
                        if !first {
                            out.push(' ');
                        }
                        first = false;
                        show_named(h, out);
                        cur = tl;
                    }
                    LTermInner::Empty => break,
                    _ => {
                        out.push_str(" . ");
                        show_named(cur, out);
                        break;
                    }
                }
            }
            out.push(')')
        }
        LTermInner::Compound(c) => {
            out.push('{');
            out.push_str(c.type_name());
            fn kids(c: &dyn proto_vulcan::compound::CompoundObject<U, E>, out: &mut String) {
                for child in c.children() {
                    match child.as_term() {
                        Some(t) => {
                            out.push(' ');
                            show_named(t, out)
                        }
                        None => kids(child, out),
                    }
                }
            }
            kids(c.as_ref(), out);
            out.push('}')
        }
        _ => out.push_str("<other>"),
    }
}

fn named(t: &T) -> String {
    let mut s = String::new();
    show_named(t, &mut s);
    s
}

// (unify (vars x0 x1 ..) (prior (U V) ...) U V)
pub fn run_unify(args: &[Sexp]) -> String {
    let mut env = Env::new();
    let mut vars: Vec<T> = vec![];
    for n in &args[0].list()[1..] {
        let name: &'static str = Box::leak(n.atom().to_string().into_boxed_str());
        let v: T = LTerm::var(name);
        vars.push(v.clone());
        env = env.bind(n.atom(), v);
    }
    let mut state: State<U, E> = State::new(HUser::default());
    for p in &args[1].list()[1..] {
        let l = p.list();
        let (u, v) = (build_term(&env, &l[0]), build_term(&env, &l[1]));
        match state.unify(&u, &v) {
            Ok(s) => state = s,
            Err(_) => return "prior-fail".to_string(),
        }
    }
    let (u, v) = (build_term(&env, &args[2]), build_term(&env, &args[3]));
    match state.unify(&u, &v) {
        Err(_) => "fail".to_string(),
        Ok(s) => {
            let su = s.smap_ref().walk_star(&u);
            let sv = s.smap_ref().walk_star(&v);
            let binds: Vec<String> = vars.iter().map(|x| named(&s.smap_ref().walk_star(x))).collect();
            format!("ok {} {} ({}) {}", named(&su), named(&sv), binds.join(" "), s.user_state.n_ext)
        }
    }
}
