// Generic program runner: builds goals from s-expressions through the public API of the
// library (the same constructor calls the macros expand to) and runs a query.
use crate::sexp::Sexp;
use proto_vulcan::engine::DefaultEngine;
use proto_vulcan::goal::{AnyGoal, DFSGoal, Goal};
use proto_vulcan::lresult::LResult;
use proto_vulcan::lterm::{LTerm, LTermInner};
use proto_vulcan::lvalue::LValue;
use proto_vulcan::operator::closure::Closure;
use proto_vulcan::operator::conda::Conda;
use proto_vulcan::operator::conde::Conde;
use proto_vulcan::operator::condu::Condu;
use proto_vulcan::operator::conj::{Conj, InferredConj};
use proto_vulcan::operator::fngoal::FnGoal;
use proto_vulcan::operator::fresh::Fresh;
use proto_vulcan::operator::project::Project;
use proto_vulcan::operator::{ClosureOperatorParam, ForOperatorParam, OperatorParam};
use proto_vulcan::query::{Query, QueryResult};
use proto_vulcan::relation::diseq::DisequalityConstraint;
use proto_vulcan::solver::Solver;
use proto_vulcan::state::constraint::Constraint;
use proto_vulcan::state::{SMap, SResult, State};
use proto_vulcan::stream::Stream;
use proto_vulcan::user::User;
use proto_vulcan::GoalCast;
use std::cell::RefCell;
use std::collections::HashMap;
use std::rc::Rc;

// ---------------------------------------------------------------- instrumented user state (C22)
#[derive(Debug, Clone, Default)]
pub struct HUser {
    pub n_with: usize,
    pub n_take: usize,
    pub n_ext: usize,
    pub n_badkey: usize,
    pub last_ext: Vec<String>,
    pub probes: Vec<String>,
}

pub type U = HUser;
pub type E = DefaultEngine<HUser>;
pub type T = LTerm<U, E>;

impl User for HUser {
    type UserTerm = ();
    type UserContext = ();

    fn process_extension<EE: proto_vulcan::engine::Engine<Self>>(
        mut state: State<Self, EE>,
        extension: &SMap<Self, EE>,
    ) -> SResult<Self, EE> {
        state.user_state.n_ext += 1;
        // every reported binding must be an entry of the substitution the hook sees (the variable that was actually bound)
        let bad = extension.iter().filter(|(k, t)| state.smap_ref().get(*k) != Some(*t)).count();
        state.user_state.n_badkey += bad;
        let mut v: Vec<String> = extension.iter().map(|(_k, t)| shape(t)).collect();
        v.sort();
        state.user_state.last_ext = v;
        Ok(state)
    }

    fn with_constraint<EE: proto_vulcan::engine::Engine<Self>>(
        state: &mut State<Self, EE>,
        _constraint: &Rc<dyn Constraint<Self, EE>>,
    ) {
        state.user_state.n_with += 1;
    }

    fn take_constraint<EE: proto_vulcan::engine::Engine<Self>>(
        state: &mut State<Self, EE>,
        _constraint: &Rc<dyn Constraint<Self, EE>>,
    ) {
        state.user_state.n_take += 1;
    }
}

thread_local! {
    static PROBES: RefCell<Vec<String>> = RefCell::new(vec![]);
    static NAMES: RefCell<HashMap<String, &'static str>> = RefCell::new(HashMap::new());
}

fn intern(s: &str) -> &'static str {
    NAMES.with(|n| {
        let mut n = n.borrow_mut();
        if let Some(r) = n.get(s) {
            return *r;
        }
        let leaked: &'static str = Box::leak(s.to_string().into_boxed_str());
        n.insert(s.to_string(), leaked);
        leaked
    })
}

// ---------------------------------------------------------------- printing
pub fn show_term_any<EE: proto_vulcan::engine::Engine<HUser>>(t: &LTerm<HUser, EE>) -> String {
    let mut s = String::new();
    show_into(t, &mut s);
    s
}

fn show_into<EE: proto_vulcan::engine::Engine<HUser>>(t: &LTerm<HUser, EE>, out: &mut String) {
    match t.as_ref() {
        LTermInner::Val(LValue::Number(n)) => out.push_str(&n.to_string()),
        LTermInner::Val(LValue::Bool(b)) => out.push_str(if *b { "#t" } else { "#f" }),
        LTermInner::Val(LValue::Char(c)) => out.push_str(&format!("'{}", *c as u32)),
        LTermInner::Val(LValue::String(s)) => out.push_str(&format!("\"{}\"", s)),
        LTermInner::Var(uid, name) => {
            if *name == "_" {
                out.push_str(&format!("_{}", uid))
            } else {
                out.push_str(&format!("?{}", uid))
            }
        }
        LTermInner::User(_) => out.push_str("<user>"),
        LTermInner::Projection(p) => {
            out.push_str("<proj ");
            show_into(p, out);
            out.push('>')
        }
        LTermInner::Empty => out.push_str("()"),
        LTermInner::Cons(_, _) => {
            out.push('(');
            let mut cur = t;
            let mut first = true;
            loop {
                match cur.as_ref() {
                    LTermInner::Cons(h, tl) => {
                        if !first {
                            out.push(' ');
                        }
                        first = false;
                        show_into(h, out);
                        cur = tl;
                    }
                    LTermInner::Empty => break,
                    _ => {
                        out.push_str(" . ");
                        show_into(cur, out);
                        break;
                    }
                }
            }
            out.push(')')
        }
        LTermInner::Compound(c) => {
            out.push('{');
            out.push_str(if c.type_name().is_empty() { "Tup" } else { c.type_name() });
            show_children(c.as_ref(), out);
            out.push('}')
        }
    }
}

fn show_children<EE: proto_vulcan::engine::Engine<HUser>>(
    c: &dyn proto_vulcan::compound::CompoundObject<HUser, EE>,
    out: &mut String,
) {
    for child in c.children() {
        match child.as_term() {
            Some(t) => {
                out.push(' ');
                show_into(t, out)
            }
            None => {
                // a typed field that is not a term (Option<..>): one compound type for Some and None
                out.push_str(" {Opt");
                show_children(child, out);
                out.push('}')
            }
        }
    }
}

// term with every variable blanked (used where variable identities cannot be compared)
pub fn shape<EE: proto_vulcan::engine::Engine<HUser>>(t: &LTerm<HUser, EE>) -> String {
    match t.as_ref() {
        LTermInner::Var(_, _) => "?".to_string(),
        LTermInner::Cons(h, tl) => format!("(. {} {})", shape(h), shape(tl)),
        LTermInner::Compound(c) => {
            let mut out = String::from("{");
            shape_children(c.as_ref(), &mut out);
            out.push('}');
            out
        }
        _ => show_term_any(t),
    }
}

fn shape_children<EE: proto_vulcan::engine::Engine<HUser>>(
    c: &dyn proto_vulcan::compound::CompoundObject<HUser, EE>,
    out: &mut String,
) {
    for child in c.children() {
        match child.as_term() {
            Some(t) => {
                out.push(' ');
                out.push_str(&shape(t))
            }
            None => {
                out.push_str(" {");
                shape_children(child, out);
                out.push('}')
            }
        }
    }
}

// ---------------------------------------------------------------- environments and definitions
#[derive(Clone)]
pub struct Env(Option<Rc<(String, T, Env)>>);

impl Env {
    pub fn new() -> Env {
        Env(None)
    }
    pub fn bind(&self, name: &str, t: T) -> Env {
        Env(Some(Rc::new((name.to_string(), t, self.clone()))))
    }
    pub fn get(&self, name: &str) -> Option<T> {
        let mut cur = self;
        while let Some(rc) = &cur.0 {
            if rc.0 == name {
                return Some(rc.1.clone());
            }
            cur = &rc.2;
        }
        None
    }
}

pub struct Def {
    params: Vec<String>,
    closure: bool,
    body: Sexp,
}

pub type Defs = Rc<HashMap<String, Def>>;

pub trait K: AnyGoal<U, E> + Sized {
    fn from_bfs(g: Goal<U, E>) -> Self;
    // the public binary-disjunction API of this goal kind: (disj new|vec|array|conjs clause...)
    fn disj(variant: &str, clauses: Vec<Vec<Self>>) -> Self;
}
impl K for Goal<U, E> {
    fn from_bfs(g: Goal<U, E>) -> Self {
        g
    }
    fn disj(variant: &str, b: Vec<Vec<Self>>) -> Self {
        use proto_vulcan::operator::disj::Disj;
        let gs: Vec<Goal<U, E>> = b.iter().map(|c| conj_arr::<Goal<U, E>>(c)).collect();
        match variant {
            "new" => Disj::new(gs[0].clone(), gs[1].clone()),
            "vec" => Disj::from_vec(gs),
            "array" => Disj::from_array(gs.as_slice()),
            "conjs" => with_slices(&b, |s| Disj::from_conjunctions(s)),
            _ => panic!("harness: bad disj variant"),
        }
    }
}
impl K for DFSGoal<U, E> {
    fn from_bfs(_g: Goal<U, E>) -> Self {
        panic!("harness: BFS-only operator inside dfs")
    }
    fn disj(variant: &str, b: Vec<Vec<Self>>) -> Self {
        use proto_vulcan::operator::disj::DFSDisj;
        let gs: Vec<DFSGoal<U, E>> = b.iter().map(|c| conj_arr::<DFSGoal<U, E>>(c)).collect();
        match variant {
            "new" => DFSDisj::new(gs[0].clone(), gs[1].clone()),
            "vec" => DFSDisj::from_vec(gs),
            "array" => DFSDisj::from_array(gs.as_slice()),
            "conjs" => with_slices(&b, |s| DFSDisj::from_conjunctions(s)),
            _ => panic!("harness: bad disj variant"),
        }
    }
}

// ---------------------------------------------------------------- terms
pub fn build_term(env: &Env, e: &Sexp) -> T {
    match e {
        Sexp::A(a) => match a.as_str() {
            "nil" => LTerm::empty_list(),
            "_" => LTerm::any(),
            "#t" => LTerm::from(true),
            "#f" => LTerm::from(false),
            s => {
                if let Ok(n) = s.parse::<isize>() {
                    LTerm::from(n)
                } else {
                    env.get(s).unwrap_or_else(|| panic!("harness: unbound name {}", s))
                }
            }
        },
        Sexp::L(l) => match l[0].atom() {
            "s" => LTerm::from(format!("s{}", l[1].atom()).as_str()),
            "c" => LTerm::from(std::char::from_u32(l[1].int() as u32).unwrap()),
            "cons" => LTerm::cons(build_term(env, &l[1]), build_term(env, &l[2])),
            "list" => LTerm::from_vec(l[1..].iter().map(|x| build_term(env, x)).collect()),
            "ilist" => LTerm::improper_from_vec(l[1..].iter().map(|x| build_term(env, x)).collect()),
            "comp" => crate::comp::build_comp(l[1].atom(), l[2..].iter().map(|x| build_term(env, x)).collect()),
            k => panic!("harness: bad term {}", k),
        },
    }
}

fn parse_fd(e: &Sexp) -> (Option<std::ops::RangeInclusive<isize>>, Vec<isize>) {
    let l = e.list();
    match l[0].atom() {
        "i" => (Some(l[1].int()..=l[2].int()), vec![]),
        "v" => (None, l[1..].iter().map(|x| x.int()).collect()),
        _ => panic!("harness: bad fd"),
    }
}

// ---------------------------------------------------------------- goals
fn conj_arr<G: K>(gs: &[G]) -> G {
    InferredConj::<U, E, G>::from_array(gs).cast_into()
}

fn build_list<G: K>(defs: &Defs, env: &Env, es: &[Sexp]) -> Vec<G> {
    es.iter().map(|e| build::<G>(defs, env, e)).collect()
}

// operator body: a list of clauses, each either `(conj g...)` (an array of goals) or a single goal
fn build_op_body<G: K>(defs: &Defs, env: &Env, es: &[Sexp]) -> Vec<Vec<G>> {
    es.iter()
        .map(|e| match e {
            Sexp::L(l) if !l.is_empty() && l[0] == Sexp::A("conj".to_string()) => build_list::<G>(defs, env, &l[1..]),
            _ => vec![build::<G>(defs, env, e)],
        })
        .collect()
}

fn with_slices<G, R>(v: &Vec<Vec<G>>, f: impl FnOnce(&[&[G]]) -> R) -> R {
    let s: Vec<&[G]> = v.iter().map(|x| x.as_slice()).collect();
    f(s.as_slice())
}

fn pat_names(e: &Sexp, out: &mut Vec<String>) {
    match e {
        Sexp::A(a) => {
            let s = a.as_str();
            if s != "nil" && s != "_" && s != "#t" && s != "#f" && s.parse::<isize>().is_err() && !out.contains(a) {
                out.push(a.clone());
            }
        }
        Sexp::L(l) => match l[0].atom() {
            "s" | "c" => {}
            "comp" => l[2..].iter().for_each(|x| pat_names(x, out)),
            _ => l[1..].iter().for_each(|x| pat_names(x, out)),
        },
    }
}

fn lib_call<G: K>(name: &str, a: Vec<T>) -> G {
    use proto_vulcan::relation as r;
    let mut it = a.into_iter();
    let mut nx = || it.next().unwrap_or_else(|| panic!("harness: missing argument"));
    match name {
        "member" => r::member::<U, E, G>(nx(), nx()).cast_into(),
        "member1" => r::member1::<U, E, G>(nx(), nx()).cast_into(),
        "append" => r::append::<U, E, G>(nx(), nx(), nx()).cast_into(),
        "rember" => r::rember::<U, E, G>(nx(), nx(), nx()).cast_into(),
        "permute" => r::permute::<U, E, G>(nx(), nx()).cast_into(),
        "distinct" => r::distinct::<U, E, G>(nx()).cast_into(),
        "cons" => r::cons::<U, E, G>(nx(), nx(), nx()).cast_into(),
        "first" => r::first::<U, E, G>(nx(), nx()).cast_into(),
        "rest" => r::rest::<U, E, G>(nx(), nx()).cast_into(),
        "empty" => r::empty::<U, E, G>(nx()).cast_into(),
        "never" => G::from_bfs(r::never::<U, E>()),
        "always" => G::from_bfs(r::always::<U, E>()),
        _ => panic!("harness: unknown library relation {}", name),
    }
}

fn rel_call<G: K>(name: &str, a: Vec<T>) -> G {
    use proto_vulcan::relation as r;
    let mut it = a.into_iter();
    let mut nx = || it.next().unwrap_or_else(|| panic!("harness: missing argument"));
    match name {
        "ltefd" => r::ltefd::<U, E, G>(nx(), nx()).cast_into(),
        "ltfd" => r::ltfd::<U, E, G>(nx(), nx()).cast_into(),
        "plusfd" => r::plusfd::<U, E, G>(nx(), nx(), nx()).cast_into(),
        "minusfd" => r::minusfd::<U, E, G>(nx(), nx(), nx()).cast_into(),
        "timesfd" => r::timesfd::<U, E, G>(nx(), nx(), nx()).cast_into(),
        "diseqfd" => r::diseqfd::<U, E, G>(nx(), nx()).cast_into(),
        "distinctfd" => r::distinctfd::<U, E, G>(nx()).cast_into(),
        "plusz" => r::plusz::<U, E, G>(nx(), nx(), nx()).cast_into(),
        "timesz" => r::timesz::<U, E, G>(nx(), nx(), nx()).cast_into(),
        _ => panic!("harness: unknown constraint relation {}", name),
    }
}

pub fn build<G: K>(defs: &Defs, env: &Env, e: &Sexp) -> G {
    match e {
        Sexp::A(a) => match a.as_str() {
            "true" => proto_vulcan::relation::succeed::<U, E, G>().cast_into(),
            "false" => proto_vulcan::relation::fail::<U, E, G>().cast_into(),
            k => panic!("harness: bad goal atom {}", k),
        },
        Sexp::L(l) => {
            let args = &l[1..];
            match l[0].atom() {
                "eq" => proto_vulcan::relation::eq::<U, E, G>(build_term(env, &args[0]), build_term(env, &args[1])).cast_into(),
                "neq" => proto_vulcan::relation::diseq::<U, E, G>(build_term(env, &args[0]), build_term(env, &args[1])).cast_into(),
                "conj" => conj_arr(&build_list::<G>(defs, env, args)),
                "fresh" => {
                    let mut env2 = env.clone();
                    let mut vars = vec![];
                    for n in args[0].list() {
                        let v: T = LTerm::var(intern(n.atom()));
                        vars.push(v.clone());
                        env2 = env2.bind(n.atom(), v);
                    }
                    let body = conj_arr(&build_list::<G>(defs, &env2, &args[1..]));
                    Fresh::new(vars, body).cast_into()
                }
                "cond" => {
                    let b = build_op_body::<G>(defs, env, args);
                    with_slices(&b, |s| Conde::<U, E, G>::from_conjunctions(s).cast_into())
                }
                // the disjunction built through Conde::from_vec from the goals as they are (no conjunction wrapper per clause)
                "condv" => Conde::<U, E, G>::from_vec(build_list::<G>(defs, env, args)).cast_into(),
                "mapsum" => {
                    // the public labeling combinator map_sum, nested: (mapsum (x v1 v2 ..) (y w1 ..) ..): x is one of the v's, then y
                    // one of the w's, ..; every level is a goal whose solve returns the (mature) map_sum stream of the next level
                    fn ms(levels: Rc<Vec<(T, Vec<T>)>>, i: usize, solver: &Solver<U, E>, state: State<U, E>) -> Stream<U, E> {
                        if i >= levels.len() {
                            return Stream::unit(Box::new(state));
                        }
                        let (x, vals) = levels[i].clone();
                        let lv = levels.clone();
                        proto_vulcan::state::map_sum::map_sum(
                            solver,
                            state,
                            move |v: T| {
                                let (x, lv) = (x.clone(), lv.clone());
                                FnGoal::new::<Goal<U, E>>(Box::new(move |solver2: &Solver<U, E>, st2: State<U, E>| match st2.unify(&x, &v) {
                                    Ok(s) => ms(lv.clone(), i + 1, solver2, s),
                                    Err(_) => Stream::empty(),
                                }))
                                .cast_into()
                            },
                            vals.into_iter(),
                        )
                    }
                    let levels: Vec<(T, Vec<T>)> = args
                        .iter()
                        .map(|l| {
                            let l = l.list();
                            (build_term(env, &l[0]), l[1..].iter().map(|e| build_term(env, e)).collect())
                        })
                        .collect();
                    let levels = Rc::new(levels);
                    G::from_bfs(FnGoal::new::<Goal<U, E>>(Box::new(move |solver: &Solver<U, E>, state: State<U, E>| {
                        ms(levels.clone(), 0, solver, state)
                    }))
                    .cast_into())
                }
                "reuse" => {
                    // ONE goal value used n times in a conjunction (goal values are cheap clones of one another): (reuse n g)
                    let n = args[0].int() as usize;
                    let g = build::<G>(defs, env, &args[1]);
                    conj_arr(&vec![g; n])
                }
                "disj" => {
                    // the public binary-disjunction API (not what the macros expand conde to): (disj new|vec|array|conjs clause...)
                    let b = build_op_body::<G>(defs, &env, &args[1..]);
                    G::disj(args[0].atom(), b)
                }
                "conda" => {
                    let b = build_op_body::<Goal<U, E>>(defs, env, args);
                    G::from_bfs(with_slices(&b, |s| proto_vulcan::operator::conda(OperatorParam::new(s))))
                }
                "condu" => {
                    let b = build_op_body::<Goal<U, E>>(defs, env, args);
                    G::from_bfs(with_slices(&b, |s| proto_vulcan::operator::condu(OperatorParam::new(s))))
                }
                "onceo" => {
                    let b = build_op_body::<Goal<U, E>>(defs, env, args);
                    G::from_bfs(with_slices(&b, |s| proto_vulcan::operator::onceo(OperatorParam::new(s))))
                }
                "loop" => {
                    let b = build_op_body::<Goal<U, E>>(defs, env, args);
                    G::from_bfs(with_slices(&b, |s| proto_vulcan::operator::anyo(OperatorParam::new(s))))
                }
                "dfs" => {
                    let b = build_op_body::<DFSGoal<U, E>>(defs, env, args);
                    with_slices(&b, |s| proto_vulcan::operator::dfs::<U, E, G>(OperatorParam::new(s)).cast_into())
                }
                "closure" => {
                    let defs2 = defs.clone();
                    let env2 = env.clone();
                    let body: Vec<Sexp> = args.to_vec();
                    Closure::new(ClosureOperatorParam::new(Box::new(move || -> G {
                        conj_arr(&build_list::<G>(&defs2, &env2, &body))
                    })))
                    .cast_into()
                }
                "call" => {
                    let name = args[0].atom();
                    let d = defs.get(name).unwrap_or_else(|| panic!("harness: unknown relation {}", name));
                    let actual: Vec<T> = args[1..].iter().map(|x| build_term(env, x)).collect();
                    let mut env2 = Env::new();
                    // later parameters shadow earlier ones on lookup, as in the model's [combine] lookup order
                    for (p, a) in d.params.iter().zip(actual.into_iter()).rev() {
                        env2 = env2.bind(p, a);
                    }
                    if d.closure {
                        let defs2 = defs.clone();
                        let body = d.body.clone();
                        Closure::new(ClosureOperatorParam::new(Box::new(move || -> G {
                            conj_arr(&[build::<G>(&defs2, &env2, &body)])
                        })))
                        .cast_into()
                    } else {
                        build::<G>(defs, &env2, &d.body)
                    }
                }
                "lib" => lib_call::<G>(args[0].atom(), args[1..].iter().map(|x| build_term(env, x)).collect()),
                "rel" => rel_call::<G>(args[0].atom(), args[1..].iter().map(|x| build_term(env, x)).collect()),
                "dom" => {
                    let u = build_term(env, &args[0]);
                    match parse_fd(&args[1]) {
                        (Some(r), _) => proto_vulcan::relation::infdrange::<U, E, G>(u, &r).cast_into(),
                        (None, v) => proto_vulcan::relation::infd::<U, E, G>(u, v.as_slice()).cast_into(),
                    }
                }
                "match" | "matche" | "matcha" | "matchu" => {
                    // (match T (arm (pats P...) G...) ...)
                    let mut arms: Vec<Vec<G>> = vec![];
                    let mut arms_bfs: Vec<Vec<Goal<U, E>>> = vec![];
                    let kind = l[0].atom();
                    for arm in &args[1..] {
                        let al = arm.list();
                        let pats = &al[1].list()[1..];
                        let body = &al[2..];
                        for p in pats {
                            let term = build_term(env, &args[0]);
                            let mut names = vec![];
                            pat_names(p, &mut names);
                            let mut env2 = env.clone();
                            for n in names.iter() {
                                env2 = env2.bind(n, LTerm::var(intern(n)));
                            }
                            let pattern = build_term(&env2, p);
                            if kind == "match" {
                                let mut clause: Vec<G> = vec![proto_vulcan::relation::eq::<U, E, G>(term, pattern).cast_into()];
                                clause.extend(build_list::<G>(defs, &env2, body));
                                arms.push(clause);
                            } else {
                                let mut clause: Vec<Goal<U, E>> =
                                    vec![proto_vulcan::relation::eq::<U, E, Goal<U, E>>(term, pattern).cast_into()];
                                clause.extend(build_list::<Goal<U, E>>(defs, &env2, body));
                                arms_bfs.push(clause);
                            }
                        }
                    }
                    match kind {
                        "match" => with_slices(&arms, |s| Conde::<U, E, G>::from_conjunctions(s).cast_into()),
                        "matche" => G::from_bfs(with_slices(&arms_bfs, |s| {
                            proto_vulcan::operator::matche(proto_vulcan::operator::PatternMatchOperatorParam::new(s))
                        })),
                        "matcha" => G::from_bfs(with_slices(&arms_bfs, |s| {
                            proto_vulcan::operator::matcha(proto_vulcan::operator::PatternMatchOperatorParam::new(s))
                        })),
                        _ => G::from_bfs(with_slices(&arms_bfs, |s| {
                            proto_vulcan::operator::matchu(proto_vulcan::operator::PatternMatchOperatorParam::new(s))
                        })),
                    }
                }
                "for" => {
                    // (for X COLL clause...)
                    let x = args[0].atom().to_string();
                    let coll = build_term(env, &args[1]);
                    let defs2 = defs.clone();
                    let env2 = env.clone();
                    let body: Vec<Sexp> = args[2..].to_vec();
                    proto_vulcan::operator::everyg(ForOperatorParam::new(
                        coll,
                        Box::new(move |t: T| -> G {
                            let env3 = env2.bind(&x, t);
                            let b = build_op_body::<G>(&defs2, &env3, &body);
                            with_slices(&b, |s| InferredConj::<U, E, G>::from_conjunctions(s).cast_into())
                        }),
                    ))
                    .cast_into()
                }
                "project" => {
                    // as Project::to_tokens: the body is built by a closure from the projected values
                    let names: Vec<String> = args[0].list().iter().map(|n| n.atom().to_string()).collect();
                    let vars: Vec<T> = names
                        .iter()
                        .map(|n| env.get(n).unwrap_or_else(|| panic!("harness: unbound name {}", n)))
                        .collect();
                    let defs2 = defs.clone();
                    let env2 = env.clone();
                    let body: Vec<Sexp> = args[1..].to_vec();
                    Project::new(
                        vars,
                        Box::new(move |projected: Vec<T>| -> G {
                            let mut env3 = env2.clone();
                            for (n, t) in names.iter().zip(projected.into_iter()) {
                                env3 = env3.bind(n, t);
                            }
                            let b: Vec<Vec<G>> = body.iter().map(|g| vec![build::<G>(&defs2, &env3, g)]).collect();
                            with_slices(&b, |s| InferredConj::<U, E, G>::from_conjunctions(s).cast_into())
                        }),
                    )
                    .cast_into()
                }
                "sq" => {
                    // a non-relational goal (the sqeq of the library's project tests): (sq U V) succeeds with V = U*U
                    // only if U *is* a number when the goal is built; it does not look U up in the state
                    let u = build_term(env, &args[0]);
                    let v = build_term(env, &args[1]);
                    sq::<G>(u, v)
                }
                "probe" => {
                    // records the hook counters and the store size of every state that reaches it
                    let tag = args[0].atom().to_string();
                    FnGoal::new::<G>(Box::new(move |_solver: &Solver<U, E>, state: State<U, E>| {
                        let n = state.cstore_ref().iter().count();
                        let line = format!(
                            "(probe {} {} {} {} {} ({}) {})",
                            tag,
                            state.user_state.n_with,
                            state.user_state.n_take,
                            n,
                            state.user_state.n_ext,
                            state.user_state.last_ext.join(" "),
                            state.user_state.n_badkey
                        );
                        let mut state = state;
                        state.user_state.probes.push(line);
                        if tag == "end" {
                            let lineage = format!("(lineage {})", state.user_state.probes.join(" "));
                            PROBES.with(|p| p.borrow_mut().push(lineage));
                        }
                        Stream::unit(Box::new(state))
                    }))
                    .cast_into()
                }
                k => panic!("harness: unknown goal {}", k),
            }
        }
    }
}

// ---------------------------------------------------------------- queries
pub struct HRes(pub Vec<LResult<U, E>>);
impl QueryResult<U, E> for HRes {
    fn from_vec(v: Vec<LResult<U, E>>) -> HRes {
        HRes(v)
    }
}

fn show_constraint(c: &Rc<dyn Constraint<U, E>>) -> String {
    match c.downcast_ref::<DisequalityConstraint<U, E>>() {
        Some(d) => {
            let mut pairs: Vec<String> = d
                .smap_ref()
                .iter()
                .map(|(k, v)| format!("({} {})", show_term_any(k), show_term_any(v)))
                .collect();
            pairs.sort();
            format!("({})", pairs.join(" "))
        }
        None => "(other)".to_string(),
    }
}

fn parse_defs(e: &Sexp) -> Defs {
    let mut m = HashMap::new();
    for d in &e.list()[1..] {
        let l = d.list();
        // (def NAME (params ...) closure|direct BODY)
        let params = l[2].list()[1..].iter().map(|x| x.atom().to_string()).collect();
        m.insert(
            l[1].atom().to_string(),
            Def { params, closure: l[3].atom() == "closure", body: l[4].clone() },
        );
    }
    Rc::new(m)
}

// (prog (defs ...) (query (q ...) G...) (max N) (budget K))
pub fn run(args: &[Sexp]) -> String {
    let defs = parse_defs(&args[0]);
    let ql = args[1].list();
    let names: Vec<String> = ql[1].list().iter().map(|x| x.atom().to_string()).collect();
    let maxans = args[2].list()[1].int() as usize;
    let budget = args[3].list()[1].int() as u64;
    let mut env = Env::new();
    let mut vars: Vec<T> = vec![];
    for n in names.iter() {
        let v: T = LTerm::var(intern(n));
        vars.push(v.clone());
        env = env.bind(n, v);
    }
    // the goal proto_vulcan_query! builds
    let qv: T = LTerm::var("__query__");
    let body: Vec<Goal<U, E>> = build_list::<Goal<U, E>>(&defs, &env, &ql[2..]);
    let goal: Goal<U, E> = Fresh::new(
        vec![qv.clone()],
        conj_arr::<Goal<U, E>>(&[
            proto_vulcan::relation::eq::<U, E, Goal<U, E>>(qv.clone(), LTerm::from_array(vars.as_slice())).cast_into(),
            Conj::from_array(body.as_slice()),
            proto_vulcan::state::reify(qv.clone()),
        ]),
    )
    .cast_into();
    let query: Query<HRes, U, E> = Query::new(vars.clone(), goal);
    PROBES.with(|p| p.borrow_mut().clear());
    proto_vulcan::verif::reset(budget, 100000);
    let mut out = String::new();
    let mut iter = query.run_with_user(HUser::default(), ());
    let mut count = 0usize;
    let mut last_steps = 0u64;
    let end;
    loop {
        if count >= maxans {
            // the answers asked for are all there; a step that does not return (inner cap) run on the way to the last
            // of them is work the iterator was not asked for
            end = if proto_vulcan::verif::exhausted() >= 2 { "innercap" } else { "limit" };
            break;
        }
        match iter.next() {
            Some(res) => {
                let steps = proto_vulcan::verif::next_steps();
                out.push_str("(ans (");
                for (i, r) in res.0.iter().enumerate() {
                    if i > 0 {
                        out.push(' ');
                    }
                    out.push_str(&show_term_any(&r.0));
                }
                out.push_str(") (");
                if let Some(r) = res.0.first() {
                    let mut cs: Vec<String> = r.1.iter().map(show_constraint).collect();
                    cs.sort();
                    out.push_str(&cs.join(" "));
                }
                out.push_str(") (");
                for (i, r) in res.0.iter().enumerate() {
                    if i > 0 {
                        out.push(' ');
                    }
                    let mut cs: Vec<String> = r.constraints().map(show_constraint).collect();
                    cs.sort();
                    out.push_str(&format!("({})", cs.join(" ")));
                }
                out.push_str(&format!(") {}) ", steps - last_steps));
                last_steps = steps;
                count += 1;
            }
            None => {
                end = match proto_vulcan::verif::exhausted() {
                    0 => "done",
                    1 => "budget",
                    _ => "innercap",
                };
                break;
            }
        }
    }
    // a second None after the end: fused
    let fused = if end == "done" { iter.next().is_none() && iter.next().is_none() } else { true };
    let probes = PROBES.with(|p| p.borrow().join(" "));
    format!("{}(end {}{}) (probes {})", out, end, if fused { "" } else { " notfused" }, probes)
}

// formatting of one answer, shared with the compiled surface-syntax batches (gen/surface.py)
pub fn fmt_answer(results: &[LResult<U, E>], steps: u64) -> String {
    let mut out = String::from("(ans (");
    for (i, r) in results.iter().enumerate() {
        if i > 0 {
            out.push(' ');
        }
        out.push_str(&show_term_any(&r.0));
    }
    out.push_str(") (");
    if let Some(r) = results.first() {
        let mut cs: Vec<String> = r.1.iter().map(show_constraint).collect();
        cs.sort();
        out.push_str(&cs.join(" "));
    }
    out.push_str(") (");
    for (i, r) in results.iter().enumerate() {
        if i > 0 {
            out.push(' ');
        }
        let mut cs: Vec<String> = r.constraints().map(show_constraint).collect();
        cs.sort();
        out.push_str(&format!("({})", cs.join(" ")));
    }
    out.push_str(&format!(") {}) ", steps));
    out
}

// the non-relational goal used with project (as sqeq in the library's own project tests)
// the number a term shows without consulting the substitution: itself, or the first number found
// going down the heads of lists and the first fields of compounds
pub fn first_number(t: &T) -> Option<isize> {
    match t.as_ref() {
        LTermInner::Val(LValue::Number(n)) => Some(*n),
        LTermInner::Cons(h, _) => first_number(h),
        LTermInner::Compound(o) => o.children().next().and_then(|k| k.as_term().and_then(first_number)),
        _ => None,
    }
}

pub fn sq<G: K>(u: T, v: T) -> G {
    FnGoal::new::<G>(Box::new(move |_solver: &Solver<U, E>, state: State<U, E>| match first_number(&u) {
        Some(n) => match state.unify(&LTerm::from(n * n), &v) {
            Ok(s) => Stream::unit(Box::new(s)),
            Err(_) => Stream::empty(),
        },
        None => Stream::empty(),
    }))
    .cast_into()
}
