// Minimal s-expression reader shared by every case kind.
#[derive(Debug, Clone, PartialEq)]
pub enum Sexp {
    A(String),
    L(Vec<Sexp>),
}

impl Sexp {
    pub fn atom(&self) -> &str {
        match self {
            Sexp::A(s) => s.as_str(),
            Sexp::L(_) => panic!("harness: atom expected, got {:?}", self),
        }
    }
    pub fn list(&self) -> &[Sexp] {
        match self {
            Sexp::L(v) => v.as_slice(),
            Sexp::A(_) => panic!("harness: list expected, got {:?}", self),
        }
    }
    pub fn int(&self) -> isize {
        self.atom().parse::<isize>().unwrap_or_else(|_| panic!("harness: bad int {:?}", self))
    }
    pub fn head(&self) -> &str {
        match self {
            Sexp::A(s) => s.as_str(),
            Sexp::L(v) => v[0].atom(),
        }
    }
}

pub fn parse(s: &str) -> Sexp {
    let b = s.as_bytes();
    let mut pos = 0usize;
    fn skip(b: &[u8], pos: &mut usize) {
        while *pos < b.len() && (b[*pos] == b' ' || b[*pos] == b'\t') {
            *pos += 1;
        }
    }
    fn go(b: &[u8], pos: &mut usize) -> Sexp {
        skip(b, pos);
        if *pos >= b.len() {
            panic!("harness: sexp eof");
        }
        if b[*pos] == b'(' {
            *pos += 1;
            let mut items = vec![];
            loop {
                skip(b, pos);
                if *pos >= b.len() {
                    panic!("harness: sexp unclosed");
                }
                if b[*pos] == b')' {
                    *pos += 1;
                    break;
                }
                items.push(go(b, pos));
            }
            Sexp::L(items)
        } else {
            let st = *pos;
            while *pos < b.len() && !matches!(b[*pos], b' ' | b'(' | b')' | b'\t') {
                *pos += 1;
            }
            Sexp::A(String::from_utf8_lossy(&b[st..*pos]).to_string())
        }
    }
    go(b, &mut pos)
}
